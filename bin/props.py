"""Per-property configuration of bin/check."""

COMMON_TRUSTED = [
    "Lean 4.33.0 kernel (thorough tier re-checks the property modules with leanchecker)",
    "axioms admitted: propext, Classical.choice, Quot.sound only (checked by `#print axioms` on every property theorem at every run); no native_decide, no bv_decide, no axioms of ours, no sorry",
    "Lean compiler/runtime for the model driver avfsdrv (evaluates the same definitions the theorems are about)",
    "correspondence harness /verif/harness (generators bound what the impl≟model tie sees; canonicalisation is part of the claim)",
    "Go toolchain go1.23.5",
]

FACTX = [dict(exe="factx", args=["/repo", "/verif/lean/Avfs/Generated/Wrap.lean"])]
MODEL_TRUST = ["modelled, not verified: Go maps and slices as association lists / lists, time.Now (modification times are compared only where Chtimes set them), math/rand temp names (taken from the implementation's answer)",
               "the MemFS model is hand-written from vfs/memfs/*.go and vfs.go; tied by corr memfs* (call results + internal node graph through the verif hook after every call)"]

PROPS = {
    "C02": dict(
        props_files=["Avfs/Props/C02.lean"],
        parts=[dict(name="memfs-files"), dict(name="kernel-files")],
        trusted=MODEL_TRUST + ["oracle: *os.File through OsFS in a chroot-ed child process on a fresh tmpfs directory"],
        assumptions=["file sizes far below 2^31", "one process; handles interleaved sequentially"],
        not_yet_proved=["refinement of whole handle histories to a pread/pwrite reference (per-operation theorems only)", "OrefaFS handles (model not built yet)"],
    ),
    "C03": dict(
        props_files=["Avfs/Props/C03.lean"],
        parts=[dict(name="memfs-perm")],
        trusted=MODEL_TRUST,
        assumptions=["one group per user, no ACLs, no capabilities other than the administrator's override"],
        not_yet_proved=["per-call equality of the decision with the kernel's (kernel oracle under setfsuid not wired in yet)", "sticky / setgid directory semantics"],
    ),
    "C09": dict(
        props_files=["Avfs/Props/C09.lean"],
        translators=FACTX,
        parts=[dict(name="rofs")],
        trusted=["translator harness/cmd/factx (go/ast, syntactic, fails closed: an unrecognised method body becomes Shape.unknown which no rule accepts)",
                 "the list of read-only base methods (Avfs.Wrap.readOnlyBase) — each is a query of the base models that returns the store unchanged"],
        assumptions=["RoFile.name uses reflect only to read the base file's name"],
        not_yet_proved=[],
    ),
    "C12": dict(
        props_files=["Avfs/Props/C12.lean"],
        translators=FACTX,
        parts=[dict(name="failfs")],
        trusted=["translator harness/cmd/factx (go/ast, syntactic, fails closed)"],
        assumptions=["composite helpers (Create, WriteFile, ReadFile, ReadDir, Glob, MkdirTemp) are the generic functions of vfs.go run over the wrapper: their behaviour under injected faults is checked by exhaustive single-fault enumeration per history, not proved"],
        not_yet_proved=["composite_fails as a theorem (enumerated, with three recorded exceptions in the ledger)"],
    ),
    "C16": dict(
        props_files=["Avfs/Props/C16.lean"],
        parts=[dict(name="copy")],
        trusted=["modelled, not verified: io.CopyBuffer and io.MultiWriter of the Go standard library (loop transliterated into Avfs.Copy.copyLoop), sync.Pool, the hash.Hash passed in (sha256 in the correspondence)",
                 "fault injection through the repository's own FailFS on both sides (its consult-before-forward behaviour is property C12)"],
        assumptions=["source and destination are different files", "Read delivers min(32768, remaining) bytes then (0, io.EOF) (MemFS/OrefaFS/os.File behaviour, observed in every correspondence run through the primitive trace)"],
        not_yet_proved=[],
    ),
    "C13": dict(
        props_files=["Avfs/Props/C13.lean"],
        tags="verif,avfs_setostype",
        parts=[dict(name="path")],
        trusted=["modelled, not verified: strings.EqualFold as ASCII case folding (generator alphabet has no other cased runes); utf8.DecodeRuneInString re-implemented in Lean and compared on every run",
                 "oracle: the toolchain's path/filepath on the Linux host (Linux); for Windows there is no oracle in this run: impl ≟ model only"],
        assumptions=["string lengths far below 2^31", "SplitAbs is only required to work on absolute paths (its documented precondition)"],
        not_yet_proved=["clean_eq_spec (in progress)", "match_eq_spec", "rel_join", "Windows: theorems beyond length/inverse laws (executable model + correspondence only)"],
    ),
    "C15": dict(
        props_files=["Avfs/Props/C15.lean"],
        parts=[dict(name="idm")],
        trusted=["modelled, not verified: Go maps as association lists; sync.RWMutex (each MemIdm method body is one critical section; see C06/C08 for the locking)"],
        assumptions=["ids stay far below 2^63 (Int model)", "sequential histories; the concurrent part of C15 is carried by the lock-skeleton obligations shared with C06/C08"],
        not_yet_proved=[],
    ),
}
