"""Per-property configuration of bin/check."""

COMMON_TRUSTED = [
    "Lean 4.33.0 kernel (thorough tier re-checks the property modules with leanchecker)",
    "axioms admitted: propext, Classical.choice, Quot.sound only (checked by `#print axioms` on every property theorem at every run); no native_decide, no bv_decide, no axioms of ours, no sorry",
    "Lean compiler/runtime for the model driver avfsdrv (evaluates the same definitions the theorems are about)",
    "correspondence harness /verif/harness (generators bound what the impl≟model tie sees; canonicalisation is part of the claim)",
    "Go toolchain go1.23.5",
]

LOCKX = [dict(exe="lockx", args=["/repo", "/verif/lean/Avfs/Generated/Locks.lean"])]
CLEAN = "mkdir,mkdirall,writefile,readfile,stat,lstat,readdir,chmod,truncate,open,fileop,chtimes,chown"
RACE_CFG = [("memidm", "", 2), ("memfs", CLEAN, 3), ("memfs", "mkdir,remove", 2), ("orefafs", "mkdir,remove", 2), ("memfs", "link,remove", 2),
            ("memfs", "remove,writefile,stat", 2), ("orefafs", "remove,writefile,stat", 2), ("memfs", "symlink,lstat,lchown,readlink,stat,chown", 2)]
CONC_TRUST = ["translator harness/cmd/lockx (go/ast; intra-procedural must-held lockset: sequential flow, intersection at joins, defers; aliases through := and type assertions; fails closed on constructs it does not know); that the extracted facts over-approximate the real accesses is trusted",
              "Go memory model DRF-SC (reasoning at lock granularity)", "the race detector and free-running schedules are a search engine only"]
FACTX = [dict(exe="factx", args=["/repo", "/verif/lean/Avfs/Generated/Wrap.lean"])]
MODEL_TRUST = ["modelled, not verified: Go maps and slices as association lists / lists, time.Now (modification times are compared only where Chtimes set them), math/rand temp names (taken from the implementation's answer)",
               "the MemFS model is hand-written from vfs/memfs/*.go and vfs.go; tied by corr memfs* (call results + internal node graph through the verif hook after every call)",
               "the OrefaFS model (Avfs/FS/Orefa.lean) is hand-written from vfs/orefafs/*.go; tied by corr orefa (call results + node tree + path index through the verif hook after every call)"]

PROPS = {
    "C01": dict(
        props_files=["Avfs/Props/C01.lean", "Avfs/Props/C01_more.lean", "Avfs/Props/C01_links.lean"],
        parts=[dict(name="memfs"), dict(name="memfs-small"), dict(name="kernel-small", only_tier="thorough", args=["-scn", "namespace,link-budget,walk-answers,file-admin"]), dict(name="kernel"), dict(name="orefa"), dict(name="kernel-orefa")],
        trusted=MODEL_TRUST + ["oracle: the Linux kernel through OsFS / package os in a chroot-ed child process on a fresh tmpfs directory (corr kernel): MemFS itself, not the model, is compared call by call and tree by tree"],
        assumptions=["administrator; Linux emulation; the root directory is not an operand of remove/rename in the kernel comparison (the oracle's scratch root is not a file-system root)", "set-id bits are not generated in the kernel comparison (kernel-specific inheritance / clearing rules)"],
        not_yet_proved=["MemFS = POSIX reference is proved for Mkdir, Remove, Stat/Lstat, OpenFile (every flag value), Link, Truncate, Chmod, Chown (administrator) and Rename (file and directory sources) on clean absolute paths that meet no symbolic link (C01_*_posix over the component-wise resolution walkPath; the corners where MemFS deviates are explicit hypotheses with kernel-checked witnesses); RemoveAll, MkdirAll, Symlink/Readlink, the composites, paths through links, relative paths: equality with Linux is carried by the direct impl≟kernel oracle run and its ledger of divergence classes", "OrefaFS: executable model (Avfs/FS/Orefa.lean) tied by corr orefa (tree + path index after every call) and compared with the kernel by corr kernel-orefa; no theorems about it yet"],
    ),
    "C04": dict(
        props_files=["Avfs/Props/C04.lean", "Avfs/Props/C04_links.lean"],
        parts=[dict(name="memfs"), dict(name="memfs-small", args=["-scn", "namespace,link-budget"]), dict(name="kernel-links"), dict(name="path", tags="verif,avfs_setostype")],
        trusted=MODEL_TRUST + ["oracle: the Linux kernel and filepath.EvalSymlinks in a chroot-ed child on tmpfs"],
        assumptions=["link chains up to 42 around the budget of 40; random relative / absolute / dangling / cyclic targets"],
        not_yet_proved=["searchNode ≃ namei (structural kernel-style resolution) — the equality with the kernel is carried by the oracle run", "follow-mode never returns a link; readlink (symlink t n) = clean t as theorems"],
    ),
    "C05": dict(
        props_files=["Avfs/Props/C05.lean", "Avfs/Props/C05_rename.lean", "Avfs/Props/C05_frame.lean"],
        parts=[dict(name="memfs"), dict(name="memfs-perm"), dict(name="memfs-small"), dict(name="memfs-views"), dict(name="orefa")],
        trusted=MODEL_TRUST + ["wfCheck (the executable invariant) is evaluated by the Lean driver on the node graph dumped from the implementation after every call"],
        assumptions=["sequential histories (concurrent executions: C06)", "views whose root directory has been removed through another view are outside the theorem (kernel-checked witness C05_detached_view_witness)"],
        not_yet_proved=["the reachable-state theorem for MemFS (C05_reachable_wf) excludes Sub (detached views: witness C05_reachable_sub_witness)", "OrefaFS: the invariant (tree ≟ path index, link counts = number of keys) is proved for every reachable state of the MODEL (C05_orefa_reachable); on the implementation it is the consistency oracle evaluated after every call (corr orefa)"],
    ),
    "C06": dict(
        props_files=["Avfs/Props/C06.lean"],
        translators=LOCKX,
        parts=[],
        race=RACE_CFG,
        lin=[("memfs", "proved", 30000), ("orefafs", "proved", 15000), ("memfs", "known", 6000), ("orefafs", "known", 3000), ("memfs", "deadlock", 15000)],
        trusted=CONC_TRUST + ["two-phase model (Avfs/Conc/Lin.lean, LinDir.lean): the walk is ONE atomic look at the parent's entry (searchNode reads it under the parent's read lock), the commit is atomic (it runs under parent.mu.Lock(), and every access to the children map happens under that lock: C08_discipline_sites); the shape of the Go functions (walk, one commit lock, look-up under the lock before every mutation, nothing captured by the walk used afterwards) is extracted by lockx on every run and decided by the kernel (C06_commit_fresh_memfs, C06_stale_sites); that the abstract commit (dspec) is what the sequential MemFS MODEL computes on leaf names is proved (C06_memfs_concurrent_refines: simulation relation Sim, any log); that the Go commit computes what the model does is carried by the sequential correspondence of C01/C05 and by the linearizability search"],
        assumptions=["proved part: (1) operations that are one critical section (OrefaFS Mkdir/MkdirAll/Remove/RemoveAll, all MemIdm operations but AddUser); (2) MemFS Mkdir / OpenFile(O_CREATE|O_EXCL) / Remove on leaf names of directories that no concurrent call removes or renames, callers whose permissions do not change during the run"],
        not_yet_proved=["MemFS Link / Symlink / Rename / RemoveAll / MkdirAll (commits rely on the unlocked walk: recorded findings)", "calls below a directory that a concurrent call removes or renames (no dead-directory mark in MemFS: recorded finding)", "CreateTemp/MkdirTemp name uniqueness (follows from exclusive create; not stated separately)", "deterministic schedule exploration is not built (no scheduler hook in the source): counter-schedules are found by free-running search only"],
    ),
    "C08": dict(
        props_files=["Avfs/Props/C08.lean"],
        translators=LOCKX,
        parts=[],
        race=RACE_CFG,
        trusted=CONC_TRUST,
        assumptions=["the guard map: node fields by the node's mu, handle fields by the handle's mu, OrefaFS.nodes by vfs.mu, idm maps and counters by grpMu / usrMu; name, id, vfs, openMode immutable after construction"],
        not_yet_proved=["lockset_sound: facts satisfied ⇒ every trace of the functions is Disciplined (the bridge between the extracted facts and the trace semantics is the translator's meaning, not a theorem)"],
    ),
    "C07": dict(
        translators=LOCKX,
        race=[("memidm", "", 2), ("memfs", CLEAN, 2), ("memfs", "mkdir,remove", 2), ("orefafs", "mkdir,remove", 2)],
        lin=[("memfs", "deadlock", 25000)],
        props_files=["Avfs/Props/C07.lean", "Avfs/Props/C07_orefa.lean", "Avfs/Props/C07_rank.lean"],
        parts=[dict(name="memfs"), dict(name="memfs-files"), dict(name="memfs-small"), dict(name="orefa"), dict(name="failfs"), dict(name="rofs"), dict(name="bpfs"), dict(name="path", tags="verif,avfs_setostype")],
        trusted=MODEL_TRUST,
        assumptions=["part (a) only: sequential no-panic / no-hang; interleavings (b)(c) are C06/C08 work in progress"],
        not_yet_proved=["ranked lock acquisition of the real functions (generic theorem ranked_deadlock_free is proved in Avfs/Conc; the per-function rank obligations need the lock-skeleton translator)", "no-panic as a theorem for the OrefaFS model (the model has panic / hang outcomes exactly where the Go code would; the correspondence reports any it meets), RoFS, BasePathFS, FailFS"],
    ),
    "C10": dict(
        props_files=["Avfs/Props/C10.lean", "Avfs/Props/C10_sim.lean"],
        translators=FACTX,
        parts=[dict(name="bpfs")],
        trusted=["translator harness/cmd/factx (go/ast, syntactic, fails closed)", "the model of ToBasePath/FromBasePath is hand-written (Avfs/Wrap/BasePath.lean), tied by corr bpfs"],
        assumptions=["the base contains no symbolic link below the base directory that points outside it (BasePathFS refuses to create links)", "Linux path syntax"],
        not_yet_proved=["chroot simulation as a theorem (bpfs_sim): carried by the lockstep run against a standalone file system"],
    ),
    "C11": dict(
        props_files=["Avfs/Props/C11.lean", "Avfs/Props/C11_more.lean"],
        parts=[dict(name="memfs-views"), dict(name="memfs-small-views")],
        trusted=MODEL_TRUST,
        assumptions=["views are records over one shared heap, as `subFS := *vfs` copies them"],
        not_yet_proved=["sub_sim is proved for resolution and Mkdir, Remove, Stat, Lstat, Readlink, ReadDir, Chtimes, Chmod, Chown, Truncate, Symlink, Link, OpenFile, MkdirAll, Rename, RemoveAll on clean absolute link-free paths (C11_sub_sim_*: same result AND same new heap); for relative paths, paths through links and handle operations it is decided on the implementation by the twin simulation", "sub_confined in the graph sense (Desc of the view root)"],
    ),
    "C14": dict(
        props_files=["Avfs/Props/C14.lean", "Avfs/Props/C14_walk.lean", "Avfs/Props/C14_more.lean"],
        parts=[dict(name="memfs-enum"), dict(name="memfs-small"), dict(name="kernel-enum")],
        trusted=MODEL_TRUST + ["oracle: filepath.Glob, filepath.WalkDir, os.ReadDir through OsFS in a chroot-ed child on tmpfs; callbacks return SkipDir / SkipAll / an error at generated visit indexes"],
        assumptions=["MemFS only (the helpers are generic functions of vfs.go; other file systems run them over their own primitives)", "Linux pattern syntax"],
        not_yet_proved=["Glob through symbolic links to directories is characterised by the enumeration over path strings (C14_glob_spec), the heap-level characterisation (C14_glob_spec_heap) assumes no listed directory is reached through a link (witness that it is needed)", "equality with filepath.Glob / filepath.WalkDir is an oracle run"],
    ),
    "C17": dict(
        props_files=["Avfs/Props/C17.lean"],
        parts=[dict(name="ostype", tags="verif,avfs_setostype"), dict(name="ostype"), dict(name="volumes", tags="verif,avfs_setostype")],
        trusted=["oracle for the Windows emulation: the Linux-typed emulation of the same file system (itself compared with the kernel by C01), as the property says", "the model of SetOSType is hand-written (Avfs/OSType.lean), tied by the construction matrix run from two harness binaries (tag on / off)", "the volume model (Avfs/Volumes.lean: volume name ↦ names in its root directory) is hand-written and tied by corr volumes (every sequence of up to 3/4 volume calls + random ones, against a Windows-typed MemFS)"],
        assumptions=["host is Linux", "portable histories work below one common directory (the two OS types create different system directories)"],
        not_yet_proved=["os_agreement as a theorem (needs the Windows branches in the Lean file-system models); the volume theorems (C17_add_empty, C17_delete_gone, C17_delete_add_empty, C17_others_untouched, C17_list_iff, C17_touch) see a volume as the set of names in its root directory, not as a tree"],
    ),
    "C02": dict(
        props_files=["Avfs/Props/C02.lean", "Avfs/Props/C02_orefa.lean", "Avfs/Props/C02_dir.lean"],
        parts=[dict(name="memfs-files"), dict(name="memfs-small"), dict(name="kernel-small", only_tier="thorough", args=["-scn", "file-admin,dir-handle"]), dict(name="kernel-files"), dict(name="orefa"), dict(name="kernel-orefa")],
        trusted=MODEL_TRUST + ["oracle: *os.File through OsFS in a chroot-ed child process on a fresh tmpfs directory"],
        assumptions=["file sizes far below 2^31", "one process; handles interleaved sequentially"],
        not_yet_proved=["timestamps are not part of the references", "mixed use of ReadDir and Readdirnames on one handle shares one position between two snapshots: what is delivered then is characterised (C02_dir_mixed), it is not a no-repeat / no-skip stream (witnesses C02_dir_mixed_witnesses); rewinding differs from os.File (recorded finding dir-handle-rewinds)"],
    ),
    "C03": dict(
        props_files=["Avfs/Props/C03.lean", "Avfs/Props/C03_calls.lean"],
        parts=[dict(name="memfs-perm"), dict(name="memfs-small"), dict(name="kernel-small", only_tier="thorough", args=["-scn", "file-other,file-owner-readonly,file-group,removeall-foreign-subdir,removeall-sticky"]), dict(name="kernel-perm")],
        trusted=MODEL_TRUST,
        assumptions=["one group per user, no ACLs, no capabilities other than the administrator's override"],
        trusted_extra=["oracle: the Linux kernel in a chroot-ed child on tmpfs acting under setfsuid/setfsgid (raw per-thread syscalls, supplementary groups dropped) for every generated user"],
        not_yet_proved=["per-call equality of the decision with the kernel's as a theorem (it is an oracle run: corr kernel-perm)", "setgid directory inheritance (the sticky bit is implemented since the repair 968ed53, modelled, and compared with the kernel)"],
    ),
    "C09": dict(
        props_files=["Avfs/Props/C09.lean", "Avfs/Props/C09_model.lean"],
        translators=FACTX,
        parts=[dict(name="rofs")],
        trusted=["translator harness/cmd/factx (go/ast, syntactic, fails closed: an unrecognised method body becomes Shape.unknown which no rule accepts)",
                 "the list of read-only base methods (Avfs.Wrap.readOnlyBase) — for the calls the MemFS model has (Stat, Lstat, ReadDir, ReadFile, Readlink, EvalSymlinks, Getwd, Chdir, SetUMask) 'returns the store unchanged' is proved (C09_model_readonly_call / _history); the lexical helpers and handle reads are pure by inspection"],
        assumptions=["RoFile.name uses reflect only to read the base file's name"],
        not_yet_proved=[],
    ),
    "C12": dict(
        props_files=["Avfs/Props/C12.lean"],
        translators=FACTX,
        parts=[dict(name="failfs")],
        trusted=["translator harness/cmd/factx (go/ast, syntactic, fails closed)"],
        assumptions=["composite helpers (Create, WriteFile, ReadFile, ReadDir, Glob, MkdirTemp) are the generic functions of vfs.go run over the wrapper: their behaviour under injected faults is checked by exhaustive single-fault enumeration per history, not proved"],
        not_yet_proved=["composite_fails as a theorem (enumerated, with three recorded exceptions in the ledger)"],
    ),
    "C16": dict(
        props_files=["Avfs/Props/C16.lean"],
        parts=[dict(name="copy")],
        trusted=["modelled, not verified: io.CopyBuffer and io.MultiWriter of the Go standard library (loop transliterated into Avfs.Copy.copyLoop), sync.Pool, the hash.Hash passed in (sha256 in the correspondence)",
                 "fault injection through the repository's own FailFS on both sides (its consult-before-forward behaviour is property C12)"],
        assumptions=["source and destination are different files", "Read delivers min(32768, remaining) bytes then (0, io.EOF) (MemFS/OrefaFS/os.File behaviour, observed in every correspondence run through the primitive trace)"],
        not_yet_proved=[],
    ),
    "C13": dict(
        props_files=["Avfs/Props/C13.lean", "Avfs/Props/C13_match.lean", "Avfs/Props/C13_windows.lean"],
        tags="verif,avfs_setostype",
        parts=[dict(name="path")],
        trusted=["modelled, not verified: strings.EqualFold as ASCII case folding (generator alphabet has no other cased runes); utf8.DecodeRuneInString re-implemented in Lean and compared on every run",
                 "oracle: the toolchain's path/filepath on the Linux host (Linux); for Windows the toolchain's own Windows implementation (GOROOT/src/internal/filepathlite/path_windows.go, path/filepath/{path,path_windows,match}.go) retargeted mechanically on every run by harness/cmd/winx (declarations copied verbatim; runtime.GOOS, os.PathSeparator, os.IsPathSeparator and internal/* helpers rewritten; every loop given an iteration budget because the toolchain's Windows Rel does not terminate on some UNC inputs); Abs on Windows is compared with its documented meaning (Clean / Join with the current directory), syscall.FullPath having no counterpart"],
        assumptions=["string lengths far below 2^31", "SplitAbs is only required to work on absolute paths (its documented precondition)"],
        not_yet_proved=["Match = declarative glob semantics is proved for both OS types under the explicit decidable hypothesis Safe (only literals between two stars, or: the name has runes of at most 2 bytes and no class can match a separator in it); `true` and ErrBadPattern answers are proved right with NO hypothesis (C13_match_true_sound, C13_match_bad_sound); outside Safe a `false` answer of the non-backtracking star loop can be wrong — as filepath.Match's is (kernel-checked witnesses needSafe_*), so the oracle comparison agrees", "rel_join", "Windows: laws proved in Props/C13_windows.lean (volume name, FromSlash/ToSlash, Clean = volume ++ component-cleaned rest, IsAbs, Join rules, Split); several expected laws are FALSE for the Windows emulation exactly as for Go's own path/filepath (Clean is not idempotent on exotic inputs, Clean can change what VolumeName sees, IsAbs(Clean p) ≠ IsAbs p: kernel-checked witnesses); volume stability of Clean for UNC / device prefixes is validated by enumeration only"],
    ),
    "C15": dict(
        props_files=["Avfs/Props/C15.lean"],
        parts=[dict(name="idm")],
        lin=[("memidm", "proved", 30000), ("memidm", "known", 8000)],
        trusted=["modelled, not verified: Go maps as association lists; sync.RWMutex (mutual exclusion of writers, as in C06/C08)", "the lock-fact extractor harness/cmd/lockx (go/ast) for the section shape of the MemIdm methods"],
        assumptions=["ids stay far below 2^63 (Int model)", "the sequential theorems carry over to concurrent callers through C15_single_section + C15_atomic_sections_serial (every method but AddUser is one critical section); AddUser is two sections: recorded finding"],
        not_yet_proved=[],
    ),
}
