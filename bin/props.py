"""Per-property configuration of bin/check."""

COMMON_TRUSTED = [
    "Lean 4.33.0 kernel (thorough tier re-checks the property modules with leanchecker)",
    "axioms admitted: propext, Classical.choice, Quot.sound only (checked by `#print axioms` on every property theorem at every run); no native_decide, no bv_decide, no axioms of ours, no sorry",
    "Lean compiler/runtime for the model driver avfsdrv (evaluates the same definitions the theorems are about)",
    "correspondence harness /verif/harness (generators bound what the impl≟model tie sees; canonicalisation is part of the claim)",
    "Go toolchain go1.23.5",
]

PROPS = {
    "C16": dict(
        props_files=["Avfs/Props/C16.lean"],
        parts=[dict(name="copy")],
        trusted=["modelled, not verified: io.CopyBuffer and io.MultiWriter of the Go standard library (loop transliterated into Avfs.Copy.copyLoop), sync.Pool, the hash.Hash passed in (sha256 in the correspondence)",
                 "fault injection through the repository's own FailFS on both sides (its consult-before-forward behaviour is property C12)"],
        assumptions=["source and destination are different files", "Read delivers min(32768, remaining) bytes then (0, io.EOF) (MemFS/OrefaFS/os.File behaviour, observed in every correspondence run through the primitive trace)"],
        not_yet_proved=[],
    ),
    "C13": dict(
        props_files=["Avfs/Props/C13.lean"],
        tags="verif,avfs_setostype",
        parts=[dict(name="path")],
        trusted=["modelled, not verified: strings.EqualFold as ASCII case folding (generator alphabet has no other cased runes); utf8.DecodeRuneInString re-implemented in Lean and compared on every run",
                 "oracle: the toolchain's path/filepath on the Linux host (Linux); for Windows there is no oracle in this run: impl ≟ model only"],
        assumptions=["string lengths far below 2^31", "SplitAbs is only required to work on absolute paths (its documented precondition)"],
        not_yet_proved=["clean_eq_spec (in progress)", "match_eq_spec", "rel_join", "Windows: theorems beyond length/inverse laws (executable model + correspondence only)"],
    ),
    "C15": dict(
        props_files=["Avfs/Props/C15.lean"],
        parts=[dict(name="idm")],
        trusted=["modelled, not verified: Go maps as association lists; sync.RWMutex (each MemIdm method body is one critical section; see C06/C08 for the locking)"],
        assumptions=["ids stay far below 2^63 (Int model)", "sequential histories; the concurrent part of C15 is carried by the lock-skeleton obligations shared with C06/C08"],
        not_yet_proved=[],
    ),
}
