#!/usr/bin/env python3
"""Regenerates MANIFEST.json from the table below (keeps it schema-valid and consistent)."""
import json, os, subprocess
ROOT = os.path.dirname(os.path.dirname(os.path.abspath(__file__)))
ALL = ["C%02d" % i for i in range(1, 18)]
TIE = " Tied to /repo on every run by a differential correspondence (implementation built from the working tree vs the executable Lean model, generated inputs from VERIF_SEED, shrinking, property-oracle search on disagreement)."
CLAIMS = {
 "C14": ("Lean 4 theorems over models of Glob / WalkDir / ReadDir / the existence helpers built on the MemFS model: SkipDir and SkipAll never reach the caller, a missing root is reported to the callback once, helpers answer what Stat implies, patterns without meta characters match iff Lstat succeeds, malformed patterns are reported; the models are tied to /repo by differential runs (patterns with * ? classes escapes and malformed forms, callbacks acting at every visit index) and MemFS is compared with filepath.Glob / filepath.WalkDir / os.ReadDir on an identical tmpfs tree.",
         "Set-level specs of Glob and WalkDir (walk_spec, glob_spec) are not proved; equality with the standard library is an oracle run.",
         "Lean 4 proof (case analysis) + differential correspondence with impl and path/filepath + os", "§3 C14"),
 "C17": ("Lean 4 theorems: the SetOSType decision table stated outright (tag on: every requested type honoured whatever the host; tag off: only the host type), separator by type; tied to /repo by the construction matrix {MemFS, OrefaFS} × {Unknown, Linux, Windows} run from a tag-on and a tag-off harness binary. Volume management: theorems over the model Avfs.Volumes (a successful VolumeAdd makes an empty volume, VolumeDelete removes it and nothing else, delete-then-add gives an empty volume, VolumeList = the existing volumes once each), tied by corr volumes (every sequence of up to 3/4 calls). Agreement of the Windows-typed and Linux-typed emulations (success/failure call by call, isomorphic trees) is an oracle run in lockstep on portable histories, with recorded divergence classes.",
         "os_agreement is not a theorem (the Lean file-system models are Linux-only); volume management not exercised.",
         "Lean 4 proof (decision table) + lockstep differential of the two emulations", "§3 C17"),
 "C06": ("Lean 4 theorems, any number of threads, calls and steps: (1) if every access happens inside critical sections on one lock held exclusively, sections of different threads never interleave (serial execution in acquisition order); (2) two-phase operations (unlocked walk, commit under the parent's lock) whose commit is the sequential specification on the state it finds are linearizable in the order of their decisive steps, program order and real time kept (C06_two_phase_linearizable), instantiated for MemFS Mkdir / exclusive create / Remove on leaf names of directories no concurrent call removes or renames. The tie to the source is REGENERATED on every run: lock facts and commit-shape facts (walk, commit lock, look-up under the lock before each mutation, no use of what the walk captured) are extracted by lockx and decided by the kernel; the stale-commit sites that remain are exactly the recorded findings; a kernel-checked counter-schedule documents the repaired Remove defect. A linearizability search engine (all sequential interleavings as reference, lock-hold amplifier) runs the proved classes as violations-with-input and the recorded classes as known findings.",
         "Link / Symlink / Rename / RemoveAll / MkdirAll and calls below a concurrently removed directory are NOT linearizable in the current code (recorded findings, reproduced on every run); the translator and the atomicity of walk/commit steps are trusted; no deterministic scheduler (free-running search with a lock-hold amplifier).",
         "Lean 4 proof (induction over schedules; decide over regenerated lock/commit-shape facts) + linearizability and race-detector search", "§3 C06"),
 "C08": ("Generic Lean 4 theorem: lock discipline ⇒ every two conflicting accesses are ordered by happens-before (no data race; visibility of completed calls), for any number of threads and any trace. Lock facts (locks certainly held at every access of every guarded field, with requirement propagation through calls) are REGENERATED from the source on every run and the kernel decides that the undisciplined sites are exactly the recorded ones.",
         "The bridge facts ⇒ Disciplined traces (lockset soundness) is the translator's meaning, not a theorem; recorded undisciplined sites are findings in the ledger; the race detector run covers the race-free call subsets only.",
         "Lean 4 proof (happens-before theorem + decide over regenerated lock facts) + Go race detector as search", "§3 C08"),
 "C01": ("Lean 4 theorems over the MemFS model for every call, path and state: a path that is not lexically clean behaves exactly as its Clean() form (walk, outcome and resulting state). The equality with Linux itself is decided by running MemFS and the kernel (OsFS in a chroot on tmpfs) on the same histories with full tree comparison after every call; each known divergence is a ledger class keyed by call, operand situation and the two outcomes.",
         "MemFS = POSIX reference is proved for Mkdir, Remove, Stat/Lstat, OpenFile, Link, Truncate, Chmod, Chown (administrator), Rename on clean absolute link-free paths (component-wise resolution, error selection, effect; MemFS's deviations are explicit corner hypotheses with witnesses); for RemoveAll, MkdirAll, symlink calls, composites and paths through links it is NOT a theorem. OrefaFS has an executable Lean model tied by the same kind of correspondence (results, node tree and path index after every call) and is compared with the kernel in the same way, but no theorem is stated about it yet. The kernel comparison is an oracle run, sampled.",
         "Lean 4 proof (unclean = clean) + differential correspondence impl≟model + impl≟kernel oracle with ledger", "§3 C01"),
 "C04": ("Lean 4 theorems: the symlink walk terminates for every link graph and path within a computed fuel (potential-function proof), the budget is 40, no-follow calls get the directory entry itself, a reported ENOENT is sound. Resolution equality with the kernel is an oracle run (chains around the budget, relative/absolute/dangling/cyclic targets).",
         "searchNode ≃ namei is not proved; equality with the kernel is sampled.",
         "Lean 4 proof (termination by potential function, loop invariants) + impl≟kernel oracle", "§3 C04"),
 "C05": ("Lean 4 theorems: the tree invariant WF (depth witness, unique parent, exact link counts, unique ids, no orphan subtree) is preserved by every creating, removing, attribute-changing call, every handle operation and Rename, for all operands and all states; a failed call leaves the state unchanged; the walk facts they rely on are proved from WF (including termination). The executable form wfCheck is evaluated on the implementation's own node graph after every call.",
         "Rename under the hypothesis RenameSafe (not yet discharged); detached views excluded (kernel-checked witness); the executable check evaluated on the implementation's graph is proved sound for WF (C05_wfCheck_sound); for the OrefaFS MODEL the invariant (tree ≟ path index, link counts) is proved for every reachable state (C05_orefa_reachable), on the implementation it is an oracle evaluated after every call; concurrent executions are C06.",
         "Lean 4 proof (invariant preservation by case analysis over the heap) + differential correspondence with graph dumps", "§3 C05"),
 "C07": ("Part (a): Lean 4 theorems that no MemFS path-level call and no handle operation of the model returns the `panic` / `hang` outcome in any well-formed state for any argument; Match and SplitAbs never panic; generic ranked-acquisition ⇒ deadlock-free theorem. The model returns those outcomes exactly where the Go code would panic or self-deadlock, and the correspondence treats an implementation panic/hang as a violation.",
         "Parts (b)(c): nested lock acquisitions of every function are regenerated on every run and the kernel decides that they are exactly the listed ones (with the reason the two locks differ) and that no function re-acquires a lock it holds; deadlock under interleaving is searched (every call kind but Rename started while the lock of a random node is held), not proved; Rename's lock order and OrefaFS Link/Rename are recorded findings.",
         "Lean 4 proof (no-panic by case analysis under the walk invariant) + differential correspondence with recover/watchdog", "§3 C07"),
 "C10": ("Lean 4 theorems: for EVERY byte string and every absolute virtual cwd, ToBasePath yields the base directory or a path lexically below it without '.'/'..' elements (confinement), FromBasePath∘ToBasePath is Clean∘Abs, Getwd is total; shape tables of every BasePathFS method regenerated on every run: each path parameter goes through ToBasePath, errors come back translated.",
         "Chroot equivalence is carried by the lockstep run against a standalone file system with snapshots of everything outside the base directory; symlinks in the base pointing outside are assumed absent.",
         "Lean 4 proof (over the component semantics of Clean) + regenerated tables + lockstep differential", "§3 C10"),
 "C11": ("Lean 4 theorems over views of the MemFS model: a call through one view never changes user, umask, root or cwd of another view; handle operations only touch the view they were opened through; view setters leave the shared tree untouched; the tree is shared.",
         "sub_sim (prefix simulation) is proved for path resolution, Mkdir, Remove and Stat on clean absolute paths that meet no symbolic link (C11_sub_sim_*); beyond that it is decided on the implementation by a twin run (every call through a view replayed on a second instance through the parent with the view's directory prefixed, outcomes and whole trees compared after every call) and a setter-isolation oracle (User/UMask/Getwd of all other views around every per-view setter), on every generated history.",
         "Lean 4 proof (case analysis over step) + differential correspondence with views", "§3 C11"),
 "C02": ("Lean 4 theorems over the handle model (fileStep): EOF beyond the end, zero-filled gaps, O_APPEND at the current end, access-mode enforcement, closed handles have no effect, a handle survives removal of its name, handles share the inode, directory batches deliver each entry once then EOF — for all contents, offsets and sizes.",
         "Whole histories of read/pread/write/pwrite/lseek/ftruncate on any number of handles of one file are proved to refine a POSIX-style reference given pointwise (C02_history_refines), within the file size limit; attribute calls, directory handles beyond one pass, and OrefaFS handles (executable model + correspondence only) are not part of that theorem; the os.File side is an oracle run (tmpfs) with recorded divergence classes (known_findings.jsonl).",
         "Lean 4 proof (case analysis / induction on batches) + differential correspondence with impl and os.File", "§3 C02"),
 "C03": ("Lean 4 theorems: checkPermission equals Linux DAC class selection for all modes/owners/users (not by enumeration of trees), creation formula perm &^ umask with caller's uid/gid, owner-only chmod, administrator never refused, chown restricted.",
         "The kernel comparison (setfsuid/setfsgid in a chroot-ed child) is an oracle run with recorded divergence classes; the sticky bit (restricted deletion) is implemented since the repair and compared with the kernel; setgid inheritance is not covered.",
         "Lean 4 proof (bit-level case analysis) + differential correspondence with non-admin users", "§3 C03"),
 "C09": ("Shape tables of every RoFS / RoFile method are REGENERATED from the Go source on every run (factx) and the kernel re-decides that each is a permission-class refusal, a forward to a tree-preserving base method with identical arguments, the O_RDONLY-guarded OpenFile or the re-wrapped Sub; a generic Lean theorem lifts this to all histories of any length.",
         "The translator is trusted (syntactic, fails closed); behaviour is cross-checked by base-graph snapshots (incl. mtimes) around every call through RoFS, its files and its Sub results.",
         "Lean 4 proof over regenerated tables (decide +kernel, generic induction over histories) + snapshot differential", "§3 C09"),
 "C12": ("Shape tables of every FailFS / FailFile method regenerated on every run; kernel-decided: each base-reaching method consults the failure function with its own id before an identical-argument forward, hands out wrapped files / file systems, composites run over the wrapper; generic Lean theorems: transparent when the function never fails, an injected error is returned as is with the base state untouched.",
         "Composite behaviour under faults is enumerated (every single-fault plan per history), not proved; three swallowed-failure cases are recorded findings.",
         "Lean 4 proof over regenerated tables + exhaustive single-fault enumeration per history against a twin base", "§3 C12"),
 "C13": ("Lean 4 theorems about a byte-for-byte transliteration of the generic path code (Clean with its lazybuf, Join, Split, Dir, Base, IsAbs, Abs, Match no-panic, PathIterator laws) for ALL byte strings; Linux functions proved equal to a component-based reference that is itself compared with the toolchain's path/filepath on every run; both OS types run against the implementation built with avfs_setostype.",
         "Windows: executable model + correspondence with the implementation AND with the toolchain's own Windows path/filepath, retargeted mechanically from GOROOT on every run (winx); Windows theorems are limited to length/inverse laws; Match/Rel equalities not yet proved (evidence.not_yet_proved).",
         "Lean 4 proof (structural / well-founded induction over byte strings) + differential correspondence", "§3 C13"),
 "C15": ("Lean 4 theorems over the transliterated MemIdm model for all histories (invariant: name/id maps inverse; refinement to a two-map spec; ids never reused; admin predicate; typed errors; failed call leaves state unchanged).",
         "Concurrent histories are covered by the lock-skeleton obligations (C06/C08), not by these theorems.",
         "Lean 4 proof (invariant + refinement by induction over histories) + differential correspondence", "§3 C15"),
 "C16": ("Lean 4 theorems over a model of CopyFileHash/HashFile with the io.CopyBuffer loop: for every fault plan (any set of failing primitive invocations), content, size and chunk size a failed primitive is reported, a nil error means a faithful copy with the right digest, and the chunked loop delivers exactly the source.",
         "io.CopyBuffer/MultiWriter are modelled (standard library); the model's control flow is tied to copy.go by exhaustive single-fault enumeration through FailFS for each size and file-system pair.",
         "Lean 4 proof (induction on the copy loop, case analysis of the fault plan) + exhaustive single-fault correspondence", "§3 C16"),
}
NA_REASON = "check under construction in this build session (DESIGN.md §5 build order); not claimed until its model, theorems and correspondence exist"
def main():
    hooks = subprocess.run("git -C /repo log --format=%h --grep='^verif hook'", shell=True, capture_output=True, text=True).stdout.split()
    checks = []
    for pid in ALL:
        if pid not in CLAIMS:
            continue
        text, note, tech, ref = CLAIMS[pid]
        checks.append({
            "property_id": pid, "quick_cmd": "bin/check %s quick" % pid, "thorough_cmd": "bin/check %s thorough" % pid,
            "evidence_file": "evidence/%s.json" % pid, "replay_cmd_template": "bin/check --replay {path}", "engine": "lean-model",
            "level_claimed": {"category": "proof", "text": text + TIE, "design_ref": "DESIGN.md " + ref},
            "level_note": note + " Trusted: Lean 4.33 kernel, axioms propext/Classical.choice/Quot.sound only (audited per theorem per run), the hand-written model tied to the code by differential testing (generator reach), Go toolchain.",
            "technique": tech})
    served = sorted(CLAIMS)
    m = {
     "version": 1, "setup_cmd": "bin/check --setup",
     "hooks": {"guard": "verif", "enable": "go build -tags verif (hooks are new files *_verif.go with //go:build verif; no existing line changes)",
               "baseline_off_cmd": "for m in . ./mage; do (cd /repo/$m && go test -mod=mod -json -vet=off -count=1 -timeout 25m ./...); done",
               "source_commits": hooks, "add_only": True},
     "engines": [
      {"name": "lean-model", "path": "lean", "serves_properties": served, "kind_free_text": "Lean 4 project: executable models, specs, property theorems (Avfs/Props), native line-protocol driver avfsdrv"},
      {"name": "corr", "path": "harness/cmd/corr", "serves_properties": served, "kind_free_text": "Go correspondence harness: runs generated histories on /repo's implementation and on the Lean driver, diffs, shrinks, classifies"},
      {"name": "check", "path": "bin/check", "serves_properties": served, "kind_free_text": "runner: translators, lake build, axiom audit, correspondence, evidence, ledger"}],
     "checks": checks,
     "not_applicable": [{"property_id": p, "reason": NA_REASON} for p in ALL if p not in CLAIMS],
     "notes": "See DESIGN.md. MANIFEST.json is generated by bin/mkmanifest.py."}
    json.dump(m, open(os.path.join(ROOT, "MANIFEST.json"), "w"), indent=1)
if __name__ == "__main__":
    main()
