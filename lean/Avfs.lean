import Avfs.Bytes
import Avfs.Idm
import Avfs.Lemmas.Idm
import Avfs.Props.C15
