import Avfs.Driver.Idm
import Avfs.Driver.Path
import Avfs.Driver.Copy
import Avfs.Driver.FS
import Avfs.Driver.OSType
import Avfs.Driver.OFS
import Avfs.Driver.Volumes
/-
  avfsdrv: line-protocol driver. One input line -> exactly one output line.
  Core Lean only (links natively).
-/
open Avfs

structure DState where
  idm : Idm.State := Idm.init [] []
  idmSpec : Idm.Spec := Idm.Spec.init [] []
  fs : FS.FSState := FS.initState
  ofs : Orefa.OState := Orefa.initState Orefa.dummyId Orefa.dummyId
  vol : Volumes.VState := Volumes.init []

def stepLine (st : DState) (line : String) : DState × String :=
  match (line.trimAscii.toString.splitOn " ").filter (· ≠ "") with
  | "idm" :: rest => let (s, o) := Idm.exec st.idm rest; ({ st with idm := s }, o)
  | "idmspec" :: rest => let (s, o) := Idm.specExec st.idmSpec rest; ({ st with idmSpec := s }, o)
  | "path" :: rest => (st, Path.exec rest)
  | "fs" :: rest => let (s, o) := FS.exec st.fs rest; ({ st with fs := s }, o)
  | "ofs" :: rest => let (s, o) := Orefa.exec st.ofs rest; ({ st with ofs := s }, o)
  | "vol" :: rest => let (s, o) := Volumes.exec st.vol rest; ({ st with vol := s }, o)
  | "ostype" :: rest => (st, OSType.exec rest)
  | "copy" :: rest => (st, Copy.exec rest)
  | "pathspec" :: rest => (st, Path.specExec rest)
  | ["#"] => (st, "#")
  | _ => (st, "bad-op")

partial def loop (h : IO.FS.Stream) (out : IO.FS.Stream) (st : DState) : IO Unit := do
  let line ← h.getLine
  if line.isEmpty then return ()
  let (st', o) := stepLine st line
  out.putStrLn o
  loop h out st'

def main : IO Unit := do
  let stdin ← IO.getStdin
  let stdout ← IO.getStdout
  loop stdin stdout {}
