import Avfs.Bytes
/-
  Model of idm/memidm (memidm.go, memidm_cfg.go): four maps and two counters.
  Transliteration, function by function; Go maps are association lists with first-match lookup.
  `isAdminImpl` is MemUser.IsAdmin as written in /repo.
-/
namespace Avfs.Idm

structure Grp where
  name : Bytes
  gid : Int
  deriving DecidableEq, Repr

structure Usr where
  name : Bytes
  uid : Int
  gid : Int
  deriving DecidableEq, Repr

structure State where
  gByName : List (Bytes × Grp)
  gById : List (Int × Grp)
  uByName : List (Bytes × Usr)
  uById : List (Int × Usr)
  maxGid : Int
  maxUid : Int
  deriving DecidableEq, Repr

inductive Err
  | groupExists | userExists | unknownGroup | unknownUser | unknownGroupId | unknownUserId
  deriving DecidableEq, Repr

inductive Out
  | grp (g : Grp)
  | usr (u : Usr)
  | unit
  | bool (b : Bool)
  | err (e : Err)
  deriving DecidableEq, Repr

inductive Op
  | addGroup (n : Bytes)
  | addUser (n g : Bytes)
  | delGroup (n : Bytes)
  | delUser (n : Bytes)
  | lookupGroup (n : Bytes)
  | lookupGroupId (i : Int)
  | lookupUser (n : Bytes)
  | lookupUserId (i : Int)
  | isAdmin (n : Bytes)          -- LookupUser(n) then IsAdmin()
  deriving DecidableEq, Repr

def minId : Int := 1000

/-- memidm_cfg.go NewWithOptions; `an`/`gn` are the admin user and group names ("root"/"root" on Linux). -/
def init (an gn : Bytes) : State :=
  let g : Grp := { name := gn, gid := 0 }
  let u : Usr := { name := an, uid := 0, gid := 0 }
  { gByName := [(gn, g)], gById := [(0, g)], uByName := [(an, u)], uById := [(0, u)],
    maxGid := minId, maxUid := minId }

def lookupGroup (s : State) (n : Bytes) : Option Grp := AL.lookup n s.gByName
def lookupUser (s : State) (n : Bytes) : Option Usr := AL.lookup n s.uByName

/-- MemUser.IsAdmin as written in the repository (after the `fix:` commit: uid only). -/
def isAdminImpl (u : Usr) : Bool := u.uid == 0

def step (s : State) : Op → State × Out
  | .addGroup n =>
    match AL.lookup n s.gByName with
    | some _ => (s, .err .groupExists)
    | none =>
      let gid := s.maxGid + 1
      let g : Grp := { name := n, gid := gid }
      ({ s with maxGid := gid, gByName := AL.insert n g s.gByName, gById := AL.insert gid g s.gById }, .grp g)
  | .addUser n gn =>
    match lookupGroup s gn with
    | none => (s, .err .unknownGroup)
    | some g =>
      match AL.lookup n s.uByName with
      | some _ => (s, .err .userExists)
      | none =>
        let uid := s.maxUid + 1
        let u : Usr := { name := n, uid := uid, gid := g.gid }
        ({ s with maxUid := uid, uByName := AL.insert n u s.uByName, uById := AL.insert uid u s.uById }, .usr u)
  | .delGroup n =>
    match AL.lookup n s.gByName with
    | none => (s, .err .unknownGroup)
    | some g => ({ s with gByName := AL.erase g.name s.gByName, gById := AL.erase g.gid s.gById }, .unit)
  | .delUser n =>
    match AL.lookup n s.uByName with
    | none => (s, .err .unknownUser)
    | some u => ({ s with uByName := AL.erase u.name s.uByName, uById := AL.erase u.uid s.uById }, .unit)
  | .lookupGroup n =>
    match AL.lookup n s.gByName with
    | none => (s, .err .unknownGroup)
    | some g => (s, .grp g)
  | .lookupGroupId i =>
    match AL.lookup i s.gById with
    | none => (s, .err .unknownGroupId)
    | some g => (s, .grp g)
  | .lookupUser n =>
    match AL.lookup n s.uByName with
    | none => (s, .err .unknownUser)
    | some u => (s, .usr u)
  | .lookupUserId i =>
    match AL.lookup i s.uById with
    | none => (s, .err .unknownUserId)
    | some u => (s, .usr u)
  | .isAdmin n =>
    match AL.lookup n s.uByName with
    | none => (s, .err .unknownUser)
    | some u => (s, .bool (isAdminImpl u))

/-- run a history, collecting outputs -/
def run (s : State) : List Op → State × List Out
  | [] => (s, [])
  | op :: ops =>
    let (s', o) := step s op
    let (s'', os) := run s' ops
    (s'', o :: os)

def final (s : State) (ops : List Op) : State := ops.foldl (fun s op => (step s op).1) s

/-! ## Reference: the two-map spec.  One *set* of groups and one of users; lookups are searches. -/

structure Spec where
  groups : List Grp      -- added and not yet deleted
  users : List Usr
  nextGid : Int
  nextUid : Int
  deriving Repr

def Spec.init (an gn : Bytes) : Spec :=
  { groups := [{ name := gn, gid := 0 }], users := [{ name := an, uid := 0, gid := 0 }],
    nextGid := minId + 1, nextUid := minId + 1 }

def Spec.step (s : Spec) : Op → Spec × Out
  | .addGroup n =>
    match s.groups.find? (·.name = n) with
    | some _ => (s, .err .groupExists)
    | none =>
      let g : Grp := { name := n, gid := s.nextGid }
      ({ s with groups := g :: s.groups, nextGid := s.nextGid + 1 }, .grp g)
  | .addUser n gn =>
    match s.groups.find? (·.name = gn) with
    | none => (s, .err .unknownGroup)
    | some g =>
      match s.users.find? (·.name = n) with
      | some _ => (s, .err .userExists)
      | none =>
        let u : Usr := { name := n, uid := s.nextUid, gid := g.gid }
        ({ s with users := u :: s.users, nextUid := s.nextUid + 1 }, .usr u)
  | .delGroup n =>
    match s.groups.find? (·.name = n) with
    | none => (s, .err .unknownGroup)
    | some _ => ({ s with groups := s.groups.filter (·.name ≠ n) }, .unit)
  | .delUser n =>
    match s.users.find? (·.name = n) with
    | none => (s, .err .unknownUser)
    | some _ => ({ s with users := s.users.filter (·.name ≠ n) }, .unit)
  | .lookupGroup n =>
    match s.groups.find? (·.name = n) with
    | none => (s, .err .unknownGroup)
    | some g => (s, .grp g)
  | .lookupGroupId i =>
    match s.groups.find? (·.gid = i) with
    | none => (s, .err .unknownGroupId)
    | some g => (s, .grp g)
  | .lookupUser n =>
    match s.users.find? (·.name = n) with
    | none => (s, .err .unknownUser)
    | some u => (s, .usr u)
  | .lookupUserId i =>
    match s.users.find? (·.uid = i) with
    | none => (s, .err .unknownUserId)
    | some u => (s, .usr u)
  | .isAdmin n =>
    match s.users.find? (·.name = n) with
    | none => (s, .err .unknownUser)
    | some u => (s, .bool (u.uid == 0))     -- "a user is an administrator exactly when it is that user"

end Avfs.Idm
