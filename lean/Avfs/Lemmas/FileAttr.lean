import Avfs.Lemmas.FileOps
import Avfs.Lemmas.FileSpec
/-
  C02 (attribute operations of a handle): Stat, Chmod, Chown, Sync, Chdir, Close (and Name) of an open MemFS handle act
  on THE NODE the handle designates (`h.nd`), as fstat / fchmod / fchown / fsync / close do — the heap is consulted
  only through `s.get i` and changed only by `s.set i …`: no theorem below has a hypothesis about the NAMES of the node
  (it may have been renamed, removed (link count 0) or replaced since the handle was opened).

  * `f<op>_eq`      — the exact result, as a function of the node;
  * `f<op>_path`    — it is the result of the path-level call on any path that designates the same node now;
  * `fileStep_effect` / `fileStep_frame` — EVERY handle operation changes at most the node of the handle, keeps every
    directory's entries (no name appears or disappears), the link count and the kind of the node, the allocator;
    the handle keeps its name, mode and view, and its node except by Close;
  * `fclosed_step` / `fclose_forever` — a closed handle answers `closed` for ever and changes nothing.

  Recorded differences between the handle call and the path-level call of MemFS (they are in the Go code):
  `File.Chown` lets the OWNER set the group to his own (fchown(2)), `MemFS.Chown` is for the administrator only;
  `File.Chdir` sets the current directory to the NAME recorded at open (made absolute against the current directory of
  the moment), whatever that name designates now, and does not ask for search permission; `File.Stat` reports the base
  of the name recorded at open.
-/
set_option linter.unusedVariables false

namespace Avfs.FS
open Avfs.Path

/-! ### vocabulary -/

/-- fillStatFrom: the `Info` of a node under a name -/
def Node.info (n : Node) (name : Bytes) : Info :=
  match n with
  | .dir m ch => ⟨name, 0, m.perm, m.uid, m.gid, 0, (alKeys ch).length, 0, m.mtime⟩
  | .file m d nl id => ⟨name, 1, m.perm, m.uid, m.gid, nl, d.length, id, m.mtime⟩
  | .symlink m _ => ⟨name, 2, m.perm, m.uid, m.gid, 0, 1, 0, m.mtime⟩

theorem fillStat_eq (s : Store) (i : Ino) (name : Bytes) : fillStat s i name = (s.get i).map (·.info name) := by
  unfold fillStat
  split <;> simp_all [Node.info]

theorem Node.info_name (n : Node) (a b : Bytes) : n.info a = { n.info b with name := a } := by
  cases n <;> rfl

/-- an open, usable handle on the inode `i` -/
def Handle.onNode (h : Handle) (i : Ino) : Prop := h.name ≠ [] ∧ h.nd = some i

/-- the path `p` designates the inode `i` for the view `v` (following the last link or not, by `mode`) -/
def Designates (s : Store) (v : View) (p : Bytes) (mode : SlMode) (i : Ino) : Prop :=
  (searchNode s v p mode).err = .exists ∧ (searchNode s v p mode).child = some i

/-- fchmod(2) / chmod(2): the owner or the administrator -/
def ownerOrAdminOf (v : View) (m : Meta) : Bool := m.uid == v.uid || v.admin

/-- fchown(2) as MemFS has it: the administrator; or the owner, leaving the owner and taking the file's group or his own -/
def mayFchown (v : View) (m : Meta) (uid gid : Int) : Bool :=
  v.admin || (m.uid == v.uid && (uid == -1 || uid == m.uid) && (gid == -1 || gid == m.gid || gid == v.gid))

/-- the owner rule: -1 leaves the id as it is -/
def chownMeta (m : Meta) (uid gid : Int) : Meta :=
  { m with uid := (if uid == -1 then m.uid else uid), gid := (if gid == -1 then m.gid else gid) }

/-! ### Stat -/

/-- File.Stat: the `Info` of the node of the handle, under the base of the name recorded at open -/
theorem fstat_eq (s : Store) (v : View) (h : Handle) (i : Ino) (n : Node) (ho : h.onNode i) (hg : s.get i = some n) :
    fileStep s v h .stat = (s, v, h, .ok (.info (n.info (base .linux h.name)))) := by
  simp [fileStep, isEmpty_false_of_ne ho.1, ho.2, fillStat_eq, hg]

/-- … it is what Stat / Lstat answer for ANY path that designates the node now (any view, any spelling, through links),
    except for the `name` field: the path call reports the last component of the path it was given -/
theorem fstat_path (s : Store) (v : View) (h : Handle) (i : Ino) (n : Node) (ho : h.onNode i) (hg : s.get i = some n)
    (v' : View) (p : Bytes) (mode : SlMode) (hd : Designates s v' p mode i) :
    ∃ inf, stat s v' p mode = (s, .ok (.info inf)) ∧
      fileStep s v h .stat = (s, v, h, .ok (.info { inf with name := base .linux h.name })) := by
  refine ⟨n.info (partOf (searchNode s v' p mode).pi), ?_, ?_⟩
  · simp [stat, hd.1, hd.2, fillStat_eq, hg]
  · rw [fstat_eq s v h i n ho hg, ← Node.info_name]

/-! ### Chmod -/

theorem setMode_eq (n : Node) (mode : Nat) (v : View) :
    setMode n mode v =
      match n with
      | .symlink _ _ => none
      | _ => if ownerOrAdminOf v n.meta then some (n.setMeta { n.meta with perm := mode &&& modeMask }) else none := by
  cases n with
  | symlink m l => rfl
  | dir m ch =>
    simp only [setMode, ownerOrAdminOf, Node.meta]
    by_cases h1 : m.uid = v.uid <;> by_cases hv : v.admin = true <;> simp [h1, hv]
  | file m d nl id =>
    simp only [setMode, ownerOrAdminOf, Node.meta]
    by_cases h1 : m.uid = v.uid <;> by_cases hv : v.admin = true <;> simp [h1, hv]

/-- File.Chmod: `setMode` — the rule of the path-level Chmod — on the node of the handle -/
theorem fchmod_eq (s : Store) (v : View) (h : Handle) (i : Ino) (n : Node) (mode : Nat) (ho : h.onNode i)
    (hg : s.get i = some n) :
    fileStep s v h (.chmod mode) =
      match setMode n mode v with
      | some n' => (s.set i n', v, h, .ok .unit)
      | none => (s, v, h, .err .EPERM) := by
  simp only [fileStep, isEmpty_false_of_ne ho.1, ho.2, hg]
  rfl

/-- … for a directory or a regular file: the owner or the administrator sets the permission bits, anybody else gets
    EPERM and nothing changes -/
theorem fchmod_rule (s : Store) (v : View) (h : Handle) (i : Ino) (n : Node) (mode : Nat) (ho : h.onNode i)
    (hg : s.get i = some n) (hns : ∀ m l, n ≠ .symlink m l) :
    fileStep s v h (.chmod mode) =
      if ownerOrAdminOf v n.meta then (s.set i (n.setMeta { n.meta with perm := mode &&& modeMask }), v, h, .ok .unit)
      else (s, v, h, .err .EPERM) := by
  rw [fchmod_eq s v h i n mode ho hg, setMode_eq]
  cases n with
  | symlink m l => exact absurd rfl (hns m l)
  | dir m ch => by_cases hc : ownerOrAdminOf v (Node.dir m ch).meta <;> simp [hc]
  | file m d nl id => by_cases hc : ownerOrAdminOf v (Node.file m d nl id).meta <;> simp [hc]

/-- … it is Chmod on ANY path that designates the node now: same heap, same answer -/
theorem fchmod_path (s : Store) (v : View) (h : Handle) (i : Ino) (n : Node) (mode : Nat) (ho : h.onNode i)
    (hg : s.get i = some n) (p : Bytes) (hd : Designates s v p .eval i) :
    chmod s v p mode = ((fileStep s v h (.chmod mode)).1, (fileStep s v h (.chmod mode)).2.2.2) := by
  rw [fchmod_eq s v h i n mode ho hg]
  simp only [chmod, hd.1, hd.2, hg]
  cases setMode n mode v <;> rfl

/-! ### Chown -/

/-- File.Chown: the owner rule on the node of the handle -/
theorem fchown_eq (s : Store) (v : View) (h : Handle) (i : Ino) (n : Node) (uid gid : Int) (ho : h.onNode i)
    (hg : s.get i = some n) :
    fileStep s v h (.chown uid gid) =
      if mayFchown v n.meta uid gid then (s.set i (n.setMeta (chownMeta n.meta uid gid)), v, h, .ok .unit)
      else (s, v, h, .err .EPERM) := by
  simp only [fileStep, isEmpty_false_of_ne ho.1, ho.2, hg, Bool.false_eq_true, if_false]
  change (if (!mayFchown v n.meta uid gid) = true then _ else _) = _
  cases hc : mayFchown v n.meta uid gid <;> simp [chownMeta]

/-- … for the administrator it is Chown / Lchown on ANY path that designates the node now -/
theorem fchown_path_admin (s : Store) (v : View) (h : Handle) (i : Ino) (n : Node) (uid gid : Int) (ho : h.onNode i)
    (hg : s.get i = some n) (hadm : v.admin = true) (p : Bytes) (mode : SlMode) (hd : Designates s v p mode i) :
    chown s v p uid gid mode = ((fileStep s v h (.chown uid gid)).1, (fileStep s v h (.chown uid gid)).2.2.2) := by
  rw [fchown_eq s v h i n uid gid ho hg]
  simp [chown, hadm, hd.1, hd.2, hg, mayFchown, chownMeta]

/-- … for anybody else the path-level call of MemFS is refused whatever the arguments, while the handle call lets the
    owner take the file's group or his own (fchown(2)): the two differ exactly there -/
theorem fchown_vs_path_user (s : Store) (v : View) (h : Handle) (i : Ino) (n : Node) (uid gid : Int) (ho : h.onNode i)
    (hg : s.get i = some n) (hna : v.admin = false) (p : Bytes) (mode : SlMode) :
    chown s v p uid gid mode = (s, .err .EPERM) ∧
    ((fileStep s v h (.chown uid gid)).2.2.2 = .ok .unit ↔
      (n.meta.uid = v.uid ∧ (uid = -1 ∨ uid = n.meta.uid) ∧ (gid = -1 ∨ gid = n.meta.gid ∨ gid = v.gid))) := by
  refine ⟨by simp [chown, hna], ?_⟩
  rw [fchown_eq s v h i n uid gid ho hg]
  by_cases hc : mayFchown v n.meta uid gid = true
  · simp only [hc, if_true, true_iff]
    simp [mayFchown, hna] at hc
    exact ⟨hc.1.1, hc.1.2, by rcases hc.2 with (h | h) | h <;> simp [h]⟩
  · simp only [hc]
    constructor
    · intro h0; cases h0
    · rintro ⟨h1, h2, h3⟩
      exfalso; apply hc
      simp only [mayFchown, Bool.or_eq_true, Bool.and_eq_true, beq_iff_eq]
      exact Or.inr ⟨⟨h1, h2⟩, by rcases h3 with h | h | h <;> simp [h]⟩

/-! ### Sync, Chdir, Close -/

/-- File.Sync: nothing to do, on any open handle -/
theorem fsync_eq (s : Store) (v : View) (h : Handle) (i : Ino) (ho : h.onNode i) :
    fileStep s v h .sync = (s, v, h, .ok .unit) := by
  simp [fileStep, isEmpty_false_of_ne ho.1, ho.2]

/-- File.Chdir: if the node of the handle is a directory, the current directory becomes the NAME recorded at open, made
    absolute against the current directory of the moment; no permission is asked; the heap is not changed -/
theorem fchdir_eq (s : Store) (v : View) (h : Handle) (i : Ino) (ho : h.onNode i) :
    fileStep s v h .chdir =
      match s.get i with
      | some (.dir _ _) => (s, { v with cwd := abs .linux h.name v.cwd }, h, .ok .unit)
      | _ => (s, v, h, .err .ENOTDIR) := by
  simp only [fileStep, isEmpty_false_of_ne ho.1, ho.2, Bool.false_eq_true, if_false]
  cases hg : s.get i with
  | none => rfl
  | some n => cases n <;> rfl

/-- … it is Chdir(name) when the name recorded at open still designates the node of the handle, the caller may search
    it, and resolving it crosses no link (`hpath`: the resolved path is the absolute name) -/
theorem fchdir_path (s : Store) (v : View) (h : Handle) (i : Ino) (ho : h.onNode i)
    (hd : Designates s v h.name .eval i) (v' : View) (hok : chdir s v h.name = (v', .ok .unit))
    (hpath : (searchNode s v h.name .eval).pi.path = abs .linux h.name v.cwd) :
    fileStep s v h .chdir = (s, v', h, .ok .unit) := by
  rw [fchdir_eq s v h i ho]
  unfold chdir at hok
  simp only [hd.1, hd.2, Option.bind_some] at hok
  cases hg : s.get i with
  | none => simp [hg] at hok
  | some n =>
    cases n with
    | dir m ch =>
      simp only [hg] at hok ⊢
      by_cases hp : checkPerm m omLookup v = true
      · simp [hp] at hok
        rw [← hok, hpath]
      · simp [hp] at hok
    | file m d nl id => simp [hg] at hok
    | symlink m l => simp [hg] at hok

/-- File.Close: the handle forgets its node and its directory snapshots; nothing else changes -/
theorem fclose_eq (s : Store) (v : View) (h : Handle) (i : Ino) (hnd : h.nd = some i) :
    fileStep s v h .close = (s, v, { h with nd := none, dirEntries := none, dirNames := none }, .ok .unit) := by
  simp [fileStep, hnd]

/-- a closed handle: EVERY operation is refused — `closed`, `fileClosing` for Stat / ReadDir / Readdirnames, and a
    negative offset of WriteAt is reported first — and changes neither the heap, nor the view, nor the handle -/
theorem fclosed_step (s : Store) (v : View) (h : Handle) (op : FOp) (hn : h.name ≠ []) (hc : h.nd = none) :
    ∃ e, fileStep s v h op = (s, v, h, .err e) ∧ (e = .closed ∨ e = .fileClosing ∨ e = .negOffset) := by
  have hne := isEmpty_false_of_ne hn
  cases op with
  | writeAt b off =>
    by_cases ho : off < 0
    · exact ⟨.negOffset, by simp [fileStep, ho], by simp⟩
    · exact ⟨.closed, by simp [fileStep, hne, hc, ho], by simp⟩
  | stat => exact ⟨.fileClosing, by simp [fileStep, hne, hc], by simp⟩
  | readDir n => exact ⟨.fileClosing, by simp [fileStep, hne, hc], by simp⟩
  | readdirnames n => exact ⟨.fileClosing, by simp [fileStep, hne, hc], by simp⟩
  | _ => exact ⟨.closed, by simp [fileStep, hne, hc], by simp⟩

/-- a sequence of operations on one handle, each on the heap and view the previous one left -/
def fileRun (s : Store) (v : View) (h : Handle) : List FOp → Store × View × Handle × List Out
  | [] => (s, v, h, [])
  | op :: rest =>
    let (s1, v1, h1, o) := fileStep s v h op
    let (s2, v2, h2, os) := fileRun s1 v1 h1 rest
    (s2, v2, h2, o :: os)

theorem fclosed_run (ops : List FOp) (s : Store) (v : View) (h : Handle) (hn : h.name ≠ []) (hc : h.nd = none) :
    (fileRun s v h ops).1 = s ∧ (fileRun s v h ops).2.1 = v ∧ (fileRun s v h ops).2.2.1 = h ∧
    (fileRun s v h ops).2.2.2.length = ops.length ∧
    ∀ o ∈ (fileRun s v h ops).2.2.2, o = .err .closed ∨ o = .err .fileClosing ∨ o = .err .negOffset := by
  induction ops with
  | nil => simp [fileRun]
  | cons op rest ih =>
    obtain ⟨e, he, hcase⟩ := fclosed_step s v h op hn hc
    simp only [fileRun, he]
    obtain ⟨i1, i2, i3, i4, i5⟩ := ih
    refine ⟨i1, i2, i3, by simp [i4], ?_⟩
    intro o ho
    rcases List.mem_cons.mp ho with rfl | ho
    · rcases hcase with h | h | h <;> simp [h]
    · exact i5 o ho

/-- CLOSE, THEN ANYTHING: Close succeeds and changes nothing but the handle; every later operation — a second Close
    included — is refused and changes nothing, for ever -/
theorem fclose_forever (s : Store) (v : View) (h : Handle) (i : Ino) (ho : h.onNode i) (ops : List FOp) :
    let hc : Handle := { h with nd := none, dirEntries := none, dirNames := none }
    (fileRun s v h (.close :: ops)).1 = s ∧ (fileRun s v h (.close :: ops)).2.1 = v ∧
    (fileRun s v h (.close :: ops)).2.2.1 = hc ∧
    (fileRun s v h (.close :: ops)).2.2.2.head? = some (.ok .unit) ∧
    (∀ o ∈ (fileRun s v h (.close :: ops)).2.2.2.tail, o = .err .closed ∨ o = .err .fileClosing ∨ o = .err .negOffset) ∧
    fileStep s v hc .close = (s, v, hc, .err .closed) := by
  intro hc
  have hrun := fclosed_run ops s v hc ho.1 rfl
  simp only [fileRun, fclose_eq s v h i ho.2]
  refine ⟨hrun.1, hrun.2.1, hrun.2.2.1, rfl, hrun.2.2.2.2, ?_⟩
  simp [fileStep, hc, isEmpty_false_of_ne ho.1]

/-! ### every operation: what it can change -/

/-- two nodes of the same kind with the same entries / link count and file id / target -/
def Node.sameLinks : Node → Node → Prop
  | .dir _ ch, .dir _ ch' => ch = ch'
  | .file _ _ nl id, .file _ _ nl' id' => nl = nl' ∧ id = id'
  | .symlink _ l, .symlink _ l' => l = l'
  | _, _ => False

theorem Node.sameLinks_setMeta (n : Node) (m : Meta) : n.sameLinks (n.setMeta m) := by
  cases n <;> simp [Node.sameLinks, Node.setMeta]

theorem setMode_sameLinks {n n' : Node} {mode : Nat} {v : View} (h : setMode n mode v = some n') : n.sameLinks n' := by
  rw [setMode_eq] at h
  cases n with
  | symlink m l => cases h
  | dir m ch =>
    simp only [] at h
    split at h
    · simp only [Option.some.injEq] at h; subst h; exact Node.sameLinks_setMeta _ _
    · cases h
  | file m d nl id =>
    simp only [] at h
    split at h
    · simp only [Option.some.injEq] at h; subst h; exact Node.sameLinks_setMeta _ _
    · cases h

local macro "effect_tac" : tactic =>
  `(tactic| ((repeat' split) <;>
    first
    | (left; first | rfl | trivial)
    | (right
       exact ⟨_, _, by assumption, rfl,
         by first
           | exact Node.sameLinks_setMeta _ _
           | exact setMode_sameLinks (by assumption)
           | simp [Node.sameLinks]⟩)))

/-- EVERY operation of a handle on the inode `i`: the heap is unchanged, or exactly the node `i` is replaced by a node
    of the same kind with the same entries / link count / id -/
theorem fileStep_effect (s : Store) (v : View) (h : Handle) (i : Ino) (op : FOp) (hnd : h.nd = some i) :
    (fileStep s v h op).1 = s ∨
    ∃ n n', s.get i = some n ∧ (fileStep s v h op).1 = s.set i n' ∧ n.sameLinks n' := by
  cases op with
  | read n => simp only [fileStep, hnd]; effect_tac
  | readAt n off => simp only [fileStep, hnd]; effect_tac
  | write b => simp only [fileStep, hnd]; effect_tac
  | writeAt b off => simp only [fileStep, hnd]; effect_tac
  | seek off w => simp only [fileStep, hnd]; effect_tac
  | truncate size => simp only [fileStep, hnd]; effect_tac
  | stat => simp only [fileStep, hnd]; effect_tac
  | sync => simp only [fileStep, hnd]; effect_tac
  | chmod mode => simp only [fileStep, hnd]; effect_tac
  | chown uid gid => simp only [fileStep, hnd]; effect_tac
  | chdir => simp only [fileStep, hnd]; effect_tac
  | close => simp only [fileStep, hnd]; effect_tac
  | readDir n => simp only [fileStep, hnd]; effect_tac
  | readdirnames n => simp only [fileStep, hnd]; effect_tac

theorem sameLinks_refl (n : Node) : n.sameLinks n := by cases n <;> simp [Node.sameLinks]

theorem children_set_sameLinks (s : Store) (i : Ino) (n n' : Node) (d : Ino) (hg : s.get i = some n)
    (hs : n.sameLinks n') : (s.set i n').children d = s.children d := by
  unfold Store.children
  by_cases hd : d = i
  · subst hd
    rw [get_set_eq, hg]
    cases n <;> cases n' <;> simp_all [Node.sameLinks]
  · rw [fsp_get_set_ne s i d n' hd]

/-- EVERY operation of a handle on the inode `i`, in terms of what can be observed: all other nodes are untouched; the
    node `i` keeps its kind, its entries, its link count and file id; NO DIRECTORY GAINS OR LOSES AN ENTRY — an operation
    through a handle never gives a name back to an unlinked node, nor takes one away —; the allocator does not move -/
theorem fileStep_frame (s : Store) (v : View) (h : Handle) (i : Ino) (op : FOp) (hnd : h.nd = some i) :
    (∀ j, j ≠ i → (fileStep s v h op).1.get j = s.get j) ∧
    (∀ d, (fileStep s v h op).1.children d = s.children d) ∧
    (∀ d nm, (fileStep s v h op).1.child d nm = s.child d nm) ∧
    (∀ d, (fileStep s v h op).1.names d = s.names d) ∧
    (∀ n, s.get i = some n → ∃ n', (fileStep s v h op).1.get i = some n' ∧ n.sameLinks n') ∧
    (s.get i = none → (fileStep s v h op).1 = s) ∧
    (fileStep s v h op).1.next = s.next ∧ (fileStep s v h op).1.lastId = s.lastId := by
  have hch : ∀ d, (fileStep s v h op).1.children d = s.children d := by
    intro d
    rcases fileStep_effect s v h i op hnd with h0 | ⟨n, n', hg, h1, h2⟩
    · rw [h0]
    · rw [h1]; exact children_set_sameLinks s i n n' d hg h2
  refine ⟨?_, hch, ?_, ?_, ?_, ?_, ?_, ?_⟩
  · intro j hj
    rcases fileStep_effect s v h i op hnd with h0 | ⟨n, n', hg, h1, h2⟩
    · rw [h0]
    · rw [h1]; exact fsp_get_set_ne s i j n' hj
  · intro d nm; simp only [Store.child, hch]
  · intro d; simp only [Store.names, hch]
  · intro n hg
    rcases fileStep_effect s v h i op hnd with h0 | ⟨n0, n', hg', h1, h2⟩
    · rw [h0]; exact ⟨n, hg, sameLinks_refl n⟩
    · rw [h1, get_set_eq]
      rw [hg] at hg'
      cases hg'
      exact ⟨n', rfl, h2⟩
  · intro hg
    rcases fileStep_effect s v h i op hnd with h0 | ⟨n0, n', hg', h1, h2⟩
    · exact h0
    · rw [hg] at hg'; cases hg'
  · rcases fileStep_effect s v h i op hnd with h0 | ⟨n, n', hg, h1, h2⟩
    · rw [h0]
    · rw [h1]; rfl
  · rcases fileStep_effect s v h i op hnd with h0 | ⟨n, n', hg, h1, h2⟩
    · rw [h0]
    · rw [h1]; rfl

/-- Name: the name given to Open stays with the handle through every operation, and so do the mode and the view; the
    node stays too, except that Close forgets it -/
theorem fileStep_handle (s : Store) (v : View) (h : Handle) (op : FOp) :
    (fileStep s v h op).2.2.1.name = h.name ∧ (fileStep s v h op).2.2.1.om = h.om ∧
    (fileStep s v h op).2.2.1.view = h.view ∧ (op ≠ .close → (fileStep s v h op).2.2.1.nd = h.nd) := by
  cases op <;> simp only [fileStep] <;> (repeat' split) <;> simp

/-- no operation of a handle panics or hangs as long as the node of the handle is allocated (it always is: nodes are
    never freed) -/
theorem fileStep_no_panic (s : Store) (v : View) (h : Handle) (i : Ino) (n : Node) (op : FOp)
    (hnd : h.nd = some i) (hg : s.get i = some n) :
    (fileStep s v h op).2.2.2 ≠ .panic ∧ (fileStep s v h op).2.2.2 ≠ .hang := by
  cases op <;> simp only [fileStep, hnd, hg, fillStat_eq, Option.map_some] <;> (repeat' split) <;> simp_all

end Avfs.FS
