import Avfs.Lemmas.SubSim2
import Avfs.Lemmas.BasePath
import Avfs.Lemmas.Walk
/-
  C10 (chroot simulation): BasePathFS over the MemFS model = the view of the MemFS model rooted at the base directory.

  1. Path algebra (`toBasePath_pathOf`): for the base path "/a1/…/an" (n ≥ 1) and ANY byte string `p`, with an absolute
     virtual current directory `w`: ToBasePath(p) = "/a1/…/an/b1/…/bm" where b1 … bm = the components of Clean(Abs(p))
     (`vcomps w p`), ordinary names (`vcomps_names`); Clean(Abs(p)) = "/b1/…/bm" (`vpath_eq`).
  2. The model of the wrapper's methods (`bp<Call>`): ToBasePath on every path parameter + the guards of the Go source;
     the virtual current directory `bpCwd` (= Getwd of the base, translated); `bpCwd_abs`: it is an absolute path whatever
     the base's current directory is (after the repair of Getwd; `bpCwd_prefix_repaired`: the former breach).
  3. The setting `BpOK` and the transfer of paths.
  4. `bp_sim_<call>`: wrapper on `p` = view rooted at the base directory (`subView v c`, Lemmas/SubSim.lean) on
     Clean(Abs(p)): by the `sub_sim` theorems of C11, plus the cases of the root of the virtual namespace that `sub_sim`
     excludes (Mkdir, Remove, RemoveAll, Link, OpenFile proved; Stat / Lstat: the name differs, `bp_sim_stat_root`;
     Rename: `bp_rename_root`).
  5. `<call>_chroot`: a MemFS view resolves `p` as Abs(p) against its current directory, so the call on `p` itself
     through `chrootView v c w` is the call on Clean(Abs(p)) through `subView v c`.
  6. `bp_chroot_<call>` = 4 + 5: the wrapper on `p` = the SAME call on the SAME byte string on the file system rooted at
     the base directory with current directory `bpCwd` ("BasePathFS(B) is a chroot to B").
  7. Chdir / Getwd: `bp_sim_chdir` (the correspondence of the two views and `BpOK` are kept).
-/
set_option linter.unusedVariables false
set_option linter.unusedSimpArgs false

namespace Avfs.FS
open Avfs.Path Avfs.Wrap

/-! ### 1. path algebra -/

/-- ordinary entry names: non-empty, without separator, neither "." nor ".." -/
def Names (l : List Bytes) : Prop :=
  (∀ x ∈ l, x ≠ [] ∧ ∀ y ∈ x, y ≠ SL) ∧ (∀ x ∈ l, x ≠ [DOT] ∧ x ≠ [DOT, DOT])

theorem Names.append {a b : List Bytes} (ha : Names a) (hb : Names b) : Names (a ++ b) := by
  refine ⟨fun x hx => ?_, fun x hx => ?_⟩
  · rcases List.mem_append.mp hx with h | h
    · exact ha.1 x h
    · exact hb.1 x h
  · rcases List.mem_append.mp hx with h | h
    · exact ha.2 x h
    · exact hb.2 x h

theorem specFold_plain (r : Bool) (cs : List Bytes) (h : ∀ x ∈ cs, x ≠ [DOT] ∧ x ≠ Spec.DD) (st : List Bytes) :
    cs.foldl (Spec.specStep r) st = cs.reverse ++ st := by
  induction cs generalizing st with
  | nil => rfl
  | cons x xs ih =>
    have hx := h x (by simp)
    have h1 : (x == [DOT]) = false := by simpa using hx.1
    have h2 : (x == Spec.DD) = false := by simpa using hx.2
    simp only [List.foldl_cons, Spec.specStep, h1, h2, Bool.false_eq_true, if_false]
    rw [ih (fun y hy => h y (by simp [hy]))]
    simp

/-- a cleaned rooted path is "/" followed by its components joined by "/", and the components are ordinary names -/
theorem cleanAbs_pathOf {c : Bytes} (h : CleanAbs c) : c = pathOf (Spec.comps c) ∧ Names (Spec.comps c) := by
  obtain ⟨body, rfl, h1, h2, hfix⟩ := h
  have hgood := comps_good (SL :: body)
  have hnd : ∀ x ∈ Spec.comps (SL :: body), x ≠ [DOT] ∧ x ≠ Spec.DD := by
    intro x hx
    rw [comps_sl] at hx
    exact ⟨fun e => h2 (e ▸ hx), fun e => h1 (e ▸ hx)⟩
  refine ⟨?_, fun x hx => ⟨(hgood x hx).1, fun y hy e => (hgood x hx).2 (e ▸ hy)⟩, fun x hx => ?_⟩
  · have hc : Spec.clean (SL :: body) = pathOf (Spec.comps (SL :: body)) := by
      rw [Spec.clean, specFold_plain _ _ hnd]
      simp [Spec.render, Spec.isRooted, pathOf]
    rw [← hc, hfix]
  · exact ⟨(hnd x hx).1, (hnd x hx).2⟩

theorem joinWith_append_ne (a b : List Bytes) (ha : a ≠ []) (hb : b ≠ []) :
    joinWith SL a ++ SL :: joinWith SL b = joinWith SL (a ++ b) := by
  induction a with
  | nil => exact absurd rfl ha
  | cons x xs ih =>
    cases xs with
    | nil =>
      cases b with
      | nil => exact absurd rfl hb
      | cons y ys => simp [joinWith]
    | cons x' xs' =>
      have := ih (by simp)
      simp only [List.cons_append, joinWith, List.append_assoc] at this ⊢
      rw [← this]

theorem pathOf_append (a b : List Bytes) (ha : a ≠ []) (hb : b ≠ []) : pathOf a ++ pathOf b = pathOf (a ++ b) := by
  simp only [pathOf, List.cons_append]
  rw [joinWith_append_ne a b ha hb]

/-- the components of "/c1/…/cn" are c1 … cn -/
theorem comps_pathOf (l : List Bytes) (h : ∀ x ∈ l, x ≠ [] ∧ ∀ y ∈ x, y ≠ SL) : Spec.comps (pathOf l) = l := by
  rw [pathOf, comps_sl, comps_joinWith, flatMap_comps_good]
  intro c hc
  exact ⟨(h c hc).1, fun hm => (h c hc).2 SL hm rfl⟩

/-- the cleaned absolute virtual path: Clean(Abs(p)) with the virtual current directory `w` -/
def vpath (w p : Bytes) : Bytes := clean .linux (abs .linux p w)

/-- its components -/
def vcomps (w p : Bytes) : List Bytes := Spec.comps (vpath w p)

theorem vpath_cleanAbs (w p : Bytes) (hw : isAbs .linux w = true) : CleanAbs (vpath w p) := by
  obtain ⟨y, hy, _, ha⟩ := toBase_inner w p hw
  rw [vpath, ha]
  exact cleanAbs_of_rooted y hy

/-- Clean(Abs(p)) = "/" ++ its components joined by "/" -/
theorem vpath_eq (w p : Bytes) (hw : isAbs .linux w = true) : vpath w p = pathOf (vcomps w p) :=
  (cleanAbs_pathOf (vpath_cleanAbs w p hw)).1

/-- the components of Clean(Abs(p)) are ordinary names: no ".", no "..", whatever `p` is -/
theorem vcomps_names (w p : Bytes) (hw : isAbs .linux w = true) : Names (vcomps w p) :=
  (cleanAbs_pathOf (vpath_cleanAbs w p hw)).2

/-- Abs already cleans -/
theorem vpath_abs (w p : Bytes) (hw : isAbs .linux w = true) : vpath w p = abs .linux p w := by
  unfold vpath abs
  by_cases hp : isAbs .linux p = true
  · simp only [hp, if_true, clean_eq_spec, spec_clean_idem]
  · have hp' : isAbs .linux p = false := by simpa using hp
    have hne : w ≠ [] := by intro e; subst e; simp [isAbs] at hw
    have hemp : w.isEmpty = false := by cases w <;> simp_all
    have hj : Path.join .linux [w, p]
        = Spec.clean (joinWith SL (w :: [p].filter (fun e => !e.isEmpty))) := by
      rw [join_eq_spec, Spec.join]
      simp [List.filter_cons, hemp]
    simp only [hp', Bool.false_eq_true, if_false]
    rw [hj, clean_eq_spec, spec_clean_idem]

/-- PATH ALGEBRA: for a base path "/a1/…/an" (n ≥ 1) and ANY byte string `p`, what ToBasePath hands to the base file
    system is "/a1/…/an/b1/…/bm" where b1 … bm are the components of Clean(Abs(p)) — ordinary names
    (`vcomps_names`) -/
theorem toBasePath_pathOf (a : List Bytes) (ha : a ≠ []) (w p : Bytes) (hw : isAbs .linux w = true) :
    toBasePath (pathOf a) w p = pathOf (a ++ vcomps w p) := by
  have hca := vpath_cleanAbs w p hw
  have hv := vpath_eq w p hw
  obtain ⟨y, hy, hc, hab⟩ := toBase_inner w p hw
  have hvy : vpath w p = Spec.clean y := hab
  unfold toBasePath
  split
  · rename_i hp
    have hp : p = [SL] := by simpa using hp
    subst hp
    have : vcomps w [SL] = [] := by
      have : vpath w [SL] = [SL] := by
        rw [vpath_abs w _ hw]; simp [abs, isAbs, clean_eq_spec]; decide
      rw [vcomps, this]; decide
    rw [this, List.append_nil]
  · simp only [hc, ← hvy]
    split
    · rename_i hl
      have h1 : vpath w p = [SL] := cleanAbs_len_one hca (by simpa using hl)
      have : vcomps w p = [] := by rw [vcomps, h1]; decide
      rw [this, List.append_nil]
    · rename_i hl
      have hne : vcomps w p ≠ [] := by
        intro e
        rw [e] at hv
        rw [hv] at hl
        simp [pathOf, joinWith] at hl
      rw [hv, pathOf_append a _ ha hne]

/-- why n ≥ 1: with the base path "/" (no chroot at all) ToBasePath glues "/" and "/x" into "//x", which is not a
    clean path (MemFS cleans it again; the statements below are about clean translated paths) -/
theorem toBasePath_root_base : toBasePath [SL] [SL] [SL, 120] = [SL, SL, 120] := by
  simp only [toBasePath, join_eq_spec, clean_eq_spec]
  decide

/-! ### 2. the model of the BasePathFS calls over the MemFS model

  From vfs/basepathfs/basepathfs.go (the shapes are those of the regenerated table `bpfsTable`, Generated/Wrap.lean):
  every forwarding method hands each path parameter through ToBasePath to the same method of the base file system.
  BasePathFS keeps NO current directory of its own: a relative path is joined to `vfs.Getwd()`, which is the base's
  Getwd translated by FromBasePath ("/" when the base's current directory does not start with the base path).
  Guards before the base call (the `guard` column of the table): Mkdir("") → ENOENT; Remove / RemoveAll of the root
  → EINVAL (`errRoot`); RemoveAll("") → nil; Rename from or onto the root (the two translated paths being different)
  → EINVAL. Readlink, Symlink, EvalSymlinks are REFUSED (ErrPermDenied = EACCES: BasePathFS clears FeatSymlink);
  ReadDir is the composite `avfs.ReadDir` (OpenFile through the wrapper, then ReadDir(-1) of the handle).
  ERRORS: the Go wrapper rewrites the path strings INSIDE a returned *PathError / *LinkError (FromPathError,
  FromLinkError → FromBasePath). The model's outcomes carry no path strings (`Err` is an enumeration), so nothing is to
  be translated here; the string side is `C10_roundtrip` (FromBasePath ∘ ToBasePath = Clean ∘ Abs) and the tables. -/

/-- the virtual current directory of the wrapper: Getwd of the base file system (the view `v`), translated -/
def bpCwd (base : Bytes) (v : View) : Bytes := (Wrap.getwd base v.cwd).getD [SL]

/-- the path the wrapper hands to the base file system for the path parameter `p` -/
def bpPath (base : Bytes) (v : View) (p : Bytes) : Bytes := toBasePath base (bpCwd base v) p

def bpMkdir (base : Bytes) (s : Store) (v : View) (p : Bytes) (perm : Nat) : Store × Out :=
  if p.isEmpty then (s, .err .ENOENT) else mkdir s v (bpPath base v p) perm

def bpMkdirAll (base : Bytes) (s : Store) (v : View) (p : Bytes) (perm : Nat) : Store × Out :=
  mkdirAll s v (bpPath base v p) perm

/-- Stat (`m = .stat`) and Lstat (`m = .lstat`) -/
def bpStat (base : Bytes) (s : Store) (v : View) (p : Bytes) (m : SlMode) : Store × Out :=
  stat s v (bpPath base v p) m

def bpChmod (base : Bytes) (s : Store) (v : View) (p : Bytes) (mode : Nat) : Store × Out :=
  chmod s v (bpPath base v p) mode

/-- Chown (`m = .eval`) and Lchown (`m = .lstat`) -/
def bpChown (base : Bytes) (s : Store) (v : View) (p : Bytes) (uid gid : Int) (m : SlMode) : Store × Out :=
  chown s v (bpPath base v p) uid gid m

def bpChtimes (base : Bytes) (s : Store) (v : View) (p : Bytes) (mtime : Int) : Store × Out :=
  chtimes s v (bpPath base v p) mtime

def bpTruncate (base : Bytes) (s : Store) (v : View) (p : Bytes) (size : Int) : Store × Out :=
  truncate s v (bpPath base v p) size

def bpLink (base : Bytes) (s : Store) (v : View) (o n : Bytes) : Store × Out :=
  link s v (bpPath base v o) (bpPath base v n)

/-- OpenFile: the base handle (wrapped in a BasePathFile whose methods forward to it) -/
def bpOpenFile (base : Bytes) (s : Store) (v : View) (vid : Nat) (p : Bytes) (flag perm : Nat) :
    Store × Except Err Handle :=
  openFile s v vid (bpPath base v p) flag perm

/-- ReadDir: `avfs.ReadDir(vfs, dirname)` = OpenFile through the wrapper, ReadDir(-1) of the (forwarding) handle -/
def bpReadDir (base : Bytes) (s : Store) (v : View) (vid : Nat) (p : Bytes) : Out :=
  readDir s v vid (bpPath base v p)

def bpRemove (base : Bytes) (s : Store) (v : View) (p : Bytes) : Store × Out :=
  if bpPath base v p == base then (s, .err .EINVAL) else remove s v (bpPath base v p)

def bpRemoveAll (base : Bytes) (s : Store) (v : View) (p : Bytes) : Store × Out :=
  if p.isEmpty then (s, .ok .unit) else
  if bpPath base v p == base then (s, .err .EINVAL) else removeAll s v (bpPath base v p)

def bpRename (base : Bytes) (s : Store) (v : View) (o n : Bytes) : Store × Out :=
  if bpPath base v o != bpPath base v n && (bpPath base v o == base || bpPath base v n == base) then
    (s, .err .EINVAL)
  else rename s v (bpPath base v o) (bpPath base v n)

/-- Readlink, Symlink, EvalSymlinks: refused whatever the arguments (ErrPermDenied) -/
def bpReadlink (base : Bytes) (s : Store) (v : View) (p : Bytes) : Store × Out := (s, .err .EACCES)
def bpSymlink (base : Bytes) (s : Store) (v : View) (o n : Bytes) : Store × Out := (s, .err .EACCES)
def bpEvalSymlinks (base : Bytes) (s : Store) (v : View) (p : Bytes) : Store × Out := (s, .err .EACCES)

/-! ### the virtual current directory -/

/-- the base's current directory is not the base path nor below it (no Chdir through the wrapper yet): "/" -/
theorem bpCwd_outside (base : Bytes) (v : View) (h : inBase base v.cwd = false) : bpCwd base v = [SL] := by
  simp [bpCwd, Wrap.getwd, h, fromBasePath_self]

/-- the base's current directory is the base directory: "/" -/
theorem bpCwd_base (base : Bytes) (v : View) (h : v.cwd = base) : bpCwd base v = [SL] := by
  simp [bpCwd, Wrap.getwd, h, inBase_self, fromBasePath_self]

/-- the base's current directory is "/a1/…/an/b1/…/bm" (what Chdir through the wrapper leaves): "/b1/…/bm" -/
theorem bpCwd_below (a b : List Bytes) (ha : a ≠ []) (hb : Names b) (v : View) (h : v.cwd = pathOf (a ++ b)) :
    bpCwd (pathOf a) v = pathOf b := by
  by_cases hbe : b = []
  · subst hbe
    exact bpCwd_base _ v (by simpa using h)
  · have hc : CleanAbs (pathOf b) := by
      refine ⟨joinWith SL b, rfl, ?_, ?_, ?_⟩
      · rw [comps_joinWith, flatMap_comps_good _ (fun c hc => ⟨(hb.1 c hc).1, fun hm => (hb.1 c hc).2 SL hm rfl⟩)]
        exact fun hm => (hb.2 _ hm).2 rfl
      · rw [comps_joinWith, flatMap_comps_good _ (fun c hc => ⟨(hb.1 c hc).1, fun hm => (hb.1 c hc).2 SL hm rfl⟩)]
        exact fun hm => (hb.2 _ hm).1 rfl
      · rw [← clean_eq_spec]; exact clean_joined b hb.1 hb.2
    have h' : v.cwd = pathOf a ++ pathOf b := by rw [h, pathOf_append a b ha hbe]
    have hpre : inBase (pathOf a) v.cwd = true := by
      rw [h']; simp [inBase, pathOf]
    simp only [bpCwd, Wrap.getwd, hpre, if_true]
    rw [h', fromBasePath_append _ hc]
    rfl

/-- a clean absolute path other than "/" does not end with a separator -/
theorem pathOf_getLast (a : List Bytes) (ha : a ≠ []) (hn : ∀ x ∈ a, x ≠ [] ∧ ∀ y ∈ x, y ≠ SL) :
    (pathOf a).getLast? ≠ some SL := by
  obtain ⟨l, x, rfl⟩ : ∃ l x, a = l ++ [x] := ⟨a.dropLast, a.getLast ha, (List.dropLast_concat_getLast ha).symm⟩
  have hx := hn x (by simp)
  obtain ⟨y, z, rfl⟩ : ∃ y z, x = y ++ [z] := ⟨x.dropLast, x.getLast hx.1, (List.dropLast_concat_getLast hx.1).symm⟩
  have hz : z ≠ SL := hx.2 z (by simp)
  have : ∃ pre, pathOf (l ++ [y ++ [z]]) = pre ++ [z] := by
    rw [pathOf, joinWith_snoc]
    by_cases hl : l = []
    · exact ⟨SL :: y, by simp [hl]⟩
    · exact ⟨SL :: (joinWith SL l ++ SL :: y), by simp [hl]⟩
  obtain ⟨pre, hp⟩ := this
  rw [hp, List.getLast?_append]
  simp [hz]

/-- AFTER THE REPAIR of Getwd (`inBase`): for a base path that does not end with a separator, the virtual current
    directory is an absolute path WHATEVER the current directory of the base is -/
theorem bpCwd_abs_gen (base : Bytes) (hbl : base.getLast? ≠ some SL) (v : View) :
    isAbs .linux (bpCwd base v) = true := by
  by_cases h : inBase base v.cwd = true
  · obtain ⟨rest, hr⟩ : ∃ rest, base ++ rest = v.cwd := List.isPrefixOf_iff_prefix.mp (inBase_prefix h)
    have h2 := h
    unfold inBase at h2
    rw [← hr, List.drop_left] at h2
    cases rest with
    | nil => rw [bpCwd_base base v (by simpa using hr.symm)]; rfl
    | cons c r =>
      have hc : c = SL := by
        have hb : (base.getLast? == some SL) = false := by simpa using hbl
        simpa [hb] using h2
      subst hc
      have hrooted : Spec.isRooted (joinWith SL [SL :: r, [SL]]) = true := rfl
      obtain ⟨body, hbody, _⟩ := cleanAbs_of_rooted _ hrooted
      have : bpCwd base v = Spec.clean (joinWith SL [SL :: r, [SL]]) := by
        have hp := inBase_prefix h
        rw [← hr] at h hp
        simp only [bpCwd, Wrap.getwd, ← hr, h, if_true, fromBasePath, hp, List.drop_left,
          Option.getD_some, join_eq_spec]
        simp [Spec.join]
      rw [this, hbody]
      rfl
  · rw [bpCwd_outside base v (by simpa using h)]; rfl

/-- … in particular for the base path "/a1/…/an", n ≥ 1 -/
theorem bpCwd_abs (a : List Bytes) (ha : a ≠ []) (hn : ∀ x ∈ a, x ≠ [] ∧ ∀ y ∈ x, y ≠ SL) (v : View) :
    isAbs .linux (bpCwd (pathOf a) v) = true :=
  bpCwd_abs_gen _ (pathOf_getLast a ha hn) v

/-- REPAIRED (was the corner `bpCwd_prefix_cex`, a breach of the confinement): the pre-repair Getwd tested
    `strings.HasPrefix(dir, vfs.basePath)` on STRINGS; with base "/tmp" and the base's current directory "/tmpfoo"
    (outside the base; reachable by a Chdir on the base file system itself) it answered the RELATIVE path "foo", and the
    relative path "x" was handed to the base as "/tmpfoo/x", outside the base directory. With `inBase` the virtual
    current directory is "/" and "x" is handed to the base as "/tmp/x": inside. -/
theorem bpCwd_prefix_repaired :
    bpCwd [SL, 116, 109, 112] { root := 0, cwd := [SL, 116, 109, 112, 102, 111, 111], uid := 0, gid := 0, admin := true, umask := 0 }
      = [SL] ∧
    bpPath [SL, 116, 109, 112] { root := 0, cwd := [SL, 116, 109, 112, 102, 111, 111], uid := 0, gid := 0, admin := true, umask := 0 } [120]
      = [SL, 116, 109, 112, SL, 120] ∧
    Within [SL, 116, 109, 112] [SL, 116, 109, 112, SL, 120] := by
  have h1 : bpCwd [SL, 116, 109, 112] { root := 0, cwd := [SL, 116, 109, 112, 102, 111, 111], uid := 0, gid := 0, admin := true, umask := 0 }
      = [SL] := bpCwd_outside _ _ (by decide)
  refine ⟨h1, ?_, ?_⟩
  · simp only [bpPath, h1, toBasePath, join_eq_spec, clean_eq_spec]
    decide
  · exact Or.inr ⟨[120], rfl, by decide, by decide⟩

theorem specJoin_empty_or_clean (es : List Bytes) : Spec.join es = [] ∨ Spec.clean (Spec.join es) = Spec.join es := by
  unfold Spec.join
  split
  · exact Or.inl rfl
  · exact Or.inr (spec_clean_idem _)

/-- the virtual current directory is in clean form (it is a result of Join), or empty -/
theorem bpCwd_clean (base : Bytes) (v : View) : bpCwd base v = [] ∨ Spec.clean (bpCwd base v) = bpCwd base v := by
  have key : ∀ x : Bytes, (fromBasePath base x).getD [SL] = [] ∨
      Spec.clean ((fromBasePath base x).getD [SL]) = (fromBasePath base x).getD [SL] := by
    intro x
    unfold fromBasePath
    split
    · simp only [Option.getD_some, join_eq_spec]
      exact specJoin_empty_or_clean _
    · exact Or.inr (by decide)
  exact key _

/-- Clean(Abs("")) is the current directory -/
theorem vpath_empty (base : Bytes) (v : View) (hw : isAbs .linux (bpCwd base v) = true) :
    vpath (bpCwd base v) [] = bpCwd base v := by
  have hne : bpCwd base v ≠ [] := by intro e; rw [e] at hw; simp [isAbs] at hw
  have hemp : (bpCwd base v).isEmpty = false := by cases hh : bpCwd base v <;> simp_all
  have hcl := (bpCwd_clean base v).resolve_left hne
  rw [vpath_abs _ _ hw]
  simp only [abs, isAbs, Bool.false_eq_true, if_false]
  rw [join_eq_spec, Spec.join]
  simp only [List.filter_cons, hemp, Bool.not_false, if_true, List.isEmpty_nil, Bool.not_true, Bool.false_eq_true,
    if_false, List.filter_nil, joinWith]
  exact hcl

/-! ### 3. the setting and the transfer of paths -/

/-- The setting of the simulation. `s` is a well-formed heap with whole-tree root `root`; `v` is the view of the base
    file system (the MemFS the wrapper was created over: its user, umask and current directory); the base path is
    "/a1/…/an" (n ≥ 1, ordinary names: `NewWithErr` stores `Abs(basePath)`, a cleaned absolute path), which the base
    resolves WITHOUT meeting a symbolic link, searching every directory on the way, to the directory node `c`
    (`NewWithErr` checks that Stat succeeds and reports a directory);. NO hypothesis on the current directory of the base: the
    virtual current directory is an absolute path whatever it is (`BpOK.cwdAbs` from `bpCwd_abs`, since the repair of
    Getwd; before, this was a field of the structure and `bpCwd_prefix_repaired` was the corner it excluded). -/
structure BpOK (s : Store) (root : Ino) (v : View) (a : List Bytes) (c : Ino) : Prop where
  wf : WF s root
  names : NamesOK s
  view : ViewOK s v
  vroot : v.root = root
  ane : a ≠ []
  anames : Names a
  reach : ∃ par, walkPath s v root a = .found par c
  isDir : ∃ mt ch, s.get c = some (.dir mt ch)

/-- the virtual current directory of the wrapper with base path "/a1/…/an" -/
abbrev bpW (a : List Bytes) (v : View) : Bytes := bpCwd (pathOf a) v

/-- the components, below the view's root, of the path parameter `p` -/
abbrev bpB (a : List Bytes) (v : View) (p : Bytes) : List Bytes := vcomps (bpW a v) p

section
variable {s : Store} {root : Ino} {v : View} {a : List Bytes} {c : Ino}

/-- the virtual current directory is an absolute path: no longer a hypothesis (`bpCwd_abs`, after the repair of Getwd) -/
theorem BpOK.cwdAbs (h : BpOK s root v a c) : isAbs .linux (bpCwd (pathOf a) v) = true :=
  bpCwd_abs a h.ane h.anames.1 v

theorem BpOK.path (h : BpOK s root v a c) (p : Bytes) : bpPath (pathOf a) v p = pathOf (a ++ bpB a v p) :=
  toBasePath_pathOf a h.ane _ p h.cwdAbs

theorem BpOK.vpath (h : BpOK s root v a c) (p : Bytes) : vpath (bpW a v) p = pathOf (bpB a v p) :=
  vpath_eq _ p h.cwdAbs

theorem BpOK.bnames (h : BpOK s root v a c) (p : Bytes) : Names (a ++ bpB a v p) :=
  h.anames.append (vcomps_names _ p h.cwdAbs)

/-- the translated path is the base path exactly when `p` names the root of the virtual namespace -/
theorem BpOK.path_eq_base (h : BpOK s root v a c) (p : Bytes) :
    (bpPath (pathOf a) v p == pathOf a) = decide (bpB a v p = []) := by
  rw [h.path p]
  by_cases hb : bpB a v p = []
  · simp [hb]
  · have : pathOf (a ++ bpB a v p) ≠ pathOf a := by
      intro e
      have := pathOf_inj (h.bnames p).1 h.anames.1 e
      exact hb (by simpa using this)
    have hne : (pathOf (a ++ bpB a v p) == pathOf a) = false := by
      rw [beq_eq_false_iff_ne]; exact this
    rw [hne]; simp [hb]

theorem BpOK.path_eq_iff (h : BpOK s root v a c) (p q : Bytes) :
    bpPath (pathOf a) v p = bpPath (pathOf a) v q ↔ bpB a v p = bpB a v q := by
  rw [h.path p, h.path q]
  constructor
  · intro e
    have := pathOf_inj (h.bnames p).1 (h.bnames q).1 e
    simpa using this
  · intro e; rw [e]

end

/-! ### 4. the simulation: BasePathFS(B) = the view rooted at B

  `bp_sim_<call>`: the wrapper's call on ANY byte string `p`, over the heap `s`, through the base view `v` = the same
  call through the view rooted at the base directory (`subView v c`: same user and umask, root `c`, current
  directory "/") on Clean(Abs(p)) (`vpath (bpW a v) p`, absolute: the virtual current directory is already used) — same
  outcome AND same new heap. The escape is the one of the `sub_sim` theorems: the descent of the base through
  "/a1/…/an/b1/…/bm" meets a symbolic link (`.viaLink`; a link as LAST component is covered for Lstat, RemoveAll).
  Where `p` names the root of the virtual namespace (`bpB a v p = []`) the statement is either included (Mkdir, Remove,
  RemoveAll — thanks to the wrapper's guards —, ReadDir, Chtimes, Chmod, Chown, Truncate, MkdirAll, OpenFile, the old
  name of Link) or excluded by an explicit hypothesis and stated on its own (Stat / Lstat: `bp_sim_stat_root`,
  Rename: `bp_rename_root`, `bp_rename_root_cex`). -/

section
variable {s : Store} {root : Ino} {v : View} {a : List Bytes} {c : Ino}

theorem mkdir_root (s : Store) (v : View) (perm : Nat) : mkdir s v [SL] perm = (s, .err .EEXIST) := by
  obtain ⟨he, _, _, _⟩ := searchNode_root s v .lstat
  simp [mkdir, he, SErr.toErr]

/-- Mkdir. `p = ""` is answered ENOENT by the wrapper's own guard (as MemFS answers on "": `bp_chroot_mkdir` below has no
    such hypothesis); here the view is given Clean(Abs(p)), which for "" is the current directory. -/
theorem bp_sim_mkdir (h : BpOK s root v a c) (p : Bytes) (hp : p ≠ []) (perm : Nat) :
    walkPath s v root (a ++ bpB a v p) = .viaLink ∨
    bpMkdir (pathOf a) s v p perm = mkdir s (subView v c) (vpath (bpW a v) p) perm := by
  obtain ⟨par, ha⟩ := h.reach
  obtain ⟨mt, ch, hc⟩ := h.isDir
  have hN := h.bnames p
  have hpe : p.isEmpty = false := by cases p <;> simp_all
  simp only [bpMkdir, hpe, Bool.false_eq_true, if_false]
  rw [h.path p, h.vpath p]
  by_cases hb : bpB a v p = []
  · right
    rw [hb, List.append_nil]
    have h2 := mkdir_posix_gen s root v h.wf (h.vroot ▸ get_of_isDirAt h.wf.rootDir) a h.ane h.anames.1
      h.anames.2 perm
    rw [h.vroot, ha] at h2
    simp only [posixMkdir] at h2
    rw [h2]
    exact (mkdir_root s _ perm).symm
  · exact (sub_sim_mkdir s root v h.wf h.names h.view h.vroot a _ hb hN.1 hN.2 par c mt ch ha hc perm).imp_right
      Eq.symm

/-- MkdirAll (the root included) -/
theorem bp_sim_mkdirAll (h : BpOK s root v a c) (p : Bytes) (perm : Nat) :
    walkPath s v root (a ++ bpB a v p) = .viaLink ∨
    bpMkdirAll (pathOf a) s v p perm = mkdirAll s (subView v c) (vpath (bpW a v) p) perm := by
  obtain ⟨par, ha⟩ := h.reach
  obtain ⟨mt, ch, hc⟩ := h.isDir
  have hN := h.bnames p
  simp only [bpMkdirAll]
  rw [h.path p, h.vpath p]
  exact (sub_sim_mkdirAll s root v h.wf h.names h.view h.vroot a _ hN.1 hN.2 par c mt ch ha hc perm).imp_right Eq.symm

/-- Stat (`m = .stat`) / Lstat (`m = .lstat`), `p` not naming the root -/
theorem bp_sim_stat (h : BpOK s root v a c) (p : Bytes) (hb : bpB a v p ≠ []) (m : SlMode) :
    walkPath s v root (a ++ bpB a v p) = .viaLink ∨
    bpStat (pathOf a) s v p m = stat s (subView v c) (vpath (bpW a v) p) m := by
  obtain ⟨par, ha⟩ := h.reach
  obtain ⟨mt, ch, hc⟩ := h.isDir
  have hN := h.bnames p
  simp only [bpStat]
  rw [h.path p, h.vpath p]
  exact (sub_sim_stat s root v h.wf h.names h.view h.vroot a _ hb hN.1 hN.2 par c mt ch ha hc m).imp_right Eq.symm

/-- Lstat: a symbolic link as last component is the node described (only a link as INNER component escapes) -/
theorem bp_sim_lstat (h : BpOK s root v a c) (p : Bytes) (hb : bpB a v p ≠ []) :
    walkPathL s v root (a ++ bpB a v p) = .viaLink ∨
    bpStat (pathOf a) s v p .lstat = stat s (subView v c) (vpath (bpW a v) p) .lstat := by
  obtain ⟨par, ha⟩ := h.reach
  obtain ⟨mt, ch, hc⟩ := h.isDir
  have hN := h.bnames p
  simp only [bpStat]
  rw [h.path p, h.vpath p]
  exact (sub_sim_lstat s root v h.wf h.names h.view h.vroot a _ hb hN.1 hN.2 par c mt ch ha hc).imp_right Eq.symm

theorem fillStat_rename (s : Store) (i : Ino) (n n' : Bytes) (info : Info) (h : fillStat s i n = some info) :
    fillStat s i n' = some { info with name := n' } := by
  unfold fillStat at h ⊢
  cases hg : s.get i with
  | none => simp [hg] at h
  | some nd => cases nd <;> simp only [hg, Option.some.injEq] at h ⊢ <;> subst h <;> rfl

/-- CORNER: Stat / Lstat of the root of the virtual namespace ("/", "..", "/a/..", …). Both calls succeed and describe
    the SAME node (the base directory) with the same attributes; the reported NAME differs: the wrapper reports the
    last component of the base path ("tmp" for base "/tmp"), the view the name MemFS gives its root (""; `stat_root`). -/
theorem bp_sim_stat_root (h : BpOK s root v a c) (p : Bytes) (hb : bpB a v p = []) (m : SlMode) :
    ∃ i, i.name = a.getLast h.ane ∧ bpStat (pathOf a) s v p m = (s, .ok (.info i)) ∧
      stat s (subView v c) (vpath (bpW a v) p) m = (s, .ok (.info { i with name := [] })) := by
  obtain ⟨par, ha⟩ := h.reach
  obtain ⟨mt, ch, hc⟩ := h.isDir
  simp only [bpStat]
  rw [h.path p, h.vpath p, hb, List.append_nil]
  obtain ⟨hs2, h2⟩ := stat_posix_gen s root v h.wf (h.vroot ▸ get_of_isDirAt h.wf.rootDir) a h.ane h.anames.1
    h.anames.2 m
  rw [h.vroot, ha] at h2
  obtain ⟨i, hi, ho⟩ := h2
  obtain ⟨j, hj, hst⟩ := stat_root s (subView v c) m (by show (s.get c).isSome = true; simp [hc])
  have hj' : fillStat s c [] = some j := hj
  rw [fillStat_rename s c _ [] i hi] at hj'
  have hname : i.name = a.getLast h.ane := by
    unfold fillStat at hi
    rw [hc] at hi
    simp only [Option.some.injEq] at hi
    subst hi; rfl
  refine ⟨i, hname, Prod.ext hs2 ho, ?_⟩
  show stat s (subView v c) [SL] m = _
  rw [hst, ← Option.some.inj hj']

/-- Remove (the root included: the wrapper's guard answers EINVAL, as MemFS does for its root) -/
theorem bp_sim_remove (h : BpOK s root v a c) (p : Bytes) :
    walkPath s v root (a ++ bpB a v p) = .viaLink ∨
    bpRemove (pathOf a) s v p = remove s (subView v c) (vpath (bpW a v) p) := by
  obtain ⟨par, ha⟩ := h.reach
  obtain ⟨mt, ch, hc⟩ := h.isDir
  have hN := h.bnames p
  simp only [bpRemove, h.path_eq_base p]
  rw [h.vpath p]
  by_cases hb : bpB a v p = []
  · right
    simp only [hb, decide_true, if_true]
    exact (remove_root s _).symm
  · simp only [hb, decide_false, Bool.false_eq_true, if_false]
    rw [h.path p]
    exact (sub_sim_remove s root v h.wf h.names h.view h.vroot a _ hb hN.1 hN.2 par c mt ch ha hc).imp_right Eq.symm

/-- RemoveAll (the root included: EINVAL on both sides); `p = ""` is answered nil by the wrapper's guard (as MemFS:
    `bp_chroot_removeAll`), here the view is given Clean(Abs(p)) -/
theorem bp_sim_removeAll (h : BpOK s root v a c) (p : Bytes) (hp : p ≠ []) :
    walkPathL s v root (a ++ bpB a v p) = .viaLink ∨
    bpRemoveAll (pathOf a) s v p = removeAll s (subView v c) (vpath (bpW a v) p) := by
  obtain ⟨par, ha⟩ := h.reach
  obtain ⟨mt, ch, hc⟩ := h.isDir
  have hN := h.bnames p
  have hpe : p.isEmpty = false := by cases p <;> simp_all
  simp only [bpRemoveAll, hpe, h.path_eq_base p, Bool.false_eq_true, if_false]
  rw [h.vpath p]
  by_cases hb : bpB a v p = []
  · right
    simp only [hb, decide_true, if_true]
    exact (removeAll_root s _).symm
  · simp only [hb, decide_false, Bool.false_eq_true, if_false]
    rw [h.path p]
    exact (sub_sim_removeAll s root v h.wf h.names h.view h.vroot a _ hb hN.1 hN.2 par c mt ch ha hc).imp_right
      Eq.symm

/-- ReadDir (the root included); `vid`, `vid'`: the numbers the transient handles are registered under -/
theorem bp_sim_readDir (h : BpOK s root v a c) (p : Bytes) (vid vid' : Nat) :
    walkPath s v root (a ++ bpB a v p) = .viaLink ∨
    bpReadDir (pathOf a) s v vid' p = readDir s (subView v c) vid (vpath (bpW a v) p) := by
  obtain ⟨par, ha⟩ := h.reach
  obtain ⟨mt, ch, hc⟩ := h.isDir
  have hN := h.bnames p
  simp only [bpReadDir]
  rw [h.path p, h.vpath p]
  exact (sub_sim_readDir s root v h.wf h.names h.view h.vroot a _ hN.1 hN.2 par c mt ch ha hc vid vid').imp_right
    Eq.symm

theorem bp_sim_chtimes (h : BpOK s root v a c) (p : Bytes) (mtime : Int) :
    walkPath s v root (a ++ bpB a v p) = .viaLink ∨
    bpChtimes (pathOf a) s v p mtime = chtimes s (subView v c) (vpath (bpW a v) p) mtime := by
  obtain ⟨par, ha⟩ := h.reach
  obtain ⟨mt, ch, hc⟩ := h.isDir
  have hN := h.bnames p
  simp only [bpChtimes]
  rw [h.path p, h.vpath p]
  exact (sub_sim_chtimes s root v h.wf h.names h.view h.vroot a _ hN.1 hN.2 par c mt ch ha hc mtime).imp_right
    Eq.symm

theorem bp_sim_chmod (h : BpOK s root v a c) (p : Bytes) (mode : Nat) :
    walkPath s v root (a ++ bpB a v p) = .viaLink ∨
    bpChmod (pathOf a) s v p mode = chmod s (subView v c) (vpath (bpW a v) p) mode := by
  obtain ⟨par, ha⟩ := h.reach
  obtain ⟨mt, ch, hc⟩ := h.isDir
  have hN := h.bnames p
  simp only [bpChmod]
  rw [h.path p, h.vpath p]
  exact (sub_sim_chmod s root v h.wf h.names h.view h.vroot a _ hN.1 hN.2 par c mt ch ha hc mode).imp_right Eq.symm

/-- Chown (`m = .eval`) / Lchown (`m = .lstat`) -/
theorem bp_sim_chown (h : BpOK s root v a c) (p : Bytes) (uid gid : Int) (m : SlMode) :
    walkPath s v root (a ++ bpB a v p) = .viaLink ∨
    bpChown (pathOf a) s v p uid gid m = chown s (subView v c) (vpath (bpW a v) p) uid gid m := by
  obtain ⟨par, ha⟩ := h.reach
  obtain ⟨mt, ch, hc⟩ := h.isDir
  have hN := h.bnames p
  simp only [bpChown]
  rw [h.path p, h.vpath p]
  exact (sub_sim_chown s root v h.wf h.names h.view h.vroot a _ hN.1 hN.2 par c mt ch ha hc uid gid m).imp_right
    Eq.symm

theorem bp_sim_truncate (h : BpOK s root v a c) (p : Bytes) (size : Int) :
    walkPath s v root (a ++ bpB a v p) = .viaLink ∨
    bpTruncate (pathOf a) s v p size = truncate s (subView v c) (vpath (bpW a v) p) size := by
  obtain ⟨par, ha⟩ := h.reach
  obtain ⟨mt, ch, hc⟩ := h.isDir
  have hN := h.bnames p
  simp only [bpTruncate]
  rw [h.path p, h.vpath p]
  exact (sub_sim_truncate s root v h.wf h.names h.view h.vroot a _ hN.1 hN.2 par c mt ch ha hc size).imp_right
    Eq.symm

/-- Link onto an existing entry: the error class of the walk of the old name, EEXIST when it is found -/
theorem link_new_exists (s : Store) (v : View) (x y : Bytes) (hy : (searchNode s v y .lstat).err = .exists) :
    link s v x y = (s, .err (searchNode s v x .lstat).err.toErr) := by
  unfold link
  cases he : (searchNode s v x .lstat).err <;> cases hch : (searchNode s v x .lstat).child <;>
    simp [he, hch, hy, SErr.toErr]

/-- Link (the root included for both operands: EPERM for the old name — a directory —, EEXIST for the new one) -/
theorem bp_sim_link (h : BpOK s root v a c) (o n : Bytes) :
    walkPath s v root (a ++ bpB a v o) = .viaLink ∨ walkPath s v root (a ++ bpB a v n) = .viaLink ∨
    bpLink (pathOf a) s v o n = link s (subView v c) (vpath (bpW a v) o) (vpath (bpW a v) n) := by
  obtain ⟨par, ha⟩ := h.reach
  obtain ⟨mt, ch, hc⟩ := h.isDir
  have hNo := h.bnames o
  have hNn := h.bnames n
  simp only [bpLink]
  rw [h.path o, h.path n, h.vpath o, h.vpath n]
  by_cases hbn : bpB a v n = []
  · -- the new name is the root: it exists on both sides
    rw [hbn, List.append_nil]
    have hvr := h.vroot ▸ get_of_isDirAt h.wf.rootDir
    have e1 : (searchNode s (subView v c) (pathOf []) .lstat).err = .exists := (searchNode_root s _ .lstat).1
    have e2 : (searchNode s v (pathOf a) .lstat).err = .exists := by
      have := searchNode_eq_walkPath_gen s root v h.wf hvr a h.anames.1 h.anames.2 .lstat
      rw [h.vroot, ha] at this
      exact this.1
    rw [link_new_exists s v _ _ e2, link_new_exists s _ _ _ e1]
    by_cases hbo : bpB a v o = []
    · right; right
      rw [hbo, List.append_nil, e1, e2]
    · rcases sub_sim_search s root v h.wf h.names h.view h.vroot a _ hbo hNo.1 hNo.2 par c mt ch ha hc .lstat with
        hl | ⟨he, _⟩
      · exact Or.inl hl
      · right; right
        show (s, Out.err (searchNode s v (pathOf (a ++ bpB a v o)) .lstat).err.toErr) =
          (s, Out.err (searchNode s (subView v c) (pathOf (bpB a v o)) .lstat).err.toErr)
        rw [← he]
  · exact (sub_sim_link s root v h.wf h.names h.view h.vroot a _ _ hbn hNo.1 hNo.2 hNn.1 hNn.2 par c mt ch ha
      hc).imp_right (Or.imp_right Eq.symm)

/-- OpenFile (the root included): same error, or same new heap and a handle on the SAME node with the same open mode.
    What differs is what `sub_sim_open` records: the name stored in the handle — the base handle carries the translated
    path "/a1/…/b1/…", the handle of the view Clean(Abs(p)) — and the number of the view it is registered under.
    `BasePathFile.Name()` translates the stored name back: `bp_open_name`. -/
theorem bp_sim_open (h : BpOK s root v a c) (p : Bytes) (vid vid' flag perm : Nat) :
    walkPath s v root (a ++ bpB a v p) = .viaLink ∨
    openFile s (subView v c) vid (vpath (bpW a v) p) flag perm =
      ((bpOpenFile (pathOf a) s v vid' p flag perm).1,
       (bpOpenFile (pathOf a) s v vid' p flag perm).2.map fun hd => hd.asOpenedBy (vpath (bpW a v) p) vid) := by
  obtain ⟨par, ha⟩ := h.reach
  obtain ⟨mt, ch, hc⟩ := h.isDir
  have hN := h.bnames p
  simp only [bpOpenFile]
  rw [h.path p, h.vpath p]
  by_cases hb : bpB a v p = []
  · right
    rw [hb, List.append_nil]
    exact sub_sim_open_root s root v h.wf h.names h.view h.vroot a h.ane h.anames.1 h.anames.2 par c mt ch ha hc
      vid vid' flag perm
  · exact sub_sim_open s root v h.wf h.names h.view h.vroot a _ hb hN.1 hN.2 par c mt ch ha hc vid vid' flag perm

/-- the name `BasePathFile.Name()` reports — FromBasePath of the name stored in the base handle — is Clean(Abs(p)):
    the name the handle of the view carries -/
theorem bp_open_name (h : BpOK s root v a c) (p : Bytes) (vid flag perm : Nat) (hd : Handle)
    (hq : (bpOpenFile (pathOf a) s v vid p flag perm).2 = .ok hd) :
    fromBasePath (pathOf a) hd.name = some (vpath (bpW a v) p) := by
  rw [(open_handle_name s v vid _ flag perm hd hq).1]
  exact fromBasePath_toBasePath_strong (pathOf a) _ p h.cwdAbs

/-- Rename, neither operand naming the root (then the wrapper's guard does not fire) -/
theorem bp_sim_rename (h : BpOK s root v a c) (o n : Bytes) (hbo : bpB a v o ≠ []) (hbn : bpB a v n ≠ []) :
    walkPath s v root (a ++ bpB a v o) = .viaLink ∨ walkPath s v root (a ++ bpB a v n) = .viaLink ∨
    bpRename (pathOf a) s v o n = rename s (subView v c) (vpath (bpW a v) o) (vpath (bpW a v) n) := by
  obtain ⟨par, ha⟩ := h.reach
  obtain ⟨mt, ch, hc⟩ := h.isDir
  have hNo := h.bnames o
  have hNn := h.bnames n
  simp only [bpRename, h.path_eq_base o, h.path_eq_base n, hbo, hbn, decide_false, Bool.or_false, Bool.and_false,
    Bool.false_eq_true, if_false]
  rw [h.path o, h.path n, h.vpath o, h.vpath n]
  exact (sub_sim_rename s root v h.wf h.names h.view h.vroot a _ _ hbo hbn hNo.1 hNo.2 hNn.1 hNn.2 par c mt ch ha
    hc).imp_right (Or.imp_right Eq.symm)

/-- CORNER: Rename from or onto the root, the two paths being different: the wrapper's guard answers EINVAL before
    the base is called. (The view also refuses — a directory is not moved below itself, an existing directory is not
    replaced — but MemFS makes its permission checks first: `bp_rename_root_cex`.) -/
theorem bp_rename_root (h : BpOK s root v a c) (o n : Bytes) (hne : bpB a v o ≠ bpB a v n)
    (hr : bpB a v o = [] ∨ bpB a v n = []) : bpRename (pathOf a) s v o n = (s, .err .EINVAL) := by
  have h1 : (bpPath (pathOf a) v o != bpPath (pathOf a) v n) = true := by
    rw [bne_iff_ne]; exact fun e => hne ((h.path_eq_iff o n).mp e)
  have h2 : (bpPath (pathOf a) v o == pathOf a || bpPath (pathOf a) v n == pathOf a) = true := by
    rw [h.path_eq_base o, h.path_eq_base n]
    rcases hr with hr | hr <;> simp [hr]
  simp only [bpRename, h1, h2, Bool.and_self, if_true]

/-- NOT the wrapper's behaviour (it refuses: `bp_links_refused`), recorded for completeness of the list of `sub_sim`
    calls: the path translation alone would simulate Readlink … -/
theorem bp_sim_readlink_forwarded (h : BpOK s root v a c) (p : Bytes) :
    walkPathL s v root (a ++ bpB a v p) = .viaLink ∨
    readlink s v (bpPath (pathOf a) v p) = readlink s (subView v c) (vpath (bpW a v) p) := by
  obtain ⟨par, ha⟩ := h.reach
  obtain ⟨mt, ch, hc⟩ := h.isDir
  have hN := h.bnames p
  rw [h.path p, h.vpath p]
  exact (sub_sim_readlink s root v h.wf h.names h.view h.vroot a _ hN.1 hN.2 par c mt ch ha hc).imp_right Eq.symm

/-- … and Symlink with the target string unchanged (the new name not the root) — the call, not the later meaning of an
    absolute target: that is resolved from the root of whichever file system follows the link (`C10_symlink_escape_cex`) -/
theorem bp_sim_symlink_forwarded (h : BpOK s root v a c) (old p : Bytes) (hb : bpB a v p ≠ []) :
    walkPathL s v root (a ++ bpB a v p) = .viaLink ∨
    symlink s v old (bpPath (pathOf a) v p) = symlink s (subView v c) old (vpath (bpW a v) p) := by
  obtain ⟨par, ha⟩ := h.reach
  obtain ⟨mt, ch, hc⟩ := h.isDir
  have hN := h.bnames p
  rw [h.path p, h.vpath p]
  exact (sub_sim_symlink s root v h.wf h.names h.view h.vroot a _ hb hN.1 hN.2 par c mt ch ha hc old).imp_right Eq.symm

/-- the refusals: Readlink, Symlink, EvalSymlinks through the wrapper fail whatever the state (BasePathFS clears
    FeatSymlink), where the view rooted at the base directory creates / reads links: NOT a simulation, by design -/
theorem bp_links_refused (base : Bytes) (s : Store) (v : View) (p q : Bytes) :
    bpReadlink base s v p = (s, .err .EACCES) ∧ bpSymlink base s v p q = (s, .err .EACCES) ∧
    bpEvalSymlinks base s v p = (s, .err .EACCES) := ⟨rfl, rfl, rfl⟩

end

/-! ### 5. the chroot form: the same call, on the same byte string, in a file system whose root is the base directory

  `chrootView v c w`: the view of the MemFS model rooted at the base directory `c`, with the user and umask of the base
  view and the current directory `w`. Section 4 gives the view Clean(Abs(p)); MemFS itself resolves a path parameter
  `p` as Abs(p) against the current directory of the view, so the call on `p` ITSELF through `chrootView v c w` is the
  call on Clean(Abs(p)) through `subView v c` (`searchNode_chroot`). -/

/-- a file system whose root is the directory `c`: the user and umask of `v`, current directory `w` -/
def chrootView (v : View) (c : Ino) (w : Bytes) : View := { v with root := c, cwd := w }

theorem searchLoop_congr (s : Store) (v1 v2 : View) (hid : ∀ m w, checkPerm m w v1 = checkPerm m w v2) (mode : SlMode)
    (vol : Ino) : ∀ (fuel : Nat) (parent : Ino) (it : Iter) (sl : Nat) (saved : Option Iter),
    searchLoop s v1 mode vol fuel parent it sl saved = searchLoop s v2 mode vol fuel parent it sl saved := by
  intro fuel
  induction fuel with
  | zero => intro parent it sl saved; rw [searchLoop, searchLoop]
  | succ k ih =>
    intro parent it sl saved
    rw [searchLoop, searchLoop]
    simp only [hid, ih]

/-- the walk of `p` through the chroot view with current directory `w` = the walk of Clean(Abs(p)) through the view
    with current directory "/" -/
theorem searchNode_chroot (s : Store) (v : View) (c : Ino) (w p : Bytes) (hw : isAbs .linux w = true) (m : SlMode) :
    searchNode s (chrootView v c w) p m = searchNode s (subView v c) (vpath w p) m := by
  have hN := vcomps_names w p hw
  have e : abs .linux (vpath w p) [SL] = abs .linux p w := by
    rw [vpath_eq w p hw]
    have := abs_joined (vcomps w p) [SL] hN.1 hN.2
    rw [show pathOf (vcomps w p) = SL :: joinWith SL (vcomps w p) from rfl, this]
    exact (vpath_eq w p hw).symm.trans (vpath_abs w p hw)
  have hcong := searchLoop_congr s (chrootView v c w) (subView v c) (fun _ _ => rfl) m c
    (searchFuel s (abs .linux p w)) c (Iter.new .linux (abs .linux p w)) 0 none
  have h1 : searchNode s (chrootView v c w) p m =
      searchLoop s (chrootView v c w) m c (searchFuel s (abs .linux p w)) c (Iter.new .linux (abs .linux p w)) 0 none :=
    rfl
  have h2 : searchNode s (subView v c) (vpath w p) m =
      searchLoop s (subView v c) m c (searchFuel s (abs .linux (vpath w p) [SL])) c
        (Iter.new .linux (abs .linux (vpath w p) [SL])) 0 none := rfl
  rw [h1, h2, e]
  exact hcong

theorem vpath_ne_nil (w p : Bytes) (hw : isAbs .linux w = true) : (vpath w p).isEmpty = false := by
  rw [vpath_eq w p hw]; rfl

theorem removeAllRec_chroot (v : View) (c : Ino) (w : Bytes) (fuel : Nat) (s : Store) (d : Ino) :
    removeAllRec (chrootView v c w) fuel s d = removeAllRec (subView v c) fuel s d :=
  (removeAllRec_subView (chrootView v c w) c fuel s d).symm

theorem mkWalk_chroot (s : Store) (v : View) (c : Ino) (w : Bytes) (cs : List Bytes) (d : Ino) :
    mkWalk s (chrootView v c w) d cs = mkWalk s (subView v c) d cs :=
  (mkWalk_subView s (chrootView v c w) c cs d).symm

theorem mkdir_chroot (s : Store) (v : View) (c : Ino) (w p : Bytes) (hw : isAbs .linux w = true) (hp : p ≠ [])
    (perm : Nat) : mkdir s (chrootView v c w) p perm = mkdir s (subView v c) (vpath w p) perm := by
  have hpe : p.isEmpty = false := by cases p <;> simp_all
  unfold mkdir
  simp only [searchNode_chroot s v c w p hw, hpe, vpath_ne_nil w p hw]
  rfl

theorem stat_chroot (s : Store) (v : View) (c : Ino) (w p : Bytes) (hw : isAbs .linux w = true) (m : SlMode) :
    stat s (chrootView v c w) p m = stat s (subView v c) (vpath w p) m := by
  unfold stat
  simp only [searchNode_chroot s v c w p hw]

theorem remove_chroot (s : Store) (v : View) (c : Ino) (w p : Bytes) (hw : isAbs .linux w = true) :
    remove s (chrootView v c w) p = remove s (subView v c) (vpath w p) := by
  unfold remove
  simp only [searchNode_chroot s v c w p hw]
  rfl

theorem removeAll_chroot (s : Store) (v : View) (c : Ino) (w p : Bytes) (hw : isAbs .linux w = true) (hp : p ≠ []) :
    removeAll s (chrootView v c w) p = removeAll s (subView v c) (vpath w p) := by
  have hpe : p.isEmpty = false := by cases p <;> simp_all
  unfold removeAll
  simp only [searchNode_chroot s v c w p hw, hpe, vpath_ne_nil w p hw, removeAllRec_chroot]
  rfl

theorem chmod_chroot (s : Store) (v : View) (c : Ino) (w p : Bytes) (hw : isAbs .linux w = true) (mode : Nat) :
    chmod s (chrootView v c w) p mode = chmod s (subView v c) (vpath w p) mode := by
  unfold chmod
  simp only [searchNode_chroot s v c w p hw]
  rfl

theorem chown_chroot (s : Store) (v : View) (c : Ino) (w p : Bytes) (hw : isAbs .linux w = true) (uid gid : Int)
    (m : SlMode) : chown s (chrootView v c w) p uid gid m = chown s (subView v c) (vpath w p) uid gid m := by
  unfold chown
  simp only [searchNode_chroot s v c w p hw]
  rfl

theorem chtimes_chroot (s : Store) (v : View) (c : Ino) (w p : Bytes) (hw : isAbs .linux w = true) (mtime : Int) :
    chtimes s (chrootView v c w) p mtime = chtimes s (subView v c) (vpath w p) mtime := by
  unfold chtimes
  simp only [searchNode_chroot s v c w p hw]
  rfl

theorem truncate_chroot (s : Store) (v : View) (c : Ino) (w p : Bytes) (hw : isAbs .linux w = true) (size : Int) :
    truncate s (chrootView v c w) p size = truncate s (subView v c) (vpath w p) size := by
  unfold truncate
  simp only [searchNode_chroot s v c w p hw]
  rfl

theorem link_chroot (s : Store) (v : View) (c : Ino) (w o n : Bytes) (hw : isAbs .linux w = true) :
    link s (chrootView v c w) o n = link s (subView v c) (vpath w o) (vpath w n) := by
  unfold link
  simp only [searchNode_chroot s v c w _ hw]
  rfl

theorem rename_chroot (s : Store) (v : View) (c : Ino) (w o n : Bytes) (hw : isAbs .linux w = true) :
    rename s (chrootView v c w) o n = rename s (subView v c) (vpath w o) (vpath w n) := by
  unfold rename
  simp only [searchNode_chroot s v c w _ hw]
  rfl

theorem mkdirAllLoop_chroot (v : View) (c : Ino) (w : Bytes) (perm : Nat) : ∀ (fuel : Nat) (s : Store) (d : Ino)
    (it : Iter), mkdirAllLoop (chrootView v c w) perm fuel s d it = mkdirAllLoop (subView v c) perm fuel s d it := by
  intro fuel
  induction fuel with
  | zero => intro s d it; rfl
  | succ k ih =>
    intro s d it
    rw [mkdirAllLoop, mkdirAllLoop]
    have : ∀ s d n, createDir s (chrootView v c w) d n perm = createDir s (subView v c) d n perm := fun _ _ _ => rfl
    simp only [this, ih]

theorem mkdirAll_chroot (s : Store) (v : View) (c : Ino) (w p : Bytes) (hw : isAbs .linux w = true) (perm : Nat) :
    mkdirAll s (chrootView v c w) p perm = mkdirAll s (subView v c) (vpath w p) perm := by
  unfold mkdirAll
  simp only [searchNode_chroot s v c w p hw, mkdirAllLoop_chroot]
  rfl

/-- OpenFile on `p` through the chroot view = OpenFile on Clean(Abs(p)) through the view with current directory "/",
    up to the name recorded in the handle (MemFS records the path AS GIVEN) -/
theorem open_chroot (s : Store) (v : View) (c : Ino) (w p : Bytes) (hw : isAbs .linux w = true) (hp : p ≠ [])
    (vid flag perm : Nat) :
    openFile s (chrootView v c w) vid p flag perm =
      ((openFile s (subView v c) vid (vpath w p) flag perm).1,
       (openFile s (subView v c) vid (vpath w p) flag perm).2.map fun hd => hd.asOpenedBy p vid) := by
  have hpe : p.isEmpty = false := by cases p <;> simp_all
  have h1 : ∀ d w', dirPerm s d w' (chrootView v c w) = dirPerm s d w' (subView v c) := fun _ _ => rfl
  have h2 : ∀ m w', checkPerm m w' (chrootView v c w) = checkPerm m w' (subView v c) := fun _ _ => rfl
  have h3 : ∀ d n, createFile s (chrootView v c w) d n perm = createFile s (subView v c) d n perm := fun _ _ => rfl
  unfold openFile
  simp only [searchNode_chroot s v c w p hw, hpe, vpath_ne_nil w p hw, h1, h2, h3, Bool.false_eq_true, if_false]
  generalize searchNode s (subView v c) (vpath w p) .eval = r
  repeat' split
  all_goals rfl

/-- ReadDir(-1) of a handle reads the node and the listing cache of the handle only -/
theorem fileStep_readDir_congr (s : Store) (v v' : View) (hd : Handle) (nm : Bytes) (vid : Nat)
    (h1 : hd.name.isEmpty = false) (h2 : nm.isEmpty = false) :
    (fileStep s v' (hd.asOpenedBy nm vid) (.readDir (-1))).2.2.2 = (fileStep s v hd (.readDir (-1))).2.2.2 := by
  simp only [fileStep, Handle.asOpenedBy, h1, h2, Bool.false_eq_true, if_false]
  cases hd.nd with
  | none => rfl
  | some i =>
    simp only
    cases s.get i with
    | none => rfl
    | some n => cases n <;> simp

theorem readDir_chroot (s : Store) (v : View) (c : Ino) (w p : Bytes) (hw : isAbs .linux w = true) (hp : p ≠ [])
    (vid : Nat) : readDir s (chrootView v c w) vid p = readDir s (subView v c) vid (vpath w p) := by
  have hpe : p.isEmpty = false := by cases p <;> simp_all
  unfold readDir
  rw [open_chroot s v c w p hw hp vid 0 0]
  cases hq : openFile s (subView v c) vid (vpath w p) 0 0 with
  | mk s1 r =>
    cases r with
    | error e => rfl
    | ok hd =>
      have hn := (open_handle_name s (subView v c) vid (vpath w p) 0 0 hd (by rw [hq])).1
      have hne : hd.name.isEmpty = false := by rw [hn]; exact vpath_ne_nil w p hw
      simp only [Except.map]
      rw [fileStep_readDir_congr s1 (subView v c) (chrootView v c w) hd p vid hne hpe]

/-! ### 6. BasePathFS(B) = a file system whose root is B: the same call on the same byte string

  `bp_chroot_<call>`: the wrapper's call on `p` = the call of the MemFS model on `p` ITSELF through the view rooted at
  the base directory whose current directory is the wrapper's virtual current directory. The guards of the wrapper for
  "" (Mkdir: ENOENT, RemoveAll: nil) are those of MemFS, so these two need no hypothesis on `p`; OpenFile / ReadDir of ""
  DIFFER (`bp_open_empty`): the wrapper opens the current directory, MemFS answers ENOENT. -/

section
variable {s : Store} {root : Ino} {v : View} {a : List Bytes} {c : Ino}

/-- the file system the wrapper is compared with: root = the base directory, user and umask of the base view, current
    directory = the virtual current directory -/
abbrev bpView (a : List Bytes) (v : View) (c : Ino) : View := chrootView v c (bpW a v)

theorem bp_chroot_mkdir (h : BpOK s root v a c) (p : Bytes) (perm : Nat) :
    walkPath s v root (a ++ bpB a v p) = .viaLink ∨
    bpMkdir (pathOf a) s v p perm = mkdir s (bpView a v c) p perm := by
  by_cases hp : p = []
  · subst hp; right; rfl
  · rw [mkdir_chroot s v c _ p h.cwdAbs hp]
    exact bp_sim_mkdir h p hp perm

theorem bp_chroot_mkdirAll (h : BpOK s root v a c) (p : Bytes) (perm : Nat) :
    walkPath s v root (a ++ bpB a v p) = .viaLink ∨
    bpMkdirAll (pathOf a) s v p perm = mkdirAll s (bpView a v c) p perm := by
  rw [mkdirAll_chroot s v c _ p h.cwdAbs]
  exact bp_sim_mkdirAll h p perm

theorem bp_chroot_stat (h : BpOK s root v a c) (p : Bytes) (hb : bpB a v p ≠ []) (m : SlMode) :
    walkPath s v root (a ++ bpB a v p) = .viaLink ∨
    bpStat (pathOf a) s v p m = stat s (bpView a v c) p m := by
  rw [stat_chroot s v c _ p h.cwdAbs]
  exact bp_sim_stat h p hb m

theorem bp_chroot_lstat (h : BpOK s root v a c) (p : Bytes) (hb : bpB a v p ≠ []) :
    walkPathL s v root (a ++ bpB a v p) = .viaLink ∨
    bpStat (pathOf a) s v p .lstat = stat s (bpView a v c) p .lstat := by
  rw [stat_chroot s v c _ p h.cwdAbs]
  exact bp_sim_lstat h p hb

theorem bp_chroot_remove (h : BpOK s root v a c) (p : Bytes) :
    walkPath s v root (a ++ bpB a v p) = .viaLink ∨
    bpRemove (pathOf a) s v p = remove s (bpView a v c) p := by
  rw [remove_chroot s v c _ p h.cwdAbs]
  exact bp_sim_remove h p

theorem bp_chroot_removeAll (h : BpOK s root v a c) (p : Bytes) :
    walkPathL s v root (a ++ bpB a v p) = .viaLink ∨
    bpRemoveAll (pathOf a) s v p = removeAll s (bpView a v c) p := by
  by_cases hp : p = []
  · subst hp; right; rfl
  · rw [removeAll_chroot s v c _ p h.cwdAbs hp]
    exact bp_sim_removeAll h p hp

theorem bp_chroot_readDir (h : BpOK s root v a c) (p : Bytes) (hp : p ≠ []) (vid vid' : Nat) :
    walkPath s v root (a ++ bpB a v p) = .viaLink ∨
    bpReadDir (pathOf a) s v vid' p = readDir s (bpView a v c) vid p := by
  rw [readDir_chroot s v c _ p h.cwdAbs hp]
  exact bp_sim_readDir h p vid vid'

theorem bp_chroot_chtimes (h : BpOK s root v a c) (p : Bytes) (mtime : Int) :
    walkPath s v root (a ++ bpB a v p) = .viaLink ∨
    bpChtimes (pathOf a) s v p mtime = chtimes s (bpView a v c) p mtime := by
  rw [chtimes_chroot s v c _ p h.cwdAbs]
  exact bp_sim_chtimes h p mtime

theorem bp_chroot_chmod (h : BpOK s root v a c) (p : Bytes) (mode : Nat) :
    walkPath s v root (a ++ bpB a v p) = .viaLink ∨
    bpChmod (pathOf a) s v p mode = chmod s (bpView a v c) p mode := by
  rw [chmod_chroot s v c _ p h.cwdAbs]
  exact bp_sim_chmod h p mode

theorem bp_chroot_chown (h : BpOK s root v a c) (p : Bytes) (uid gid : Int) (m : SlMode) :
    walkPath s v root (a ++ bpB a v p) = .viaLink ∨
    bpChown (pathOf a) s v p uid gid m = chown s (bpView a v c) p uid gid m := by
  rw [chown_chroot s v c _ p h.cwdAbs]
  exact bp_sim_chown h p uid gid m

theorem bp_chroot_truncate (h : BpOK s root v a c) (p : Bytes) (size : Int) :
    walkPath s v root (a ++ bpB a v p) = .viaLink ∨
    bpTruncate (pathOf a) s v p size = truncate s (bpView a v c) p size := by
  rw [truncate_chroot s v c _ p h.cwdAbs]
  exact bp_sim_truncate h p size

theorem bp_chroot_link (h : BpOK s root v a c) (o n : Bytes) :
    walkPath s v root (a ++ bpB a v o) = .viaLink ∨ walkPath s v root (a ++ bpB a v n) = .viaLink ∨
    bpLink (pathOf a) s v o n = link s (bpView a v c) o n := by
  rw [link_chroot s v c _ o n h.cwdAbs]
  exact bp_sim_link h o n

theorem bp_chroot_rename (h : BpOK s root v a c) (o n : Bytes) (hbo : bpB a v o ≠ []) (hbn : bpB a v n ≠ []) :
    walkPath s v root (a ++ bpB a v o) = .viaLink ∨ walkPath s v root (a ++ bpB a v n) = .viaLink ∨
    bpRename (pathOf a) s v o n = rename s (bpView a v c) o n := by
  rw [rename_chroot s v c _ o n h.cwdAbs]
  exact bp_sim_rename h o n hbo hbn

theorem asOpenedBy_twice (hd : Handle) (n n' : Bytes) (k k' : Nat) :
    (hd.asOpenedBy n k).asOpenedBy n' k' = hd.asOpenedBy n' k' := rfl

/-- OpenFile on `p ≠ ""`: same error, or same new heap and a handle on the same node with the same open mode; the name
    stored in the handle is `p` as given for MemFS, the translated path for the base handle of the wrapper (reported by
    `BasePathFile.Name()` as Clean(Abs(p)): `bp_open_name`) -/
theorem bp_chroot_open (h : BpOK s root v a c) (p : Bytes) (hp : p ≠ []) (vid vid' flag perm : Nat) :
    walkPath s v root (a ++ bpB a v p) = .viaLink ∨
    openFile s (bpView a v c) vid p flag perm =
      ((bpOpenFile (pathOf a) s v vid' p flag perm).1,
       (bpOpenFile (pathOf a) s v vid' p flag perm).2.map fun hd => hd.asOpenedBy p vid) := by
  rcases bp_sim_open h p vid vid' flag perm with hl | he
  · exact Or.inl hl
  · right
    rw [open_chroot s v c _ p h.cwdAbs hp, he]
    cases (bpOpenFile (pathOf a) s v vid' p flag perm).2 with
    | error e => rfl
    | ok hd => rfl

/-- CORNER: OpenFile("") (and so ReadDir(""), ReadFile("")). MemFS answers ENOENT for the empty name; the wrapper has no
    such guard (it has one in Mkdir): "" is translated as the current directory, which the base opens. -/
theorem bp_open_empty (h : BpOK s root v a c) (vid vid' flag perm : Nat) :
    openFile s (bpView a v c) vid [] flag perm = (s, .error .ENOENT) ∧
    (walkPath s v root (a ++ bpB a v []) = .viaLink ∨
     openFile s (subView v c) vid (bpW a v) flag perm =
      ((bpOpenFile (pathOf a) s v vid' [] flag perm).1,
       (bpOpenFile (pathOf a) s v vid' [] flag perm).2.map fun hd => hd.asOpenedBy (bpW a v) vid)) := by
  refine ⟨rfl, ?_⟩
  have hv : vpath (bpW a v) [] = bpW a v := vpath_empty _ v h.cwdAbs
  have := bp_sim_open h [] vid vid' flag perm
  rw [hv] at this
  exact this

end

/-! ### 7. Chdir and Getwd: the virtual current directory

  BasePathFS keeps no current directory: Chdir(p) is Chdir(ToBasePath(p)) of the base, Getwd is the base's Getwd
  translated back. `bp_sim_chdir`: Chdir through the wrapper has the outcome of Chdir on the file system rooted at the
  base directory, and afterwards the base view corresponds AGAIN to that file system with its new current directory
  (`bpView a v' c` = the new chroot view) and the setting `BpOK` holds again. -/

def bpChdir (base : Bytes) (s : Store) (v : View) (p : Bytes) : View × Out := chdir s v (bpPath base v p)

/-- Getwd through the wrapper -/
def bpGetwd (base : Bytes) (v : View) : Bytes := bpCwd base v

/-- what Chdir does with the result of the walk -/
def chdirOf (s : Store) (v : View) (r : SR) : View × Out :=
  if r.err != .exists then (v, .err r.err.toErr) else
  match r.child.bind s.get with
  | some (.dir m _) =>
    if !checkPerm m omLookup v then (v, .err .EACCES) else ({ v with cwd := r.pi.path }, .ok .unit)
  | _ => (v, .err .ENOTDIR)

theorem chdir_eq (s : Store) (v : View) (q : Bytes) : chdir s v q = chdirOf s v (searchNode s v q .eval) := rfl

/-- chdir(2) on a resolved path `q` -/
def chdirRef (s : Store) (v : View) (q : Bytes) : Resolved → View × Out
  | .found _ c =>
    match s.get c with
    | some (.dir m _) => if checkPerm m omLookup v then ({ v with cwd := q }, .ok .unit) else (v, .err .EACCES)
    | _ => (v, .err .ENOTDIR)
  | .missingLast _ _ => (v, .err .ENOENT)
  | .missingDir => (v, .err .ENOENT)
  | .notDir => (v, .err .ENOTDIR)
  | .denied => (v, .err .EACCES)
  | .viaLink => (v, .err .ELOOP)

theorem chdirOf_facts (s : Store) (v : View) (r : SR) (W : Resolved) (last q : Bytes) (hf : WalkFacts s W last q r)
    (hW : W ≠ .viaLink) : chdirOf s v r = chdirRef s v q W := by
  cases W with
  | found par c =>
    simp only [WalkFacts] at hf
    obtain ⟨he, hc, _, _, _, hpath, _, _, _, _⟩ := hf
    simp only [chdirOf, chdirRef, he, hc, hpath, Option.bind_some]
    cases hg : s.get c with
    | none => simp
    | some n =>
      cases n with
      | dir m ch => by_cases hp : checkPerm m omLookup v = true <;> simp [hp]
      | file m d nl id => simp
      | symlink m l => simp
  | missingLast par name => simp only [WalkFacts] at hf; simp [chdirOf, chdirRef, hf.1, SErr.toErr]
  | missingDir => simp only [WalkFacts] at hf; simp [chdirOf, chdirRef, hf.1, SErr.toErr]
  | notDir => simp only [WalkFacts] at hf; simp [chdirOf, chdirRef, hf, SErr.toErr]
  | denied => simp only [WalkFacts] at hf; simp [chdirOf, chdirRef, hf, SErr.toErr]
  | viaLink => exact absurd rfl hW

/-- the iterator after the walk of "/" -/
theorem searchNode_root_path (s : Store) (v : View) (m : SlMode) : (searchNode s v [SL] m).pi.path = [SL] := by
  have habs : abs .linux [SL] v.cwd = [SL] := by
    simpa [joinWith] using abs_joined [] v.cwd (by simp) (by simp)
  unfold searchNode
  simp only [habs]
  have hfuel := searchFuel_ge s [SL]
  obtain ⟨k, hk⟩ : ∃ k, searchFuel s [SL] = k + 1 := ⟨_, (Nat.sub_add_cancel (by omega)).symm⟩
  rw [hk, searchLoop]
  simp [Iter.new, Iter.next, volumeNameLen]

theorem walkPath_cwd (s : Store) (v : View) (x : Bytes) (d : Ino) (cs : List Bytes) :
    walkPath s { v with cwd := x } d cs = walkPath s v d cs :=
  (walkPath_subView s { v with cwd := x } 0 d cs).symm.trans (walkPath_subView s v 0 d cs)

section
variable {s : Store} {root : Ino} {v : View} {a : List Bytes} {c : Ino}

/-- a Chdir of the base to a path below the base path keeps the setting -/
theorem BpOK.chdir (h : BpOK s root v a c) (b : List Bytes) (hb : Names b) :
    BpOK s root { v with cwd := pathOf (a ++ b) } a c ∧ bpW a { v with cwd := pathOf (a ++ b) } = pathOf b := by
  have hw : bpW a { v with cwd := pathOf (a ++ b) } = pathOf b := bpCwd_below a b h.ane hb _ rfl
  refine ⟨⟨h.wf, h.names, ⟨h.view.rootDir, rfl⟩, h.vroot, h.ane, h.anames, ?_, h.isDir⟩, hw⟩
  obtain ⟨par, ha⟩ := h.reach
  exact ⟨par, by rw [walkPath_cwd]; exact ha⟩

/-- Chdir: same outcome as on the file system rooted at the base directory; the new base view corresponds to the new
    view of that file system (its virtual current directory is the new current directory there), and the setting
    holds again -/
theorem bp_sim_chdir (h : BpOK s root v a c) (p : Bytes) :
    walkPath s v root (a ++ bpB a v p) = .viaLink ∨
    ((bpChdir (pathOf a) s v p).2 = (chdir s (bpView a v c) p).2 ∧
     bpView a (bpChdir (pathOf a) s v p).1 c = (chdir s (bpView a v c) p).1 ∧
     BpOK s root (bpChdir (pathOf a) s v p).1 a c) := by
  by_cases hnl : walkPath s v root (a ++ bpB a v p) = .viaLink
  · exact Or.inl hnl
  right
  obtain ⟨par, ha⟩ := h.reach
  obtain ⟨mt, ch, hc⟩ := h.isDir
  have hN := h.bnames p
  have hNb : Names (bpB a v p) := vcomps_names _ p h.cwdAbs
  have hvr := h.vroot ▸ get_of_isDirAt h.wf.rootDir
  have hne : a ++ bpB a v p ≠ [] := fun e => h.ane (List.append_eq_nil_iff.mp e).1
  -- the base side
  have hB : bpChdir (pathOf a) s v p =
      chdirRef s v (pathOf (a ++ bpB a v p)) (walkPath s v root (a ++ bpB a v p)) := by
    unfold bpChdir
    rw [h.path p, chdir_eq]
    have hf := searchNode_facts s root v h.wf hvr (a ++ bpB a v p) hne hN.1 hN.2 .eval
    rw [h.vroot] at hf
    exact chdirOf_facts s v _ _ _ _ hf hnl
  -- the side of the file system rooted at the base directory
  have hV : chdir s (bpView a v c) p = chdirOf s (bpView a v c) (searchNode s (subView v c) (pathOf (bpB a v p)) .eval) := by
    rw [chdir_eq, show bpView a v c = chrootView v c (bpW a v) from rfl, searchNode_chroot s v c _ p h.cwdAbs, h.vpath p]
  by_cases hb : bpB a v p = []
  · -- the root
    have hf1 : (searchNode s (subView v c) (pathOf []) .eval).err = .exists := (searchNode_root s _ .eval).1
    have hf2 : (searchNode s (subView v c) (pathOf []) .eval).child = some c := (searchNode_root s _ .eval).2.1
    have hf3 : (searchNode s (subView v c) (pathOf []) .eval).pi.path = [SL] := searchNode_root_path s _ .eval
    rw [hb] at hV
    rw [hb, List.append_nil, ha] at hB
    have hV' : chdir s (bpView a v c) p = chdirRef s (bpView a v c) [SL] (.found c c) := by
      rw [hV]
      simp only [chdirOf, chdirRef, hf1, hf2, hf3, hc, Option.bind_some]
      by_cases hp : checkPerm mt omLookup (bpView a v c) = true <;> simp [hp]
    rw [hB, hV']
    simp only [chdirRef, hc]
    have hpe : checkPerm mt omLookup (bpView a v c) = checkPerm mt omLookup v := rfl
    rw [hpe]
    by_cases hp : checkPerm mt omLookup v = true
    · simp only [hp, if_true]
      obtain ⟨hok, hw⟩ := h.chdir [] ⟨by simp, by simp⟩
      rw [List.append_nil] at hok hw
      refine ⟨trivial, ?_, hok⟩
      show chrootView { v with cwd := pathOf a } c (bpW a { v with cwd := pathOf a }) = _
      rw [hw]; rfl
    · simp only [hp, Bool.false_eq_true, if_false]
      exact ⟨trivial, trivial, h⟩
  · have hwv : walkPath s (subView v c) (subView v c).root (bpB a v p) = walkPath s v root (a ++ bpB a v p) := by
      show walkPath s (subView v c) c (bpB a v p) = _
      rw [walkPath_subView, ← walkPath_append s v root a _ hb par c mt ch ha hc]
    have hf := searchNode_facts s root (subView v c) h.wf ⟨mt, ch, hc⟩ (bpB a v p) hb hNb.1 hNb.2 .eval
    rw [hwv] at hf
    have hV' : chdir s (bpView a v c) p =
        chdirRef s (bpView a v c) (pathOf (bpB a v p)) (walkPath s v root (a ++ bpB a v p)) := by
      rw [hV]; exact chdirOf_facts s _ _ _ _ _ hf hnl
    rw [hB, hV']
    cases hw : walkPath s v root (a ++ bpB a v p) with
    | found p0 c0 =>
      simp only [chdirRef]
      cases hg : s.get c0 with
      | none => exact ⟨rfl, rfl, h⟩
      | some n =>
        cases n with
        | dir m chd =>
          simp only
          have hpe : checkPerm m omLookup (bpView a v c) = checkPerm m omLookup v := rfl
          rw [hpe]
          by_cases hp : checkPerm m omLookup v = true
          · simp only [hp, if_true]
            obtain ⟨hok, hw'⟩ := h.chdir (bpB a v p) hNb
            refine ⟨trivial, ?_, hok⟩
            show chrootView { v with cwd := pathOf (a ++ bpB a v p) } c
              (bpW a { v with cwd := pathOf (a ++ bpB a v p) }) = _
            rw [hw']; rfl
          · simp only [hp, Bool.false_eq_true, if_false]
            exact ⟨trivial, trivial, h⟩
        | file m d nl id => exact ⟨rfl, rfl, h⟩
        | symlink m l => exact ⟨rfl, rfl, h⟩
    | missingLast p0 n0 => exact ⟨rfl, rfl, h⟩
    | missingDir => exact ⟨rfl, rfl, h⟩
    | notDir => exact ⟨rfl, rfl, h⟩
    | denied => exact ⟨rfl, rfl, h⟩
    | viaLink => exact absurd hw hnl

/-- Getwd through the wrapper is the current directory of the file system rooted at the base directory -/
theorem bp_getwd (a : List Bytes) (v : View) (c : Ino) : bpGetwd (pathOf a) v = (bpView a v c).cwd := rfl

end

end Avfs.FS
