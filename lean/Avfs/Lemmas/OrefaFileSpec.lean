import Avfs.Lemmas.OrefaWF
import Avfs.Lemmas.FileSpec
/-
  C02 for OrefaFS: histories of read / readAt / write / writeAt / seek / truncate on any number of handles of ONE
  regular file refine the POSIX-style reference `refRun` (Avfs/FS/FileSpec.lean), the reference MemFS refines.

  * abstraction: `OStore.fileData` (the content of the node), `Handle.repr` (the same relation as for MemFS: open on the
    node, usable, offset and flags of the description);
  * `fileStep_refines`: one operation; `history_refines`: every history;
  * OrefaFS (after the repair of Truncate / File.Truncate / Write / WriteAt) has the size limit `maxFileSize` of MemFS
    and Seek answers EINVAL when the int64 offset wraps: NO hypothesis on sizes or offsets is needed any more;
    `limits_enforced_*`: the calls beyond the limits answer EINVAL, as the reference.
-/
namespace Avfs.Orefa
open Avfs.Path Avfs.FS

/-- the content of the regular file `i` -/
def OStore.fileData (s : OStore) (i : Ino) : Option Bytes :=
  match s.get i with
  | some n => if n.isDir then none else some n.data
  | none => none

theorem fileData_some {s : OStore} {i : Ino} {f : Bytes} (hf : s.fileData i = some f) :
    ∃ n, s.get i = some n ∧ n.isDir = false ∧ n.data = f := by
  unfold OStore.fileData at hf
  split at hf
  · next n hg =>
    split at hf
    · cases hf
    · next hd => simp at hf; exact ⟨n, hg, by simpa using hd, hf⟩
  · cases hf

theorem fileData_set (s : OStore) (i : Ino) (n : ONode) (hd : n.isDir = false) :
    (s.set i n).fileData i = some n.data := by
  simp [OStore.fileData, get_set_eq, hd]

/-- the history on the model: handles `hs` on the store `s` (`ap`: the recorded path, only used by File.Chdir) -/
def modelRun (s : OStore) (v : OView) (ap : Bytes) (hs : List Handle) : List (Nat × IOp) → OStore × List Handle × List Out
  | [] => (s, hs, [])
  | (k, op) :: rest =>
    match hs[k]? with
    | none => modelRun s v ap hs rest
    | some h =>
      let (s1, _, h1, o) := fileStep s v h ap op.toFOp
      let (s2, hs2, os) := modelRun s1 v ap (hs.set k h1) rest
      (s2, hs2, o :: os)

def StepOK (s : OStore) (v : OView) (ap : Bytes) (h : Handle) (i : Ino) (f : Bytes) (d : FDesc) (op : IOp) : Prop :=
    (fileStep s v h ap op.toFOp).2.2.2 = (refStep f d op).2.2 ∧
    (fileStep s v h ap op.toFOp).1.fileData i = some (refStep f d op).1 ∧
    (fileStep s v h ap op.toFOp).2.2.1.repr i (refStep f d op).2.1 ∧
    (∀ j, j ≠ i → (fileStep s v h ap op.toFOp).1.get j = s.get j)

theorem step_read (s : OStore) (v : OView) (ap : Bytes) (h : Handle) (i : Ino) (f : Bytes) (d : FDesc) (n : Nat)
    (hr : h.repr i d) (hf : s.fileData i = some f) : StepOK s v ap h i f d (.read n) := by
  obtain ⟨nd, hg, hnd, rfl⟩ := fileData_some hf
  have hr' := hr
  obtain ⟨h1, h2, h3, h4, h5, h6, h7⟩ := hr
  have hne := fsp_name_isEmpty_false h2
  have hpos : ¬ h.pos < 0 := by omega
  unfold StepOK
  simp only [IOp.toFOp, fileStep, refStep, hne, h1, hg, hnd, hpos, Bool.false_eq_true, if_false]
  by_cases hrd : h.om &&& omRead = 0
  · have : d.rd = false := by rw [h5]; simp [hrd]
    simp [hrd, this, hf, hr']
  · have : d.rd = true := by rw [h5]; simp [hrd]
    have heq : refPread nd.data n d.off.toNat = (nd.data.drop h.pos.toNat).take n := by
      rw [refPread_eq, h3, List.take_eq_take_iff]
      simp
    have hrd' : (h.om &&& omRead == 0) = false := by simp [hrd]
    simp only [this, heq, hrd', Bool.not_true, Bool.false_eq_true, if_false]
    generalize (nd.data.drop h.pos.toNat).take n = bs
    cases bs with
    | nil =>
      by_cases hn : n = 0
      · subst hn; simp [hf, Handle.repr, h2, h4, h6, h7, hrd, ← h3]
      · simp [hn, hf, hr']
    | cons x xs =>
      simp [hf, Handle.repr, h2, h6, h7, hrd, ← h3]
      omega

theorem step_pread (s : OStore) (v : OView) (ap : Bytes) (h : Handle) (i : Ino) (f : Bytes) (d : FDesc) (n : Nat) (off : Int)
    (hr : h.repr i d) (hf : s.fileData i = some f) : StepOK s v ap h i f d (.pread n off) := by
  obtain ⟨nd, hg, hnd, rfl⟩ := fileData_some hf
  have hr' := hr
  obtain ⟨h1, h2, h3, h4, h5, h6, h7⟩ := hr
  have hne := fsp_name_isEmpty_false h2
  unfold StepOK
  simp only [IOp.toFOp, fileStep, refStep, hne, h1, hg, hnd, Bool.false_eq_true, if_false]
  by_cases hoff : off < 0
  · simp [hoff, hf, hr']
  simp only [hoff, if_false]
  by_cases hrd : h.om &&& omRead = 0
  · have : d.rd = false := by rw [h5]; simp [hrd]
    simp [hrd, this, hf, hr']
  have : d.rd = true := by rw [h5]; simp [hrd]
  have hrd' : (h.om &&& omRead == 0) = false := by simp [hrd]
  simp only [this, hrd', Bool.not_true, Bool.false_eq_true, if_false]
  by_cases hn : n = 0
  · simp [hn, hf, hr']
  have hn' : (n == 0) = false := by simp [hn]
  simp only [hn', Bool.false_eq_true, if_false]
  have heq : refPread nd.data n off.toNat = (nd.data.drop off.toNat).take n := by
    rw [refPread_eq, List.take_eq_take_iff]
    simp
  simp only [heq]
  by_cases hgt : off.toNat > nd.data.length
  · have h0 : (nd.data.drop off.toNat).take n = [] := by
      rw [List.drop_eq_nil_of_le (by omega)]; simp
    have hn0 : 0 < n := by omega
    simp [hgt, h0, hn0, hf, hr']
  simp only [hgt, if_false]
  generalize (nd.data.drop off.toNat).take n = bs
  by_cases hlt : bs.length < n
  · simp [hlt, hf, hr']
  · simp [hlt, hf, hr']


/-- the write of OrefaFile.Write is the write of MemFile -/
theorem owrite_eq (data : Bytes) (pos : Nat) (b : Bytes) (hb : b.isEmpty = false) :
    (if pos > data.length then data ++ List.replicate (pos - data.length) 0 else data).take pos ++ b ++
      (if pos > data.length then data ++ List.replicate (pos - data.length) 0 else data).drop (pos + b.length) =
    writeData data pos b := by
  simp [writeData, hb]

/-- OrefaFile.WriteAt grows the slice to the end of the written range first: the same content -/
theorem owriteAt_eq (data : Bytes) (pos : Nat) (b : Bytes) (hb : b.isEmpty = false) :
    (if pos + b.length > data.length then data ++ List.replicate (pos + b.length - data.length) 0 else data).take pos ++ b ++
      (if pos + b.length > data.length then data ++ List.replicate (pos + b.length - data.length) 0 else data).drop (pos + b.length) =
    writeData data pos b := by
  have hbl : 0 < b.length := by cases b <;> simp_all
  apply List.ext_getElem?
  intro i
  unfold writeData
  rw [hb]; simp only [Bool.false_eq_true, if_false]
  by_cases hp : pos > data.length
  · have hp2 : pos + b.length > data.length := by omega
    simp only [hp, hp2, if_true]
    simp only [List.getElem?_append, List.getElem?_take, List.getElem?_drop, List.getElem?_replicate, List.length_append, List.length_take, List.length_replicate]
    repeat' split
    all_goals first | omega | rfl | (congr 1; omega) | (apply List.getElem?_eq_none; omega) | (symm; apply List.getElem?_eq_none; omega) | skip
  · by_cases hp2 : pos + b.length > data.length
    · simp only [hp, hp2, if_true, if_false]
      simp only [List.getElem?_append, List.getElem?_take, List.getElem?_drop, List.getElem?_replicate, List.length_append, List.length_take, List.length_replicate]
      repeat' split
      all_goals first | omega | rfl | (congr 1; omega) | (apply List.getElem?_eq_none; omega) | (symm; apply List.getElem?_eq_none; omega) | skip
    · simp only [hp, hp2, if_false]


theorem step_write (s : OStore) (v : OView) (ap : Bytes) (h : Handle) (i : Ino) (f : Bytes) (d : FDesc) (b : Bytes)
    (hr : h.repr i d) (hf : s.fileData i = some f) : StepOK s v ap h i f d (.write b) := by
  obtain ⟨nd, hg, hnd, rfl⟩ := fileData_some hf
  have hr' := hr
  obtain ⟨h1, h2, h3, h4, h5, h6, h7⟩ := hr
  have hne := fsp_name_isEmpty_false h2
  have hpos0 : ¬ h.pos < 0 := by omega
  unfold StepOK
  simp only [IOp.toFOp, fileStep, refStep, hne, h1, hg, hnd, hpos0, Bool.false_eq_true, if_false]
  by_cases hwr : h.om &&& omWrite = 0
  · have : d.wr = false := by rw [h6]; simp [hwr]
    simp [hwr, this, hf, hr']
  have hdwr : d.wr = true := by rw [h6]; simp [hwr]
  have hwr' : (h.om &&& omWrite == 0) = false := by simp [hwr]
  simp only [hdwr, hwr', Bool.not_true, Bool.false_eq_true, if_false]
  by_cases hb : b = []
  · simp [hb, hf, hr']
  have hb' := fsp_name_isEmpty_false hb
  have hpos : (if (h.om &&& omAppend != 0) = true then nd.data.length else h.pos.toNat) =
      (if d.app = true then nd.data.length else d.off.toNat) := by rw [h7, h3]
  simp only [hb', Bool.false_eq_true, if_false, hpos, owrite_eq _ _ _ hb', writeData_eq_refPwrite]
  by_cases hmax : (if d.app = true then nd.data.length else d.off.toNat) + b.length > maxFileSize
  · simp only [hmax, if_true]
    exact ⟨trivial, hf, hr', fun _ _ => trivial⟩
  simp only [hmax, if_false]
  refine ⟨trivial, fileData_set _ _ _ rfl, ?_, fun j hj => get_set_ne _ _ (Ne.symm hj)⟩
  simp [Handle.repr, h2, h5, h7, hwr]
  omega

theorem step_pwrite (s : OStore) (v : OView) (ap : Bytes) (h : Handle) (i : Ino) (f : Bytes) (d : FDesc) (b : Bytes) (off : Int)
    (hr : h.repr i d) (hf : s.fileData i = some f) : StepOK s v ap h i f d (.pwrite b off) := by
  obtain ⟨nd, hg, hnd, rfl⟩ := fileData_some hf
  have hr' := hr
  obtain ⟨h1, h2, h3, h4, h5, h6, h7⟩ := hr
  have hne := fsp_name_isEmpty_false h2
  unfold StepOK
  by_cases hoff : off < 0
  · simp [IOp.toFOp, fileStep, refStep, hoff, hf, hr']
  have dF : decide False = false := rfl
  simp only [IOp.toFOp, fileStep, refStep, hne, h1, hg, hnd, hoff, dF, Bool.false_eq_true, if_false]
  by_cases hwr : h.om &&& omWrite = 0
  · have : d.wr = false := by rw [h6]; simp [hwr]
    simp [hwr, this, hf, hr']
  have hdwr : d.wr = true := by rw [h6]; simp [hwr]
  have hwr' : (h.om &&& omWrite == 0) = false := by simp [hwr]
  simp only [hdwr, hwr', Bool.not_true, Bool.false_eq_true, if_false]
  by_cases hb : b = []
  · simp [hb, hf, hr']
  have hb' := fsp_name_isEmpty_false hb
  simp only [hb', Bool.false_eq_true, if_false, owriteAt_eq _ _ _ hb', writeData_eq_refPwrite]
  by_cases hmax : off.toNat + b.length > maxFileSize
  · simp only [hmax, if_true]
    exact ⟨trivial, hf, hr', fun _ _ => trivial⟩
  simp only [hmax, if_false]
  exact ⟨trivial, fileData_set _ _ _ rfl, hr', fun j hj => get_set_ne _ _ (Ne.symm hj)⟩

theorem step_ftruncate (s : OStore) (v : OView) (ap : Bytes) (h : Handle) (i : Ino) (f : Bytes) (d : FDesc) (size : Int)
    (hr : h.repr i d) (hf : s.fileData i = some f) : StepOK s v ap h i f d (.ftruncate size) := by
  obtain ⟨nd, hg, hnd, rfl⟩ := fileData_some hf
  have hr' := hr
  obtain ⟨h1, h2, h3, h4, h5, h6, h7⟩ := hr
  have hne := fsp_name_isEmpty_false h2
  unfold StepOK
  simp only [IOp.toFOp, fileStep, refStep, hne, h1, hg, hnd, Bool.false_eq_true, if_false]
  -- the model tests the access mode first, the reference the size: both answer EINVAL
  by_cases hoff : (decide (size < 0) || decide (size > (maxFileSize : Int))) = true
  · by_cases hwr : h.om &&& omWrite = 0
    · simp [hwr, hoff, hf, hr']
    · have hwr' : (h.om &&& omWrite == 0) = false := by simp [hwr]
      simp only [hwr', hoff, Bool.false_eq_true, if_false, if_true]
      exact ⟨trivial, hf, hr', fun _ _ => trivial⟩
  by_cases hwr : h.om &&& omWrite = 0
  · have : d.wr = false := by rw [h6]; simp [hwr]
    simp [hwr, this, hoff, hf, hr']
  have hdwr : d.wr = true := by rw [h6]; simp [hwr]
  have hwr' : (h.om &&& omWrite == 0) = false := by simp [hwr]
  simp only [hdwr, hwr', hoff, Bool.not_true, Bool.false_eq_true, if_false, truncData_eq_refTruncate]
  exact ⟨trivial, fileData_set _ _ _ rfl, hr', fun j hj => get_set_ne _ _ (Ne.symm hj)⟩

theorem step_lseek (s : OStore) (v : OView) (ap : Bytes) (h : Handle) (i : Ino) (f : Bytes) (d : FDesc) (off whence : Int)
    (hr : h.repr i d) (hf : s.fileData i = some f) : StepOK s v ap h i f d (.lseek off whence) := by
  obtain ⟨nd, hg, hnd, rfl⟩ := fileData_some hf
  have hr' := hr
  obtain ⟨h1, h2, h3, h4, h5, h6, h7⟩ := hr
  have hne := fsp_name_isEmpty_false h2
  unfold StepOK
  simp only [IOp.toFOp, fileStep, refStep, hne, h1, hg, hnd, Bool.false_eq_true, if_false]
  by_cases hw0 : whence = 0
  · subst hw0
    by_cases ho : (off < 0 || off > 9223372036854775807) = true
    · simp [ho, hf, hr']
    · simp [ho, hf, Handle.repr, h2, h5, h6, h7]
      simp at ho; omega
  by_cases hw1 : whence = 1
  · subst hw1
    by_cases ho : (h.pos + off < 0 || h.pos + off > 9223372036854775807) = true
    · simp [ho, hf, hr', ← h3]
    · simp [ho, hf, Handle.repr, h2, h5, h6, h7, ← h3]
      simp at ho; omega
  by_cases hw2 : whence = 2
  · subst hw2
    by_cases ho : ((nd.data.length : Int) + off < 0 || (nd.data.length : Int) + off > 9223372036854775807) = true
    · simp [ho, hf, hr']
    · simp [ho, hf, Handle.repr, h2, h5, h6, h7]
      simp at ho; omega
  simp [hw0, hw1, hw2, hf, hr']

/-- one operation -/
theorem fileStep_refines (s : OStore) (v : OView) (ap : Bytes) (h : Handle) (i : Ino) (f : Bytes) (d : FDesc) (op : IOp)
    (hr : h.repr i d) (hf : s.fileData i = some f) :
    let r := fileStep s v h ap op.toFOp
    let q := refStep f d op
    r.2.2.2 = q.2.2 ∧ r.1.fileData i = some q.1 ∧ r.2.2.1.repr i q.2.1 ∧
    (∀ j, j ≠ i → r.1.get j = s.get j) := by
  intro r q
  show StepOK s v ap h i f d op
  cases op with
  | read n => exact step_read s v ap h i f d n hr hf
  | pread n off => exact step_pread s v ap h i f d n off hr hf
  | write b => exact step_write s v ap h i f d b hr hf
  | pwrite b off => exact step_pwrite s v ap h i f d b off hr hf
  | lseek off w => exact step_lseek s v ap h i f d off w hr hf
  | ftruncate n => exact step_ftruncate s v ap h i f d n hr hf

/-- every history, any number of handles on the file, any length: same results, same final content, same offsets -/
theorem history_refines (s : OStore) (v : OView) (ap : Bytes) (i : Ino) (f : Bytes) (hs : List Handle) (ds : List FDesc)
    (ops : List (Nat × IOp)) (hlen : hs.length = ds.length)
    (hr : ∀ (k : Nat) (h : Handle) (d : FDesc), hs[k]? = some h → ds[k]? = some d → h.repr i d) (hf : s.fileData i = some f) :
    (modelRun s v ap hs ops).2.2 = (refRun f ds ops).2.2 ∧
    (modelRun s v ap hs ops).1.fileData i = some (refRun f ds ops).1 ∧
    (modelRun s v ap hs ops).2.1.length = (refRun f ds ops).2.1.length ∧
    (∀ (k : Nat) (h : Handle) (d : FDesc), (modelRun s v ap hs ops).2.1[k]? = some h → (refRun f ds ops).2.1[k]? = some d → h.repr i d) := by
  induction ops generalizing s f hs ds with
  | nil => exact ⟨rfl, hf, hlen, hr⟩
  | cons p rest ih =>
    obtain ⟨k, op⟩ := p
    by_cases hk : k < hs.length
    · have hk' : k < ds.length := by omega
      have e1 : hs[k]? = some hs[k] := List.getElem?_eq_getElem hk
      have e2 : ds[k]? = some ds[k] := List.getElem?_eq_getElem hk'
      have hrep := hr k _ _ e1 e2
      obtain ⟨a1, a2, a3, a4⟩ := fileStep_refines s v ap hs[k] i f ds[k] op hrep hf
      simp only [modelRun, refRun, e1, e2]
      have := ih (fileStep s v hs[k] ap op.toFOp).1 (refStep f ds[k] op).1
        (hs.set k (fileStep s v hs[k] ap op.toFOp).2.2.1) (ds.set k (refStep f ds[k] op).2.1)
        (by simp [hlen]) ?_ a2
      · obtain ⟨b1, b2, b3, b4⟩ := this
        refine ⟨?_, b2, b3, b4⟩
        simp [a1, b1]
      · intro j h' d' g1 g2
        rw [List.getElem?_set] at g1 g2
        by_cases hj : k = j
        · subst hj
          simp [hk, hk'] at g1 g2
          subst g1; subst g2; exact a3
        · simp [hj] at g1 g2
          exact hr j h' d' g1 g2
    · have e1 : hs[k]? = none := List.getElem?_eq_none (by omega)
      have e2 : ds[k]? = none := List.getElem?_eq_none (by omega)
      simp only [modelRun, refRun, e1, e2]
      exact ih s f hs ds hlen hr hf

/-! ### the limits are enforced (kernel-checked)

  On the (empty) file /a/f of `exampleState`: a Write / WriteAt ending beyond `maxFileSize`, a Truncate to more than
  `maxFileSize` and a Seek to 2^63 answer EINVAL, as the reference (and MemFS).  Before the repair of orefafs (no size
  test in Truncate / File.Truncate / Write / WriteAt) the code accepted the writes, and Truncate with a huge size
  PANICKED in makeslice with the node locked (the next Stat then deadlocked); the former model, which had no size test
  either, accepted them (`.ok`) where the reference answers EINVAL. -/

theorem limits_enforced_lseek :
    let h : Handle := { nd := some 6, name := [47, 97, 47, 102], pos := 0, om := 86, dirEntries := none, dirNames := none,
                        dirIndex := 0, view := 0 }
    let d : FDesc := ⟨0, true, true, false⟩
    h.repr 6 d ∧ exampleState.store.fileData 6 = some [] ∧
    (fileStep exampleState.store exampleState.view h [] (.seek 9223372036854775808 0)).2.2.2 = .err .EINVAL ∧
    (refStep [] d (.lseek 9223372036854775808 0)).2.2 = .err .EINVAL := by
  refine ⟨⟨rfl, by decide, rfl, by decide, by decide, by decide, by decide⟩, by decide +kernel, by decide +kernel, by decide +kernel⟩

theorem limits_enforced_write :
    let h : Handle := { nd := some 6, name := [47, 97, 47, 102], pos := 2147483647, om := 86, dirEntries := none, dirNames := none,
                        dirIndex := 0, view := 0 }
    let d : FDesc := ⟨2147483647, true, true, false⟩
    h.repr 6 d ∧ exampleState.store.fileData 6 = some [] ∧
    (fileStep exampleState.store exampleState.view h [] (.write [1])).2.2.2 = .err .EINVAL ∧
    (refStep [] d (.write [1])).2.2 = .err .EINVAL ∧
    (fileStep exampleState.store exampleState.view h [] (.writeAt [1] 2147483647)).2.2.2 = .err .EINVAL ∧
    (refStep [] d (.pwrite [1] 2147483647)).2.2 = .err .EINVAL ∧
    (fileStep exampleState.store exampleState.view h [] (.truncate 2147483648)).2.2.2 = .err .EINVAL ∧
    (refStep [] d (.ftruncate 2147483648)).2.2 = .err .EINVAL ∧
    (truncate exampleState.store exampleState.view [47, 97, 47, 102] 4611686018427387904).2 = .err .EINVAL := by
  refine ⟨⟨rfl, by decide, rfl, by decide, by decide, by decide, by decide⟩, by decide +kernel, by decide +kernel, by decide +kernel,
    by decide +kernel, by decide +kernel, by decide +kernel, by decide +kernel, by decide +kernel⟩

/-! ### a concrete history on two handles of one file -/

/-- `exampleState` (handle 0: Create /a/f, read-write) after OpenFile(/a/g, O_WRONLY|O_APPEND): handle 1 on the same node -/
def exampleState2 : OState := (step exampleState (.openFile [47, 97, 47, 103] 0x401 0)).1

def exH0 : Handle :=
  { nd := some 6, name := [47, 97, 47, 102], pos := 0, om := 86, dirEntries := none, dirNames := none, dirIndex := 0, view := 0 }
def exH1 : Handle :=
  { nd := some 6, name := [47, 97, 47, 103], pos := 0, om := 10, dirEntries := none, dirNames := none, dirIndex := 0, view := 0 }
def exDs : List FDesc := [⟨0, true, true, false⟩, ⟨0, false, true, true⟩]
def exOps : List (Nat × IOp) :=
  [(0, .lseek 5 0), (0, .write [9]), (1, .write [7]), (0, .pread 8 0), (1, .read 1), (1, .lseek (-3) 2), (0, .ftruncate 2),
   (1, .write [8, 8]), (0, .lseek 0 0), (0, .read 100), (0, .pwrite [1] (-1)), (2, .read 1)]

theorem example_handles : AL.lookup 0 exampleState2.handles = some exH0 ∧ AL.lookup 1 exampleState2.handles = some exH1 ∧
    exampleState2.store.fileData 6 = some [] := by decide +kernel

theorem example_refines :
    (modelRun exampleState2.store exampleState2.view [] [exH0, exH1] exOps).2.2 = (refRun [] exDs exOps).2.2 ∧
    (modelRun exampleState2.store exampleState2.view [] [exH0, exH1] exOps).1.fileData 6 = some (refRun [] exDs exOps).1 ∧
    refRun [] exDs exOps =
      ([0, 0, 8, 8], [⟨4, true, true, false⟩, ⟨4, false, true, true⟩],
       [.ok (.num 5 []), .ok (.num 1 []), .ok (.num 1 []), .errN 7 [0, 0, 0, 0, 0, 9, 7] .eof, .err .EBADF, .ok (.num 4 []),
        .ok .unit, .ok (.num 2 []), .ok (.num 0 []), .ok (.num 4 [0, 0, 8, 8]), .err .negOffset]) := by
  have := history_refines exampleState2.store exampleState2.view [] 6 [] [exH0, exH1] exDs exOps rfl ?_ example_handles.2.2
  · exact ⟨this.1, this.2.1, by decide +kernel⟩
  · intro k h d hk hd
    match k with
    | 0 => cases hk; cases hd; exact ⟨rfl, by decide, rfl, by decide, by decide, by decide, by decide⟩
    | 1 => cases hk; cases hd; exact ⟨rfl, by decide, rfl, by decide, by decide, by decide, by decide⟩
    | k + 2 => simp at hk



end Avfs.Orefa
