import Avfs.Lemmas.RenameSafe
import Avfs.Lemmas.StepBase
import Avfs.Lemmas.WFCreate
import Avfs.Lemmas.WFRemove
import Avfs.Lemmas.WFCheck
import Avfs.Lemmas.StepViews
import Avfs.Lemmas.StepFailed
/-
  The tree invariant of MemFS as an invariant of RUNS (C05): every state reachable from `memfs.New()` by calls of the
  model through views rooted at the root of the volume (i.e. without `Sub`) is a well-formed tree with valid entry
  names.  (With `Sub` the statement is false: `reach_sub_not_wf` — a view whose root directory has been removed through
  another view creates below a detached directory.)

  1. `AllNamesOK` (every directory node bound in the heap has valid entry names; implies `NamesOK`) is kept by every call;
  2. the views keep their root and an absolute current directory;
  3. `WF` is kept by every call (Props/C05 and, for Rename, Lemmas/RenameSafe.lean);
  4. induction on the run.
-/
set_option linter.unusedVariables false
set_option linter.unusedSimpArgs false

namespace Avfs.FS
open Avfs.Path Avfs.Path.Spec

/-! ### 1. Entry names -/

def nodeNamesOK : Node → Prop
  | .dir _ ch => ∀ p ∈ ch, validName p.1 = true
  | _ => True

/-- every directory node bound in the heap (shadowed bindings included) has valid entry names -/
def AllNamesOK (s : Store) : Prop := ∀ e ∈ s.nodes, nodeNamesOK e.2

theorem AllNamesOK.get {s : Store} (h : AllNamesOK s) {i : Ino} {n : Node} (hg : s.get i = some n) : nodeNamesOK n :=
  h (i, n) (AL.lookup_some_mem hg)

theorem AllNamesOK.namesOK {s : Store} (h : AllNamesOK s) : NamesOK s := by
  intro d n c he
  unfold Edge Store.child Store.children at he
  split at he
  · rename_i m ch hg
    exact h.get hg (n, c) (AL.lookup_some_mem he)
  · simp at he

theorem AllNamesOK.set {s : Store} (h : AllNamesOK s) {n : Node} (hn : nodeNamesOK n) (i : Ino) :
    AllNamesOK (s.set i n) := by
  intro e he
  simp only [Store.set, AL.insert, List.mem_cons] at he
  rcases he with rfl | he
  · exact hn
  · exact h e he

theorem AllNamesOK.alloc {s : Store} (h : AllNamesOK s) {n : Node} (hn : nodeNamesOK n) : AllNamesOK (s.alloc n).1 := by
  intro e he
  simp only [Store.alloc, AL.insert, List.mem_cons] at he
  rcases he with rfl | he
  · exact hn
  · exact h e he

theorem AllNamesOK.set_file {s : Store} (h : AllNamesOK s) (i : Ino) (m : Meta) (d : Bytes) (nl : Int) (id : Nat) :
    AllNamesOK (s.set i (.file m d nl id)) := h.set (n := .file m d nl id) trivial i

theorem AllNamesOK.lastId {s : Store} (h : AllNamesOK s) (k : Nat) : AllNamesOK { s with lastId := k } := h

theorem nodeNamesOK_setMeta {n : Node} (h : nodeNamesOK n) (m : Meta) : nodeNamesOK (n.setMeta m) := by
  cases n <;> exact h

theorem nodeNamesOK_setMode {n n' : Node} {mode : Nat} {v : View} (h : nodeNamesOK n) (hs : setMode n mode v = some n') :
    nodeNamesOK n' := by
  unfold setMode at hs
  split at hs
  · cases hs
  · dsimp only at hs
    split at hs
    · cases hs
    · cases hs; exact nodeNamesOK_setMeta h _

theorem mem_AL_erase {κ ν : Type} [DecidableEq κ] {k : κ} {p : κ × ν} : ∀ {l : List (κ × ν)}, p ∈ AL.erase k l → p ∈ l := by
  intro l
  induction l with
  | nil => intro h; simp [AL.erase] at h
  | cons q l ih =>
    intro h
    obtain ⟨k', v⟩ := q
    simp only [AL.erase] at h
    split at h
    · exact List.mem_cons_of_mem _ (ih h)
    · rcases List.mem_cons.1 h with h | h
      · rw [h]; exact List.mem_cons_self
      · exact List.mem_cons_of_mem _ (ih h)

theorem AllNamesOK.addChild {s : Store} (h : AllNamesOK s) (p : Ino) (n : Bytes) (c : Ino)
    (hn : validName n = true) : AllNamesOK (addChild s p n c) := by
  unfold Avfs.FS.addChild
  split
  · rename_i m ch hg
    refine h.set (n := .dir m (AL.insert n c ch)) ?_ _
    intro q hq
    simp only [AL.insert, List.mem_cons] at hq
    rcases hq with rfl | hq
    · exact hn
    · exact h.get hg q hq
  · exact h

theorem AllNamesOK.removeChild {s : Store} (h : AllNamesOK s) (p : Ino) (n : Bytes) :
    AllNamesOK (removeChild s p n) := by
  unfold Avfs.FS.removeChild
  split
  · rename_i m ch hg
    refine h.set (n := .dir m (AL.erase n ch)) ?_ _
    intro q hq
    exact h.get hg q (mem_AL_erase hq)
  · exact h

theorem AllNamesOK.deleteNode {s : Store} (h : AllNamesOK s) (i : Ino) : AllNamesOK (deleteNode s i) := by
  unfold Avfs.FS.deleteNode
  split
  · exact h.set (n := .dir _ []) (by intro q hq; cases hq) _
  · exact h.set_file _ _ _ _ _
  · exact h.set (n := .symlink _ []) trivial _
  · exact h

theorem AllNamesOK.createDir {s : Store} (h : AllNamesOK s) (v : View) (p : Ino) (n : Bytes) (perm : Nat)
    (hn : validName n = true) : AllNamesOK (createDir s v p n perm).1 := by
  unfold Avfs.FS.createDir
  exact (h.alloc (n := .dir _ []) (by intro q hq; cases hq)).addChild _ _ _ hn

theorem AllNamesOK.createFile {s : Store} (h : AllNamesOK s) (v : View) (p : Ino) (n : Bytes) (perm : Nat)
    (hn : validName n = true) : AllNamesOK (createFile s v p n perm).1 := by
  unfold Avfs.FS.createFile
  exact ((h.lastId _).alloc (n := .file _ [] 1 _) trivial).addChild _ _ _ hn

theorem AllNamesOK.createSymlink {s : Store} (h : AllNamesOK s) (v : View) (p : Ino) (n t : Bytes)
    (hn : validName n = true) : AllNamesOK (createSymlink s v p n t).1 := by
  unfold Avfs.FS.createSymlink
  exact (h.alloc (n := .symlink _ t) trivial).addChild _ _ _ hn

/-! #### the calls -/

theorem names_mkdir {s : Store} {v : View} (h : AllNamesOK s) (hs : SearchOK s v) (p : Bytes) (perm : Nat) :
    AllNamesOK (mkdir s v p perm).1 := by
  unfold mkdir
  dsimp only
  split
  · exact h
  split
  · exact h
  rename_i hc
  have hc' : (searchNode s v p .lstat).err = .noent ∧ (searchNode s v p .lstat).pi.isLast = true := by
    simpa using hc
  split
  · exact h
  split
  · exact h
  exact h.createDir _ _ _ _ (hs.noentName p .lstat hc'.1 hc'.2)

theorem names_openFile {s : Store} {v : View} (h : AllNamesOK s) (hs : SearchOK s v) (vid : Nat) (p : Bytes)
    (flag perm : Nat) : AllNamesOK (openFile s v vid p flag perm).1 := by
  unfold openFile
  dsimp only
  split
  · exact h
  split
  · exact h
  rename_i hc
  split
  · rename_i hne
    have hne' : (searchNode s v p .eval).err = .noent := by simpa using hne
    have hl : (searchNode s v p .eval).pi.isLast = true := by
      simp only [Bool.or_eq_true, not_or] at hc
      simpa using hc.2
    split
    · exact h
    split
    · exact h
    exact h.createFile _ _ _ _ (hs.noentName p .eval hne' hl)
  · repeat' split
    all_goals first | exact h | exact h.set_file _ _ _ _ _

theorem names_symlink {s : Store} {v : View} (h : AllNamesOK s) (hs : SearchOK s v) (o n : Bytes) :
    AllNamesOK (symlink s v o n).1 := by
  unfold symlink
  dsimp only
  split
  · exact h
  rename_i hne
  split
  · exact h
  rename_i hl
  split
  · exact h
  exact h.createSymlink _ _ _ _ (hs.noentName n .lstat (by simpa using hne) (by simpa using hl))

theorem names_link {s : Store} {v : View} (h : AllNamesOK s) (hs : SearchOK s v) (o n : Bytes) :
    AllNamesOK (link s v o n).1 := by
  unfold link
  dsimp only
  split
  · split
    · exact h
    rename_i hne
    split
    · exact h
    rename_i hl
    split
    · exact h
    split
    · exact (h.addChild _ _ _ (hs.noentName n .lstat (by simpa using hne) (by simpa using hl))).set_file _ _ _ _ _
    · exact h
  · exact h

theorem names_remove {s : Store} (h : AllNamesOK s) (v : View) (p : Bytes) : AllNamesOK (remove s v p).1 := by
  unfold remove
  dsimp only
  repeat' split
  all_goals first | exact h | exact (h.removeChild _ _).deleteNode _

theorem names_removeAllRec (v : View) : ∀ (fuel : Nat) (s : Store) (d : Ino), AllNamesOK s →
    AllNamesOK (removeAllRec v fuel s d).1 := by
  intro fuel
  induction fuel with
  | zero => intro s d h; rw [removeAllRec]; exact h
  | succ fuel ih =>
    intro s d h
    have hgo : ∀ (L : List Bytes) (s : Store), AllNamesOK s → AllNamesOK (removeAllRec.go v fuel d s L).1 := by
      intro L
      induction L with
      | nil => intro s h; rw [removeAllRec.go]; exact h
      | cons nm rest ihL =>
        intro s h
        rw [removeAllRec.go]
        split
        · exact ihL s h
        · split
          · have := ih s ‹Ino› h
            generalize removeAllRec v fuel s ‹Ino› = r at *
            obtain ⟨s1, e⟩ := r
            cases e with
            | some e => exact this
            | none =>
              dsimp only
              split
              · exact this
              · exact ihL _ ((AllNamesOK.deleteNode this _).removeChild _ _)
          · split
            · exact h
            · exact ihL _ ((h.deleteNode _).removeChild _ _)
    rw [removeAllRec]
    split
    · exact h
    · exact hgo _ s h

theorem names_ite {β : Type} {c : Prop} [Decidable c] {a b : Store × β} (ha : AllNamesOK a.1) (hb : AllNamesOK b.1) :
    AllNamesOK (if c then a else b).1 := by
  split <;> assumption

theorem names_removeAll {s : Store} (h : AllNamesOK s) (v : View) (p : Bytes) : AllNamesOK (removeAll s v p).1 := by
  unfold removeAll
  generalize searchNode s v p .lstat = r
  dsimp only
  refine names_ite h (names_ite h ?_)
  cases r.child with
  | none => cases r.err <;> exact h
  | some c =>
    cases r.err <;> try exact h
    dsimp only
    refine names_ite h ?_
    have hX : AllNamesOK (if (match s.get c with
          | some (Node.dir m ch) => (alKeys ch).length != 0
          | x => false) = true then removeAllRec v s.next s c else (s, none)).1 :=
      names_ite (names_removeAllRec v _ s c h) h
    generalize (if (match s.get c with
          | some (Node.dir m ch) => (alKeys ch).length != 0
          | x => false) = true then removeAllRec v s.next s c else (s, none)) = q at hX
    obtain ⟨s1, e⟩ := q
    cases e with
    | some e => exact hX
    | none => exact names_ite hX (names_ite hX ((AllNamesOK.removeChild hX _ _).deleteNode _))

theorem names_truncate {s : Store} (h : AllNamesOK s) (v : View) (p : Bytes) (size : Int) :
    AllNamesOK (truncate s v p size).1 := by
  unfold truncate
  dsimp only
  repeat' split
  all_goals first | exact h | exact h.set_file _ _ _ _ _

theorem names_chmod {s : Store} (h : AllNamesOK s) (v : View) (p : Bytes) (mode : Nat) :
    AllNamesOK (chmod s v p mode).1 := by
  unfold chmod
  dsimp only
  repeat' split
  all_goals first | exact h | exact h.set (nodeNamesOK_setMode (h.get (by assumption)) (by assumption)) _

theorem names_chown {s : Store} (h : AllNamesOK s) (v : View) (p : Bytes) (uid gid : Int) (m : SlMode) :
    AllNamesOK (chown s v p uid gid m).1 := by
  unfold chown
  dsimp only
  repeat' split
  all_goals first | exact h | exact h.set (nodeNamesOK_setMeta (h.get (by assumption)) _) _

theorem names_chtimes {s : Store} (h : AllNamesOK s) (v : View) (p : Bytes) (t : Int) :
    AllNamesOK (chtimes s v p t).1 := by
  unfold chtimes
  dsimp only
  repeat' split
  all_goals first | exact h | exact h.set (nodeNamesOK_setMeta (h.get (by assumption)) _) _

theorem names_fileStep {s : Store} (h : AllNamesOK s) (v : View) (hd : Handle) (op : FOp) :
    AllNamesOK (fileStep s v hd op).1 := by
  cases op <;> simp only [fileStep] <;> repeat' split
  all_goals first
    | exact h
    | exact h.set_file _ _ _ _ _
    | exact h.set (nodeNamesOK_setMode (h.get (by assumption)) (by assumption)) _
    | exact h.set (nodeNamesOK_setMeta (h.get (by assumption)) _) _

theorem names_rename {s : Store} {v : View} (h : AllNamesOK s) (hs : SearchOK s v) (o n : Bytes) :
    AllNamesOK (rename s v o n).1 := by
  have hnn := hs.noentName n .lstat
  have hedge := fun nc => hs.existsEdge n .lstat nc (by decide)
  have hex := hs.existsChild n .lstat
  have hpn := hs.parentDir n .lstat
  unfold rename
  dsimp only
  generalize searchNode s v o .lstat = ro at *
  generalize searchNode s v n .lstat = rn at *
  clear hs
  by_cases hoe : (ro.err != SErr.exists) = true
  · rw [if_pos hoe]; exact h
  rw [if_neg hoe]
  by_cases hnerr : (rn.err != SErr.exists && rn.err != SErr.noent) = true
  · rw [if_pos hnerr]; exact h
  rw [if_neg hnerr]
  have hnerr' : rn.err = .exists ∨ rn.err = .noent := by
    revert hnerr; cases rn.err <;> simp
  by_cases hl : (rn.err == SErr.noent && !rn.pi.isLast) = true
  · rw [if_pos hl]; exact h
  rw [if_neg hl]
  have hvn : rn.err = .noent → validName (partOf rn.pi) = true := by
    intro he
    refine hnn he ?_
    simpa [he] using hl
  have hmove : ∀ (s' : Store) (oc : Ino), AllNamesOK s' → validName (partOf rn.pi) = true →
      AllNamesOK (removeChild (addChild s' rn.parent (partOf rn.pi) oc) ro.parent (partOf ro.pi)) :=
    fun s' oc h' hv => (h'.addChild _ _ _ hv).removeChild _ _
  split
  · exact h
  split
  · exact h
  split
  · exact h
  split
  · exact h
  rename_i oc hoc
  split
  · exact h
  have hite : ∀ (c : Prop) [Decidable c] (x : Store × Out), AllNamesOK x.1 →
      AllNamesOK (if c then (s, Out.err Err.EPERM) else x).1 := by
    intro c _ x hx; split
    · exact h
    · exact hx
  apply hite
  split
  · split
    · exact h
    rename_i hne
    split
    · exact h
    exact hmove s oc h (hvn (by simpa using hne))
  · split
    · rename_i hnc
      rcases hnerr' with he | he
      · obtain ⟨c, hc, _⟩ := hex he
        rw [hnc] at hc; cases hc
      · exact hmove s oc h (hvn he)
    · rename_i nc hnc
      split
      · rename_i he
        exact hmove s oc h (hvn (by simpa using he))
      rename_i hnn'
      have hne : rn.err = .exists := by
        rcases hnerr' with he | he
        · exact he
        · simp [he] at hnn'
      split
      · rename_i m2 d2 nl2 id2 hg2
        have hncd : isDirAt s nc = false := by simp [isDirAt, hg2]
        have hE := hedge nc hne hnc (by intro e; rw [e, hpn] at hncd; cases hncd)
        split
        · exact h
        · exact hmove _ oc (h.deleteNode _) (h.namesOK _ _ _ hE)
      · rename_i m2 l2 hg2
        have hncd : isDirAt s nc = false := by simp [isDirAt, hg2]
        have hE := hedge nc hne hnc (by intro e; rw [e, hpn] at hncd; cases hncd)
        exact hmove _ oc (h.deleteNode _) (h.namesOK _ _ _ hE)
      · exact h
  · exact h

/-- the names `MkdirAll` creates are the components left in the iterator -/
theorem plain_validName {c : Bytes} (h : Plain c) : validName c = true := by
  unfold validName
  have h1 : c.isEmpty = false := by cases c <;> simp_all [Plain]
  have h2 : c.contains SL = false := by
    cases hc : c.contains SL with
    | false => rfl
    | true =>
      have : SL ∈ c := by simpa using hc
      exact absurd rfl (h.2.1 SL this)
  simp only [h1, h2]; rfl

theorem names_mkdirAllLoop (v : View) (perm : Nat) : ∀ (fuel : Nat) (s : Store) (dn : Ino) (it : Iter)
    (rds : List Bytes) (c : Bytes) (rest : List Bytes), AllNamesOK s → IterAt it rds c rest →
    AllNamesOK (mkdirAllLoop v perm fuel s dn it) := by
  intro fuel
  induction fuel with
  | zero => intro s dn it rds c rest h _; exact h
  | succ fuel ih =>
    intro s dn it rds c rest h hat
    have hpart : partOf it = c := by simp [partOf, hat.part]
    rw [mkdirAllLoop]
    dsimp only
    rw [hpart]
    split
    · exact h
    have h1 : AllNamesOK (createDir s v dn c perm).1 := h.createDir _ _ _ _ (plain_validName hat.plainC)
    cases rest with
    | nil =>
      have hnext : (it.next .linux).2 = false := by
        have hlen : it.path.length = (dpath rds).length + 1 + c.length := by
          rw [hat.path]; simp [joinWith]; omega
        simp only [Iter.next]
        rw [if_pos (by rw [hat.stop, hlen]; omega)]
      simp [hnext, h1]
    | cons c2 cs =>
      obtain ⟨it1, hnext, hpart1, hlast1, hp1, hst1, hsp1, hvl1⟩ := next_at it (c :: rds) c2 cs
        (by rw [hat.path, joinWith_cons_cons, dpath]; simp)
        (by rw [hat.stop, dpath]; simp; omega) (hat.plainRest c2 (by simp))
      have hat1 : IterAt it1 (c :: rds) c2 cs :=
        ⟨by rw [hp1, hat.path, joinWith_cons_cons, dpath]; simp, hst1, hsp1, by rw [hvl1]; exact hat.vol, hpart1, hlast1,
          by intro x hx; simp at hx; rcases hx with rfl | hx; exact hat.plainC; exact hat.plainR x hx,
          hat.plainRest c2 (by simp), fun x hx => hat.plainRest x (by simp [hx])⟩
      simp only [hnext]
      exact ih _ _ it1 (c :: rds) c2 cs h1 hat1

theorem names_mkdirAll {s : Store} {root : Ino} {v : View} (h : AllNamesOK s) (hwf : WF s root) (hv : ViewOK s v)
    (p : Bytes) (perm : Nat) : AllNamesOK (mkdirAll s v p perm).1 := by
  have hinfo := searchNode_info s root v hwf hv p .eval (by decide)
  unfold mkdirAll
  dsimp only
  generalize searchNode s v p .eval = r at *
  split
  · split <;> exact h
  · exact h
  · split
    · exact h
    · rename_i hnd hnf _
      rcases hinfo with ⟨hp, hc, _, _⟩ | ⟨_, _, _, c, rest, hat⟩ | ⟨rds, anc, c, rest, _, _, _, hat⟩
      · -- the whole path is "/": the child is the root directory, which the first case of the match took
        obtain ⟨m, ch, hg⟩ := get_of_isDirAt hv.rootDir
        exact absurd (by simp [hc, hg]) (hnd m ch)
      · exact names_mkdirAllLoop v perm _ s _ _ [] c rest h hat
      · exact names_mkdirAllLoop v perm _ s _ _ rds c rest h hat

/-! ### 2. The store invariant, call by call -/

/-- the heap is a well-formed tree rooted at inode 0 with valid entry names -/
structure SInv (s : Store) : Prop where
  wf : WF s 0
  names : AllNamesOK s

/-- a view of the whole volume -/
structure VInv (v : View) : Prop where
  root : v.root = 0
  cwd : isAbs .linux v.cwd = true

theorem SInv.viewOK {s : Store} {v : View} (h : SInv s) (hv : VInv v) : ViewOK s v :=
  ⟨hv.root ▸ h.wf.rootDir, hv.cwd⟩

theorem SInv.searchOK {s : Store} {v : View} (h : SInv s) (hv : VInv v) : SearchOK s v :=
  searchOK_of_wf s 0 v h.wf h.names.namesOK (h.viewOK hv)

theorem VInv.attached {s : Store} {v : View} (hv : VInv v) : ParentAttached s 0 v :=
  fun p m => hr_searchNode_parent_attached s v 0 (Or.inl hv.root) p m

theorem sinv_mkdir {s : Store} {v : View} (h : SInv s) (hv : VInv v) (p : Bytes) (perm : Nat) :
    SInv (mkdir s v p perm).1 :=
  ⟨wf_mkdir s 0 v p perm h.wf (h.searchOK hv) hv.attached, names_mkdir h.names (h.searchOK hv) p perm⟩

theorem sinv_mkdirAll {s : Store} {v : View} (h : SInv s) (hv : VInv v) (p : Bytes) (perm : Nat) :
    SInv (mkdirAll s v p perm).1 :=
  ⟨wf_mkdirAll s 0 v p perm h.wf (h.searchOK hv) hv.attached, names_mkdirAll h.names h.wf (h.viewOK hv) p perm⟩

theorem sinv_openFile {s : Store} {v : View} (h : SInv s) (hv : VInv v) (vid : Nat) (p : Bytes) (flag perm : Nat) :
    SInv (openFile s v vid p flag perm).1 :=
  ⟨wf_openFile s 0 v vid p flag perm h.wf (h.searchOK hv) hv.attached,
    names_openFile h.names (h.searchOK hv) vid p flag perm⟩

theorem sinv_symlink {s : Store} {v : View} (h : SInv s) (hv : VInv v) (o n : Bytes) : SInv (symlink s v o n).1 :=
  ⟨wf_symlink s 0 v o n h.wf (h.searchOK hv) hv.attached, names_symlink h.names (h.searchOK hv) o n⟩

theorem sinv_link {s : Store} {v : View} (h : SInv s) (hv : VInv v) (o n : Bytes) : SInv (link s v o n).1 :=
  ⟨wf_link s 0 v o n h.wf (h.searchOK hv) hv.attached, names_link h.names (h.searchOK hv) o n⟩

theorem sinv_remove {s : Store} {v : View} (h : SInv s) (hv : VInv v) (p : Bytes) : SInv (remove s v p).1 :=
  ⟨wf_remove' s 0 v p h.wf (h.searchOK hv), names_remove h.names v p⟩

theorem sinv_removeAll {s : Store} {v : View} (h : SInv s) (hv : VInv v) (p : Bytes) : SInv (removeAll s v p).1 :=
  ⟨wf_removeAll' s 0 v p h.wf (h.searchOK hv), names_removeAll h.names v p⟩

theorem sinv_rename {s : Store} {v : View} (h : SInv s) (hv : VInv v) (o n : Bytes) : SInv (rename s v o n).1 :=
  ⟨wf_rename_unconditional s 0 v o n h.wf h.names.namesOK (h.viewOK hv) (Or.inl hv.root),
    names_rename h.names (h.searchOK hv) o n⟩

theorem sinv_truncate {s : Store} (h : SInv s) (v : View) (p : Bytes) (sz : Int) : SInv (truncate s v p sz).1 :=
  ⟨wf_truncate s 0 v p sz h.wf, names_truncate h.names v p sz⟩

theorem sinv_chmod {s : Store} (h : SInv s) (v : View) (p : Bytes) (m : Nat) : SInv (chmod s v p m).1 :=
  ⟨wf_chmod s 0 v p m h.wf, names_chmod h.names v p m⟩

theorem sinv_chown {s : Store} (h : SInv s) (v : View) (p : Bytes) (u g : Int) (m : SlMode) :
    SInv (chown s v p u g m).1 :=
  ⟨wf_chown s 0 v p u g m h.wf, names_chown h.names v p u g m⟩

theorem sinv_chtimes {s : Store} (h : SInv s) (v : View) (p : Bytes) (t : Int) : SInv (chtimes s v p t).1 :=
  ⟨wf_chtimes s 0 v p t h.wf, names_chtimes h.names v p t⟩

theorem sinv_fileStep {s : Store} (h : SInv s) (v : View) (hd : Handle) (op : FOp) : SInv (fileStep s v hd op).1 :=
  ⟨wf_fileStep s 0 v hd op h.wf, names_fileStep h.names v hd op⟩

/-! ### 3. The views -/

theorem abs_isAbs (p cwd : Bytes) (hc : isAbs .linux cwd = true) : isAbs .linux (abs .linux p cwd) = true := by
  obtain ⟨cs, hcs, _⟩ := abs_shape p cwd hc
  rw [hcs]; rfl

theorem vinv_chdir {s : Store} {v : View} (h : SInv s) (hv : VInv v) (p : Bytes) : VInv (chdir s v p).1 := by
  have hinfo := searchNode_info s 0 v h.wf (h.viewOK hv) p .eval (by decide)
  unfold chdir
  dsimp only
  generalize searchNode s v p .eval = r at *
  split
  · exact hv
  rename_i he
  have he' : r.err = .exists := by simpa using he
  split
  · split
    · exact hv
    · refine ⟨hv.root, ?_⟩
      show isAbs .linux r.pi.path = true
      rcases hinfo with ⟨_, _, _, hp⟩ | ⟨_, _, hacc, _⟩ | ⟨rds, anc, c, rest, _, hp, _, _⟩
      · rw [hp]; rfl
      · rw [hacc] at he'; cases he'
      · rw [hp]; rfl
  · exact hv

theorem vinv_fileStep {s : Store} {v : View} (hv : VInv v) (hd : Handle) (op : FOp) :
    VInv (fileStep s v hd op).2.1 := by
  cases op <;> simp only [fileStep] <;> repeat' split
  all_goals first
    | exact hv
    | exact ⟨hv.root, abs_isAbs _ _ hv.cwd⟩

/-! ### 4. The state invariant and the runs -/

structure StInv (st : FSState) : Prop where
  store : SInv st.store
  views : ∀ w v, st.view w = some v → VInv v

theorem stinv_withStore {st : FSState} (h : StInv st) (r : Store × Out) (hr : SInv r.1) : StInv (withStore st r).1 :=
  ⟨hr, fun w v hw => h.views w v (by simpa using hw)⟩

theorem stinv_store {st : FSState} (h : StInv st) {s1 : Store} (hs1 : SInv s1) : StInv { st with store := s1 } :=
  ⟨hs1, fun w v hw => h.views w v hw⟩

theorem stinv_registerHandle {st : FSState} (h : StInv st) {s1 : Store} (hs1 : SInv s1) (r : Except Err Handle) :
    StInv (registerHandle st s1 r).1 := by
  cases r with
  | error e => exact ⟨hs1, fun w v hw => h.views w v hw⟩
  | ok hd => exact ⟨hs1, fun w v hw => h.views w v hw⟩

theorem view_setView (st : FSState) (vid w : Nat) (v1 : View) :
    (st.setView vid v1).view w = if vid = w then some v1 else st.view w := by
  simp [FSState.view, FSState.setView, AL.lookup_insert]

theorem stinv_setView {st : FSState} (h : StInv st) (vid : Nat) {v1 : View} (hv1 : VInv v1) :
    StInv (st.setView vid v1) := by
  refine ⟨h.store, fun w v hw => ?_⟩
  rw [view_setView] at hw
  split at hw
  · cases hw; exact hv1
  · exact h.views w v hw

/-- every call of the model other than `Sub` keeps the invariant -/
theorem stinv_step (st : FSState) (vid : Nat) (c : Call) (h : StInv st) (hc : ∀ p, c ≠ .sub p) :
    StInv (step st vid c).1 := by
  cases hv : st.view vid with
  | none => rw [step_none st vid c hv]; exact h
  | some v =>
    have hvv : VInv v := h.views vid v hv
    have hs := h.store
    rw [step_some st vid v c hv]
    cases c with
    | mkdir p perm => exact stinv_withStore h _ (sinv_mkdir hs hvv p perm)
    | mkdirAll p perm => exact stinv_withStore h _ (sinv_mkdirAll hs hvv p perm)
    | openFile p flag perm => exact stinv_registerHandle h (sinv_openFile hs hvv vid p flag perm) _
    | create p => exact stinv_registerHandle h (sinv_openFile hs hvv vid p _ _) _
    | remove p => exact stinv_withStore h _ (sinv_remove hs hvv p)
    | removeAll p => exact stinv_withStore h _ (sinv_removeAll hs hvv p)
    | rename o n => exact stinv_withStore h _ (sinv_rename hs hvv o n)
    | link o n => exact stinv_withStore h _ (sinv_link hs hvv o n)
    | symlink o n => exact stinv_withStore h _ (sinv_symlink hs hvv o n)
    | truncate p sz => exact stinv_withStore h _ (sinv_truncate hs v p sz)
    | chmod p m => exact stinv_withStore h _ (sinv_chmod hs v p m)
    | chown p u g => exact stinv_withStore h _ (sinv_chown hs v p u g .eval)
    | lchown p u g => exact stinv_withStore h _ (sinv_chown hs v p u g .lstat)
    | chtimes p t => exact stinv_withStore h _ (sinv_chtimes hs v p t)
    | chdir p => exact stinv_setView h vid (vinv_chdir hs hvv p)
    | stat p => exact stinv_withStore h _ (by rw [stat_store]; exact hs)
    | lstat p => exact stinv_withStore h _ (by rw [stat_store]; exact hs)
    | readDir p => exact h
    | readFile p => exact h
    | readlink p => exact stinv_withStore h _ (by rw [readlink_store]; exact hs)
    | evalSymlinks p => exact stinv_withStore h _ (by rw [evalSymlinks_store]; exact hs)
    | getwd => exact h
    | writeFile p data perm =>
      simp only [stepV, writeFileV]
      have h1 := sinv_openFile hs hvv vid p oWRONLY_CREATE_TRUNC perm
      generalize openFile st.store v vid p oWRONLY_CREATE_TRUNC perm = r at h1
      obtain ⟨s1, e⟩ := r
      cases e with
      | error e => exact stinv_store h h1
      | ok hd => exact stinv_store h (sinv_fileStep h1 v hd (.write data))
    | mkdirTemp dir pat rnd =>
      simp only [stepV, mkdirTempV]
      split
      · exact h
      · split
        · rename_i heq
          have h1 := congrArg (fun r => SInv r.1) heq
          exact stinv_store h (h1 ▸ sinv_mkdir hs hvv _ 0o700)
        · exact h
        · exact h
    | createTemp dir pat rnd =>
      simp only [stepV, createTempV]
      split
      · exact h
      · exact stinv_registerHandle h (sinv_openFile hs hvv vid _ _ _) _
    | sub p => exact absurd rfl (hc p)
    | setUser uid gid admin => exact stinv_setView h vid ⟨hvv.root, hvv.cwd⟩
    | setUMask m => exact stinv_setView h vid ⟨hvv.root, hvv.cwd⟩
    | file hid op =>
      simp only [stepV, fileV]
      split
      · exact h
      · split
        · exact h
        · rename_i _ hd _ _ hv' hhv
          have hvv' : VInv hv' := h.views _ _ hhv
          have h2 := stinv_setView h hd.view (vinv_fileStep (s := st.store) hvv' hd op)
          exact ⟨sinv_fileStep hs hv' hd op, fun w v hw => h2.views w v hw⟩

/-- the calls of a run do not create views (`Sub`) -/
def NoSub (calls : List (Nat × Call)) : Prop := ∀ x ∈ calls, ∀ p, x.2 ≠ .sub p

theorem stinv_run : ∀ (calls : List (Nat × Call)) (st : FSState), StInv st → NoSub calls →
    StInv (run st calls).1 := by
  intro calls
  induction calls with
  | nil => intro st h _; exact h
  | cons c cs ih =>
    intro st h hns
    obtain ⟨vid, c⟩ := c
    simp only [run]
    have h1 := stinv_step st vid c h (hns (vid, c) (by simp))
    generalize step st vid c = r at h1
    obtain ⟨st1, o⟩ := r
    have h2 := ih st1 h1 (fun x hx => hns x (by simp [hx]))
    generalize run st1 cs = r2 at h2
    obtain ⟨st2, os⟩ := r2
    exact h2

/-- `createRootNode`: the bare root directory, one view (the administrator, umask 0) -/
def bareState : FSState :=
  { store := initStore 0 0, views := [(0, ({ root := 0, cwd := [SL], uid := 0, gid := 0, admin := true, umask := 0 } : View))],
    handles := [], nextView := 1, nextHandle := 0 }

theorem stinv_init : StInv initState := by
  have h0 : StInv bareState := by
    refine ⟨⟨(wfCheck_sound _ 0 (by decide +kernel)).1, ?_⟩, ?_⟩
    · intro e he
      simp [bareState, initStore] at he
      subst he
      intro q hq; cases hq
    · intro w v hw
      simp only [FSState.view, bareState, AL.lookup] at hw
      split at hw
      · cases hw; exact ⟨rfl, rfl⟩
      · cases hw
  unfold initState
  dsimp only
  repeat (apply stinv_step _ _ _ _ (by intro p hp; cases hp))
  exact h0

/-- REACHABLE STATES. Every state reachable from `memfs.New()` by any sequence of calls of the model — any paths, any
    users (`setUser`), any handles, any failures in between — that does not create views with `Sub` is a well-formed
    tree with exact link counts and valid entry names. -/
theorem wf_reachable (calls : List (Nat × Call)) (hns : NoSub calls) :
    WF (run initState calls).1.store 0 ∧ NamesOK (run initState calls).1.store :=
  let h := stinv_run calls initState stinv_init hns
  ⟨h.store.wf, h.store.names.namesOK⟩

/-- executable form of `NoSub` -/
def noSubB (calls : List (Nat × Call)) : Bool := calls.all fun x => match x.2 with | .sub _ => false | _ => true

theorem noSub_of_check {calls : List (Nat × Call)} (h : noSubB calls = true) : NoSub calls := by
  intro x hx p hp
  simp only [noSubB, List.all_eq_true] at h
  have := h x hx
  rw [hp] at this
  cases this

/-- the same from any state satisfying the invariant (a heap checked by `wfCheck`, views of the whole volume) -/
theorem wf_run (st : FSState) (hwf : WF st.store 0) (hn : AllNamesOK st.store)
    (hviews : ∀ w v, st.view w = some v → v.root = 0 ∧ isAbs .linux v.cwd = true)
    (calls : List (Nat × Call)) (hns : NoSub calls) :
    WF (run st calls).1.store 0 ∧ NamesOK (run st calls).1.store :=
  let h := stinv_run calls st ⟨⟨hwf, hn⟩, fun w v hw => ⟨(hviews w v hw).1, (hviews w v hw).2⟩⟩ hns
  ⟨h.store.wf, h.store.names.namesOK⟩

/-! #### `NoSub` cannot be dropped -/

/-- Mkdir("/d"); Sub("/d") (view 1, rooted at inode 4); Remove("/d") through the main view; Mkdir("/x") through view 1 -/
def subCalls : List (Nat × Call) :=
  [(0, .mkdir [SL, 100] 0o755), (0, .sub [SL, 100]), (0, .remove [SL, 100]), (1, .mkdir [SL, 120] 0o755)]

@[irreducible] def subStore : Store := (run initState subCalls).1.store

/-- With `Sub` the invariant is NOT an invariant of runs: all four calls succeed, and afterwards the removed
    directory (inode 4), which no directory enters any more, has an entry: the clause `attached` fails (the reachable
    form of `C05_detached_view_witness`; Linux refuses to create in a removed directory — ENOENT). -/
theorem reach_sub_not_wf : (run initState subCalls).2 = [.ok .unit, .ok (.view 1), .ok .unit, .ok .unit] ∧
    ¬ WF (run initState subCalls).1.store 0 := by
  refine ⟨by decide +kernel, fun hwf => ?_⟩
  have hs : (run initState subCalls).1.store = subStore := by unfold subStore; rfl
  rw [hs] at hwf
  have he : Edge subStore 4 [120] 5 := by
    show subStore.child 4 [120] = some 5
    decide +kernel
  have hall : (allEdges subStore).all (fun e => e.2.2 != 4) = true := by decide +kernel
  rcases hwf.attached 4 [120] 5 he with h | ⟨p, pn, hp⟩
  · cases h
  · have hm := mem_allEdges_of_edge subStore p pn 4 hp
    rw [List.all_eq_true] at hall
    have := hall _ hm
    simp at this

end Avfs.FS
