import Avfs.FS.File
/-
  Helper lemmas for Props/C03 (permission test, creation).
-/
namespace Avfs.FS
open Avfs.Path

/-- the wanted-bits word built from three booleans -/
def wantOf (r w x : Bool) : Nat :=
  (if r then omRead else 0) ||| (if w then omWrite else 0) ||| (if x then omLookup else 0)

theorem and_lt8_eq_mod (x k : Nat) (hk : k < 8) : x &&& k = (x % 8) &&& k := by
  have h7 : k = 7 &&& k := by
    have : ∀ k, k < 8 → k = 7 &&& k := by decide
    exact this k hk
  have hm : x % 8 = x &&& 7 := by
    have := @Nat.and_two_pow_sub_one_eq_mod x 3
    simpa using this.symm
  rw [hm, Nat.and_assoc, ← h7]

theorem wantOf_lt (r w x : Bool) : wantOf r w x < 8 := by
  cases r <;> cases w <;> cases x <;> decide

theorem wantOf_and7 (r w x : Bool) : wantOf r w x &&& 7 = wantOf r w x := by
  cases r <;> cases w <;> cases x <;> decide

theorem bitTest_small : ∀ c, c < 8 → ∀ r w x : Bool,
    ((c &&& wantOf r w x) == wantOf r w x) =
      ((!r || c / 4 % 2 == 1) && (!w || c / 2 % 2 == 1) && (!x || c % 2 == 1)) := by
  decide

theorem bitTest (c : Nat) (r w x : Bool) :
    ((c &&& wantOf r w x) == wantOf r w x) =
      ((!r || (c % 8) / 4 % 2 == 1) && (!w || (c % 8) / 2 % 2 == 1) && (!x || (c % 8) % 2 == 1)) := by
  rw [and_lt8_eq_mod c _ (wantOf_lt r w x)]
  exact bitTest_small (c % 8) (Nat.mod_lt _ (by decide)) r w x

theorem mod8_and7 (want : Nat) : want % 8 &&& 7 = want &&& 7 := by
  have h := @Nat.and_two_pow_sub_one_eq_mod want 3
  have h' := @Nat.and_two_pow_sub_one_eq_mod (want % 8) 3
  simp at h h'
  rw [h, h']

theorem get_set_ne (s : Store) (i j : Ino) (n : Node) (h : i ≠ j) : (s.set i n).get j = s.get j := by
  simp [Store.get, Store.set, AL.lookup_insert_ne _ _ h]

theorem get_addChild_ne (s : Store) (parent : Ino) (name : Bytes) (c j : Ino) (h : parent ≠ j) :
    (addChild s parent name c).get j = s.get j := by
  unfold addChild
  split
  · exact get_set_ne _ _ _ _ h
  · rfl

theorem get_alloc_addChild (s : Store) (n : Node) (parent : Ino) (name : Bytes) (hp : parent < s.next) :
    (addChild (s.alloc n).1 parent name (s.alloc n).2).get s.next = some n := by
  rw [get_addChild_ne _ _ _ _ _ (Nat.ne_of_lt hp)]
  simp [Store.alloc, Store.get]

theorem mask_xor_eq_sub (u : Nat) (hu : u ≤ modeMask) : modeMask ^^^ u = modeMask - u := by
  have hu' : u < 2 ^ 12 := by simp [modeMask] at hu; omega
  have e : modeMask - u = 2 ^ 12 - (u + 1) := by simp [modeMask]
  have e1 : modeMask = 2 ^ 12 - 1 := by simp [modeMask]
  apply Nat.eq_of_testBit_eq
  intro i
  rw [e, Nat.testBit_two_pow_sub_succ hu', Nat.testBit_xor, e1, Nat.testBit_two_pow_sub_one]
  by_cases hi : i < 12
  · simp [hi]
  · have : u.testBit i = false := Nat.testBit_lt_two_pow (Nat.lt_of_lt_of_le hu' (Nat.pow_le_pow_right (by decide) (by omega)))
    simp [hi, this]

theorem and_mask_of_le (p : Nat) (hp : p ≤ modeMask) : p &&& modeMask = p := by
  have e1 : modeMask = 2 ^ 12 - 1 := by simp [modeMask]
  rw [e1, Nat.and_two_pow_sub_one_eq_mod]
  apply Nat.mod_eq_of_lt
  simp [modeMask] at hp; omega

theorem testBit_modeMask (k : Nat) : modeMask.testBit k = decide (k < 12) := by
  have e1 : modeMask = 2 ^ 12 - 1 := by simp [modeMask]
  rw [e1, Nat.testBit_two_pow_sub_one]

theorem setMode_isSome (n : Node) (mode : Nat) (v : View) (hns : ∀ m l, n ≠ .symlink m l) :
    (setMode n mode v).isSome = (decide (n.meta.uid = v.uid) || v.admin) := by
  cases n with
  | symlink m l => exact absurd rfl (hns m l)
  | dir m ch =>
    simp only [setMode, Node.meta]
    by_cases h : m.uid = v.uid <;> cases v.admin <;> simp [h]
  | file m d nl id =>
    simp only [setMode, Node.meta]
    by_cases h : m.uid = v.uid <;> cases v.admin <;> simp [h]

end Avfs.FS
