import Avfs.FS.SearchSpec
/-
  Heap algebra used by Lemmas/WFRemove.lean: association-list keys, `Store.get` after `set`, and a
  characterisation of `linkCount` that is insensitive to shadowed duplicate keys.
-/
namespace Avfs.FS
open Avfs.Path

/-! ### lists -/

theorem hr_nodup_eraseDups {α} [BEq α] [LawfulBEq α] (l : List α) : l.eraseDups.Nodup := by
  generalize hn : l.length = n
  induction n using Nat.strongRecOn generalizing l with
  | _ n ih =>
    cases l with
    | nil => simp
    | cons a as =>
      rw [List.eraseDups_cons, List.nodup_cons]
      constructor
      · simp [List.mem_eraseDups]
      · apply ih (List.filter (fun b => !b == a) as).length _ _ rfl
        subst hn
        have := List.length_filter_le (fun b => !b == a) as
        simp; omega

theorem hr_mem_alKeys {κ ν} [DecidableEq κ] (k : κ) (l : List (κ × ν)) :
    k ∈ alKeys l ↔ (AL.lookup k l).isSome = true := by
  unfold alKeys
  rw [List.mem_eraseDups]
  induction l with
  | nil => simp
  | cons p l ih =>
    obtain ⟨k', v⟩ := p
    by_cases h : k' = k
    · simp [AL.lookup, h]
    · have h' : ¬ k = k' := fun e => h e.symm
      simp [AL.lookup, h, h'] at ih ⊢
      exact ih

theorem hr_nodup_alKeys {κ ν} [DecidableEq κ] (l : List (κ × ν)) : (alKeys l).Nodup :=
  hr_nodup_eraseDups _

theorem hr_nodup_filter {α} (p : α → Bool) {l : List α} (h : l.Nodup) : (l.filter p).Nodup :=
  List.Pairwise.filter p h

def hr_b2n (b : Bool) : Nat := if b then 1 else 0

/-- filtering two duplicate-free lists that agree on the elements satisfying `p` -/
theorem hr_filter_len_eq {α} (L1 L2 : List α) (p : α → Bool) (h1 : L1.Nodup) (h2 : L2.Nodup)
    (h : ∀ n, p n = true → (n ∈ L1 ↔ n ∈ L2)) : (L1.filter p).length = (L2.filter p).length := by
  apply List.Perm.length_eq
  rw [List.perm_ext_iff_of_nodup (hr_nodup_filter p h1) (hr_nodup_filter p h2)]
  intro a
  simp only [List.mem_filter]
  constructor
  · rintro ⟨ha, hp⟩; exact ⟨(h a hp).1 ha, hp⟩
  · rintro ⟨ha, hp⟩; exact ⟨(h a hp).2 ha, hp⟩

theorem hr_filter_len_delta {α} [DecidableEq α] (L : List α) (p p' : α → Bool) (a : α) (hL : L.Nodup) (ha : a ∈ L)
    (h : ∀ x, x ≠ a → p' x = p x) :
    (L.filter p').length + hr_b2n (p a) = (L.filter p).length + hr_b2n (p' a) := by
  induction L with
  | nil => simp at ha
  | cons x L ih =>
    rw [List.nodup_cons] at hL
    by_cases hx : x = a
    · subst hx
      have hcong : L.filter p' = L.filter p := by
        apply List.filter_congr
        intro y hy
        apply h
        intro e; subst e; exact hL.1 hy
      simp only [List.filter_cons, hcong]
      cases hp : p x <;> cases hp' : p' x <;> simp [hr_b2n]
    · have ha' : a ∈ L := by
        rcases List.mem_cons.1 ha with e | e
        · exact absurd e.symm hx
        · exact e
      have := ih hL.2 ha'
      simp only [List.filter_cons, h x hx]
      cases hp : p x <;> simp <;> omega

theorem hr_sum_delta {α} [DecidableEq α] (L : List α) (f f' : α → Nat) (a : α) (k k' : Nat) (hL : L.Nodup) (ha : a ∈ L)
    (h : ∀ x, x ≠ a → f' x = f x) (hk : f' a + k = f a + k') :
    (L.map f').sum + k = (L.map f).sum + k' := by
  induction L with
  | nil => simp at ha
  | cons x L ih =>
    rw [List.nodup_cons] at hL
    by_cases hx : x = a
    · subst hx
      have hcong : L.map f' = L.map f := by
        apply List.map_congr_left
        intro y hy
        apply h
        intro e; subst e; exact hL.1 hy
      simp only [List.map_cons, List.sum_cons, hcong]
      omega
    · have ha' : a ∈ L := by
        rcases List.mem_cons.1 ha with e | e
        · exact absurd e.symm hx
        · exact e
      have := ih hL.2 ha'
      simp only [List.map_cons, List.sum_cons, h x hx]
      omega


/-! ### the heap -/

@[simp] theorem hr_get_set (s : Store) (i j : Ino) (n : Node) :
    (s.set i n).get j = if i = j then some n else s.get j := by
  simp [Store.get, Store.set, AL.lookup_insert]

@[simp] theorem hr_next_set (s : Store) (i : Ino) (n : Node) : (s.set i n).next = s.next := rfl
@[simp] theorem hr_lastId_set (s : Store) (i : Ino) (n : Node) : (s.set i n).lastId = s.lastId := rfl

theorem hr_mem_inos (s : Store) (i : Ino) : i ∈ s.inos ↔ (s.get i).isSome = true :=
  hr_mem_alKeys i s.nodes

theorem hr_nodup_inos (s : Store) : s.inos.Nodup := hr_nodup_alKeys _

theorem hr_children_of_dir {s : Store} {d : Ino} {m : Meta} {ch} (h : s.get d = some (.dir m ch)) :
    s.children d = ch := by simp [Store.children, h]

theorem hr_children_of_not_dir {s : Store} {d : Ino} (h : isDirAt s d = false) : s.children d = [] := by
  unfold isDirAt at h
  unfold Store.children
  split <;> simp_all

theorem hr_child_of_not_dir {s : Store} {d : Ino} (h : isDirAt s d = false) (n : Bytes) : s.child d n = none := by
  simp [Store.child, hr_children_of_not_dir h]

theorem hr_isDir_of_edge {s : Store} {d : Ino} {n : Bytes} {c : Ino} (h : Edge s d n c) : isDirAt s d = true := by
  cases hd : isDirAt s d with
  | true => rfl
  | false => simp [Edge, hr_child_of_not_dir hd] at h

theorem hr_isDirAt_iff {s : Store} {d : Ino} : isDirAt s d = true ↔ ∃ m ch, s.get d = some (.dir m ch) := by
  unfold isDirAt
  split <;> simp_all

theorem hr_isSome_of_isDir {s : Store} {d : Ino} (h : isDirAt s d = true) : (s.get d).isSome = true := by
  obtain ⟨m, ch, h⟩ := hr_isDirAt_iff.1 h
  simp [h]

theorem hr_mem_keys_children (s : Store) (d : Ino) (n : Bytes) :
    n ∈ alKeys (s.children d) ↔ (s.child d n).isSome = true := hr_mem_alKeys n _

/-- entries of `d` pointing at `i` -/
def hr_cnt (s : Store) (i d : Ino) : Nat :=
  ((alKeys (s.children d)).filter fun n => s.child d n == some i).length

theorem hr_linkCount_eq (s : Store) (i : Ino) : linkCount s i = (s.inos.map (hr_cnt s i)).sum := rfl

/-- `hr_cnt` over any duplicate-free list that covers the entries -/
theorem hr_cnt_eq (s : Store) (i d : Ino) (L : List Bytes) (hL : L.Nodup) (hc : ∀ n, s.child d n = some i → n ∈ L) :
    hr_cnt s i d = (L.filter fun n => s.child d n == some i).length := by
  apply hr_filter_len_eq _ _ _ (hr_nodup_alKeys _) hL
  intro n hn
  have hn' : s.child d n = some i := by simpa using hn
  constructor
  · intro _; exact hc n hn'
  · intro _; rw [hr_mem_keys_children]; simp [hn']

/-- same entries in `d`: same count -/
theorem hr_cnt_congr (s s' : Store) (i d : Ino) (h : ∀ n, s'.child d n = s.child d n) :
    hr_cnt s' i d = hr_cnt s i d := by
  rw [hr_cnt_eq s' i d (alKeys (s.children d)) (hr_nodup_alKeys _)]
  · unfold hr_cnt
    congr 1
    apply List.filter_congr
    intro n _
    rw [h]
  · intro n hn
    rw [hr_mem_keys_children, ← h, hn]; rfl

/-- entries of `d` changed at one name only -/
theorem hr_cnt_delta (s s' : Store) (i d : Ino) (n0 : Bytes) (h : ∀ n, n ≠ n0 → s'.child d n = s.child d n) :
    hr_cnt s' i d + hr_b2n (s.child d n0 == some i) = hr_cnt s i d + hr_b2n (s'.child d n0 == some i) := by
  let L := (alKeys (s.children d) ++ alKeys (s'.children d) ++ [n0]).eraseDups
  have hLn : L.Nodup := hr_nodup_eraseDups _
  have hmem : ∀ n, n ∈ L ↔ ((s.child d n).isSome = true ∨ (s'.child d n).isSome = true) ∨ n = n0 := by
    intro n
    simp only [L, List.mem_eraseDups, List.mem_append, hr_mem_keys_children, List.mem_singleton]
  rw [hr_cnt_eq s i d L hLn, hr_cnt_eq s' i d L hLn]
  · apply hr_filter_len_delta L _ _ n0 hLn
    · rw [hmem]; exact Or.inr rfl
    · intro x hx
      simp only [h x hx]
  · intro n hn; rw [hmem, hn]; simp
  · intro n hn; rw [hmem, hn]; simp

/-- the count of entries pointing at `i` when two heaps have the same allocated inodes and the same entries except
    possibly the entry `n0` of `d0` -/
theorem hr_linkCount_delta (s s' : Store) (i d0 : Ino) (n0 : Bytes)
    (hdom : ∀ j, (s'.get j).isSome = (s.get j).isSome)
    (hch : ∀ d n, ¬ (d = d0 ∧ n = n0) → s'.child d n = s.child d n) :
    linkCount s' i + hr_b2n (s.child d0 n0 == some i) = linkCount s i + hr_b2n (s'.child d0 n0 == some i) := by
  have hperm : s'.inos.Perm s.inos := by
    rw [List.perm_ext_iff_of_nodup (hr_nodup_inos _) (hr_nodup_inos _)]
    intro a
    rw [hr_mem_inos, hr_mem_inos, hdom]
  rw [hr_linkCount_eq, hr_linkCount_eq, (hperm.map (hr_cnt s' i)).sum_nat]
  have hother : ∀ x, x ≠ d0 → hr_cnt s' i x = hr_cnt s i x := by
    intro x hx
    apply hr_cnt_congr
    intro n
    apply hch
    intro h; exact hx h.1
  have hd0 := hr_cnt_delta s s' i d0 n0 (fun n hn => hch d0 n (fun h => hn h.2))
  by_cases hmem : d0 ∈ s.inos
  · exact hr_sum_delta s.inos _ _ d0 _ _ (hr_nodup_inos _) hmem hother hd0
  · have hcong : s.inos.map (hr_cnt s' i) = s.inos.map (hr_cnt s i) := by
      apply List.map_congr_left
      intro y hy
      apply hother
      intro e; subst e; exact hmem hy
    rw [hcong]
    have hn : (s.get d0).isSome = false := by
      rw [hr_mem_inos] at hmem; simpa using hmem
    have hn' : (s'.get d0).isSome = false := by rw [hdom, hn]
    have c1 : s.child d0 n0 = none := by
      apply hr_child_of_not_dir
      cases hd : isDirAt s d0 with
      | false => rfl
      | true => rw [hr_isSome_of_isDir hd] at hn; cases hn
    have c2 : s'.child d0 n0 = none := by
      apply hr_child_of_not_dir
      cases hd : isDirAt s' d0 with
      | false => rfl
      | true => rw [hr_isSome_of_isDir hd] at hn'; cases hn'
    rw [c1, c2]

/-- same allocated inodes and same entries: same counts -/
theorem hr_linkCount_congr (s s' : Store) (i : Ino)
    (hdom : ∀ j, (s'.get j).isSome = (s.get j).isSome)
    (hch : ∀ d n, s'.child d n = s.child d n) : linkCount s' i = linkCount s i := by
  have := hr_linkCount_delta s s' i 0 [] hdom (fun d n _ => hch d n)
  rw [hch] at this
  omega


/-! ### entries after the primitive updates -/

theorem hr_children_set (s : Store) (i d : Ino) (n : Node) :
    (s.set i n).children d = if i = d then (match n with | .dir _ ch => ch | _ => []) else s.children d := by
  unfold Store.children
  rw [hr_get_set]
  by_cases h : i = d
  · simp only [h, if_true]; cases n <;> rfl
  · simp only [h, if_false]

theorem hr_child_removeChild (s : Store) (d : Ino) (n : Bytes) (d' : Ino) (n' : Bytes) :
    (removeChild s d n).child d' n' = if d' = d ∧ n' = n then none else s.child d' n' := by
  unfold removeChild
  split
  · rename_i m ch hg
    unfold Store.child
    rw [hr_children_set]
    by_cases hd : d = d'
    · subst hd
      simp only [if_true, true_and, hr_children_of_dir hg, AL.lookup_erase]
      by_cases hn : n' = n
      · subst hn; simp
      · have : ¬ n = n' := fun e => hn e.symm
        simp [hn, this]
    · have : ¬ d' = d := fun e => hd e.symm
      simp [hd, this]
  · rename_i hnd
    by_cases h : d' = d ∧ n' = n
    · obtain ⟨rfl, rfl⟩ := h
      simp only [and_self, if_true]
      apply hr_child_of_not_dir
      cases hd : isDirAt s d' with
      | false => rfl
      | true =>
        obtain ⟨m, ch, hg⟩ := hr_isDirAt_iff.1 hd
        exact absurd hg (hnd m ch)
    · simp [h]

theorem hr_child_addChild (s : Store) (d : Ino) (n : Bytes) (c : Ino) (d' : Ino) (n' : Bytes)
    (hd : isDirAt s d = true) :
    (addChild s d n c).child d' n' = if d' = d ∧ n' = n then some c else s.child d' n' := by
  obtain ⟨m, ch, hg⟩ := hr_isDirAt_iff.1 hd
  simp only [addChild, hg]
  unfold Store.child
  rw [hr_children_set]
  by_cases hd : d = d'
  · subst hd
    simp only [if_true, true_and, hr_children_of_dir hg, AL.lookup_insert]
    by_cases hn : n' = n
    · subst hn; simp
    · have : ¬ n = n' := fun e => hn e.symm
      simp [hn, this]
  · have : ¬ d' = d := fun e => hd e.symm
    simp [hd, this]

theorem hr_child_deleteNode (s : Store) (c : Ino) (d' : Ino) (n' : Bytes) :
    (deleteNode s c).child d' n' = if d' = c then none else s.child d' n' := by
  by_cases hd : d' = c
  · subst hd
    simp only [if_true]
    unfold deleteNode
    split <;> (try (unfold Store.child; rw [hr_children_set]; simp))
    rename_i hg
    apply hr_child_of_not_dir
    simp [isDirAt, hg]
  · have hd' : ¬ c = d' := fun e => hd e.symm
    simp only [hd, if_false]
    unfold deleteNode
    split <;> first | rfl | (unfold Store.child; rw [hr_children_set]; simp [hd'])

/-- a node update that keeps the kind (and the file id); `k` is the decrement of `nlink` -/
def hr_nodeRel (k : Int) : Node → Node → Prop
  | .dir _ _, .dir _ _ => True
  | .file _ _ nl id, .file _ _ nl' id' => id' = id ∧ nl = nl' + k
  | .symlink _ _, .symlink _ _ => True
  | _, _ => False

def hr_optRel (k : Int) : Option Node → Option Node → Prop
  | none, none => True
  | some n, some n' => hr_nodeRel k n n'
  | _, _ => False

/-- `s'` has the same inodes with the same kinds and ids as `s`; `nlink` of file `i` dropped by `δ i` -/
structure HrShape (s s' : Store) (δ : Ino → Int) : Prop where
  next : s'.next = s.next
  lastId : s'.lastId = s.lastId
  rel : ∀ i, hr_optRel (δ i) (s.get i) (s'.get i)

theorem hr_nodeRel_refl (n : Node) : hr_nodeRel 0 n n := by cases n <;> simp [hr_nodeRel]

theorem hr_optRel_refl (o : Option Node) : hr_optRel 0 o o := by
  cases o with
  | none => trivial
  | some n => exact hr_nodeRel_refl n

theorem hr_optRel_trans {k k' : Int} {a b c : Option Node} (h1 : hr_optRel k a b) (h2 : hr_optRel k' b c) :
    hr_optRel (k + k') a c := by
  cases a <;> cases b <;> cases c <;> simp only [hr_optRel] at h1 h2 ⊢
  rename_i x y z
  cases x <;> cases y <;> cases z <;> simp only [hr_nodeRel] at h1 h2 ⊢
  obtain ⟨rfl, rfl⟩ := h1
  obtain ⟨rfl, rfl⟩ := h2
  exact ⟨rfl, by omega⟩

theorem HrShape.refl (s : Store) : HrShape s s (fun _ => 0) := ⟨rfl, rfl, fun _ => hr_optRel_refl _⟩

theorem HrShape.trans {s s' s'' : Store} {δ δ' : Ino → Int} (h1 : HrShape s s' δ) (h2 : HrShape s' s'' δ') :
    HrShape s s'' (fun j => δ j + δ' j) :=
  ⟨h2.next.trans h1.next, h2.lastId.trans h1.lastId, fun i => hr_optRel_trans (h1.rel i) (h2.rel i)⟩

theorem HrShape.congr {s s' : Store} {δ δ' : Ino → Int} (h : HrShape s s' δ) (e : ∀ j, δ j = δ' j) : HrShape s s' δ' := by
  have : δ = δ' := funext e
  subst this; exact h

theorem HrShape.set {s : Store} {i : Ino} {n n' : Node} (k : Int) (hg : s.get i = some n) (hr : hr_nodeRel k n n') :
    HrShape s (s.set i n') (fun j => if j = i then k else 0) := by
  refine ⟨rfl, rfl, fun j => ?_⟩
  rw [hr_get_set]
  by_cases h : i = j
  · subst h; simp only [if_true, hg]; exact hr
  · have : ¬ j = i := fun e => h e.symm
    simp only [h, this, if_false]; exact hr_optRel_refl _

theorem HrShape.set0 {s : Store} {i : Ino} {n n' : Node} (hg : s.get i = some n) (hr : hr_nodeRel 0 n n') :
    HrShape s (s.set i n') (fun _ => 0) :=
  (HrShape.set 0 hg hr).congr (fun j => by split <;> rfl)

theorem HrShape.removeChild (s : Store) (d : Ino) (n : Bytes) : HrShape s (removeChild s d n) (fun _ => 0) := by
  unfold Avfs.FS.removeChild
  split
  · rename_i hg; exact HrShape.set0 hg trivial
  · exact HrShape.refl s

theorem HrShape.addChild (s : Store) (d : Ino) (n : Bytes) (c : Ino) : HrShape s (addChild s d n c) (fun _ => 0) := by
  unfold Avfs.FS.addChild
  split
  · rename_i hg; exact HrShape.set0 hg trivial
  · exact HrShape.refl s

theorem HrShape.deleteNode (s : Store) (c : Ino) : HrShape s (deleteNode s c) (fun j => if j = c then 1 else 0) := by
  unfold Avfs.FS.deleteNode
  split
  · rename_i hg; exact HrShape.set 1 hg trivial
  · rename_i hg; exact HrShape.set 1 hg ⟨rfl, by omega⟩
  · rename_i hg; exact HrShape.set 1 hg trivial
  · rename_i hg
    refine ⟨rfl, rfl, fun j => ?_⟩
    by_cases h : j = c
    · subst h; simp only [if_true, hg]; trivial
    · simp only [h, if_false]; exact hr_optRel_refl _

theorem HrShape.dom {s s' : Store} {δ} (h : HrShape s s' δ) (i : Ino) : (s'.get i).isSome = (s.get i).isSome := by
  have := h.rel i
  cases h1 : s.get i <;> cases h2 : s'.get i <;> simp_all [hr_optRel]

theorem HrShape.isDir {s s' : Store} {δ} (h : HrShape s s' δ) (i : Ino) : isDirAt s' i = isDirAt s i := by
  have := h.rel i
  unfold isDirAt
  cases h1 : s.get i <;> cases h2 : s'.get i <;> simp_all [hr_optRel]
  rename_i x y
  cases x <;> cases y <;> simp_all [hr_nodeRel]

theorem HrShape.file {s s' : Store} {δ} (h : HrShape s s' δ) {i : Ino} {m d nl id}
    (hg : s'.get i = some (.file m d nl id)) : ∃ m0 d0, s.get i = some (.file m0 d0 (nl + δ i) id) := by
  have := h.rel i
  rw [hg] at this
  cases h1 : s.get i with
  | none => simp [h1, hr_optRel] at this
  | some x =>
    rw [h1] at this
    cases x <;> simp only [hr_optRel, hr_nodeRel] at this
    obtain ⟨rfl, rfl⟩ := this
    exact ⟨_, _, rfl⟩

end Avfs.FS
