import Avfs.Lemmas.OrefaWF
/-
  C07 for OrefaFS: no call and no handle operation of the model returns `.panic` or `.hang`.

  * `OInv` is the state invariant: `OWF` on the store, the current directory is rooted (begins with '/'), every open
    handle points to an allocated node, has a non-negative offset and a rooted recorded path (`habs`);
  * `OInv_init`, `OInv_step`, `OInv_reachable`: the state `New` builds satisfies it, every call keeps it;
  * `step_np`: in a state satisfying `OInv` no call (path-level, composite or handle operation) panics or hangs, for ALL
    arguments; `reachable_np`: so no call of any history from `New` does.
  * `removeAllRec_total`: the recursion of RemoveAll ends within its fuel (one more than the number of nodes).
-/
namespace Avfs.Orefa
open Avfs.Path Avfs.FS

/-- the outcome is neither a panic nor a hang -/
abbrev NoPH (o : Out) : Prop := o ≠ .panic ∧ o ≠ .hang

/-! ### rooted paths -/

/-- the path begins with the separator -/
def Rooted (p : Bytes) : Prop := ∃ r, p = SL :: r

theorem rooted_iff_isAbs (p : Bytes) : Rooted p ↔ isAbs .linux p = true := by
  cases p with
  | nil => simp [Rooted, isAbs]
  | cons c r =>
    simp only [Rooted, isAbs, beq_iff_eq]
    constructor
    · rintro ⟨r', e⟩; cases e; rfl
    · rintro rfl; exact ⟨r, rfl⟩

theorem rooted_isRooted {p : Bytes} (h : Rooted p) : Spec.isRooted p = true := by
  obtain ⟨r, rfl⟩ := h; simp [Spec.isRooted]

theorem rooted_spec_clean {p : Bytes} (h : Rooted p) : Rooted (Spec.clean p) := by
  rw [Spec.clean, rooted_isRooted h]
  simp only [Spec.render, if_true, List.isEmpty_cons, Bool.false_eq_true, if_false]
  exact ⟨_, rfl⟩

theorem rooted_absOf {v : OView} (hv : Rooted v.cwd) (p : Bytes) : Rooted (absOf v p) := by
  unfold absOf abs
  split
  · next h =>
    rw [clean_eq_spec]
    exact rooted_spec_clean ((rooted_iff_isAbs p).mpr h)
  · rw [join_eq_spec, Spec.join]
    obtain ⟨r, hr⟩ := hv
    by_cases hp : p = []
    · subst hp
      simp only [hr, List.filter, List.isEmpty_cons, Bool.not_false, List.isEmpty_nil, Bool.not_true]
      exact rooted_spec_clean ⟨r, by simp [joinWith]⟩
    · have hpe : p.isEmpty = false := by cases p <;> simp_all
      simp only [hr, List.filter, List.isEmpty_cons, Bool.not_false, hpe]
      exact rooted_spec_clean ⟨r ++ SL :: p, by simp [joinWith]⟩

/-- SplitAbs on a rooted path: the parent part is "" or rooted again, and shorter -/
theorem splitAbsO_rooted {p : Bytes} (h : Rooted p) :
    ∃ d f, splitAbsO p = some (d, f) ∧ p = d ++ SL :: f ∧ SL ∉ f ∧ (d = [] ∨ Rooted d) := by
  obtain ⟨r, rfl⟩ := h
  obtain ⟨d, f, e, hf⟩ := exists_last_sep (SL :: r) (by simp)
  refine ⟨d, f, ?_, e, hf, ?_⟩
  · rw [e]; exact splitAbsO_mk d f hf
  · cases d with
    | nil => exact Or.inl rfl
    | cons x d' =>
      right
      simp only [List.cons_append, List.cons.injEq] at e
      exact ⟨d', by rw [← e.1]⟩

/-! ### the ancestor loops of Mkdir and MkdirAll end within their fuel -/

theorem ancestorLoop_some {s : OStore} (hroot : (s.at []).isSome = true) :
    ∀ (fuel : Nat) (dir : Bytes), Rooted dir → dir.length < fuel → (ancestorLoop s fuel dir).isSome = true := by
  intro fuel
  induction fuel with
  | zero => intro dir _ hl; omega
  | succ fuel ih =>
    intro dir hd hl
    obtain ⟨d, f, hsp, e, _, hdr⟩ := splitAbsO_rooted hd
    simp only [ancestorLoop, hsp]
    cases hat : s.at d with
    | some i => rfl
    | none =>
      simp only []
      rcases hdr with rfl | hdr
      · rw [hat] at hroot; cases hroot
      · apply ih d hdr
        have := congrArg List.length e
        simp at this
        omega

theorem missingChain_ne_panic {s : OStore} (hroot : (s.at []).isSome = true) :
    ∀ (fuel : Nat) (dir : Bytes) (acc : List Bytes), dir = [] ∨ Rooted dir → dir.length < fuel →
      missingChain s fuel dir acc = .panic → False := by
  intro fuel
  induction fuel with
  | zero => intro dir _ _ hl; omega
  | succ fuel ih =>
    intro dir acc hd hl hp
    simp only [missingChain] at hp
    cases hat : s.at dir with
    | some i =>
      rw [hat] at hp
      simp only [] at hp
      split at hp <;> cases hp
    | none =>
      rw [hat] at hp
      simp only [] at hp
      rcases hd with rfl | hd
      · rw [hat] at hroot; cases hroot
      · obtain ⟨d, f, hsp, e, _, hdr⟩ := splitAbsO_rooted hd
        rw [hsp] at hp
        simp only [] at hp
        refine ih d _ hdr ?_ hp
        have := congrArg List.length e
        simp at this
        omega

/-! ### the path-level calls -/

theorem OWF.rootSome {s : OStore} (h : OWF s) : (s.at []).isSome = true := by rw [h.rootE]; rfl

theorem mkdir_np {s : OStore} (h : OWF s) {v : OView} (hv : Rooted v.cwd) (name : Bytes) (perm : Nat) :
    NoPH (mkdir s v name perm).2 := by
  unfold mkdir
  split
  · exact ⟨by simp, by simp⟩
  · obtain ⟨d, f, hsp, e, _, hdr⟩ := splitAbsO_rooted (rooted_absOf hv name)
    simp only [hsp]
    split
    · exact ⟨by simp, by simp⟩
    · cases hat : s.at d with
      | some parent =>
        simp only []
        split <;> exact ⟨by simp, by simp⟩
      | none =>
        simp only []
        rcases hdr with rfl | hdr
        · rw [h.rootE] at hat; cases hat
        · have := ancestorLoop_some h.rootSome (d.length + 2) d hdr (by omega)
          cases ha : ancestorLoop s (d.length + 2) d with
          | none => rw [ha] at this; cases this
          | some a =>
            simp only []
            split <;> exact ⟨by simp, by simp⟩

theorem mkdirAll_np {s : OStore} (h : OWF s) {v : OView} (hv : Rooted v.cwd) (path : Bytes) (perm : Nat) :
    NoPH (mkdirAll s v path perm).2 := by
  unfold mkdirAll
  simp only []
  split
  · split <;> exact ⟨by simp, by simp⟩
  · split
    · next hp =>
      exact (missingChain_ne_panic h.rootSome _ _ _ (Or.inr (rooted_absOf hv path)) (by omega) hp).elim
    · exact ⟨by simp, by simp⟩
    · exact ⟨by simp, by simp⟩

/-! ### allocated nodes stay allocated -/

/-- the node is in the heap -/
def Alloc (s : OStore) (i : Ino) : Prop := (s.get i).isSome = true

/-- no call ever removes a node from the heap -/
def Grows (s s' : OStore) : Prop := ∀ i, Alloc s i → Alloc s' i

theorem Grows.refl (s : OStore) : Grows s s := fun _ h => h
theorem Grows.trans {s s' s'' : OStore} (h1 : Grows s s') (h2 : Grows s' s'') : Grows s s'' := fun i h => h2 i (h1 i h)

theorem alloc_set {s : OStore} {i j : Ino} {n : ONode} (h : Alloc s j) : Alloc (s.set i n) j := by
  unfold Alloc at *
  rw [get_set]; split <;> simp [h]

theorem alloc_set_self (s : OStore) (i : Ino) (n : ONode) : Alloc (s.set i n) i := by
  unfold Alloc; rw [get_set_eq]; rfl

theorem Grows.set {s s' : OStore} (h : Grows s s') (i : Ino) (n : ONode) : Grows s (s'.set i n) :=
  fun j hj => alloc_set (h j hj)
theorem Grows.bind {s s' : OStore} (h : Grows s s') (p : Bytes) (i : Ino) : Grows s (s'.bind p i) := h
theorem Grows.unbind {s s' : OStore} (h : Grows s s') (p : Bytes) : Grows s (s'.unbind p) := h
theorem Grows.index {s s' : OStore} (h : Grows s s') (idx : List (Bytes × Ino)) : Grows s { s' with index := idx } := h

theorem Grows.addChildO {s s' : OStore} (h : Grows s s') (parent : Ino) (name : Bytes) (c : Ino) :
    Grows s (addChildO s' parent name c) := by
  unfold Orefa.addChildO; split
  · exact h.set _ _
  · exact h

theorem Grows.delChild {s s' : OStore} (h : Grows s s') (parent : Ino) (name : Bytes) :
    Grows s (delChild s' parent name) := by
  unfold Orefa.delChild; split
  · exact h.set _ _
  · exact h

theorem Grows.removeNode {s s' : OStore} (h : Grows s s') (i : Ino) : Grows s (removeNode s' i) := by
  unfold Orefa.removeNode; split
  · exact h.set _ _
  · exact h

theorem Grows.createNode {s s' : OStore} (h : Grows s s') (v : OView) (parent : Ino) (ap name : Bytes) (isDir : Bool)
    (perm : Nat) : Grows s (createNode s' v parent ap name isDir perm).1 := by
  unfold Orefa.createNode
  simp only []
  apply Grows.bind
  apply Grows.addChildO
  intro j hj
  have := h j hj
  unfold Alloc OStore.get at *
  simp only [AL.lookup_insert]
  split <;> simp [this]

theorem createNode_alloc (s : OStore) (v : OView) (parent : Ino) (ap name : Bytes) (isDir : Bool) (perm : Nat) :
    Alloc (createNode s v parent ap name isDir perm).1 (createNode s v parent ap name isDir perm).2 := by
  unfold Orefa.createNode
  simp only []
  refine (Grows.addChildO (Grows.refl _) parent name s.next).bind ap s.next _ ?_
  unfold Alloc OStore.get
  simp

/-! ### OpenFile -/

theorem openFile_np {s : OStore} (h : OWF s) {v : OView} (hv : Rooted v.cwd) (name : Bytes) (flag perm : Nat) :
    (openFile s v name flag perm).2 = .panic → False := by
  unfold openFile
  split
  · intro hp; cases hp
  · obtain ⟨d, f, hsp, e, _, hdr⟩ := splitAbsO_rooted (rooted_absOf hv name)
    simp only [hsp]
    split
    · repeat' split
      all_goals (intro hp; cases hp)
    · next c hc =>
      have := h.allocIdx _ c hc
      cases hg : s.get c with
      | none => rw [hg] at this; cases this
      | some n =>
        simp only []
        repeat' split
        all_goals (intro hp; cases hp)

/-- what an opened handle looks like: it keeps the name (not empty), starts at offset 0 and points to a node that is
    allocated in the resulting store -/
theorem openFile_ok {s : OStore} {v : OView} {name : Bytes} {flag perm : Nat} {s1 : OStore} {hd : Handle}
    (ho : openFile s v name flag perm = (s1, .ok hd)) :
    name ≠ [] ∧ hd.name = name ∧ hd.pos = 0 ∧ ∃ c, hd.nd = some c ∧ Alloc s1 c := by
  unfold openFile at ho
  split at ho
  · cases ho
  · next hne =>
    have hne' : name ≠ [] := by intro e; subst e; simp at hne
    simp only [] at ho
    split at ho
    · cases ho
    · split at ho
      · split at ho
        · cases ho
        · repeat' split at ho
          all_goals first
            | (cases ho; done)
            | (simp only [Prod.mk.injEq, OpenRes.ok.injEq] at ho
               obtain ⟨rfl, rfl⟩ := ho
               exact ⟨hne', rfl, rfl, _, rfl, createNode_alloc _ _ _ _ _ _ _⟩)
      · next c hc =>
        split at ho
        · cases ho
        · next n hn =>
          repeat' split at ho
          all_goals first
            | (cases ho; done)
            | (simp only [Prod.mk.injEq, OpenRes.ok.injEq] at ho
               obtain ⟨rfl, rfl⟩ := ho
               refine ⟨hne', rfl, rfl, c, rfl, ?_⟩
               first
                 | exact alloc_set_self _ _ _
                 | (unfold Alloc; rw [hn]; rfl))

theorem grows_openFile (s : OStore) (v : OView) (name : Bytes) (flag perm : Nat) :
    Grows s (openFile s v name flag perm).1 := by
  unfold openFile
  simp only []
  repeat' split
  all_goals first
    | exact Grows.refl _
    | exact (Grows.refl _).set _ _
    | exact Grows.createNode (Grows.refl _) _ _ _ _ _ _

/-! ### Stat, Chdir, the attribute setters, Truncate, Remove, Link, Rename -/

theorem OWF.getOfAt {s : OStore} (h : OWF s) {p : Bytes} {c : Ino} (hc : s.at p = some c) : ∃ n, s.get c = some n := by
  have := h.allocIdx p c hc
  cases hg : s.get c with
  | none => rw [hg] at this; cases this
  | some n => exact ⟨n, rfl⟩

theorem fillStatO_isSome {s : OStore} {c : Ino} {n : ONode} (hg : s.get c = some n) (name : Bytes) :
    ∃ i, fillStatO s c name = some i := by
  simp [fillStatO, hg]

theorem statO_np {s : OStore} (h : OWF s) {v : OView} (hv : Rooted v.cwd) (path : Bytes) : NoPH (statO s v path) := by
  unfold statO
  obtain ⟨d, f, hsp, _⟩ := splitAbsO_rooted (rooted_absOf hv path)
  simp only [hsp]
  split
  · next c hc =>
    obtain ⟨n, hn⟩ := h.getOfAt hc
    obtain ⟨i, hi⟩ := fillStatO_isSome hn f
    rw [hi]
    exact ⟨by simp, by simp⟩
  · repeat' split
    all_goals exact ⟨by simp, by simp⟩

theorem chdir_np (s : OStore) (v : OView) (dir : Bytes) : NoPH (chdir s v dir).2 := by
  unfold chdir
  simp only []
  repeat' split
  all_goals exact ⟨by simp, by simp⟩

theorem chdir_rooted (s : OStore) {v : OView} (hv : Rooted v.cwd) (dir : Bytes) : Rooted (chdir s v dir).1.cwd := by
  unfold chdir
  simp only []
  repeat' split
  all_goals first | exact hv | exact rooted_absOf hv dir

theorem setAttr_np {s : OStore} (h : OWF s) (v : OView) (name : Bytes) (f : ONode → ONode) :
    NoPH (setAttr s v name f).2 := by
  unfold setAttr
  split
  · exact ⟨by simp, by simp⟩
  · next c hc =>
    obtain ⟨n, hn⟩ := h.getOfAt hc
    rw [hn]
    exact ⟨by simp, by simp⟩

theorem grows_setAttr (s : OStore) (v : OView) (name : Bytes) (f : ONode → ONode) : Grows s (setAttr s v name f).1 := by
  unfold setAttr
  repeat' split
  all_goals first | exact Grows.refl _ | exact (Grows.refl _).set _ _

theorem truncate_np {s : OStore} (h : OWF s) (v : OView) (name : Bytes) (size : Int) :
    NoPH (truncate s v name size).2 := by
  unfold truncate
  split
  · exact ⟨by simp, by simp⟩
  · split
    · exact ⟨by simp, by simp⟩
    · next c hc =>
      obtain ⟨n, hn⟩ := h.getOfAt hc
      rw [hn]
      simp only []
      split <;> exact ⟨by simp, by simp⟩

theorem grows_truncate (s : OStore) (v : OView) (name : Bytes) (size : Int) : Grows s (truncate s v name size).1 := by
  unfold truncate
  repeat' split
  all_goals first | exact Grows.refl _ | exact (Grows.refl _).set _ _

theorem remove_np {s : OStore} (h : OWF s) {v : OView} (hv : Rooted v.cwd) (name : Bytes) :
    NoPH (remove s v name).2 := by
  unfold remove
  obtain ⟨d, f, hsp, _⟩ := splitAbsO_rooted (rooted_absOf hv name)
  simp only [hsp]
  split
  · next c p hc hp =>
    obtain ⟨n, hn⟩ := h.getOfAt hc
    rw [hn]
    simp only []
    repeat' split
    all_goals exact ⟨by simp, by simp⟩
  · exact ⟨by simp, by simp⟩

theorem grows_remove (s : OStore) (v : OView) (name : Bytes) : Grows s (remove s v name).1 := by
  unfold remove
  simp only []
  repeat' split
  all_goals first
    | exact Grows.refl _
    | exact (((Grows.refl _).removeNode _).delChild _ _).unbind _

theorem link_np {s : OStore} (h : OWF s) {v : OView} (hv : Rooted v.cwd) (o n : Bytes) :
    NoPH (link s v o n).2 := by
  unfold link
  obtain ⟨d, f, hsp, _⟩ := splitAbsO_rooted (rooted_absOf hv n)
  simp only [hsp]
  split
  · exact ⟨by simp, by simp⟩
  · next oc hoc =>
    split
    · exact ⟨by simp, by simp⟩
    · next np hnp =>
      split
      · exact ⟨by simp, by simp⟩
      split
      · exact ⟨by simp, by simp⟩
      split
      · exact ⟨by simp, by simp⟩
      obtain ⟨on, hon⟩ := h.getOfAt hoc
      have hal : Alloc (addChildO (s.bind (absOf v n) oc) np f oc) oc :=
        ((Grows.refl s).bind _ _).addChildO _ _ _ oc (by unfold Alloc; rw [hon]; rfl)
      unfold Alloc at hal
      cases hg : (addChildO (s.bind (absOf v n) oc) np f oc).get oc with
      | none => rw [hg] at hal; cases hal
      | some on' => exact ⟨by simp, by simp⟩

theorem grows_link (s : OStore) (v : OView) (o n : Bytes) : Grows s (link s v o n).1 := by
  unfold link
  simp only []
  repeat' split
  all_goals first
    | exact Grows.refl _
    | exact ((((Grows.refl _).bind _ _).addChildO _ _ _).set _ _)

theorem rename_np {s : OStore} {v : OView} (hv : Rooted v.cwd) (o n : Bytes) :
    NoPH (rename s v o n).2 := by
  unfold rename
  obtain ⟨d, f, hsp, _⟩ := splitAbsO_rooted (rooted_absOf hv o)
  obtain ⟨d', f', hsp', _⟩ := splitAbsO_rooted (rooted_absOf hv n)
  simp only [hsp, hsp']
  repeat' split
  all_goals exact ⟨by simp, by simp⟩

theorem Grows.of_heap {s s' s'' : OStore} (h : Grows s s') (e : s''.heap = s'.heap) : Grows s s'' := by
  intro i hi
  have := h i hi
  unfold Alloc OStore.get at *
  rw [e]; exact this

theorem rename_heap (s : OStore) (v : OView) (o n : Bytes) :
    (rename s v o n).1.heap = s.heap ∨ ∃ np nFile oc op oFile,
      (rename s v o n).1.heap = (delChild (addChildO s np nFile oc) op oFile).heap ∨
      ∃ c, (rename s v o n).1.heap = (delChild (addChildO (removeNode s c) np nFile oc) op oFile).heap := by
  unfold rename
  simp only []
  repeat' split
  all_goals first
    | exact Or.inl rfl
    | exact Or.inr ⟨_, _, _, _, _, Or.inl rfl⟩
    | exact Or.inr ⟨_, _, _, _, _, Or.inr ⟨_, rfl⟩⟩

theorem grows_rename (s : OStore) (v : OView) (o n : Bytes) : Grows s (rename s v o n).1 := by
  rcases rename_heap s v o n with e | ⟨np, nFile, oc, op, oFile, e | ⟨c, e⟩⟩
  · exact (Grows.refl s).of_heap e
  · exact (((Grows.refl s).addChildO _ _ _).delChild _ _).of_heap e
  · exact ((((Grows.refl s).removeNode _).addChildO _ _ _).delChild _ _).of_heap e

theorem grows_mkdir (s : OStore) (v : OView) (name : Bytes) (perm : Nat) : Grows s (mkdir s v name perm).1 := by
  unfold mkdir
  simp only []
  repeat' split
  all_goals first
    | exact Grows.refl _
    | exact Grows.createNode (Grows.refl _) _ _ _ _ _ _

theorem grows_mkdirAll (s : OStore) (v : OView) (path : Bytes) (perm : Nat) : Grows s (mkdirAll s v path perm).1 := by
  unfold mkdirAll
  simp only []
  repeat' split
  all_goals first
    | exact Grows.refl _
    | skip
  next ds parent _ =>
  have : ∀ (l : List Bytes) (acc : OStore × Ino), Grows s acc.1 →
      Grows s (l.foldl (fun (acc : OStore × Ino) p =>
        match splitAbsO p with
        | some (_, fileName) => createNode acc.1 v acc.2 p fileName true perm
        | none => acc) acc).1 := by
    intro l
    induction l with
    | nil => intro acc h; exact h
    | cons p l ih =>
      intro acc h
      simp only [List.foldl_cons]
      apply ih
      split
      · exact Grows.createNode h _ _ _ _ _ _
      · exact h
  exact this _ _ (Grows.refl _)

/-! ### RemoveAll: the recursion ends within its fuel -/

/-- pigeonhole: a list of distinct numbers below `n` has at most `n` elements -/
theorem nodup_length_le : ∀ (n : Nat) (l : List Nat), l.Nodup → (∀ x ∈ l, x < n) → l.length ≤ n := by
  intro n
  induction n with
  | zero =>
    intro l _ h
    cases l with
    | nil => simp
    | cons x _ => exact absurd (h x (by simp)) (by omega)
  | succ n ih =>
    intro l hnd h
    have h1 : (l.erase n).Nodup := hnd.erase n
    have h2 : ∀ x ∈ l.erase n, x < n := by
      intro x hx
      have hm := (List.Nodup.mem_erase_iff hnd).mp hx
      have := h x hm.2
      have := hm.1
      omega
    have h3 := ih (l.erase n) h1 h2
    have h4 := List.length_erase (a := n) (l := l)
    split at h4 <;> omega

theorem grows_removeAllRec : ∀ (fuel : Nat) (a : OStore) (Q : Bytes) (c : Ino) (a' : OStore),
    removeAllRec fuel a Q c = some a' → Grows a a' := by
  intro fuel
  induction fuel with
  | zero => intro a Q c a' h; simp [removeAllRec] at h
  | succ fuel ih =>
    intro a Q c a' hrec
    rw [removeAllRec_succ] at hrec
    have hfold : ∀ (n : ONode) (nms : List Bytes) (a0 a1 : OStore),
        nms.foldl (removeAllStep fuel Q n) (some a0) = some a1 → Grows a0 a1 := by
      intro n nms
      induction nms with
      | nil => intro a0 a1 hf; simp at hf; subst hf; exact Grows.refl _
      | cons nm rest ihl =>
        intro a0 a1 hf
        simp only [List.foldl_cons] at hf
        cases hs : removeAllStep fuel Q n (some a0) nm with
        | none => rw [hs, removeAllStep_none] at hf; cases hf
        | some a0' =>
          rw [hs] at hf
          refine Grows.trans ?_ (ihl a0' a1 hf)
          unfold removeAllStep at hs
          split at hs
          · next a0'' ch e1 _ => cases e1; exact ih _ _ _ _ hs
          · cases hs; exact Grows.refl _
    cases hg : a.get c with
    | none =>
      rw [hg] at hrec
      simp only [Option.map_some, Option.some.injEq] at hrec
      subst hrec
      exact ((Grows.refl a).removeNode c).unbind Q
    | some n =>
      rw [hg] at hrec
      simp only [] at hrec
      cases hd : n.isDir with
      | false =>
        simp only [hd, Bool.false_eq_true, if_false, Option.map_some, Option.some.injEq] at hrec
        subst hrec
        exact ((Grows.refl a).removeNode c).unbind Q
      | true =>
        simp only [hd, if_true] at hrec
        cases hf : n.names.foldl (removeAllStep fuel Q n) (some a) with
        | none => rw [hf] at hrec; cases hrec
        | some a1 =>
          rw [hf] at hrec
          simp only [Option.map_some, Option.some.injEq] at hrec
          subst hrec
          exact ((hfold _ _ _ _ hf).removeNode c).unbind Q

/-- the ancestors on the way down are distinct directories: the recursion is never deeper than the number of nodes -/
theorem removeAllRec_total {s : OStore} (h : OWF s) : ∀ (fuel : Nat) (a : OStore) (Q : Bytes) (c : Ino) (anc : List Ino),
    Rem s a → s.at Q = some c → (∀ q, Under Q q → a.at q = s.at q) → Q ≠ [] → Q ≠ [SL] →
    anc.Nodup → (∀ j ∈ anc, ∃ q n, s.at q = some j ∧ s.get j = some n ∧ n.isDir = true ∧ j ≠ rootIno ∧ q.length < Q.length) →
    fuel + anc.length ≥ s.next + 1 →
    ∃ a', removeAllRec fuel a Q c = some a' := by
  intro fuel
  induction fuel with
  | zero =>
    intro a Q c anc _ _ _ _ _ hnd hanc hfuel
    exfalso
    have := nodup_length_le s.next anc hnd (fun j hj => by
      obtain ⟨q, n, _, hg, _⟩ := hanc j hj
      exact h.heapLt j n hg)
    omega
  | succ fuel ih =>
    intro a Q c anc r hs hkeep hQe hQs hnd hanc hfuel
    rw [removeAllRec_succ]
    have hcr : c ≠ rootIno := by
      intro e; subst e
      rcases h.rootKeys Q hs with e | e
      · exact hQe e
      · exact hQs e
    have haQ : a.at Q = some c := by rw [hkeep Q (Or.inl rfl), hs]
    obtain ⟨n, hn⟩ := h.getOfAt hs
    cases hd : n.isDir with
    | false =>
      obtain ⟨m', hm', hdir, _⟩ := r.node c n hn
      rw [hm']
      have : m'.isDir = false := by rw [hdir, hd]
      simp [this]
    | true =>
      have hac : a.get c = some n := by
        rw [r.same c, hn]
        intro q hq
        have := h.dirKey q Q c n hq hs hn hd hcr
        rw [this]; exact haQ
      rw [hac]
      simp only [hd, if_true]
      -- the new ancestor list
      have hcanc : c ∉ anc := by
        intro hc
        obtain ⟨q, n', hq, _, _, _, hlt⟩ := hanc c hc
        have := h.dirKey q Q c n hq hs hn hd hcr
        subst this
        exact absurd hlt (Nat.lt_irrefl _)
      have hnd' : (c :: anc).Nodup := List.nodup_cons.mpr ⟨hcanc, hnd⟩
      have hfuel' : fuel + (c :: anc).length ≥ s.next + 1 := by simp only [List.length_cons]; omega
      have hfold : ∀ (nms : List Bytes) (a0 : OStore), nms.Nodup → (∀ nm ∈ nms, (AL.lookup nm n.kids).isSome = true) →
          Rem s a0 → (∀ nm ∈ nms, ∀ q, Under (Q ++ SL :: nm) q → a0.at q = s.at q) →
          ∃ a1, nms.foldl (removeAllStep fuel Q n) (some a0) = some a1 := by
        intro nms
        induction nms with
        | nil => intro a0 _ _ _ _; exact ⟨a0, rfl⟩
        | cons nm rest ihl =>
          intro a0 hnd0 hlk r0 hkeep0
          rw [List.nodup_cons] at hnd0
          simp only [List.foldl_cons]
          have hsome := hlk nm (by simp)
          cases hl : AL.lookup nm n.kids with
          | none => rw [hl] at hsome; cases hsome
          | some ch =>
            have hstep : removeAllStep fuel Q n (some a0) nm = removeAllRec fuel a0 (Q ++ SL :: nm) ch := by
              simp [removeAllStep, hl]
            rw [hstep]
            have hchild : s.at (Q ++ SL :: nm) = some ch := h.down Q c n nm ch hs hQs hn hl
            have hne1 : Q ++ SL :: nm ≠ [] := by simp
            have hne2 : Q ++ SL :: nm ≠ [SL] := by
              intro e
              have := congrArg List.length e; simp at this
              exact hQe (List.eq_nil_of_length_eq_zero (by omega))
            have hanc' : ∀ j ∈ c :: anc, ∃ q n, s.at q = some j ∧ s.get j = some n ∧ n.isDir = true ∧ j ≠ rootIno ∧
                q.length < (Q ++ SL :: nm).length := by
              intro j hj
              simp only [List.mem_cons] at hj
              rcases hj with rfl | hj
              · exact ⟨Q, n, hs, hn, hd, hcr, by simp⟩
              · obtain ⟨q, n', b1, b2, b3, b4, b5⟩ := hanc j hj
                exact ⟨q, n', b1, b2, b3, b4, by simp; omega⟩
            obtain ⟨a0', hr0⟩ := ih a0 (Q ++ SL :: nm) ch (c :: anc) r0 hchild (hkeep0 nm (by simp)) hne1 hne2 hnd' hanc' hfuel'
            rw [hr0]
            obtain ⟨r0', hat0'⟩ := removeAllRec_spec h fuel a0 (Q ++ SL :: nm) ch a0' r0 hchild (hkeep0 nm (by simp)) hne1 hne2 hr0
            have hnosl : SL ∉ nm := (h.names c n nm ch hn hl).2
            have hkeep' : ∀ nm' ∈ rest, ∀ q, Under (Q ++ SL :: nm') q → a0'.at q = s.at q := by
              intro nm' hm q hu
              rw [hat0', if_neg]
              · exact hkeep0 nm' (by simp [hm]) q hu
              · intro hu1
                have hs' := hlk nm' (by simp [hm])
                cases hl' : AL.lookup nm' n.kids with
                | none => rw [hl'] at hs'; cases hs'
                | some ch' =>
                  have hnosl' : SL ∉ nm' := (h.names c n nm' ch' hn hl').2
                  have := under_children_disjoint hnosl hnosl' hu1 hu
                  exact hnd0.1 (this ▸ hm)
            exact ihl a0' hnd0.2 (fun x hx => hlk x (by simp [hx])) r0' hkeep'
      obtain ⟨a1, hf⟩ := hfold n.names a (nodup_names n) (fun nm hm => mem_names.mp hm) r
        (fun nm _ q hu => hkeep q (Or.inr (under_child_below hu)))
      rw [hf]
      exact ⟨_, rfl⟩

theorem removeAll_np {s : OStore} (h : OWF s) {v : OView} (hv : Rooted v.cwd) (path : Bytes) :
    NoPH (removeAll s v path).2 := by
  unfold removeAll
  split
  · exact ⟨by simp, by simp⟩
  · obtain ⟨d, f, hsp, _⟩ := splitAbsO_rooted (rooted_absOf hv path)
    simp only [hsp]
    split
    · next c p hc hp =>
      split
      · exact ⟨by simp, by simp⟩
      · next hcp =>
        have hcp' : c ≠ p := by simpa using hcp
        obtain ⟨hae, has⟩ := h.entry_path hsp hc hp hcp'
        obtain ⟨a', ha'⟩ := removeAllRec_total h (s.next + 1) s (absOf v path) c [] (Rem.refl h) hc (fun _ _ => rfl)
          hae has List.nodup_nil (by simp) (by simp)
        rw [ha']
        exact ⟨by simp, by simp⟩
    · exact ⟨by simp, by simp⟩

theorem grows_removeAll (s : OStore) (v : OView) (path : Bytes) : Grows s (removeAll s v path).1 := by
  unfold removeAll
  simp only []
  repeat' split
  all_goals first
    | exact Grows.refl _
    | (next a' hrec => exact (grows_removeAllRec _ _ _ _ _ hrec).delChild _ _)

/-! ### the methods of an open file -/

/-- an open handle points to an allocated node and its offset is not negative -/
def HandleOK (s : OStore) (h : Handle) : Prop := (∀ i, h.nd = some i → Alloc s i) ∧ 0 ≤ h.pos

theorem HandleOK.mono {s s' : OStore} {h : Handle} (hg : Grows s s') (hk : HandleOK s h) : HandleOK s' h :=
  ⟨fun i hi => hg i (hk.1 i hi), hk.2⟩

theorem fillStatO_none {s : OStore} {i : Ino} {name : Bytes} (h : fillStatO s i name = none) : s.get i = none := by
  simpa [fillStatO] using h

local macro "file_np_tac" hk:ident : tactic =>
  `(tactic| (unfold fileStep; dsimp only; repeat' split
             all_goals first
               | (refine ⟨?_, ?_⟩ <;> simp <;> done)
               | (exfalso
                  first
                    | (have h1 := ($hk).2; omega)
                    | (have h1 := ($hk).1 _ (by assumption); unfold Alloc at h1; simp_all [fillStatO]))))

theorem fileStep_np_read {s : OStore} (v : OView) {hd : Handle} (hk : HandleOK s hd) (ap : Bytes) (k : Nat) :
    NoPH (fileStep s v hd ap (.read k)).2.2.2 := by file_np_tac hk
theorem fileStep_np_readAt {s : OStore} (v : OView) {hd : Handle} (hk : HandleOK s hd) (ap : Bytes) (k : Nat) (off : Int) :
    NoPH (fileStep s v hd ap (.readAt k off)).2.2.2 := by file_np_tac hk
theorem fileStep_np_write {s : OStore} (v : OView) {hd : Handle} (hk : HandleOK s hd) (ap : Bytes) (b : Bytes) :
    NoPH (fileStep s v hd ap (.write b)).2.2.2 := by file_np_tac hk
theorem fileStep_np_writeAt {s : OStore} (v : OView) {hd : Handle} (hk : HandleOK s hd) (ap : Bytes) (b : Bytes) (off : Int) :
    NoPH (fileStep s v hd ap (.writeAt b off)).2.2.2 := by file_np_tac hk
theorem fileStep_np_seek {s : OStore} (v : OView) {hd : Handle} (hk : HandleOK s hd) (ap : Bytes) (off wh : Int) :
    NoPH (fileStep s v hd ap (.seek off wh)).2.2.2 := by file_np_tac hk
theorem fileStep_np_truncate {s : OStore} (v : OView) {hd : Handle} (hk : HandleOK s hd) (ap : Bytes) (sz : Int) :
    NoPH (fileStep s v hd ap (.truncate sz)).2.2.2 := by file_np_tac hk
theorem fileStep_np_stat {s : OStore} (v : OView) {hd : Handle} (hk : HandleOK s hd) (ap : Bytes) :
    NoPH (fileStep s v hd ap .stat).2.2.2 := by file_np_tac hk
theorem fileStep_np_sync {s : OStore} (v : OView) {hd : Handle} (hk : HandleOK s hd) (ap : Bytes) :
    NoPH (fileStep s v hd ap .sync).2.2.2 := by file_np_tac hk
theorem fileStep_np_chmod {s : OStore} (v : OView) {hd : Handle} (hk : HandleOK s hd) (ap : Bytes) (m : Nat) :
    NoPH (fileStep s v hd ap (.chmod m)).2.2.2 := by file_np_tac hk
theorem fileStep_np_chown {s : OStore} (v : OView) {hd : Handle} (hk : HandleOK s hd) (ap : Bytes) (u g : Int) :
    NoPH (fileStep s v hd ap (.chown u g)).2.2.2 := by file_np_tac hk
theorem fileStep_np_chdir {s : OStore} (v : OView) {hd : Handle} (hk : HandleOK s hd) (ap : Bytes) :
    NoPH (fileStep s v hd ap .chdir).2.2.2 := by file_np_tac hk
theorem fileStep_np_close {s : OStore} (v : OView) {hd : Handle} (_hk : HandleOK s hd) (ap : Bytes) :
    NoPH (fileStep s v hd ap .close).2.2.2 := by file_np_tac _hk
theorem fileStep_np_readDir {s : OStore} (v : OView) {hd : Handle} (hk : HandleOK s hd) (ap : Bytes) (k : Int) :
    NoPH (fileStep s v hd ap (.readDir k)).2.2.2 := by file_np_tac hk
theorem fileStep_np_readdirnames {s : OStore} (v : OView) {hd : Handle} (hk : HandleOK s hd) (ap : Bytes) (k : Int) :
    NoPH (fileStep s v hd ap (.readdirnames k)).2.2.2 := by file_np_tac hk


/-- no handle operation panics or hangs: any offset, size or count, closed or not, the node removed or not -/
theorem fileStep_np {s : OStore} (v : OView) {hd : Handle} (hk : HandleOK s hd) (ap : Bytes) (op : FOp) :
    NoPH (fileStep s v hd ap op).2.2.2 := by
  cases op with
  | read k => exact fileStep_np_read v hk ap k
  | readAt k off => exact fileStep_np_readAt v hk ap k off
  | write b => exact fileStep_np_write v hk ap b
  | writeAt b off => exact fileStep_np_writeAt v hk ap b off
  | seek off wh => exact fileStep_np_seek v hk ap off wh
  | truncate sz => exact fileStep_np_truncate v hk ap sz
  | stat => exact fileStep_np_stat v hk ap
  | sync => exact fileStep_np_sync v hk ap
  | chmod m => exact fileStep_np_chmod v hk ap m
  | chown u g => exact fileStep_np_chown v hk ap u g
  | chdir => exact fileStep_np_chdir v hk ap
  | close => exact fileStep_np_close v hk ap
  | readDir k => exact fileStep_np_readDir v hk ap k
  | readdirnames k => exact fileStep_np_readdirnames v hk ap k

theorem grows_of_storeStep {s s' : OStore} (h : StoreStep s s') : Grows s s' := by
  rcases h with rfl | ⟨c, n, n', _, _, rfl⟩
  · exact Grows.refl _
  · exact (Grows.refl _).set _ _

theorem grows_fileStep (s : OStore) (v : OView) (hd : Handle) (ap : Bytes) (op : FOp) :
    Grows s (fileStep s v hd ap op).1 := grows_of_storeStep (fileStep_storeStep s v hd ap op)

/-- the node a handle points to never changes (Close forgets it) -/
theorem fileStep_nd (s : OStore) (v : OView) (hd : Handle) (ap : Bytes) (op : FOp) :
    (fileStep s v hd ap op).2.2.1.nd = hd.nd ∨ (fileStep s v hd ap op).2.2.1.nd = none := by
  cases op <;> (unfold fileStep; dsimp only; repeat' split) <;> first | exact Or.inl rfl | exact Or.inr rfl

/-- the offset stays non-negative -/
theorem fileStep_pos (s : OStore) (v : OView) {hd : Handle} (hp : 0 ≤ hd.pos) (ap : Bytes) (op : FOp) :
    0 ≤ (fileStep s v hd ap op).2.2.1.pos := by
  cases op <;> (unfold fileStep; dsimp only; repeat' split) <;>
    first
      | exact hp
      | (dsimp only; omega)
      | (simp only [Bool.or_eq_true, decide_eq_true_eq, not_or] at *; omega)

theorem fileStep_handleOK {s : OStore} (v : OView) {hd : Handle} (hk : HandleOK s hd) (ap : Bytes) (op : FOp) :
    HandleOK (fileStep s v hd ap op).1 (fileStep s v hd ap op).2.2.1 := by
  refine ⟨?_, fileStep_pos s v hk.2 ap op⟩
  intro i hi
  apply grows_fileStep s v hd ap op i
  rcases fileStep_nd s v hd ap op with e | e
  · rw [e] at hi; exact hk.1 i hi
  · rw [e] at hi; cases hi

/-- the current directory stays rooted: File.Chdir stores the path recorded when the file was opened -/
theorem fileStep_cwd (s : OStore) {v : OView} (hv : Rooted v.cwd) (hd : Handle) {ap : Bytes} (hap : Rooted ap) (op : FOp) :
    Rooted (fileStep s v hd ap op).2.1.cwd := by
  cases op <;> (unfold fileStep; dsimp only; repeat' split) <;> first | exact hv | exact hap

/-! ### the composites -/

theorem openFile_handleOK {s : OStore} {v : OView} {name : Bytes} {flag perm : Nat} {s1 : OStore} {hd : Handle}
    (ho : openFile s v name flag perm = (s1, .ok hd)) : HandleOK s1 hd := by
  obtain ⟨_, _, hpos, c, hc, hal⟩ := openFile_ok ho
  refine ⟨?_, by rw [hpos]; exact Int.le_refl 0⟩
  intro i hi
  rw [hc] at hi; cases hi; exact hal

theorem readFile_np {s : OStore} (h : OWF s) {v : OView} (hv : Rooted v.cwd) (name : Bytes) :
    NoPH (readFile s v name) := by
  unfold readFile
  split
  · next heq =>
    exfalso
    exact openFile_np h hv name 0 0 (by rw [heq])
  · exact ⟨by simp, by simp⟩
  · next s1 hd heq =>
    have hk := openFile_handleOK heq
    obtain ⟨_, _, _, c, hc, hal⟩ := openFile_ok heq
    have h1 := fileStep_np v hk (absOf v name) .stat
    have h2 := fileStep_np v hk (absOf v name) (.read 512)
    split
    · next hp => exact absurd hp h1.1
    · split
      · exact ⟨by simp, by simp⟩
      · next hp => exact absurd hp h2.1
      · rw [hc]
        unfold Alloc at hal
        cases hg : s1.get c with
        | none => rw [hg] at hal; cases hal
        | some n =>
          simp only [Option.bind_some, hg]
          exact ⟨by simp, by simp⟩

theorem readDir_np {s : OStore} (h : OWF s) {v : OView} (hv : Rooted v.cwd) (name : Bytes) :
    NoPH (readDir s v name) := by
  unfold readDir
  split
  · next heq =>
    exfalso
    exact openFile_np h hv name 0 0 (by rw [heq])
  · exact ⟨by simp, by simp⟩
  · next s1 hd heq =>
    exact fileStep_np v (openFile_handleOK heq) (absOf v name) (.readDir (-1))

/-! ### the invariant of the whole state -/

/-- the store is well formed, the current directory is rooted, every handle points to an allocated node with a
    non-negative offset, and the path recorded for it when it was opened is rooted -/
structure OInv (st : OState) : Prop where
  wf : OWF st.store
  cwd : Rooted st.view.cwd
  hnd : ∀ hid h, AL.lookup hid st.handles = some h → HandleOK st.store h
  habs : ∀ hid h, AL.lookup hid st.handles = some h → ∃ ap, AL.lookup hid st.habs = some ap ∧ Rooted ap

theorem OInv.of_same {st st' : OState} (hinv : OInv st) (hwf : OWF st'.store) (hg : Grows st.store st'.store)
    (hcwd : Rooted st'.view.cwd) (hh : st'.handles = st.handles) (hha : st'.habs = st.habs) : OInv st' :=
  { wf := hwf
    cwd := hcwd
    hnd := fun hid h hl => (hinv.hnd hid h (hh ▸ hl)).mono hg
    habs := fun hid h hl => by rw [hha]; exact hinv.habs hid h (hh ▸ hl) }

theorem OInv.register {st : OState} (hinv : OInv st) {s1 : OStore} (hwf : OWF s1) (hg : Grows st.store s1)
    (r : OpenRes) (hr : ∀ h, r = .ok h → HandleOK s1 h) {ap : Bytes} (hap : Rooted ap) :
    OInv (registerHandle st s1 r ap).1 := by
  unfold registerHandle
  split
  · exact hinv
  · exact hinv.of_same hwf hg hinv.cwd rfl rfl
  · next h =>
    refine { wf := hwf, cwd := hinv.cwd, hnd := ?_, habs := ?_ }
    · intro hid h' hl
      simp only [AL.lookup_insert] at hl
      split at hl
      · cases hl; exact hr _ rfl
      · exact (hinv.hnd hid h' hl).mono hg
    · intro hid h' hl
      simp only [AL.lookup_insert] at hl ⊢
      split at hl
      · next e => rw [if_pos e]; exact ⟨ap, rfl, hap⟩
      · next e => rw [if_neg e]; exact hinv.habs hid h' hl

theorem registerHandle_np (st : OState) (s1 : OStore) (r : OpenRes) (ap : Bytes) (hr : r = .panic → False) :
    NoPH (registerHandle st s1 r ap).2 := by
  unfold registerHandle
  split
  · exact (hr rfl).elim
  · exact ⟨by simp, by simp⟩
  · exact ⟨by simp, by simp⟩

/-- no call removes a node from the heap -/
theorem step_grows (st : OState) (c : Call) : Grows st.store (step st c).1.store := by
  cases c with
  | mkdir p perm => exact grows_mkdir _ _ _ _
  | mkdirAll p perm => exact grows_mkdirAll _ _ _ _
  | openFile p flag perm =>
    simp only [step]
    rcases registerHandle_store st (openFile st.store st.view p flag perm).1 (openFile st.store st.view p flag perm).2
      (absOf st.view p) with e | e <;> rw [e]
    · exact grows_openFile _ _ _ _ _
    · exact Grows.refl _
  | create p =>
    simp only [step]
    rcases registerHandle_store st (openFile st.store st.view p oRDWR_CREATE_TRUNC 0o666).1
      (openFile st.store st.view p oRDWR_CREATE_TRUNC 0o666).2 (absOf st.view p) with e | e <;> rw [e]
    · exact grows_openFile _ _ _ _ _
    · exact Grows.refl _
  | remove p => exact grows_remove _ _ _
  | removeAll p => exact grows_removeAll _ _ _
  | rename o n => exact grows_rename _ _ _ _
  | link o n => exact grows_link _ _ _ _
  | symlink _ _ => exact Grows.refl _
  | truncate p sz => exact grows_truncate _ _ _ _
  | chmod p m => exact grows_setAttr _ _ _ _
  | chown p u g => exact grows_setAttr _ _ _ _
  | lchown p u g => exact grows_setAttr _ _ _ _
  | chtimes p t => exact grows_setAttr _ _ _ _
  | chdir p => exact Grows.refl _
  | stat p => exact Grows.refl _
  | lstat p => exact Grows.refl _
  | readDir p => exact Grows.refl _
  | readFile p => exact Grows.refl _
  | readlink _ => exact Grows.refl _
  | evalSymlinks _ => exact Grows.refl _
  | getwd => exact Grows.refl _
  | writeFile p data perm =>
    simp only [step]
    have ho := grows_openFile st.store st.view p oWRONLY_CREATE_TRUNC perm
    split
    · exact Grows.refl _
    · next s1 e heq => rw [heq] at ho; exact ho
    · next s1 hd heq =>
      rw [heq] at ho
      exact ho.trans (grows_fileStep _ _ _ _ _)
  | mkdirTemp dir pat rnd =>
    simp only [step]
    split
    · exact Grows.refl _
    · next pre suf _ =>
      split
      · next s1 _ heq =>
        have := grows_mkdir st.store st.view (joinPath (if dir.isEmpty then tempDir else dir) pre ++ rnd ++ suf) 0o700
        rw [heq] at this; exact this
      · exact Grows.refl _
  | createTemp dir pat rnd =>
    simp only [step]
    split
    · exact Grows.refl _
    · next pre suf _ =>
      rcases registerHandle_store st
        (openFile st.store st.view (joinPath (if dir.isEmpty then tempDir else dir) pre ++ rnd ++ suf) oRDWR_CREATE_EXCL 0o600).1
        (openFile st.store st.view (joinPath (if dir.isEmpty then tempDir else dir) pre ++ rnd ++ suf) oRDWR_CREATE_EXCL 0o600).2
        (absOf st.view (joinPath (if dir.isEmpty then tempDir else dir) pre ++ rnd ++ suf)) with e | e <;> rw [e]
      · exact grows_openFile _ _ _ _ _
      · exact Grows.refl _
  | sub _ => exact Grows.refl _
  | setUser uid gid _ => exact Grows.refl _
  | setUMask m => exact Grows.refl _
  | file hid op =>
    simp only [step]
    split
    · exact Grows.refl _
    · exact grows_fileStep _ _ _ _ _

/-! ### every call -/

/-- in a state satisfying the invariant no call panics or hangs: all path-level calls, the composites and every handle
    operation, for ALL arguments -/
theorem step_np {st : OState} (hinv : OInv st) (c : Call) : NoPH (step st c).2 := by
  have h := hinv.wf
  have hv := hinv.cwd
  cases c with
  | mkdir p perm => exact mkdir_np h hv _ _
  | mkdirAll p perm => exact mkdirAll_np h hv _ _
  | openFile p flag perm => exact registerHandle_np _ _ _ _ (openFile_np h hv _ _ _)
  | create p => exact registerHandle_np _ _ _ _ (openFile_np h hv _ _ _)
  | remove p => exact remove_np h hv _
  | removeAll p => exact removeAll_np h hv _
  | rename o n => exact rename_np hv _ _
  | link o n => exact link_np h hv _ _
  | symlink _ _ => exact ⟨by simp [step], by simp [step]⟩
  | truncate p sz => exact truncate_np h _ _ _
  | chmod p m => exact setAttr_np h _ _ _
  | chown p u g => exact setAttr_np h _ _ _
  | lchown p u g => exact setAttr_np h _ _ _
  | chtimes p t => exact setAttr_np h _ _ _
  | chdir p => exact chdir_np _ _ _
  | stat p => exact statO_np h hv _
  | lstat p => exact statO_np h hv _
  | readDir p => exact readDir_np h hv _
  | readFile p => exact readFile_np h hv _
  | readlink _ => exact ⟨by simp [step], by simp [step]⟩
  | evalSymlinks _ => exact ⟨by simp [step], by simp [step]⟩
  | getwd => exact ⟨by simp [step], by simp [step]⟩
  | writeFile p data perm =>
    simp only [step]
    split
    · next heq => exact (openFile_np h hv p oWRONLY_CREATE_TRUNC perm (by rw [heq])).elim
    · exact ⟨by simp, by simp⟩
    · next s1 hd heq =>
      have := fileStep_np st.view (openFile_handleOK heq) (absOf st.view p) (.write data)
      dsimp only
      split
      · exact ⟨by simp, by simp⟩
      · next o hne => exact this
  | mkdirTemp dir pat rnd =>
    simp only [step]
    split
    · exact ⟨by simp, by simp⟩
    · next pre suf _ =>
      have := mkdir_np h hv (joinPath (if dir.isEmpty then tempDir else dir) pre ++ rnd ++ suf) 0o700
      split
      · exact ⟨by simp, by simp⟩
      · next o heq => rw [heq] at this; exact this
  | createTemp dir pat rnd =>
    simp only [step]
    split
    · exact ⟨by simp, by simp⟩
    · exact registerHandle_np _ _ _ _ (openFile_np h hv _ _ _)
  | sub _ => exact ⟨by simp [step], by simp [step]⟩
  | setUser uid gid _ => exact ⟨by simp [step], by simp [step]⟩
  | setUMask m => exact ⟨by simp [step], by simp [step]⟩
  | file hid op =>
    simp only [step]
    split
    · exact ⟨by simp, by simp⟩
    · next hd hl => exact fileStep_np _ (hinv.hnd hid hd hl) _ _

theorem OInv.openReg {st : OState} (hinv : OInv st) (p : Bytes) (flag perm : Nat) :
    OInv (registerHandle st (openFile st.store st.view p flag perm).1 (openFile st.store st.view p flag perm).2
      (absOf st.view p)).1 := by
  refine hinv.register (OWF_openFile hinv.wf _ _ _ _) (grows_openFile _ _ _ _ _) _ ?_ (rooted_absOf hinv.cwd p)
  intro hd e
  exact openFile_handleOK (Prod.ext rfl e)

/-- every call keeps the invariant -/
theorem OInv_step {st : OState} (hinv : OInv st) (c : Call) : OInv (step st c).1 := by
  have hwf := OWF_step hinv.wf c
  have hg := step_grows st c
  cases c with
  | mkdir p perm => exact hinv.of_same hwf hg hinv.cwd rfl rfl
  | mkdirAll p perm => exact hinv.of_same hwf hg hinv.cwd rfl rfl
  | openFile p flag perm => exact hinv.openReg p flag perm
  | create p => exact hinv.openReg p _ _
  | remove p => exact hinv.of_same hwf hg hinv.cwd rfl rfl
  | removeAll p => exact hinv.of_same hwf hg hinv.cwd rfl rfl
  | rename o n => exact hinv.of_same hwf hg hinv.cwd rfl rfl
  | link o n => exact hinv.of_same hwf hg hinv.cwd rfl rfl
  | symlink _ _ => exact hinv
  | truncate p sz => exact hinv.of_same hwf hg hinv.cwd rfl rfl
  | chmod p m => exact hinv.of_same hwf hg hinv.cwd rfl rfl
  | chown p u g => exact hinv.of_same hwf hg hinv.cwd rfl rfl
  | lchown p u g => exact hinv.of_same hwf hg hinv.cwd rfl rfl
  | chtimes p t => exact hinv.of_same hwf hg hinv.cwd rfl rfl
  | chdir p => exact hinv.of_same hwf hg (chdir_rooted _ hinv.cwd p) rfl rfl
  | stat p => exact hinv
  | lstat p => exact hinv
  | readDir p => exact hinv
  | readFile p => exact hinv
  | readlink _ => exact hinv
  | evalSymlinks _ => exact hinv
  | getwd => exact hinv
  | writeFile p data perm =>
    simp only [step] at hwf hg ⊢
    split
    · exact hinv
    · next s1 e heq =>
      rw [heq] at hwf hg
      exact hinv.of_same hwf hg hinv.cwd rfl rfl
    · next s1 hd heq =>
      rw [heq] at hwf hg
      exact hinv.of_same hwf hg hinv.cwd rfl rfl
  | mkdirTemp dir pat rnd =>
    simp only [step] at hwf hg ⊢
    split
    · exact hinv
    · next pre suf _ =>
      split
      · next s1 _ heq =>
        have h1 := OWF_mkdir hinv.wf st.view (joinPath (if dir.isEmpty then tempDir else dir) pre ++ rnd ++ suf) 0o700
        have h2 := grows_mkdir st.store st.view (joinPath (if dir.isEmpty then tempDir else dir) pre ++ rnd ++ suf) 0o700
        rw [heq] at h1 h2
        exact hinv.of_same h1 h2 hinv.cwd rfl rfl
      · exact hinv
  | createTemp dir pat rnd =>
    simp only [step]
    split
    · exact hinv
    · exact hinv.openReg _ _ _
  | sub _ => exact hinv
  | setUser uid gid _ => exact hinv.of_same hwf hg hinv.cwd rfl rfl
  | setUMask m => exact hinv.of_same hwf hg hinv.cwd rfl rfl
  | file hid op =>
    simp only [step] at hwf hg ⊢
    split
    · exact hinv
    · next hd hl =>
      rw [hl] at hwf hg
      obtain ⟨ap, hap, hapr⟩ := hinv.habs hid hd hl
      have hk := hinv.hnd hid hd hl
      refine { wf := hwf, cwd := ?_, hnd := ?_, habs := ?_ }
      · dsimp only
        rw [hap]
        exact fileStep_cwd _ hinv.cwd hd hapr op
      · intro hid' h' hl'
        dsimp only at hl' ⊢
        simp only [AL.lookup_insert] at hl'
        split at hl'
        · cases hl'
          exact fileStep_handleOK _ hk _ _
        · next e =>
          rw [AL.lookup_erase_ne _ e] at hl'
          exact (hinv.hnd hid' h' hl').mono hg
      · intro hid' h' hl'
        dsimp only at hl' ⊢
        simp only [AL.lookup_insert] at hl'
        split at hl'
        · next e => subst e; exact ⟨ap, hap, hapr⟩
        · next e =>
          rw [AL.lookup_erase_ne _ e] at hl'
          exact hinv.habs hid' h' hl'

/-- the state `New` builds -/
theorem OInv_init (uid gid : Int) : OInv (initState uid gid) := by
  have base : OInv { store := baseStore, view := { cwd := [SL], uid := uid, gid := gid, umask := 0 },
                     handles := [], habs := [], nextHandle := 0 } :=
    { wf := OWF_base
      cwd := ⟨[], rfl⟩
      hnd := fun _ _ hl => by simp at hl
      habs := fun _ _ hl => by simp at hl }
  exact OInv_step (OInv_step (OInv_step (OInv_step (OInv_step (OInv_step (OInv_step base _) _) _) _) _) _) _

theorem OInv_reachable {uid gid : Int} {st : OState} (hr : Reachable uid gid st) : OInv st := by
  induction hr with
  | init => exact OInv_init uid gid
  | step c _ ih => exact OInv_step ih c

/-- no call of any history from `New` panics or hangs -/
theorem reachable_np {uid gid : Int} {st : OState} (hr : Reachable uid gid st) (c : Call) : NoPH (step st c).2 :=
  step_np (OInv_reachable hr) c

/-! ### whole histories -/

/-- the outcomes of a history of calls -/
def outcomes (st : OState) : List Call → List Out
  | [] => []
  | c :: cs => (step st c).2 :: outcomes (step st c).1 cs

/-- the state after a history of calls -/
def runCalls (st : OState) : List Call → OState
  | [] => st
  | c :: cs => runCalls (step st c).1 cs

theorem outcomes_np {st : OState} (hinv : OInv st) (cs : List Call) : ∀ o ∈ outcomes st cs, NoPH o := by
  induction cs generalizing st with
  | nil => intro o ho; simp [outcomes] at ho
  | cons c cs ih =>
    intro o ho
    simp only [outcomes, List.mem_cons] at ho
    rcases ho with rfl | ho
    · exact step_np hinv c
    · exact ih (OInv_step hinv c) o ho

theorem reachable_runCalls (uid gid : Int) (cs : List Call) : Reachable uid gid (runCalls (initState uid gid) cs) := by
  have : ∀ st, Reachable uid gid st → Reachable uid gid (runCalls st cs) := by
    induction cs with
    | nil => intro st h; exact h
    | cons c cs ih => intro st h; exact ih _ (.step c h)
  exact this _ .init

/-! ### the side conditions of the invariant cannot be dropped (kernel-checked witnesses)

  `OWF` alone is not enough: with a current directory that is not rooted Abs returns a path without separator and
  SplitAbs panics; a handle with a negative offset makes Read slice out of range; a handle whose node is not in the heap
  dereferences nil.  None of these states is reachable (`OInv_reachable`). -/

/-- a well-formed store and a view whose current directory is "": Mkdir("x"), RemoveAll("x") and Stat("") panic -/
theorem cwd_needed : OWF baseStore ∧ (mkdir baseStore ⟨[], 0, 0, 0⟩ [120] 0o755).2 = .panic ∧
    (removeAll baseStore ⟨[], 0, 0, 0⟩ [120]).2 = .panic ∧ statO baseStore ⟨[], 0, 0, 0⟩ [] = .panic :=
  ⟨OWF_base, by decide +kernel, by decide +kernel, by decide +kernel⟩

/-- the handle of `exampleState` (on the file /a/f) with its offset set to -1: Read and Write panic -/
theorem pos_needed :
    let h : Handle := { nd := some 6, name := [47, 97, 47, 102], pos := -1, om := 86, dirEntries := none, dirNames := none,
                        dirIndex := 0, view := 0 }
    OWF exampleState.store ∧ (∀ i, h.nd = some i → Alloc exampleState.store i) ∧
    (fileStep exampleState.store exampleState.view h [47, 97, 47, 102] (.read 1)).2.2.2 = .panic ∧
    (fileStep exampleState.store exampleState.view h [47, 97, 47, 102] (.write [1])).2.2.2 = .panic := by
  refine ⟨OWF_step (OWF_step (OWF_step (OWF_initState 0 0) _) _) _, ?_, by decide +kernel, by decide +kernel⟩
  intro i hi
  cases hi
  show (exampleState.store.get 6).isSome = true
  decide +kernel

/-- a handle on a node that is not in the heap: every method that looks at the node panics -/
theorem alloc_needed :
    let h : Handle := { nd := some 99, name := [120], pos := 0, om := 86, dirEntries := none, dirNames := none,
                        dirIndex := 0, view := 0 }
    (fileStep baseStore ⟨[SL], 0, 0, 0⟩ h [SL, 120] .sync).2.2.2 = .panic := by decide +kernel

/-! ### a concrete history: handles on removed files, a tree removed at once -/

theorem exampleState_inv : OInv exampleState := OInv_step (OInv_step (OInv_step (OInv_init 0 0) _) _) _

/-- on `exampleState` (New; MkdirAll /a/b; Create /a/f (handle 0); Link /a/f /a/g): both names of the file are removed,
    the handle still writes, seeks (a negative target is EINVAL), reads; RemoveAll /a removes the tree; the handle is
    closed twice; a handle that was never opened is invalid -/
def exampleHistory : List Call :=
  [ .remove [47, 97, 47, 102], .remove [47, 97, 47, 103],
    .file 0 (.write [1, 2, 3]), .file 0 (.seek (-7) 1), .file 0 (.writeAt [9] (-1)), .file 0 (.seek 0 0),
    .file 0 (.read 1000000), .file 0 (.truncate (-1)), .removeAll [47, 97], .file 0 (.readAt 5 100),
    .file 0 .close, .file 0 .close, .file 7 .sync, .mkdir [] 0, .stat [], .rename [47] [47, 120] ]

theorem exampleHistory_outcomes :
    outcomes exampleState exampleHistory =
      [ .ok .unit, .ok .unit,
        .ok (.num 3 []), .err .EINVAL, .err .negOffset, .ok (.num 0 []),
        .ok (.num 3 [1, 2, 3]), .err .EINVAL, .ok .unit, .errN 0 [] .eof,
        .ok .unit, .err .closed, .err .invalid, .err .ENOENT,
        .ok (.info ⟨[], 0, 0o755, 0, 0, 0, 3, 0, none⟩), .err .EINVAL ] := by decide +kernel

end Avfs.Orefa
