import Avfs.FS.SearchSpec
/-
  Heap algebra for the node store: `get` after `set`/`alloc`/`addChild`, `children`, `child`, `Edge`, `isDirAt`,
  and the behaviour of `linkCount` when one cell of the heap is (re)bound.
-/
namespace Avfs.FS
open Avfs.Path

/-! ### get / set / alloc -/

theorem Store.get_set (s : Store) (i j : Ino) (n : Node) :
    (s.set i n).get j = if i = j then some n else s.get j := by
  simp [Store.get, Store.set, AL.lookup_insert]

theorem Store.get_set_eq (s : Store) (i : Ino) (n : Node) : (s.set i n).get i = some n := by
  simp [Store.get_set]

theorem Store.get_set_ne (s : Store) {i j : Ino} (n : Node) (h : i ≠ j) : (s.set i n).get j = s.get j := by
  simp [Store.get_set, h]

theorem Store.get_alloc (s : Store) (n : Node) (j : Ino) :
    (s.alloc n).1.get j = if s.next = j then some n else s.get j := by
  simp [Store.get, Store.alloc, AL.lookup_insert]

theorem Store.get_of_nodes {s s' : Store} {d : Ino} {nd : Node} (h : s'.nodes = AL.insert d nd s.nodes) (j : Ino) :
    s'.get j = if d = j then some nd else s.get j := by
  simp [Store.get, h, AL.lookup_insert]

theorem Store.children_congr {s s' : Store} {d : Ino} (h : s'.get d = s.get d) : s'.children d = s.children d := by
  simp [Store.children, h]

theorem Store.child_congr {s s' : Store} {d : Ino} (h : s'.get d = s.get d) (n : Bytes) :
    s'.child d n = s.child d n := by
  simp [Store.child, Store.children_congr h]

theorem isDirAt_congr {s s' : Store} {d : Ino} (h : s'.get d = s.get d) : isDirAt s' d = isDirAt s d := by
  simp [isDirAt, h]

theorem Store.children_of_dir {s : Store} {d : Ino} {m : Meta} {ch : List (Bytes × Ino)}
    (h : s.get d = some (.dir m ch)) : s.children d = ch := by
  simp [Store.children, h]

theorem Store.children_of_none {s : Store} {d : Ino} (h : s.get d = none) : s.children d = [] := by
  simp [Store.children, h]

theorem Store.children_of_file {s : Store} {d : Ino} {m : Meta} {dt : Bytes} {nl : Int} {id : Nat}
    (h : s.get d = some (.file m dt nl id)) : s.children d = [] := by
  simp [Store.children, h]

theorem Store.children_of_symlink {s : Store} {d : Ino} {m : Meta} {l : Bytes}
    (h : s.get d = some (.symlink m l)) : s.children d = [] := by
  simp [Store.children, h]

theorem isDirAt_iff {s : Store} {d : Ino} : isDirAt s d = true ↔ ∃ m ch, s.get d = some (.dir m ch) := by
  unfold isDirAt
  split
  · next m ch h => simp [h]
  · next h =>
    constructor
    · intro h'; cases h'
    · rintro ⟨m, ch, h'⟩; exact absurd h' (h m ch)

theorem children_of_not_dir {s : Store} {d : Ino} (h : isDirAt s d = false) : s.children d = [] := by
  unfold isDirAt at h
  unfold Store.children
  split at h
  · cases h
  · next h' =>
    split
    · next m ch h'' => exact absurd h'' (h' m ch)
    · rfl

theorem Edge.isDir {s : Store} {d c : Ino} {n : Bytes} (h : Edge s d n c) : isDirAt s d = true := by
  cases hd : isDirAt s d
  · simp [Edge, Store.child, children_of_not_dir hd] at h
  · rfl

/-! ### association-list keys -/

section AL
variable {κ ν : Type} [DecidableEq κ]

theorem lookup_eq_none_iff {k : κ} {l : List (κ × ν)} : AL.lookup k l = none ↔ k ∉ l.map (·.1) := by
  induction l with
  | nil => simp
  | cons p l ih =>
    obtain ⟨k', v⟩ := p
    by_cases h : k' = k
    · simp [AL.lookup, h]
    · have h' : ¬ k = k' := fun e => h e.symm
      simp [AL.lookup, h, h', ih]

theorem filter_ne_of_not_mem {a : κ} {l : List κ} (h : a ∉ l) : l.filter (fun b => !b == a) = l := by
  apply List.filter_eq_self.mpr
  intro b hb
  have : b ≠ a := fun e => h (e ▸ hb)
  simp [this]

theorem alKeys_insert_of_none {k : κ} {v : ν} {l : List (κ × ν)} (h : AL.lookup k l = none) :
    alKeys (AL.insert k v l) = k :: alKeys l := by
  have h' := lookup_eq_none_iff.mp h
  simp [alKeys, AL.insert, List.eraseDups_cons, filter_ne_of_not_mem h']

theorem mem_alKeys {k : κ} {l : List (κ × ν)} : k ∈ alKeys l ↔ k ∈ l.map (·.1) := by
  simp [alKeys, List.mem_eraseDups]

end AL

/-- sum over the distinct elements of a list, split at one value -/
theorem sum_eraseDups_split (f : Ino → Nat) (d : Ino) : ∀ (k : Nat) (l : List Ino), l.length ≤ k →
    ((l.eraseDups).map f).sum
      = (if d ∈ l then f d else 0) + (((l.filter (fun b => !b == d)).eraseDups).map f).sum := by
  intro k
  induction k with
  | zero =>
    intro l hl
    have : l = [] := List.eq_nil_of_length_eq_zero (by omega)
    subst this; simp
  | succ k ih =>
    intro l hl
    cases l with
    | nil => simp
    | cons a t =>
      rw [List.eraseDups_cons]
      by_cases had : a = d
      · subst had
        simp
      · have hlen : (t.filter (fun b => !b == a)).length ≤ k := by
          have := List.length_filter_le (fun b => !b == a) t
          simp at hl; omega
        have hda : ¬ d = a := fun e => had e.symm
        rw [List.map_cons, List.sum_cons, ih _ hlen]
        simp only [List.filter_cons, hda, List.mem_cons, false_or, List.mem_filter]
        simp [List.eraseDups_cons, List.filter_filter, hda, had]
        have hf : (fun a_1 : Ino => (!a_1 == d && !a_1 == a)) = (fun a_1 => (!a_1 == a && !a_1 == d)) := by
          funext x; exact Bool.and_comm _ _
        rw [hf]; omega

/-! ### link counts -/

/-- number of effective entries of a children list that point at `i` -/
def cnt (ch : List (Bytes × Ino)) (i : Ino) : Nat :=
  ((alKeys ch).filter fun n => AL.lookup n ch == some i).length

theorem linkCount_eq (s : Store) (i : Ino) :
    linkCount s i = (s.inos.map fun d => cnt (s.children d) i).sum := rfl

@[simp] theorem cnt_nil (i : Ino) : cnt [] i = 0 := rfl

theorem cnt_insert {n : Bytes} {c : Ino} {ch : List (Bytes × Ino)} (h : AL.lookup n ch = none) (i : Ino) :
    cnt (AL.insert n c ch) i = (if c = i then 1 else 0) + cnt ch i := by
  unfold cnt
  rw [alKeys_insert_of_none h, List.filter_cons]
  have hn : n ∉ alKeys ch := fun hm => lookup_eq_none_iff.mp h (mem_alKeys.mp hm)
  have htail : (alKeys ch).filter (fun n' => AL.lookup n' (AL.insert n c ch) == some i)
      = (alKeys ch).filter (fun n' => AL.lookup n' ch == some i) := by
    apply List.filter_congr
    intro x hx
    have : n ≠ x := fun e => hn (e ▸ hx)
    simp [AL.lookup_insert_ne _ _ this]
  rw [htail]
  by_cases hc : c = i
  · simp [hc]; omega
  · simp [hc]

theorem cnt_eq_zero {ch : List (Bytes × Ino)} {i : Ino} (h : ∀ n, AL.lookup n ch ≠ some i) : cnt ch i = 0 := by
  unfold cnt
  rw [List.length_eq_zero_iff, List.filter_eq_nil_iff]
  intro n _
  simp [h n]

theorem cnt_pos {ch : List (Bytes × Ino)} {i : Ino} {n : Bytes} (h : AL.lookup n ch = some i) : 0 < cnt ch i := by
  unfold cnt
  apply List.length_pos_of_mem (a := n)
  rw [List.mem_filter]
  refine ⟨mem_alKeys.mpr ?_, by simp [h]⟩
  have := AL.lookup_some_mem h
  exact List.mem_map.mpr ⟨_, this, rfl⟩

/-- rebinding (or binding) one cell `d` changes the link counts only through the entries of `d` -/
theorem linkCount_insert {s s' : Store} {d : Ino} {nd : Node} (h : s'.nodes = AL.insert d nd s.nodes) (i : Ino) :
    linkCount s' i + cnt (s.children d) i = linkCount s i + cnt (s'.children d) i := by
  rw [linkCount_eq, linkCount_eq]
  have h1 : s'.inos = d :: ((s.nodes.map (·.1)).filter (fun b => !b == d)).eraseDups := by
    simp [Store.inos, alKeys, h, AL.insert, List.eraseDups_cons]
  rw [h1, List.map_cons, List.sum_cons]
  have h2 := sum_eraseDups_split (fun d' => cnt (s.children d') i) d _ (s.nodes.map (·.1)) (Nat.le_refl _)
  have h3 : s.inos = (s.nodes.map (·.1)).eraseDups := rfl
  rw [h3, h2]
  have h4 : (((s.nodes.map (·.1)).filter (fun b => !b == d)).eraseDups.map fun d' => cnt (s'.children d') i)
      = (((s.nodes.map (·.1)).filter (fun b => !b == d)).eraseDups.map fun d' => cnt (s.children d') i) := by
    apply List.map_congr_left
    intro x hx
    rw [List.mem_eraseDups, List.mem_filter] at hx
    have hne : d ≠ x := by
      intro e; subst e; simp at hx
    have : s'.get x = s.get x := by rw [Store.get_of_nodes h]; simp [hne]
    rw [Store.children_congr this]
  rw [h4]
  by_cases hd : d ∈ s.nodes.map (·.1)
  · simp only [hd, if_true]; omega
  · have : s.get d = none := lookup_eq_none_iff.mpr hd
    simp only [hd, if_false, Store.children_of_none this, cnt_nil]; omega

theorem linkCount_eq_zero {s : Store} {i : Ino} (h : ∀ d n, ¬ Edge s d n i) : linkCount s i = 0 := by
  rw [linkCount_eq]
  rw [List.sum_eq_zero_iff_forall_eq_nat]
  intro x hx
  rw [List.mem_map] at hx
  obtain ⟨d, _, rfl⟩ := hx
  exact cnt_eq_zero (fun n => h d n)

end Avfs.FS
