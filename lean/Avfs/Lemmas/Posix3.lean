import Avfs.Lemmas.Posix2
import Avfs.Lemmas.WFCreate
import Avfs.Lemmas.WFRemove
import Avfs.Lemmas.Enum
import Avfs.Lemmas.StepClean
import Avfs.Lemmas.Perm
/-
  C01 (continued): ReadDir, readlink(2), lstat(2), symlink(2) (+ readlink / lstat of the new link), utimensat(2)
  (Chtimes), mkdir -p (MkdirAll) and rm -rf (RemoveAll) of MemFS against a POSIX-style reference on clean absolute
  paths without symbolic links on the way — same method as Lemmas/Posix.lean and Lemmas/Posix2.lean: the reference is a
  small function over the component-wise resolution of the path; the theorem `<call>_posix` says that the call of the
  model has the outcome and the effect the reference names.

  For the calls that do not follow a symbolic link in the LAST component (readlink, lstat, symlink, RemoveAll) the
  descent is `walkPathL`: as `walkPath`, but a link as last component is the entry found (section 0); it agrees with
  `walkPath` wherever that one meets no link (`walkPathL_eq_walkPath`).

  Sections: 0 the lstat descent; 1 ReadDir, readlink, lstat; 2 symlink (`symlink_then_readlink`); 3 Chtimes;
  4 MkdirAll (`mkdirAll_posix`: = Mkdir of every prefix in turn; `mkdirAll_cases`: spelled out); 5 RemoveAll
  (`removeAll_posix`; the heap afterwards: `TreeRemoved`).

  Corners where MemFS is not the reference (each stated on its own, with a kernel-checked witness):
  * Symlink stores Clean(target), symlink(2) the string as given (`symlink_target_cleaned`); the empty target, ENOENT
    for symlink(2), is accepted and stored as "." (`symlink_empty_target`);
  * ReadDir on a regular file the caller may not read: EACCES (os.ReadDir: open fails first), where opendir(3)
    (O_DIRECTORY) says ENOTDIR — the reference follows os.ReadDir, no exclusion;
  * MkdirAll (`hcorner` of `mkdirAll_posix`, witness `mkdirAll_corner_unwritable`): when two or more components are
    missing, MemFS checks the permission of the directory holding the first one only and makes the whole chain, even
    when the mode of the new directories (perm &^ umask) does not let their owner write / search them; Mkdir of the
    second missing prefix fails with EACCES in the reference (as os.MkdirAll on Linux);
  * RemoveAll("/") = EINVAL, nothing removed (`removeAll_root`);
  * RemoveAll: the reference states the permission conditions of the MODEL (`TreeWritable`, then the conditions of
    Remove on the entry); where these differ from rm -rf on Linux is recorded, not excluded:
    `removeAll_corner_empty_subdir` (write permission is asked of EMPTY directories inside the tree: EACCES where
    rm -rf, and MemFS's own Remove applied bottom-up, succeed); read / search permission of the directories inside is
    not asked for. (The sticky bit of directories inside the tree used to be ignored — a defect, repaired: entries under
    restricted deletion are refused with EPERM, `TreeUnrestricted`, `removeAll_inner_sticky_refused`.)
  Readlink, Lstat, Chtimes need no exclusion ("/" included for Readlink and Chtimes).
-/
set_option linter.unusedVariables false
set_option linter.unusedSimpArgs false

namespace Avfs.FS
open Avfs.Path

/-! ### 0. the descent that does not follow a link in the last component -/

/-- component-wise descent of lstat(2), readlink(2), symlink(2), unlink(2): as `walkPath`, except that a symbolic link
    as LAST component is the entry found (it is not followed); a link as inner component is still outside -/
def walkPathL (s : Store) (v : View) : Ino → List Bytes → Resolved
  | d, [] => .found d d
  | d, [c] =>
    match s.get d with
    | some (.dir m _) =>
      if !checkPerm m omLookup v then .denied else
      match s.child d c with
      | none => .missingLast d c
      | some i => .found d i
    | _ => .notDir
  | d, c :: c' :: cs =>
    match s.get d with
    | some (.dir m _) =>
      if !checkPerm m omLookup v then .denied else
      match s.child d c with
      | none => .missingDir
      | some i =>
        match s.get i with
        | some (.dir _ _) => walkPathL s v i (c' :: cs)
        | some (.file _ _ _ _) => .notDir
        | some (.symlink _ _) => .viaLink
        | none => .missingDir
    | _ => .notDir

/-- where `walkPath` meets no link, the two descents agree -/
theorem walkPathL_eq_walkPath (s : Store) (v : View) : ∀ (cs : List Bytes) (d : Ino),
    walkPath s v d cs ≠ .viaLink → walkPathL s v d cs = walkPath s v d cs := by
  intro cs
  induction cs with
  | nil => intro d _; rfl
  | cons c rest ih =>
    intro d h
    cases hgd : s.get d with
    | none => cases rest <;> simp [walkPath, walkPathL, hgd]
    | some nd =>
      cases nd with
      | file mf df nl id => cases rest <;> simp [walkPath, walkPathL, hgd]
      | symlink ms lk => cases rest <;> simp [walkPath, walkPathL, hgd]
      | dir m chd =>
        by_cases hden : checkPerm m omLookup v = true
        · cases hch : s.child d c with
          | none => cases rest <;> simp [walkPath, walkPathL, hgd, hden, hch]
          | some i =>
            cases rest with
            | nil =>
              cases hg : s.get i with
              | none => simp [walkPath, walkPathL, hgd, hden, hch, hg]
              | some n =>
                cases n with
                | symlink ms lk => simp [walkPath, hgd, hden, hch, hg] at h
                | dir mi chi => simp [walkPath, walkPathL, hgd, hden, hch, hg]
                | file mf df nl id => simp [walkPath, walkPathL, hgd, hden, hch, hg]
            | cons c2 cs =>
              cases hg : s.get i with
              | none => simp [walkPath, walkPathL, hgd, hden, hch, hg]
              | some n =>
                cases n with
                | symlink ms lk => simp [walkPath, walkPathL, hgd, hden, hch, hg]
                | file mf df nl id => simp [walkPath, walkPathL, hgd, hden, hch, hg]
                | dir mi chi =>
                  have h' : walkPath s v i (c2 :: cs) ≠ .viaLink := by
                    simpa [walkPath, hgd, hden, hch, hg] using h
                  simpa [walkPath, walkPathL, hgd, hden, hch, hg] using ih i h'
        · have hden' : checkPerm m omLookup v = false := by simpa using hden
          cases rest <;> simp [walkPath, walkPathL, hgd, hden']

theorem walkPathL_denied (s : Store) (v : View) (d : Ino) (c : Bytes) (rest : List Bytes) (m : Meta)
    (ch : List (Bytes × Ino)) (hg : s.get d = some (.dir m ch)) (hp : checkPerm m omLookup v = false) :
    walkPathL s v d (c :: rest) = .denied := by
  cases rest <;> simp [walkPathL, hg, hp]

/-- `.found par c` of the lstat descent over a non-empty path: `c` is the entry of `par` under the last component and
    `par` is a directory -/
theorem walkPathL_found {s : Store} {v : View} : ∀ (rest : List Bytes) (c : Bytes) (d par ch : Ino),
    walkPathL s v d (c :: rest) = .found par ch →
    s.child par ((c :: rest).getLast (by simp)) = some ch ∧ isDirAt s par = true := by
  intro rest
  induction rest with
  | nil =>
    intro c d par ch h
    simp only [walkPathL] at h
    split at h
    · rename_i m chd hgd
      split at h
      · cases h
      · split at h
        · cases h
        · rename_i i hch
          cases h
          exact ⟨by simpa using hch, isDirAt_of_get hgd⟩
    · cases h
  | cons c2 cs ih =>
    intro c d par ch h
    simp only [walkPathL] at h
    split at h
    · split at h
      · cases h
      · split at h
        · cases h
        · rename_i i hch
          split at h
          · rw [List.getLast_cons_cons]
            exact ih c2 i par ch h
          · cases h
          · cases h
          · cases h
    · cases h

theorem walkPathL_missingLast {s : Store} {v : View} : ∀ (rest : List Bytes) (c : Bytes) (d par : Ino) (n : Bytes),
    walkPathL s v d (c :: rest) = .missingLast par n →
    n = (c :: rest).getLast (by simp) ∧ s.child par n = none ∧ isDirAt s par = true := by
  intro rest
  induction rest with
  | nil =>
    intro c d par n h
    simp only [walkPathL] at h
    split at h
    · rename_i m chd hgd
      split at h
      · cases h
      · split at h
        · rename_i hch
          cases h
          exact ⟨by simp, hch, isDirAt_of_get hgd⟩
        · cases h
    · cases h
  | cons c2 cs ih =>
    intro c d par n h
    simp only [walkPathL] at h
    split at h
    · split at h
      · cases h
      · split at h
        · cases h
        · rename_i i hch
          split at h
          · rw [List.getLast_cons_cons]
            exact ih c2 i par n h
          · cases h
          · cases h
          · cases h
    · cases h

/-- everything the callers of `searchNode … .lstat` use, for a path with at least one component (the walk part) -/
def LFacts (w : Resolved) (last p : Bytes) (r : SR) : Prop :=
  match w with
  | .found par c => r.err = .exists ∧ r.child = some c ∧ r.parent = par ∧ partOf r.pi = last ∧
      r.pi.isLast = true ∧ r.pi.path = p
  | .missingLast par _ => r.err = .noent ∧ r.child = none ∧ r.parent = par ∧ partOf r.pi = last ∧
      r.pi.isLast = true ∧ r.pi.path = p
  | .missingDir => r.err = .noent ∧ r.pi.isLast = false
  | .notDir => r.err = .notdir
  | .denied => r.err = .acces
  | .viaLink => True

/-- the loop of `searchNode` in mode `slmLstat` against the lstat descent -/
theorem loop_factsL_gen {s : Store} {root : Ino} {v : View} (hwf : WF s root) :
    ∀ (rest : List Bytes) (c : Bytes) (fuel : Nat) (d : Ino) (it : Iter) (pre : Bytes) (sl : Nat),
      (∀ x ∈ c :: rest, x ≠ [] ∧ ∀ y ∈ x, y ≠ SL) →
      it.path = pre ++ joinWith SL (c :: rest) → it.stop1 = pre.length → fuel ≥ rest.length + 1 →
      isDirAt s d = true → sl + 1 ≤ slCountMax →
      (d ≠ v.root → ∀ md ch, s.get d = some (.dir md ch) → checkPerm md omLookup v = true) →
      LFacts (walkPathL s v d (c :: rest)) ((c :: rest).getLast (by simp)) it.path
        (searchLoop s v .lstat v.root fuel d it sl none) := by
  intro rest
  induction rest with
  | nil =>
    intro c fuel d it pre sl hall hp hst hf hdir hsl hperm
    obtain ⟨fuel, rfl⟩ : ∃ k, fuel = k + 1 := ⟨fuel - 1, by simp at hf; omega⟩
    have hc := hall c (by simp)
    obtain ⟨it1, hnext, hpart, hl, _⟩ := next_comp it pre c [] hp hst hc.1 hc.2
    have hl := hl rfl
    have hpath : it1.path = it.path := by
      have := px2_next_path it
      rw [hnext] at this
      exact this
    have hsl' : ¬ (sl + 1 > slCountMax) := by omega
    obtain ⟨md, chd, hgd⟩ := get_of_isDirAt hdir
    rw [searchLoop]
    by_cases hden : checkPerm md omLookup v = true
    · cases hch : s.child d c with
      | none => simp [walkPathL, hnext, hpart, hgd, hden, hch, LFacts, partOf, hl, hpath]
      | some i =>
        have halloc := hwf.alloc d c i hch
        cases hg : s.get i with
        | none => simp [hg] at halloc
        | some n =>
          cases n <;> simp [walkPathL, hnext, hpart, hgd, hden, hch, hg, LFacts, partOf, hl, hpath, hsl']
    · have hden' : checkPerm md omLookup v = false := by simpa using hden
      have hdr : d = v.root := Classical.byContradiction fun h => hden (hperm h md chd hgd)
      subst hdr
      simp [walkPathL, hnext, hpart, hgd, hden', LFacts]
  | cons c2 cs ih =>
    intro c fuel d it pre sl hall hp hst hf hdir hsl hperm
    obtain ⟨fuel, rfl⟩ : ∃ k, fuel = k + 1 := ⟨fuel - 1, by simp at hf; omega⟩
    have hc := hall c (by simp)
    obtain ⟨it1, hnext, hpart, _, hl⟩ := next_comp it pre c (c2 :: cs) hp hst hc.1 hc.2
    obtain ⟨hl, hp1, hsp1⟩ := hl (by simp)
    have hpath : it1.path = it.path := by
      have := px2_next_path it
      rw [hnext] at this
      exact this
    obtain ⟨md, chd, hgd⟩ := get_of_isDirAt hdir
    rw [searchLoop]
    by_cases hden : checkPerm md omLookup v = true
    · cases hch : s.child d c with
      | none => simp [walkPathL, hnext, hpart, hgd, hden, hch, LFacts, hl]
      | some i =>
        have halloc := hwf.alloc d c i hch
        cases hg : s.get i with
        | none => simp [hg] at halloc
        | some n =>
          cases n with
          | dir mi chi =>
            by_cases hpi : checkPerm mi omLookup v = true
            · have hrec := ih c2 fuel i it1 (pre ++ c ++ [SL]) sl (fun x hx => hall x (by simp at hx ⊢; exact Or.inr hx))
                hp1 hsp1 (by simp at hf ⊢; omega) (isDirAt_of_get hg) hsl
                (fun _ md' ch' hg' => by rw [hg] at hg'; cases hg'; exact hpi)
              have hw : walkPathL s v d (c :: c2 :: cs) = walkPathL s v i (c2 :: cs) := by
                simp [walkPathL, hgd, hden, hch, hg]
              rw [hw, List.getLast_cons_cons, ← hpath]
              simpa [hnext, hpart, hgd, hden, hch, hg, hl, hpi] using hrec
            · have hpi' : checkPerm mi omLookup v = false := by simpa using hpi
              have hw : walkPathL s v d (c :: c2 :: cs) = .denied := by
                simp only [walkPathL, hgd, hden, hch, hg]
                simpa using walkPathL_denied s v i c2 cs mi chi hg hpi'
              rw [hw]
              simp [hnext, hpart, hgd, hden, hch, hg, hl, hpi', LFacts]
          | file mf df nl id => simp [walkPathL, hnext, hpart, hgd, hden, hch, hg, LFacts, hl]
          | symlink ms lk => simp [walkPathL, hgd, hden, hch, hg, LFacts]
    · have hden' : checkPerm md omLookup v = false := by simpa using hden
      have hdr : d = v.root := Classical.byContradiction fun h => hden (hperm h md chd hgd)
      subst hdr
      simp [walkPathL, hnext, hpart, hgd, hden', LFacts]

/-- the walk of `searchNode … .lstat` with the facts about the store the lstat descent implies -/
def WalkFactsL (s : Store) (w : Resolved) (last p : Bytes) (r : SR) : Prop :=
  match w with
  | .found par c => r.err = .exists ∧ r.child = some c ∧ r.parent = par ∧ partOf r.pi = last ∧
      r.pi.isLast = true ∧ r.pi.path = p ∧ s.child par last = some c ∧ isDirAt s par = true ∧
      (s.get c).isSome = true
  | .missingLast par name => r.err = .noent ∧ r.child = none ∧ r.parent = par ∧ partOf r.pi = last ∧
      r.pi.isLast = true ∧ r.pi.path = p ∧ name = last ∧ s.child par last = none ∧ isDirAt s par = true
  | .missingDir => r.err = .noent ∧ r.pi.isLast = false
  | .notDir => r.err = .notdir
  | .denied => r.err = .acces
  | .viaLink => True

theorem searchNode_factsL (s : Store) (root : Ino) (v : View) (hwf : WF s root)
    (hvr : ∃ m ch, s.get v.root = some (.dir m ch)) (cs : List Bytes) (hne : cs ≠ [])
    (hall : ∀ c ∈ cs, c ≠ [] ∧ ∀ x ∈ c, x ≠ SL) (hdots : ∀ c ∈ cs, c ≠ [DOT] ∧ c ≠ [DOT, DOT]) :
    WalkFactsL s (walkPathL s v v.root cs) (cs.getLast hne) (SL :: joinWith SL cs)
      (searchNode s v (SL :: joinWith SL cs) .lstat) := by
  have h : LFacts (walkPathL s v v.root cs) (cs.getLast hne) (SL :: joinWith SL cs)
      (searchNode s v (SL :: joinWith SL cs) .lstat) := by
    unfold searchNode
    simp only [abs_joined cs v.cwd hall hdots]
    have hfuel := searchFuel_ge s (SL :: joinWith SL cs)
    cases cs with
    | nil => exact absurd rfl hne
    | cons c cs =>
      obtain ⟨mr, chr, hgr⟩ := hvr
      refine loop_factsL_gen hwf cs c (searchFuel s (SL :: joinWith SL (c :: cs))) v.root
        (Iter.new .linux (SL :: joinWith SL (c :: cs))) [SL] 0 hall rfl rfl ?_ (isDirAt_of_get hgr) (by decide)
        (fun h => absurd rfl h)
      have := length_joinWith_ge SL (c :: cs) (fun x hx => (hall x hx).1)
      simp only [List.length_cons] at this hfuel ⊢
      omega
  obtain ⟨c0, rest, rfl⟩ : ∃ c0 rest, cs = c0 :: rest := by
    cases cs with
    | nil => exact absurd rfl hne
    | cons a b => exact ⟨a, b, rfl⟩
  cases hw : walkPathL s v v.root (c0 :: rest) with
  | found par c =>
    simp only [hw, LFacts] at h
    obtain ⟨hedge, hpd⟩ := walkPathL_found rest c0 v.root par c hw
    obtain ⟨h1, h2, h3, h4, h5, h6⟩ := h
    exact ⟨h1, h2, h3, h4, h5, h6, hedge, hpd, hwf.alloc par _ c hedge⟩
  | missingLast par name =>
    simp only [hw, LFacts] at h
    obtain ⟨hname, hnone, hpd⟩ := walkPathL_missingLast rest c0 v.root par name hw
    obtain ⟨h1, h2, h3, h4, h5, h6⟩ := h
    exact ⟨h1, h2, h3, h4, h5, h6, hname, hname ▸ hnone, hpd⟩
  | missingDir =>
    simp only [hw, LFacts] at h
    exact h
  | notDir =>
    simp only [hw, LFacts] at h
    exact h
  | denied =>
    simp only [hw, LFacts] at h
    exact h
  | viaLink => trivial

/-! ### 1. ReadDir and readlink(2) -/

/-- the listing of directory `d`: one `Info` (lstat) per entry, in the byte order of the names -/
def dirListing (s : Store) (d : Ino) : List Info :=
  (s.names d).filterMap fun nm => (s.child d nm).bind fun c => fillStat s c nm

/-- on a well-formed heap the listing has exactly one entry per name, under that name, in sorted order -/
theorem dirListing_names {s : Store} {root : Ino} (hwf : WF s root) (d : Ino) :
    (dirListing s d).map (·.name) = s.names d ∧ (s.names d).Pairwise (fun a b => bytesLt a b = true) ∧
    ∀ i ∈ dirListing s d, ∃ c, s.child d i.name = some c ∧ fillStat s c i.name = some i := by
  refine ⟨?_, names_sorted s d, ?_⟩
  · unfold dirListing
    rw [filterMap_map_name]
    apply List.filter_eq_self.mpr
    intro n hn
    have hc := (mem_names s d n).mp hn
    cases hch : s.child d n with
    | none => simp [hch] at hc
    | some c =>
      obtain ⟨i, hi⟩ := px_fillStat_some s c n (hwf.alloc d n c hch)
      simp [hi]
  · intro i hi
    unfold dirListing at hi
    rw [List.mem_filterMap] at hi
    obtain ⟨n, _, hf⟩ := hi
    cases hc : s.child d n with
    | none => simp [hc] at hf
    | some c =>
      simp [hc] at hf
      have hn := fillStat_name hf
      subst hn
      exact ⟨c, hc, hf⟩

inductive ReadDirRef
  | fail (e : Err)
  | entries (l : List Info)
  | outside
  deriving DecidableEq, Repr

/-- os.ReadDir = open(2) read-only, then getdents: the path must resolve; the node must be readable by the caller
    (EACCES, from open); it must be a directory (ENOTDIR, from getdents); the result is the sorted listing.
    (opendir(3), which opens with O_DIRECTORY, says ENOTDIR for an unreadable regular file; os.ReadDir, as MemFS,
    EACCES: the reference follows os.ReadDir.) -/
def posixReadDir (s : Store) (v : View) : Resolved → ReadDirRef
  | .found _ c =>
    match s.get c with
    | some (.dir m _) => if !checkPerm m omRead v then .fail .EACCES else .entries (dirListing s c)
    | some (.file m _ _ _) => if !checkPerm m omRead v then .fail .EACCES else .fail .ENOTDIR
    | _ => .outside
  | .missingLast _ _ => .fail .ENOENT
  | .missingDir => .fail .ENOENT
  | .notDir => .fail .ENOTDIR
  | .denied => .fail .EACCES
  | .viaLink => .outside

/-- GENERAL form (view rooted at any directory `v.root`); "/" included (`cs = []`) -/
theorem readDir_posix_gen (s : Store) (root : Ino) (v : View) (hwf : WF s root)
    (hvr : ∃ m ch, s.get v.root = some (.dir m ch)) (cs : List Bytes)
    (hall : ∀ c ∈ cs, c ≠ [] ∧ ∀ x ∈ c, x ≠ SL) (hdots : ∀ c ∈ cs, c ≠ [DOT] ∧ c ≠ [DOT, DOT]) (vid : Nat) :
    match posixReadDir s v (walkPath s v v.root cs) with
    | .fail e => readDir s v vid (SL :: joinWith SL cs) = .err e
    | .entries l => readDir s v vid (SL :: joinWith SL cs) = .ok (.infos l)
    | .outside => True := by
  have hom : toOpenMode 0 = omRead := by decide
  -- what open(2) read-only does, for "/" and for a path with components
  have ho : match posixOpen s v omRead (walkPath s v v.root cs) with
      | .fail e => openFile s v vid (SL :: joinWith SL cs) 0 0 = (s, .error e)
      | .create par name => False
      | .opened c tr => openFile s v vid (SL :: joinWith SL cs) 0 0 =
          (s, .ok (handleOn c (SL :: joinWith SL cs) omRead vid))
      | .outside => True := by
    cases cs with
    | nil =>
      have h := open_root s v hvr vid 0 0
      rw [hom] at h
      simp only [walkPath, joinWith]
      split <;> rename_i hr <;> simp only [hr] at h <;> first | exact h | trivial
    | cons c0 rest =>
      have h := open_posix_gen s root v hwf hvr (c0 :: rest) (by simp) hall hdots vid 0 0
      rw [hom] at h
      split <;> rename_i hr <;> simp only [hr] at h
      · exact h
      · -- no creation without O_CREAT
        exfalso
        cases hw : walkPath s v v.root (c0 :: rest) <;> simp only [hw, posixOpen] at hr
        · split at hr
          · cases hr
          · split at hr
            · split at hr
              · cases hr
              · split at hr <;> cases hr
            · split at hr <;> cases hr
            · cases hr
        · simp [omRead, omCreate] at hr
        all_goals cases hr
      · -- no truncation without O_TRUNC
        rename_i c tr
        have htr : tr = false := by
          cases hw : walkPath s v v.root (c0 :: rest) <;> simp only [hw, posixOpen] at hr
          · split at hr
            · cases hr
            · split at hr
              · split at hr
                · cases hr
                · split at hr
                  · cases hr
                  · cases hr; rfl
              · split at hr
                · cases hr
                · cases hr; decide
              · cases hr
          · split at hr
            · cases hr
            · split at hr <;> cases hr
          all_goals cases hr
        subst htr
        simpa using h
      · trivial
  cases hw : walkPath s v v.root cs with
  | found par c =>
    obtain ⟨halloc, hns⟩ := walkPath_found_node hwf hvr cs par c hw
    simp only [hw, posixOpen] at ho
    simp only [posixReadDir]
    simp only [omRead] at ho ⊢
    cases hg : s.get c with
    | none => simp [hg] at halloc
    | some n =>
      cases n with
      | symlink ms lk => exact absurd hg (hns ms lk)
      | dir md chd =>
        simp only [hg] at ho
        by_cases hp : checkPerm md 4 v = true
        · simp [hp, omRead, omCreate, omExcl, omWrite] at ho
          simp [hp, readDir, ho, fileStep, handleOn, hg, dirEntriesOf_getD, dirListing]
        · simp [hp, omRead, omCreate, omExcl, omWrite] at ho
          simp [hp, readDir, ho]
      | file mf df nl id =>
        simp only [hg] at ho
        by_cases hp : checkPerm mf 4 v = true
        · simp [hp, omRead, omCreate, omExcl, omWrite, omTrunc] at ho
          simp [hp, readDir, ho, fileStep, handleOn, hg]
        · simp [hp, omRead, omCreate, omExcl, omWrite] at ho
          simp [hp, readDir, ho]
  | missingLast par name =>
    simp only [hw, posixOpen] at ho
    simp [omRead, omCreate] at ho
    simp [posixReadDir, readDir, ho]
  | missingDir =>
    simp only [hw, posixOpen] at ho
    simp [posixReadDir, readDir, ho]
  | notDir =>
    simp only [hw, posixOpen] at ho
    simp [posixReadDir, readDir, ho]
  | denied =>
    simp only [hw, posixOpen] at ho
    simp [posixReadDir, readDir, ho]
  | viaLink => simp [posixReadDir]

/-- ReadDir of MemFS is the reference: the error of the resolution; EACCES when the caller may not read the node;
    ENOTDIR on a regular file; otherwise the sorted listing of the directory, one `lstat` record per entry
    (`dirListing_names`). The state does not change (`readDir` returns no store). "/" is included. -/
theorem readDir_posix (s : Store) (root : Ino) (v : View) (hwf : WF s root) (hn : NamesOK s) (hv : ViewOK s v)
    (hroot : v.root = root) (cs : List Bytes) (hall : ∀ c ∈ cs, c ≠ [] ∧ ∀ x ∈ c, x ≠ SL)
    (hdots : ∀ c ∈ cs, c ≠ [DOT] ∧ c ≠ [DOT, DOT]) (vid : Nat) :
    match posixReadDir s v (walkPath s v root cs) with
    | .fail e => readDir s v vid (SL :: joinWith SL cs) = .err e
    | .entries l => readDir s v vid (SL :: joinWith SL cs) = .ok (.infos l)
    | .outside => True := by
  subst hroot
  exact readDir_posix_gen s v.root v hwf (get_of_isDirAt hwf.rootDir) cs hall hdots vid

inductive ReadlinkRef
  | fail (e : Err)
  | target (l : Bytes)
  | outside
  deriving DecidableEq, Repr

/-- readlink(2): the path is resolved without following a link in the last component; the entry must be a symbolic
    link (EINVAL otherwise); the result is the stored target -/
def posixReadlink (s : Store) : Resolved → ReadlinkRef
  | .found _ c =>
    match s.get c with
    | some (.symlink _ l) => .target l
    | some _ => .fail .EINVAL
    | none => .outside
  | .missingLast _ _ => .fail .ENOENT
  | .missingDir => .fail .ENOENT
  | .notDir => .fail .ENOTDIR
  | .denied => .fail .EACCES
  | .viaLink => .outside

/-- GENERAL form (view rooted at any directory); "/" included (`cs = []`: EINVAL) -/
theorem readlink_posix_gen (s : Store) (root : Ino) (v : View) (hwf : WF s root)
    (hvr : ∃ m ch, s.get v.root = some (.dir m ch)) (cs : List Bytes)
    (hall : ∀ c ∈ cs, c ≠ [] ∧ ∀ x ∈ c, x ≠ SL) (hdots : ∀ c ∈ cs, c ≠ [DOT] ∧ c ≠ [DOT, DOT]) :
    match posixReadlink s (walkPathL s v v.root cs) with
    | .fail e => readlink s v (SL :: joinWith SL cs) = (s, .err e)
    | .target l => readlink s v (SL :: joinWith SL cs) = (s, .ok (.bytes l))
    | .outside => True := by
  cases cs with
  | nil =>
    obtain ⟨he, hc, _, _⟩ := searchNode_root s v .lstat
    obtain ⟨m, ch, hg⟩ := hvr
    simp [walkPathL, posixReadlink, joinWith, readlink, he, hc, hg]
  | cons c0 rest =>
    have hf := searchNode_factsL s root v hwf hvr (c0 :: rest) (by simp) hall hdots
    cases hw : walkPathL s v v.root (c0 :: rest) with
    | found par c =>
      simp only [hw, WalkFactsL] at hf
      obtain ⟨he, hc, _, _, _, _, _, _, halloc⟩ := hf
      simp only [posixReadlink]
      cases hg : s.get c with
      | none => simp [hg] at halloc
      | some n => cases n <;> simp [readlink, he, hc, hg]
    | missingLast par name =>
      simp only [hw, WalkFactsL] at hf
      simp [posixReadlink, readlink, hf.1, SErr.toErr]
    | missingDir =>
      simp only [hw, WalkFactsL] at hf
      simp [posixReadlink, readlink, hf.1, SErr.toErr]
    | notDir =>
      simp only [hw, WalkFactsL] at hf
      simp [posixReadlink, readlink, hf, SErr.toErr]
    | denied =>
      simp only [hw, WalkFactsL] at hf
      simp [posixReadlink, readlink, hf, SErr.toErr]
    | viaLink => simp [posixReadlink]

/-- Readlink of MemFS is readlink(2) of the reference: the error of the resolution (no link followed in the last
    component), EINVAL for an entry that is no symbolic link ("/" included), else the stored target; the state does not
    change. On a path without any link (`walkPath`, as in the other theorems) the answer is therefore EINVAL whenever the
    path resolves: `readlink_linkfree`. -/
theorem readlink_posix (s : Store) (root : Ino) (v : View) (hwf : WF s root) (hn : NamesOK s) (hv : ViewOK s v)
    (hroot : v.root = root) (cs : List Bytes) (hall : ∀ c ∈ cs, c ≠ [] ∧ ∀ x ∈ c, x ≠ SL)
    (hdots : ∀ c ∈ cs, c ≠ [DOT] ∧ c ≠ [DOT, DOT]) :
    match posixReadlink s (walkPathL s v root cs) with
    | .fail e => readlink s v (SL :: joinWith SL cs) = (s, .err e)
    | .target l => readlink s v (SL :: joinWith SL cs) = (s, .ok (.bytes l))
    | .outside => True := by
  subst hroot
  exact readlink_posix_gen s v.root v hwf (get_of_isDirAt hwf.rootDir) cs hall hdots

/-- readlink(2) on a link-free path that resolves: EINVAL -/
theorem readlink_linkfree (s : Store) (root : Ino) (v : View) (hwf : WF s root) (hn : NamesOK s) (hv : ViewOK s v)
    (hroot : v.root = root) (cs : List Bytes) (hall : ∀ c ∈ cs, c ≠ [] ∧ ∀ x ∈ c, x ≠ SL)
    (hdots : ∀ c ∈ cs, c ≠ [DOT] ∧ c ≠ [DOT, DOT]) (par c : Ino) (hw : walkPath s v root cs = .found par c) :
    readlink s v (SL :: joinWith SL cs) = (s, .err .EINVAL) := by
  subst hroot
  have h := readlink_posix_gen s v.root v hwf (get_of_isDirAt hwf.rootDir) cs hall hdots
  obtain ⟨halloc, hns⟩ := walkPath_found_node hwf (get_of_isDirAt hwf.rootDir) cs par c hw
  rw [walkPathL_eq_walkPath s v cs v.root (by rw [hw]; simp), hw] at h
  simp only [posixReadlink] at h
  cases hg : s.get c with
  | none => simp [hg] at halloc
  | some n =>
    cases n with
    | symlink ms lk => exact absurd hg (hns ms lk)
    | dir md chd => simpa [hg] using h
    | file mf df nl id => simpa [hg] using h

/-- lstat(2): as `stat_posix`, over the lstat descent: a symbolic link as last component is the node described -/
theorem lstat_posix_gen (s : Store) (root : Ino) (v : View) (hwf : WF s root)
    (hvr : ∃ m ch, s.get v.root = some (.dir m ch)) (cs : List Bytes) (hne : cs ≠ [])
    (hall : ∀ c ∈ cs, c ≠ [] ∧ ∀ x ∈ c, x ≠ SL) (hdots : ∀ c ∈ cs, c ≠ [DOT] ∧ c ≠ [DOT, DOT]) :
    (stat s v (SL :: joinWith SL cs) .lstat).1 = s ∧
    match walkPathL s v v.root cs with
    | .found _ c => ∃ i, fillStat s c (cs.getLast hne) = some i ∧
        (stat s v (SL :: joinWith SL cs) .lstat).2 = .ok (.info i)
    | .missingLast _ _ => (stat s v (SL :: joinWith SL cs) .lstat).2 = .err .ENOENT
    | .missingDir => (stat s v (SL :: joinWith SL cs) .lstat).2 = .err .ENOENT
    | .notDir => (stat s v (SL :: joinWith SL cs) .lstat).2 = .err .ENOTDIR
    | .denied => (stat s v (SL :: joinWith SL cs) .lstat).2 = .err .EACCES
    | .viaLink => True := by
  refine ⟨px_stat_store s v _ .lstat, ?_⟩
  have hf := searchNode_factsL s root v hwf hvr cs hne hall hdots
  cases hw : walkPathL s v v.root cs with
  | found par c =>
    simp only [hw, WalkFactsL] at hf
    obtain ⟨he, hc, _, hp, _, _, _, _, halloc⟩ := hf
    obtain ⟨i, hi⟩ := px_fillStat_some s c (cs.getLast hne) halloc
    exact ⟨i, hi, by simp [stat, he, hc, hp, hi]⟩
  | missingLast par name =>
    simp only [hw, WalkFactsL] at hf
    simp [stat, hf.1, hf.2.1, SErr.toErr]
  | missingDir =>
    simp only [hw, WalkFactsL] at hf
    simp [stat, hf.1, SErr.toErr]
  | notDir =>
    simp only [hw, WalkFactsL] at hf
    simp [stat, hf, SErr.toErr]
  | denied =>
    simp only [hw, WalkFactsL] at hf
    simp [stat, hf, SErr.toErr]
  | viaLink => trivial

theorem lstat_posix (s : Store) (root : Ino) (v : View) (hwf : WF s root) (hn : NamesOK s) (hv : ViewOK s v)
    (hroot : v.root = root) (cs : List Bytes) (hne : cs ≠ []) (hall : ∀ c ∈ cs, c ≠ [] ∧ ∀ x ∈ c, x ≠ SL)
    (hdots : ∀ c ∈ cs, c ≠ [DOT] ∧ c ≠ [DOT, DOT]) :
    (stat s v (SL :: joinWith SL cs) .lstat).1 = s ∧
    match walkPathL s v root cs with
    | .found _ c => ∃ i, fillStat s c (cs.getLast hne) = some i ∧
        (stat s v (SL :: joinWith SL cs) .lstat).2 = .ok (.info i)
    | .missingLast _ _ => (stat s v (SL :: joinWith SL cs) .lstat).2 = .err .ENOENT
    | .missingDir => (stat s v (SL :: joinWith SL cs) .lstat).2 = .err .ENOENT
    | .notDir => (stat s v (SL :: joinWith SL cs) .lstat).2 = .err .ENOTDIR
    | .denied => (stat s v (SL :: joinWith SL cs) .lstat).2 = .err .EACCES
    | .viaLink => True := by
  subst hroot
  exact lstat_posix_gen s v.root v hwf (get_of_isDirAt hwf.rootDir) cs hne hall hdots

/-! ### 2. symlink(2) -/

inductive SymlinkRef
  | fail (e : Err)
  | create (parent : Ino) (name : Bytes)     -- a new symbolic link `name` in `parent`
  | outside
  deriving DecidableEq, Repr

/-- symlink(2): the new path is resolved without following a link in its last component; an existing entry (a link
    included) is EEXIST; the directory must be writable by the caller (its search permission was used by the
    resolution); the target is not looked at -/
def posixSymlink (s : Store) (v : View) : Resolved → SymlinkRef
  | .found _ _ => .fail .EEXIST
  | .missingLast par name => if dirPerm s par omWrite v then .create par name else .fail .EACCES
  | .missingDir => .fail .ENOENT
  | .notDir => .fail .ENOTDIR
  | .denied => .fail .EACCES
  | .viaLink => .outside

theorem symlink_posix_gen (s : Store) (root : Ino) (v : View) (hwf : WF s root)
    (hvr : ∃ m ch, s.get v.root = some (.dir m ch)) (cs : List Bytes) (hne : cs ≠ [])
    (hall : ∀ c ∈ cs, c ≠ [] ∧ ∀ x ∈ c, x ≠ SL) (hdots : ∀ c ∈ cs, c ≠ [DOT] ∧ c ≠ [DOT, DOT]) (old : Bytes) :
    match posixSymlink s v (walkPathL s v v.root cs) with
    | .fail e => symlink s v old (SL :: joinWith SL cs) = (s, .err e)
    | .create par name => name = cs.getLast hne ∧
        symlink s v old (SL :: joinWith SL cs) = ((createSymlink s v par name (clean .linux old)).1, .ok .unit)
    | .outside => True := by
  have hf := searchNode_factsL s root v hwf hvr cs hne hall hdots
  cases hw : walkPathL s v v.root cs with
  | found par c =>
    simp only [hw, WalkFactsL] at hf
    simp [posixSymlink, symlink, hf.1, SErr.toErr]
  | missingLast par name =>
    simp only [hw, WalkFactsL] at hf
    obtain ⟨he, hc, hpar, hpart, hlast, hpath, hname, hnone, hpd⟩ := hf
    simp only [posixSymlink]
    by_cases hd : dirPerm s par omWrite v = true
    · simp only [hd, if_true]
      exact ⟨hname, by simp [symlink, he, hlast, hpar, hd, hpart, hname]⟩
    · simp only [hd]
      simp [symlink, he, hlast, hpar, hd]
  | missingDir =>
    simp only [hw, WalkFactsL] at hf
    simp [posixSymlink, symlink, hf.1, hf.2, SErr.toErr]
  | notDir =>
    simp only [hw, WalkFactsL] at hf
    simp [posixSymlink, symlink, hf, SErr.toErr]
  | denied =>
    simp only [hw, WalkFactsL] at hf
    simp [posixSymlink, symlink, hf, SErr.toErr]
  | viaLink => simp [posixSymlink]

/-- Symlink of MemFS is symlink(2) of the reference as far as the NEW path goes: same error (EEXIST on any existing
    entry, a symbolic link included; ENOENT / ENOTDIR / EACCES from the resolution; EACCES when the directory is not
    writable), or one new entry under the last component's name in the resolved directory: a symbolic link owned by the
    caller, mode 0777 (`createSymlink`), nothing else changes.
    DIVERGENCE in what is stored (recorded, `symlink_target_cleaned`): MemFS stores `Clean(oldname)`, symlink(2) the
    string as given; in particular the empty target, ENOENT for symlink(2), is accepted and stored as "."
    (`symlink_empty_target`). -/
theorem symlink_posix (s : Store) (root : Ino) (v : View) (hwf : WF s root) (hn : NamesOK s) (hv : ViewOK s v)
    (hroot : v.root = root) (cs : List Bytes) (hne : cs ≠ []) (hall : ∀ c ∈ cs, c ≠ [] ∧ ∀ x ∈ c, x ≠ SL)
    (hdots : ∀ c ∈ cs, c ≠ [DOT] ∧ c ≠ [DOT, DOT]) (old : Bytes) :
    match posixSymlink s v (walkPathL s v root cs) with
    | .fail e => symlink s v old (SL :: joinWith SL cs) = (s, .err e)
    | .create par name => name = cs.getLast hne ∧
        symlink s v old (SL :: joinWith SL cs) = ((createSymlink s v par name (clean .linux old)).1, .ok .unit)
    | .outside => True := by
  subst hroot
  exact symlink_posix_gen s v.root v hwf (get_of_isDirAt hwf.rootDir) cs hne hall hdots old

/-- Symlink(old, "/"): EEXIST -/
theorem symlink_root (s : Store) (v : View) (old : Bytes) : symlink s v old [SL] = (s, .err .EEXIST) := by
  obtain ⟨he, _, _, _⟩ := searchNode_root s v .lstat
  simp [symlink, he, SErr.toErr]

/-! #### the heap after a leaf was entered: what the descents see -/

/-- `s'` is `s` with one fresh node `new` (content `nd`) entered as `name` in the directory `par` — the effect of
    `createDir`, `createFile`, `createSymlink` on a well-formed heap (`leafAdded_addLeaf`) -/
structure LeafAdded (s s' : Store) (par : Ino) (name : Bytes) (new : Ino) (nd : Node) : Prop where
  getPar : ∃ m ch ch', s.get par = some (.dir m ch) ∧ s'.get par = some (.dir m ch')
  childPar : ∀ n, s'.child par n = if n = name then some new else s.child par n
  getNew : s'.get new = some nd
  newFresh : s.get new = none
  getOther : ∀ i, i ≠ par → i ≠ new → s'.get i = s.get i
  noName : s.child par name = none

theorem leafAdded_addLeaf' {s : Store} (hcn : s.get s.next = none) (L : Nat) {d : Ino} {n : Bytes} (nd : Node)
    (hdir : isDirAt s d = true) (hno : s.child d n = none) :
    LeafAdded s (addLeaf s L d n nd) d n s.next nd := by
  obtain ⟨m, ch, hd⟩ := isDirAt_iff.mp hdir
  have hdc : d ≠ s.next := by
    intro e; rw [e, hcn] at hd; cases hd
  rw [addLeaf_eq hd hdc]
  have hg : ∀ i, (Store.mk (AL.insert d (.dir m (AL.insert n s.next ch)) (AL.insert s.next nd s.nodes))
      (s.next + 1) L).get i = if d = i then some (.dir m (AL.insert n s.next ch))
      else if s.next = i then some nd else s.get i := by
    intro i; simp [Store.get, AL.lookup_insert]
  refine ⟨⟨m, ch, AL.insert n s.next ch, hd, by rw [hg]; simp⟩, ?_, ?_, hcn, ?_, hno⟩
  · intro n'
    have hgd := hg d
    simp only [if_true] at hgd
    unfold Store.child
    rw [Store.children_of_dir hgd, Store.children_of_dir hd, AL.lookup_insert]
    by_cases h : n' = n
    · simp [h]
    · have : ¬ n = n' := fun e => h e.symm
      simp [h, this]
  · rw [hg]; simp [hdc]
  · intro i h1 h2
    rw [hg]
    have : ¬ d = i := fun e => h1 e.symm
    have : ¬ s.next = i := fun e => h2 e.symm
    simp [*]

theorem leafAdded_addLeaf {s : Store} {root : Ino} (hwf : WF s root) (L : Nat) {d : Ino} {n : Bytes} (nd : Node)
    (hdir : isDirAt s d = true) (hno : s.child d n = none) :
    LeafAdded s (addLeaf s L d n nd) d n s.next nd :=
  leafAdded_addLeaf' (get_next_none hwf) L nd hdir hno

theorem LeafAdded.get_dir {s s' : Store} {par new : Ino} {name : Bytes} {nd : Node}
    (h : LeafAdded s s' par name new nd) {x : Ino} {m : Meta} {ch : List (Bytes × Ino)}
    (hx : s.get x = some (.dir m ch)) : ∃ ch', s'.get x = some (.dir m ch') := by
  by_cases hxp : x = par
  · subst hxp
    obtain ⟨m', c1, c2, h1, h2⟩ := h.getPar
    rw [hx] at h1
    cases h1
    exact ⟨_, h2⟩
  · have hxn : x ≠ new := by
      intro e; rw [e, h.newFresh] at hx; cases hx
    exact ⟨ch, by rw [h.getOther x hxp hxn]; exact hx⟩

theorem LeafAdded.get_keep {s s' : Store} {par new : Ino} {name : Bytes} {nd : Node}
    (h : LeafAdded s s' par name new nd) {x : Ino} {n : Node} (hx : s.get x = some n) (hxp : x ≠ par) :
    s'.get x = some n := by
  have hxn : x ≠ new := by
    intro e; rw [e, h.newFresh] at hx; cases hx
  rw [h.getOther x hxp hxn]; exact hx

theorem LeafAdded.child_keep {s s' : Store} {par new : Ino} {name : Bytes} {nd : Node}
    (h : LeafAdded s s' par name new nd) {x i : Ino} {c : Bytes} (hc : s.child x c = some i) :
    s'.child x c = some i := by
  by_cases hxp : x = par
  · subst hxp
    rw [h.childPar]
    have : c ≠ name := by
      intro e; rw [e, h.noName] at hc; cases hc
    simp [this, hc]
  · have hxn : x ≠ new := by
      intro e
      rw [e] at hc
      simp [Store.child, Store.children_of_none h.newFresh] at hc
    rw [Store.child_congr (h.getOther x hxp hxn)]
    exact hc

/-- a node other than the new one keeps its kind -/
theorem LeafAdded.kind_keep {s s' : Store} {par new : Ino} {name : Bytes} {nd : Node}
    (h : LeafAdded s s' par name new nd) {x : Ino} {n : Node} (hx : s.get x = some n) :
    ∃ n', s'.get x = some n' ∧ (∀ m ch, n = .dir m ch → ∃ ch', n' = .dir m ch') ∧
      ((∀ m ch, n ≠ .dir m ch) → n' = n) := by
  by_cases hxp : x = par
  · subst hxp
    obtain ⟨m', c1, c2, h1, h2⟩ := h.getPar
    rw [hx] at h1
    cases h1
    exact ⟨_, h2, fun m ch e => by cases e; exact ⟨_, rfl⟩, fun hn => absurd rfl (hn _ _)⟩
  · exact ⟨n, h.get_keep hx hxp, fun m ch e => ⟨ch, e⟩, fun _ => rfl⟩

/-- a descent that found its entry in `s` finds the same entry in `s'` -/
theorem LeafAdded.walkPath_found {s s' : Store} {root : Ino} {v : View} {par new : Ino} {name : Bytes} {nd : Node}
    (hwf : WF s root) (h : LeafAdded s s' par name new nd) :
    ∀ (cs : List Bytes) (x p c : Ino), walkPath s v x cs = .found p c → walkPath s' v x cs = .found p c := by
  intro cs
  induction cs with
  | nil => intro x p c hw; simpa [walkPath] using hw
  | cons c0 rest ih =>
    intro x p c hw
    cases hgx : s.get x with
    | none => cases rest <;> simp [walkPath, hgx] at hw
    | some nx =>
      cases nx with
      | file mf df nl id => cases rest <;> simp [walkPath, hgx] at hw
      | symlink ms lk => cases rest <;> simp [walkPath, hgx] at hw
      | dir m chd =>
        obtain ⟨chd', hgx'⟩ := h.get_dir hgx
        by_cases hden : checkPerm m omLookup v = true
        · cases hch : s.child x c0 with
          | none => cases rest <;> simp [walkPath, hgx, hden, hch] at hw
          | some i =>
            have hch' := h.child_keep hch
            have halloc := hwf.alloc x c0 i hch
            cases hg : s.get i with
            | none => simp [hg] at halloc
            | some n =>
              obtain ⟨n', hg', hk1, hk2⟩ := h.kind_keep hg
              cases rest with
              | nil =>
                cases n with
                | symlink ms lk => simp [walkPath, hgx, hden, hch, hg] at hw
                | dir mi chi =>
                  obtain ⟨chi', e⟩ := hk1 mi chi rfl
                  subst e
                  simpa [walkPath, hgx, hgx', hden, hch, hch', hg, hg'] using hw
                | file mf df nl id =>
                  have e := hk2 (by intro _ _ e; cases e)
                  subst e
                  simpa [walkPath, hgx, hgx', hden, hch, hch', hg, hg'] using hw
              | cons c2 cs =>
                cases n with
                | symlink ms lk => simp [walkPath, hgx, hden, hch, hg] at hw
                | file mf df nl id => simp [walkPath, hgx, hden, hch, hg] at hw
                | dir mi chi =>
                  obtain ⟨chi', e⟩ := hk1 mi chi rfl
                  subst e
                  have hw' : walkPath s v i (c2 :: cs) = .found p c := by
                    simpa [walkPath, hgx, hden, hch, hg] using hw
                  simpa [walkPath, hgx', hden, hch', hg'] using ih i p c hw'
        · have hden' : checkPerm m omLookup v = false := by simpa using hden
          cases rest <;> simp [walkPath, hgx, hden'] at hw

/-- the lstat descent that missed only the new name finds the new node afterwards -/
theorem LeafAdded.walkPathL_new {s s' : Store} {root : Ino} {v : View} {par new : Ino} {name : Bytes} {nd : Node}
    (hwf : WF s root) (h : LeafAdded s s' par name new nd) :
    ∀ (cs : List Bytes) (x : Ino), walkPathL s v x cs = .missingLast par name →
      walkPathL s' v x cs = .found par new := by
  intro cs
  induction cs with
  | nil => intro x hw; simp [walkPathL] at hw
  | cons c0 rest ih =>
    intro x hw
    cases hgx : s.get x with
    | none => cases rest <;> simp [walkPathL, hgx] at hw
    | some nx =>
      cases nx with
      | file mf df nl id => cases rest <;> simp [walkPathL, hgx] at hw
      | symlink ms lk => cases rest <;> simp [walkPathL, hgx] at hw
      | dir m chd =>
        obtain ⟨chd', hgx'⟩ := h.get_dir hgx
        by_cases hden : checkPerm m omLookup v = true
        · cases rest with
          | nil =>
            cases hch : s.child x c0 with
            | some i => simp [walkPathL, hgx, hden, hch] at hw
            | none =>
              simp [walkPathL, hgx, hden, hch] at hw
              obtain ⟨rfl, rfl⟩ := hw
              have := h.childPar c0
              simp at this
              simp [walkPathL, hgx', hden, this]
          | cons c2 cs =>
            cases hch : s.child x c0 with
            | none => simp [walkPathL, hgx, hden, hch] at hw
            | some i =>
              have hch' := h.child_keep hch
              have halloc := hwf.alloc x c0 i hch
              cases hg : s.get i with
              | none => simp [hg] at halloc
              | some n =>
                obtain ⟨n', hg', hk1, hk2⟩ := h.kind_keep hg
                cases n with
                | symlink ms lk => simp [walkPathL, hgx, hden, hch, hg] at hw
                | file mf df nl id => simp [walkPathL, hgx, hden, hch, hg] at hw
                | dir mi chi =>
                  obtain ⟨chi', e⟩ := hk1 mi chi rfl
                  subst e
                  have hw' : walkPathL s v i (c2 :: cs) = .missingLast par name := by
                    simpa [walkPathL, hgx, hden, hch, hg] using hw
                  simpa [walkPathL, hgx', hden, hch', hg'] using ih i hw'
        · have hden' : checkPerm m omLookup v = false := by simpa using hden
          cases rest <;> simp [walkPathL, hgx, hden'] at hw

/-- the directory in which the lstat descent stops is the start or an entry of a directory -/
theorem walkPathL_missingLast_attached {s : Store} {v : View} : ∀ (cs : List Bytes) (x par : Ino) (n : Bytes),
    walkPathL s v x cs = .missingLast par n → par = x ∨ ∃ p pn, Edge s p pn par := by
  intro cs
  induction cs with
  | nil => intro x par n hw; simp [walkPathL] at hw
  | cons c0 rest ih =>
    intro x par n hw
    cases rest with
    | nil =>
      simp only [walkPathL] at hw
      split at hw
      · split at hw
        · cases hw
        · split at hw
          · cases hw; exact Or.inl rfl
          · cases hw
      · cases hw
    | cons c2 cs =>
      simp only [walkPathL] at hw
      split at hw
      · split at hw
        · cases hw
        · split at hw
          · cases hw
          · rename_i i hch
            split at hw
            · rcases ih i par n hw with e | e
              · exact Or.inr ⟨x, c0, e ▸ hch⟩
              · exact Or.inr e
            · cases hw
            · cases hw
            · cases hw
      · cases hw

/-- symlink(2) followed by readlink(2) and lstat(2) of the new link: when Symlink creates the entry (`.create`), the
    new heap is well-formed again, the lstat descent of the same path finds the new node, Readlink returns exactly what
    was stored (the cleaned target) and Lstat describes a symbolic link of mode 0777 owned by the caller under the name
    of the last component -/
theorem symlink_then_readlink (s : Store) (root : Ino) (v : View) (hwf : WF s root) (hn : NamesOK s) (hv : ViewOK s v)
    (hroot : v.root = root) (cs : List Bytes) (hne : cs ≠ []) (hall : ∀ c ∈ cs, c ≠ [] ∧ ∀ x ∈ c, x ≠ SL)
    (hdots : ∀ c ∈ cs, c ≠ [DOT] ∧ c ≠ [DOT, DOT]) (old : Bytes) (par : Ino) (name : Bytes)
    (hc : posixSymlink s v (walkPathL s v root cs) = .create par name) :
    let s' := (symlink s v old (SL :: joinWith SL cs)).1
    WF s' root ∧ walkPathL s' v root cs = .found par s.next ∧
    s'.get s.next = some (.symlink ⟨0o777, v.uid, v.gid, none⟩ (clean .linux old)) ∧
    readlink s' v (SL :: joinWith SL cs) = (s', .ok (.bytes (clean .linux old))) ∧
    stat s' v (SL :: joinWith SL cs) .lstat =
      (s', .ok (.info ⟨cs.getLast hne, 2, 0o777, v.uid, v.gid, 0, 1, 0, none⟩)) := by
  intro s'
  subst hroot
  have hvr := get_of_isDirAt hwf.rootDir
  have hsym := symlink_posix_gen s v.root v hwf hvr cs hne hall hdots old
  rw [hc] at hsym
  obtain ⟨hname, hsym⟩ := hsym
  have hs' : s' = (createSymlink s v par name (clean .linux old)).1 := by
    show (symlink s v old (SL :: joinWith SL cs)).1 = _
    rw [hsym]
  -- the resolution of the new path
  have hw : walkPathL s v v.root cs = .missingLast par name := by
    cases hw : walkPathL s v v.root cs <;> simp only [hw, posixSymlink] at hc <;> try cases hc
    split at hc
    · cases hc; rfl
    · cases hc
  obtain ⟨c0, rest, rfl⟩ : ∃ c0 rest, cs = c0 :: rest := by
    cases cs with
    | nil => exact absurd rfl hne
    | cons a b => exact ⟨a, b, rfl⟩
  obtain ⟨_, hnone, hpd⟩ := walkPathL_missingLast rest c0 v.root par name hw
  have hatt := walkPathL_missingLast_attached (c0 :: rest) v.root par name hw
  have he : createSymlink s v par name (clean .linux old) =
      (addLeaf s s.lastId par name (.symlink ⟨0o777, v.uid, v.gid, none⟩ (clean .linux old)), s.next) := rfl
  have hla : LeafAdded s s' par name s.next (.symlink ⟨0o777, v.uid, v.gid, none⟩ (clean .linux old)) := by
    rw [hs', he]
    exact leafAdded_addLeaf hwf _ _ hpd hnone
  have hwf' : WF s' v.root := by
    rw [hs']
    exact wf_createSymlink v _ hwf hpd hatt hnone
  have hw' := hla.walkPathL_new hwf (v := v) (c0 :: rest) v.root hw
  have hvr' : ∃ m ch, s'.get v.root = some (.dir m ch) := get_of_isDirAt hwf'.rootDir
  refine ⟨hwf', hw', hla.getNew, ?_, ?_⟩
  · have h := readlink_posix_gen s' v.root v hwf' hvr' (c0 :: rest) hall hdots
    rw [hw'] at h
    simpa [posixReadlink, hla.getNew] using h
  · have h := lstat_posix_gen s' v.root v hwf' hvr' (c0 :: rest) hne hall hdots
    rw [hw'] at h
    obtain ⟨h1, i, hi, h2⟩ := h
    simp [fillStat, hla.getNew] at hi
    subst hi
    exact Prod.ext h1 h2

/-- DIVERGENCE (recorded): the target is stored CLEANED, whatever the resolution of the new path gives: Symlink(old, new)
    and Symlink(Clean(old), new) are the same call (symlink(2) stores the string as given, readlink(2) returns it) -/
theorem symlink_target_cleaned (s : Store) (v : View) (old new : Bytes) :
    symlink s v old new = symlink s v (clean .linux old) new := (symlink_clean_target s v old new).symm

/-! ### 3. utimensat(2) (Chtimes) -/

/-- utimensat(2) with explicit times: only the owner of the node or an administrator (EPERM); the modification time is
    replaced, mode, owner and content stay -/
def posixChtimes (s : Store) (v : View) (mtime : Int) : Resolved → NodeRef
  | .found _ c =>
    match s.get c with
    | some n =>
      if n.meta.uid != v.uid && !v.admin then .fail .EPERM
      else .update c (n.setMeta { n.meta with mtime := some mtime })
    | none => .outside
  | .missingLast _ _ => .fail .ENOENT
  | .missingDir => .fail .ENOENT
  | .notDir => .fail .ENOTDIR
  | .denied => .fail .EACCES
  | .viaLink => .outside

theorem chtimes_posix_gen (s : Store) (root : Ino) (v : View) (hwf : WF s root)
    (hvr : ∃ m ch, s.get v.root = some (.dir m ch)) (cs : List Bytes)
    (hall : ∀ c ∈ cs, c ≠ [] ∧ ∀ x ∈ c, x ≠ SL) (hdots : ∀ c ∈ cs, c ≠ [DOT] ∧ c ≠ [DOT, DOT]) (mtime : Int) :
    match posixChtimes s v mtime (walkPath s v v.root cs) with
    | .fail e => chtimes s v (SL :: joinWith SL cs) mtime = (s, .err e)
    | .update c n => chtimes s v (SL :: joinWith SL cs) mtime = (s.set c n, .ok .unit)
    | .outside => True := by
  have h := searchNode_eq_walkPath_gen s root v hwf hvr cs hall hdots .eval
  cases hw : walkPath s v v.root cs with
  | found par c =>
    obtain ⟨halloc, hns⟩ := walkPath_found_node hwf hvr cs par c hw
    simp only [hw, Agrees] at h
    obtain ⟨he, hc, _⟩ := h
    simp only [posixChtimes]
    cases hg : s.get c with
    | none => simp [hg] at halloc
    | some n =>
      by_cases hp : (n.meta.uid != v.uid && !v.admin) = true
      · simp [chtimes, he, hc, hg, hp]
      · simp [chtimes, he, hc, hg, hp]
  | missingLast par name =>
    simp only [hw, Agrees] at h
    simp [posixChtimes, chtimes, h.1, SErr.toErr]
  | missingDir =>
    simp only [hw, Agrees] at h
    simp [posixChtimes, chtimes, h.1, SErr.toErr]
  | notDir =>
    simp only [hw, Agrees] at h
    simp [posixChtimes, chtimes, h, SErr.toErr]
  | denied =>
    simp only [hw, Agrees] at h
    simp [posixChtimes, chtimes, h, SErr.toErr]
  | viaLink => trivial

/-- Chtimes of MemFS is utimensat(2) of the reference: the error of the resolution, EPERM for a caller who is neither
    the owner nor an administrator, else the one node the path resolves to ("/" included) gets the modification time
    and nothing else changes. No corner is excluded. -/
theorem chtimes_posix (s : Store) (root : Ino) (v : View) (hwf : WF s root) (hn : NamesOK s) (hv : ViewOK s v)
    (hroot : v.root = root) (cs : List Bytes) (hall : ∀ c ∈ cs, c ≠ [] ∧ ∀ x ∈ c, x ≠ SL)
    (hdots : ∀ c ∈ cs, c ≠ [DOT] ∧ c ≠ [DOT, DOT]) (mtime : Int) :
    match posixChtimes s v mtime (walkPath s v root cs) with
    | .fail e => chtimes s v (SL :: joinWith SL cs) mtime = (s, .err e)
    | .update c n => chtimes s v (SL :: joinWith SL cs) mtime = (s.set c n, .ok .unit)
    | .outside => True := by
  subst hroot
  exact chtimes_posix_gen s v.root v hwf (get_of_isDirAt hwf.rootDir) cs hall hdots mtime

/-! #### sections 1–3 on the concrete heap of Lemmas/Posix.lean -/

/-- ReadDir("/tmp") by the user 1000: the entries "d" (directory 0777) and "g" (the administrator's file 0600, one
    byte), sorted; ReadDir("/") lists a, home, root, tmp -/
example : readDir pxStore exView 0 [SL, 116, 109, 112] =
      .ok (.infos [⟨[100], 0, 0o777, 0, 0, 0, 1, 0, none⟩, ⟨[103], 1, 0o600, 0, 0, 1, 1, 2, none⟩]) ∧
    (dirListing pxStore 0).map (·.name) = [[97], [104, 111, 109, 101], [114, 111, 111, 116], [116, 109, 112]] ∧
    readDir pxStore exView 0 [SL] = .ok (.infos (dirListing pxStore 0)) := by
  have h1 := readDir_posix pxStore 0 exView pxStore_wf.1 pxStore_wf.2 pxView_ok rfl [cTmp] (by decide) (by decide) 0
  have h2 := readDir_posix pxStore 0 exView pxStore_wf.1 pxStore_wf.2 pxView_ok rfl [] (by decide) (by decide) 0
  have hr1 : posixReadDir pxStore exView (walkPath pxStore exView 0 [cTmp]) =
      .entries [⟨[100], 0, 0o777, 0, 0, 0, 1, 0, none⟩, ⟨[103], 1, 0o600, 0, 0, 1, 1, 2, none⟩] := by decide +kernel
  have hr2 : posixReadDir pxStore exView (walkPath pxStore exView 0 []) = .entries (dirListing pxStore 0) := by
    decide +kernel
  simp only [hr1] at h1
  simp only [hr2] at h2
  exact ⟨h1, by decide +kernel, h2⟩

/-- ENOTDIR on the readable file "/a/f"; EACCES on the directory "/a/b" (0700 of the administrator) and on the
    administrator's file "/tmp/g" (0600: open fails before the kind is looked at); ENOENT for "/a/q"; ENOTDIR below
    "/a/f" -/
example : readDir pxStore exView 0 [SL, 97, SL, 102] = .err .ENOTDIR ∧
    readDir pxStore exView 0 [SL, 97, SL, 98] = .err .EACCES ∧
    readDir pxStore exView 0 [SL, 116, 109, 112, SL, 103] = .err .EACCES ∧
    readDir pxStore exView 0 [SL, 97, SL, 113] = .err .ENOENT ∧
    readDir pxStore exView 0 [SL, 97, SL, 102, SL, 120] = .err .ENOTDIR := by
  have h1 := readDir_posix pxStore 0 exView pxStore_wf.1 pxStore_wf.2 pxView_ok rfl [cA, [102]] (by decide) (by decide) 0
  have h2 := readDir_posix pxStore 0 exView pxStore_wf.1 pxStore_wf.2 pxView_ok rfl [cA, [98]] (by decide) (by decide) 0
  have h3 := readDir_posix pxStore 0 exView pxStore_wf.1 pxStore_wf.2 pxView_ok rfl [cTmp, [103]] (by decide)
    (by decide) 0
  have h4 := readDir_posix pxStore 0 exView pxStore_wf.1 pxStore_wf.2 pxView_ok rfl [cA, [113]] (by decide) (by decide) 0
  have h5 := readDir_posix pxStore 0 exView pxStore_wf.1 pxStore_wf.2 pxView_ok rfl [cA, [102], [120]] (by decide)
    (by decide) 0
  have hr1 : posixReadDir pxStore exView (walkPath pxStore exView 0 [cA, [102]]) = .fail .ENOTDIR := by decide +kernel
  have hr2 : posixReadDir pxStore exView (walkPath pxStore exView 0 [cA, [98]]) = .fail .EACCES := by decide +kernel
  have hr3 : posixReadDir pxStore exView (walkPath pxStore exView 0 [cTmp, [103]]) = .fail .EACCES := by decide +kernel
  have hr4 : posixReadDir pxStore exView (walkPath pxStore exView 0 [cA, [113]]) = .fail .ENOENT := by decide +kernel
  have hr5 : posixReadDir pxStore exView (walkPath pxStore exView 0 [cA, [102], [120]]) = .fail .ENOTDIR := by
    decide +kernel
  simp only [hr1] at h1
  simp only [hr2] at h2
  simp only [hr3] at h3
  simp only [hr4] at h4
  simp only [hr5] at h5
  exact ⟨h1, h2, h3, h4, h5⟩

/-- Symlink("/a//f", "/tmp/l") by the user 1000: a new entry "l" in /tmp (3), inode 10, and afterwards Readlink
    returns the cleaned target "/a/f", Lstat a link of mode 0777 owned by 1000:1000 -/
example :
    let s' := (symlink pxStore exView [SL, 97, SL, SL, 102] [SL, 116, 109, 112, SL, 108]).1
    symlink pxStore exView [SL, 97, SL, SL, 102] [SL, 116, 109, 112, SL, 108] =
      ((createSymlink pxStore exView 3 [108] [SL, 97, SL, 102]).1, .ok .unit) ∧
    WF s' 0 ∧ walkPathL s' exView 0 [cTmp, [108]] = .found 3 10 ∧
    readlink s' exView [SL, 116, 109, 112, SL, 108] = (s', .ok (.bytes [SL, 97, SL, 102])) ∧
    stat s' exView [SL, 116, 109, 112, SL, 108] .lstat = (s', .ok (.info ⟨[108], 2, 0o777, 1000, 1000, 0, 1, 0, none⟩)) := by
  intro s'
  have hr : posixSymlink pxStore exView (walkPathL pxStore exView 0 [cTmp, [108]]) = .create 3 [108] := by
    decide +kernel
  have h := symlink_posix pxStore 0 exView pxStore_wf.1 pxStore_wf.2 pxView_ok rfl [cTmp, [108]] (by simp)
    (by decide) (by decide) [SL, 97, SL, SL, 102]
  have h2 := symlink_then_readlink pxStore 0 exView pxStore_wf.1 pxStore_wf.2 pxView_ok rfl [cTmp, [108]] (by simp)
    (by decide) (by decide) [SL, 97, SL, SL, 102] 3 [108] hr
  have hcl : clean .linux [SL, 97, SL, SL, 102] = [SL, 97, SL, 102] := by decide +kernel
  have hnext : pxStore.next = 10 := by decide +kernel
  simp only [hr] at h
  rw [hcl] at h h2
  rw [hnext] at h2
  exact ⟨h.2, h2.1, h2.2.1, h2.2.2.2.1, h2.2.2.2.2⟩

/-- EEXIST onto the existing "/tmp/g" and onto "/"; EACCES in "/a" (not writable by the user); ENOENT below the missing
    "/a/q"; ENOTDIR below the file "/a/f" -/
example : symlink pxStore exView [120] [SL, 116, 109, 112, SL, 103] = (pxStore, .err .EEXIST) ∧
    symlink pxStore exView [120] [SL] = (pxStore, .err .EEXIST) ∧
    symlink pxStore exView [120] [SL, 97, SL, 108] = (pxStore, .err .EACCES) ∧
    symlink pxStore exView [120] [SL, 97, SL, 113, SL, 108] = (pxStore, .err .ENOENT) ∧
    symlink pxStore exView [120] [SL, 97, SL, 102, SL, 108] = (pxStore, .err .ENOTDIR) := by
  have h1 := symlink_posix pxStore 0 exView pxStore_wf.1 pxStore_wf.2 pxView_ok rfl [cTmp, [103]] (by simp)
    (by decide) (by decide) [120]
  have h3 := symlink_posix pxStore 0 exView pxStore_wf.1 pxStore_wf.2 pxView_ok rfl [cA, [108]] (by simp)
    (by decide) (by decide) [120]
  have h4 := symlink_posix pxStore 0 exView pxStore_wf.1 pxStore_wf.2 pxView_ok rfl [cA, [113], [108]] (by simp)
    (by decide) (by decide) [120]
  have h5 := symlink_posix pxStore 0 exView pxStore_wf.1 pxStore_wf.2 pxView_ok rfl [cA, [102], [108]] (by simp)
    (by decide) (by decide) [120]
  have hr1 : posixSymlink pxStore exView (walkPathL pxStore exView 0 [cTmp, [103]]) = .fail .EEXIST := by decide +kernel
  have hr3 : posixSymlink pxStore exView (walkPathL pxStore exView 0 [cA, [108]]) = .fail .EACCES := by decide +kernel
  have hr4 : posixSymlink pxStore exView (walkPathL pxStore exView 0 [cA, [113], [108]]) = .fail .ENOENT := by
    decide +kernel
  have hr5 : posixSymlink pxStore exView (walkPathL pxStore exView 0 [cA, [102], [108]]) = .fail .ENOTDIR := by
    decide +kernel
  simp only [hr1] at h1
  simp only [hr3] at h3
  simp only [hr4] at h4
  simp only [hr5] at h5
  exact ⟨h1, symlink_root _ _ _, h3, h4, h5⟩

/-- the heap after Symlink("/a/f", "/tmp/l") by the user 1000: inode 10 is the link "/tmp/l" -/
@[irreducible] def p3lStore : Store := (symlink pxStore exView [SL, 97, SL, 102] [SL, 116, 109, 112, SL, 108]).1

theorem p3lStore_wf : WF p3lStore 0 ∧ NamesOK p3lStore := wfCheck_sound p3lStore 0 (by decide +kernel)

theorem p3lView_ok : ViewOK p3lStore exView := ⟨by decide +kernel, by decide⟩

/-- Readlink("/tmp/l") = "/a/f"; EINVAL on the file "/a/f", on the directory "/tmp" and on "/"; ENOENT on the missing
    "/tmp/y"; EACCES below "/a/b"; and a second Symlink onto the link is EEXIST (the link is not followed) -/
example : readlink p3lStore exView [SL, 116, 109, 112, SL, 108] = (p3lStore, .ok (.bytes [SL, 97, SL, 102])) ∧
    readlink p3lStore exView [SL, 97, SL, 102] = (p3lStore, .err .EINVAL) ∧
    readlink p3lStore exView [SL, 116, 109, 112] = (p3lStore, .err .EINVAL) ∧
    readlink p3lStore exView [SL] = (p3lStore, .err .EINVAL) ∧
    readlink p3lStore exView [SL, 116, 109, 112, SL, 121] = (p3lStore, .err .ENOENT) ∧
    readlink p3lStore exView [SL, 97, SL, 98, SL, 120] = (p3lStore, .err .EACCES) ∧
    symlink p3lStore exView [120] [SL, 116, 109, 112, SL, 108] = (p3lStore, .err .EEXIST) := by
  have h1 := readlink_posix p3lStore 0 exView p3lStore_wf.1 p3lStore_wf.2 p3lView_ok rfl [cTmp, [108]] (by decide)
    (by decide)
  have h2 := readlink_posix p3lStore 0 exView p3lStore_wf.1 p3lStore_wf.2 p3lView_ok rfl [cA, [102]] (by decide)
    (by decide)
  have h3 := readlink_posix p3lStore 0 exView p3lStore_wf.1 p3lStore_wf.2 p3lView_ok rfl [cTmp] (by decide) (by decide)
  have h4 := readlink_posix p3lStore 0 exView p3lStore_wf.1 p3lStore_wf.2 p3lView_ok rfl [] (by decide) (by decide)
  have h5 := readlink_posix p3lStore 0 exView p3lStore_wf.1 p3lStore_wf.2 p3lView_ok rfl [cTmp, [121]] (by decide)
    (by decide)
  have h6 := readlink_posix p3lStore 0 exView p3lStore_wf.1 p3lStore_wf.2 p3lView_ok rfl [cA, [98], [120]] (by decide)
    (by decide)
  have h7 := symlink_posix p3lStore 0 exView p3lStore_wf.1 p3lStore_wf.2 p3lView_ok rfl [cTmp, [108]] (by simp)
    (by decide) (by decide) [120]
  have hr1 : posixReadlink p3lStore (walkPathL p3lStore exView 0 [cTmp, [108]]) = .target [SL, 97, SL, 102] := by
    decide +kernel
  have hr2 : posixReadlink p3lStore (walkPathL p3lStore exView 0 [cA, [102]]) = .fail .EINVAL := by decide +kernel
  have hr3 : posixReadlink p3lStore (walkPathL p3lStore exView 0 [cTmp]) = .fail .EINVAL := by decide +kernel
  have hr4 : posixReadlink p3lStore (walkPathL p3lStore exView 0 []) = .fail .EINVAL := by decide +kernel
  have hr5 : posixReadlink p3lStore (walkPathL p3lStore exView 0 [cTmp, [121]]) = .fail .ENOENT := by decide +kernel
  have hr6 : posixReadlink p3lStore (walkPathL p3lStore exView 0 [cA, [98], [120]]) = .fail .EACCES := by
    decide +kernel
  have hr7 : posixSymlink p3lStore exView (walkPathL p3lStore exView 0 [cTmp, [108]]) = .fail .EEXIST := by
    decide +kernel
  simp only [hr1] at h1
  simp only [hr2] at h2
  simp only [hr3] at h3
  simp only [hr4] at h4
  simp only [hr5] at h5
  simp only [hr6] at h6
  simp only [hr7] at h7
  simpa [joinWith] using ⟨h1, h2, h3, h4, h5, h6, h7⟩

/-- CORNER (finding): Symlink("", "/tmp/l") succeeds and stores the target "." (symlink(2): ENOENT for an empty
    target). History: memfs.New(); as user 1000 Symlink("", "/tmp/l") = nil; Readlink("/tmp/l") = ".". -/
theorem symlink_empty_target :
    symlink pxStore exView [] [SL, 116, 109, 112, SL, 108] =
      ((createSymlink pxStore exView 3 [108] [DOT]).1, .ok .unit) ∧
    readlink (createSymlink pxStore exView 3 [108] [DOT]).1 exView [SL, 116, 109, 112, SL, 108] =
      ((createSymlink pxStore exView 3 [108] [DOT]).1, .ok (.bytes [DOT])) := by
  decide +kernel

/-- Chtimes("/a/f", 42) by the administrator (owner): inode 6 gets the time, keeps the rest; the user is not the owner
    (EPERM); "/a/q" is missing (ENOENT); below "/a/b" the user may not search (EACCES); "/" by the administrator -/
example : chtimes pxStore px2Adm [SL, 97, SL, 102] 42 =
      (pxStore.set 6 (.file ⟨0o644, 0, 0, some 42⟩ [104, 105] 1 1), .ok .unit) ∧
    chtimes pxStore exView [SL, 97, SL, 102] 42 = (pxStore, .err .EPERM) ∧
    chtimes pxStore exView [SL, 97, SL, 113] 42 = (pxStore, .err .ENOENT) ∧
    chtimes pxStore exView [SL, 97, SL, 98, SL, 120] 42 = (pxStore, .err .EACCES) ∧
    chtimes pxStore px2Adm [SL] 42 = (pxStore.set 0 (.dir ⟨0o755, 0, 0, some 42⟩ (pxStore.children 0)), .ok .unit) := by
  have h1 := chtimes_posix pxStore 0 px2Adm pxStore_wf.1 pxStore_wf.2 px2Adm_ok rfl [cA, [102]] (by decide)
    (by decide) 42
  have h2 := chtimes_posix pxStore 0 exView pxStore_wf.1 pxStore_wf.2 pxView_ok rfl [cA, [102]] (by decide)
    (by decide) 42
  have h3 := chtimes_posix pxStore 0 exView pxStore_wf.1 pxStore_wf.2 pxView_ok rfl [cA, [113]] (by decide)
    (by decide) 42
  have h4 := chtimes_posix pxStore 0 exView pxStore_wf.1 pxStore_wf.2 pxView_ok rfl [cA, [98], [120]] (by decide)
    (by decide) 42
  have h5 := chtimes_posix pxStore 0 px2Adm pxStore_wf.1 pxStore_wf.2 px2Adm_ok rfl [] (by decide) (by decide) 42
  have hr1 : posixChtimes pxStore px2Adm 42 (walkPath pxStore px2Adm 0 [cA, [102]]) =
      .update 6 (.file ⟨0o644, 0, 0, some 42⟩ [104, 105] 1 1) := by decide +kernel
  have hr2 : posixChtimes pxStore exView 42 (walkPath pxStore exView 0 [cA, [102]]) = .fail .EPERM := by
    decide +kernel
  have hr3 : posixChtimes pxStore exView 42 (walkPath pxStore exView 0 [cA, [113]]) = .fail .ENOENT := by
    decide +kernel
  have hr4 : posixChtimes pxStore exView 42 (walkPath pxStore exView 0 [cA, [98], [120]]) = .fail .EACCES := by
    decide +kernel
  have hr5 : posixChtimes pxStore px2Adm 42 (walkPath pxStore px2Adm 0 []) =
      .update 0 (.dir ⟨0o755, 0, 0, some 42⟩ (pxStore.children 0)) := by decide +kernel
  simp only [hr1] at h1
  simp only [hr2] at h2
  simp only [hr3] at h3
  simp only [hr4] at h4
  simp only [hr5] at h5
  exact ⟨h1, h2, h3, h4, h5⟩


/-! ### 4. mkdir -p (MkdirAll) -/

/-- the attributes `createDir` gives a new directory: `perm &^ umask`, owned by the caller -/
def newDirMeta (v : View) (perm : Nat) : Meta :=
  ⟨(perm &&& modeMask) &&& (modeMask ^^^ (v.umask &&& modeMask)), v.uid, v.gid, none⟩

theorem createDir_eq' (s : Store) (v : View) (d : Ino) (n : Bytes) (perm : Nat) :
    createDir s v d n perm = (addLeaf s s.lastId d n (.dir (newDirMeta v perm) []), s.next) := rfl

/-- the chain of new directories `c1/c2/…` below `d`: each made by `createDir` in the one made before -/
def mkChain (v : View) (perm : Nat) : Store → Ino → List Bytes → Store
  | s, _, [] => s
  | s, d, c :: rest => mkChain v perm (createDir s v d c perm).1 (createDir s v d c perm).2 rest

/-- nothing is allocated at or above `next` -/
def Fresh (s : Store) : Prop := ∀ i, s.next ≤ i → s.get i = none

theorem fresh_of_wf {s : Store} {root : Ino} (hwf : WF s root) : Fresh s := by
  intro i hi
  cases h : s.get i with
  | none => rfl
  | some x => exact absurd (hwf.bound i (by simp [h])) (by unfold Ino at *; omega)

theorem createDir_next (s : Store) (v : View) (d : Ino) (n : Bytes) (perm : Nat) :
    (createDir s v d n perm).1.next = s.next + 1 := by
  simp only [createDir, Store.alloc, addChild]
  split <;> rfl

theorem leafAdded_createDir {s : Store} (hf : Fresh s) (v : View) {d : Ino} {n : Bytes} (perm : Nat)
    (hdir : isDirAt s d = true) (hno : s.child d n = none) :
    LeafAdded s (createDir s v d n perm).1 d n s.next (.dir (newDirMeta v perm) []) := by
  rw [createDir_eq']
  exact leafAdded_addLeaf' (hf _ (Nat.le_refl _)) _ _ hdir hno

theorem fresh_createDir {s : Store} (hf : Fresh s) (v : View) {d : Ino} {n : Bytes} (perm : Nat)
    (hdir : isDirAt s d = true) (hno : s.child d n = none) : Fresh (createDir s v d n perm).1 := by
  have hla := leafAdded_createDir hf v perm hdir hno
  intro i hi
  rw [createDir_next] at hi
  obtain ⟨m, ch, hd⟩ := isDirAt_iff.mp hdir
  have hdlt : d < s.next := by
    apply Classical.byContradiction
    intro h
    rw [hf d (by unfold Ino at *; omega)] at hd
    cases hd
  rw [hla.getOther i (by unfold Ino at *; omega) (by unfold Ino at *; omega)]
  exact hf i (by unfold Ino at *; omega)

/-- the iterator stands on the component `c`, the components `rest` are still to come -/
def IterOn (it : Iter) (c : Bytes) (rest : List Bytes) : Prop :=
  it.part = some c ∧ (rest = [] → it.isLast = true) ∧
  (rest ≠ [] → ∃ pre, it.path = pre ++ joinWith SL rest ∧ it.stop1 = pre.length)

theorem next_of_isLast (it : Iter) (h : it.isLast = true) : (it.next .linux).2 = false := by
  unfold Iter.isLast at h
  have h' : it.stop1 = it.path.length + 1 := by simpa using h
  unfold Iter.next
  simp only
  rw [if_pos (by omega)]

/-- the creation loop of MkdirAll, started on the first missing component, makes the chain -/
theorem mkdirAllLoop_chain (v : View) (perm : Nat) :
    ∀ (rest : List Bytes) (c : Bytes) (fuel : Nat) (s : Store) (d : Ino) (it : Iter),
      IterOn it c rest → (∀ x ∈ rest, x ≠ [] ∧ ∀ y ∈ x, y ≠ SL) → fuel ≥ rest.length + 1 →
      s.child d c = none → isDirAt s d = true → Fresh s →
      mkdirAllLoop v perm fuel s d it = mkChain v perm s d (c :: rest) := by
  intro rest
  induction rest with
  | nil =>
    intro c fuel s d it hit hall hf hno hdir hfr
    obtain ⟨fuel, rfl⟩ : ∃ k, fuel = k + 1 := ⟨fuel - 1, by simp at hf; omega⟩
    obtain ⟨hpart, hl, _⟩ := hit
    have hmore := next_of_isLast it (hl rfl)
    rw [mkdirAllLoop]
    simp [partOf, hpart, hno, hmore, mkChain]
  | cons c2 rs ih =>
    intro c fuel s d it hit hall hf hno hdir hfr
    obtain ⟨fuel, rfl⟩ : ∃ k, fuel = k + 1 := ⟨fuel - 1, by simp at hf; omega⟩
    obtain ⟨hpart, _, hr⟩ := hit
    obtain ⟨pre, hp, hst⟩ := hr (by simp)
    have hc2 := hall c2 (by simp)
    obtain ⟨it1, hnext, hpart1, hl1, hr1⟩ := next_comp it pre c2 rs hp hst hc2.1 hc2.2
    have hit1 : IterOn it1 c2 rs := by
      refine ⟨hpart1, hl1, fun hne => ?_⟩
      obtain ⟨_, h2, h3⟩ := hr1 hne
      exact ⟨_, h2, h3⟩
    have hla := leafAdded_createDir hfr v perm hdir hno
    have hd1 : (createDir s v d c perm).2 = s.next := rfl
    have hno1 : (createDir s v d c perm).1.child s.next c2 = none := by
      simp [Store.child, Store.children_of_dir hla.getNew, AL.lookup]
    have hdir1 : isDirAt (createDir s v d c perm).1 s.next = true := isDirAt_of_get hla.getNew
    have hrec := ih c2 fuel (createDir s v d c perm).1 s.next it1 hit1
      (fun x hx => hall x (by simp [hx])) (by simp at hf ⊢; omega) hno1 hdir1 (fresh_createDir hfr v perm hdir hno)
    rw [mkdirAllLoop]
    simp only [partOf, hpart, Option.getD_some, hno, Option.isSome_none, Bool.false_eq_true, if_false, hnext]
    simp only [Bool.not_true, Bool.false_eq_true, if_false, hd1]
    rw [hrec]
    simp [mkChain, hd1]

/-- what MkdirAll finds on its way down: the whole path is a directory; a component is a regular file; a directory
    may not be searched; or the component `todo.head` is the first missing one, in directory `d` -/
inductive MkWalk
  | isDir
  | isFile
  | denied
  | missing (d : Ino) (todo : List Bytes)
  | viaLink
  deriving DecidableEq, Repr

def mkWalk (s : Store) (v : View) : Ino → List Bytes → MkWalk
  | _, [] => .isDir
  | d, c :: rest =>
    match s.get d with
    | some (.dir m _) =>
      if !checkPerm m omLookup v then .denied else
      match s.child d c with
      | none => .missing d (c :: rest)
      | some i =>
        match s.get i with
        | some (.dir _ _) => mkWalk s v i rest
        | some (.file _ _ _ _) => .isFile
        | _ => .viaLink
    | _ => .viaLink

theorem mkWalk_missing_suffix (s : Store) (v : View) : ∀ (cs : List Bytes) (d d' : Ino) (todo : List Bytes),
    mkWalk s v d cs = .missing d' todo →
    (∃ pre, cs = pre ++ todo) ∧ (∃ c rest, todo = c :: rest ∧ s.child d' c = none) ∧ isDirAt s d' = true := by
  intro cs
  induction cs with
  | nil => intro d d' todo h; simp [mkWalk] at h
  | cons c rest ih =>
    intro d d' todo h
    simp only [mkWalk] at h
    split at h
    · rename_i m chd hgd
      split at h
      · cases h
      · split at h
        · rename_i hch
          cases h
          exact ⟨⟨[], rfl⟩, ⟨c, rest, rfl, hch⟩, isDirAt_of_get hgd⟩
        · split at h
          · obtain ⟨⟨pre, hpre⟩, h2, h3⟩ := ih _ d' todo h
            exact ⟨⟨c :: pre, by rw [hpre]; rfl⟩, h2, h3⟩
          · cases h
          · cases h
    · cases h

theorem checkPerm_wx_lookup (m : Meta) (v : View) (h : checkPerm m (omWrite ||| omLookup) v = true) :
    checkPerm m omLookup v = true := by
  have key : ∀ x : Nat, (x &&& 3 == 3) = true → (x &&& 1 == 1) = true := by
    intro x hx
    rw [and_lt8_eq_mod x 3 (by decide)] at hx
    rw [and_lt8_eq_mod x 1 (by decide)]
    have hlt : x % 8 < 8 := Nat.mod_lt _ (by decide)
    revert hx
    generalize x % 8 = y at hlt
    revert y
    decide
  unfold checkPerm at h ⊢
  by_cases ha : v.admin = true
  · simp [ha]
  · simp only [ha, if_false] at h ⊢
    have e3 : (omWrite ||| omLookup) &&& 7 = 3 := by decide
    have e1 : omLookup &&& 7 = 1 := by decide
    rw [e3] at h
    rw [e1]
    exact key _ h

/-- what `searchNode … .eval` hands MkdirAll, by outcome of `mkWalk` -/
def MkFacts (s : Store) (v : View) (p : Bytes) (w : MkWalk) (r : SR) : Prop :=
  match w with
  | .isDir => r.err = .exists ∧ ∃ c m ch, r.child = some c ∧ s.get c = some (.dir m ch)
  | .isFile => ∃ c m d nl id, r.child = some c ∧ s.get c = some (.file m d nl id)
  | .denied => r.err = .acces ∧
      ((∃ c m ch, r.child = some c ∧ s.get c = some (.dir m ch)) ∨
       (r.child = none ∧ dirPerm s r.parent (omWrite ||| omLookup) v = false))
  | .missing d todo => r.err = .noent ∧ r.child = none ∧ r.parent = d ∧ r.pi.path = p ∧
      ∃ c rest, todo = c :: rest ∧ IterOn r.pi c rest
  | .viaLink => True

theorem loop_mk_gen {s : Store} {root : Ino} {v : View} (hwf : WF s root) :
    ∀ (rest : List Bytes) (c : Bytes) (fuel : Nat) (d : Ino) (it : Iter) (pre : Bytes) (sl : Nat),
      (∀ x ∈ c :: rest, x ≠ [] ∧ ∀ y ∈ x, y ≠ SL) →
      it.path = pre ++ joinWith SL (c :: rest) → it.stop1 = pre.length → fuel ≥ rest.length + 1 →
      isDirAt s d = true →
      (d ≠ v.root → ∀ md ch, s.get d = some (.dir md ch) → checkPerm md omLookup v = true) →
      MkFacts s v it.path (mkWalk s v d (c :: rest)) (searchLoop s v .eval v.root fuel d it sl none) := by
  intro rest
  induction rest with
  | nil =>
    intro c fuel d it pre sl hall hp hst hf hdir hperm
    obtain ⟨fuel, rfl⟩ : ∃ k, fuel = k + 1 := ⟨fuel - 1, by simp at hf; omega⟩
    have hc := hall c (by simp)
    obtain ⟨it1, hnext, hpart, hl, _⟩ := next_comp it pre c [] hp hst hc.1 hc.2
    have hl := hl rfl
    have hpath : it1.path = it.path := by
      have := px2_next_path it
      rw [hnext] at this
      exact this
    obtain ⟨md, chd, hgd⟩ := get_of_isDirAt hdir
    rw [searchLoop]
    by_cases hden : checkPerm md omLookup v = true
    · cases hch : s.child d c with
      | none =>
        have hit1 : IterOn it1 c [] := ⟨hpart, fun _ => hl, fun h => absurd rfl h⟩
        have hw : mkWalk s v d [c] = .missing d [c] := by simp [mkWalk, hgd, hden, hch]
        rw [hw]
        simp only [MkFacts]
        refine ⟨?_, ?_, ?_, ?_, c, [], rfl, ?_⟩
        · simp [hnext, hpart, hgd, hden, hch]
        · simp [hnext, hpart, hgd, hden, hch]
        · simp [hnext, hpart, hgd, hden, hch]
        · simp [hnext, hpart, hgd, hden, hch, hpath]
        · simpa [hnext, hpart, hgd, hden, hch] using hit1
      | some i =>
        have halloc := hwf.alloc d c i hch
        cases hg : s.get i with
        | none => simp [hg] at halloc
        | some n =>
          cases n <;> simp [mkWalk, hnext, hpart, hgd, hden, hch, hg, MkFacts, hl]
    · have hden' : checkPerm md omLookup v = false := by simpa using hden
      have hdr : d = v.root := Classical.byContradiction fun h => hden (hperm h md chd hgd)
      subst hdr
      have hdp : dirPerm s v.root (omWrite ||| omLookup) v = false := by
        simp only [dirPerm, hgd, Node.meta]
        cases hx : checkPerm md (omWrite ||| omLookup) v with
        | false => rfl
        | true => exact absurd (checkPerm_wx_lookup md v hx) hden
      simp [mkWalk, hnext, hpart, hgd, hden', MkFacts, hdp]
  | cons c2 cs ih =>
    intro c fuel d it pre sl hall hp hst hf hdir hperm
    obtain ⟨fuel, rfl⟩ : ∃ k, fuel = k + 1 := ⟨fuel - 1, by simp at hf; omega⟩
    have hc := hall c (by simp)
    obtain ⟨it1, hnext, hpart, _, hl⟩ := next_comp it pre c (c2 :: cs) hp hst hc.1 hc.2
    obtain ⟨hl, hp1, hsp1⟩ := hl (by simp)
    have hpath : it1.path = it.path := by
      have := px2_next_path it
      rw [hnext] at this
      exact this
    obtain ⟨md, chd, hgd⟩ := get_of_isDirAt hdir
    rw [searchLoop]
    by_cases hden : checkPerm md omLookup v = true
    · cases hch : s.child d c with
      | none =>
        have hit1 : IterOn it1 c (c2 :: cs) := ⟨hpart, (fun h => nomatch h), fun _ => ⟨_, hp1, hsp1⟩⟩
        have hw : mkWalk s v d (c :: c2 :: cs) = .missing d (c :: c2 :: cs) := by simp [mkWalk, hgd, hden, hch]
        rw [hw]
        simp only [MkFacts]
        refine ⟨?_, ?_, ?_, ?_, c, c2 :: cs, rfl, ?_⟩
        · simp [hnext, hpart, hgd, hden, hch]
        · simp [hnext, hpart, hgd, hden, hch]
        · simp [hnext, hpart, hgd, hden, hch]
        · simp [hnext, hpart, hgd, hden, hch, hpath]
        · simpa [hnext, hpart, hgd, hden, hch] using hit1
      | some i =>
        have halloc := hwf.alloc d c i hch
        cases hg : s.get i with
        | none => simp [hg] at halloc
        | some n =>
          cases n with
          | dir mi chi =>
            by_cases hpi : checkPerm mi omLookup v = true
            · have hrec := ih c2 fuel i it1 (pre ++ c ++ [SL]) sl (fun x hx => hall x (by simp at hx ⊢; exact Or.inr hx))
                hp1 hsp1 (by simp at hf ⊢; omega) (isDirAt_of_get hg)
                (fun _ md' ch' hg' => by rw [hg] at hg'; cases hg'; exact hpi)
              have hw : mkWalk s v d (c :: c2 :: cs) = mkWalk s v i (c2 :: cs) := by
                simp [mkWalk, hgd, hden, hch, hg]
              rw [hw, ← hpath]
              simpa [hnext, hpart, hgd, hden, hch, hg, hl, hpi] using hrec
            · have hpi' : checkPerm mi omLookup v = false := by simpa using hpi
              have hw : mkWalk s v d (c :: c2 :: cs) = .denied := by
                simp [mkWalk, hgd, hden, hch, hg, hpi']
              rw [hw]
              simp [hnext, hpart, hgd, hden, hch, hg, hl, hpi', MkFacts]
          | file mf df nl id => simp [mkWalk, hnext, hpart, hgd, hden, hch, hg, MkFacts, hl]
          | symlink ms lk => simp [mkWalk, hgd, hden, hch, hg, MkFacts]
    · have hden' : checkPerm md omLookup v = false := by simpa using hden
      have hdr : d = v.root := Classical.byContradiction fun h => hden (hperm h md chd hgd)
      subst hdr
      have hdp : dirPerm s v.root (omWrite ||| omLookup) v = false := by
        simp only [dirPerm, hgd, Node.meta]
        cases hx : checkPerm md (omWrite ||| omLookup) v with
        | false => rfl
        | true => exact absurd (checkPerm_wx_lookup md v hx) hden
      simp [mkWalk, hnext, hpart, hgd, hden', MkFacts, hdp]

/-- MkdirAll of the model, by outcome of its descent `mkWalk`: nothing to do; ENOTDIR; EACCES; or, when the directory
    holding the first missing component may be written and searched, the chain of the missing components -/
theorem mkdirAll_mkWalk (s : Store) (root : Ino) (v : View) (hwf : WF s root)
    (hvr : ∃ m ch, s.get v.root = some (.dir m ch)) (cs : List Bytes)
    (hall : ∀ c ∈ cs, c ≠ [] ∧ ∀ x ∈ c, x ≠ SL) (hdots : ∀ c ∈ cs, c ≠ [DOT] ∧ c ≠ [DOT, DOT]) (perm : Nat) :
    match mkWalk s v v.root cs with
    | .isDir => mkdirAll s v (SL :: joinWith SL cs) perm = (s, .ok .unit)
    | .isFile => mkdirAll s v (SL :: joinWith SL cs) perm = (s, .err .ENOTDIR)
    | .denied => mkdirAll s v (SL :: joinWith SL cs) perm = (s, .err .EACCES)
    | .missing d todo => mkdirAll s v (SL :: joinWith SL cs) perm =
        if dirPerm s d (omWrite ||| omLookup) v then (mkChain v perm s d todo, .ok .unit) else (s, .err .EACCES)
    | .viaLink => True := by
  cases cs with
  | nil =>
    obtain ⟨he, hc, _, _⟩ := searchNode_root s v .eval
    obtain ⟨m, ch, hg⟩ := hvr
    simp [mkWalk, joinWith, mkdirAll, he, hc, hg]
  | cons c0 rest =>
    have h : MkFacts s v (SL :: joinWith SL (c0 :: rest)) (mkWalk s v v.root (c0 :: rest))
        (searchNode s v (SL :: joinWith SL (c0 :: rest)) .eval) := by
      unfold searchNode
      simp only [abs_joined (c0 :: rest) v.cwd hall hdots]
      have hfuel := searchFuel_ge s (SL :: joinWith SL (c0 :: rest))
      obtain ⟨mr, chr, hgr⟩ := hvr
      refine loop_mk_gen hwf rest c0 (searchFuel s (SL :: joinWith SL (c0 :: rest))) v.root
        (Iter.new .linux (SL :: joinWith SL (c0 :: rest))) [SL] 0 hall rfl rfl ?_ (isDirAt_of_get hgr)
        (fun h => absurd rfl h)
      have := length_joinWith_ge SL (c0 :: rest) (fun x hx => (hall x hx).1)
      simp only [List.length_cons] at this hfuel ⊢
      omega
    cases hw : mkWalk s v v.root (c0 :: rest) with
    | isDir =>
      simp only [hw, MkFacts] at h
      obtain ⟨he, c, m, ch, hc, hg⟩ := h
      simp [mkdirAll, he, hc, hg]
    | isFile =>
      simp only [hw, MkFacts] at h
      obtain ⟨c, m, d, nl, id, hc, hg⟩ := h
      simp [mkdirAll, hc, hg]
    | denied =>
      simp only [hw, MkFacts] at h
      obtain ⟨he, h | h⟩ := h
      · obtain ⟨c, m, ch, hc, hg⟩ := h
        simp [mkdirAll, he, hc, hg, SErr.toErr]
      · simp [mkdirAll, h.1, h.2]
    | missing d todo =>
      simp only [hw, MkFacts] at h
      obtain ⟨he, hc, hpar, hpath, c, rs, rfl, hit⟩ := h
      obtain ⟨⟨pre, hpre⟩, ⟨c', rs', hcr, hno⟩, hdir⟩ := mkWalk_missing_suffix s v _ _ _ _ hw
      cases hcr
      simp only []
      by_cases hd : dirPerm s d (omWrite ||| omLookup) v = true
      · have hlen : (SL :: joinWith SL (c0 :: rest)).length + 2 ≥ rs.length + 1 := by
          have h1 := length_joinWith_ge SL (c0 :: rest) (fun x hx => (hall x hx).1)
          have h2 : (c0 :: rest).length = pre.length + (rs.length + 1) := by rw [hpre]; simp
          simp only [List.length_cons] at h1 h2 ⊢
          omega
        have hchain := mkdirAllLoop_chain v perm rs c ((SL :: joinWith SL (c0 :: rest)).length + 2) s d
          (searchNode s v (SL :: joinWith SL (c0 :: rest)) .eval).pi hit
          (fun x hx => hall x (by rw [hpre]; simp [hx])) hlen hno hdir (fresh_of_wf hwf)
        simp only [List.length_cons] at hchain
        simp [mkdirAll, hc, hpar, hd, hpath, hchain]
      · simp [mkdirAll, hc, hpar, hd]
    | viaLink => trivial

/-! #### the reference: Mkdir of every prefix in turn -/

/-- mkdir -p as os.MkdirAll does it: `Mkdir` (the reference `posixMkdir`) of every prefix of the path in turn, each in
    the heap the one before left; EEXIST is tolerated when the prefix is a directory (ENOTDIR when it is not); any
    other error stops with what has been made so far. `done` are the components already handled. -/
def posixMkdirAll (v : View) (perm : Nat) (root : Ino) : Store → List Bytes → List Bytes → Option (Store × Out)
  | s, _, [] => some (s, .ok .unit)
  | s, done, c :: todo =>
    match posixMkdir s v (walkPath s v root (done ++ [c])) with
    | .create par name => posixMkdirAll v perm root (createDir s v par name perm).1 (done ++ [c]) todo
    | .fail .EEXIST =>
      (match walkPath s v root (done ++ [c]) with
       | .found _ i =>
         if isDirAt s i then posixMkdirAll v perm root s (done ++ [c]) todo else some (s, .err .ENOTDIR)
       | _ => none)
    | .fail e => some (s, .err e)
    | .outside => none

theorem walkPath_single_found {s : Store} {v : View} {x p d : Ino} {c : Bytes}
    (h : walkPath s v x [c] = .found p d) :
    ∃ m ch, s.get x = some (.dir m ch) ∧ checkPerm m omLookup v = true ∧ s.child x c = some d ∧ p = x ∧
      ∀ ms l, s.get d ≠ some (.symlink ms l) := by
  simp only [walkPath] at h
  split at h
  · rename_i m chd hgd
    split at h
    · cases h
    · rename_i hden
      split at h
      · cases h
      · rename_i i hch
        split at h
        · cases h
        · rename_i hns
          cases h
          exact ⟨m, chd, hgd, by simpa using hden, hch, rfl, fun ms l hg => hns ms l hg⟩
  · cases h

theorem walkPath_cons_found {s : Store} {v : View} {x p d : Ino} {c c' : Bytes} {cs : List Bytes}
    (h : walkPath s v x (c :: c' :: cs) = .found p d) :
    ∃ m ch i mi chi, s.get x = some (.dir m ch) ∧ checkPerm m omLookup v = true ∧ s.child x c = some i ∧
      s.get i = some (.dir mi chi) ∧ walkPath s v i (c' :: cs) = .found p d := by
  simp only [walkPath] at h
  split at h
  · rename_i m chd hgd
    split at h
    · cases h
    · rename_i hden
      split at h
      · cases h
      · rename_i i hch
        split at h
        · rename_i mi chi hg
          exact ⟨m, chd, i, mi, chi, hgd, by simpa using hden, hch, hg, h⟩
        · cases h
        · cases h
        · cases h
  · cases h

/-- a descent that found a directory goes on from there -/
theorem px3_walkPath_append {s : Store} {v : View} : ∀ (a : List Bytes) (x p d : Ino) (b : List Bytes),
    walkPath s v x a = .found p d → isDirAt s d = true → b ≠ [] → walkPath s v x (a ++ b) = walkPath s v d b := by
  intro a
  induction a with
  | nil =>
    intro x p d b h _ _
    simp only [walkPath] at h
    cases h
    rfl
  | cons c rest ih =>
    intro x p d b h hdir hb
    obtain ⟨b0, bs, rfl⟩ : ∃ b0 bs, b = b0 :: bs := by
      cases b with
      | nil => exact absurd rfl hb
      | cons b0 bs => exact ⟨b0, bs, rfl⟩
    cases rest with
    | nil =>
      obtain ⟨m, ch, hgx, hden, hch, _, _⟩ := walkPath_single_found h
      obtain ⟨md, chd, hgd⟩ := isDirAt_iff.mp hdir
      simp [walkPath, hgx, hden, hch, hgd]
    | cons c' cs =>
      obtain ⟨m, ch, i, mi, chi, hgx, hden, hch, hg, hrec⟩ := walkPath_cons_found h
      have := ih i p d (b0 :: bs) hrec hdir hb
      simpa [walkPath, hgx, hden, hch, hg] using this

/-- the components `done` lead (without links) from `vr` to the directory `d` -/
def Reaches (s : Store) (v : View) (vr : Ino) (done : List Bytes) (d : Ino) : Prop :=
  (∃ p, walkPath s v vr done = .found p d) ∧ isDirAt s d = true

theorem Reaches.attached {s : Store} {v : View} {vr root : Ino} {done : List Bytes} {d : Ino}
    (h : Reaches s v vr done d) (hra : vr = root ∨ ∃ p pn, Edge s p pn vr) : d = root ∨ ∃ p pn, Edge s p pn d := by
  obtain ⟨⟨p, hw⟩, _⟩ := h
  cases done with
  | nil =>
    simp only [walkPath] at hw
    cases hw
    exact hra
  | cons c rest =>
    obtain ⟨hedge, _, _⟩ := walkPath_found rest c vr p d hw
    exact Or.inr ⟨p, _, hedge⟩

theorem dirPerm_dir {s : Store} {d : Ino} {m : Meta} {ch : List (Bytes × Ino)} (hg : s.get d = some (.dir m ch))
    (want : Nat) (v : View) : dirPerm s d want v = checkPerm m want v := by
  simp [dirPerm, hg, Node.meta]

/-- one step of the reference at a directory reached so far -/
theorem Reaches.snoc {s : Store} {v : View} {vr : Ino} {done : List Bytes} {d : Ino} (h : Reaches s v vr done d)
    (c : Bytes) : walkPath s v vr (done ++ [c]) = walkPath s v d [c] := by
  obtain ⟨⟨p, hw⟩, hdir⟩ := h
  exact px3_walkPath_append done vr p d [c] hw hdir (by simp)

/-- the chain phase: from a writable, searchable directory in which the next component is missing, the reference makes
    the chain — provided the directories it makes can be written and searched by their creator when more follow -/
theorem posixMkdirAll_chain (v : View) (perm : Nat) (vr root : Ino) :
    ∀ (todo : List Bytes) (c : Bytes) (s : Store) (done : List Bytes) (d : Ino),
      WF s root → (vr = root ∨ ∃ p pn, Edge s p pn vr) → Reaches s v vr done d → s.child d c = none →
      dirPerm s d (omWrite ||| omLookup) v = true →
      (todo ≠ [] → checkPerm (newDirMeta v perm) (omWrite ||| omLookup) v = true) →
      posixMkdirAll v perm vr s done (c :: todo) = some (mkChain v perm s d (c :: todo), .ok .unit) := by
  intro todo
  induction todo with
  | nil =>
    intro c s done d hwf hra hr hno hdp _
    obtain ⟨md, chd, hgd⟩ := isDirAt_iff.mp hr.2
    have hlook : checkPerm md omLookup v = true := checkPerm_wx_lookup md v (by rw [← dirPerm_dir hgd]; exact hdp)
    have hstep : walkPath s v vr (done ++ [c]) = .missingLast d c := by
      rw [hr.snoc c]
      simp [walkPath, hgd, hlook, hno]
    simp [posixMkdirAll, hstep, posixMkdir, hdp, mkChain]
  | cons c2 rest ih =>
    intro c s done d hwf hra hr hno hdp hperm
    have hperm := hperm (by simp)
    obtain ⟨md, chd, hgd⟩ := isDirAt_iff.mp hr.2
    have hlook : checkPerm md omLookup v = true := checkPerm_wx_lookup md v (by rw [← dirPerm_dir hgd]; exact hdp)
    have hstep : walkPath s v vr (done ++ [c]) = .missingLast d c := by
      rw [hr.snoc c]
      simp [walkPath, hgd, hlook, hno]
    have hla := leafAdded_createDir (fresh_of_wf hwf) v perm hr.2 hno
    have hwf1 : WF (createDir s v d c perm).1 root := wf_createDir v perm hwf hr.2 (hr.attached hra) hno
    have hra1 : vr = root ∨ ∃ p pn, Edge (createDir s v d c perm).1 p pn vr := by
      rcases hra with h | ⟨p, pn, h⟩
      · exact Or.inl h
      · exact Or.inr ⟨p, pn, hla.child_keep h⟩
    obtain ⟨chd', hgd'⟩ := hla.get_dir hgd
    have hr1 : Reaches (createDir s v d c perm).1 v vr (done ++ [c]) s.next := by
      obtain ⟨⟨p, hw⟩, hdir⟩ := hr
      have hw1 := hla.walkPath_found hwf (v := v) done vr p d hw
      have hdir1 : isDirAt (createDir s v d c perm).1 d = true := isDirAt_of_get hgd'
      refine ⟨⟨d, ?_⟩, isDirAt_of_get hla.getNew⟩
      rw [px3_walkPath_append done vr p d [c] hw1 hdir1 (by simp)]
      have hch := hla.childPar c
      simp only [if_true] at hch
      simp [walkPath, hgd', hlook, hch, hla.getNew]
    have hno1 : (createDir s v d c perm).1.child s.next c2 = none := by
      simp [Store.child, Store.children_of_dir hla.getNew, AL.lookup]
    have hdp1 : dirPerm (createDir s v d c perm).1 s.next (omWrite ||| omLookup) v = true := by
      rw [dirPerm_dir hla.getNew]; exact hperm
    have hrec := ih c2 (createDir s v d c perm).1 (done ++ [c]) s.next hwf1 hra1 hr1 hno1 hdp1 (fun _ => hperm)
    have hd1 : (createDir s v d c perm).2 = s.next := rfl
    rw [posixMkdirAll]
    simp only [hstep, posixMkdir, hdp, if_true]
    rw [hrec]
    simp [mkChain, hd1]

/-- the walking phase: as long as the prefixes are directories the reference changes nothing; then it is the model's
    descent `mkWalk` that tells what happens -/
theorem posixMkdirAll_walk (v : View) (perm : Nat) (vr root : Ino) (s : Store) (hwf : WF s root)
    (hra : vr = root ∨ ∃ p pn, Edge s p pn vr) :
    ∀ (todo done : List Bytes) (d : Ino), Reaches s v vr done d →
      match mkWalk s v d todo with
      | .isDir => posixMkdirAll v perm vr s done todo = some (s, .ok .unit)
      | .isFile => posixMkdirAll v perm vr s done todo = some (s, .err .ENOTDIR)
      | .denied => posixMkdirAll v perm vr s done todo = some (s, .err .EACCES)
      | .missing d' todo' =>
          (todo'.length ≥ 2 → checkPerm (newDirMeta v perm) (omWrite ||| omLookup) v = true) →
          posixMkdirAll v perm vr s done todo =
            some (if dirPerm s d' (omWrite ||| omLookup) v then (mkChain v perm s d' todo', .ok .unit)
                  else (s, .err .EACCES))
      | .viaLink => posixMkdirAll v perm vr s done todo = none := by
  intro todo
  induction todo with
  | nil => intro done d _; simp [mkWalk, posixMkdirAll]
  | cons c todo ih =>
    intro done d hr
    obtain ⟨md, chd, hgd⟩ := isDirAt_iff.mp hr.2
    have hsn := hr.snoc c
    by_cases hden : checkPerm md omLookup v = true
    · cases hch : s.child d c with
      | none =>
        have hw : mkWalk s v d (c :: todo) = .missing d (c :: todo) := by simp [mkWalk, hgd, hden, hch]
        rw [hw]
        simp only []
        intro hperm
        by_cases hdp : dirPerm s d (omWrite ||| omLookup) v = true
        · rw [posixMkdirAll_chain v perm vr root todo c s done d hwf hra hr hch hdp
            (fun hne => hperm (by cases todo with | nil => exact absurd rfl hne | cons a b => simp))]
          simp [hdp]
        · have hstep : walkPath s v vr (done ++ [c]) = .missingLast d c := by
            rw [hsn]; simp [walkPath, hgd, hden, hch]
          simp [posixMkdirAll, hstep, posixMkdir, hdp]
      | some i =>
        have halloc := hwf.alloc d c i hch
        cases hg : s.get i with
        | none => simp [hg] at halloc
        | some n =>
          cases n with
          | dir mi chi =>
            have hstep : walkPath s v vr (done ++ [c]) = .found d i := by
              rw [hsn]; simp [walkPath, hgd, hden, hch, hg]
            have hr' : Reaches s v vr (done ++ [c]) i := ⟨⟨d, hstep⟩, isDirAt_of_get hg⟩
            have hw : mkWalk s v d (c :: todo) = mkWalk s v i todo := by simp [mkWalk, hgd, hden, hch, hg]
            have hrec := ih (done ++ [c]) i hr'
            have hunf : posixMkdirAll v perm vr s done (c :: todo) = posixMkdirAll v perm vr s (done ++ [c]) todo := by
              rw [posixMkdirAll]
              simp [hstep, posixMkdir, isDirAt_of_get hg]
            rw [hw, hunf]
            exact hrec
          | file mf df nl id =>
            have hstep : walkPath s v vr (done ++ [c]) = .found d i := by
              rw [hsn]; simp [walkPath, hgd, hden, hch, hg]
            have hnd : isDirAt s i = false := by simp [isDirAt, hg]
            have hw : mkWalk s v d (c :: todo) = .isFile := by simp [mkWalk, hgd, hden, hch, hg]
            rw [hw]
            simp [posixMkdirAll, hstep, posixMkdir, hnd]
          | symlink ms lk =>
            have hstep : walkPath s v vr (done ++ [c]) = .viaLink := by
              rw [hsn]; simp [walkPath, hgd, hden, hch, hg]
            have hw : mkWalk s v d (c :: todo) = .viaLink := by simp [mkWalk, hgd, hden, hch, hg]
            rw [hw]
            simp [posixMkdirAll, hstep, posixMkdir]
    · have hden' : checkPerm md omLookup v = false := by simpa using hden
      have hstep : walkPath s v vr (done ++ [c]) = .denied := by
        rw [hsn]; simp [walkPath, hgd, hden']
      have hw : mkWalk s v d (c :: todo) = .denied := by simp [mkWalk, hgd, hden']
      rw [hw]
      simp [posixMkdirAll, hstep, posixMkdir]

/-- two or more missing components: the resolution of the whole path says `.missingDir` -/
theorem mkWalk_missing_two {s : Store} {v : View} : ∀ (cs : List Bytes) (d d' : Ino) (c c2 : Bytes) (rest : List Bytes),
    mkWalk s v d cs = .missing d' (c :: c2 :: rest) → walkPath s v d cs = .missingDir := by
  intro cs
  induction cs with
  | nil => intro d d' c c2 rest h; simp [mkWalk] at h
  | cons c0 r ih =>
    intro d d' c c2 rest h
    simp only [mkWalk] at h
    split at h
    · rename_i m chd hgd
      split at h
      · cases h
      · rename_i hden
        split at h
        · rename_i hch
          cases h
          simp [walkPath, hgd, hden, hch]
        · rename_i i hch
          split at h
          · rename_i mi chi hg
            cases r with
            | nil => simp [mkWalk] at h
            | cons r0 rs =>
              have := ih i d' c c2 rest h
              simpa [walkPath, hgd, hden, hch, hg] using this
          · cases h
          · cases h
    · cases h

/-- GENERAL form (view rooted at any directory `v.root` that belongs to the tree of `root`) -/
theorem mkdirAll_posix_gen (s : Store) (root : Ino) (v : View) (hwf : WF s root)
    (hvr : ∃ m ch, s.get v.root = some (.dir m ch)) (hra : v.root = root ∨ ∃ p pn, Edge s p pn v.root)
    (cs : List Bytes) (hall : ∀ c ∈ cs, c ≠ [] ∧ ∀ x ∈ c, x ≠ SL) (hdots : ∀ c ∈ cs, c ≠ [DOT] ∧ c ≠ [DOT, DOT])
    (perm : Nat)
    (hcorner : walkPath s v v.root cs = .missingDir →
      checkPerm (newDirMeta v perm) (omWrite ||| omLookup) v = true) :
    match posixMkdirAll v perm v.root s [] cs with
    | some r => mkdirAll s v (SL :: joinWith SL cs) perm = r
    | none => True := by
  obtain ⟨mr, chr, hgr⟩ := hvr
  have hr0 : Reaches s v v.root [] v.root := ⟨⟨v.root, rfl⟩, isDirAt_of_get hgr⟩
  have hA := mkdirAll_mkWalk s root v hwf ⟨mr, chr, hgr⟩ cs hall hdots perm
  have hB := posixMkdirAll_walk v perm v.root root s hwf hra cs [] v.root hr0
  cases hw : mkWalk s v v.root cs with
  | isDir =>
    simp only [hw] at hA hB
    simp [hB, hA]
  | isFile =>
    simp only [hw] at hA hB
    simp [hB, hA]
  | denied =>
    simp only [hw] at hA hB
    simp [hB, hA]
  | missing d' todo' =>
    simp only [hw] at hA hB
    have hB' := hB (by
      intro hlen
      obtain ⟨c, c2, rest, rfl⟩ : ∃ c c2 rest, todo' = c :: c2 :: rest := by
        cases todo' with
        | nil => simp at hlen
        | cons a b =>
          cases b with
          | nil => simp at hlen
          | cons a2 b2 => exact ⟨a, a2, b2, rfl⟩
      exact hcorner (mkWalk_missing_two cs v.root d' c c2 rest hw))
    rw [hB']
    simp only []
    rw [hA]
  | viaLink =>
    simp only [hw] at hB
    simp [hB]

/-- MkdirAll of MemFS is mkdir -p of the reference `posixMkdirAll` (Mkdir of every prefix in turn, EEXIST tolerated on
    directories): same outcome and same resulting heap.
    One corner is excluded by `hcorner`, a divergence of MemFS (`mkdirAll_corner_unwritable`): when TWO OR MORE
    components are missing (`walkPath … = .missingDir`) the directories MemFS makes must be writable and searchable by
    their creator (`perm &^ umask` with the owner's w and x bits, or an administrator): MemFS checks the permission of
    the directory holding the first missing component only and then makes the whole chain, where Mkdir of the second
    missing prefix fails with EACCES in the reference (and for os.MkdirAll on Linux). -/
theorem mkdirAll_posix (s : Store) (root : Ino) (v : View) (hwf : WF s root) (hn : NamesOK s) (hv : ViewOK s v)
    (hroot : v.root = root) (cs : List Bytes) (hall : ∀ c ∈ cs, c ≠ [] ∧ ∀ x ∈ c, x ≠ SL)
    (hdots : ∀ c ∈ cs, c ≠ [DOT] ∧ c ≠ [DOT, DOT]) (perm : Nat)
    (hcorner : walkPath s v root cs = .missingDir →
      checkPerm (newDirMeta v perm) (omWrite ||| omLookup) v = true) :
    match posixMkdirAll v perm root s [] cs with
    | some r => mkdirAll s v (SL :: joinWith SL cs) perm = r
    | none => True := by
  subst hroot
  exact mkdirAll_posix_gen s v.root v hwf (get_of_isDirAt hwf.rootDir) (Or.inl rfl) cs hall hdots perm hcorner

/-! #### the same, spelled out by the resolution of the whole path -/

/-- the first missing component: the components before it lead to the directory `d'` -/
theorem mkWalk_missing_reaches {s : Store} {v : View} : ∀ (cs : List Bytes) (x d' : Ino) (todo : List Bytes),
    mkWalk s v x cs = .missing d' todo →
    ∃ pre, cs = pre ++ todo ∧ (∃ p, walkPath s v x pre = .found p d') := by
  intro cs
  induction cs with
  | nil => intro x d' todo h; simp [mkWalk] at h
  | cons c rest ih =>
    intro x d' todo h
    simp only [mkWalk] at h
    split at h
    · rename_i m chd hgd
      split at h
      · cases h
      · rename_i hden
        split at h
        · cases h
          exact ⟨[], rfl, x, rfl⟩
        · rename_i i hch
          split at h
          · rename_i mi chi hg
            obtain ⟨pre', hpre, p, hw⟩ := ih i d' todo h
            refine ⟨c :: pre', by rw [hpre]; rfl, ?_⟩
            cases pre' with
            | nil =>
              simp only [walkPath] at hw
              cases hw
              exact ⟨x, by simp [walkPath, hgd, hden, hch, hg]⟩
            | cons p0 ps => exact ⟨p, by simpa [walkPath, hgd, hden, hch, hg] using hw⟩
          · cases h
          · cases h
    · cases h

/-- the descent of MkdirAll in terms of the resolution of the whole path -/
theorem mkWalk_of_walkPath {s : Store} {root : Ino} {v : View} (hwf : WF s root) :
    ∀ (cs : List Bytes) (x : Ino), isDirAt s x = true →
      match walkPath s v x cs with
      | .found _ c => mkWalk s v x cs = if isDirAt s c then .isDir else .isFile
      | .missingLast par name => mkWalk s v x cs = .missing par [name]
      | .missingDir => ∃ d' c c2 rest, mkWalk s v x cs = .missing d' (c :: c2 :: rest)
      | .notDir => mkWalk s v x cs = .isFile
      | .denied => mkWalk s v x cs = .denied
      | .viaLink => mkWalk s v x cs = .viaLink := by
  intro cs
  induction cs with
  | nil => intro x hx; simp [walkPath, mkWalk, hx]
  | cons c rest ih =>
    intro x hx
    obtain ⟨m, chd, hgx⟩ := isDirAt_iff.mp hx
    by_cases hden : checkPerm m omLookup v = true
    · cases hch : s.child x c with
      | none =>
        cases rest with
        | nil => simp [walkPath, mkWalk, hgx, hden, hch]
        | cons c2 cs => simp [walkPath, mkWalk, hgx, hden, hch]
      | some i =>
        have halloc := hwf.alloc x c i hch
        cases hg : s.get i with
        | none => simp [hg] at halloc
        | some n =>
          cases n with
          | dir mi chi =>
            cases rest with
            | nil => simp [walkPath, mkWalk, hgx, hden, hch, hg, isDirAt]
            | cons c2 cs =>
              have := ih i (isDirAt_of_get hg)
              simpa [walkPath, mkWalk, hgx, hden, hch, hg] using this
          | file mf df nl id =>
            cases rest with
            | nil => simp [walkPath, mkWalk, hgx, hden, hch, hg, isDirAt]
            | cons c2 cs => simp [walkPath, mkWalk, hgx, hden, hch, hg]
          | symlink ms lk =>
            cases rest with
            | nil => simp [walkPath, mkWalk, hgx, hden, hch, hg]
            | cons c2 cs => simp [walkPath, mkWalk, hgx, hden, hch, hg]
    · have hden' : checkPerm m omLookup v = false := by simpa using hden
      cases rest <;> simp [walkPath, mkWalk, hgx, hden']

/-- MkdirAll by the resolution of the whole path (no hypothesis on `perm`, no corner):
    * the path resolves: nothing changes; nil for a directory, ENOTDIR for a regular file;
    * only the last component is missing: MkdirAll is Mkdir;
    * a regular file / an unsearchable directory on the way: ENOTDIR / EACCES, nothing changes;
    * an inner component is missing: the path splits into `pre ++ todo`, `pre` leads to a directory `d` in which the
      first of the (two or more) components `todo` is missing; EACCES when the caller may not write and search `d`,
      else exactly the chain `todo` is made below `d` (`mkChain`: every directory by `createDir`, mode `perm &^ umask`,
      owned by the caller) — without any further permission check (`mkdirAll_corner_unwritable`). -/
theorem mkdirAll_cases (s : Store) (root : Ino) (v : View) (hwf : WF s root) (hn : NamesOK s) (hv : ViewOK s v)
    (hroot : v.root = root) (cs : List Bytes) (hall : ∀ c ∈ cs, c ≠ [] ∧ ∀ x ∈ c, x ≠ SL)
    (hdots : ∀ c ∈ cs, c ≠ [DOT] ∧ c ≠ [DOT, DOT]) (perm : Nat) :
    match walkPath s v root cs with
    | .found _ c => mkdirAll s v (SL :: joinWith SL cs) perm =
        (s, if isDirAt s c then .ok .unit else .err .ENOTDIR)
    | .missingLast par name => mkdirAll s v (SL :: joinWith SL cs) perm =
        if dirPerm s par (omWrite ||| omLookup) v then ((createDir s v par name perm).1, .ok .unit)
        else (s, .err .EACCES)
    | .missingDir => ∃ pre todo d p, cs = pre ++ todo ∧ todo.length ≥ 2 ∧ walkPath s v root pre = .found p d ∧
        isDirAt s d = true ∧ s.child d (todo.headD []) = none ∧
        mkdirAll s v (SL :: joinWith SL cs) perm =
          if dirPerm s d (omWrite ||| omLookup) v then (mkChain v perm s d todo, .ok .unit) else (s, .err .EACCES)
    | .notDir => mkdirAll s v (SL :: joinWith SL cs) perm = (s, .err .ENOTDIR)
    | .denied => mkdirAll s v (SL :: joinWith SL cs) perm = (s, .err .EACCES)
    | .viaLink => True := by
  subst hroot
  have hA := mkdirAll_mkWalk s v.root v hwf (get_of_isDirAt hwf.rootDir) cs hall hdots perm
  have hW := mkWalk_of_walkPath (v := v) hwf cs v.root hwf.rootDir
  cases hw : walkPath s v v.root cs with
  | found p c =>
    simp only [hw] at hW
    by_cases hd : isDirAt s c = true
    · simp only [hd, if_true] at hW ⊢
      simpa [hW] using hA
    · simp only [hd] at hW ⊢
      simpa [hW] using hA
  | missingLast par name =>
    simp only [hw] at hW
    simp only [hW] at hA
    simpa [mkChain] using hA
  | missingDir =>
    simp only [hw] at hW
    obtain ⟨d', c, c2, rest, hW⟩ := hW
    simp only [hW] at hA
    obtain ⟨pre, hpre, p, hwp⟩ := mkWalk_missing_reaches cs v.root d' _ hW
    obtain ⟨_, ⟨c', rs', hcr, hno⟩, hdir⟩ := mkWalk_missing_suffix s v cs v.root d' _ hW
    cases hcr
    exact ⟨pre, c :: c2 :: rest, d', p, hpre, by simp, hwp, hdir, by simpa using hno, hA⟩
  | notDir =>
    simp only [hw] at hW
    simpa [hW] using hA
  | denied =>
    simp only [hw] at hW
    simpa [hW] using hA
  | viaLink => trivial

/-! #### MkdirAll on the concrete heap of Lemmas/Posix.lean -/

/-- "/a/b" and "/" exist: nil, nothing changes; "/a/f" is a regular file: ENOTDIR, also below it; the user may not
    write "/a" (EACCES) nor search "/a/b" (EACCES) -/
example : mkdirAll pxStore exView [SL, 97, SL, 98] 0o755 = (pxStore, .ok .unit) ∧
    mkdirAll pxStore exView [SL] 0o755 = (pxStore, .ok .unit) ∧
    mkdirAll pxStore exView [SL, 97, SL, 102] 0o755 = (pxStore, .err .ENOTDIR) ∧
    mkdirAll pxStore exView [SL, 97, SL, 102, SL, 120] 0o755 = (pxStore, .err .ENOTDIR) ∧
    mkdirAll pxStore exView [SL, 97, SL, 120, SL, 121] 0o755 = (pxStore, .err .EACCES) ∧
    mkdirAll pxStore exView [SL, 97, SL, 98, SL, 120] 0o755 = (pxStore, .err .EACCES) := by
  have hp : checkPerm (newDirMeta exView 0o755) (omWrite ||| omLookup) exView = true := by decide
  have h1 := mkdirAll_posix pxStore 0 exView pxStore_wf.1 pxStore_wf.2 pxView_ok rfl [cA, [98]] (by decide)
    (by decide) 0o755 (fun _ => hp)
  have h2 := mkdirAll_posix pxStore 0 exView pxStore_wf.1 pxStore_wf.2 pxView_ok rfl [] (by decide)
    (by decide) 0o755 (fun _ => hp)
  have h3 := mkdirAll_posix pxStore 0 exView pxStore_wf.1 pxStore_wf.2 pxView_ok rfl [cA, [102]] (by decide)
    (by decide) 0o755 (fun _ => hp)
  have h4 := mkdirAll_posix pxStore 0 exView pxStore_wf.1 pxStore_wf.2 pxView_ok rfl [cA, [102], [120]] (by decide)
    (by decide) 0o755 (fun _ => hp)
  have h5 := mkdirAll_posix pxStore 0 exView pxStore_wf.1 pxStore_wf.2 pxView_ok rfl [cA, [120], [121]] (by decide)
    (by decide) 0o755 (fun _ => hp)
  have h6 := mkdirAll_posix pxStore 0 exView pxStore_wf.1 pxStore_wf.2 pxView_ok rfl [cA, [98], [120]] (by decide)
    (by decide) 0o755 (fun _ => hp)
  have hr1 : posixMkdirAll exView 0o755 0 pxStore [] [cA, [98]] = some (pxStore, .ok .unit) := by decide +kernel
  have hr2 : posixMkdirAll exView 0o755 0 pxStore [] [] = some (pxStore, .ok .unit) := by decide +kernel
  have hr3 : posixMkdirAll exView 0o755 0 pxStore [] [cA, [102]] = some (pxStore, .err .ENOTDIR) := by decide +kernel
  have hr4 : posixMkdirAll exView 0o755 0 pxStore [] [cA, [102], [120]] = some (pxStore, .err .ENOTDIR) := by
    decide +kernel
  have hr5 : posixMkdirAll exView 0o755 0 pxStore [] [cA, [120], [121]] = some (pxStore, .err .EACCES) := by
    decide +kernel
  have hr6 : posixMkdirAll exView 0o755 0 pxStore [] [cA, [98], [120]] = some (pxStore, .err .EACCES) := by
    decide +kernel
  simp only [hr1] at h1
  simp only [hr2] at h2
  simp only [hr3] at h3
  simp only [hr4] at h4
  simp only [hr5] at h5
  simp only [hr6] at h6
  exact ⟨h1, h2, h3, h4, h5, h6⟩

/-- MkdirAll("/tmp/x/y/z", 0755) by the user 1000: the chain x/y/z below /tmp (3) is made: inodes 10, 11, 12, each a
    directory of mode 0755 owned by 1000:1000; the new heap is a well-formed tree in which the path resolves -/
example :
    let s' := (mkdirAll pxStore exView [SL, 116, 109, 112, SL, 120, SL, 121, SL, 122] 0o755).1
    mkdirAll pxStore exView [SL, 116, 109, 112, SL, 120, SL, 121, SL, 122] 0o755 =
      (mkChain exView 0o755 pxStore 3 [[120], [121], [122]], .ok .unit) ∧
    wfCheck s' 0 = true ∧ walkPath s' exView 0 [cTmp, [120], [121], [122]] = .found 11 12 ∧
    s'.get 12 = some (.dir ⟨0o755, 1000, 1000, none⟩ []) ∧ s'.get 11 = some (.dir ⟨0o755, 1000, 1000, none⟩ [([122], 12)]) ∧
    s'.next = 13 := by
  intro s'
  have hp : checkPerm (newDirMeta exView 0o755) (omWrite ||| omLookup) exView = true := by decide
  have h := mkdirAll_posix pxStore 0 exView pxStore_wf.1 pxStore_wf.2 pxView_ok rfl [cTmp, [120], [121], [122]]
    (by decide) (by decide) 0o755 (fun _ => hp)
  have hr : posixMkdirAll exView 0o755 0 pxStore [] [cTmp, [120], [121], [122]] =
      some (mkChain exView 0o755 pxStore 3 [[120], [121], [122]], .ok .unit) := by decide +kernel
  simp only [hr] at h
  have h' : mkdirAll pxStore exView [SL, 116, 109, 112, SL, 120, SL, 121, SL, 122] 0o755 =
      (mkChain exView 0o755 pxStore 3 [[120], [121], [122]], .ok .unit) := h
  have hs' : s' = mkChain exView 0o755 pxStore 3 [[120], [121], [122]] := by
    show (mkdirAll pxStore exView _ 0o755).1 = _
    rw [h']
  refine ⟨h', ?_⟩
  rw [hs']
  decide +kernel

/-- CORNER (finding): MkdirAll("/tmp/x/y", 0500) by the user 1000 (umask 022): two components are missing and the mode
    of the directories to make, 0500, does not let their owner write them. The reference (as os.MkdirAll on Linux) makes
    "/tmp/x" and then fails: Mkdir("/tmp/x/y") = EACCES. MemFS checks only "/tmp" and makes both directories.
    History: memfs.New(); as user 1000 MkdirAll("/tmp/x/y", 0500) = nil, Stat("/tmp/x/y") succeeds. -/
theorem mkdirAll_corner_unwritable :
    walkPath pxStore exView 0 [cTmp, [120], [121]] = .missingDir ∧
    checkPerm (newDirMeta exView 0o500) (omWrite ||| omLookup) exView = false ∧
    posixMkdirAll exView 0o500 0 pxStore [] [cTmp, [120], [121]] =
      some ((createDir pxStore exView 3 [120] 0o500).1, .err .EACCES) ∧
    mkdirAll pxStore exView [SL, 116, 109, 112, SL, 120, SL, 121] 0o500 =
      (mkChain exView 0o500 pxStore 3 [[120], [121]], .ok .unit) := by
  decide +kernel


/-! ### 5. rm -rf (RemoveAll) -/

/-! #### what the removing primitives keep of a node -/

/-- kind, attributes, file content and file id are kept; the entries of a directory, the link count of a file and the
    target of a symbolic link may differ -/
def NodeKeep : Option Node → Option Node → Prop
  | none, none => True
  | some (.dir m _), some (.dir m' _) => m' = m
  | some (.file m d _ id), some (.file m' d' _ id') => m' = m ∧ d' = d ∧ id' = id
  | some (.symlink m _), some (.symlink m' _) => m' = m
  | _, _ => False

theorem NodeKeep.refl (o : Option Node) : NodeKeep o o := by
  cases o with
  | none => trivial
  | some n => cases n <;> simp [NodeKeep]

theorem NodeKeep.trans {a b c : Option Node} (h1 : NodeKeep a b) (h2 : NodeKeep b c) : NodeKeep a c := by
  cases a <;> cases b <;> cases c <;> simp only [NodeKeep] at h1 h2 ⊢
  rename_i x y z
  cases x <;> cases y <;> cases z <;> simp only [NodeKeep] at h1 h2 ⊢
  · exact h2.trans h1
  · exact ⟨h2.1.trans h1.1, h2.2.1.trans h1.2.1, h2.2.2.trans h1.2.2⟩
  · exact h2.trans h1

/-- no inode is allocated or dropped, and every node keeps kind, attributes, content and id -/
structure Keeps (s r : Store) : Prop where
  next : r.next = s.next
  lastId : r.lastId = s.lastId
  node : ∀ x, NodeKeep (s.get x) (r.get x)

theorem Keeps.refl (s : Store) : Keeps s s := ⟨rfl, rfl, fun _ => NodeKeep.refl _⟩

theorem Keeps.trans {s r t : Store} (h1 : Keeps s r) (h2 : Keeps r t) : Keeps s t :=
  ⟨h2.next.trans h1.next, h2.lastId.trans h1.lastId, fun x => (h1.node x).trans (h2.node x)⟩

theorem Keeps.set {s : Store} {i : Ino} {n n' : Node} (hg : s.get i = some n) (hk : NodeKeep (some n) (some n')) :
    Keeps s (s.set i n') := by
  refine ⟨rfl, rfl, fun x => ?_⟩
  rw [hr_get_set]
  by_cases h : i = x
  · subst h; simp only [if_true, hg]; exact hk
  · simp only [h, if_false]; exact NodeKeep.refl _

theorem Keeps.removeChild (s : Store) (d : Ino) (n : Bytes) : Keeps s (removeChild s d n) := by
  unfold Avfs.FS.removeChild
  split
  · rename_i hg; exact Keeps.set hg rfl
  · exact Keeps.refl s

theorem Keeps.deleteNode (s : Store) (c : Ino) : Keeps s (deleteNode s c) := by
  unfold Avfs.FS.deleteNode
  split
  · rename_i hg; exact Keeps.set hg rfl
  · rename_i hg; exact Keeps.set hg ⟨rfl, rfl, rfl⟩
  · rename_i hg; exact Keeps.set hg rfl
  · exact Keeps.refl s

theorem Keeps.isDir {s r : Store} (h : Keeps s r) (x : Ino) : isDirAt r x = isDirAt s x := by
  have := h.node x
  unfold isDirAt
  cases h1 : s.get x <;> cases h2 : r.get x <;> simp_all [NodeKeep]
  rename_i a b
  cases a <;> cases b <;> simp_all [NodeKeep]

theorem Keeps.meta {s r : Store} (h : Keeps s r) (x : Ino) : (r.get x).map Node.meta = (s.get x).map Node.meta := by
  have := h.node x
  cases h1 : s.get x <;> cases h2 : r.get x <;> simp_all [NodeKeep]
  rename_i a b
  cases a <;> cases b <;> simp_all [NodeKeep, Node.meta]

theorem Keeps.dirPerm {s r : Store} (h : Keeps s r) (x : Ino) (w : Nat) (v : View) :
    dirPerm r x w v = dirPerm s x w v := by
  have := h.meta x
  unfold Avfs.FS.dirPerm
  cases h1 : s.get x <;> cases h2 : r.get x <;> simp_all

theorem Keeps.restrictedDeletion {s r : Store} (h : Keeps s r) (v : View) (p c : Ino) :
    restrictedDeletion r v p c = restrictedDeletion s v p c := by
  have hp := h.meta p
  have hc := h.meta c
  unfold Avfs.FS.restrictedDeletion
  cases h1 : s.get p <;> cases h2 : r.get p <;> cases h3 : s.get c <;> cases h4 : r.get c <;> simp_all

theorem keeps_removeAllRec (v : View) : ∀ (fuel : Nat) (s : Store) (d : Ino),
    Keeps s (removeAllRec v fuel s d).1 := by
  intro fuel
  induction fuel with
  | zero => intro s d; rw [removeAllRec]; exact Keeps.refl s
  | succ fuel ih =>
    intro s d
    have hgo : ∀ (L : List Bytes) (s : Store), Keeps s (removeAllRec.go v fuel d s L).1 := by
      intro L
      induction L with
      | nil => intro s; rw [removeAllRec.go]; exact Keeps.refl s
      | cons nm rest ihL =>
        intro s
        rw [removeAllRec.go]
        split
        · exact ihL s
        · split
          · have h1 := ih s ‹Ino›
            generalize removeAllRec v fuel s ‹Ino› = r at *
            obtain ⟨s1, e⟩ := r
            cases e with
            | some e => exact h1
            | none =>
              dsimp only at h1 ⊢
              split
              · exact h1
              · exact h1.trans (((Keeps.deleteNode s1 _).trans (Keeps.removeChild _ d nm)).trans (ihL _))
          · split
            · exact Keeps.refl s
            · exact ((Keeps.deleteNode s _).trans (Keeps.removeChild _ d nm)).trans (ihL _)
    rw [removeAllRec]
    split
    · exact Keeps.refl s
    · exact hgo _ s

/-! #### when a directory has lost all its entries, so has everything below it -/

/-- in a well-formed heap `r` whose entries are entries of the well-formed `s`: if `d` has no entry left in `r`, no node
    that was at or below `d` in `s` has one (a directory that still has entries is still attached) -/
theorem cleared_below {root : Ino} {s r : Store} (hwf : WF s root) (hwr : WF r root)
    (hmono : ∀ a n x, Edge r a n x → Edge s a n x) {d : Ino} (hd : ∀ n x, ¬ Edge r d n x) :
    ∀ a, Desc s d a → ∀ n x, ¬ Edge r a n x := by
  intro a hda
  induction hda with
  | refl => exact hd
  | step p n' c' _ he ih =>
    intro n x hex
    have hcs : isDirAt s c' = true := hr_isDir_of_edge (hmono _ _ _ hex)
    rcases hwr.attached c' n x hex with h | ⟨q, qn, hq⟩
    · subst h
      exact hwf.rootNoParent _ _ he
    · have hq' := hmono _ _ _ hq
      obtain ⟨e1, e2⟩ := hwf.uniqueParent _ _ _ _ _ hq' he hcs
      subst e1; subst e2
      exact ih _ _ hq

theorem al_nil_of_lookup_none {κ ν : Type} [DecidableEq κ] (l : List (κ × ν)) (h : ∀ k, AL.lookup k l = none) :
    l = [] := by
  cases l with
  | nil => rfl
  | cons p l =>
    obtain ⟨k, v⟩ := p
    have := h k
    simp [AL.lookup] at this

/-- a directory without entries, whose attributes were kept, is the empty directory -/
theorem emptied_dir {s r : Store} (hk : Keeps s r) {x : Ino} {m : Meta} {ch : List (Bytes × Ino)}
    (hg : s.get x = some (.dir m ch)) (hno : ∀ n y, ¬ Edge r x n y) : r.get x = some (.dir m []) := by
  have := hk.node x
  rw [hg] at this
  cases hr : r.get x with
  | none => simp [hr, NodeKeep] at this
  | some n =>
    cases n with
    | dir m' ch' =>
      simp only [hr, NodeKeep] at this
      subst this
      have : ch' = [] := by
        apply al_nil_of_lookup_none
        intro k
        cases hl : AL.lookup k ch' with
        | none => rfl
        | some y =>
          exfalso
          apply hno k y
          simp [Edge, Store.child, Store.children_of_dir hr, hl]
      rw [this]
    | file _ _ _ _ => simp [hr, NodeKeep] at this
    | symlink _ _ => simp [hr, NodeKeep] at this

/-! #### the fuel of `removeAllRec`: the number of inodes at or below the directory -/

noncomputable def descCount (s : Store) (d : Ino) : Nat :=
  ((List.range s.next).filter (fun i => @decide (Desc s d i) (Classical.propDecidable _))).length

theorem filter_length_lt {α : Type} (p q : α → Bool) (x : α) : ∀ (l : List α), (∀ a, p a = true → q a = true) →
    x ∈ l → q x = true → p x = false → (l.filter p).length < (l.filter q).length := by
  intro l
  induction l with
  | nil => intro _ h; cases h
  | cons a l ih =>
    intro hpq hx hqx hpx
    have hle : (l.filter p).length ≤ (l.filter q).length := by
      clear ih hx
      induction l with
      | nil => simp
      | cons b l ihl =>
        simp only [List.filter_cons]
        cases hpb : p b with
        | true => simp [hpq b hpb]; exact ihl
        | false =>
          cases hqb : q b with
          | true => simp; omega
          | false => simpa using ihl
    rcases List.mem_cons.1 hx with rfl | hx
    · simp only [List.filter_cons, hqx, hpx, if_true]
      simp
      omega
    · have := ih hpq hx hqx hpx
      simp only [List.filter_cons]
      cases hpa : p a with
      | true => simp [hpq a hpa]; exact this
      | false =>
        cases hqa : q a with
        | true => simp; omega
        | false => simpa using this

theorem descCount_le (s : Store) (d : Ino) : descCount s d ≤ s.next := by
  unfold descCount
  have := List.length_filter_le (fun i => @decide (Desc s d i) (Classical.propDecidable _)) (List.range s.next)
  simpa using this

theorem descCount_lt {s s1 : Store} {d c : Ino} (hn : s1.next = s.next) (hsub : ∀ x, Desc s1 c x → Desc s d x)
    (hd : ¬ Desc s1 c d) (hlt : d < s.next) : descCount s1 c < descCount s d := by
  unfold descCount
  rw [hn]
  apply filter_length_lt _ _ d
  · intro a ha
    simp only [decide_eq_true_eq] at ha ⊢
    exact hsub a ha
  · simp; exact hlt
  · simp; exact Desc.refl
  · simp; exact hd

theorem filter_length_le {α : Type} (p q : α → Bool) : ∀ (l : List α), (∀ a, p a = true → q a = true) →
    (l.filter p).length ≤ (l.filter q).length := by
  intro l hpq
  induction l with
  | nil => simp
  | cons b l ihl =>
    simp only [List.filter_cons]
    cases hpb : p b with
    | true => simp [hpq b hpb]; exact ihl
    | false =>
      cases hqb : q b with
      | true => simp; omega
      | false => simpa using ihl

theorem descCount_mono {s s1 : Store} {c : Ino} (hn : s1.next = s.next) (hsub : ∀ x, Desc s1 c x → Desc s c x) :
    descCount s1 c ≤ descCount s c := by
  unfold descCount
  rw [hn]
  apply filter_length_le
  intro a ha
  simp only [decide_eq_true_eq] at ha ⊢
  exact hsub a ha

theorem Desc.cases_head {s : Store} {d x : Ino} (h : Desc s d x) : x = d ∨ ∃ n c, Edge s d n c ∧ Desc s c x := by
  induction h with
  | refl => exact Or.inl rfl
  | step p n x' _ he ih =>
    rcases ih with rfl | ⟨n0, c0, he0, hd0⟩
    · exact Or.inr ⟨n, x', he, Desc.refl⟩
    · exact Or.inr ⟨n0, c0, he0, Desc.step p n x' hd0 he⟩

theorem Desc.trans {s : Store} {a b c : Ino} (h1 : Desc s a b) (h2 : Desc s b c) : Desc s a c := by
  induction h2 with
  | refl => exact h1
  | step p n x _ he ih => exact Desc.step p n x ih he

/-- every directory at or below `d` may be written by the caller: what `removeAllRec` asks for -/
def TreeWritable (s : Store) (v : View) (d : Ino) : Prop :=
  ∀ x, Desc s d x → isDirAt s x = true → dirPerm s x omWrite v = true

/-- no entry of a directory at or below `d` is under restricted deletion for the caller (sticky bit of the directory
    that holds it): the second thing `removeAllRec` asks for, since the repair of RemoveAll -/
def TreeUnrestricted (s : Store) (v : View) (d : Ino) : Prop :=
  ∀ a n x, Desc s d a → Edge s a n x → restrictedDeletion s v a x = false

/-! #### one entry of `d` released after its subtree was emptied -/

section Step
variable {root : Ino} {s1 s2 : Store} {d c : Ino} {nm : Bytes}

theorem ra_step_child (hwf : WF s1 root) (he : Edge s1 d nm c) (h1 : RAGood root s1 c s2) (nm' : Bytes) :
    (removeChild (deleteNode s2 c) d nm).child d nm' = if nm' = nm then none else s1.child d nm' := by
  have hdc : d ≠ c := by
    intro e
    exact no_self_edge hwf (hr_isDir_of_edge he) (n := nm) (e ▸ he)
  rw [hr_child_removeChild, hr_child_deleteNode]
  by_cases h : nm' = nm
  · simp [h]
  · simp only [h, and_false, if_false, hdc]
    exact hr_child_of_get_eq (h1.frame d (hr_not_desc_child hwf he)) nm'

theorem ra_step_mono (he : Edge s1 d nm c) (h1 : RAGood root s1 c s2) :
    ∀ a n x, Edge (removeChild (deleteNode s2 c) d nm) a n x → Edge s1 a n x := by
  intro a n x h
  apply h1.mono
  unfold Edge at h ⊢
  rw [hr_child_removeChild, hr_child_deleteNode] at h
  split at h
  · cases h
  · split at h
    · cases h
    · exact h

theorem ra_step_keeps (hk : Keeps s1 s2) : Keeps s1 (removeChild (deleteNode s2 c) d nm) :=
  hk.trans ((Keeps.deleteNode s2 c).trans (Keeps.removeChild _ d nm))

/-- a path of `s1` survives the step, or leads into the emptied subtree, or passes through `d` -/
theorem ra_step_chain (hwf : WF s1 root) (he : Edge s1 d nm c) (h1 : RAGood root s1 c s2) (c' : Ino) :
    ∀ a, Desc s1 c' a → Desc (removeChild (deleteNode s2 c) d nm) c' a ∨ Desc s1 c a ∨ Desc s1 c' d := by
  intro a ha
  induction ha with
  | refl => exact Or.inl Desc.refl
  | step p n x hp he' ih =>
    rcases ih with h | h | h
    · by_cases hpd : p = d
      · subst hpd; exact Or.inr (Or.inr hp)
      · by_cases hpc : Desc s1 c p
        · exact Or.inr (Or.inl (Desc.step p n x hpc he'))
        · have hpc' : p ≠ c := by rintro rfl; exact hpc Desc.refl
          have hg : (removeChild (deleteNode s2 c) d nm).get p = s1.get p := by
            rw [hr_get_removeChild_ne _ _ _ _ hpd, hr_get_deleteNode_ne _ _ _ hpc', h1.frame p hpc]
          refine Or.inl (Desc.step p n x h ?_)
          unfold Edge
          rw [hr_child_of_get_eq hg]
          exact he'
    · exact Or.inr (Or.inl (Desc.step p n x h he'))
    · exact Or.inr (Or.inr h)

end Step

/-! #### the outcome of `removeAllRec`: nil iff the whole tree may be written and holds no entry under restricted
     deletion, else EACCES or EPERM -/

theorem removeAllRec_err (root : Ino) (v : View) : ∀ (fuel : Nat) (s : Store) (d : Ino), WF s root →
    isDirAt s d = true → descCount s d ≤ fuel →
    (TreeWritable s v d ∧ TreeUnrestricted s v d → (removeAllRec v fuel s d).2 = none) ∧
    (¬ (TreeWritable s v d ∧ TreeUnrestricted s v d) →
      (removeAllRec v fuel s d).2 = some .EACCES ∨ (removeAllRec v fuel s d).2 = some .EPERM) := by
  intro fuel
  induction fuel with
  | zero =>
    intro s d hwf hdir hf
    exfalso
    have hlt : d < s.next := hwf.bound d (hr_isSome_of_isDir hdir)
    have : 0 < descCount s d := by
      unfold descCount
      apply List.length_pos_iff.mpr
      intro hnil
      have hmem : d ∈ (List.range s.next).filter (fun i => @decide (Desc s d i) (Classical.propDecidable _)) := by
        simp [List.mem_filter]; exact ⟨hlt, Desc.refl⟩
      rw [hnil] at hmem
      cases hmem
    omega
  | succ fuel ih =>
    intro s d hwf hdir hf
    -- the loop over the names
    have hgo : ∀ (L : List Bytes) (s1 : Store), WF s1 root →
        (∀ n c, s1.child d n = some c → descCount s1 c ≤ fuel) →
        ((∀ n ∈ L, ∀ c, s1.child d n = some c →
            (isDirAt s1 c = true → TreeWritable s1 v c ∧ TreeUnrestricted s1 v c) ∧
            restrictedDeletion s1 v d c = false) →
          (removeAllRec.go v fuel d s1 L).2 = none) ∧
        (¬ (∀ n ∈ L, ∀ c, s1.child d n = some c →
            (isDirAt s1 c = true → TreeWritable s1 v c ∧ TreeUnrestricted s1 v c) ∧
            restrictedDeletion s1 v d c = false) →
          (removeAllRec.go v fuel d s1 L).2 = some .EACCES ∨ (removeAllRec.go v fuel d s1 L).2 = some .EPERM) := by
      intro L
      induction L with
      | nil =>
        intro s1 _ _
        rw [removeAllRec.go]
        exact ⟨fun _ => rfl, fun h => absurd (fun n hn => by cases hn) h⟩
      | cons nm rest ihL =>
        intro s1 hwf1 hcnt
        rw [removeAllRec.go]
        split
        · rename_i hnone
          obtain ⟨g1, g2⟩ := ihL s1 hwf1 hcnt
          constructor
          · intro hc
            exact g1 (fun n hn => hc n (List.mem_cons_of_mem _ hn))
          · intro hc
            apply g2
            intro hc'
            apply hc
            intro n hn c hch
            rcases List.mem_cons.1 hn with rfl | hn
            · rw [hnone] at hch; cases hch
            · exact hc' n hn c hch
        · rename_i c he
          have he : Edge s1 d nm c := he
          -- what one released entry does to the condition on the remaining names
          have hstep : ∀ (s2 : Store), RAGood root s1 c s2 → Keeps s1 s2 → (∀ n x, ¬ Edge s2 c n x) →
              (isDirAt s1 c = true → TreeWritable s1 v c ∧ TreeUnrestricted s1 v c) →
              restrictedDeletion s1 v d c = false →
              ((removeAllRec.go v fuel d (removeChild (deleteNode s2 c) d nm) rest).2 = none ↔
                (∀ n ∈ nm :: rest, ∀ c', s1.child d n = some c' →
                  (isDirAt s1 c' = true → TreeWritable s1 v c' ∧ TreeUnrestricted s1 v c') ∧
                  restrictedDeletion s1 v d c' = false)) ∧
              ((removeAllRec.go v fuel d (removeChild (deleteNode s2 c) d nm) rest).2 = none ∨
               (removeAllRec.go v fuel d (removeChild (deleteNode s2 c) d nm) rest).2 = some .EACCES ∨
               (removeAllRec.go v fuel d (removeChild (deleteNode s2 c) d nm) rest).2 = some .EPERM) := by
            intro s2 hg hk hempty hcw hrd
            have hwf3 := RAGood.step_wf hwf1 he hg hempty
            have hmono := ra_step_mono he hg
            have hk3 : Keeps s1 (removeChild (deleteNode s2 c) d nm) := ra_step_keeps hk
            have hchild := ra_step_child hwf1 he hg
            have hcnt3 : ∀ n c', (removeChild (deleteNode s2 c) d nm).child d n = some c' →
                descCount (removeChild (deleteNode s2 c) d nm) c' ≤ fuel := by
              intro n c' hch
              rw [hchild] at hch
              split at hch
              · cases hch
              · exact Nat.le_trans (descCount_mono hk3.next (fun x hx => Desc.mono hmono hx)) (hcnt n c' hch)
            obtain ⟨g1, g2⟩ := ihL _ hwf3 hcnt3
            have hiff : (∀ n ∈ rest, ∀ c', (removeChild (deleteNode s2 c) d nm).child d n = some c' →
                  (isDirAt (removeChild (deleteNode s2 c) d nm) c' = true →
                    TreeWritable (removeChild (deleteNode s2 c) d nm) v c' ∧
                    TreeUnrestricted (removeChild (deleteNode s2 c) d nm) v c') ∧
                  restrictedDeletion (removeChild (deleteNode s2 c) d nm) v d c' = false) ↔
                (∀ n ∈ nm :: rest, ∀ c', s1.child d n = some c' →
                  (isDirAt s1 c' = true → TreeWritable s1 v c' ∧ TreeUnrestricted s1 v c') ∧
                  restrictedDeletion s1 v d c' = false) := by
              constructor
              · intro h3 n hn c' hch
                by_cases hnn : n = nm
                · subst hnn
                  have : c' = c := Option.some.inj (hch.symm.trans he)
                  subst this
                  exact ⟨hcw, hrd⟩
                · have hn' : n ∈ rest := by
                    rcases List.mem_cons.1 hn with h | h
                    · exact absurd h hnn
                    · exact h
                  have hch3 : (removeChild (deleteNode s2 c) d nm).child d n = some c' := by
                    rw [hchild]; simp [hnn, hch]
                  obtain ⟨hw3, hr3⟩ := h3 n hn' c' hch3
                  refine ⟨fun hdc' => ?_, by rw [← hk3.restrictedDeletion]; exact hr3⟩
                  obtain ⟨hw3, hu3⟩ := hw3 (by rw [hk3.isDir]; exact hdc')
                  constructor
                  · intro x hx hxd
                    rcases ra_step_chain hwf1 he hg c' x hx with h | h | h
                    · have := hw3 x h (by rw [hk3.isDir]; exact hxd)
                      rwa [hk3.dirPerm] at this
                    · by_cases hcd : isDirAt s1 c = true
                      · exact (hcw hcd).1 x h hxd
                      · have hcd' : isDirAt s1 c = false := by simpa using hcd
                        have := Desc.of_not_dir hcd' h
                        subst this
                        rw [hxd] at hcd'; cases hcd'
                    · exact absurd h (wfr_acyclic hwf1 hch hdc')
                  · intro a n' x ha hex
                    -- a node of the emptied subtree is covered by the condition on `c`
                    have hinc : Desc s1 c a → restrictedDeletion s1 v a x = false := by
                      intro h
                      by_cases hcd : isDirAt s1 c = true
                      · exact (hcw hcd).2 a n' x h hex
                      · have hcd' : isDirAt s1 c = false := by simpa using hcd
                        have := Desc.of_not_dir hcd' h
                        subst this
                        rw [hr_isDir_of_edge hex] at hcd'; cases hcd'
                    rcases ra_step_chain hwf1 he hg c' a ha with h | h | h
                    · by_cases had : a = d
                      · subst had
                        exact absurd (Desc.mono hmono h) (wfr_acyclic hwf1 hch hdc')
                      · by_cases hac : Desc s1 c a
                        · exact hinc hac
                        · have hac' : a ≠ c := by rintro rfl; exact hac Desc.refl
                          have hga : (removeChild (deleteNode s2 c) d nm).get a = s1.get a := by
                            rw [hr_get_removeChild_ne _ _ _ _ had, hr_get_deleteNode_ne _ _ _ hac', hg.frame a hac]
                          have hex3 : Edge (removeChild (deleteNode s2 c) d nm) a n' x := by
                            unfold Edge
                            rw [hr_child_of_get_eq hga]
                            exact hex
                          have := hu3 a n' x h hex3
                          rwa [hk3.restrictedDeletion] at this
                    · exact hinc h
                    · exact absurd h (wfr_acyclic hwf1 hch hdc')
              · intro h1 n hn c' hch
                rw [hchild] at hch
                split at hch
                · cases hch
                · obtain ⟨hw1, hr1⟩ := h1 n (List.mem_cons_of_mem _ hn) c' hch
                  refine ⟨fun hdc' => ?_, by rw [hk3.restrictedDeletion]; exact hr1⟩
                  obtain ⟨hw1, hu1⟩ := hw1 (by rw [← hk3.isDir]; exact hdc')
                  constructor
                  · intro x hx hxd
                    have := hw1 x (Desc.mono hmono hx) (by rw [← hk3.isDir]; exact hxd)
                    rw [hk3.dirPerm]; exact this
                  · intro a n' x ha hex
                    have := hu1 a n' x (Desc.mono hmono ha) (hmono _ _ _ hex)
                    rw [hk3.restrictedDeletion]; exact this
            constructor
            · constructor
              · intro hnone
                apply hiff.mp
                apply Classical.byContradiction
                intro hc
                rcases g2 hc with h | h <;> (rw [h] at hnone; cases hnone)
              · intro h
                exact g1 (hiff.mpr h)
            · by_cases hc : (∀ n ∈ rest, ∀ c', (removeChild (deleteNode s2 c) d nm).child d n = some c' →
                  (isDirAt (removeChild (deleteNode s2 c) d nm) c' = true →
                    TreeWritable (removeChild (deleteNode s2 c) d nm) v c' ∧
                    TreeUnrestricted (removeChild (deleteNode s2 c) d nm) v c') ∧
                  restrictedDeletion (removeChild (deleteNode s2 c) d nm) v d c' = false)
              · exact Or.inl (g1 hc)
              · exact Or.inr (g2 hc)
          split
          · rename_i m ch hgc
            have hcdir : isDirAt s1 c = true := isDirAt_of_get hgc
            obtain ⟨e1, e2⟩ := ih s1 c hwf1 hcdir (hcnt nm c he)
            obtain ⟨hg, hsucc⟩ := removeAllRec_good root v fuel s1 c hwf1
            have hk := keeps_removeAllRec v fuel s1 c
            generalize removeAllRec v fuel s1 c = r at *
            obtain ⟨s2, e⟩ := r
            dsimp only at e1 e2 hg hsucc hk ⊢
            by_cases hcw : TreeWritable s1 v c ∧ TreeUnrestricted s1 v c
            · have hen : e = none := e1 hcw
              subst hen
              dsimp only
              rw [hk.restrictedDeletion]
              by_cases hrd : restrictedDeletion s1 v d c = true
              · rw [if_pos hrd]
                constructor
                · intro h
                  have := (h nm (List.mem_cons_self) c he).2
                  rw [hrd] at this; cases this
                · intro _; exact Or.inr rfl
              · have hrd' : restrictedDeletion s1 v d c = false := by simpa using hrd
                rw [if_neg hrd]
                have hempty : ∀ n x, ¬ Edge s2 c n x := by
                  intro n x h; unfold Edge at h; rw [hsucc rfl n] at h; cases h
                obtain ⟨hiff, hor⟩ := hstep s2 hg hk hempty (fun _ => hcw) hrd'
                constructor
                · intro h; exact hiff.mpr h
                · intro h
                  rcases hor with h' | h'
                  · exact absurd (hiff.mp h') h
                  · exact h'
            · have hen := e2 hcw
              constructor
              · intro h
                exact absurd ((h nm (List.mem_cons_self) c he).1 hcdir) hcw
              · intro _
                rcases hen with hen | hen <;> subst hen
                · exact Or.inl rfl
                · exact Or.inr rfl
          · rename_i hnd
            have hcd : isDirAt s1 c = false := by
              cases hc : isDirAt s1 c with
              | false => rfl
              | true =>
                obtain ⟨m, ch, hgc⟩ := hr_isDirAt_iff.1 hc
                exact absurd hgc (hnd m ch)
            by_cases hrd : restrictedDeletion s1 v d c = true
            · rw [if_pos hrd]
              constructor
              · intro h
                have := (h nm (List.mem_cons_self) c he).2
                rw [hrd] at this; cases this
              · intro _; exact Or.inr rfl
            · have hrd' : restrictedDeletion s1 v d c = false := by simpa using hrd
              rw [if_neg hrd]
              obtain ⟨hiff, hor⟩ := hstep s1 (RAGood.refl c hwf1) (Keeps.refl s1) (hr_no_edges_of_not_dir hcd)
                (fun h => by rw [h] at hcd; cases hcd) hrd'
              constructor
              · intro h; exact hiff.mpr h
              · intro h
                rcases hor with h' | h'
                · exact absurd (hiff.mp h') h
                · exact h'
    have hlt : d < s.next := hwf.bound d (hr_isSome_of_isDir hdir)
    have hcnt : ∀ n c, s.child d n = some c → descCount s c ≤ fuel := by
      intro n c hch
      have : descCount s c < descCount s d :=
        descCount_lt rfl (fun x hx => Desc.head hch hx) (hr_not_desc_child hwf hch) hlt
      omega
    obtain ⟨g1, g2⟩ := hgo (s.names d) s hwf hcnt
    rw [removeAllRec]
    by_cases hdp : dirPerm s d omWrite v = true
    · simp only [hdp, Bool.not_true, Bool.false_eq_true, if_false]
      have hiff : (TreeWritable s v d ∧ TreeUnrestricted s v d) ↔
          (∀ n ∈ s.names d, ∀ c, s.child d n = some c →
            (isDirAt s c = true → TreeWritable s v c ∧ TreeUnrestricted s v c) ∧
            restrictedDeletion s v d c = false) := by
        constructor
        · rintro ⟨hw, hu⟩ n _ c hch
          refine ⟨fun _ => ⟨fun x hx hxd => hw x (Desc.head hch hx) hxd,
            fun a n' x ha hex => hu a n' x (Desc.head hch ha) hex⟩, hu d n c Desc.refl hch⟩
        · intro h
          constructor
          · intro x hx hxd
            rcases Desc.cases_head hx with rfl | ⟨n, c, he, hcx⟩
            · exact hdp
            · have hn : n ∈ s.names d := by
                rw [hr_mem_names]; unfold Edge at he; simp [he]
              have hcd : isDirAt s c = true := by
                cases hc : isDirAt s c with
                | true => rfl
                | false =>
                  have := Desc.of_not_dir hc hcx
                  subst this
                  rw [hxd] at hc; cases hc
              exact ((h n hn c he).1 hcd).1 x hcx hxd
          · intro a n' x ha hex
            rcases Desc.cases_head ha with rfl | ⟨n, c, he, hca⟩
            · have hn : n' ∈ s.names a := by
                rw [hr_mem_names]; unfold Edge at hex; simp [hex]
              exact (h n' hn x hex).2
            · have hn : n ∈ s.names d := by
                rw [hr_mem_names]; unfold Edge at he; simp [he]
              have hcd : isDirAt s c = true := by
                cases hc : isDirAt s c with
                | true => rfl
                | false =>
                  have := Desc.of_not_dir hc hca
                  subst this
                  rw [hr_isDir_of_edge hex] at hc; cases hc
              exact ((h n hn c he).1 hcd).2 a n' x hca hex
      exact ⟨fun h => g1 (hiff.mp h), fun h => g2 (fun h' => h (hiff.mpr h'))⟩
    · have hdp' : dirPerm s d omWrite v = false := by simpa using hdp
      rw [if_pos (by simp [hdp'])]
      exact ⟨fun h => absurd (h.1 d Desc.refl hdir) hdp, fun _ => Or.inl rfl⟩

/-! #### the heap after the removal -/

/-- `r` is `s` after everything below `d` was removed; `d` itself stays (empty, when it is a directory) -/
structure Emptied (root : Ino) (s : Store) (d : Ino) (r : Store) : Prop where
  wf : WF r root
  keeps : Keeps s r
  /-- exactly the entries of the nodes at or below `d` are gone -/
  edges : ∀ a n x, Edge r a n x ↔ (Edge s a n x ∧ ¬ Desc s d a)
  /-- nothing outside the tree of `d` is touched -/
  frame : ∀ x, ¬ Desc s d x → r.get x = s.get x
  /-- the directories of the tree are empty -/
  emptied : ∀ x m ch, Desc s d x → s.get x = some (.dir m ch) → r.get x = some (.dir m [])

theorem emptied_of_good {root : Ino} {s r : Store} {d : Ino} (hwf : WF s root) (hg : RAGood root s d r)
    (hk : Keeps s r) (hd : ∀ n x, ¬ Edge r d n x) : Emptied root s d r := by
  have hcl := cleared_below hwf hg.wf hg.mono hd
  refine ⟨hg.wf, hk, ?_, hg.frame, ?_⟩
  · intro a n x
    constructor
    · intro h
      exact ⟨hg.mono _ _ _ h, fun hda => hcl a hda n x h⟩
    · rintro ⟨h, hda⟩
      unfold Edge
      rw [hr_child_of_get_eq (hg.frame a hda)]
      exact h
  · intro x m ch hdx hgx
    exact emptied_dir hk hgx (hcl x hdx)

/-- a successful `removeAllRec` empties the tree -/
theorem removeAllRec_emptied (root : Ino) (v : View) (fuel : Nat) (s : Store) (d : Ino) (hwf : WF s root)
    (hok : (removeAllRec v fuel s d).2 = none) : Emptied root s d (removeAllRec v fuel s d).1 := by
  obtain ⟨hg, hsucc⟩ := removeAllRec_good root v fuel s d hwf
  refine emptied_of_good hwf hg (keeps_removeAllRec v fuel s d) ?_
  intro n x h
  unfold Edge at h
  rw [hsucc hok n] at h
  cases h

/-- a node without entries: nothing to empty -/
theorem emptied_leaf {root : Ino} {s : Store} {d : Ino} (hwf : WF s root) (hd : ∀ n x, ¬ Edge s d n x) :
    Emptied root s d s :=
  emptied_of_good hwf (RAGood.refl d hwf) (Keeps.refl s) hd

/-- `r` is `s` without the entry `name` of `par` (which designates `c`) and without everything below it -/
structure TreeRemoved (root : Ino) (s : Store) (par : Ino) (name : Bytes) (c : Ino) (r : Store) : Prop where
  wf : WF r root
  keeps : Keeps s r
  /-- exactly the entry `name` of `par` and the entries of the nodes at or below `c` are gone -/
  edges : ∀ a n x, Edge r a n x ↔ (Edge s a n x ∧ ¬ Desc s c a ∧ ¬ (a = par ∧ n = name))
  /-- nothing outside the tree of `c`, except the directory `par`, is touched -/
  frame : ∀ x, ¬ Desc s c x → x ≠ par → r.get x = s.get x
  /-- the directories of the tree are released empty -/
  emptied : ∀ x m ch, Desc s c x → s.get x = some (.dir m ch) → r.get x = some (.dir m [])

theorem get_deleteNode_dir {s : Store} {c : Ino} {m : Meta} {ch : List (Bytes × Ino)}
    (hg : s.get c = some (.dir m ch)) : (deleteNode s c).get c = some (.dir m []) := by
  simp [deleteNode, hg, Store.get_set_eq]

theorem treeRemoved_of_emptied {root : Ino} {s s1 : Store} {par c : Ino} {name : Bytes} (hwf : WF s root)
    (he : Edge s par name c) (h1 : Emptied root s c s1) :
    TreeRemoved root s par name c (deleteNode (removeChild s1 par name) c) := by
  have hpn : ¬ Desc s c par := hr_not_desc_child hwf he
  have hpc : par ≠ c := by rintro rfl; exact hpn Desc.refl
  have he1 : Edge s1 par name c := (h1.edges _ _ _).mpr ⟨he, hpn⟩
  have hempty : ∀ n x, ¬ Edge s1 c n x := fun n x h => ((h1.edges _ _ _).mp h).2 Desc.refl
  refine ⟨wf_unlink_dr h1.wf he1 hempty,
    h1.keeps.trans ((Keeps.removeChild s1 par name).trans (Keeps.deleteNode _ c)), ?_, ?_, ?_⟩
  · intro a n x
    unfold Edge
    rw [hr_child_deleteNode, hr_child_removeChild]
    constructor
    · intro h
      split at h
      · cases h
      · split at h
        · cases h
        · rename_i hac hpn'
          obtain ⟨h2, h3⟩ := (h1.edges _ _ _).mp h
          exact ⟨h2, h3, hpn'⟩
    · rintro ⟨h2, h3, h4⟩
      have hac : a ≠ c := by rintro rfl; exact h3 Desc.refl
      simp only [hac, if_false, h4]
      exact (h1.edges _ _ _).mpr ⟨h2, h3⟩
  · intro x hx hxp
    have hxc : x ≠ c := by rintro rfl; exact hx Desc.refl
    rw [hr_get_deleteNode_ne _ _ _ hxc, hr_get_removeChild_ne _ _ _ _ hxp, h1.frame x hx]
  · intro x m ch hdx hgx
    have h2 := h1.emptied x m ch hdx hgx
    have hxp : x ≠ par := by rintro rfl; exact hpn hdx
    by_cases hxc : x = c
    · subst hxc
      apply get_deleteNode_dir (ch := [])
      rw [hr_get_removeChild_ne _ _ _ _ hxp]; exact h2
    · rw [hr_get_deleteNode_ne _ _ _ hxc, hr_get_removeChild_ne _ _ _ _ hxp]; exact h2

theorem nat_le_sum_of_mem : ∀ (l : List Nat) (x : Nat), x ∈ l → x ≤ l.sum := by
  intro l
  induction l with
  | nil => intro x h; cases h
  | cons a l ih =>
    intro x h
    rcases List.mem_cons.1 h with rfl | h
    · simp
    · have := ih x h
      simp only [List.sum_cons]
      omega

/-- an inode that is designated by an entry has a positive link count -/
theorem linkCount_pos {s : Store} {a x : Ino} {n : Bytes} (he : Edge s a n x) : 0 < linkCount s x := by
  rw [linkCount_eq]
  have hmem : a ∈ s.inos := (hr_mem_inos s a).mpr (hr_isSome_of_isDir (hr_isDir_of_edge he))
  have hpos : 0 < cnt (s.children a) x := cnt_pos (n := n) he
  have hle := nat_le_sum_of_mem (s.inos.map fun d => cnt (s.children d) x) (cnt (s.children a) x)
    (List.mem_map.mpr ⟨a, hmem, rfl⟩)
  omega

/-- a regular file of the removed tree is kept as a node, with the link count of the names it has left -/
theorem TreeRemoved.file {root : Ino} {s r : Store} {par c : Ino} {name : Bytes} (h : TreeRemoved root s par name c r)
    {x : Ino} {m : Meta} {d : Bytes} {nl : Int} {id : Nat} (hg : s.get x = some (.file m d nl id)) :
    r.get x = some (.file m d (linkCount r x : Int) id) := by
  have := h.keeps.node x
  rw [hg] at this
  cases hr : r.get x with
  | none => simp [hr, NodeKeep] at this
  | some n =>
    cases n with
    | file m' d' nl' id' =>
      simp only [hr, NodeKeep] at this
      obtain ⟨rfl, rfl, rfl⟩ := this
      rw [h.wf.nlink x _ _ _ _ hr]
    | dir _ _ => simp [hr, NodeKeep] at this
    | symlink _ _ => simp [hr, NodeKeep] at this

/-- a name outside the removed tree still designates what it designated -/
theorem TreeRemoved.survives {root : Ino} {s r : Store} {par c : Ino} {name : Bytes}
    (h : TreeRemoved root s par name c r) {a x : Ino} {n : Bytes} (he : Edge s a n x) (ha : ¬ Desc s c a)
    (hn : ¬ (a = par ∧ n = name)) : Edge r a n x ∧ 0 < linkCount r x := by
  have := (h.edges a n x).mpr ⟨he, ha, hn⟩
  exact ⟨this, linkCount_pos this⟩

/-! #### RemoveAll -/

/-- the entry is a directory that has entries (only then RemoveAll descends) -/
def isNonEmptyDir (s : Store) (c : Ino) : Bool :=
  match s.get c with
  | some (.dir _ ch) => (alKeys ch).length != 0
  | _ => false

theorem no_edges_of_not_nonEmptyDir {s : Store} {c : Ino} (h : isNonEmptyDir s c = false) : ∀ n x, ¬ Edge s c n x := by
  unfold isNonEmptyDir at h
  split at h
  · rename_i m ch hg
    exact hr_no_edges_of_empty_dir hg (by simpa using h)
  · rename_i hnd
    apply hr_no_edges_of_not_dir
    cases hc : isDirAt s c with
    | false => rfl
    | true =>
      obtain ⟨m, ch, hgc⟩ := hr_isDirAt_iff.1 hc
      exact absurd hgc (hnd m ch)

/-- RemoveAll once the walk has found the entry `c` of `par` -/
theorem removeAll_found (s : Store) (v : View) (p : Bytes) (par c : Ino) (last : Bytes) (hp : p ≠ [])
    (he : (searchNode s v p .lstat).err = .exists) (hc : (searchNode s v p .lstat).child = some c)
    (hpar : (searchNode s v p .lstat).parent = par) (hpart : partOf (searchNode s v p .lstat).pi = last)
    (hcp : c ≠ par) :
    removeAll s v p =
      match (if isNonEmptyDir s c then removeAllRec v s.next s c else (s, none)) with
      | (s1, some e) => (s1, .err e)
      | (s1, none) =>
        if !dirPerm s1 par omWrite v then (s1, .err .EACCES) else
        if restrictedDeletion s1 v par c then (s1, .err .EPERM) else
        (deleteNode (removeChild s1 par last) c, .ok .unit) := by
  have hpe : p.isEmpty = false := by cases p with | nil => exact absurd rfl hp | cons a b => rfl
  have hcp' : (c == par) = false := by simpa using hcp
  unfold removeAll
  simp only [hpe, he, hc, hpar, hpart, hcp', Bool.false_eq_true, if_false]
  simp only [show (SErr.exists == SErr.noent) = false from rfl, Bool.false_eq_true, if_false]
  unfold isNonEmptyDir
  generalize (if (match s.get c with | some (.dir _ ch) => (alKeys ch).length != 0 | _ => false) = true
    then removeAllRec v s.next s c else (s, none)) = q
  obtain ⟨s1, e⟩ := q
  cases e <;> rfl

inductive RemoveAllRef
  | done                                   -- nothing to remove: nil, nothing changes
  | fail (e : Err)                         -- the resolution fails: nothing changes
  | remove (parent : Ino) (child : Ino)    -- the entry of `parent` designating `child` is to be removed with its tree
  | outside
  deriving DecidableEq, Repr

/-- rm -rf, the resolution part: a path that does not exist is no error (a missing inner component included);
    ENOTDIR / EACCES from the descent are errors; the last component is not followed when it is a symbolic link -/
def posixRemoveAll : Resolved → RemoveAllRef
  | .found par c => .remove par c
  | .missingLast _ _ => .done
  | .missingDir => .done
  | .notDir => .fail .ENOTDIR
  | .denied => .fail .EACCES
  | .viaLink => .outside

/-- GENERAL form (view rooted at any directory `v.root`; `root` is the root of the whole tree).
    For the entry `c` of `par` (never the root of the view: `hne`, see `removeAll_root`):
    * when `c` is a non-empty directory and some directory at or below it may not be written by the caller
      (`TreeWritable` fails) or some entry inside is under restricted deletion (`TreeUnrestricted` fails): EACCES or
      EPERM; part of the tree may be gone: the new heap is well-formed, has lost entries only, and only below `c`
      (`RAGood`), and every node keeps kind, attributes, content, id (`Keeps`);
    * otherwise everything below `c` is removed first (`Emptied`) and then, on that heap, the entry itself is treated
      as by Remove: EACCES when `par` may not be written, EPERM under restricted deletion, else the entry goes and
      `c` is released (`TreeRemoved`). -/
theorem removeAll_posix_gen (s : Store) (root : Ino) (v : View) (hwf : WF s root)
    (hvr : ∃ m ch, s.get v.root = some (.dir m ch)) (cs : List Bytes) (hne : cs ≠ [])
    (hall : ∀ c ∈ cs, c ≠ [] ∧ ∀ x ∈ c, x ≠ SL) (hdots : ∀ c ∈ cs, c ≠ [DOT] ∧ c ≠ [DOT, DOT]) :
    match posixRemoveAll (walkPathL s v v.root cs) with
    | .done => removeAll s v (SL :: joinWith SL cs) = (s, .ok .unit)
    | .fail e => removeAll s v (SL :: joinWith SL cs) = (s, .err e)
    | .remove par c =>
        Edge s par (cs.getLast hne) c ∧
        (isNonEmptyDir s c = true → ¬ (TreeWritable s v c ∧ TreeUnrestricted s v c) →
          ∃ s1 e, (e = .EACCES ∨ e = .EPERM) ∧ removeAll s v (SL :: joinWith SL cs) = (s1, .err e) ∧
            RAGood root s c s1 ∧ Keeps s s1) ∧
        ((isNonEmptyDir s c = true → TreeWritable s v c ∧ TreeUnrestricted s v c) →
          ∃ s1, Emptied root s c s1 ∧ (isNonEmptyDir s c = false → s1 = s) ∧
            TreeRemoved root s par (cs.getLast hne) c (deleteNode (removeChild s1 par (cs.getLast hne)) c) ∧
            removeAll s v (SL :: joinWith SL cs) =
              if !dirPerm s par omWrite v then (s1, .err .EACCES)
              else if restrictedDeletion s v par c then (s1, .err .EPERM)
              else (deleteNode (removeChild s1 par (cs.getLast hne)) c, .ok .unit))
    | .outside => True := by
  have hf := searchNode_factsL s root v hwf hvr cs hne hall hdots
  have hpne : (SL :: joinWith SL cs) ≠ [] := by simp
  have hpe : (SL :: joinWith SL cs).isEmpty = false := rfl
  cases hw : walkPathL s v v.root cs with
  | found par c =>
    simp only [hw, WalkFactsL] at hf
    obtain ⟨he, hc, hpar, hpart, _, _, hedge, hpd, halloc⟩ := hf
    have hcp : c ≠ par := by
      intro e
      exact no_self_edge hwf hpd (n := cs.getLast hne) (e ▸ hedge)
    have heq := removeAll_found s v _ par c (cs.getLast hne) hpne he hc hpar hpart hcp
    simp only [posixRemoveAll]
    refine ⟨hedge, ?_, ?_⟩
    · intro hned hnw
      have hcdir : isDirAt s c = true := by
        unfold isNonEmptyDir at hned
        split at hned
        · rename_i m ch hg; exact isDirAt_of_get hg
        · cases hned
      obtain ⟨_, e2⟩ := removeAllRec_err root v s.next s c hwf hcdir (descCount_le s c)
      have herr := e2 hnw
      obtain ⟨hg, _⟩ := removeAllRec_good root v s.next s c hwf
      have hk := keeps_removeAllRec v s.next s c
      have hres : ∀ e, (removeAllRec v s.next s c).2 = some e →
          removeAll s v (SL :: joinWith SL cs) = ((removeAllRec v s.next s c).1, .err e) := by
        intro e he'
        rw [heq, hned]
        simp only [if_true]
        generalize removeAllRec v s.next s c = r at he'
        obtain ⟨s1, e0⟩ := r
        dsimp only at he'
        subst he'
        rfl
      rcases herr with herr | herr
      · exact ⟨(removeAllRec v s.next s c).1, .EACCES, Or.inl rfl, hres _ herr, hg, hk⟩
      · exact ⟨(removeAllRec v s.next s c).1, .EPERM, Or.inr rfl, hres _ herr, hg, hk⟩
    · intro hin
      by_cases hned : isNonEmptyDir s c = true
      · have hcdir : isDirAt s c = true := by
          unfold isNonEmptyDir at hned
          split at hned
          · rename_i m ch hg; exact isDirAt_of_get hg
          · cases hned
        obtain ⟨e1, _⟩ := removeAllRec_err root v s.next s c hwf hcdir (descCount_le s c)
        have herr := e1 (hin hned)
        have hem := removeAllRec_emptied root v s.next s c hwf herr
        refine ⟨(removeAllRec v s.next s c).1, hem, (fun h => by rw [hned] at h; cases h),
          treeRemoved_of_emptied hwf hedge hem, ?_⟩
        rw [heq, hned]
        simp only [if_true]
        generalize removeAllRec v s.next s c = r at herr hem
        obtain ⟨s1, e⟩ := r
        dsimp only at herr hem
        subst herr
        simp only [hem.keeps.dirPerm, hem.keeps.restrictedDeletion]
      · have hned' : isNonEmptyDir s c = false := by simpa using hned
        have hem := emptied_leaf hwf (no_edges_of_not_nonEmptyDir hned')
        refine ⟨s, hem, fun _ => rfl, treeRemoved_of_emptied hwf hedge hem, ?_⟩
        rw [heq, hned']
        simp
  | missingLast par name =>
    simp only [hw, WalkFactsL] at hf
    simp [posixRemoveAll, removeAll, hf.1]
  | missingDir =>
    simp only [hw, WalkFactsL] at hf
    simp [posixRemoveAll, removeAll, hf.1]
  | notDir =>
    simp only [hw, WalkFactsL] at hf
    simp [posixRemoveAll, removeAll, hf, SErr.toErr]
  | denied =>
    simp only [hw, WalkFactsL] at hf
    simp [posixRemoveAll, removeAll, hf, SErr.toErr]
  | viaLink => simp [posixRemoveAll]

/-- RemoveAll of MemFS against rm -rf (os.RemoveAll), on a clean absolute path whose last component is not followed
    when it is a symbolic link (`walkPathL`):
    * a path that does not exist — the last or an inner component is missing — is no error and nothing changes;
      ENOTDIR below a regular file, EACCES below a directory that may not be searched;
    * the entry `c` of `par` exists. The permission conditions are those of the model, stated explicitly:
      (1) when `c` is a directory with entries, EVERY directory at or below `c` (the empty ones included) must be
          writable by the caller (`TreeWritable`) and NO entry of a directory at or below `c` may be under restricted
          deletion — sticky bit of the directory that holds it — (`TreeUnrestricted`; MemFS checks this since the repair
          of RemoveAll, see `removeAll_inner_sticky_refused`); otherwise EACCES or EPERM (the error of the first
          obstacle met in name order), and part of the tree may be gone already: the heap stays a well-formed tree
          that has only lost entries below `c` (`RAGood`), all nodes keep kind, attributes, content and id (`Keeps`);
      (2) then everything below `c` is gone (`Emptied`) and the entry itself is treated as by Remove on that heap:
          EACCES when `par` may not be written, EPERM under restricted deletion (sticky `par`), else success.
      On success the new heap is `TreeRemoved`: a well-formed tree (`wf`, so link counts are exact) with exactly the
      entry `name` of `par` and the entries of the nodes at or below `c` gone (`edges`), nothing outside touched
      (`frame`), the directories of the tree released empty (`emptied`), every node keeping kind, attributes, content,
      id (`keeps`); so a regular file of the tree that has another name outside is still there with one link less per
      lost name (`TreeRemoved.file`, `TreeRemoved.survives`).
    The root of the view is excluded by `hne` (EINVAL: `removeAll_root`).
    Not checked by MemFS, unlike rm -rf on Linux (recorded, not excluded — the conditions above are the model's): read /
    search permission of the directories inside; checked by MemFS only: write permission of EMPTY directories inside
    (`removeAll_corner_empty_subdir`). -/
theorem removeAll_posix (s : Store) (root : Ino) (v : View) (hwf : WF s root) (hn : NamesOK s) (hv : ViewOK s v)
    (hroot : v.root = root) (cs : List Bytes) (hne : cs ≠ []) (hall : ∀ c ∈ cs, c ≠ [] ∧ ∀ x ∈ c, x ≠ SL)
    (hdots : ∀ c ∈ cs, c ≠ [DOT] ∧ c ≠ [DOT, DOT]) :
    match posixRemoveAll (walkPathL s v root cs) with
    | .done => removeAll s v (SL :: joinWith SL cs) = (s, .ok .unit)
    | .fail e => removeAll s v (SL :: joinWith SL cs) = (s, .err e)
    | .remove par c =>
        Edge s par (cs.getLast hne) c ∧
        (isNonEmptyDir s c = true → ¬ (TreeWritable s v c ∧ TreeUnrestricted s v c) →
          ∃ s1 e, (e = .EACCES ∨ e = .EPERM) ∧ removeAll s v (SL :: joinWith SL cs) = (s1, .err e) ∧
            RAGood root s c s1 ∧ Keeps s s1) ∧
        ((isNonEmptyDir s c = true → TreeWritable s v c ∧ TreeUnrestricted s v c) →
          ∃ s1, Emptied root s c s1 ∧ (isNonEmptyDir s c = false → s1 = s) ∧
            TreeRemoved root s par (cs.getLast hne) c (deleteNode (removeChild s1 par (cs.getLast hne)) c) ∧
            removeAll s v (SL :: joinWith SL cs) =
              if !dirPerm s par omWrite v then (s1, .err .EACCES)
              else if restrictedDeletion s v par c then (s1, .err .EPERM)
              else (deleteNode (removeChild s1 par (cs.getLast hne)) c, .ok .unit))
    | .outside => True := by
  subst hroot
  exact removeAll_posix_gen s v.root v hwf (get_of_isDirAt hwf.rootDir) cs hne hall hdots

/-- DIVERGENCE (recorded): RemoveAll("/") fails with EINVAL and removes nothing (rm -rf / removes what it can;
    os.RemoveAll("/") empties the volume and fails on the root itself) -/
theorem removeAll_root (s : Store) (v : View) : removeAll s v [SL] = (s, .err .EINVAL) := by
  obtain ⟨he, hc, hpar, _⟩ := searchNode_root s v .lstat
  simp [removeAll, he, hc, hpar]

/-- RemoveAll(""): nil -/
theorem removeAll_empty (s : Store) (v : View) : removeAll s v [] = (s, .ok .unit) := by
  simp [removeAll]

/-- an administrator may write every directory -/
theorem treeWritable_admin (s : Store) (v : View) (d : Ino) (ha : v.admin = true) : TreeWritable s v d := by
  intro x _ hx
  obtain ⟨m, ch, hg⟩ := isDirAt_iff.mp hx
  simp [dirPerm, hg, checkPerm, ha]

/-- `TreeWritable` on a concrete heap: a set of inodes that contains `d`, is closed under the entries and whose
    directories are writable -/
theorem treeWritable_of_closed (s : Store) (v : View) (d : Ino) (S : List Ino) (hd : d ∈ S)
    (hcl : (allEdges s).all (fun (a, _, x) => !S.contains a || S.contains x) = true)
    (hw : S.all (fun x => !isDirAt s x || dirPerm s x omWrite v) = true) : TreeWritable s v d := by
  have hin : ∀ x, Desc s d x → x ∈ S := by
    intro x hx
    induction hx with
    | refl => exact hd
    | step p n c _ he ih =>
      have hmem := mem_allEdges_of_edge s p n c he
      have := List.all_eq_true.mp hcl _ hmem
      simp only [Bool.or_eq_true, Bool.not_eq_true', List.contains_eq_mem, decide_eq_false_iff_not,
        decide_eq_true_eq] at this
      rcases this with h | h
      · exact absurd ih h
      · exact h
  intro x hx hxd
  have := List.all_eq_true.mp hw x (hin x hx)
  simpa [hxd] using this

/-- an administrator is never under restricted deletion -/
theorem treeUnrestricted_admin (s : Store) (v : View) (d : Ino) (ha : v.admin = true) : TreeUnrestricted s v d := by
  intro a n x _ _
  unfold restrictedDeletion
  split <;> simp [ha]

/-- `TreeUnrestricted` on a concrete heap: a set of inodes that contains `d`, is closed under the entries, and none of
    whose entries is under restricted deletion -/
theorem treeUnrestricted_of_closed (s : Store) (v : View) (d : Ino) (S : List Ino) (hd : d ∈ S)
    (hcl : (allEdges s).all (fun (a, _, x) => !S.contains a || S.contains x) = true)
    (hu : (allEdges s).all (fun (a, _, x) => !S.contains a || !restrictedDeletion s v a x) = true) :
    TreeUnrestricted s v d := by
  have hin : ∀ x, Desc s d x → x ∈ S := by
    intro x hx
    induction hx with
    | refl => exact hd
    | step p n c _ he ih =>
      have hmem := mem_allEdges_of_edge s p n c he
      have := List.all_eq_true.mp hcl _ hmem
      simp only [Bool.or_eq_true, Bool.not_eq_true', List.contains_eq_mem, decide_eq_false_iff_not,
        decide_eq_true_eq] at this
      rcases this with h | h
      · exact absurd ih h
      · exact h
  intro a n x ha hex
  have := List.all_eq_true.mp hu _ (mem_allEdges_of_edge s a n x hex)
  simp only [Bool.or_eq_true, Bool.not_eq_true', List.contains_eq_mem, decide_eq_false_iff_not] at this
  rcases this with h | h
  · exact absurd (hin a ha) h
  · exact h

/-! #### RemoveAll on concrete heaps -/

/-- the nodes at or below `d` lie in every set that contains `d` and is closed under the entries -/
theorem desc_mem_of_closed (s : Store) (d : Ino) (S : List Ino) (hd : d ∈ S)
    (hcl : (allEdges s).all (fun (a, _, x) => !S.contains a || S.contains x) = true) :
    ∀ x, Desc s d x → x ∈ S := by
  intro x hx
  induction hx with
  | refl => exact hd
  | step p n c _ he ih =>
    have hmem := mem_allEdges_of_edge s p n c he
    have := List.all_eq_true.mp hcl _ hmem
    simp only [Bool.or_eq_true, Bool.not_eq_true', List.contains_eq_mem, decide_eq_false_iff_not,
      decide_eq_true_eq] at this
    rcases this with h | h
    · exact absurd ih h
    · exact h

/-! the equations of `removeAllRec` (defined by well-founded recursion: the kernel does not evaluate it) -/

theorem px3_removeAllRec_succ (v : View) (fuel : Nat) (s : Store) (d : Ino) :
    removeAllRec v (fuel + 1) s d =
      if !dirPerm s d omWrite v then (s, some .EACCES) else removeAllRec.go v fuel d s (s.names d) := by
  rw [removeAllRec]

theorem removeAllRec_go_nil (v : View) (fuel : Nat) (d : Ino) (s : Store) :
    removeAllRec.go v fuel d s [] = (s, none) := by
  rw [removeAllRec.go]

theorem removeAllRec_go_file (v : View) (fuel : Nat) (d : Ino) (s : Store) (nm : Bytes) (rest : List Bytes) (c : Ino)
    (hc : s.child d nm = some c) (hnd : isDirAt s c = false) (hrd : restrictedDeletion s v d c = false) :
    removeAllRec.go v fuel d s (nm :: rest) = removeAllRec.go v fuel d (removeChild (deleteNode s c) d nm) rest := by
  rw [removeAllRec.go]
  simp only [hc]
  split
  · rename_i m ch hg
    simp [isDirAt, hg] at hnd
  · simp [hrd]

/-- an entry that is no directory and is under restricted deletion stops the run: EPERM, nothing changes -/
theorem removeAllRec_go_file_refused (v : View) (fuel : Nat) (d : Ino) (s : Store) (nm : Bytes) (rest : List Bytes)
    (c : Ino) (hc : s.child d nm = some c) (hnd : isDirAt s c = false) (hrd : restrictedDeletion s v d c = true) :
    removeAllRec.go v fuel d s (nm :: rest) = (s, some .EPERM) := by
  rw [removeAllRec.go]
  simp only [hc]
  split
  · rename_i m ch hg
    simp [isDirAt, hg] at hnd
  · simp [hrd]

theorem removeAllRec_go_dir (v : View) (fuel : Nat) (d : Ino) (s : Store) (nm : Bytes) (rest : List Bytes) (c : Ino)
    (s1 : Store) (hc : s.child d nm = some c) (hd : isDirAt s c = true)
    (hr : removeAllRec v fuel s c = (s1, none)) (hrd : restrictedDeletion s1 v d c = false) :
    removeAllRec.go v fuel d s (nm :: rest) = removeAllRec.go v fuel d (removeChild (deleteNode s1 c) d nm) rest := by
  obtain ⟨m, ch, hg⟩ := isDirAt_iff.mp hd
  rw [removeAllRec.go]
  simp only [hc, hg, hr]
  simp [hrd]

/-- a sub-directory whose removal fails stops the run with its error -/
theorem removeAllRec_go_dir_fail (v : View) (fuel : Nat) (d : Ino) (s : Store) (nm : Bytes) (rest : List Bytes)
    (c : Ino) (s1 : Store) (e : Err) (hc : s.child d nm = some c) (hd : isDirAt s c = true)
    (hr : removeAllRec v fuel s c = (s1, some e)) :
    removeAllRec.go v fuel d s (nm :: rest) = (s1, some e) := by
  obtain ⟨m, ch, hg⟩ := isDirAt_iff.mp hd
  rw [removeAllRec.go]
  simp only [hc, hg, hr]

/-- the heap of Lemmas/Posix.lean after the administrator's Link("/a/f", "/tmp/d/k"): "/tmp/d" (7) holds the empty
    directory "e" (8) and the name "k" of the regular file 6, whose other name is "/a/f" -/
@[irreducible] def rmStore : Store :=
  (link pxStore px2Adm [SL, 97, SL, 102] [SL, 116, 109, 112, SL, 100, SL, 107]).1

theorem rmStore_wf : WF rmStore 0 ∧ NamesOK rmStore := wfCheck_sound rmStore 0 (by decide +kernel)
theorem rmAdm_ok : ViewOK rmStore px2Adm := ⟨by decide +kernel, by decide⟩

/-- what RemoveAll("/tmp/d") by the administrator leaves of `rmStore`: "e" released and erased, "k" released and
    erased, then "d" erased from /tmp and released -/
def rmResult : Store :=
  deleteNode (removeChild (removeChild (deleteNode (removeChild (deleteNode rmStore 8) 7 [101]) 6) 7 [107]) 3 [100]) 7

/-- the model evaluated step by step (through the equations of `removeAllRec`) -/
theorem rmStore_removeAll : removeAll rmStore px2Adm [SL, 116, 109, 112, SL, 100] = (rmResult, .ok .unit) := by
  have heq := removeAll_found rmStore px2Adm [SL, 116, 109, 112, SL, 100] 3 7 [100] (by simp) (by decide +kernel)
    (by decide +kernel) (by decide +kernel) (by decide +kernel) (by decide)
  have hne : isNonEmptyDir rmStore 7 = true := by decide +kernel
  have hnext : rmStore.next = 8 + 1 + 1 := by decide +kernel
  -- the empty directory "e"
  have h8 : removeAllRec px2Adm (8 + 1) rmStore 8 = (rmStore, none) := by
    rw [px3_removeAllRec_succ]
    rw [show dirPerm rmStore 8 omWrite px2Adm = true by decide +kernel]
    rw [show rmStore.names 8 = [] by decide +kernel, removeAllRec_go_nil]
    rfl
  have h7 : removeAllRec px2Adm (8 + 1 + 1) rmStore 7 =
      (removeChild (deleteNode (removeChild (deleteNode rmStore 8) 7 [101]) 6) 7 [107], none) := by
    rw [px3_removeAllRec_succ]
    rw [show dirPerm rmStore 7 omWrite px2Adm = true by decide +kernel]
    rw [show rmStore.names 7 = [[101], [107]] by decide +kernel]
    simp only [Bool.not_true, Bool.false_eq_true, if_false]
    rw [removeAllRec_go_dir px2Adm (8 + 1) 7 rmStore [101] [[107]] 8 rmStore (by decide +kernel) (by decide +kernel) h8
      (by decide +kernel)]
    rw [removeAllRec_go_file px2Adm (8 + 1) 7 _ [107] [] 6 (by decide +kernel) (by decide +kernel) (by decide +kernel)]
    rw [removeAllRec_go_nil]
  rw [heq, hne, hnext]
  simp only [if_true]
  rw [h7]
  simp only []
  rw [show dirPerm (removeChild (deleteNode (removeChild (deleteNode rmStore 8) 7 [101]) 6) 7 [107]) 3 omWrite px2Adm = true
    by decide +kernel]
  rw [show restrictedDeletion (removeChild (deleteNode (removeChild (deleteNode rmStore 8) 7 [101]) 6) 7 [107]) px2Adm 3 7 =
    false by decide +kernel]
  rfl

/-- RemoveAll("/tmp/d") by the administrator: the hypotheses of `removeAll_posix` are met and it yields nil and a heap
    that is `TreeRemoved`; on the evaluated result: "d" is gone from /tmp and does not resolve any more, the directories
    7 and 8 are released empty, and the file 6 — it had the name "k" inside the tree and has the name "/a/f" outside —
    is still there with ONE link where it had two (decremented, not dropped) -/
example :
    removeAll rmStore px2Adm [SL, 116, 109, 112, SL, 100] = (rmResult, .ok .unit) ∧
    TreeRemoved 0 rmStore 3 [100] 7 rmResult ∧
    rmStore.get 6 = some (.file ⟨0o644, 0, 0, none⟩ [104, 105] 2 1) ∧
    rmResult.get 6 = some (.file ⟨0o644, 0, 0, none⟩ [104, 105] 1 1) ∧ rmResult.child 4 [102] = some 6 ∧
    rmResult.get 7 = some (.dir ⟨0o777, 0, 0, none⟩ []) ∧ rmResult.get 8 = some (.dir ⟨0o755, 0, 0, none⟩ []) ∧
    rmResult.child 3 [100] = none ∧ wfCheck rmResult 0 = true ∧
    stat rmResult px2Adm [SL, 116, 109, 112, SL, 100] .lstat = (rmResult, .err .ENOENT) := by
  have h := removeAll_posix rmStore 0 px2Adm rmStore_wf.1 rmStore_wf.2 rmAdm_ok rfl [cTmp, [100]] (by simp)
    (by decide) (by decide)
  have hr : posixRemoveAll (walkPathL rmStore px2Adm 0 [cTmp, [100]]) = .remove 3 7 := by decide +kernel
  simp only [hr] at h
  obtain ⟨_, _, h2⟩ := h
  obtain ⟨s1, hem, _, htr, heq⟩ :=
    h2 (fun _ => ⟨treeWritable_admin rmStore px2Adm 7 rfl, treeUnrestricted_admin rmStore px2Adm 7 rfl⟩)
  have hc1 : dirPerm rmStore 3 omWrite px2Adm = true := by decide +kernel
  have hc2 : restrictedDeletion rmStore px2Adm 3 7 = false := by decide +kernel
  simp only [hc1, hc2, Bool.not_true, Bool.false_eq_true, if_false] at heq
  have heq' : removeAll rmStore px2Adm [SL, 116, 109, 112, SL, 100] = (deleteNode (removeChild s1 3 [100]) 7, .ok .unit) :=
    heq
  have hres : deleteNode (removeChild s1 3 [100]) 7 = rmResult := by
    have := heq'.symm.trans rmStore_removeAll
    exact congrArg Prod.fst this
  have htr' : TreeRemoved 0 rmStore 3 [100] 7 (deleteNode (removeChild s1 3 [100]) 7) := htr
  rw [hres] at htr'
  refine ⟨rmStore_removeAll, htr', ?_⟩
  decide +kernel

/-- a path that does not exist is no error: "/tmp/y" (last component missing), "/a/q/x" (inner component missing);
    ENOTDIR below the file "/a/f"; EACCES below "/a/b" for the user; the user may not write "/a": EACCES for the file
    "/a/f", nothing changes; in "/tmp" with the sticky bit the administrator's file "/tmp/g" is refused: EPERM -/
example : removeAll pxStore exView [SL, 116, 109, 112, SL, 121] = (pxStore, .ok .unit) ∧
    removeAll pxStore exView [SL, 97, SL, 113, SL, 120] = (pxStore, .ok .unit) ∧
    removeAll pxStore exView [SL, 97, SL, 102, SL, 120] = (pxStore, .err .ENOTDIR) ∧
    removeAll pxStore exView [SL, 97, SL, 98, SL, 120] = (pxStore, .err .EACCES) ∧
    removeAll pxStore exView [SL, 97, SL, 102] = (pxStore, .err .EACCES) ∧
    removeAll stickyStore exView [SL, 116, 109, 112, SL, 103] = (stickyStore, .err .EPERM) := by
  have h1 := removeAll_posix pxStore 0 exView pxStore_wf.1 pxStore_wf.2 pxView_ok rfl [cTmp, [121]] (by simp)
    (by decide) (by decide)
  have h2 := removeAll_posix pxStore 0 exView pxStore_wf.1 pxStore_wf.2 pxView_ok rfl [cA, [113], [120]] (by simp)
    (by decide) (by decide)
  have h3 := removeAll_posix pxStore 0 exView pxStore_wf.1 pxStore_wf.2 pxView_ok rfl [cA, [102], [120]] (by simp)
    (by decide) (by decide)
  have h4 := removeAll_posix pxStore 0 exView pxStore_wf.1 pxStore_wf.2 pxView_ok rfl [cA, [98], [120]] (by simp)
    (by decide) (by decide)
  have h5 := removeAll_posix pxStore 0 exView pxStore_wf.1 pxStore_wf.2 pxView_ok rfl [cA, [102]] (by simp)
    (by decide) (by decide)
  have hswf : WF stickyStore 0 ∧ NamesOK stickyStore := wfCheck_sound stickyStore 0 (by decide +kernel)
  have hsv : ViewOK stickyStore exView := ⟨by decide +kernel, by decide⟩
  have h6 := removeAll_posix stickyStore 0 exView hswf.1 hswf.2 hsv rfl [cTmp, [103]] (by simp)
    (by decide) (by decide)
  have hr1 : posixRemoveAll (walkPathL pxStore exView 0 [cTmp, [121]]) = .done := by decide +kernel
  have hr2 : posixRemoveAll (walkPathL pxStore exView 0 [cA, [113], [120]]) = .done := by decide +kernel
  have hr3 : posixRemoveAll (walkPathL pxStore exView 0 [cA, [102], [120]]) = .fail .ENOTDIR := by decide +kernel
  have hr4 : posixRemoveAll (walkPathL pxStore exView 0 [cA, [98], [120]]) = .fail .EACCES := by decide +kernel
  have hr5 : posixRemoveAll (walkPathL pxStore exView 0 [cA, [102]]) = .remove 4 6 := by decide +kernel
  have hr6 : posixRemoveAll (walkPathL stickyStore exView 0 [cTmp, [103]]) = .remove 3 9 := by decide +kernel
  simp only [hr1] at h1
  simp only [hr2] at h2
  simp only [hr3] at h3
  simp only [hr4] at h4
  simp only [hr5] at h5
  simp only [hr6] at h6
  refine ⟨h1, h2, h3, h4, ?_, ?_⟩
  · obtain ⟨_, _, h⟩ := h5
    have hne : isNonEmptyDir pxStore 6 = false := by decide +kernel
    obtain ⟨s1, _, hs1, _, heq⟩ := h (fun hh => by rw [hne] at hh; cases hh)
    have hc1 : dirPerm pxStore 4 omWrite exView = false := by decide +kernel
    rw [hs1 hne] at heq
    simp only [hc1, Bool.not_false, if_true] at heq
    exact heq
  · obtain ⟨_, _, h⟩ := h6
    have hne : isNonEmptyDir stickyStore 9 = false := by decide +kernel
    obtain ⟨s1, _, hs1, _, heq⟩ := h (fun hh => by rw [hne] at hh; cases hh)
    have hc1 : dirPerm stickyStore 3 omWrite exView = true := by decide +kernel
    have hc2 : restrictedDeletion stickyStore exView 3 9 = true := by decide +kernel
    rw [hs1 hne] at heq
    simp only [hc1, hc2, Bool.not_true, Bool.false_eq_true, if_false, if_true] at heq
    exact heq

/-- the heap after MkdirAll("/tmp/x/y/z", 0755) by the user 1000 (example of section 4): inodes 10, 11, 12 -/
@[irreducible] def rmUStore : Store :=
  (mkdirAll pxStore exView [SL, 116, 109, 112, SL, 120, SL, 121, SL, 122] 0o755).1

theorem rmUStore_wf : WF rmUStore 0 ∧ NamesOK rmUStore := wfCheck_sound rmUStore 0 (by decide +kernel)
theorem rmUView_ok : ViewOK rmUStore exView := ⟨by decide +kernel, by decide⟩

/-- RemoveAll("/tmp/x") by the user 1000, who owns the three directories: `TreeWritable` holds (the set {10, 11, 12}
    is closed under the entries and all three are writable) and so does `TreeUnrestricted` (no sticky directory),
    "/tmp" is writable: nil, and the new heap is
    `TreeRemoved`: "x" is gone from /tmp and the three directories are released empty -/
example :
    let r := (removeAll rmUStore exView [SL, 116, 109, 112, SL, 120]).1
    (removeAll rmUStore exView [SL, 116, 109, 112, SL, 120]).2 = .ok .unit ∧
    TreeRemoved 0 rmUStore 3 [120] 10 r ∧ r.child 3 [120] = none ∧
    r.get 10 = some (.dir ⟨0o755, 1000, 1000, none⟩ []) ∧ r.get 12 = some (.dir ⟨0o755, 1000, 1000, none⟩ []) := by
  intro r
  have h := removeAll_posix rmUStore 0 exView rmUStore_wf.1 rmUStore_wf.2 rmUView_ok rfl [cTmp, [120]] (by simp)
    (by decide) (by decide)
  have hr : posixRemoveAll (walkPathL rmUStore exView 0 [cTmp, [120]]) = .remove 3 10 := by decide +kernel
  simp only [hr] at h
  obtain ⟨_, _, h2⟩ := h
  have htw : TreeWritable rmUStore exView 10 :=
    treeWritable_of_closed rmUStore exView 10 [10, 11, 12] (by decide) (by decide +kernel) (by decide +kernel)
  have htu : TreeUnrestricted rmUStore exView 10 :=
    treeUnrestricted_of_closed rmUStore exView 10 [10, 11, 12] (by decide) (by decide +kernel) (by decide +kernel)
  obtain ⟨s1, hem, _, htr, heq⟩ := h2 (fun _ => ⟨htw, htu⟩)
  have hc1 : dirPerm rmUStore 3 omWrite exView = true := by decide +kernel
  have hc2 : restrictedDeletion rmUStore exView 3 10 = false := by decide +kernel
  simp only [hc1, hc2, Bool.not_true, Bool.false_eq_true, if_false] at heq
  have heq' : removeAll rmUStore exView [SL, 116, 109, 112, SL, 120] = (deleteNode (removeChild s1 3 [120]) 10, .ok .unit) :=
    heq
  have hr1 : r = deleteNode (removeChild s1 3 [120]) 10 := by
    show (removeAll rmUStore exView [SL, 116, 109, 112, SL, 120]).1 = _
    rw [heq']
  have htr' : TreeRemoved 0 rmUStore 3 [120] 10 r := by rw [hr1]; exact htr
  have hd12 : Desc rmUStore 10 12 :=
    Desc.step 11 [122] 12 (Desc.step 10 [121] 11 Desc.refl (show rmUStore.child 10 [121] = some 11 by decide +kernel))
      (show rmUStore.child 11 [122] = some 12 by decide +kernel)
  refine ⟨by rw [heq'], htr', ?_, ?_, ?_⟩
  · cases hch : r.child 3 [120] with
    | none => rfl
    | some x => exact absurd ⟨rfl, rfl⟩ ((htr'.edges 3 [120] x).mp hch).2.2
  · exact htr'.emptied 10 ⟨0o755, 1000, 1000, none⟩ [([121], 11)] Desc.refl (by decide +kernel)
  · exact htr'.emptied 12 ⟨0o755, 1000, 1000, none⟩ [] hd12 (by decide +kernel)

/-- CORNER (finding; not excluded: the reference states the model's permission conditions): RemoveAll("/tmp/d") by
    the user 1000 on the heap of Lemmas/Posix.lean. "/tmp/d" (0777) holds only the EMPTY directory "e" (0755, of the
    administrator). `TreeWritable` fails because of "e", and RemoveAll answers EACCES. rm -rf (and os.RemoveAll on
    Linux) succeeds: rmdir of an empty directory asks for write permission on its PARENT only — as MemFS's own Remove
    does: Remove("/tmp/d/e") and then Remove("/tmp/d") both succeed for the same user.
    History: memfs.New(); as root Mkdir("/tmp/d", 0777), Mkdir("/tmp/d/e", 0755), Chmod("/tmp/d", 0777); as user 1000
    RemoveAll("/tmp/d") = EACCES. -/
theorem removeAll_corner_empty_subdir :
    posixRemoveAll (walkPathL pxStore exView 0 [cTmp, [100]]) = .remove 3 7 ∧
    isNonEmptyDir pxStore 7 = true ∧ ¬ TreeWritable pxStore exView 7 ∧
    pxStore.get 8 = some (.dir ⟨0o755, 0, 0, none⟩ []) ∧
    (removeAll pxStore exView [SL, 116, 109, 112, SL, 100]).2 = .err .EACCES ∧
    (remove pxStore exView [SL, 116, 109, 112, SL, 100, SL, 101]).2 = .ok .unit ∧
    (remove (remove pxStore exView [SL, 116, 109, 112, SL, 100, SL, 101]).1 exView [SL, 116, 109, 112, SL, 100]).2 =
      .ok .unit := by
  have hr : posixRemoveAll (walkPathL pxStore exView 0 [cTmp, [100]]) = .remove 3 7 := by decide +kernel
  have hne : isNonEmptyDir pxStore 7 = true := by decide +kernel
  have hnw : ¬ TreeWritable pxStore exView 7 := by
    intro h
    have he : pxStore.child 7 [101] = some 8 := by decide +kernel
    have := h 8 (Desc.step 7 [101] 8 Desc.refl he) (by decide +kernel)
    revert this
    decide +kernel
  refine ⟨hr, hne, hnw, by decide +kernel, ?_, by decide +kernel, by decide +kernel⟩
  -- the model evaluated through the equations of `removeAllRec`: "e" may not be written, EACCES, nothing changes
  have heq := removeAll_found pxStore exView [SL, 116, 109, 112, SL, 100] 3 7 [100] (by simp) (by decide +kernel)
    (by decide +kernel) (by decide +kernel) (by decide +kernel) (by decide)
  have hnext : pxStore.next = 8 + 1 + 1 := by decide +kernel
  have h8 : removeAllRec exView (8 + 1) pxStore 8 = (pxStore, some .EACCES) := by
    rw [px3_removeAllRec_succ]
    rw [show dirPerm pxStore 8 omWrite exView = false by decide +kernel]
    rfl
  have h7 : removeAllRec exView (8 + 1 + 1) pxStore 7 = (pxStore, some .EACCES) := by
    rw [px3_removeAllRec_succ]
    rw [show dirPerm pxStore 7 omWrite exView = true by decide +kernel]
    rw [show pxStore.names 7 = [[101]] by decide +kernel]
    simp only [Bool.not_true, Bool.false_eq_true, if_false]
    rw [removeAllRec_go_dir_fail exView (8 + 1) 7 pxStore [101] [] 8 pxStore .EACCES (by decide +kernel) (by decide +kernel) h8]
  rw [heq, hne, hnext]
  simp only [if_true]
  rw [h7]

/-- the heap of Lemmas/Posix.lean after, by the administrator: Remove("/tmp/d/e"), WriteFile("/tmp/d/h", 0644),
    Chmod("/tmp/d", 01777): "/tmp/d" (7) is a sticky directory of the administrator holding his file "h" (10) -/
@[irreducible] def rmStickyStore : Store :=
  (run { initState with store := pxStore } [
    (0, .remove [SL, 116, 109, 112, SL, 100, SL, 101]),
    (0, .writeFile [SL, 116, 109, 112, SL, 100, SL, 104] [1] 0o644),
    (0, .chmod [SL, 116, 109, 112, SL, 100] 0o1777)]).1.store

theorem rmStickyStore_wf : WF rmStickyStore 0 ∧ NamesOK rmStickyStore :=
  wfCheck_sound rmStickyStore 0 (by decide +kernel)

/-- Restricted deletion INSIDE the removed tree (formerly the corner `removeAll_inner_sticky_ignored`, a defect of MemFS
    that was repaired): the user 1000 may not remove the administrator's file "/tmp/d/h" from the administrator's sticky
    directory "/tmp/d" — Remove("/tmp/d/h") = EPERM, as unlink(2) — and RemoveAll("/tmp/d") is refused as well:
    `TreeUnrestricted` fails, the answer is EPERM (the error value of unlink(2), as rm -rf / os.RemoveAll on Linux) and
    nothing changes: the protected file is still there.
    Before the repair the recursive helper of RemoveAll ignored the sticky bit of the directories inside the tree and
    RemoveAll("/tmp/d") removed the file and the directory (nil).
    History: memfs.New(); as root Mkdir("/tmp/d", 0777), WriteFile("/tmp/d/h", …, 0644), Chmod("/tmp/d", 01777); as user
    1000 Remove("/tmp/d/h") = EPERM, RemoveAll("/tmp/d") = EPERM. -/
theorem removeAll_inner_sticky_refused :
    rmStickyStore.get 7 = some (.dir ⟨0o1777, 0, 0, none⟩ [([104], 10)]) ∧
    rmStickyStore.get 10 = some (.file ⟨0o644, 0, 0, none⟩ [1] 1 3) ∧
    remove rmStickyStore exView [SL, 116, 109, 112, SL, 100, SL, 104] = (rmStickyStore, .err .EPERM) ∧
    isNonEmptyDir rmStickyStore 7 = true ∧ ¬ TreeUnrestricted rmStickyStore exView 7 ∧
    removeAll rmStickyStore exView [SL, 116, 109, 112, SL, 100] = (rmStickyStore, .err .EPERM) := by
  have hne : isNonEmptyDir rmStickyStore 7 = true := by decide +kernel
  refine ⟨by decide +kernel, by decide +kernel, by decide +kernel, hne, ?_, ?_⟩
  · intro h
    have he : rmStickyStore.child 7 [104] = some 10 := by decide +kernel
    have := h 7 [104] 10 Desc.refl he
    revert this
    decide +kernel
  · -- the model evaluated through the equations of `removeAllRec`
    have heq := removeAll_found rmStickyStore exView [SL, 116, 109, 112, SL, 100] 3 7 [100] (by simp) (by decide +kernel)
      (by decide +kernel) (by decide +kernel) (by decide +kernel) (by decide)
    have hnext : rmStickyStore.next = 10 + 1 := by decide +kernel
    have h7 : removeAllRec exView (10 + 1) rmStickyStore 7 = (rmStickyStore, some .EPERM) := by
      rw [px3_removeAllRec_succ]
      rw [show dirPerm rmStickyStore 7 omWrite exView = true by decide +kernel]
      rw [show rmStickyStore.names 7 = [[104]] by decide +kernel]
      simp only [Bool.not_true, Bool.false_eq_true, if_false]
      rw [removeAllRec_go_file_refused exView 10 7 rmStickyStore [104] [] 10 (by decide +kernel) (by decide +kernel)
        (by decide +kernel)]
    rw [heq, hne, hnext]
    simp only [if_true]
    rw [h7]

/-- the same through `removeAll_posix`: its hypotheses are met on `rmStickyStore` and its failure branch applies -/
example : ∃ s1 e, (e = .EACCES ∨ e = .EPERM) ∧
    removeAll rmStickyStore exView [SL, 116, 109, 112, SL, 100] = (s1, .err e) ∧
    RAGood 0 rmStickyStore 7 s1 ∧ Keeps rmStickyStore s1 := by
  have hv : ViewOK rmStickyStore exView := ⟨by decide +kernel, by decide⟩
  have h := removeAll_posix rmStickyStore 0 exView rmStickyStore_wf.1 rmStickyStore_wf.2 hv rfl [cTmp, [100]] (by simp)
    (by decide) (by decide)
  have hr : posixRemoveAll (walkPathL rmStickyStore exView 0 [cTmp, [100]]) = .remove 3 7 := by decide +kernel
  simp only [hr] at h
  exact h.2.1 removeAll_inner_sticky_refused.2.2.2.1 (fun hh => removeAll_inner_sticky_refused.2.2.2.2.1 hh.2)

/-! #### further instances: `lstat_posix`, `readlink_linkfree`, `mkdirAll_cases` -/

/-- Lstat("/tmp/l") on the heap with the link: the link itself is described (kind 2, mode 0777, owner 1000:1000), not
    its target; Lstat("/tmp/y"): ENOENT; Readlink of the link-free "/a/f": EINVAL -/
example : stat p3lStore exView [SL, 116, 109, 112, SL, 108] .lstat =
      (p3lStore, .ok (.info ⟨[108], 2, 0o777, 1000, 1000, 0, 1, 0, none⟩)) ∧
    stat p3lStore exView [SL, 116, 109, 112, SL, 121] .lstat = (p3lStore, .err .ENOENT) ∧
    readlink p3lStore exView [SL, 97, SL, 102] = (p3lStore, .err .EINVAL) := by
  have h1 := lstat_posix p3lStore 0 exView p3lStore_wf.1 p3lStore_wf.2 p3lView_ok rfl [cTmp, [108]] (by simp)
    (by decide) (by decide)
  have h2 := lstat_posix p3lStore 0 exView p3lStore_wf.1 p3lStore_wf.2 p3lView_ok rfl [cTmp, [121]] (by simp)
    (by decide) (by decide)
  have h3 := readlink_linkfree p3lStore 0 exView p3lStore_wf.1 p3lStore_wf.2 p3lView_ok rfl [cA, [102]] (by decide)
    (by decide) 4 6 (by decide +kernel)
  have hw1 : walkPathL p3lStore exView 0 [cTmp, [108]] = .found 3 10 := by decide +kernel
  have hw2 : walkPathL p3lStore exView 0 [cTmp, [121]] = .missingLast 3 [121] := by decide +kernel
  have hf1 : fillStat p3lStore 10 [108] = some ⟨[108], 2, 0o777, 1000, 1000, 0, 1, 0, none⟩ := by decide +kernel
  simp only [hw1] at h1
  simp only [hw2] at h2
  obtain ⟨hs1, i1, hi1, ho1⟩ := h1
  have e1 : i1 = ⟨[108], 2, 0o777, 1000, 1000, 0, 1, 0, none⟩ := Option.some.inj (hi1.symm.trans hf1)
  subst e1
  exact ⟨Prod.ext hs1 ho1, Prod.ext h2.1 h2.2, h3⟩

/-- `mkdirAll_cases`: only the last component is missing — MkdirAll("/tmp/x", 0700) by the user is Mkdir; an existing
    directory: nil; an existing regular file: ENOTDIR -/
example : mkdirAll pxStore exView [SL, 116, 109, 112, SL, 120] 0o700 =
      ((createDir pxStore exView 3 [120] 0o700).1, .ok .unit) ∧
    mkdirAll pxStore exView [SL, 116, 109, 112, SL, 100] 0o700 = (pxStore, .ok .unit) ∧
    mkdirAll pxStore exView [SL, 116, 109, 112, SL, 103] 0o700 = (pxStore, .err .ENOTDIR) := by
  have h1 := mkdirAll_cases pxStore 0 exView pxStore_wf.1 pxStore_wf.2 pxView_ok rfl [cTmp, [120]] (by decide)
    (by decide) 0o700
  have h2 := mkdirAll_cases pxStore 0 exView pxStore_wf.1 pxStore_wf.2 pxView_ok rfl [cTmp, [100]] (by decide)
    (by decide) 0o700
  have h3 := mkdirAll_cases pxStore 0 exView pxStore_wf.1 pxStore_wf.2 pxView_ok rfl [cTmp, [103]] (by decide)
    (by decide) 0o700
  have hw1 : walkPath pxStore exView 0 [cTmp, [120]] = .missingLast 3 [120] := by decide +kernel
  have hw2 : walkPath pxStore exView 0 [cTmp, [100]] = .found 3 7 := by decide +kernel
  have hw3 : walkPath pxStore exView 0 [cTmp, [103]] = .found 3 9 := by decide +kernel
  have hd1 : dirPerm pxStore 3 (omWrite ||| omLookup) exView = true := by decide +kernel
  have hd2 : isDirAt pxStore 7 = true := by decide +kernel
  have hd3 : isDirAt pxStore 9 = false := by decide +kernel
  simp only [hw1, hd1, if_true] at h1
  simp only [hw2, hd2, if_true] at h2
  simp only [hw3, hd3] at h3
  exact ⟨h1, h2, h3⟩

end Avfs.FS
