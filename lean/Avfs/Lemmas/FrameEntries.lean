import Avfs.Lemmas.Frame
/-
  FRAME, second half (property C05): inside the directories a call touches, only the entries it names change.

  `EntriesOutside s s' E`: every pair (directory, name) for which `E` does not hold designates the same inode in `s'`
  as in `s` (or nothing in both). Together with `Frame` (Lemmas/Frame.lean: nodes outside the touched list are
  identical) this pins down what a call may do to the namespace: Mkdir adds ONE entry to the parent and leaves its
  other entries alone, Rename changes the two names it is given and nothing else, attribute calls change no entry.
  As in Frame.lean the theorems hold for every path and every store, without hypothesis; the entries are named through
  the walk of the call (`searchNode`): the parent it returns and the last component `partOf r.pi`.
-/
set_option linter.unusedVariables false
set_option linter.unusedSimpArgs false

namespace Avfs.FS
open Avfs.Path

/-- every (directory, name) pair outside `E` designates the same inode as before (or nothing in both) -/
def EntriesOutside (s s' : Store) (E : Ino → Bytes → Prop) : Prop :=
  ∀ d n, ¬ E d n → s'.child d n = s.child d n

theorem EntriesOutside.refl (s : Store) (E : Ino → Bytes → Prop) : EntriesOutside s s E := fun _ _ _ => rfl

theorem EntriesOutside.trans {s s' s'' : Store} {E : Ino → Bytes → Prop} (h1 : EntriesOutside s s' E)
    (h2 : EntriesOutside s' s'' E) : EntriesOutside s s'' E :=
  fun d n h => (h2 d n h).trans (h1 d n h)

theorem EntriesOutside.mono {s s' : Store} {E F : Ino → Bytes → Prop} (h : EntriesOutside s s' E)
    (hef : ∀ d n, E d n → F d n) : EntriesOutside s s' F :=
  fun d n hn => h d n (fun he => hn (hef d n he))

theorem EntriesOutside.of_eq {s s' : Store} {E : Ino → Bytes → Prop} (h : s' = s) : EntriesOutside s s' E :=
  h ▸ EntriesOutside.refl s E

theorem EntriesOutside.ite {β : Type} {c : Prop} [Decidable c] {s : Store} {E : Ino → Bytes → Prop}
    {a b : Store × β} (ha : EntriesOutside s a.1 E) (hb : EntriesOutside s b.1 E) :
    EntriesOutside s (if c then a else b).1 E := by
  split <;> assumption

/-- the entries a node carries -/
def Node.entries : Node → List (Bytes × Ino)
  | .dir _ ch => ch
  | _ => []

theorem children_eq_entries (s : Store) (i : Ino) : s.children i = ((s.get i).map Node.entries).getD [] := by
  unfold Store.children
  cases s.get i with
  | none => rfl
  | some n => cases n <;> rfl

theorem entries_setMeta (n : Node) (m : Meta) : (n.setMeta m).entries = n.entries := by cases n <;> rfl

theorem entries_setMode {n n' : Node} {mode : Nat} {v : View} (h : setMode n mode v = some n') :
    n'.entries = n.entries := by
  unfold setMode at h
  split at h
  · cases h
  · dsimp only at h
    split at h
    · cases h
    · cases h; exact entries_setMeta _ _

/-! ### the primitives -/

/-- rebinding an inode to a node with the same entries changes no entry -/
theorem EntriesOutside.set (s : Store) (E : Ino → Bytes → Prop) {i : Ino} {n' : Node}
    (h : n'.entries = s.children i) : EntriesOutside s (s.set i n') E := by
  intro d n _
  unfold Store.child
  rw [hr_children_set]
  by_cases hid : i = d
  · subst hid
    simp only [if_true]
    rw [← h]
    cases n' <;> rfl
  · simp [hid]

theorem EntriesOutside.set_of_get (s : Store) (E : Ino → Bytes → Prop) {i : Ino} {n n' : Node}
    (hg : s.get i = some n) (h : n'.entries = n.entries) : EntriesOutside s (s.set i n') E := by
  apply EntriesOutside.set
  rw [h, children_eq_entries, hg]
  rfl

theorem EntriesOutside.set_file (s : Store) (E : Ino → Bytes → Prop) {i : Ino} {m : Meta} {d : Bytes} {nl : Int}
    {id : Nat} (hg : s.get i = some (.file m d nl id)) (m' : Meta) (d' : Bytes) (nl' : Int) (id' : Nat) :
    EntriesOutside s (s.set i (.file m' d' nl' id')) E :=
  EntriesOutside.set_of_get s E hg rfl

theorem EntriesOutside.addChild (s : Store) {E : Ino → Bytes → Prop} {d : Ino} {n : Bytes} (he : E d n) (c : Ino) :
    EntriesOutside s (Avfs.FS.addChild s d n c) E := by
  intro d' n' hn
  cases hd : isDirAt s d with
  | true =>
    rw [hr_child_addChild s d n c d' n' hd]
    have : ¬ (d' = d ∧ n' = n) := by rintro ⟨rfl, rfl⟩; exact hn he
    simp [this]
  | false =>
    have : Avfs.FS.addChild s d n c = s := by
      unfold Avfs.FS.addChild
      split
      · rename_i hg
        simp [isDirAt, hg] at hd
      · rfl
    rw [this]

theorem EntriesOutside.removeChild (s : Store) {E : Ino → Bytes → Prop} {d : Ino} {n : Bytes} (he : E d n) :
    EntriesOutside s (Avfs.FS.removeChild s d n) E := by
  intro d' n' hn
  rw [hr_child_removeChild]
  have : ¬ (d' = d ∧ n' = n) := by rintro ⟨rfl, rfl⟩; exact hn he
  simp [this]

/-- releasing a node that has no entry (a file, a link, an empty directory) changes no entry -/
theorem EntriesOutside.deleteNode (s : Store) {E : Ino → Bytes → Prop} {c : Ino}
    (h : ∀ n, E c n ∨ s.child c n = none) : EntriesOutside s (Avfs.FS.deleteNode s c) E := by
  intro d' n' hn
  rw [hr_child_deleteNode]
  by_cases hd : d' = c
  · subst hd
    simp only [if_true]
    rcases h n' with he | hnone
    · exact absurd he hn
    · exact hnone.symm
  · simp [hd]

/-- binding the next inode to a node without entries -/
theorem EntriesOutside.alloc (s : Store) {E : Ino → Bytes → Prop} {nd : Node} (hleaf : nd.entries = [])
    (h : ∀ n, E s.next n ∨ s.child s.next n = none) : EntriesOutside s (s.alloc nd).1 E := by
  intro d' n' hn
  have hset : (s.alloc nd).1.child d' n' = (s.set s.next nd).child d' n' := rfl
  rw [hset]
  unfold Store.child
  rw [hr_children_set]
  by_cases hd : s.next = d'
  · subst hd
    simp only [if_true]
    have hnone : s.child s.next n' = none := by
      rcases h n' with he | hnone
      · exact absurd he hn
      · exact hnone
    unfold Store.child at hnone
    rw [hnone]
    cases nd with
    | dir m ch => simp only [Node.entries] at hleaf; subst hleaf; rfl
    | file _ _ _ _ => rfl
    | symlink _ _ => rfl
  · simp [hd]

theorem EntriesOutside.createDir (s : Store) (v : View) {E : Ino → Bytes → Prop} {par : Ino} {name : Bytes}
    (he : E par name) (hn : ∀ n, E s.next n) (perm : Nat) : EntriesOutside s (Avfs.FS.createDir s v par name perm).1 E := by
  unfold Avfs.FS.createDir
  exact (EntriesOutside.alloc s rfl (fun n => Or.inl (hn n))).trans (EntriesOutside.addChild _ he _)

theorem EntriesOutside.createSymlink (s : Store) (v : View) {E : Ino → Bytes → Prop} {par : Ino} {name : Bytes}
    (he : E par name) (hn : ∀ n, E s.next n) (link : Bytes) :
    EntriesOutside s (Avfs.FS.createSymlink s v par name link).1 E := by
  unfold Avfs.FS.createSymlink
  exact (EntriesOutside.alloc s rfl (fun n => Or.inl (hn n))).trans (EntriesOutside.addChild _ he _)

theorem EntriesOutside.createFile (s : Store) (v : View) {E : Ino → Bytes → Prop} {par : Ino} {name : Bytes}
    (he : E par name) (hn : ∀ n, E s.next n) (perm : Nat) : EntriesOutside s (Avfs.FS.createFile s v par name perm).1 E := by
  unfold Avfs.FS.createFile
  have h0 : EntriesOutside s { s with lastId := s.lastId + 1 } E := fun _ _ _ => rfl
  exact (h0.trans (EntriesOutside.alloc (E := E) { s with lastId := s.lastId + 1 } rfl (fun n => Or.inl (hn n)))).trans
    (EntriesOutside.addChild _ he _)

/-! ### the calls -/

/-- the entry a creating call makes: the last component of the walk, in the parent the walk returns; and (vacuous in
    a well-formed heap, where nothing is bound at `s.next`) the entries of the inode it allocates -/
def newEntry (s : Store) (r : SR) : Ino → Bytes → Prop :=
  fun d n => (d = r.parent ∧ n = partOf r.pi) ∨ d = s.next

/-- Mkdir adds the entry it names and changes no other -/
theorem entries_mkdir (s : Store) (v : View) (p : Bytes) (perm : Nat) :
    EntriesOutside s (mkdir s v p perm).1 (newEntry s (searchNode s v p .lstat)) := by
  unfold mkdir
  dsimp only
  repeat' split
  all_goals first
    | exact EntriesOutside.refl _ _
    | exact EntriesOutside.createDir _ _ (Or.inl ⟨rfl, rfl⟩) (fun _ => Or.inr rfl) _

theorem entries_symlink (s : Store) (v : View) (o n : Bytes) :
    EntriesOutside s (symlink s v o n).1 (newEntry s (searchNode s v n .lstat)) := by
  unfold symlink
  dsimp only
  repeat' split
  all_goals first
    | exact EntriesOutside.refl _ _
    | exact EntriesOutside.createSymlink _ _ (Or.inl ⟨rfl, rfl⟩) (fun _ => Or.inr rfl) _

/-- OpenFile adds the entry it names when it creates; truncation changes no entry -/
theorem entries_openFile (s : Store) (v : View) (vid : Nat) (p : Bytes) (flag perm : Nat) :
    EntriesOutside s (openFile s v vid p flag perm).1 (newEntry s (searchNode s v p .eval)) := by
  unfold openFile
  dsimp only
  repeat' split
  all_goals first
    | exact EntriesOutside.refl _ _
    | exact EntriesOutside.createFile _ _ (Or.inl ⟨rfl, rfl⟩) (fun _ => Or.inr rfl) _
    | exact EntriesOutside.set_file _ _ (by assumption) _ _ _ _

/-- attribute and content calls change no entry at all -/
theorem entries_chmod (s : Store) (v : View) (p : Bytes) (mode : Nat) :
    EntriesOutside s (chmod s v p mode).1 (fun _ _ => False) := by
  unfold chmod
  dsimp only
  repeat' split
  all_goals first
    | exact EntriesOutside.refl _ _
    | exact EntriesOutside.set_of_get _ _ (by assumption) (entries_setMode (by assumption))

theorem entries_chown (s : Store) (v : View) (p : Bytes) (uid gid : Int) (m : SlMode) :
    EntriesOutside s (chown s v p uid gid m).1 (fun _ _ => False) := by
  unfold chown
  dsimp only
  repeat' split
  all_goals first
    | exact EntriesOutside.refl _ _
    | exact EntriesOutside.set_of_get _ _ (by assumption) (entries_setMeta _ _)

theorem entries_chtimes (s : Store) (v : View) (p : Bytes) (t : Int) :
    EntriesOutside s (chtimes s v p t).1 (fun _ _ => False) := by
  unfold chtimes
  dsimp only
  repeat' split
  all_goals first
    | exact EntriesOutside.refl _ _
    | exact EntriesOutside.set_of_get _ _ (by assumption) (entries_setMeta _ _)

theorem entries_truncate (s : Store) (v : View) (p : Bytes) (size : Int) :
    EntriesOutside s (truncate s v p size).1 (fun _ _ => False) := by
  unfold truncate
  dsimp only
  repeat' split
  all_goals first
    | exact EntriesOutside.refl _ _
    | exact EntriesOutside.set_file _ _ (by assumption) _ _ _ _

theorem entries_fileStep (s : Store) (v : View) (h : Handle) (op : FOp) :
    EntriesOutside s (fileStep s v h op).1 (fun _ _ => False) := by
  cases op <;> simp only [fileStep] <;> repeat' split
  all_goals first
    | exact EntriesOutside.refl _ _
    | exact EntriesOutside.set_file _ _ (by assumption) _ _ _ _
    | exact EntriesOutside.set_of_get _ _ (by assumption) (entries_setMode (by assumption))
    | exact EntriesOutside.set_of_get _ _ (by assumption) (entries_setMeta _ _)

/-- untouched nodes keep their entries -/
theorem FrameP.entries {s s' : Store} {P : Ino → Prop} (h : FrameP s s' P) : EntriesOutside s s' (fun d _ => P d) :=
  fun d n hd => h.child hd n

theorem child_none_of_empty_keys {s : Store} {c : Ino} {m : Meta} {ch : List (Bytes × Ino)}
    (hg : s.get c = some (.dir m ch)) (hk : (alKeys ch).length = 0) (n : Bytes) : s.child c n = none := by
  cases hc : s.child c n with
  | none => rfl
  | some x =>
    have hm : n ∈ alKeys (s.children c) := (hr_mem_keys_children s c n).2 (by simp [hc])
    rw [hr_children_of_dir hg, List.eq_nil_of_length_eq_zero hk] at hm
    cases hm

theorem child_none_removeChild {s : Store} {c : Ino} {n : Bytes} (h : s.child c n = none) (p : Ino) (nm : Bytes) :
    (removeChild s p nm).child c n = none := by
  rw [hr_child_removeChild]
  split
  · rfl
  · exact h

theorem isDirAt_addChild (s : Store) (d : Ino) (n : Bytes) (c x : Ino) : isDirAt (addChild s d n c) x = isDirAt s x :=
  (HrShape.addChild s d n c).isDir x

/-- the entry named by a walk: the last component, in the parent the walk returns -/
def entryOf (r : SR) : Ino → Bytes → Prop := fun d n => d = r.parent ∧ n = partOf r.pi

/-- Link adds the entry it names and changes no other (the file only gains a link) -/
theorem entries_link (s : Store) (v : View) (o n : Bytes) :
    EntriesOutside s (link s v o n).1 (entryOf (searchNode s v n .lstat)) := by
  unfold link
  generalize searchNode s v o .lstat = ro
  generalize searchNode s v n .lstat = rn
  dsimp only
  repeat' split
  all_goals first
    | exact EntriesOutside.refl _ _
    | skip
  rename_i oc _ _ _ _ _ _ m d nl id hg
  refine (EntriesOutside.addChild s (E := entryOf rn) ⟨rfl, rfl⟩ oc).trans ?_
  apply EntriesOutside.set
  have hnd : isDirAt (addChild s rn.parent (partOf rn.pi) oc) oc = false := by
    rw [isDirAt_addChild]; simp [isDirAt, hg]
  rw [hr_children_of_not_dir hnd]
  rfl

/-- Remove erases the entry it names and changes no other (the released node had none) -/
theorem entries_remove (s : Store) (v : View) (p : Bytes) :
    EntriesOutside s (remove s v p).1 (entryOf (searchNode s v p .lstat)) := by
  unfold remove
  generalize searchNode s v p .lstat = r
  have hgo : ∀ c, (∀ n, s.child c n = none) →
      EntriesOutside s (deleteNode (removeChild s r.parent (partOf r.pi)) c) (entryOf r) := by
    intro c hc
    refine (EntriesOutside.removeChild s (E := entryOf r) ⟨rfl, rfl⟩).trans ?_
    exact EntriesOutside.deleteNode _ (fun n => Or.inr (child_none_removeChild (hc n) _ _))
  dsimp only
  repeat' split
  all_goals first
    | exact EntriesOutside.refl _ _
    | skip
  · rename_i c _ _ _ _ _ m ch hg hk _
    apply hgo
    intro n
    exact child_none_of_empty_keys hg (by simpa using hk) n
  · rename_i c _ _ _ _ _ nd hnd hg _
    apply hgo
    intro n
    apply hr_child_of_not_dir
    cases nd with
    | dir m ch => exact absurd rfl (hnd m ch)
    | file _ _ _ _ => simp [isDirAt, hg]
    | symlink _ _ => simp [isDirAt, hg]

/-- Rename changes the two entries it names and no other: the old name goes, the new name designates the moved node
    (the replaced file or link, released, had no entries) -/
theorem entries_rename (s : Store) (v : View) (o n : Bytes) :
    EntriesOutside s (rename s v o n).1
      (fun d nm => entryOf (searchNode s v o .lstat) d nm ∨ entryOf (searchNode s v n .lstat) d nm) := by
  unfold rename
  generalize searchNode s v o .lstat = ro
  generalize searchNode s v n .lstat = rn
  dsimp only
  have h := EntriesOutside.refl s (fun d nm => entryOf ro d nm ∨ entryOf rn d nm)
  refine EntriesOutside.ite h (EntriesOutside.ite h (EntriesOutside.ite h (EntriesOutside.ite h
    (EntriesOutside.ite h (EntriesOutside.ite h ?_)))))
  cases ro.child with
  | none => exact h
  | some oc =>
    dsimp only
    refine EntriesOutside.ite h (EntriesOutside.ite h ?_)
    have hmv0 : ∀ s0, EntriesOutside s s0 (fun d nm => entryOf ro d nm ∨ entryOf rn d nm) →
        EntriesOutside s (removeChild (addChild s0 rn.parent (partOf rn.pi) oc) ro.parent (partOf ro.pi))
          (fun d nm => entryOf ro d nm ∨ entryOf rn d nm) := by
      intro s0 h0
      exact (h0.trans (EntriesOutside.addChild _ (Or.inr ⟨rfl, rfl⟩) _)).trans
        (EntriesOutside.removeChild _ (Or.inl ⟨rfl, rfl⟩))
    have hmv := hmv0 s h
    have hrest : EntriesOutside s (match rn.child with
        | none => (removeChild (addChild s rn.parent (partOf rn.pi) oc) ro.parent (partOf ro.pi), Out.ok Val.unit)
        | some nc =>
          if (rn.err == SErr.noent) = true then
            (removeChild (addChild s rn.parent (partOf rn.pi) oc) ro.parent (partOf ro.pi), Out.ok Val.unit)
          else
            match s.get nc with
            | some (Node.file m data nlink id) =>
              if (nc == oc) = true then (s, Out.ok Val.unit)
              else (removeChild (addChild (deleteNode s nc) rn.parent (partOf rn.pi) oc) ro.parent (partOf ro.pi), Out.ok Val.unit)
            | some (Node.symlink m link) =>
              (removeChild (addChild (deleteNode s nc) rn.parent (partOf rn.pi) oc) ro.parent (partOf ro.pi), Out.ok Val.unit)
            | x => (s, Out.err Err.EEXIST)).1 (fun d nm => entryOf ro d nm ∨ entryOf rn d nm) := by
      cases rn.child with
      | none => exact hmv
      | some nc =>
        dsimp only
        refine EntriesOutside.ite hmv ?_
        have hdel : isDirAt s nc = false → EntriesOutside s
            (removeChild (addChild (deleteNode s nc) rn.parent (partOf rn.pi) oc) ro.parent (partOf ro.pi))
            (fun d nm => entryOf ro d nm ∨ entryOf rn d nm) := by
          intro hnd
          exact hmv0 _ (EntriesOutside.deleteNode s (fun nm => Or.inr (hr_child_of_not_dir hnd nm)))
        cases hg : s.get nc with
        | none => exact h
        | some nd =>
          cases nd with
          | dir _ _ => exact h
          | file _ _ _ _ => exact EntriesOutside.ite h (hdel (by simp [isDirAt, hg]))
          | symlink _ _ => exact hdel (by simp [isDirAt, hg])
    cases s.get oc with
    | none => exact h
    | some nd =>
      cases nd with
      | dir _ _ => exact EntriesOutside.ite h (EntriesOutside.ite h hmv)
      | file _ _ _ _ => exact hrest
      | symlink _ _ => exact hrest

/-! ### MkdirAll and RemoveAll -/

theorem entries_mkdirAllLoop (v : View) (perm : Nat) : ∀ (fuel : Nat) (s : Store) (dn : Ino) (it : Iter),
    EntriesOutside s (mkdirAllLoop v perm fuel s dn it) (fun d n => (d = dn ∧ n = partOf it) ∨ s.next ≤ d) := by
  intro fuel
  induction fuel with
  | zero => intro s dn it; exact EntriesOutside.refl _ _
  | succ fuel ih =>
    intro s dn it
    rw [mkdirAllLoop]
    dsimp only
    have h1 : EntriesOutside s (createDir s v dn (partOf it) perm).1
        (fun d n => (d = dn ∧ n = partOf it) ∨ s.next ≤ d) :=
      EntriesOutside.createDir s v (Or.inl ⟨rfl, rfl⟩) (fun _ => Or.inr (Nat.le_refl _)) _
    split
    · exact EntriesOutside.refl _ _
    · split
      · exact h1
      · refine h1.trans ((ih _ _ _).mono ?_)
        intro d n hi
        rw [createDir_next] at hi
        have : (createDir s v dn (partOf it) perm).2 = s.next := rfl
        rw [this] at hi
        rcases hi with ⟨hi, _⟩ | hi
        · exact Or.inr (Nat.le_of_eq hi.symm)
        · exact Or.inr (Nat.le_of_succ_le hi)

/-- MkdirAll adds ONE entry to a directory that existed before (the first missing component, in the deepest existing
    directory); all other new entries are in the directories it allocates -/
theorem entries_mkdirAll (s : Store) (v : View) (p : Bytes) (perm : Nat) :
    EntriesOutside s (mkdirAll s v p perm).1
      (fun d n => entryOf (searchNode s v p .eval) d n ∨ s.next ≤ d) := by
  unfold mkdirAll
  dsimp only
  repeat' split
  all_goals first
    | exact EntriesOutside.refl _ _
    | exact entries_mkdirAllLoop _ _ _ _ _ _

/-- RemoveAll erases the entry it names and entries of directories at or below the removed node; no other -/
theorem entries_removeAll (s : Store) (v : View) (p : Bytes) :
    EntriesOutside s (removeAll s v p).1 (fun d n => entryOf (searchNode s v p .lstat) d n ∨
      ∃ c, (searchNode s v p .lstat).child = some c ∧ Desc s c d) := by
  unfold removeAll
  generalize searchNode s v p .lstat = r
  dsimp only
  have h := EntriesOutside.refl s (fun d n => entryOf r d n ∨ ∃ c, r.child = some c ∧ Desc s c d)
  refine EntriesOutside.ite h (EntriesOutside.ite h ?_)
  revert h
  cases r.child with
  | none => intro h; cases r.err <;> exact h
  | some c =>
    intro h
    cases r.err <;> try exact h
    dsimp only
    refine EntriesOutside.ite h ?_
    have hX : EntriesOutside s (if (match s.get c with
          | some (Node.dir m ch) => (alKeys ch).length != 0
          | x => false) = true then removeAllRec v s.next s c else (s, none)).1
        (fun d n => entryOf r d n ∨ ∃ c', some c = some c' ∧ Desc s c' d) :=
      EntriesOutside.ite ((frame_removeAllRec v _ s c).entries.mono (fun d n hi => Or.inr ⟨c, rfl, hi⟩)) h
    generalize (if (match s.get c with
          | some (Node.dir m ch) => (alKeys ch).length != 0
          | x => false) = true then removeAllRec v s.next s c else (s, none)) = q at hX
    obtain ⟨s1, e⟩ := q
    cases e with
    | some e => exact hX
    | none =>
      refine EntriesOutside.ite hX (EntriesOutside.ite hX ?_)
      exact hX.trans ((EntriesOutside.removeChild _ (Or.inl ⟨rfl, rfl⟩)).trans
        (EntriesOutside.deleteNode _ (fun n => Or.inl (Or.inr ⟨c, rfl, Desc.refl⟩))))

/-! ### namespace calls keep kind, attributes, content and id of EVERY existing node (the touched ones included)

  `NodeKeep` (Lemmas/Posix3.lean): same kind, same attributes, same file content and id; the entries of a directory, the
  link count of a file and the target of a released link may differ. So Mkdir, Symlink, Link, Remove, Rename,
  MkdirAll, RemoveAll and a creating OpenFile change, in the nodes they touch, entries and link counts only. -/

/-- every inode outside `P` keeps kind, attributes, content and id -/
def KeptOutside (s s' : Store) (P : Ino → Prop) : Prop := ∀ x, ¬ P x → NodeKeep (s.get x) (s'.get x)

theorem KeptOutside.refl (s : Store) (P : Ino → Prop) : KeptOutside s s P := fun _ _ => NodeKeep.refl _

theorem KeptOutside.trans {s s' s'' : Store} {P : Ino → Prop} (h1 : KeptOutside s s' P) (h2 : KeptOutside s' s'' P) :
    KeptOutside s s'' P := fun x hx => (h1 x hx).trans (h2 x hx)

theorem KeptOutside.mono {s s' : Store} {P Q : Ino → Prop} (h : KeptOutside s s' P) (hpq : ∀ i, P i → Q i) :
    KeptOutside s s' Q := fun x hx => h x (fun hp => hx (hpq x hp))

theorem KeptOutside.ite {β : Type} {c : Prop} [Decidable c] {s : Store} {P : Ino → Prop}
    {a b : Store × β} (ha : KeptOutside s a.1 P) (hb : KeptOutside s b.1 P) :
    KeptOutside s (if c then a else b).1 P := by
  split <;> assumption

theorem KeptOutside.of_keeps {s s' : Store} (h : Keeps s s') (P : Ino → Prop) : KeptOutside s s' P :=
  fun x _ => h.node x

theorem Keeps.addChild (s : Store) (d : Ino) (n : Bytes) (c : Ino) : Keeps s (Avfs.FS.addChild s d n c) := by
  unfold Avfs.FS.addChild
  split
  · rename_i hg; exact Keeps.set hg rfl
  · exact Keeps.refl s

theorem KeptOutside.alloc (s : Store) {P : Ino → Prop} (hn : P s.next) (nd : Node) : KeptOutside s (s.alloc nd).1 P := by
  intro x hx
  have : ¬ s.next = x := fun e => hx (e ▸ hn)
  have hg : (s.alloc nd).1.get x = s.get x := by simp [Store.alloc, Store.get, AL.lookup_insert, this]
  rw [hg]; exact NodeKeep.refl _

theorem KeptOutside.createDir (s : Store) (v : View) {P : Ino → Prop} (hn : P s.next) (par : Ino) (name : Bytes)
    (perm : Nat) : KeptOutside s (Avfs.FS.createDir s v par name perm).1 P := by
  unfold Avfs.FS.createDir
  exact (KeptOutside.alloc s hn _).trans (KeptOutside.of_keeps (Keeps.addChild _ _ _ _) P)

theorem KeptOutside.createSymlink (s : Store) (v : View) {P : Ino → Prop} (hn : P s.next) (par : Ino) (name link : Bytes) :
    KeptOutside s (Avfs.FS.createSymlink s v par name link).1 P := by
  unfold Avfs.FS.createSymlink
  exact (KeptOutside.alloc s hn _).trans (KeptOutside.of_keeps (Keeps.addChild _ _ _ _) P)

theorem KeptOutside.createFile (s : Store) (v : View) {P : Ino → Prop} (hn : P s.next) (par : Ino) (name : Bytes)
    (perm : Nat) : KeptOutside s (Avfs.FS.createFile s v par name perm).1 P := by
  unfold Avfs.FS.createFile
  have h0 : KeptOutside s { s with lastId := s.lastId + 1 } P := fun _ _ => NodeKeep.refl _
  exact (h0.trans (KeptOutside.alloc (P := P) { s with lastId := s.lastId + 1 } hn _)).trans
    (KeptOutside.of_keeps (Keeps.addChild _ _ _ _) P)

theorem kept_mkdir (s : Store) (v : View) (p : Bytes) (perm : Nat) :
    KeptOutside s (mkdir s v p perm).1 (· = s.next) := by
  unfold mkdir
  dsimp only
  repeat' split
  all_goals first
    | exact KeptOutside.refl _ _
    | exact KeptOutside.createDir (P := (· = s.next)) _ _ rfl _ _ _

theorem kept_symlink (s : Store) (v : View) (o n : Bytes) :
    KeptOutside s (symlink s v o n).1 (· = s.next) := by
  unfold symlink
  dsimp only
  repeat' split
  all_goals first
    | exact KeptOutside.refl _ _
    | exact KeptOutside.createSymlink (P := (· = s.next)) _ _ rfl _ _ _

theorem get_addChild_of_file {s : Store} {c : Ino} {m : Meta} {d : Bytes} {nl : Int} {id : Nat}
    (hg : s.get c = some (.file m d nl id)) (p : Ino) (n : Bytes) (x : Ino) :
    (addChild s p n x).get c = some (.file m d nl id) := by
  unfold addChild
  split
  · rename_i mp chp hgp
    rw [hr_get_set]
    by_cases hpc : p = c
    · subst hpc; rw [hg] at hgp; cases hgp
    · simp [hpc, hg]
  · exact hg

/-- Link, Remove and Rename allocate nothing and keep kind, attributes, content and id of every node -/
theorem keeps_link (s : Store) (v : View) (o n : Bytes) : Keeps s (link s v o n).1 := by
  unfold link
  dsimp only
  repeat' split
  all_goals first
    | exact Keeps.refl _
    | skip
  rename_i m d nl id hg
  exact (Keeps.addChild s _ _ _).trans (Keeps.set (get_addChild_of_file hg _ _ _) ⟨rfl, rfl, rfl⟩)

theorem keeps_remove (s : Store) (v : View) (p : Bytes) : Keeps s (remove s v p).1 := by
  unfold remove
  dsimp only
  repeat' split
  all_goals first
    | exact Keeps.refl _
    | exact (Keeps.removeChild _ _ _).trans (Keeps.deleteNode _ _)

theorem Keeps.ite {β : Type} {c : Prop} [Decidable c] {s : Store} {a b : Store × β}
    (ha : Keeps s a.1) (hb : Keeps s b.1) : Keeps s (if c then a else b).1 := by
  split <;> assumption

theorem keeps_rename (s : Store) (v : View) (o n : Bytes) : Keeps s (rename s v o n).1 := by
  unfold rename
  generalize searchNode s v o .lstat = ro
  generalize searchNode s v n .lstat = rn
  dsimp only
  have h := Keeps.refl s
  refine Keeps.ite h (Keeps.ite h (Keeps.ite h (Keeps.ite h (Keeps.ite h (Keeps.ite h ?_)))))
  cases ro.child with
  | none => exact h
  | some oc =>
    dsimp only
    refine Keeps.ite h (Keeps.ite h ?_)
    have hmv0 : ∀ s0, Keeps s s0 →
        Keeps s (removeChild (addChild s0 rn.parent (partOf rn.pi) oc) ro.parent (partOf ro.pi)) :=
      fun s0 h0 => (h0.trans (Keeps.addChild _ _ _ _)).trans (Keeps.removeChild _ _ _)
    have hmv := hmv0 s h
    have hrest : Keeps s (match rn.child with
        | none => (removeChild (addChild s rn.parent (partOf rn.pi) oc) ro.parent (partOf ro.pi), Out.ok Val.unit)
        | some nc =>
          if (rn.err == SErr.noent) = true then
            (removeChild (addChild s rn.parent (partOf rn.pi) oc) ro.parent (partOf ro.pi), Out.ok Val.unit)
          else
            match s.get nc with
            | some (Node.file m data nlink id) =>
              if (nc == oc) = true then (s, Out.ok Val.unit)
              else (removeChild (addChild (deleteNode s nc) rn.parent (partOf rn.pi) oc) ro.parent (partOf ro.pi), Out.ok Val.unit)
            | some (Node.symlink m link) =>
              (removeChild (addChild (deleteNode s nc) rn.parent (partOf rn.pi) oc) ro.parent (partOf ro.pi), Out.ok Val.unit)
            | x => (s, Out.err Err.EEXIST)).1 := by
      cases rn.child with
      | none => exact hmv
      | some nc =>
        dsimp only
        refine Keeps.ite hmv ?_
        have hdel := hmv0 _ (Keeps.deleteNode s nc)
        cases s.get nc with
        | none => exact h
        | some nd =>
          cases nd with
          | dir _ _ => exact h
          | file _ _ _ _ => exact Keeps.ite h hdel
          | symlink _ _ => exact hdel
    cases s.get oc with
    | none => exact h
    | some nd =>
      cases nd with
      | dir _ _ => exact Keeps.ite h (Keeps.ite h hmv)
      | file _ _ _ _ => exact hrest
      | symlink _ _ => exact hrest

theorem keeps_removeAll (s : Store) (v : View) (p : Bytes) : Keeps s (removeAll s v p).1 := by
  unfold removeAll
  generalize searchNode s v p .lstat = r
  dsimp only
  have h := Keeps.refl s
  refine Keeps.ite h (Keeps.ite h ?_)
  cases r.child with
  | none => cases r.err <;> exact h
  | some c =>
    cases r.err <;> try exact h
    dsimp only
    refine Keeps.ite h ?_
    have hX : Keeps s (if (match s.get c with
          | some (Node.dir m ch) => (alKeys ch).length != 0
          | x => false) = true then removeAllRec v s.next s c else (s, none)).1 :=
      Keeps.ite (keeps_removeAllRec v _ s c) h
    generalize (if (match s.get c with
          | some (Node.dir m ch) => (alKeys ch).length != 0
          | x => false) = true then removeAllRec v s.next s c else (s, none)) = q at hX
    obtain ⟨s1, e⟩ := q
    cases e with
    | some e => exact hX
    | none => exact Keeps.ite hX (Keeps.ite hX (hX.trans ((Keeps.removeChild _ _ _).trans (Keeps.deleteNode _ _))))

theorem kept_mkdirAllLoop (v : View) (perm : Nat) : ∀ (fuel : Nat) (s : Store) (dn : Ino) (it : Iter),
    KeptOutside s (mkdirAllLoop v perm fuel s dn it) (fun i => s.next ≤ i) := by
  intro fuel
  induction fuel with
  | zero => intro s dn it; exact KeptOutside.refl _ _
  | succ fuel ih =>
    intro s dn it
    rw [mkdirAllLoop]
    dsimp only
    have h1 : KeptOutside s (createDir s v dn (partOf it) perm).1 (fun i => s.next ≤ i) :=
      KeptOutside.createDir s v (Nat.le_refl _) _ _ _
    split
    · exact KeptOutside.refl _ _
    · split
      · exact h1
      · refine h1.trans ((ih _ _ _).mono ?_)
        intro i hi
        rw [createDir_next] at hi
        exact Nat.le_of_succ_le hi

theorem kept_mkdirAll (s : Store) (v : View) (p : Bytes) (perm : Nat) :
    KeptOutside s (mkdirAll s v p perm).1 (fun i => s.next ≤ i) := by
  unfold mkdirAll
  dsimp only
  repeat' split
  all_goals first
    | exact KeptOutside.refl _ _
    | exact kept_mkdirAllLoop _ _ _ _ _ _

/-! ### attribute calls change attributes only; Truncate changes the content only -/

/-- same kind, content, link count, id, entries, link target; the attributes may differ -/
def SameButMeta : Option Node → Option Node → Prop
  | none, none => True
  | some n, some n' => ∃ m, n' = n.setMeta m
  | _, _ => False

theorem SameButMeta.refl (o : Option Node) : SameButMeta o o := by
  cases o with
  | none => trivial
  | some n => exact ⟨n.meta, by cases n <;> rfl⟩

/-- every node is the node it was, up to its attributes -/
def AttrOnly (s s' : Store) : Prop := ∀ x, SameButMeta (s.get x) (s'.get x)

theorem AttrOnly.refl (s : Store) : AttrOnly s s := fun _ => SameButMeta.refl _

theorem AttrOnly.set {s : Store} {i : Ino} {n : Node} (hg : s.get i = some n) (m : Meta) :
    AttrOnly s (s.set i (n.setMeta m)) := by
  intro x
  rw [hr_get_set]
  by_cases h : i = x
  · subst h; simp only [if_true, hg]; exact ⟨m, rfl⟩
  · simp only [h, if_false]; exact SameButMeta.refl _

theorem setMode_setMeta {n n' : Node} {mode : Nat} {v : View} (h : setMode n mode v = some n') :
    ∃ m, n' = n.setMeta m := by
  unfold setMode at h
  split at h
  · cases h
  · dsimp only at h
    split at h
    · cases h
    · cases h; exact ⟨_, rfl⟩

theorem attrOnly_chmod (s : Store) (v : View) (p : Bytes) (mode : Nat) : AttrOnly s (chmod s v p mode).1 := by
  unfold chmod
  dsimp only
  repeat' split
  all_goals first
    | exact AttrOnly.refl _
    | skip
  rename_i hs
  obtain ⟨m, rfl⟩ := setMode_setMeta hs
  exact AttrOnly.set (by assumption) m

theorem attrOnly_chown (s : Store) (v : View) (p : Bytes) (uid gid : Int) (m : SlMode) :
    AttrOnly s (chown s v p uid gid m).1 := by
  unfold chown
  dsimp only
  repeat' split
  all_goals first
    | exact AttrOnly.refl _
    | exact AttrOnly.set (by assumption) _

theorem attrOnly_chtimes (s : Store) (v : View) (p : Bytes) (t : Int) : AttrOnly s (chtimes s v p t).1 := by
  unfold chtimes
  dsimp only
  repeat' split
  all_goals first
    | exact AttrOnly.refl _
    | exact AttrOnly.set (by assumption) _

/-- same node up to the content of a regular file -/
def SameButData : Option Node → Option Node → Prop
  | some (.file m _ nl id), some (.file m' _ nl' id') => m' = m ∧ nl' = nl ∧ id' = id
  | a, b => a = b

theorem SameButData.refl (o : Option Node) : SameButData o o := by
  cases o with
  | none => rfl
  | some n => cases n <;> simp [SameButData]

/-- Truncate changes the content of the file only: kind, attributes, link count and id of every node are kept -/
theorem dataOnly_truncate (s : Store) (v : View) (p : Bytes) (size : Int) (x : Ino) :
    SameButData (s.get x) ((truncate s v p size).1.get x) := by
  unfold truncate
  dsimp only
  repeat' split
  all_goals first
    | exact SameButData.refl _
    | skip
  rename_i c _ _ m d nl id hg _
  rw [hr_get_set]
  by_cases h : c = x
  · subst h; simp [hg, SameButData]
  · simp only [h, if_false]; exact SameButData.refl _

end Avfs.FS
