import Avfs.FS.SearchSpec
import Avfs.Lemmas.PathMore
import Avfs.Lemmas.Clean
/-
  The walk `searchNode` provides what its callers rely on (the fields of `SearchOK`), on a well-formed heap.
-/
set_option linter.unusedVariables false
set_option linter.unusedSimpArgs false

namespace Avfs.FS
open Avfs.Path Avfs.Path.Spec

/-! ### 1. Shape of cleaned absolute paths, byte level -/

/-- the bytes that may follow a '/' (`b = true`) or a component byte (`b = false`) in a cleaned path:
    no "//", no trailing '/' -/
def okP : Bool → Bytes → Bool
  | b, [] => !b
  | b, c :: r => if c == SL then !b && okP true r else okP false r

theorem okP_false_append (c t : Bytes) (h : SL ∉ c) : okP false (c ++ t) = okP false t := by
  induction c with
  | nil => rfl
  | cons x c ih =>
    simp at h
    have hx : (x == SL) = false := by simp [Ne.symm h.1]
    simp [okP, hx, ih h.2]

theorem okP_good_append (b : Bool) (c t : Bytes) (h : GoodC c) : okP b (c ++ t) = okP false t := by
  obtain ⟨hne, hsl⟩ := h
  cases c with
  | nil => exact absurd rfl hne
  | cons x c =>
    simp at hsl
    have hx : (x == SL) = false := by simp [Ne.symm hsl.1]
    simp only [List.cons_append, okP, hx]
    exact okP_false_append c t hsl.2

theorem okP_joinWith (cs : List Bytes) (hne : cs ≠ []) (good : ∀ c ∈ cs, GoodC c) :
    okP true (joinWith SL cs) = true := by
  induction cs with
  | nil => exact absurd rfl hne
  | cons c cs ih =>
    have hc := good c (by simp)
    cases cs with
    | nil =>
      have : joinWith SL [c] = c ++ [] := by simp [joinWith]
      rw [this, okP_good_append _ _ _ hc]; rfl
    | cons c2 cs =>
      rw [joinWith_cons_cons, okP_good_append _ _ _ hc]
      simp only [okP, beq_self_eq_true, if_true, Bool.not_false, Bool.true_and]
      exact ih (by simp) (fun x hx => good x (by simp [hx]))

theorem okP_suffix (b : Bool) (pre suf : Bytes) (h : okP b (pre ++ SL :: suf) = true) : okP true suf = true := by
  induction pre generalizing b with
  | nil => simp [okP] at h; exact h.2
  | cons x pre ih =>
    simp only [List.cons_append, okP] at h
    split at h
    · simp at h; exact ih _ h.2
    · exact ih _ h

theorem okP_true_cons {suf : Bytes} (h : okP true suf = true) : ∃ x r, suf = x :: r ∧ x ≠ SL := by
  cases suf with
  | nil => simp [okP] at h
  | cons x r =>
    refine ⟨x, r, rfl, ?_⟩
    intro e; subst e; simp [okP] at h

/-- the first component of what follows a '/' -/
theorem okP_seg {suf : Bytes} (h : okP true suf = true) :
    suf.takeWhile (· != SL) ≠ [] ∧ (∀ x ∈ suf.takeWhile (· != SL), x ≠ SL) ∧
    (suf.dropWhile (· != SL) = [] ∨
      ∃ suf', suf.dropWhile (· != SL) = SL :: suf' ∧ okP true suf' = true) := by
  obtain ⟨x, r, rfl, hx⟩ := okP_true_cons h
  refine ⟨by simp [List.takeWhile_cons, hx], ?_, ?_⟩
  · intro y hy
    have := mem_takeWhile_imp hy
    simpa using this
  · cases hd : (x :: r).dropWhile (· != SL) with
    | nil => exact Or.inl rfl
    | cons y suf' =>
      have hy := dropWhile_head hd
      have hy' : y = SL := by simpa using hy
      subst hy'
      refine Or.inr ⟨suf', rfl, ?_⟩
      have hsplit := List.takeWhile_append_dropWhile (p := (· != SL)) (l := x :: r)
      rw [hd] at hsplit
      rw [← hsplit] at h
      exact okP_suffix _ _ _ h

/-! ### 2. Length of cleaned rooted paths -/

def wt (cs : List Bytes) : Nat := (cs.map (fun c => c.length + 1)).sum

@[simp] theorem wt_nil : wt [] = 0 := rfl
@[simp] theorem wt_cons (c : Bytes) (cs : List Bytes) : wt (c :: cs) = c.length + 1 + wt cs := by
  simp [wt]

theorem wt_append (a b : List Bytes) : wt (a ++ b) = wt a + wt b := by
  induction a with
  | nil => simp
  | cons c a ih => simp [ih]; omega

theorem wt_reverse (a : List Bytes) : wt a.reverse = wt a := by
  induction a with
  | nil => rfl
  | cons c a ih => simp [wt_append, ih]; omega

theorem wt_splitSl (p : Bytes) : wt (splitSl p) = p.length + 1 := by
  induction p with
  | nil => simp [splitSl]
  | cons c p ih =>
    simp only [splitSl]
    split
    · simp [ih]; omega
    · split
      · rename_i h; rw [h] at ih; simp at ih
      · rename_i x xs h; rw [h] at ih; simp at ih ⊢; omega

theorem wt_filter_le (f : Bytes → Bool) (l : List Bytes) : wt (l.filter f) ≤ wt l := by
  induction l with
  | nil => simp
  | cons c l ih =>
    simp only [List.filter_cons]
    split <;> simp <;> omega

theorem wt_comps_le (p : Bytes) : wt (comps p) ≤ p.length + 1 := by
  have := wt_filter_le (fun c => !c.isEmpty) (splitSl p)
  rw [wt_splitSl] at this
  exact this

theorem wt_specStep (st : List Bytes) (c : Bytes) : wt (specStep true st c) ≤ wt st + (c.length + 1) := by
  unfold specStep
  split
  · omega
  · split
    · rename_i h2
      have hc : c = DD := by simpa using h2
      subst hc
      split
      · simp
      · split <;> simp [DD] <;> omega
    · simp; omega

theorem wt_foldl (cs st : List Bytes) : wt (cs.foldl (specStep true) st) ≤ wt st + wt cs := by
  induction cs generalizing st with
  | nil => simp
  | cons c cs ih =>
    have h1 := ih (specStep true st c)
    have h2 := wt_specStep st c
    simp only [List.foldl_cons, wt_cons]
    omega

theorem length_joinWith_wt (l : List Bytes) (h : l ≠ []) : (joinWith SL l).length + 1 = wt l := by
  induction l with
  | nil => exact absurd rfl h
  | cons c l ih =>
    cases l with
    | nil => simp [joinWith]
    | cons c2 l =>
      have := ih (by simp)
      rw [joinWith_cons_cons]
      simp only [List.length_append, List.length_cons, wt_cons] at this ⊢
      omega

/-- a cleaned rooted path: '/' followed by nothing or by well-separated components; never longer than the input -/
theorem clean_rooted (q : Bytes) (h : isRooted q = true) :
    ∃ r, clean .linux q = SL :: r ∧ (r = [] ∨ okP true r = true) ∧ r.length + 1 ≤ q.length := by
  have hgood := (inv_fold (rooted := true) (comps q) (comps_good q) (inv_init _)).good
  rw [clean_eq_spec, Spec.clean, h]
  generalize hst : (comps q).foldl (specStep true) [] = stack at hgood
  refine ⟨joinWith SL stack.reverse, by simp [render], ?_, ?_⟩
  · by_cases he : stack = []
    · left; subst he; rfl
    · right
      exact okP_joinWith _ (by simpa using he) (fun c hc => hgood c (by simpa using hc))
  · cases q with
    | nil => simp [isRooted] at h
    | cons x q0 =>
      have hx : x = SL := by simpa [isRooted] using h
      subst hx
      have h1 := wt_foldl (comps (SL :: q0)) []
      rw [hst, comps_sl] at h1
      have h2 := wt_comps_le q0
      by_cases he : stack = []
      · subst he; simp [joinWith]
      · have h3 := length_joinWith_wt stack.reverse (by simpa using he)
        rw [wt_reverse] at h3
        simp only [wt_nil, List.length_cons] at h1 ⊢
        omega

theorem join_rooted (e : Bytes) (rest : List Bytes) (he : isRooted e = true) :
    ∃ r, join .linux (e :: rest) = SL :: r ∧ (r = [] ∨ okP true r = true) ∧
      r.length + 1 ≤ (joinWith SL (e :: rest)).length := by
  have hne : e ≠ [] := by intro h; subst h; simp [isRooted] at he
  have hemp : e.isEmpty = false := by cases e <;> simp_all
  have hj : join .linux (e :: rest) = clean .linux (joinWith SL (e :: rest)) := by
    simp [Path.join, List.dropWhile_cons, hemp, pathSep]
  rw [hj]
  exact clean_rooted _ (by rw [isRooted_joinWith_cons _ _ hne]; exact he)

theorem abs_rooted (p cwd : Bytes) (hc : isAbs .linux cwd = true) :
    ∃ r, abs .linux p cwd = SL :: r ∧ (r = [] ∨ okP true r = true) := by
  unfold abs
  split
  · rename_i h
    obtain ⟨r, h1, h2, _⟩ := clean_rooted p h
    exact ⟨r, h1, h2⟩
  · obtain ⟨r, h1, h2, _⟩ := join_rooted cwd [p] hc
    exact ⟨r, h1, h2⟩

/-! ### 3. One step of the iterator on a position `pre ++ '/' :: suf` -/

theorem next_end (it : Iter) (pre : Bytes) (hp : it.path = pre ++ [SL]) (hs : it.stop1 = pre.length + 1) :
    (it.next .linux).2 = false := by
  unfold Iter.next
  simp [hp, hs]

theorem next_seg (it : Iter) (pre suf : Bytes) (hp : it.path = pre ++ SL :: suf) (hs : it.stop1 = pre.length + 1)
    (hok : okP true suf = true) :
    it.next .linux =
      ({ it with start := pre.length + 1, stop1 := pre.length + 1 + (suf.takeWhile (· != SL)).length + 1 }, true) ∧
    ({ it with start := pre.length + 1,
               stop1 := pre.length + 1 + (suf.takeWhile (· != SL)).length + 1 } : Iter).part
      = some (suf.takeWhile (· != SL)) := by
  obtain ⟨hne, hnosl, htail⟩ := okP_seg hok
  have hsplit := List.takeWhile_append_dropWhile (p := (· != SL)) (l := suf)
  have h := next_step it (pre ++ [SL]) (suf.takeWhile (· != SL)) (suf.dropWhile (· != SL))
    (by rw [hp]; conv => lhs; rw [← hsplit]
        simp)
    (by simp [hs]) hne hnosl
    (by rcases htail with h | ⟨s', h, _⟩ <;> simp [h])
  simpa using h

theorem isRooted_pre (pre t : Bytes) (h : isRooted (pre ++ SL :: t) = true) : isRooted (pre ++ [SL]) = true := by
  cases pre with
  | nil => simp [isRooted]
  | cons x pre => simpa [isRooted] using h

theorem replace_spec (it1 : Iter) (pre seg tail link : Bytes)
    (hp : it1.path = pre ++ SL :: (seg ++ tail)) (hst : it1.start = pre.length + 1)
    (hsp : it1.stop1 = pre.length + 1 + seg.length + 1) (hvl : it1.volLen = 0)
    (hroot : isRooted it1.path = true) :
    ∃ it2 reset r, it1.replacePart .linux link = some (it2, reset) ∧ it2.path = SL :: r ∧
      (r = [] ∨ okP true r = true) ∧ it2.volLen = 0 ∧
      it2.path.length ≤ it1.path.length + link.length + 2 ∧
      (reset = true → it2.stop1 = 1) ∧
      (reset = false → it2.stop1 = pre.length + 1 ∧ pre.length + 1 < it2.path.length ∧
          it2.path.take (pre.length + 1) = pre ++ [SL]) := by
  have hp2 : it1.path = (pre ++ SL :: seg) ++ tail := by rw [hp]; simp
  have hlen : (pre ++ SL :: seg).length = pre.length + 1 + seg.length := by simp; omega
  have hr : it1.right = some tail := by
    have h1 : it1.stop1 - 1 ≤ it1.path.length := by rw [hp2, hsp]; simp; omega
    rw [Iter.right, if_pos (by omega), slice1_some _ _ _ h1 (Nat.le_refl _), List.take_length]
    have : it1.stop1 - 1 = (pre ++ SL :: seg).length := by rw [hlen, hsp]; omega
    rw [this, hp2, List.drop_left]
  have hl : it1.left = some (pre ++ [SL]) := by
    have h1 : it1.start ≤ it1.path.length := by rw [hp2, hst]; simp
    rw [Iter.left, slice1_some _ _ _ (Nat.zero_le _) h1, List.drop_zero]
    have : it1.start = (pre ++ [SL]).length := by rw [hst]; simp
    have hp3 : it1.path = (pre ++ [SL]) ++ (seg ++ tail) := by rw [hp]; simp
    rw [this, hp3, List.take_left]
  have hj : ∃ r, (if isAbs .linux link = true then Path.join .linux [link, tail]
        else Path.join .linux [pre ++ [SL], link, tail]) = SL :: r ∧ (r = [] ∨ okP true r = true) ∧
        r.length + 1 ≤ it1.path.length + link.length + 2 := by
    split
    · rename_i ha
      obtain ⟨r, h1, h2, h3⟩ := join_rooted link [tail] ha
      refine ⟨r, h1, h2, ?_⟩
      simp [joinWith, hp] at h3 ⊢
      omega
    · obtain ⟨r, h1, h2, h3⟩ := join_rooted (pre ++ [SL]) [link, tail] (isRooted_pre _ _ (hp ▸ hroot))
      refine ⟨r, h1, h2, ?_⟩
      simp [joinWith, hp] at h3 ⊢
      omega
  obtain ⟨r, hj1, hj2, hj3⟩ := hj
  unfold Iter.replacePart
  rw [hr, hl]
  simp only [hj1]
  split
  · refine ⟨_, true, r, rfl, rfl, hj2, hvl, ?_, ?_, by simp⟩
    · simp [Iter.reset]; omega
    · intro _; simp [Iter.reset, hvl]
  · rename_i hc
    refine ⟨_, false, r, rfl, rfl, hj2, hvl, ?_, by simp, ?_⟩
    · simp; omega
    · intro _
      simp only [hst] at hc ⊢
      simp at hc
      refine ⟨trivial, by simpa using hc.1, hc.2⟩

/-! ### 4. Heap facts -/

theorem foldl_ge {α} (f : Nat → α → Nat) (hf : ∀ a x, a ≤ f a x) (l : List α) (a : Nat) : a ≤ l.foldl f a := by
  induction l generalizing a with
  | nil => simp
  | cons y l ih => exact Nat.le_trans (hf a y) (ih (f a y))

theorem foldl_mem_ge {α} (f : Nat → α → Nat) (hf : ∀ a x, a ≤ f a x) (w : α → Nat) (hw : ∀ a x, w x ≤ f a x)
    (l : List α) (a : Nat) (x : α) (hx : x ∈ l) : w x ≤ l.foldl f a := by
  induction l generalizing a with
  | nil => simp at hx
  | cons y l ih =>
    simp only [List.mem_cons] at hx
    rcases hx with rfl | hx
    · exact Nat.le_trans (hw a x) (foldl_ge f hf l _)
    · exact ih _ hx

theorem link_le_maxLinkLen (s : Store) (c : Ino) (m : Meta) (link : Bytes)
    (h : s.get c = some (.symlink m link)) : link.length ≤ maxLinkLen s := by
  have hmem : (c, Node.symlink m link) ∈ s.nodes := AL.lookup_some_mem h
  unfold maxLinkLen
  have h := foldl_mem_ge (l := s.nodes) (a := 0) (x := (c, Node.symlink m link)) (hx := hmem)
    (f := fun acc x => match x with
      | (_, n) => match n with | .symlink _ l => max acc l.length | _ => acc)
    (w := fun x => match x.2 with | .symlink _ l => l.length | _ => 0)
    (by intro a x; obtain ⟨i, n⟩ := x; cases n <;> simp <;> omega)
    (by intro a x; obtain ⟨i, n⟩ := x; cases n <;> simp <;> omega)
  exact h

theorem isDirAt_of_get {s : Store} {c : Ino} {m : Meta} {ch : List (Bytes × Ino)}
    (h : s.get c = some (.dir m ch)) : isDirAt s c = true := by
  simp [isDirAt, h]

theorem no_self_edge {s : Store} {root : Ino} (hwf : WF s root) {d : Ino} {n : Bytes}
    (hd : isDirAt s d = true) : s.child d n ≠ some d := by
  intro h
  obtain ⟨depth, hdep⟩ := hwf.depth
  have := hdep d n d h hd
  omega

/-! ### 5. The fuel measure -/

def need (M : Nat) : Nat → Nat → Nat
  | 0, _ => 0
  | k + 1, n => n + M + 2 + need M k (n + M)

theorem need_mono (M k : Nat) : ∀ n n', n ≤ n' → need M k n ≤ need M k n' := by
  induction k with
  | zero => intro _ _ _; simp [need]
  | succ k ih =>
    intro n n' h
    have := ih (n + M) (n' + M) (by omega)
    simp only [need]; omega

/-- iterations still affordable at the head of the loop -/
def measureT (s : Store) (slCount : Nat) (it : Iter) : Nat :=
  (it.path.length + 1 - it.stop1) + 1 + need (maxLinkLen s + 2) (slCountMax - slCount) it.path.length

theorem measure_advance (s : Store) (slCount : Nat) (it it' : Iter) (hp : it'.path = it.path)
    (h1 : it.stop1 < it'.stop1) (h2 : it.stop1 ≤ it.path.length) :
    measureT s slCount it' + 1 ≤ measureT s slCount it := by
  unfold measureT
  rw [hp]
  omega

theorem measure_replace (s : Store) (slCount : Nat) (it it' : Iter) (hc : slCount + 1 ≤ slCountMax)
    (hlen : it'.path.length ≤ it.path.length + (maxLinkLen s + 2)) (h1 : 1 ≤ it'.stop1) :
    measureT s (slCount + 1) it' + 1 ≤ measureT s slCount it := by
  unfold measureT
  have hk : slCountMax - slCount = (slCountMax - (slCount + 1)) + 1 := by omega
  rw [hk]
  simp only [need]
  have := need_mono (maxLinkLen s + 2) (slCountMax - (slCount + 1)) _ _ hlen
  omega

theorem measure_init (s : Store) (absPath : Bytes) :
    measureT s 0 (Iter.new .linux absPath) ≤ searchFuel s absPath := by
  unfold measureT searchFuel slCountMax Iter.new
  simp only [volumeNameLen, need]
  omega

/-! ### 6. Invariant and postcondition of the loop -/

theorem next_seg' (it : Iter) (pre suf : Bytes) (hp : it.path = pre ++ SL :: suf) (hs : it.stop1 = pre.length + 1)
    (hok : okP true suf = true) :
    ∃ it1 seg tail, suf = seg ++ tail ∧ validName seg = true ∧
      (tail = [] ∨ ∃ suf', tail = SL :: suf' ∧ okP true suf' = true) ∧
      it.next .linux = (it1, true) ∧ it1.part = some seg ∧ it1.path = it.path ∧
      it1.start = pre.length + 1 ∧ it1.stop1 = pre.length + 1 + seg.length + 1 ∧ it1.volLen = it.volLen := by
  obtain ⟨hne, hnosl, htail⟩ := okP_seg hok
  obtain ⟨h1, h2⟩ := next_seg it pre suf hp hs hok
  refine ⟨_, suf.takeWhile (· != SL), suf.dropWhile (· != SL),
    (List.takeWhile_append_dropWhile (p := (· != SL)) (l := suf)).symm, ?_, htail, h1, h2, rfl, rfl, rfl, rfl⟩
  simp only [validName, Bool.and_eq_true, Bool.not_eq_true', List.isEmpty_eq_false_iff]
  refine ⟨hne, ?_⟩
  cases hc : (suf.takeWhile (· != SL)).contains SL with
  | false => rfl
  | true =>
    have : SL ∈ suf.takeWhile (· != SL) := by simpa using hc
    exact absurd rfl (hnosl SL this)

theorem okP_of_clean_suffix (r pre suf' : Bytes) (h : SL :: r = pre ++ SL :: suf')
    (hr : r = [] ∨ okP true r = true) (hne : suf' ≠ []) : okP true suf' = true := by
  cases pre with
  | nil =>
    simp at h; subst h
    rcases hr with hr | hr
    · exact absurd hr hne
    · exact hr
  | cons x pre =>
    simp at h
    obtain ⟨_, h⟩ := h
    rcases hr with hr | hr
    · subst hr; simp at h
    · rw [h] at hr; exact okP_suffix _ _ _ hr

structure LI (s : Store) (v : View) (parent : Ino) (it : Iter) (slCount : Nat) : Prop where
  dir : isDirAt s parent = true
  cnt : slCount ≤ slCountMax
  vol : it.volLen = 0
  rooted : isRooted it.path = true
  pos : ∃ pre suf, it.path = pre ++ SL :: suf ∧ it.stop1 = pre.length + 1 ∧
    (okP true suf = true ∨ (suf = [] ∧ parent = v.root))

def SavedOK (mode : SlMode) (saved : Option Iter) : Prop :=
  (mode ≠ .stat → saved = none) ∧
  ∀ its, saved = some its → its.isLast = true ∧ validName (partOf its) = true

structure Post (s : Store) (v : View) (mode : SlMode) (r : SR) : Prop where
  parentDir : isDirAt s r.parent = true
  existsChild : r.err = .exists → ∃ c, r.child = some c ∧ (s.get c).isSome = true
  existsEdge : mode ≠ .stat → r.err = .exists → ∀ c, r.child = some c → c ≠ r.parent →
    Edge s r.parent (partOf r.pi) c
  existsRoot : r.err = .exists → ∀ c, r.child = some c → c = r.parent → c = v.root
  noentChild : r.err = .noent → r.child = none ∧ (mode ≠ .stat → s.child r.parent (partOf r.pi) = none)
  noentName : r.err = .noent → r.pi.isLast = true → validName (partOf r.pi) = true

theorem post_other {s : Store} {v : View} {mode : SlMode} {parent : Ino} (ch : Option Ino) (pi : Iter) (e : SErr)
    (hd : isDirAt s parent = true) (h1 : e ≠ .exists) (h2 : e ≠ .noent) : Post s v mode ⟨parent, ch, pi, e⟩ :=
  ⟨hd, fun h => absurd h h1, fun _ h => absurd h h1, fun h => absurd h h1, fun h => absurd h h2,
   fun h => absurd h h2⟩

theorem getD_of_mode {mode : SlMode} {saved : Option Iter} (hS : SavedOK mode saved) (hm : mode ≠ .stat)
    (it1 : Iter) : saved.getD it1 = it1 := by
  rw [hS.1 hm]; rfl

theorem post_noent {s : Store} {v : View} {mode : SlMode} {parent : Ino} {saved : Option Iter} {it1 : Iter}
    {seg : Bytes} (hd : isDirAt s parent = true) (hS : SavedOK mode saved) (hpo : partOf it1 = seg)
    (hvn : validName seg = true) (hch : s.child parent seg = none) :
    Post s v mode ⟨parent, none, saved.getD it1, .noent⟩ := by
  refine ⟨hd, by simp, by simp, by simp, fun _ => ⟨rfl, fun hm => ?_⟩, fun _ hl => ?_⟩
  · show s.child parent (partOf (saved.getD it1)) = none
    rw [getD_of_mode hS hm, hpo]; exact hch
  · show validName (partOf (saved.getD it1)) = true
    cases hsv : saved with
    | none => simp [hpo, hvn]
    | some its => exact (hS.2 its hsv).2

theorem post_exists {s : Store} {root : Ino} {v : View} {mode : SlMode} {parent c : Ino} {saved : Option Iter}
    {it1 : Iter} {seg : Bytes} (hwf : WF s root) (hd : isDirAt s parent = true) (hS : SavedOK mode saved)
    (hpo : partOf it1 = seg) (hch : s.child parent seg = some c) :
    Post s v mode ⟨parent, some c, saved.getD it1, .exists⟩ := by
  refine ⟨hd, fun _ => ⟨c, rfl, hwf.alloc parent seg c hch⟩, fun hm _ c' hc' _ => ?_, fun _ c' hc' he => ?_,
    by simp, by simp⟩
  · show s.child parent (partOf (saved.getD it1)) = some c'
    have : c = c' := by simpa using hc'
    subst this
    rw [getD_of_mode hS hm, hpo]; exact hch
  · have : c = c' := by simpa using hc'
    subst this
    have he' : c = parent := he
    subst he'
    exact absurd hch (no_self_edge hwf hd)

theorem post_root {s : Store} {v : View} {mode : SlMode} {parent : Ino} (pi : Iter)
    (hd : isDirAt s parent = true) (hr : parent = v.root) :
    Post s v mode ⟨parent, some parent, pi, .exists⟩ := by
  refine ⟨hd, fun _ => ⟨parent, rfl, ?_⟩, fun _ _ c' hc' hne => ?_, fun _ c' hc' _ => ?_, by simp, by simp⟩
  · simp only [isDirAt] at hd
    split at hd <;> simp_all
  · have : parent = c' := by simpa using hc'
    exact absurd this.symm hne
  · have : parent = c' := by simpa using hc'
    rw [← this]; exact hr

inductive StepRes (s : Store) (v : View) (mode : SlMode) (parent : Ino) (it : Iter) (slCount : Nat)
    (saved : Option Iter) : Prop
  | done (r : SR) (heq : ∀ fuel, searchLoop s v mode v.root (fuel + 1) parent it slCount saved = r)
      (hpost : Post s v mode r) (hnp : r.err ≠ .panic)
  | cont (parent' : Ino) (it' : Iter) (slCount' : Nat) (saved' : Option Iter)
      (heq : ∀ fuel, searchLoop s v mode v.root (fuel + 1) parent it slCount saved =
          searchLoop s v mode v.root fuel parent' it' slCount' saved')
      (hli : LI s v parent' it' slCount') (hs : SavedOK mode saved')
      (hT : measureT s slCount' it' + 1 ≤ measureT s slCount it)

/-! ### 7. One iteration -/

theorem loop_step {s : Store} {root : Ino} {v : View} {mode : SlMode} {parent : Ino} {it : Iter} {slCount : Nat}
    {saved : Option Iter} (hwf : WF s root) (hv : ViewOK s v)
    (hLI : LI s v parent it slCount) (hS : SavedOK mode saved) :
    StepRes s v mode parent it slCount saved := by
  obtain ⟨hdir, hcnt, hvl, hrt, pre, suf, hp, hst, hsuf⟩ := hLI
  rcases hsuf with hok | ⟨rfl, hroot⟩
  · obtain ⟨it1, seg, tail, hsplit, hvn, htail, hnext, hpart, hp1, hst1, hsp1, hvl1⟩ :=
      next_seg' it pre suf hp hst hok
    have hpo1 : partOf it1 = seg := by simp [partOf, hpart]
    have hlast : it1.isLast = true ↔ tail = [] := by
      simp only [Iter.isLast, hsp1, hp1, hp, hsplit, beq_iff_eq, List.length_append, List.length_cons]
      constructor
      · intro h; exact List.eq_nil_of_length_eq_zero (by omega)
      · intro h; subst h; simp; omega
    -- the repaired walk refuses a lookup in the root directory without its search permission
    obtain ⟨m0, ch0, hgp⟩ : ∃ m0 ch0, s.get parent = some (.dir m0 ch0) := by
      unfold isDirAt at hdir
      split at hdir
      · exact ⟨_, _, by assumption⟩
      · cases hdir
    by_cases hden : parent = v.root ∧ checkPerm m0 omLookup v = false
    · refine .done ⟨parent, none, saved.getD it1, .acces⟩ ?_
        (post_other _ _ _ hdir (by simp) (by simp)) (by simp)
      intro fuel
      rw [searchLoop]
      simp [hnext, hpart, hgp, hden.1.symm, hden.2]
    cases hch : s.child parent seg with
    | none =>
      refine .done ⟨parent, none, saved.getD it1, .noent⟩ ?_ (post_noent hdir hS hpo1 hvn hch) (by simp)
      intro fuel
      rw [searchLoop]
      simp [hnext, hpart, hgp, hden, hch]
    | some c =>
      have halloc := hwf.alloc parent seg c hch
      cases hg : s.get c with
      | none => simp [hg] at halloc
      | some n =>
        cases n with
        | dir m chs =>
          by_cases hl : it1.isLast = true
          · refine .done ⟨parent, some c, saved.getD it1, .exists⟩ ?_ (post_exists hwf hdir hS hpo1 hch) (by simp)
            intro fuel
            rw [searchLoop]
            simp [hnext, hpart, hgp, hden, hch, hg, hl]
          · by_cases hperm : checkPerm m omLookup v = true
            · have htl : ∃ suf', tail = SL :: suf' ∧ okP true suf' = true := by
                rcases htail with h | h
                · exact absurd (hlast.mpr h) hl
                · exact h
              obtain ⟨suf', rfl, hok'⟩ := htl
              refine .cont c it1 slCount saved ?_
                ⟨isDirAt_of_get hg, hcnt, by rw [hvl1, hvl], by rw [hp1]; exact hrt,
                 pre ++ SL :: seg, suf', ?_, ?_, Or.inl hok'⟩ hS ?_
              · intro fuel
                rw [searchLoop]
                simp [hnext, hpart, hgp, hden, hch, hg, hl, hperm]
              · rw [hp1, hp, hsplit]; simp
              · rw [hsp1]; simp; omega
              · apply measure_advance _ _ _ _ hp1
                · rw [hst, hsp1]; omega
                · rw [hst, hp]; simp
            · refine .done ⟨parent, some c, saved.getD it1, .acces⟩ ?_
                (post_other _ _ _ hdir (by simp) (by simp)) (by simp)
              intro fuel
              rw [searchLoop]
              simp [hnext, hpart, hgp, hden, hch, hg, hl, hperm]
        | file m d nl id =>
          by_cases hl : it1.isLast = true
          · refine .done ⟨parent, some c, saved.getD it1, .exists⟩ ?_ (post_exists hwf hdir hS hpo1 hch) (by simp)
            intro fuel
            rw [searchLoop]
            simp [hnext, hpart, hgp, hden, hch, hg, hl]
          · refine .done ⟨parent, some c, saved.getD it1, .notdir⟩ ?_
              (post_other _ _ _ hdir (by simp) (by simp)) (by simp)
            intro fuel
            rw [searchLoop]
            simp [hnext, hpart, hgp, hden, hch, hg, hl]
        | symlink m link =>
          by_cases hx : (it1.isLast && mode == .lstat) = true
          · refine .done ⟨parent, some c, saved.getD it1, .exists⟩ ?_ (post_exists hwf hdir hS hpo1 hch)
              (by simp)
            intro fuel
            rw [searchLoop]
            simp [hnext, hpart, hgp, hden, hch, hg, hx]
          · by_cases hcount : slCount + 1 > slCountMax
            · refine .done ⟨parent, some c, saved.getD it1, .loop⟩ ?_
                (post_other _ _ _ hdir (by simp) (by simp)) (by simp)
              intro fuel
              rw [searchLoop]
              simp [hnext, hpart, hgp, hden, hch, hg, hcount, hx]
            · have hroot1 : isRooted it1.path = true := by rw [hp1]; exact hrt
              obtain ⟨it2, reset, r, hrep, hp2, hr2, hvl2, hlen2, hres, hnres⟩ :=
                replace_spec it1 pre seg tail link (by rw [hp1, hp, hsplit]) hst1 hsp1 (by rw [hvl1, hvl]) hroot1
              have hlink := link_le_maxLinkLen s c m link hg
              refine .cont (if reset then v.root else parent) it2 (slCount + 1)
                (if it1.isLast && mode == .stat && saved.isNone then some it1 else saved) ?_ ?_ ?_ ?_
              · intro fuel
                rw [searchLoop]
                simp [hnext, hpart, hgp, hden, hch, hg, hcount, hx, hrep]
              · refine ⟨?_, by omega, hvl2, by rw [hp2]; simp [isRooted], ?_⟩
                · cases reset <;> simp [hv.rootDir, hdir]
                · cases reset with
                  | true =>
                    refine ⟨[], r, by simpa using hp2, by simpa using hres rfl, ?_⟩
                    rcases hr2 with h | h
                    · exact Or.inr ⟨h, by simp⟩
                    · exact Or.inl h
                  | false =>
                    obtain ⟨h1, h2, h3⟩ := hnres rfl
                    have hpe : it2.path = pre ++ SL :: it2.path.drop (pre.length + 1) := by
                      have := (List.take_append_drop (pre.length + 1) it2.path).symm
                      rw [h3] at this
                      simpa using this
                    refine ⟨pre, it2.path.drop (pre.length + 1), hpe, h1, Or.inl ?_⟩
                    apply okP_of_clean_suffix r pre _ (by rw [← hp2]; exact hpe) hr2
                    intro h
                    have := congrArg List.length h
                    simp at this
                    omega
              · constructor
                · intro hm
                  have := hS.1 hm
                  simp [hm, this]
                · intro its hits
                  split at hits
                  · rename_i hc
                    simp at hc hits
                    subst hits
                    exact ⟨hc.1.1, by rw [hpo1]; exact hvn⟩
                  · exact hS.2 its hits
              · apply measure_replace s slCount it it2 (by omega) (by rw [hp1] at hlen2; omega)
                cases reset with
                | true => rw [hres rfl]; exact Nat.le_refl _
                | false => rw [(hnres rfl).1]; omega
  · have hmore : (it.next .linux).2 = false := next_end it pre hp hst
    refine .done ⟨parent, some parent, saved.getD (it.next .linux).1, .exists⟩ ?_ (post_root _ hdir hroot) (by simp)
    intro fuel
    rw [searchLoop]
    generalize it.next .linux = nx at hmore ⊢
    obtain ⟨it1, more⟩ := nx
    simp at hmore
    subst hmore
    simp

/-! ### 8. The whole loop and `searchNode` -/

theorem loop_post {s : Store} {root : Ino} {v : View} {mode : SlMode} (hwf : WF s root) (hv : ViewOK s v) :
    ∀ (fuel : Nat) (parent : Ino) (it : Iter) (slCount : Nat) (saved : Option Iter),
      LI s v parent it slCount → SavedOK mode saved →
      Post s v mode (searchLoop s v mode v.root fuel parent it slCount saved) ∧
      (measureT s slCount it ≤ fuel → (searchLoop s v mode v.root fuel parent it slCount saved).err ≠ .panic) := by
  intro fuel
  induction fuel with
  | zero =>
    intro parent it slCount saved hLI hS
    refine ⟨?_, fun h => ?_⟩
    · rw [searchLoop]
      exact post_other _ _ _ hLI.dir (by simp) (by simp)
    · unfold measureT at h; omega
  | succ fuel ih =>
    intro parent it slCount saved hLI hS
    cases loop_step hwf hv hLI hS with
    | done r heq hpost hnp =>
      rw [heq]
      exact ⟨hpost, fun _ => hnp⟩
    | cont parent' it' slCount' saved' heq hli hs hT =>
      rw [heq]
      obtain ⟨h1, h2⟩ := ih parent' it' slCount' saved' hli hs
      exact ⟨h1, fun h => h2 (by omega)⟩

theorem search_post {s : Store} {root : Ino} {v : View} (hwf : WF s root) (hv : ViewOK s v) (p : Bytes)
    (m : SlMode) : Post s v m (searchNode s v p m) ∧ (searchNode s v p m).err ≠ .panic := by
  obtain ⟨r, hr, hok⟩ := abs_rooted p v.cwd hv.cwdAbs
  have hLI : LI s v v.root (Iter.new .linux (abs .linux p v.cwd)) 0 := by
    refine ⟨hv.rootDir, Nat.zero_le _, rfl, ?_, [], r, ?_, rfl, ?_⟩
    · show isRooted (abs .linux p v.cwd) = true
      rw [hr]; simp [isRooted]
    · show abs .linux p v.cwd = _
      rw [hr]; rfl
    · rcases hok with h | h
      · exact Or.inr ⟨h, rfl⟩
      · exact Or.inl h
  have hS : SavedOK m none := ⟨fun _ => rfl, fun _ h => by simp at h⟩
  obtain ⟨h1, h2⟩ := loop_post hwf hv (searchFuel s (abs .linux p v.cwd)) v.root _ 0 none hLI hS
  exact ⟨h1, h2 (measure_init s _)⟩

/-! ### 9. The fields of `SearchOK` -/

theorem search_parentDir (s : Store) (root : Ino) (v : View) (hwf : WF s root) (hn : NamesOK s) (hv : ViewOK s v) :
    ∀ p m, isDirAt s (searchNode s v p m).parent = true :=
  fun p m => (search_post hwf hv p m).1.parentDir

theorem search_noentChild (s : Store) (root : Ino) (v : View) (hwf : WF s root) (hn : NamesOK s)
    (hv : ViewOK s v) :
    ∀ p m, (searchNode s v p m).err = .noent →
      (searchNode s v p m).child = none ∧
      (m ≠ .stat → s.child (searchNode s v p m).parent (partOf (searchNode s v p m).pi) = none) :=
  fun p m => (search_post hwf hv p m).1.noentChild

theorem search_existsChild (s : Store) (root : Ino) (v : View) (hwf : WF s root) (hn : NamesOK s)
    (hv : ViewOK s v) :
    ∀ p m, (searchNode s v p m).err = .exists →
      ∃ c, (searchNode s v p m).child = some c ∧ (s.get c).isSome = true :=
  fun p m => (search_post hwf hv p m).1.existsChild

theorem search_existsEdge (s : Store) (root : Ino) (v : View) (hwf : WF s root) (hn : NamesOK s)
    (hv : ViewOK s v) :
    ∀ p m c, m ≠ .stat → (searchNode s v p m).err = .exists → (searchNode s v p m).child = some c →
      c ≠ (searchNode s v p m).parent →
      Edge s (searchNode s v p m).parent (partOf (searchNode s v p m).pi) c :=
  fun p m c hm he hc hne => (search_post hwf hv p m).1.existsEdge hm he c hc hne

theorem search_existsRoot (s : Store) (root : Ino) (v : View) (hwf : WF s root) (hn : NamesOK s)
    (hv : ViewOK s v) :
    ∀ p m c, (searchNode s v p m).err = .exists → (searchNode s v p m).child = some c →
      c = (searchNode s v p m).parent → c = v.root :=
  fun p m c he hc hcp => (search_post hwf hv p m).1.existsRoot he c hc hcp

theorem search_noPanic (s : Store) (root : Ino) (v : View) (hwf : WF s root) (hn : NamesOK s) (hv : ViewOK s v) :
    ∀ p m, (searchNode s v p m).err ≠ .panic :=
  fun p m => (search_post hwf hv p m).2

theorem search_noentName (s : Store) (root : Ino) (v : View) (hwf : WF s root) (hn : NamesOK s)
    (hv : ViewOK s v) :
    ∀ p m, (searchNode s v p m).err = .noent → (searchNode s v p m).pi.isLast = true →
      validName (partOf (searchNode s v p m).pi) = true :=
  fun p m => (search_post hwf hv p m).1.noentName

/-- the walk provides everything its callers rely on -/
theorem searchOK_of_wf (s : Store) (root : Ino) (v : View) (hwf : WF s root) (hn : NamesOK s) (hv : ViewOK s v) :
    SearchOK s v where
  parentDir := search_parentDir s root v hwf hn hv
  existsChild := search_existsChild s root v hwf hn hv
  existsEdge := search_existsEdge s root v hwf hn hv
  existsRoot := search_existsRoot s root v hwf hn hv
  noentChild := search_noentChild s root v hwf hn hv
  noPanic := search_noPanic s root v hwf hn hv
  noentName := search_noentName s root v hwf hn hv

end Avfs.FS
