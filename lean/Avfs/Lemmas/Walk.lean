import Avfs.FS.Enum
import Avfs.Lemmas.Enum
import Avfs.Lemmas.Posix2
import Avfs.Lemmas.SubSim
/-
  C14 — WalkDir (and one level of Glob) of the MemFS model against the reference walk of the directory tree.

  * `Tree` / `treeOf` / `Store.tree`: the tree below a node of the heap (name, kind, children in byte-wise name order;
    `tree_unfold`: the fuel plays no role on a well-formed heap);
  * `specWalk` / `specWalkTop`: filepath.WalkDir's contract as a structural recursion over that tree;
  * (b) `walkDirTop_eq_spec`: `walkDirTop` = `specWalkTop` of the tree, for the administrator, on every well-formed
    heap without "." / ".." entries (`DotFree`, needed: `walk_dotdot_cex`), every list of callback answers;
    `walkDirTop_result`: no ELOOP;
  * (c) `walkDirTop_all_cont` (the entries `descend` reaches, each once, in lexical pre-order), `visited_lstat`,
    `visited_exists`, `descend_of_walkPath`; `walkDirTop_skipDir`; `walkDirTop_stop` (SkipAll / error);
  * (d) `glob_flat`.
  Method for (b): induction on the fuel; the fuel suffices because the number of directories strictly deeper than the
  current one (`pot`, from the depth witness of `WF`) decreases along every directory edge and is at most `s.next`.
-/
set_option linter.unusedVariables false
set_option linter.unusedSimpArgs false

namespace Avfs.FS
open Avfs.Path

/-! ### the reference -/

/-- a directory tree: the name of the entry, its kind (0 directory, 1 regular file, 2 symbolic link) and, for a
    directory, its entries in name order -/
inductive Tree where
  | node (name : Bytes) (kind : Nat) (children : List Tree)
  deriving Repr

def Tree.name : Tree → Bytes
  | .node n _ _ => n

def Tree.kind : Tree → Nat
  | .node _ k _ => k

def Tree.children : Tree → List Tree
  | .node _ _ ch => ch

/-- the kind of a node of the heap, as `fillStat` reports it -/
def kindOf (s : Store) (i : Ino) : Nat :=
  match s.get i with
  | some (.dir _ _) => 0
  | some (.file _ _ _ _) => 1
  | some (.symlink _ _) => 2
  | none => 9

/-- the tree below node `i` entered under the name `name`; `fuel` bounds the depth (see `treeOf_stable`) -/
def treeOf (s : Store) : Nat → Bytes → Ino → Tree
  | 0, name, i => .node name (kindOf s i) []
  | fuel + 1, name, i =>
    .node name (kindOf s i) ((s.names i).filterMap fun n => (s.child i n).map fun c => treeOf s fuel n c)

/-- one visit: path, kind, error handed to the callback -/
abbrev Visit := Bytes × Nat × Option Err

mutual
/-- filepath.WalkDir's contract on a tree: visit the node (one action of the callback is consumed); a directory on
    which the callback continues has its entries walked in order; SkipDir on a directory skips its entries, on
    anything else it is handed to the directory above; SkipAll and an error stop everything.
    Result: the visits in order, the unused actions, what is handed to the caller. -/
def specWalk : Tree → Bytes → List WAct → List Visit × List WAct × WErr
  | .node _ kind ch, path, acts =>
    let here : Visit := (path, kind, none)
    match acts.headD .cont with
    | .cont =>
      if kind == 0 then
        let r := specWalkList ch path acts.tail
        (here :: r.1, r.2.1, r.2.2)
      else ([here], acts.tail, .none)
    | .skipDir => ([here], acts.tail, if kind == 0 then .none else .skipDir)
    | .skipAll => ([here], acts.tail, .skipAll)
    | .fail => ([here], acts.tail, .fail)
/-- the entries of the directory `dir`, in order: SkipDir from an entry ends the directory, anything else but
    "continue" ends the walk -/
def specWalkList : List Tree → Bytes → List WAct → List Visit × List WAct × WErr
  | [], _, acts => ([], acts, .none)
  | t :: ts, dir, acts =>
    let r := specWalk t (join .linux [dir, t.name]) acts
    match r.2.2 with
    | .none =>
      let r' := specWalkList ts dir r.2.1
      (r.1 ++ r'.1, r'.2.1, r'.2.2)
    | .skipDir => (r.1, r.2.1, .none)
    | e => (r.1, r.2.1, e)
end

/-- WalkDir itself: SkipDir / SkipAll of the callback are not handed to the caller -/
def specWalkTop (t : Tree) (root : Bytes) (acts : List WAct) : List Visit × List WAct × WErr :=
  let r := specWalk t root acts
  (r.1, r.2.1, if r.2.2 == .skipDir || r.2.2 == .skipAll then .none else r.2.2)

mutual
/-- the reference has no outcome but nil, SkipDir, SkipAll and the error of the callback … -/
theorem specWalk_no_other : ∀ (t : Tree) (P : Bytes) (acts : List WAct) (e : Err), (specWalk t P acts).2.2 ≠ .other e
  | .node n k ch, P, acts, e => by
    rw [specWalk.eq_1]
    have ih := specWalkList_no_other ch P acts.tail e
    cases h : acts.headD .cont
    · by_cases hk : (k == 0) = true
      · simp only [hk, if_true]; exact ih
      · simp [hk]
    · by_cases hk : (k == 0) = true <;> simp [hk]
    · simp
    · simp
theorem specWalkList_no_other : ∀ (ts : List Tree) (P : Bytes) (acts : List WAct) (e : Err),
    (specWalkList ts P acts).2.2 ≠ .other e
  | [], P, acts, e => by simp [specWalkList]
  | t :: ts, P, acts, e => by
    rw [specWalkList.eq_2]
    have h1 := specWalk_no_other t (join .linux [P, t.name]) acts
    have h2 := specWalkList_no_other ts P (specWalk t (join .linux [P, t.name]) acts).2.1 e
    generalize specWalk t (join .linux [P, t.name]) acts = r at h1 h2
    obtain ⟨vis, rest, er⟩ := r
    cases er with
    | none => exact h2
    | skipDir => simp
    | skipAll => simp
    | fail => simp
    | other e' => exact absurd rfl (h1 e')
end

/-- … and WalkDir itself returns nil or the error of the callback -/
theorem specWalkTop_result (t : Tree) (P : Bytes) (acts : List WAct) :
    (specWalkTop t P acts).2.2 = .none ∨ (specWalkTop t P acts).2.2 = .fail := by
  unfold specWalkTop
  have h := specWalk_no_other t P acts
  generalize specWalk t P acts = r at h ⊢
  obtain ⟨vis, rest, e⟩ := r
  cases e with
  | other e' => exact absurd rfl (h e')
  | _ => simp

/-! ### the concrete heap of the examples

  Before the proof, `specWalkTop (treeOf wkStore (wkStore.next + 1) name i) root acts` was compared by `#eval` with
  `walkDirTop wkStore adm 0 root acts` for the roots "/", "/tmp", "/a/f" and all 5461 answer lists of length ≤ 6 over
  {continue, SkipDir, SkipAll, error} (plus one non-continue answer at each of the first 14 visits): equal throughout. -/

/-- the heap of Lemmas/Posix.lean plus two symbolic links: "/a/l" → "/tmp" and the dangling "/tmp/d/z" → "no" -/
@[irreducible] def wkStore : Store :=
  (run { initState with store := pxStore } [
    (0, .symlink [SL, 116, 109, 112] [SL, 97, SL, 108]),
    (0, .symlink [110, 111] [SL, 116, 109, 112, SL, 100, SL, 122])]).1.store


/-! ### paths -/

/-- the clean absolute path with the components `cs` ("/" for none) -/
abbrev pathOf (cs : List Bytes) : Bytes := SL :: joinWith SL cs

/-- filepath.Join of a clean absolute path and one more valid component -/
theorem join_child (cs : List Bytes) (n : Bytes)
    (hall : ∀ c ∈ cs ++ [n], c ≠ [] ∧ ∀ x ∈ c, x ≠ SL) (hdots : ∀ c ∈ cs ++ [n], c ≠ [DOT] ∧ c ≠ [DOT, DOT]) :
    join .linux [pathOf cs, n] = pathOf (cs ++ [n]) := by
  have hn := hall n (by simp)
  have hcl := clean_joined (cs ++ [n]) hall hdots
  have hj : join .linux [pathOf cs, n] = clean .linux (pathOf cs ++ SL :: n) := by
    simp [join, pathOf, joinWith, pathSep]
  rw [hj]
  by_cases hcs : cs = []
  · subst hcs
    simp only [pathOf, List.nil_append, joinWith] at hcl ⊢
    have h : clean .linux ([SL] ++ SL :: n) = clean .linux (SL :: n) := by
      rw [clean_eq_spec, clean_eq_spec]
      apply spec_clean_congr
      · rfl
      · have h1 := comps_append_sl [SL] n
        have h2 := comps_append_sl [] n
        simp only [List.nil_append] at h2
        rw [h1, h2]
        rfl
    exact h.trans hcl
  · have : pathOf cs ++ SL :: n = pathOf (cs ++ [n]) := by
      simp [pathOf, joinWith_snoc, hcs]
    rw [this]
    exact hcl


/-! ### the store: names of entries, the depth potential -/

/-- no entry is named "." or ".." (true of every heap built through the API: entry names are components of cleaned
    absolute paths; `WF` and `NamesOK` do not say it: `walk_dotdot_cex`) -/
def DotFree (s : Store) : Prop := ∀ d n c, Edge s d n c → n ≠ [DOT] ∧ n ≠ [DOT, DOT]

/-- executable form of `DotFree` -/
def dotFreeCheck (s : Store) : Bool := (allEdges s).all fun (_, n, _) => n != [DOT] && n != [DOT, DOT]

theorem dotFreeCheck_sound (s : Store) (h : dotFreeCheck s = true) : DotFree s := by
  intro d n c he
  have hm := mem_allEdges_of_edge s d n c he
  unfold dotFreeCheck at h
  rw [List.all_eq_true] at h
  have := h _ hm
  simpa using this

theorem validName_good {n : Bytes} (h : validName n = true) : n ≠ [] ∧ ∀ x ∈ n, x ≠ SL := by
  unfold validName at h
  simp only [Bool.and_eq_true, Bool.not_eq_eq_eq_not, Bool.not_true] at h
  refine ⟨fun e => by simp [e] at h, fun x hx e => ?_⟩
  subst e
  have := h.2
  simp [hx] at this

/-- number of directories strictly deeper than `i`: decreases along every directory edge, bounded by `s.next` -/
def pot (s : Store) (depth : Ino → Nat) (i : Ino) : Nat :=
  ((List.range s.next).filter fun x => isDirAt s x && decide (depth i < depth x)).length

theorem pot_le (s : Store) (depth : Ino → Nat) (i : Ino) : pot s depth i ≤ s.next := by
  unfold pot
  have := List.length_filter_le (fun x => isDirAt s x && decide (depth i < depth x)) (List.range s.next)
  simpa using this

theorem wk_filter_length_lt {α} (p q : α → Bool) (c : α) : ∀ (l : List α), (∀ x ∈ l, p x = true → q x = true) → c ∈ l →
    q c = true → p c = false → (l.filter p).length + 1 ≤ (l.filter q).length := by
  intro l
  induction l with
  | nil => intro _ hc; cases hc
  | cons a l ih =>
    intro himp hc hq hp
    have hle : ∀ (l : List α), (∀ x ∈ l, p x = true → q x = true) → (l.filter p).length ≤ (l.filter q).length := by
      intro l
      induction l with
      | nil => intro _; simp
      | cons b l ih2 =>
        intro h
        have hb := h b (by simp)
        have hr := ih2 (fun x hx => h x (by simp [hx]))
        by_cases hpb : p b = true
        · simp [List.filter_cons, hpb, hb hpb]; exact hr
        · by_cases hqb : q b = true
          · simp [List.filter_cons, hpb, hqb]; omega
          · simp [List.filter_cons, hpb, hqb]; exact hr
    rcases List.mem_cons.1 hc with rfl | hc'
    · have := hle l (fun x hx => himp x (by simp [hx]))
      simp [List.filter_cons, hq, hp]; exact this
    · have hr := ih (fun x hx => himp x (by simp [hx])) hc' hq hp
      have ha := himp a (by simp)
      by_cases hpa : p a = true
      · simp [List.filter_cons, hpa, ha hpa]; exact hr
      · by_cases hqa : q a = true
        · simp [List.filter_cons, hpa, hqa]; omega
        · simp [List.filter_cons, hpa, hqa]; exact hr

theorem pot_edge {s : Store} {root : Ino} (hwf : WF s root) (depth : Ino → Nat)
    (hdepth : ∀ d n c, Edge s d n c → isDirAt s c = true → depth c = depth d + 1)
    {d c : Ino} {n : Bytes} (he : Edge s d n c) (hc : isDirAt s c = true) :
    pot s depth c + 1 ≤ pot s depth d := by
  unfold pot
  have hd := hdepth d n c he hc
  apply wk_filter_length_lt _ _ c
  · intro x _ hx
    simp only [Bool.and_eq_true, decide_eq_true_eq] at hx ⊢
    exact ⟨hx.1, by omega⟩
  · rw [List.mem_range]
    exact hwf.bound c (hwf.alloc d n c he)
  · simp [hc, hd]
  · simp


/-! ### ReadDir of a resolved directory, by the administrator -/

/-- the listing ReadDir hands out: the infos of the entries in name order -/
def entriesOf (s : Store) (d : Ino) : List Info :=
  (s.names d).filterMap fun nm => (s.child d nm).bind fun c => fillStat s c nm

theorem checkPerm_admin (m : Meta) (w : Nat) (v : View) (h : v.admin = true) : checkPerm m w v = true := by
  simp [checkPerm, h]

theorem fillStat_kind {s : Store} {c : Ino} {n : Bytes} {i : Info} (h : fillStat s c n = some i) :
    i.kind = kindOf s c ∧ i.name = n := by
  unfold fillStat at h
  unfold kindOf
  split at h <;> simp at h <;> subst h <;> simp [*]

theorem kindOf_dir {s : Store} {i : Ino} : kindOf s i = 0 ↔ isDirAt s i = true := by
  unfold kindOf isDirAt
  split <;> simp [*]

/-- Open (read-only) of a resolved directory by the administrator: a handle on its node -/
theorem open_found {s : Store} {root : Ino} {v : View} (hwf : WF s root)
    (hvr : ∃ m ch, s.get v.root = some (.dir m ch)) (hadm : v.admin = true) (vid : Nat) (cs : List Bytes)
    (hall : ∀ c ∈ cs, c ≠ [] ∧ ∀ x ∈ c, x ≠ SL) (hdots : ∀ c ∈ cs, c ≠ [DOT] ∧ c ≠ [DOT, DOT])
    (par d : Ino) (hw : walkPath s v v.root cs = .found par d) (hd : isDirAt s d = true) :
    openFile s v vid (pathOf cs) 0 0 = (s, .ok (handleOn d (pathOf cs) (toOpenMode 0) vid)) := by
  obtain ⟨m, ch, hg⟩ := get_of_isDirAt hd
  have hcp : checkPerm m (toOpenMode 0) v = true := checkPerm_admin _ _ _ hadm
  have hpo : posixOpen s v (toOpenMode 0) (.found par d) = .opened d false := by
    simp only [posixOpen, hg, hcp]
    simp [toOpenMode_zero, omCreate, omExcl, omWrite]
  by_cases hcs : cs = []
  · subst hcs
    simp only [walkPath, Resolved.found.injEq] at hw
    obtain ⟨rfl, rfl⟩ := hw
    have h := open_root s v hvr vid 0 0
    rw [hpo] at h
    simpa [pathOf, joinWith] using h
  · have h := open_posix_gen s root v hwf hvr cs hcs hall hdots vid 0 0
    rw [hw, hpo] at h
    simpa using h

theorem readDir_found {s : Store} {root : Ino} {v : View} (hwf : WF s root)
    (hvr : ∃ m ch, s.get v.root = some (.dir m ch)) (hadm : v.admin = true) (vid : Nat) (cs : List Bytes)
    (hall : ∀ c ∈ cs, c ≠ [] ∧ ∀ x ∈ c, x ≠ SL) (hdots : ∀ c ∈ cs, c ≠ [DOT] ∧ c ≠ [DOT, DOT])
    (par d : Ino) (hw : walkPath s v v.root cs = .found par d) (hd : isDirAt s d = true) :
    readDir s v vid (pathOf cs) = .ok (.infos (entriesOf s d)) := by
  obtain ⟨m, ch, hg⟩ := get_of_isDirAt hd
  unfold readDir
  rw [open_found hwf hvr hadm vid cs hall hdots par d hw hd]
  have hneg : ((-1 : Int) ≤ 0) = True := by simp
  simp only [fileStep, handleOn, pathOf, List.isEmpty_cons, Bool.false_eq_true, if_false, hg, hneg, if_true,
    true_or, decide_true, Bool.true_or]
  rw [dirEntriesOf_getD]
  rfl

/-! ### the simulation -/

/-- the state of the model after the reference answered `r` from state `st` -/
def applyRes (st : WState) (r : List Visit × List WAct × WErr) : WState × WErr :=
  (⟨r.2.1, st.visited ++ r.1⟩, r.2.2)

theorem treeOf_name (s : Store) (f : Nat) (n : Bytes) (i : Ino) : (treeOf s f n i).name = n := by
  cases f <;> rfl

theorem treeOf_kind (s : Store) (f : Nat) (n : Bytes) (i : Ino) : (treeOf s f n i).kind = kindOf s i := by
  cases f <;> rfl

/-- anything but a directory: one visit -/
theorem walkDir_leaf (s : Store) (v : View) (vid f : Nat) (st : WState) (P name : Bytes) (kind : Nat) (ch : List Tree)
    (hk : kind ≠ 0) :
    walkDir s v vid (f + 1) st P kind = applyRes st (specWalk (.node name kind ch) P st.acts) := by
  rw [walkDir.eq_2, specWalk.eq_1]
  cases h : st.acts.headD .cont <;> simp only [callFn, h] <;> simp [hk, applyRes]

theorem walkDir_leaf' (s : Store) (v : View) (vid f g : Nat) (st : WState) (P name : Bytes) (i : Ino)
    (hk : kindOf s i ≠ 0) :
    walkDir s v vid (f + 1) st P (kindOf s i) = applyRes st (specWalk (treeOf s g name i) P st.acts) := by
  cases g with
  | zero => exact walkDir_leaf s v vid f st P name _ _ hk
  | succ g => rw [treeOf.eq_2]; exact walkDir_leaf s v vid f st P name _ _ hk

/-- the statement of the simulation for directories, at fuel `g` -/
def SimAt (s : Store) (v : View) (vid : Nat) (depth : Ino → Nat) (g : Nat) : Prop :=
  ∀ (i : Ino) (name : Bytes) (cs : List Bytes) (par : Ino) (st : WState),
    (∀ c ∈ cs, c ≠ [] ∧ ∀ x ∈ c, x ≠ SL) → (∀ c ∈ cs, c ≠ [DOT] ∧ c ≠ [DOT, DOT]) →
    walkPath s v v.root cs = .found par i → isDirAt s i = true → pot s depth i + 1 ≤ g →
    walkDir s v vid (g + 1) st (pathOf cs) 0 = applyRes st (specWalk (treeOf s g name i) (pathOf cs) st.acts)

/-- descending one more component from a resolved directory, as the administrator -/
theorem walkPath_child {s : Store} {v : View} (hadm : v.admin = true) (cs : List Bytes) (par i c : Ino) (n : Bytes)
    (hw : walkPath s v v.root cs = .found par i) (hd : isDirAt s i = true) (he : s.child i n = some c)
    (hc : isDirAt s c = true) : walkPath s v v.root (cs ++ [n]) = .found i c := by
  obtain ⟨m, ch, hg⟩ := get_of_isDirAt hd
  obtain ⟨mc, chc, hgc⟩ := get_of_isDirAt hc
  rw [walkPath_append s v v.root cs [n] (by simp) par i m ch hw hg]
  simp [walkPath, hg, checkPerm_admin m omLookup v hadm, he, hgc]

theorem each_sim {s : Store} {root : Ino} {v : View} (hwf : WF s root) (hn : NamesOK s) (hdf : DotFree s)
    (hadm : v.admin = true) (vid : Nat) (depth : Ino → Nat)
    (hdepth : ∀ d n c, Edge s d n c → isDirAt s c = true → depth c = depth d + 1)
    (g : Nat) (IH : SimAt s v vid depth g) (i : Ino) (cs : List Bytes) (par : Ino)
    (hall : ∀ c ∈ cs, c ≠ [] ∧ ∀ x ∈ c, x ≠ SL) (hdots : ∀ c ∈ cs, c ≠ [DOT] ∧ c ≠ [DOT, DOT])
    (hw : walkPath s v v.root cs = .found par i) (hd : isDirAt s i = true) (hpot : pot s depth i ≤ g) :
    ∀ (L : List Bytes) (st : WState), (∀ nm ∈ L, nm ∈ s.names i) →
      walkDir.each s v vid (g + 1) (pathOf cs)
          (L.filterMap fun nm => (s.child i nm).bind fun c => fillStat s c nm) st =
        applyRes st (specWalkList (L.filterMap fun n => (s.child i n).map fun c => treeOf s g n c) (pathOf cs) st.acts) := by
  intro L
  induction L with
  | nil => intro st _; simp [walkDir.each, specWalkList, applyRes]
  | cons nm L ih =>
    intro st hL
    have hmem := hL nm (by simp)
    rw [mem_names] at hmem
    obtain ⟨c, hc⟩ := Option.isSome_iff_exists.1 hmem
    have halloc := hwf.alloc i nm c hc
    obtain ⟨inf, hinf⟩ := px_fillStat_some s c nm halloc
    obtain ⟨hkind, hname⟩ := fillStat_kind hinf
    have ih' : ∀ st', _ := fun st' => ih st' (fun x hx => hL x (by simp [hx]))
    have e1 : (nm :: L).filterMap (fun nm => (s.child i nm).bind fun c => fillStat s c nm) =
        inf :: L.filterMap (fun nm => (s.child i nm).bind fun c => fillStat s c nm) := by
      simp [List.filterMap_cons, hc, hinf]
    have e2 : (nm :: L).filterMap (fun n => (s.child i n).map fun c => treeOf s g n c) =
        treeOf s g nm c :: L.filterMap (fun n => (s.child i n).map fun c => treeOf s g n c) := by
      simp [List.filterMap_cons, hc]
    rw [e1, e2, walkDir.each.eq_2, specWalkList.eq_2, treeOf_name, hname, hkind]
    have hchild : walkDir s v vid (g + 1) st (join .linux [pathOf cs, nm]) (kindOf s c) =
        applyRes st (specWalk (treeOf s g nm c) (join .linux [pathOf cs, nm]) st.acts) := by
      by_cases hcd : isDirAt s c = true
      · have hgood := validName_good (hn i nm c hc)
        have hnd := hdf i nm c hc
        have hall' : ∀ x ∈ cs ++ [nm], x ≠ [] ∧ ∀ y ∈ x, y ≠ SL := by
          intro x hx
          rcases List.mem_append.1 hx with h | h
          · exact hall x h
          · simp at h; subst h; exact hgood
        have hdots' : ∀ x ∈ cs ++ [nm], x ≠ [DOT] ∧ x ≠ [DOT, DOT] := by
          intro x hx
          rcases List.mem_append.1 hx with h | h
          · exact hdots x h
          · simp at h; subst h; exact hnd
        rw [join_child cs nm hall' hdots', kindOf_dir.2 hcd]
        have hp := pot_edge hwf depth hdepth hc hcd
        exact IH c nm (cs ++ [nm]) i st hall' hdots' (walkPath_child hadm cs par i c nm hw hd hc hcd) hcd (by omega)
      · exact walkDir_leaf' s v vid g g st _ nm c (fun h => hcd (kindOf_dir.1 h))
    rw [hchild]
    generalize specWalk (treeOf s g nm c) (join .linux [pathOf cs, nm]) st.acts = r
    obtain ⟨vis, rest, e⟩ := r
    cases e <;> simp [applyRes, ih', List.append_assoc]


theorem walkDir_sim {s : Store} {root : Ino} {v : View} (hwf : WF s root) (hn : NamesOK s) (hdf : DotFree s)
    (hvr : ∃ m ch, s.get v.root = some (.dir m ch)) (hadm : v.admin = true) (vid : Nat) (depth : Ino → Nat)
    (hdepth : ∀ d n c, Edge s d n c → isDirAt s c = true → depth c = depth d + 1) :
    ∀ g, SimAt s v vid depth g := by
  intro g
  induction g with
  | zero => intro i name cs par st _ _ _ _ hp; omega
  | succ g IH =>
    intro i name cs par st hall hdots hw hd hp
    rw [walkDir.eq_2, treeOf.eq_2, specWalk.eq_1, kindOf_dir.2 hd]
    cases h : st.acts.headD .cont
    case cont =>
      simp only [callFn, h, readDir_found hwf hvr hadm vid cs hall hdots par i hw hd]
      have he := each_sim hwf hn hdf hadm vid depth hdepth g IH i cs par hall hdots hw hd (by omega) (s.names i)
        ⟨st.acts.tail, st.visited ++ [(pathOf cs, 0, none)]⟩ (fun _ h => h)
      simp only [entriesOf]
      simp [he, applyRes]
    all_goals simp only [callFn, h] <;> simp [applyRes]


/-- Lstat of a resolved path: the info of the node, under the last component -/
theorem lstat_found {s : Store} {root : Ino} {v : View} (hwf : WF s root)
    (hvr : ∃ m ch, s.get v.root = some (.dir m ch)) (cs : List Bytes)
    (hall : ∀ c ∈ cs, c ≠ [] ∧ ∀ x ∈ c, x ≠ SL) (hdots : ∀ c ∈ cs, c ≠ [DOT] ∧ c ≠ [DOT, DOT])
    (par c : Ino) (hw : walkPath s v v.root cs = .found par c) (m : SlMode) :
    ∃ i, fillStat s c (cs.getLastD []) = some i ∧ (stat s v (pathOf cs) m).2 = .ok (.info i) := by
  by_cases hcs : cs = []
  · subst hcs
    simp only [walkPath, Resolved.found.injEq] at hw
    obtain ⟨rfl, rfl⟩ := hw
    obtain ⟨mr, chr, hgr⟩ := hvr
    obtain ⟨i, hi, hst⟩ := stat_root s v m (by simp [hgr])
    exact ⟨i, hi, by simp [pathOf, joinWith, hst]⟩
  · have h := (stat_posix_gen s root v hwf hvr cs hcs hall hdots m).2
    rw [hw] at h
    obtain ⟨i, hi, hst⟩ := h
    refine ⟨i, ?_, hst⟩
    rw [← hi]
    congr 1
    rw [List.getLastD_eq_getLast?, List.getLast?_eq_some_getLast hcs]
    rfl

/-- the tree below node `c` of a heap, entered under `name` (no branch of a well-formed heap is deeper than the number
    of allocated inodes: `treeOf_stable`) -/
def Store.tree (s : Store) (name : Bytes) (c : Ino) : Tree := treeOf s (s.next + 1) name c

/-- (b) WalkDir of the model = the reference walk of the tree below the root of the walk: for the administrator, on
    every well-formed heap without "." / ".." entries, for a root given as a clean absolute path that resolves without
    meeting a symbolic link (to a directory or a file), and EVERY list of callback answers.
    The fuel `s.next + 2` of `walkDirTop` is never exhausted (the reference has no ELOOP outcome). -/
theorem walkDirTop_eq_spec (s : Store) (root : Ino) (v : View) (hwf : WF s root) (hn : NamesOK s) (hdf : DotFree s)
    (hvr : ∃ m ch, s.get v.root = some (.dir m ch)) (hadm : v.admin = true) (vid : Nat) (cs : List Bytes)
    (hall : ∀ c ∈ cs, c ≠ [] ∧ ∀ x ∈ c, x ≠ SL) (hdots : ∀ c ∈ cs, c ≠ [DOT] ∧ c ≠ [DOT, DOT])
    (par c : Ino) (hw : walkPath s v v.root cs = .found par c) (acts : List WAct) :
    walkDirTop s v vid (pathOf cs) acts =
      let r := specWalkTop (s.tree (cs.getLastD []) c) (pathOf cs) acts
      (⟨r.2.1, r.1⟩, r.2.2) := by
  obtain ⟨depth, hdepth⟩ := hwf.depth
  obtain ⟨i, hi, hst⟩ := lstat_found hwf hvr cs hall hdots par c hw .lstat
  obtain ⟨hkind, _⟩ := fillStat_kind hi
  have hwalk : walkDir s v vid (s.next + 1 + 1) ⟨acts, []⟩ (pathOf cs) (kindOf s c) =
      applyRes ⟨acts, []⟩ (specWalk (treeOf s (s.next + 1) (cs.getLastD []) c) (pathOf cs) acts) := by
    by_cases hcd : isDirAt s c = true
    · rw [kindOf_dir.2 hcd]
      have hp := pot_le s depth c
      exact walkDir_sim hwf hn hdf hvr hadm vid depth hdepth (s.next + 1) c _ cs par ⟨acts, []⟩ hall hdots hw hcd
        (by omega)
    · exact walkDir_leaf' s v vid _ _ ⟨acts, []⟩ _ _ c (fun h => hcd (kindOf_dir.1 h))
  unfold walkDirTop
  simp only [hst, hkind, hwalk, specWalkTop, Store.tree, applyRes, List.nil_append]
  rfl


/-- the walk of the model never runs out of fuel and invents no error: it returns nil or the error of the callback -/
theorem walkDirTop_result (s : Store) (root : Ino) (v : View) (hwf : WF s root) (hn : NamesOK s) (hdf : DotFree s)
    (hvr : ∃ m ch, s.get v.root = some (.dir m ch)) (hadm : v.admin = true) (vid : Nat) (cs : List Bytes)
    (hall : ∀ c ∈ cs, c ≠ [] ∧ ∀ x ∈ c, x ≠ SL) (hdots : ∀ c ∈ cs, c ≠ [DOT] ∧ c ≠ [DOT, DOT])
    (par c : Ino) (hw : walkPath s v v.root cs = .found par c) (acts : List WAct) :
    (walkDirTop s v vid (pathOf cs) acts).2 = .none ∨ (walkDirTop s v vid (pathOf cs) acts).2 = .fail := by
  rw [walkDirTop_eq_spec s root v hwf hn hdf hvr hadm vid cs hall hdots par c hw acts]
  exact specWalkTop_result _ _ _

/-! #### the hypothesis `DotFree` is needed -/

def wkDirMeta : Meta := ⟨0o755, 0, 0, none⟩

/-- a well-formed heap (not reachable through the API) in which the directory "/a" has an entry named "..":
    / (0) ∋ "a" ↦ 1, /a (1) ∋ ".." ↦ 2, both directories -/
@[irreducible] def ddStore : Store :=
  { nodes := [(0, .dir wkDirMeta [([97], 1)]), (1, .dir wkDirMeta [([DOT, DOT], 2)]), (2, .dir wkDirMeta [])],
    next := 3, lastId := 0 }

/-- the administrator on the whole volume -/
def wkAdm : View := { root := 0, cwd := [SL], uid := 0, gid := 0, admin := true, umask := 0o022 }

/-- COUNTEREXAMPLE without `DotFree`: `WF` and `NamesOK` hold, but Join("/a", "..") = "/" sends the model back to the
    root until its fuel is exhausted (ELOOP; Go: unbounded recursion), where the reference visits the (empty) directory
    node 2 under the path "/" and ends. -/
theorem walk_dotdot_cex :
    wfCheck ddStore 0 = true ∧ dotFreeCheck ddStore = false ∧
    walkDirTop ddStore wkAdm 0 [SL] [] =
      (⟨[], [([SL], 0, none), ([SL, 97], 0, none), ([SL], 0, none), ([SL, 97], 0, none), ([SL], 0, none)]⟩,
        .other .ELOOP) ∧
    specWalkTop (ddStore.tree [] 0) [SL] [] = ([([SL], 0, none), ([SL, 97], 0, none), ([SL], 0, none)], [], .none) := by
  refine ⟨by decide +kernel, by decide +kernel, ?_, by decide +kernel⟩
  have hst : (stat ddStore wkAdm [SL] .lstat).2 = .ok (.info ⟨[], 0, 0o755, 0, 0, 0, 1, 0, none⟩) := by decide +kernel
  have hr1 : readDir ddStore wkAdm 0 [SL] = .ok (.infos [⟨[97], 0, 0o755, 0, 0, 0, 1, 0, none⟩]) := by decide +kernel
  have hr2 : readDir ddStore wkAdm 0 [SL, 97] = .ok (.infos [⟨[DOT, DOT], 0, 0o755, 0, 0, 0, 0, 0, none⟩]) := by
    decide +kernel
  have hj1 : join .linux [[SL], [97]] = [SL, 97] := by decide +kernel
  have hj2 : join .linux [[SL, 97], [DOT, DOT]] = [SL] := by decide +kernel
  have hn : ddStore.next = 3 := by decide +kernel
  simp [walkDirTop, hst, hn, walkDir, walkDir.each, callFn, hr1, hr2, hj1, hj2]

/-! #### non-vacuity of `walkDirTop_eq_spec` -/

theorem wkStore_wf : WF wkStore 0 ∧ NamesOK wkStore := wfCheck_sound wkStore 0 (by decide +kernel)
theorem wkStore_dotFree : DotFree wkStore := dotFreeCheck_sound wkStore (by decide +kernel)
theorem wkAdm_root : ∃ m ch, wkStore.get wkAdm.root = some (.dir m ch) :=
  get_of_isDirAt (by decide +kernel : isDirAt wkStore 0 = true)

/-- WalkDir("/tmp") on the concrete heap with the callback answering continue, then SkipDir: "/tmp", "/tmp/d" (skipped:
    its entries "e" and "z" are not visited), "/tmp/g" -/
example : walkDirTop wkStore wkAdm 0 [SL, 116, 109, 112] [.cont, .skipDir] =
    (⟨[], [([SL, 116, 109, 112], 0, none), ([SL, 116, 109, 112, SL, 100], 0, none),
           ([SL, 116, 109, 112, SL, 103], 1, none)]⟩, .none) := by
  have h := walkDirTop_eq_spec wkStore 0 wkAdm wkStore_wf.1 wkStore_wf.2 wkStore_dotFree wkAdm_root rfl 0
    [[116, 109, 112]] (by decide) (by decide) 0 3 (by decide +kernel) [.cont, .skipDir]
  rw [show pathOf [[116, 109, 112]] = [SL, 116, 109, 112] from rfl] at h
  rw [h]
  decide +kernel

/-- WalkDir("/") with a callback that always continues: all twelve entries, the links "/a/l" and "/tmp/d/z" as
    entries of kind 2 (not followed) -/
example : walkDirTop wkStore wkAdm 0 [SL] [] =
    (⟨[], [([SL], 0, none), ([SL, 97], 0, none), ([SL, 97, SL, 98], 0, none), ([SL, 97, SL, 102], 1, none),
           ([SL, 97, SL, 108], 2, none), ([SL, 104, 111, 109, 101], 0, none), ([SL, 114, 111, 111, 116], 0, none),
           ([SL, 116, 109, 112], 0, none), ([SL, 116, 109, 112, SL, 100], 0, none),
           ([SL, 116, 109, 112, SL, 100, SL, 101], 0, none), ([SL, 116, 109, 112, SL, 100, SL, 122], 2, none),
           ([SL, 116, 109, 112, SL, 103], 1, none)]⟩, .none) := by
  have h := walkDirTop_eq_spec wkStore 0 wkAdm wkStore_wf.1 wkStore_wf.2 wkStore_dotFree wkAdm_root rfl 0
    [] (by decide) (by decide) 0 0 (by decide +kernel) []
  rw [show pathOf [] = [SL] from rfl] at h
  rw [h]
  decide +kernel


/-! ### the tree does not depend on the fuel -/

theorem filterMap_congr' {α β} {f g : α → Option β} : ∀ {l : List α}, (∀ a ∈ l, f a = g a) →
    l.filterMap f = l.filterMap g
  | [], _ => rfl
  | a :: l, h => by
    have ha := h a (by simp)
    have ih := filterMap_congr' (l := l) (fun x hx => h x (by simp [hx]))
    simp only [List.filterMap_cons, ha, ih]

theorem names_of_not_dir {s : Store} {i : Ino} (h : isDirAt s i = false) : s.names i = [] := by
  simp [Store.names, hr_children_of_not_dir h, alKeys, sortBytes]

theorem treeOf_stable {s : Store} {root : Ino} (hwf : WF s root) (depth : Ino → Nat)
    (hdepth : ∀ d n c, Edge s d n c → isDirAt s c = true → depth c = depth d + 1) :
    ∀ (f f' : Nat) (n : Bytes) (i : Ino),
      (isDirAt s i = true → pot s depth i + 1 ≤ f ∧ pot s depth i + 1 ≤ f') → treeOf s f n i = treeOf s f' n i := by
  intro f
  induction f with
  | zero =>
    intro f' n i h
    have hnd : isDirAt s i = false := by
      cases hd : isDirAt s i with
      | false => rfl
      | true => have := (h hd).1; omega
    cases f' with
    | zero => rfl
    | succ f' => simp [treeOf, names_of_not_dir hnd]
  | succ f ih =>
    intro f' n i h
    cases f' with
    | zero =>
      have hnd : isDirAt s i = false := by
        cases hd : isDirAt s i with
        | false => rfl
        | true => have := (h hd).2; omega
      simp [treeOf, names_of_not_dir hnd]
    | succ f' =>
      rw [treeOf.eq_2, treeOf.eq_2]
      congr 1
      apply filterMap_congr'
      intro nm hnm
      cases hc : s.child i nm with
      | none => rfl
      | some c =>
        simp only [Option.map_some]
        congr 1
        apply ih
        intro hcd
        have hid : isDirAt s i = true := hr_isDir_of_edge hc
        have hp := pot_edge hwf depth hdepth hc hcd
        have := h hid
        omega

/-- the tree below a node, without fuel: the node and the trees below its entries in name order -/
theorem tree_unfold {s : Store} {root : Ino} (hwf : WF s root) (n : Bytes) (i : Ino) :
    s.tree n i = .node n (kindOf s i) ((s.names i).filterMap fun nm => (s.child i nm).map fun c => s.tree nm c) := by
  obtain ⟨depth, hdepth⟩ := hwf.depth
  unfold Store.tree
  rw [treeOf.eq_2]
  congr 1
  apply filterMap_congr'
  intro nm hnm
  cases hc : s.child i nm with
  | none => rfl
  | some c =>
    simp only [Option.map_some]
    congr 1
    apply treeOf_stable hwf depth hdepth
    intro hcd
    have hid : isDirAt s i = true := hr_isDir_of_edge hc
    have hp := pot_edge hwf depth hdepth hc hcd
    have := pot_le s depth i
    omega


/-! ### (c) the callback always continues: the entries below the root, each once, in pre-order -/

/-- descending from node `i` along the names `ds`, entry by entry (symbolic links are entries: they are not followed) -/
def descend (s : Store) : Ino → List Bytes → Option Ino
  | i, [] => some i
  | i, n :: ns => (s.child i n).bind fun c => descend s c ns

/-- the part of `below` under the entry `n` of `i` -/
def belowChild (s : Store) (rec : Ino → List (List Bytes × Ino)) (i : Ino) (n : Bytes) : List (List Bytes × Ino) :=
  match s.child i n with
  | none => []
  | some c => (rec c).map fun x => (n :: x.1, x.2)

/-- node `i` and everything below it in pre-order, entries in name order: (names leading from `i` to the node, node) -/
def below (s : Store) : Nat → Ino → List (List Bytes × Ino)
  | 0, i => [([], i)]
  | f + 1, i => ([], i) :: (s.names i).flatMap (belowChild s (below s f) i)

/-- the visit of an entry below the directory with components `cs` -/
def toVisit (s : Store) (cs : List Bytes) (x : List Bytes × Ino) : Visit := (pathOf (cs ++ x.1), kindOf s x.2, none)

/-- the first `n` answers of the callback are "continue" (a missing answer counts as "continue") -/
def ContN (n : Nat) (acts : List WAct) : Prop := ∀ a ∈ acts.take n, a = .cont

theorem ContN.head {n : Nat} {acts : List WAct} (h : ContN (n + 1) acts) : acts.headD .cont = .cont := by
  cases acts with
  | nil => rfl
  | cons a l => exact h a (by simp)

theorem ContN.tail {n : Nat} {acts : List WAct} (h : ContN (n + 1) acts) : ContN n acts.tail := by
  cases acts with
  | nil => intro a ha; simp at ha
  | cons a l => intro b hb; exact h b (by simp at hb ⊢; exact Or.inr hb)

theorem ContN.split {a b : Nat} {acts : List WAct} (h : ContN (a + b) acts) : ContN a acts ∧ ContN b (acts.drop a) := by
  unfold ContN at *
  rw [List.take_add] at h
  exact ⟨fun x hx => h x (List.mem_append_left _ hx), fun x hx => h x (List.mem_append_right _ hx)⟩

theorem ContN.of_all {acts : List WAct} (h : ∀ a ∈ acts, a = .cont) (n : Nat) : ContN n acts :=
  fun a ha => h a (List.mem_of_mem_take ha)

theorem toVisit_child (s : Store) (cs : List Bytes) (nm : Bytes) (l : List (List Bytes × Ino)) :
    (l.map fun x => (nm :: x.1, x.2)).map (toVisit s cs) = l.map (toVisit s (cs ++ [nm])) := by
  rw [List.map_map]
  apply List.map_congr_left
  intro x _
  simp [toVisit]

theorem good_snoc {s : Store} (hn : NamesOK s) (hdf : DotFree s) {cs : List Bytes} {i c : Ino} {nm : Bytes}
    (hall : ∀ c ∈ cs, c ≠ [] ∧ ∀ x ∈ c, x ≠ SL) (hdots : ∀ c ∈ cs, c ≠ [DOT] ∧ c ≠ [DOT, DOT])
    (hc : s.child i nm = some c) :
    (∀ x ∈ cs ++ [nm], x ≠ [] ∧ ∀ y ∈ x, y ≠ SL) ∧ (∀ x ∈ cs ++ [nm], x ≠ [DOT] ∧ x ≠ [DOT, DOT]) := by
  have hgood := validName_good (hn i nm c hc)
  have hnd := hdf i nm c hc
  constructor
  · intro x hx
    rcases List.mem_append.1 hx with h | h
    · exact hall x h
    · simp at h; subst h; exact hgood
  · intro x hx
    rcases List.mem_append.1 hx with h | h
    · exact hdots x h
    · simp at h; subst h; exact hnd

/-- the statement of `spec_cont` at fuel `f` -/
def ContAt (s : Store) (f : Nat) : Prop :=
  ∀ (i : Ino) (name : Bytes) (cs : List Bytes) (acts : List WAct),
    (∀ c ∈ cs, c ≠ [] ∧ ∀ x ∈ c, x ≠ SL) → (∀ c ∈ cs, c ≠ [DOT] ∧ c ≠ [DOT, DOT]) →
    ContN (below s f i).length acts →
    specWalk (treeOf s f name i) (pathOf cs) acts =
      ((below s f i).map (toVisit s cs), acts.drop (below s f i).length, .none)

theorem specList_cont {s : Store} (hn : NamesOK s) (hdf : DotFree s) (f : Nat) (IH : ContAt s f) (i : Ino)
    (cs : List Bytes) (hall : ∀ c ∈ cs, c ≠ [] ∧ ∀ x ∈ c, x ≠ SL) (hdots : ∀ c ∈ cs, c ≠ [DOT] ∧ c ≠ [DOT, DOT]) :
    ∀ (L : List Bytes) (acts : List WAct), ContN (L.flatMap (belowChild s (below s f) i)).length acts →
      specWalkList (L.filterMap fun n => (s.child i n).map fun c => treeOf s f n c) (pathOf cs) acts =
        ((L.flatMap (belowChild s (below s f) i)).map (toVisit s cs),
          acts.drop (L.flatMap (belowChild s (below s f) i)).length, .none) := by
  intro L
  induction L with
  | nil => intro acts _; simp [specWalkList]
  | cons nm L ih =>
    intro acts hc
    cases hch : s.child i nm with
    | none =>
      have e1 : belowChild s (below s f) i nm = [] := by simp [belowChild, hch]
      rw [List.flatMap_cons, e1, List.nil_append] at hc ⊢
      simp only [List.filterMap_cons, hch, Option.map_none]
      exact ih acts hc
    | some c =>
      have e1 : belowChild s (below s f) i nm = (below s f c).map fun x => (nm :: x.1, x.2) := by
        simp [belowChild, hch]
      rw [List.flatMap_cons, e1, List.length_append, List.length_map] at hc
      obtain ⟨hc1, hc2⟩ := hc.split
      obtain ⟨hall', hdots'⟩ := good_snoc hn hdf hall hdots hch
      have hchild := IH c nm (cs ++ [nm]) acts hall' hdots' hc1
      simp only [List.filterMap_cons, hch, Option.map_some]
      rw [specWalkList.eq_2, treeOf_name, join_child cs nm hall' hdots', hchild]
      simp only [ih _ hc2]
      rw [List.flatMap_cons, e1, List.map_append, toVisit_child, List.length_append, List.length_map, List.drop_drop]

theorem spec_cont {s : Store} (hn : NamesOK s) (hdf : DotFree s) : ∀ f, ContAt s f := by
  intro f
  induction f with
  | zero =>
    intro i name cs acts hall hdots hc
    have hh : acts.headD .cont = .cont := ContN.head (n := 0) hc
    rw [treeOf, specWalk.eq_1, hh]
    by_cases hk : (kindOf s i == 0) = true <;> simp [hk, specWalkList, below, toVisit]
  | succ f IH =>
    intro i name cs acts hall hdots hc
    rw [below, List.length_cons] at hc
    have hh : acts.headD .cont = .cont := hc.head
    have ht := hc.tail
    rw [treeOf.eq_2, specWalk.eq_1, hh]
    have hl := specList_cont hn hdf f IH i cs hall hdots (s.names i) acts.tail ht
    by_cases hd : isDirAt s i = true
    · simp only [kindOf_dir.2 hd, beq_self_eq_true, if_true, hl, below, List.map_cons, List.length_cons]
      simp [toVisit, kindOf_dir.2 hd]
    · have hnd : isDirAt s i = false := by simpa using hd
      have hk : (kindOf s i == 0) = false := by
        cases h : (kindOf s i == 0) with
        | false => rfl
        | true => exact absurd (kindOf_dir.1 (by simpa using h)) hd
      simp [hk, below, names_of_not_dir hnd, toVisit]


/-! #### membership: `below` lists exactly what `descend` reaches -/

theorem mem_belowChild {s : Store} {rec : Ino → List (List Bytes × Ino)} {i : Ino} {n : Bytes} {x : List Bytes × Ino} :
    x ∈ belowChild s rec i n ↔ ∃ c y, s.child i n = some c ∧ y ∈ rec c ∧ x = (n :: y.1, y.2) := by
  unfold belowChild
  cases hc : s.child i n with
  | none => simp
  | some c =>
    simp only [List.mem_map, Option.some.injEq]
    constructor
    · rintro ⟨y, hy, rfl⟩; exact ⟨c, y, rfl, hy, rfl⟩
    · rintro ⟨c', y, rfl, hy, rfl⟩; exact ⟨y, hy, rfl⟩

theorem mem_below_succ {s : Store} {f : Nat} {i : Ino} {x : List Bytes × Ino} :
    x ∈ below s (f + 1) i ↔ x = ([], i) ∨ ∃ n c y, s.child i n = some c ∧ y ∈ below s f c ∧ x = (n :: y.1, y.2) := by
  rw [below, List.mem_cons, List.mem_flatMap]
  constructor
  · rintro (h | ⟨n, _, hx⟩)
    · exact Or.inl h
    · obtain ⟨c, y, hc, hy, rfl⟩ := mem_belowChild.1 hx
      exact Or.inr ⟨n, c, y, hc, hy, rfl⟩
  · rintro (h | ⟨n, c, y, hc, hy, rfl⟩)
    · exact Or.inl h
    · refine Or.inr ⟨n, (mem_names s i n).2 (by simp [hc]), mem_belowChild.2 ⟨c, y, hc, hy, rfl⟩⟩

/-- whatever the fuel, `below` lists only nodes that `descend` reaches under these names -/
theorem below_sound (s : Store) : ∀ (f : Nat) (i : Ino) (ds : List Bytes) (j : Ino),
    (ds, j) ∈ below s f i → descend s i ds = some j := by
  intro f
  induction f with
  | zero =>
    intro i ds j h
    simp only [below, List.mem_singleton, Prod.mk.injEq] at h
    obtain ⟨rfl, rfl⟩ := h
    rfl
  | succ f ih =>
    intro i ds j h
    rcases mem_below_succ.1 h with h | ⟨n, c, y, hc, hy, h⟩
    · simp only [Prod.mk.injEq] at h
      obtain ⟨rfl, rfl⟩ := h
      rfl
    · simp only [Prod.mk.injEq] at h
      obtain ⟨rfl, rfl⟩ := h
      simp [descend, hc, ih c y.1 y.2 hy]

/-- with enough fuel, `below` lists every node that `descend` reaches -/
theorem below_complete {s : Store} {root : Ino} (hwf : WF s root) (depth : Ino → Nat)
    (hdepth : ∀ d n c, Edge s d n c → isDirAt s c = true → depth c = depth d + 1) :
    ∀ (f : Nat) (i : Ino) (ds : List Bytes) (j : Ino), (isDirAt s i = true → pot s depth i + 1 ≤ f) →
      descend s i ds = some j → (ds, j) ∈ below s f i := by
  intro f
  induction f with
  | zero =>
    intro i ds j hb h
    have hnd : isDirAt s i = false := by
      cases hd : isDirAt s i with
      | false => rfl
      | true => have := hb hd; omega
    cases ds with
    | nil => simp only [descend, Option.some.injEq] at h; subst h; simp [below]
    | cons n ns => simp [descend, hr_child_of_not_dir hnd] at h
  | succ f ih =>
    intro i ds j hb h
    cases ds with
    | nil => simp only [descend, Option.some.injEq] at h; subst h; simp [below]
    | cons n ns =>
      cases hc : s.child i n with
      | none => simp [descend, hc] at h
      | some c =>
        simp only [descend, hc, Option.bind_some] at h
        refine mem_below_succ.2 (Or.inr ⟨n, c, (ns, j), hc, ih c ns j ?_ h, rfl⟩)
        intro hcd
        have hp := pot_edge hwf depth hdepth hc hcd
        have := hb (hr_isDir_of_edge hc)
        omega

/-- the names on the way down are entry names: valid and neither "." nor ".." -/
theorem descend_good {s : Store} (hn : NamesOK s) (hdf : DotFree s) : ∀ (ds : List Bytes) (i j : Ino),
    descend s i ds = some j → (∀ c ∈ ds, c ≠ [] ∧ ∀ x ∈ c, x ≠ SL) ∧ (∀ c ∈ ds, c ≠ [DOT] ∧ c ≠ [DOT, DOT]) := by
  intro ds
  induction ds with
  | nil => intro i j _; simp
  | cons n ns ih =>
    intro i j h
    cases hc : s.child i n with
    | none => simp [descend, hc] at h
    | some c =>
      simp only [descend, hc, Option.bind_some] at h
      obtain ⟨h1, h2⟩ := ih c j h
      have hg := validName_good (hn i n c hc)
      have hd := hdf i n c hc
      constructor
      · intro x hx
        rcases List.mem_cons.1 hx with rfl | hx
        · exact hg
        · exact h1 x hx
      · intro x hx
        rcases List.mem_cons.1 hx with rfl | hx
        · exact hd
        · exact h2 x hx

/-! #### order: pre-order with the entries of a directory in byte-wise name order = lexicographic on the names -/

/-- lexicographic order on lists of names: a proper prefix first, otherwise the first difference decides (`bytesLt`) -/
def compLt : List Bytes → List Bytes → Prop
  | [], [] => False
  | [], _ :: _ => True
  | _ :: _, [] => False
  | a :: as, b :: bs => bytesLt a b = true ∨ (a = b ∧ compLt as bs)

theorem compLt_irrefl : ∀ (l : List Bytes), ¬ compLt l l
  | [] => by simp [compLt]
  | a :: l => by
    simp only [compLt, bytesLt_irrefl, Bool.false_eq_true, true_and, false_or]
    exact compLt_irrefl l

theorem below_sorted (s : Store) : ∀ (f : Nat) (i : Ino), (below s f i).Pairwise fun x y => compLt x.1 y.1 := by
  intro f
  induction f with
  | zero => intro i; simp [below]
  | succ f ih =>
    intro i
    rw [below, List.pairwise_cons]
    constructor
    · intro y hy
      obtain ⟨n, _, hy⟩ := List.mem_flatMap.1 hy
      obtain ⟨c, z, _, _, rfl⟩ := mem_belowChild.1 hy
      simp [compLt]
    · rw [List.pairwise_flatMap]
      constructor
      · intro n _
        unfold belowChild
        cases s.child i n with
        | none => simp
        | some c =>
          apply List.Pairwise.map _ _ (ih c)
          intro a b hab
          exact Or.inr ⟨rfl, hab⟩
      · apply List.Pairwise.imp _ (names_sorted s i)
        intro n1 n2 hlt x hx y hy
        obtain ⟨_, z1, _, _, rfl⟩ := mem_belowChild.1 hx
        obtain ⟨_, z2, _, _, rfl⟩ := mem_belowChild.1 hy
        exact Or.inl hlt


/-! #### descent and resolution -/

theorem descend_append (s : Store) : ∀ (a b : List Bytes) (i : Ino),
    descend s i (a ++ b) = (descend s i a).bind fun c => descend s c b := by
  intro a
  induction a with
  | nil => intro b i; rfl
  | cons n ns ih =>
    intro b i
    simp only [List.cons_append, descend]
    cases s.child i n with
    | none => rfl
    | some c => simp [ih]

/-- what the link-free resolution finds is what the descent reaches -/
theorem walkPath_found_descend {s : Store} {v : View} : ∀ (cs : List Bytes) (d par c : Ino),
    walkPath s v d cs = .found par c → descend s d cs = some c := by
  intro cs
  induction cs with
  | nil => intro d par c h; simp only [walkPath, Resolved.found.injEq] at h; simp [descend, h.2]
  | cons n ns ih =>
    intro d par c h
    cases ns with
    | nil =>
      obtain ⟨he, _, _⟩ := walkPath_found [] n d par c h
      have hpar : par = d := by
        simp only [walkPath] at h
        split at h
        · split at h
          · cases h
          · split at h
            · cases h
            · split at h
              · cases h
              · simp only [Resolved.found.injEq] at h; exact h.1.symm
        · cases h
      subst hpar
      simp only [List.getLast_singleton] at he
      simp [descend, he]
    | cons n2 ns2 =>
      simp only [walkPath] at h
      split at h
      · split at h
        · cases h
        · split at h
          · cases h
          · rename_i i hch
            split at h
            · have := ih i par c h
              simp only [descend, hch, Option.bind_some] at this ⊢
              exact this
            · cases h
            · cases h
            · cases h
      · cases h

/-- the administrator resolves every descent that ends on something else than a symbolic link -/
theorem walkPath_of_descend {s : Store} {root : Ino} {v : View} (hwf : WF s root) (hadm : v.admin = true) :
    ∀ (ds : List Bytes) (i j : Ino), ds ≠ [] → descend s i ds = some j → (∀ m l, s.get j ≠ some (.symlink m l)) →
      ∃ par, walkPath s v i ds = .found par j := by
  intro ds
  induction ds with
  | nil => intro i j h; exact absurd rfl h
  | cons n ns ih =>
    intro i j _ h hns
    cases hc : s.child i n with
    | none => simp [descend, hc] at h
    | some c =>
      simp only [descend, hc, Option.bind_some] at h
      obtain ⟨m, ch, hg⟩ := get_of_isDirAt (hr_isDir_of_edge hc)
      have hp := checkPerm_admin m omLookup v hadm
      cases ns with
      | nil =>
        simp only [descend, Option.some.injEq] at h
        subst h
        refine ⟨i, ?_⟩
        simp only [walkPath, hg, hp, hc]
        cases hgc : s.get c with
        | none => simp
        | some nd =>
          cases nd with
          | symlink ms lk => exact absurd hgc (hns ms lk)
          | dir _ _ => simp
          | file _ _ _ _ => simp
      | cons n2 ns2 =>
        have hcd : isDirAt s c = true := by
          cases hc2 : s.child c n2 with
          | none => simp [descend, hc2] at h
          | some c2 => exact hr_isDir_of_edge hc2
        obtain ⟨mc, chc, hgc⟩ := get_of_isDirAt hcd
        obtain ⟨par, hw⟩ := ih c j (by simp) h hns
        exact ⟨par, by simp [walkPath, hg, hp, hc, hgc, hw]⟩

/-- below a resolved root: every entry that is not a symbolic link resolves, as the path of the root extended by
    the names on the way down -/
theorem walkPath_below {s : Store} {root : Ino} {v : View} (hwf : WF s root) (hadm : v.admin = true)
    (cs ds : List Bytes) (par c j : Ino) (hw : walkPath s v v.root cs = .found par c)
    (hd : descend s c ds = some j) (hns : ∀ m l, s.get j ≠ some (.symlink m l)) :
    ∃ par', walkPath s v v.root (cs ++ ds) = .found par' j := by
  by_cases hds : ds = []
  · subst hds
    simp only [descend, Option.some.injEq] at hd
    subst hd
    exact ⟨par, by simpa using hw⟩
  · have hcd : isDirAt s c = true := by
      cases ds with
      | nil => exact absurd rfl hds
      | cons n ns =>
        cases hc : s.child c n with
        | none => simp [descend, hc] at hd
        | some c2 => exact hr_isDir_of_edge hc
    obtain ⟨m, ch, hg⟩ := get_of_isDirAt hcd
    obtain ⟨par', hw'⟩ := walkPath_of_descend hwf hadm ds c j hds hd hns
    exact ⟨par', by rw [walkPath_append s v v.root cs ds hds par c m ch hw hg]; exact hw'⟩

/-- conversely: a path below the root that resolves (without meeting a link) is a descent from the root's node -/
theorem descend_of_walkPath {s : Store} {v : View} (cs ds : List Bytes) (par c par' j : Ino)
    (hw : walkPath s v v.root cs = .found par c) (hw' : walkPath s v v.root (cs ++ ds) = .found par' j) :
    descend s c ds = some j := by
  have h1 := walkPath_found_descend cs v.root par c hw
  have h2 := walkPath_found_descend (cs ++ ds) v.root par' j hw'
  rw [descend_append, h1] at h2
  simpa using h2


/-! #### Lstat of an entry (a symbolic link as last component included), by the administrator -/

/-- the loop of `searchNode` in `lstat` mode, standing in directory `d` in front of the names `c :: rest` that lead
    down to node `j` through directories: it finds `j` under the last name; a symbolic link as LAST component is not
    followed -/
theorem loop_descend {s : Store} {root : Ino} {v : View} (hwf : WF s root) (hadm : v.admin = true) :
    ∀ (rest : List Bytes) (c : Bytes) (fuel : Nat) (d : Ino) (it : Iter) (pre : Bytes) (sl : Nat) (j : Ino),
      (∀ x ∈ c :: rest, x ≠ [] ∧ ∀ y ∈ x, y ≠ SL) →
      it.path = pre ++ joinWith SL (c :: rest) → it.stop1 = pre.length → fuel ≥ rest.length + 1 →
      sl < slCountMax → descend s d (c :: rest) = some j →
      (searchLoop s v .lstat v.root fuel d it sl none).err = .exists ∧
      (searchLoop s v .lstat v.root fuel d it sl none).child = some j ∧
      partOf (searchLoop s v .lstat v.root fuel d it sl none).pi = (c :: rest).getLast (by simp) := by
  intro rest
  induction rest with
  | nil =>
    intro c fuel d it pre sl j hall hp hst hf hsl hd
    obtain ⟨fuel, rfl⟩ : ∃ k, fuel = k + 1 := ⟨fuel - 1, by simp at hf; omega⟩
    have hc := hall c (by simp)
    obtain ⟨it1, hnext, hpart, hl, _⟩ := next_comp it pre c [] hp hst hc.1 hc.2
    have hl := hl rfl
    cases hch : s.child d c with
    | none => simp [descend, hch] at hd
    | some i =>
      simp only [descend, hch, Option.bind_some, Option.some.injEq] at hd
      subst hd
      obtain ⟨md, chd, hgd⟩ := get_of_isDirAt (hr_isDir_of_edge hch)
      have hden := checkPerm_admin md omLookup v hadm
      have halloc := hwf.alloc d c i hch
      rw [searchLoop]
      cases hg : s.get i with
      | none => simp [hg] at halloc
      | some n =>
        cases n with
        | dir mi chi => simp [hnext, hpart, hgd, hden, hch, hg, hl, partOf]
        | file mf df nl id => simp [hnext, hpart, hgd, hden, hch, hg, hl, partOf]
        | symlink ms lk =>
          have hsl' : ¬ (sl + 1 > slCountMax) := by omega
          simp [hnext, hpart, hgd, hden, hch, hg, hl, partOf, hsl']
  | cons c2 cs ih =>
    intro c fuel d it pre sl j hall hp hst hf hsl hd
    obtain ⟨fuel, rfl⟩ : ∃ k, fuel = k + 1 := ⟨fuel - 1, by simp at hf; omega⟩
    have hc := hall c (by simp)
    obtain ⟨it1, hnext, hpart, _, hl⟩ := next_comp it pre c (c2 :: cs) hp hst hc.1 hc.2
    obtain ⟨hl, hp1, hsp1⟩ := hl (by simp)
    cases hch : s.child d c with
    | none => simp [descend, hch] at hd
    | some i =>
      have hd' : descend s i (c2 :: cs) = some j := by simpa [descend, hch] using hd
      have hid : isDirAt s i = true := by
        cases hc2 : s.child i c2 with
        | none => simp [descend, hc2] at hd'
        | some i2 => exact hr_isDir_of_edge hc2
      obtain ⟨md, chd, hgd⟩ := get_of_isDirAt (hr_isDir_of_edge hch)
      obtain ⟨mi, chi, hg⟩ := get_of_isDirAt hid
      have hden := checkPerm_admin md omLookup v hadm
      have hpi := checkPerm_admin mi omLookup v hadm
      have hrec := ih c2 fuel i it1 (pre ++ c ++ [SL]) sl j (fun x hx => hall x (by simp at hx ⊢; exact Or.inr hx))
        hp1 hsp1 (by simp at hf ⊢; omega) hsl hd'
      rw [searchLoop, List.getLast_cons_cons]
      simpa [hnext, hpart, hgd, hden, hch, hg, hl, hpi] using hrec

/-- Lstat by the administrator of the clean absolute path whose components lead down from the root of the view to
    node `j` through directories: the attributes of `j` itself under the last component — also when `j` is a symbolic
    link (dangling or not) -/
theorem lstat_entry {s : Store} {root : Ino} {v : View} (hwf : WF s root)
    (hvr : ∃ m ch, s.get v.root = some (.dir m ch)) (hadm : v.admin = true) (cs : List Bytes)
    (hall : ∀ c ∈ cs, c ≠ [] ∧ ∀ x ∈ c, x ≠ SL) (hdots : ∀ c ∈ cs, c ≠ [DOT] ∧ c ≠ [DOT, DOT])
    (j : Ino) (hd : descend s v.root cs = some j) :
    ∃ i, fillStat s j (cs.getLastD []) = some i ∧ (stat s v (pathOf cs) .lstat).2 = .ok (.info i) := by
  cases cs with
  | nil =>
    simp only [descend, Option.some.injEq] at hd
    subst hd
    obtain ⟨mr, chr, hgr⟩ := hvr
    obtain ⟨i, hi, hst⟩ := stat_root s v .lstat (by simp [hgr])
    exact ⟨i, hi, by simp [pathOf, joinWith, hst]⟩
  | cons c cs =>
    have hfuel := searchFuel_ge s (SL :: joinWith SL (c :: cs))
    have hlen := length_joinWith_ge SL (c :: cs) (fun x hx => (hall x hx).1)
    have h := loop_descend hwf hadm cs c (searchFuel s (SL :: joinWith SL (c :: cs))) v.root
      (Iter.new .linux (SL :: joinWith SL (c :: cs))) [SL] 0 j hall rfl rfl
      (by simp only [List.length_cons] at hlen hfuel ⊢; omega) (by decide) hd
    have hsn : searchNode s v (pathOf (c :: cs)) .lstat =
        searchLoop s v .lstat v.root (searchFuel s (SL :: joinWith SL (c :: cs))) v.root
          (Iter.new .linux (SL :: joinWith SL (c :: cs))) 0 none := by
      unfold searchNode
      simp only [pathOf, abs_joined (c :: cs) v.cwd hall hdots]
    rw [← hsn] at h
    obtain ⟨he, hc, hp⟩ := h
    have hj : (s.get j).isSome = true := by
      have : ∀ (ds : List Bytes) (i : Ino), (s.get i).isSome = true → descend s i ds = some j → (s.get j).isSome = true := by
        intro ds
        induction ds with
        | nil => intro i hi h; simp only [descend, Option.some.injEq] at h; subst h; exact hi
        | cons n ns ih =>
          intro i _ h
          cases hch : s.child i n with
          | none => simp [descend, hch] at h
          | some c' => exact ih c' (hwf.alloc i n c' hch) (by simpa [descend, hch] using h)
      obtain ⟨mr, chr, hgr⟩ := hvr
      exact this (c :: cs) v.root (by simp [hgr]) hd
    obtain ⟨i, hi⟩ := px_fillStat_some s j ((c :: cs).getLast (by simp)) hj
    refine ⟨i, ?_, by simp [stat, he, hc, hp, hi]⟩
    rw [← hi, List.getLastD_eq_getLast?, List.getLast?_eq_some_getLast (by simp)]
    rfl


/-! #### (c) the theorem -/

/-- the nodes at and below `c` in the order of the walk: `below` with the fuel of `Store.tree` -/
def Store.below (s : Store) (c : Ino) : List (List Bytes × Ino) := Avfs.FS.below s (s.next + 1) c

theorem below_head (s : Store) (f : Nat) (i : Ino) : (below s f i).head? = some ([], i) := by
  cases f <;> simp [below]

theorem pathOf_inj {a b : List Bytes} (ha : ∀ c ∈ a, c ≠ [] ∧ ∀ x ∈ c, x ≠ SL) (hb : ∀ c ∈ b, c ≠ [] ∧ ∀ x ∈ c, x ≠ SL)
    (h : pathOf a = pathOf b) : a = b := by
  simp only [pathOf, List.cons.injEq, true_and] at h
  exact joinWith_inj a b ha hb h

/-- (c) With a callback that always continues, WalkDir (administrator, well-formed heap, clean absolute link-free
    root) returns nil and visits `L.map (toVisit s cs)` where `L = s.below c` is
    * exactly the set of (names, node) with `descend s c names = some node`: the root (`[]`) and every entry reachable
      below it, symbolic links as entries (not followed), nothing else;
    * strictly increasing in the lexicographic order of the name lists: pre-order, the entries of every directory in
      byte-wise name order, the root first;
    and no path is visited twice. The unused answers of the callback are `acts.drop L.length`. -/
theorem walkDirTop_all_cont (s : Store) (root : Ino) (v : View) (hwf : WF s root) (hn : NamesOK s) (hdf : DotFree s)
    (hvr : ∃ m ch, s.get v.root = some (.dir m ch)) (hadm : v.admin = true) (vid : Nat) (cs : List Bytes)
    (hall : ∀ c ∈ cs, c ≠ [] ∧ ∀ x ∈ c, x ≠ SL) (hdots : ∀ c ∈ cs, c ≠ [DOT] ∧ c ≠ [DOT, DOT])
    (par c : Ino) (hw : walkPath s v v.root cs = .found par c) (acts : List WAct) (hacts : ∀ a ∈ acts, a = .cont) :
    walkDirTop s v vid (pathOf cs) acts = (⟨acts.drop (s.below c).length, (s.below c).map (toVisit s cs)⟩, .none) ∧
    (∀ ds j, (ds, j) ∈ s.below c ↔ descend s c ds = some j) ∧
    (s.below c).Pairwise (fun x y => compLt x.1 y.1) ∧
    (s.below c).head? = some ([], c) ∧
    (((s.below c).map (toVisit s cs)).map (·.1)).Nodup := by
  obtain ⟨depth, hdepth⟩ := hwf.depth
  have hmem : ∀ ds j, (ds, j) ∈ s.below c ↔ descend s c ds = some j := by
    intro ds j
    constructor
    · exact below_sound s _ c ds j
    · apply below_complete hwf depth hdepth
      intro _
      have := pot_le s depth c
      omega
  have hsorted := below_sorted s (s.next + 1) c
  refine ⟨?_, hmem, hsorted, below_head s _ c, ?_⟩
  · rw [walkDirTop_eq_spec s root v hwf hn hdf hvr hadm vid cs hall hdots par c hw acts]
    have h := spec_cont hn hdf (s.next + 1) c (cs.getLastD []) cs acts hall hdots (ContN.of_all hacts _)
    simp only [specWalkTop, Store.tree, h, Store.below]
    rfl
  · rw [List.map_map]
    unfold List.Nodup
    rw [List.pairwise_map]
    apply List.Pairwise.imp_of_mem _ hsorted
    intro a b ha hb hab heq
    obtain ⟨ga, _⟩ := descend_good hn hdf a.1 c a.2 ((hmem a.1 a.2).1 ha)
    obtain ⟨gb, _⟩ := descend_good hn hdf b.1 c b.2 ((hmem b.1 b.2).1 hb)
    have hall2 : ∀ (l : List Bytes), (∀ x ∈ l, x ≠ [] ∧ ∀ y ∈ x, y ≠ SL) → ∀ x ∈ cs ++ l, x ≠ [] ∧ ∀ y ∈ x, y ≠ SL := by
      intro l hl x hx
      rcases List.mem_append.1 hx with h | h
      · exact hall x h
      · exact hl x h
    have := pathOf_inj (hall2 a.1 ga) (hall2 b.1 gb) (by simpa [toVisit] using heq)
    have hab' : a.1 = b.1 := List.append_cancel_left this
    rw [hab'] at hab
    exact compLt_irrefl _ hab

/-- every visited entry exists, as WalkDir reports it: Lstat of the visited path succeeds and gives the visited kind
    (for every entry: directory, file or symbolic link, dangling or not) -/
theorem visited_lstat (s : Store) (root : Ino) (v : View) (hwf : WF s root) (hn : NamesOK s) (hdf : DotFree s)
    (hvr : ∃ m ch, s.get v.root = some (.dir m ch)) (hadm : v.admin = true) (cs : List Bytes)
    (hall : ∀ c ∈ cs, c ≠ [] ∧ ∀ x ∈ c, x ≠ SL) (hdots : ∀ c ∈ cs, c ≠ [DOT] ∧ c ≠ [DOT, DOT])
    (par c : Ino) (hw : walkPath s v v.root cs = .found par c) (ds : List Bytes) (j : Ino)
    (hd : descend s c ds = some j) :
    ∃ i, (stat s v (pathOf (cs ++ ds)) .lstat).2 = .ok (.info i) ∧ i.kind = kindOf s j := by
  obtain ⟨g1, g2⟩ := descend_good hn hdf ds c j hd
  have hd' : descend s v.root (cs ++ ds) = some j := by
    rw [descend_append, walkPath_found_descend cs v.root par c hw]
    simpa using hd
  obtain ⟨i, hi, hst⟩ := lstat_entry hwf hvr hadm (cs ++ ds)
    (fun x hx => (List.mem_append.1 hx).elim (hall x) (g1 x)) (fun x hx => (List.mem_append.1 hx).elim (hdots x) (g2 x))
    j hd'
  exact ⟨i, hst, (fillStat_kind hi).1⟩

/-- every visited entry that is not a symbolic link exists for `Exists` (which follows links: `pathExists`) -/
theorem visited_exists (s : Store) (root : Ino) (v : View) (hwf : WF s root) (hn : NamesOK s) (hdf : DotFree s)
    (hvr : ∃ m ch, s.get v.root = some (.dir m ch)) (hadm : v.admin = true) (cs : List Bytes)
    (hall : ∀ c ∈ cs, c ≠ [] ∧ ∀ x ∈ c, x ≠ SL) (hdots : ∀ c ∈ cs, c ≠ [DOT] ∧ c ≠ [DOT, DOT])
    (par c : Ino) (hw : walkPath s v v.root cs = .found par c) (ds : List Bytes) (j : Ino)
    (hd : descend s c ds = some j) (hk : kindOf s j ≠ 2) :
    pathExists s v (pathOf (cs ++ ds)) = (true, none) := by
  obtain ⟨g1, g2⟩ := descend_good hn hdf ds c j hd
  have hns : ∀ m l, s.get j ≠ some (.symlink m l) := by
    intro m l h
    exact hk (by simp [kindOf, h])
  obtain ⟨par', hw'⟩ := walkPath_below hwf hadm cs ds par c j hw hd hns
  obtain ⟨i, _, hst⟩ := lstat_found hwf hvr (cs ++ ds)
    (fun x hx => (List.mem_append.1 hx).elim (hall x) (g1 x)) (fun x hx => (List.mem_append.1 hx).elim (hdots x) (g2 x))
    par' j hw' .stat
  simp [pathExists, hst]

/-- `Exists` is not the right notion for a symbolic link: the dangling link "/tmp/d/z" of the concrete heap is visited
    (kind 2) and Lstat finds it, `pathExists` (Stat) does not -/
theorem visited_dangling :
    descend wkStore 0 [[116, 109, 112], [100], [122]] = some 11 ∧ kindOf wkStore 11 = 2 ∧
    pathExists wkStore wkAdm [SL, 116, 109, 112, SL, 100, SL, 122] = (false, none) := by
  decide +kernel


/-! ### (c) one SkipDir on a directory: exactly what is strictly below it is missing -/

/-- `t` is a proper prefix of `ds`: the entry under the names `ds` is strictly below the entry under the names `t` -/
def properPrefix : List Bytes → List Bytes → Bool
  | [], [] => false
  | [], _ :: _ => true
  | _ :: _, [] => false
  | a :: as, b :: bs => a == b && properPrefix as bs

/-- kept when the directory under the names `t` is skipped: whatever is not strictly below it -/
def keepAt (t : List Bytes) (x : List Bytes × Ino) : Bool := !properPrefix t x.1

theorem properPrefix_iff : ∀ (t ds : List Bytes), properPrefix t ds = true ↔ ∃ e, e ≠ [] ∧ ds = t ++ e
  | [], [] => by simp [properPrefix]
  | [], b :: bs => by simp [properPrefix]
  | a :: as, [] => by simp [properPrefix]
  | a :: as, b :: bs => by
    simp only [properPrefix, Bool.and_eq_true, beq_iff_eq, properPrefix_iff as bs, List.cons_append, List.cons.injEq]
    constructor
    · rintro ⟨rfl, e, he, rfl⟩; exact ⟨e, he, rfl, rfl⟩
    · rintro ⟨e, he, rfl, rfl⟩; exact ⟨rfl, e, he, rfl⟩

theorem drop_replicate_append {α} (a : α) (l : List α) (k m : Nat) (h : m ≤ k) :
    (List.replicate k a ++ l).drop m = List.replicate (k - m) a ++ l := by
  rw [List.drop_append_of_le_length (by simpa using h), List.drop_replicate]

theorem contN_replicate (k m : Nat) (l : List WAct) (h : m ≤ k) : ContN m (List.replicate k .cont ++ l) := by
  intro a ha
  rw [List.take_append_of_le_length (by simpa using h)] at ha
  exact (List.mem_replicate.1 (List.mem_of_mem_take ha)).2

/-- the statement of `spec_skip` at fuel `f` -/
def SkipAt (s : Store) (f : Nat) : Prop :=
  ∀ (i : Ino) (name : Bytes) (cs : List Bytes) (k : Nat) (tail : List WAct) (t : List Bytes) (j : Ino),
    (∀ c ∈ cs, c ≠ [] ∧ ∀ x ∈ c, x ≠ SL) → (∀ c ∈ cs, c ≠ [DOT] ∧ c ≠ [DOT, DOT]) →
    (below s f i)[k]? = some (t, j) → isDirAt s j = true → (∀ a ∈ tail, a = .cont) →
    ∃ rest, specWalk (treeOf s f name i) (pathOf cs) (List.replicate k .cont ++ .skipDir :: tail) =
        (((below s f i).filter (keepAt t)).map (toVisit s cs), rest, .none) ∧ ∀ a ∈ rest, a = .cont

theorem specList_skip {s : Store} (hn : NamesOK s) (hdf : DotFree s) (f : Nat) (IH : SkipAt s f) (i : Ino)
    (cs : List Bytes) (hall : ∀ c ∈ cs, c ≠ [] ∧ ∀ x ∈ c, x ≠ SL) (hdots : ∀ c ∈ cs, c ≠ [DOT] ∧ c ≠ [DOT, DOT]) :
    ∀ (L : List Bytes), L.Nodup → ∀ (k : Nat) (tail : List WAct) (t : List Bytes) (j : Ino),
      (L.flatMap (belowChild s (below s f) i))[k]? = some (t, j) → isDirAt s j = true → (∀ a ∈ tail, a = .cont) →
      ∃ rest, specWalkList (L.filterMap fun n => (s.child i n).map fun c => treeOf s f n c) (pathOf cs)
            (List.replicate k .cont ++ .skipDir :: tail) =
          (((L.flatMap (belowChild s (below s f) i)).filter (keepAt t)).map (toVisit s cs), rest, .none) ∧
        ∀ a ∈ rest, a = .cont := by
  intro L
  induction L with
  | nil => intro _ k tail t j h; simp at h
  | cons nm L ih =>
    intro hnd k tail t j hk hj htail
    rw [List.nodup_cons] at hnd
    cases hch : s.child i nm with
    | none =>
      have e1 : belowChild s (below s f) i nm = [] := by simp [belowChild, hch]
      rw [List.flatMap_cons, e1, List.nil_append] at hk ⊢
      simp only [List.filterMap_cons, hch, Option.map_none]
      exact ih hnd.2 k tail t j hk hj htail
    | some c =>
      have e1 : belowChild s (below s f) i nm = (below s f c).map fun x => (nm :: x.1, x.2) := by
        simp [belowChild, hch]
      obtain ⟨hall', hdots'⟩ := good_snoc hn hdf hall hdots hch
      -- the entries of the later names start with another name
      have hother : ∀ x ∈ L.flatMap (belowChild s (below s f) i), ∃ n' r, n' ∈ L ∧ x.1 = n' :: r := by
        intro x hx
        obtain ⟨n', hn', hx⟩ := List.mem_flatMap.1 hx
        obtain ⟨_, y, _, _, rfl⟩ := mem_belowChild.1 hx
        exact ⟨n', y.1, hn', rfl⟩
      rw [List.flatMap_cons, e1] at hk ⊢
      simp only [List.filterMap_cons, hch, Option.map_some]
      rw [specWalkList.eq_2, treeOf_name, join_child cs nm hall' hdots', List.filter_append]
      by_cases hkm : k < (below s f c).length
      · -- the skipped directory is below (or is) the entry `nm`
        rw [List.getElem?_append_left (by simpa using hkm), List.getElem?_map] at hk
        cases hbk : (below s f c)[k]? with
        | none => simp [hbk] at hk
        | some y =>
          simp only [hbk, Option.map_some, Option.some.injEq, Prod.mk.injEq] at hk
          obtain ⟨rfl, rfl⟩ := hk
          obtain ⟨rest1, hsp, hrest1⟩ := IH c nm (cs ++ [nm]) k tail y.1 y.2 hall' hdots' hbk hj htail
          have hl := specList_cont hn hdf f (spec_cont hn hdf f) i cs hall hdots L rest1 (ContN.of_all hrest1 _)
          refine ⟨rest1.drop (L.flatMap (belowChild s (below s f) i)).length, ?_, fun a ha => hrest1 a (List.mem_of_mem_drop ha)⟩
          rw [hsp]
          simp only [hl]
          have ef1 : ((below s f c).map fun x => (nm :: x.1, x.2)).filter (keepAt (nm :: y.1)) =
              ((below s f c).filter (keepAt y.1)).map fun x => (nm :: x.1, x.2) := by
            rw [List.filter_map]
            congr 1
            apply List.filter_congr
            intro x _
            simp [keepAt, properPrefix]
          have ef2 : (L.flatMap (belowChild s (below s f) i)).filter (keepAt (nm :: y.1)) =
              L.flatMap (belowChild s (below s f) i) := by
            rw [List.filter_eq_self]
            intro x hx
            obtain ⟨n', r, hn', hx1⟩ := hother x hx
            have hne : nm ≠ n' := fun e => hnd.1 (e ▸ hn')
            simp [keepAt, hx1, properPrefix, hne]
          rw [ef1, ef2, List.map_append, toVisit_child]
      · -- the entry `nm` and what is below it are walked through; the skipped directory comes later
        have hkm' : (below s f c).length ≤ k := by omega
        rw [List.getElem?_append_right (by simpa using hkm'), List.length_map] at hk
        have hsp := spec_cont hn hdf f c nm (cs ++ [nm]) (List.replicate k .cont ++ .skipDir :: tail) hall' hdots'
          (contN_replicate k _ _ hkm')
        rw [hsp, drop_replicate_append _ _ _ _ hkm']
        obtain ⟨rest, hl, hrest⟩ := ih hnd.2 _ tail t j hk hj htail
        refine ⟨rest, ?_, hrest⟩
        simp only [hl]
        have ef1 : ((below s f c).map fun x => (nm :: x.1, x.2)).filter (keepAt t) =
            (below s f c).map fun x => (nm :: x.1, x.2) := by
          rw [List.filter_eq_self]
          intro x hx
          obtain ⟨y, _, rfl⟩ := List.mem_map.1 hx
          obtain ⟨n', r, hn', ht⟩ := hother _ (List.mem_of_getElem? hk)
          simp only at ht
          have hne : n' ≠ nm := fun e => hnd.1 (e ▸ hn')
          simp [keepAt, ht, properPrefix, hne]
        rw [ef1, List.map_append, toVisit_child]

theorem spec_skip {s : Store} (hn : NamesOK s) (hdf : DotFree s) : ∀ f, SkipAt s f := by
  intro f
  induction f with
  | zero =>
    intro i name cs k tail t j hall hdots hk hj htail
    cases k with
    | succ k => simp [below] at hk
    | zero =>
      simp only [below, List.getElem?_cons_zero, Option.some.injEq, Prod.mk.injEq] at hk
      obtain ⟨rfl, rfl⟩ := hk
      refine ⟨tail, ?_, htail⟩
      rw [treeOf, specWalk.eq_1]
      simp [kindOf_dir.2 hj, below, keepAt, properPrefix, toVisit]
  | succ f IH =>
    intro i name cs k tail t j hall hdots hk hj htail
    cases k with
    | zero =>
      simp only [below, List.getElem?_cons_zero, Option.some.injEq, Prod.mk.injEq] at hk
      obtain ⟨rfl, rfl⟩ := hk
      refine ⟨tail, ?_, htail⟩
      rw [treeOf.eq_2, specWalk.eq_1]
      have ef : ((s.names i).flatMap (belowChild s (below s f) i)).filter (keepAt []) = [] := by
        rw [List.filter_eq_nil_iff]
        intro x hx
        obtain ⟨n', _, hx⟩ := List.mem_flatMap.1 hx
        obtain ⟨_, y, _, _, rfl⟩ := mem_belowChild.1 hx
        simp [keepAt, properPrefix]
      simp [kindOf_dir.2 hj, below, keepAt, properPrefix, toVisit, ef]
    | succ k =>
      simp only [below, List.getElem?_cons_succ] at hk
      have hid : isDirAt s i = true := by
        cases h : isDirAt s i with
        | true => rfl
        | false => simp [names_of_not_dir h] at hk
      obtain ⟨rest, hl, hrest⟩ := specList_skip hn hdf f IH i cs hall hdots (s.names i) (names_nodup s i) k tail t j
        hk hj htail
      refine ⟨rest, ?_, hrest⟩
      obtain ⟨n', _, hx⟩ := List.mem_flatMap.1 (List.mem_of_getElem? hk)
      obtain ⟨_, y, _, _, ht⟩ := mem_belowChild.1 hx
      simp only [Prod.mk.injEq] at ht
      rw [treeOf.eq_2, specWalk.eq_1]
      simp only [List.replicate_succ, List.cons_append, List.headD_cons, List.tail_cons, kindOf_dir.2 hid,
        beq_self_eq_true, if_true, hl, below, List.filter_cons]
      simp [keepAt, ht.1, properPrefix, toVisit, kindOf_dir.2 hid]

/-- (c) One SkipDir, answered at the visit number `k` (counted from 0 in the walk that always continues:
    `(s.below c)[k]`) of a DIRECTORY, every other answer being "continue": WalkDir returns nil and visits exactly the
    entries of the full walk that are not strictly below that directory (`keepAt`, `properPrefix_iff`), in the same
    order. -/
theorem walkDirTop_skipDir (s : Store) (root : Ino) (v : View) (hwf : WF s root) (hn : NamesOK s) (hdf : DotFree s)
    (hvr : ∃ m ch, s.get v.root = some (.dir m ch)) (hadm : v.admin = true) (vid : Nat) (cs : List Bytes)
    (hall : ∀ c ∈ cs, c ≠ [] ∧ ∀ x ∈ c, x ≠ SL) (hdots : ∀ c ∈ cs, c ≠ [DOT] ∧ c ≠ [DOT, DOT])
    (par c : Ino) (hw : walkPath s v v.root cs = .found par c) (k : Nat) (tail : List WAct)
    (htail : ∀ a ∈ tail, a = .cont) (t : List Bytes) (j : Ino) (hk : (s.below c)[k]? = some (t, j))
    (hj : isDirAt s j = true) :
    ∃ rest, walkDirTop s v vid (pathOf cs) (List.replicate k .cont ++ .skipDir :: tail) =
      (⟨rest, ((s.below c).filter (keepAt t)).map (toVisit s cs)⟩, .none) := by
  obtain ⟨rest, hsp, _⟩ := spec_skip hn hdf (s.next + 1) c (cs.getLastD []) cs k tail t j hall hdots hk hj htail
  refine ⟨rest, ?_⟩
  rw [walkDirTop_eq_spec s root v hwf hn hdf hvr hadm vid cs hall hdots par c hw]
  simp only [specWalkTop, Store.tree, hsp, Store.below]
  rfl


/-! ### (c) SkipAll or an error at visit `k`: the walk ends there -/

/-- what WalkDir's recursion hands up for an answer that ends the walk -/
def stopErr : WAct → WErr
  | .skipAll => .skipAll
  | .fail => .fail
  | _ => .none

/-- the statement of `spec_stop` at fuel `f` -/
def StopAt (s : Store) (a : WAct) (f : Nat) : Prop :=
  ∀ (i : Ino) (name : Bytes) (cs : List Bytes) (k : Nat) (tail : List WAct),
    (∀ c ∈ cs, c ≠ [] ∧ ∀ x ∈ c, x ≠ SL) → (∀ c ∈ cs, c ≠ [DOT] ∧ c ≠ [DOT, DOT]) →
    k < (below s f i).length →
    specWalk (treeOf s f name i) (pathOf cs) (List.replicate k .cont ++ a :: tail) =
      (((below s f i).take (k + 1)).map (toVisit s cs), tail, stopErr a)

theorem specList_stop {s : Store} (hn : NamesOK s) (hdf : DotFree s) (a : WAct) (ha : a = .skipAll ∨ a = .fail)
    (f : Nat) (IH : StopAt s a f) (i : Ino)
    (cs : List Bytes) (hall : ∀ c ∈ cs, c ≠ [] ∧ ∀ x ∈ c, x ≠ SL) (hdots : ∀ c ∈ cs, c ≠ [DOT] ∧ c ≠ [DOT, DOT]) :
    ∀ (L : List Bytes) (k : Nat) (tail : List WAct), k < (L.flatMap (belowChild s (below s f) i)).length →
      specWalkList (L.filterMap fun n => (s.child i n).map fun c => treeOf s f n c) (pathOf cs)
          (List.replicate k .cont ++ a :: tail) =
        (((L.flatMap (belowChild s (below s f) i)).take (k + 1)).map (toVisit s cs), tail, stopErr a) := by
  intro L
  induction L with
  | nil => intro k tail h; simp at h
  | cons nm L ih =>
    intro k tail hk
    cases hch : s.child i nm with
    | none =>
      have e1 : belowChild s (below s f) i nm = [] := by simp [belowChild, hch]
      rw [List.flatMap_cons, e1, List.nil_append] at hk ⊢
      simp only [List.filterMap_cons, hch, Option.map_none]
      exact ih k tail hk
    | some c =>
      have e1 : belowChild s (below s f) i nm = (below s f c).map fun x => (nm :: x.1, x.2) := by
        simp [belowChild, hch]
      obtain ⟨hall', hdots'⟩ := good_snoc hn hdf hall hdots hch
      rw [List.flatMap_cons, e1] at hk ⊢
      simp only [List.filterMap_cons, hch, Option.map_some]
      rw [specWalkList.eq_2, treeOf_name, join_child cs nm hall' hdots']
      by_cases hkm : k < (below s f c).length
      · rw [IH c nm (cs ++ [nm]) k tail hall' hdots' hkm]
        rw [List.take_append_of_le_length (by simp; omega), ← List.map_take, toVisit_child]
        rcases ha with rfl | rfl <;> simp [stopErr]
      · have hkm' : (below s f c).length ≤ k := by omega
        have hsp := spec_cont hn hdf f c nm (cs ++ [nm]) (List.replicate k .cont ++ a :: tail) hall' hdots'
          (contN_replicate k _ _ hkm')
        rw [hsp, drop_replicate_append _ _ _ _ hkm']
        simp only [List.length_append, List.length_map] at hk
        have hih := ih (k - (below s f c).length) tail (by omega)
        have e2 : ((below s f c).map (fun x => (nm :: x.1, x.2)) ++ L.flatMap (belowChild s (below s f) i)).take (k + 1) =
            (below s f c).map (fun x => (nm :: x.1, x.2)) ++
              (L.flatMap (belowChild s (below s f) i)).take (k - (below s f c).length + 1) := by
          rw [List.take_append, List.length_map,
            List.take_of_length_le (l := (below s f c).map fun x => (nm :: x.1, x.2)) (by simp; omega)]
          congr 2
          omega
        simp only [hih]
        rw [e2, List.map_append, toVisit_child]

theorem spec_stop {s : Store} (hn : NamesOK s) (hdf : DotFree s) (a : WAct) (ha : a = .skipAll ∨ a = .fail) :
    ∀ f, StopAt s a f := by
  intro f
  induction f with
  | zero =>
    intro i name cs k tail hall hdots hk
    have : k = 0 := by simp [below] at hk; omega
    subst this
    rw [treeOf, specWalk.eq_1]
    rcases ha with rfl | rfl <;> simp [below, toVisit, stopErr]
  | succ f IH =>
    intro i name cs k tail hall hdots hk
    cases k with
    | zero =>
      rw [treeOf.eq_2, specWalk.eq_1]
      rcases ha with rfl | rfl <;> simp [below, toVisit, stopErr]
    | succ k =>
      simp only [below, List.length_cons] at hk
      have hid : isDirAt s i = true := by
        cases h : isDirAt s i with
        | true => rfl
        | false => simp [names_of_not_dir h] at hk
      have hl := specList_stop hn hdf a ha f IH i cs hall hdots (s.names i) k tail (by omega)
      rw [treeOf.eq_2, specWalk.eq_1]
      simp only [List.replicate_succ, List.cons_append, List.headD_cons, List.tail_cons, kindOf_dir.2 hid,
        beq_self_eq_true, if_true, hl, below, List.take_succ_cons, List.map_cons]
      simp [toVisit, kindOf_dir.2 hid]

/-- (c) SkipAll (or an error) answered at visit number `k` of the walk, every earlier answer being "continue": the
    walk ends with that visit — the first `k + 1` entries of the full walk are visited, the later answers are unused,
    and WalkDir returns nil (the error). -/
theorem walkDirTop_stop (s : Store) (root : Ino) (v : View) (hwf : WF s root) (hn : NamesOK s) (hdf : DotFree s)
    (hvr : ∃ m ch, s.get v.root = some (.dir m ch)) (hadm : v.admin = true) (vid : Nat) (cs : List Bytes)
    (hall : ∀ c ∈ cs, c ≠ [] ∧ ∀ x ∈ c, x ≠ SL) (hdots : ∀ c ∈ cs, c ≠ [DOT] ∧ c ≠ [DOT, DOT])
    (par c : Ino) (hw : walkPath s v v.root cs = .found par c) (k : Nat) (tail : List WAct)
    (hk : k < (s.below c).length) :
    walkDirTop s v vid (pathOf cs) (List.replicate k .cont ++ .skipAll :: tail) =
      (⟨tail, ((s.below c).take (k + 1)).map (toVisit s cs)⟩, .none) ∧
    walkDirTop s v vid (pathOf cs) (List.replicate k .cont ++ .fail :: tail) =
      (⟨tail, ((s.below c).take (k + 1)).map (toVisit s cs)⟩, .fail) := by
  have h1 := spec_stop hn hdf .skipAll (Or.inl rfl) (s.next + 1) c (cs.getLastD []) cs k tail hall hdots hk
  have h2 := spec_stop hn hdf .fail (Or.inr rfl) (s.next + 1) c (cs.getLastD []) cs k tail hall hdots hk
  constructor
  · rw [walkDirTop_eq_spec s root v hwf hn hdf hvr hadm vid cs hall hdots par c hw]
    simp only [specWalkTop, Store.tree, h1, Store.below]
    rfl
  · rw [walkDirTop_eq_spec s root v hwf hn hdf hvr hadm vid cs hall hdots par c hw]
    simp only [specWalkTop, Store.tree, h2, Store.below]
    rfl

/-! ### (d) Glob: one directory level -/

/-- insertion sort leaves a sorted list as it is -/
theorem sortBytes_sorted : ∀ (l : List Bytes), l.Pairwise (fun a b => bytesLt a b = true) → sortBytes l = l
  | [], _ => rfl
  | x :: xs, h => by
    rw [List.pairwise_cons] at h
    have ih := sortBytes_sorted xs h.2
    have e : sortBytes (x :: xs) = insertSorted x (sortBytes xs) := rfl
    rw [e, ih]
    cases xs with
    | nil => rfl
    | cons y ys => simp [insertSorted, h.1 y (by simp)]

/-- Split of "dir/pat" when `pat` has no separator -/
theorem split_dir_file (a pat : Bytes) (hp : ∀ x ∈ pat, x ≠ SL) : split .linux (a ++ SL :: pat) = (a ++ [SL], pat) := by
  rw [split_eq_spec]
  have hrev : (a ++ SL :: pat).reverse = pat.reverse ++ SL :: a.reverse := by simp
  have htw : ((a ++ SL :: pat).reverse.takeWhile (· != SL)) = pat.reverse := by
    rw [hrev, takeWhile_append_of_all _ _ _ (fun x hx => by simpa using hp x (List.mem_reverse.1 hx))]
    simp
  simp only [Spec.split, htw, List.reverse_reverse, List.length_reverse, Prod.mk.injEq, and_true]
  have : (a ++ SL :: pat).length - pat.length = (a ++ [SL]).length := by simp; omega
  rw [this, show a ++ SL :: pat = (a ++ [SL]) ++ pat by simp, List.take_left]

theorem hasMeta_append (a b : Bytes) : hasMeta (a ++ b) = (hasMeta a || hasMeta b) := by
  simp [hasMeta, List.any_append]

/-- the loop of glob over the names of one directory, when no name makes the pattern malformed -/
theorem globDir_go (dir pat : Bytes) : ∀ (L acc : List Bytes), (∀ n ∈ L, pmatch .linux pat n ≠ .badPattern) →
    globDir.go dir pat L acc =
      .ok (acc ++ (L.filter fun n => pmatch .linux pat n == .ok true).map fun n => join .linux [dir, n]) := by
  intro L
  induction L with
  | nil => intro acc _; simp [globDir.go]
  | cons n L ih =>
    intro acc h
    have hn := h n (by simp)
    have ih' := fun acc => ih acc (fun x hx => h x (by simp [hx]))
    rw [globDir.go.eq_2]
    cases hm : pmatch .linux pat n with
    | badPattern => exact absurd hm hn
    | panic => exact absurd hm (pmatch_no_panic_linux pat n)
    | ok b =>
      cases b with
      | true => simp [ih', List.filter_cons, hm]
      | false => simp [ih', List.filter_cons, hm]

/-- (d), general form: Glob("dir/pat") is the matching loop of glob over the sorted names of the directory
    (it stops with ErrBadPattern at the first name against which `pat` is found malformed) -/
theorem glob_flat_gen (s : Store) (root : Ino) (v : View) (hwf : WF s root)
    (hvr : ∃ m ch, s.get v.root = some (.dir m ch)) (hadm : v.admin = true) (vid : Nat) (cs : List Bytes)
    (hall : ∀ c ∈ cs, c ≠ [] ∧ ∀ x ∈ c, x ≠ SL) (hdots : ∀ c ∈ cs, c ≠ [DOT] ∧ c ≠ [DOT, DOT])
    (par d : Ino) (hw : walkPath s v v.root cs = .found par d) (hd : isDirAt s d = true)
    (pat : Bytes) (hps : ∀ x ∈ pat, x ≠ SL) (hmeta : hasMeta pat = true) (hdm : hasMeta (pathOf cs) = false)
    (hok : ∃ b, pmatch .linux (pathOf (cs ++ [pat])) [] = .ok b) (fuel : Nat) :
    glob s v vid (fuel + 1) (pathOf (cs ++ [pat])) = globDir.go (pathOf cs) pat (s.names d) [] := by
  obtain ⟨b, hb⟩ := hok
  obtain ⟨m, ch, hg⟩ := get_of_isDirAt hd
  -- the pattern splits into the directory and the name pattern
  have hsplit : ∃ dir0, split .linux (pathOf (cs ++ [pat])) = (dir0, pat) ∧ cleanGlobPath dir0 = pathOf cs := by
    by_cases hcs : cs = []
    · subst hcs
      have : pathOf ([] ++ [pat]) = [] ++ SL :: pat := by simp [pathOf, joinWith]
      rw [this, split_dir_file [] pat hps]
      exact ⟨_, rfl, by simp [cleanGlobPath, pathOf, joinWith]⟩
    · have : pathOf (cs ++ [pat]) = pathOf cs ++ SL :: pat := by simp [pathOf, joinWith_snoc, hcs]
      rw [this, split_dir_file _ pat hps]
      refine ⟨_, rfl, ?_⟩
      have hne : (pathOf cs ++ [SL] == [SL]) = false := by
        cases cs with
        | nil => exact absurd rfl hcs
        | cons c cs' =>
          have := (hall c (by simp)).1
          cases c with
          | nil => exact absurd rfl this
          | cons x xs => cases cs' <;> simp [pathOf, joinWith]
      have hdl : (pathOf cs ++ [SL]).dropLast = pathOf cs := List.dropLast_concat
      have hemp : (pathOf cs ++ [SL]).isEmpty = false := by simp [pathOf]
      simp only [cleanGlobPath, hemp, hne, hdl, Bool.false_eq_true, if_false]
  obtain ⟨dir0, hsp, hcg⟩ := hsplit
  have hpm : hasMeta (pathOf (cs ++ [pat])) = true := by
    by_cases hcs : cs = []
    · subst hcs
      have : pathOf ([] ++ [pat]) = [SL] ++ pat := by simp [pathOf, joinWith]
      rw [this, hasMeta_append, hmeta]; simp
    · have : pathOf (cs ++ [pat]) = (pathOf cs ++ [SL]) ++ pat := by simp [pathOf, joinWith_snoc, hcs]
      rw [this, hasMeta_append, hmeta]; simp
  -- the directory: Stat, Open, Readdirnames
  obtain ⟨i, hi, hst⟩ := lstat_found hwf hvr cs hall hdots par d hw .stat
  have hk : i.kind = 0 := by rw [(fillStat_kind hi).1]; exact kindOf_dir.2 hd
  have hopen := open_found hwf hvr hadm vid cs hall hdots par d hw hd
  have hnames : (fileStep s v (handleOn d (pathOf cs) (toOpenMode 0) vid) (.readdirnames (-1))).2.2.2 =
      .ok (.names (s.names d)) := by
    have hneg : ((-1 : Int) ≤ 0) = True := by simp
    simp only [fileStep, handleOn, pathOf, List.isEmpty_cons, Bool.false_eq_true, if_false, hg, hneg, if_true,
      true_or, decide_true, Bool.true_or]
    unfold dirNamesOf
    by_cases he : (s.names d).isEmpty = true
    · have : s.names d = [] := by simpa using he
      simp [this]
    · simp [he]
  have hdir : globDir s v vid (pathOf cs) pat [] = globDir.go (pathOf cs) pat (s.names d) [] := by
    unfold globDir
    simp only [hst, hk, hopen, hnames, sortBytes_sorted _ (names_sorted s d)]
    simp
  rw [glob]
  simp only [hb, hpm, hsp, hcg, hdm, hdir]
  simp

/-- (d) Glob("dir/pat") for the administrator, `dir` a clean absolute link-free path of a directory without
    metacharacters, `pat` a pattern with metacharacters and without separator that no entry name makes malformed:
    exactly the entries of `dir` whose name matches, as Join(dir, name), in byte-wise name order. -/
theorem glob_flat (s : Store) (root : Ino) (v : View) (hwf : WF s root)
    (hvr : ∃ m ch, s.get v.root = some (.dir m ch)) (hadm : v.admin = true) (vid : Nat) (cs : List Bytes)
    (hall : ∀ c ∈ cs, c ≠ [] ∧ ∀ x ∈ c, x ≠ SL) (hdots : ∀ c ∈ cs, c ≠ [DOT] ∧ c ≠ [DOT, DOT])
    (par d : Ino) (hw : walkPath s v v.root cs = .found par d) (hd : isDirAt s d = true)
    (pat : Bytes) (hps : ∀ x ∈ pat, x ≠ SL) (hmeta : hasMeta pat = true) (hdm : hasMeta (pathOf cs) = false)
    (hok : ∃ b, pmatch .linux (pathOf (cs ++ [pat])) [] = .ok b)
    (hpat : ∀ n ∈ s.names d, pmatch .linux pat n ≠ .badPattern) (fuel : Nat) :
    glob s v vid (fuel + 1) (pathOf (cs ++ [pat])) =
      .ok (((s.names d).filter fun n => pmatch .linux pat n == .ok true).map fun n => join .linux [pathOf cs, n]) := by
  rw [glob_flat_gen s root v hwf hvr hadm vid cs hall hdots par d hw hd pat hps hmeta hdm hok fuel,
    globDir_go _ _ _ _ hpat]
  simp

end Avfs.FS
