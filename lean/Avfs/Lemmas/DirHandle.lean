import Avfs.Lemmas.FileOps
import Avfs.Lemmas.Enum
/-
  C02 (directory handles) — the reference of a directory stream and the refinement theorem.

  os.File documents ReadDir(n) / Readdirnames(n):  n > 0: at most n entries, in directory order, later calls yield later
  entries, at the end (empty, io.EOF);  n ≤ 0: all entries, nil error.  MemFS implements the stream over a SNAPSHOT of
  the sorted listing taken at the first call with n > 0 after a rewind (each of the two methods has its own snapshot),
  and ONE position shared by the two methods;  n ≤ 0 returns a fresh listing and rewinds;  EOF rewinds.

  * `streamStep`  — one method's stream, generic in the kind of entry: (snapshot, position) × listing now × n.
    It is written with `drop`/`take` of the REMAINING entries (the model slices `take stop |>.drop idx`).
  * `queueStep`   — the same stream as a consuming queue of the entries still to be delivered (no position at all);
    `streamRun_eq_queueRun`: a stream used through ONE method is that queue, for all histories.
  * `DirRef` / `dirRefStep` / `dirRefRun` — the two streams of a directory handle sharing the position.
  * `dirStep_refines` / `dirRun_refines` — `fileStep … (.readDir n | .readdirnames n)` is `dirRefStep`, for every store
    seen at every call (the directory changes arbitrarily between the calls), every count, every handle state.
  * invariants of the reference (hence of the model): shapes of the results (no panic, batches non-empty and ≤ n),
    position bound, provenance of snapshots, one-method passes, and what holds when the methods are mixed.
-/
set_option linter.unusedVariables false

namespace Avfs.FS
open Avfs.Path

/-! ## 1. one stream -/

/-- what one call on a stream of `α` delivers -/
inductive Got (α : Type)
  | all (l : List α)      -- n ≤ 0: the whole listing the directory has now
  | batch (l : List α)    -- n > 0: the next entries of the snapshot
  | eof                   -- n > 0 at the end of the snapshot
  deriving DecidableEq, Repr

/-- One call with count `n` on a stream: `snap` is the snapshot (none: rewound), `pos` the position, `cur` the listing
    the directory has at the moment of the call.  Returns the new snapshot, the new position and what is delivered. -/
def streamStep {α : Type} (snap : Option (List α)) (pos : Nat) (cur : List α) (n : Int) :
    Option (List α) × Nat × Got α :=
  if n ≤ 0 then (none, 0, .all cur)                       -- everything, from a fresh listing; rewinds
  else
    let L := snap.getD cur                                -- a rewound stream takes its snapshot now …
    let p := if snap.isSome then pos else 0               -- … and starts at its beginning
    if L.length ≤ p then (none, 0, .eof)                  -- the end: EOF, and the stream rewinds
    else (some L, p + ((L.drop p).take n.toNat).length, .batch ((L.drop p).take n.toNat))

/-- the same stream as a queue of the entries that remain to be delivered (`none`: rewound) -/
def queueStep {α : Type} (rem : Option (List α)) (cur : List α) (n : Int) : Option (List α) × Got α :=
  if n ≤ 0 then (none, .all cur)
  else
    let R := rem.getD cur
    if R.isEmpty then (none, .eof) else (some (R.drop n.toNat), .batch (R.take n.toNat))

/-- a history on one stream: (listing at the moment of the call, count) -/
def streamRun {α : Type} (snap : Option (List α)) (pos : Nat) : List (List α × Int) → Option (List α) × Nat × List (Got α)
  | [] => (snap, pos, [])
  | (cur, n) :: rest =>
    let (snap1, pos1, g) := streamStep snap pos cur n
    let (snap2, pos2, gs) := streamRun snap1 pos1 rest
    (snap2, pos2, g :: gs)

def queueRun {α : Type} (rem : Option (List α)) : List (List α × Int) → Option (List α) × List (Got α)
  | [] => (rem, [])
  | (cur, n) :: rest =>
    let (rem1, g) := queueStep rem cur n
    let (rem2, gs) := queueRun rem1 rest
    (rem2, g :: gs)

/-! ### single-step facts -/

section Stream
variable {α : Type}

theorem streamStep_nonpos (snap : Option (List α)) (pos : Nat) (cur : List α) (n : Int) (hn : n ≤ 0) :
    streamStep snap pos cur n = (none, 0, .all cur) := by
  simp [streamStep, hn]

/-- n > 0 on a rewound stream: the snapshot is the listing of NOW, delivery starts at its beginning -/
theorem streamStep_fresh (pos : Nat) (cur : List α) (n : Int) (hn : 0 < n) :
    streamStep none pos cur n =
      if cur = [] then (none, 0, .eof) else (some cur, (cur.take n.toNat).length, .batch (cur.take n.toNat)) := by
  have h0 : ¬ n ≤ 0 := by omega
  cases cur with
  | nil => simp [streamStep, h0]
  | cons a l => simp [streamStep, h0]

/-- n > 0 on a stream with a snapshot: the listing of now is NOT looked at -/
theorem streamStep_cached (L : List α) (pos : Nat) (cur : List α) (n : Int) (hn : 0 < n) :
    streamStep (some L) pos cur n =
      if L.length ≤ pos then (none, 0, .eof)
      else (some L, pos + ((L.drop pos).take n.toNat).length, .batch ((L.drop pos).take n.toNat)) := by
  have h0 : ¬ n ≤ 0 := by omega
  simp [streamStep, h0]

/-- the snapshot and the start position a call with n > 0 works with -/
def effSnap (snap : Option (List α)) (cur : List α) : List α := snap.getD cur
def effPos (snap : Option (List α)) (pos : Nat) : Nat := if snap.isSome then pos else 0

theorem streamStep_pos (snap : Option (List α)) (pos : Nat) (cur : List α) (n : Int) (hn : 0 < n) :
    streamStep snap pos cur n =
      if (effSnap snap cur).length ≤ effPos snap pos then (none, 0, .eof)
      else (some (effSnap snap cur),
            effPos snap pos + (((effSnap snap cur).drop (effPos snap pos)).take n.toNat).length,
            .batch (((effSnap snap cur).drop (effPos snap pos)).take n.toNat)) := by
  have h0 : ¬ n ≤ 0 := by omega
  simp [streamStep, h0, effSnap, effPos]

/-- everything there is to know about a delivered batch -/
theorem streamStep_batch {snap : Option (List α)} {pos : Nat} {cur : List α} {n : Int} {snap' : Option (List α)}
    {pos' : Nat} {b : List α} (h : streamStep snap pos cur n = (snap', pos', .batch b)) :
    0 < n ∧ b ≠ [] ∧ b.length ≤ n.toNat ∧
    snap' = some (effSnap snap cur) ∧ effPos snap pos < (effSnap snap cur).length ∧
    b = ((effSnap snap cur).drop (effPos snap pos)).take n.toNat ∧
    pos' = effPos snap pos + b.length ∧ pos' ≤ (effSnap snap cur).length ∧
    (effSnap snap cur).take pos' = (effSnap snap cur).take (effPos snap pos) ++ b := by
  by_cases hn : n ≤ 0
  · rw [streamStep_nonpos _ _ _ _ hn] at h; simp at h
  · have hn' : 0 < n := by omega
    rw [streamStep_pos _ _ _ _ hn'] at h
    split at h
    · simp at h
    · rename_i hlt
      simp only [Prod.mk.injEq, Got.batch.injEq] at h
      obtain ⟨h1, h2, h3⟩ := h
      have hlt' : effPos snap pos < (effSnap snap cur).length := by omega
      have hnn : 0 < n.toNat := by omega
      have hlen : b.length = min n.toNat ((effSnap snap cur).length - effPos snap pos) := by
        rw [← h3]; simp
      have h2' : pos' = effPos snap pos + b.length := by rw [← h2, ← h3]
      refine ⟨hn', ?_, ?_, h1.symm, hlt', h3.symm, h2', ?_, ?_⟩
      · intro hb; rw [hb] at hlen; simp at hlen; omega
      · omega
      · omega
      · rw [← h3, ← h2]
        generalize effSnap snap cur = L at *
        generalize effPos snap pos = p at *
        rw [List.length_take, List.length_drop]
        have : (L.drop p).take n.toNat = (L.drop p).take (min n.toNat (L.length - p)) := by
          rw [List.take_eq_take_iff]; simp
        rw [this, List.take_add]

theorem streamStep_eof {snap : Option (List α)} {pos : Nat} {cur : List α} {n : Int} {snap' : Option (List α)}
    {pos' : Nat} (h : streamStep snap pos cur n = (snap', pos', .eof)) :
    0 < n ∧ snap' = none ∧ pos' = 0 ∧ (effSnap snap cur).length ≤ effPos snap pos := by
  by_cases hn : n ≤ 0
  · rw [streamStep_nonpos _ _ _ _ hn] at h; simp at h
  · have hn' : 0 < n := by omega
    rw [streamStep_pos _ _ _ _ hn'] at h
    split at h
    · rename_i hle
      simp only [Prod.mk.injEq] at h
      exact ⟨hn', h.1.symm, h.2.1.symm, hle⟩
    · simp at h

theorem streamStep_all {snap : Option (List α)} {pos : Nat} {cur : List α} {n : Int} {snap' : Option (List α)}
    {pos' : Nat} {l : List α} (h : streamStep snap pos cur n = (snap', pos', .all l)) :
    n ≤ 0 ∧ snap' = none ∧ pos' = 0 ∧ l = cur := by
  by_cases hn : n ≤ 0
  · rw [streamStep_nonpos _ _ _ _ hn] at h
    simp only [Prod.mk.injEq, Got.all.injEq] at h
    exact ⟨hn, h.1.symm, h.2.1.symm, h.2.2.symm⟩
  · have hn' : 0 < n := by omega
    rw [streamStep_pos _ _ _ _ hn'] at h
    split at h <;> simp at h

/-- after any call the position is inside the snapshot the call leaves (0 when it leaves none) -/
theorem streamStep_pos_le (snap : Option (List α)) (pos : Nat) (cur : List α) (n : Int) :
    (streamStep snap pos cur n).2.1 ≤ ((streamStep snap pos cur n).1.getD []).length := by
  by_cases hn : n ≤ 0
  · rw [streamStep_nonpos _ _ _ _ hn]; simp
  · have hn' : 0 < n := by omega
    rw [streamStep_pos _ _ _ _ hn']
    split
    · simp
    · simp; omega

/-- a rewind (`all` or `eof`) leaves exactly the rewound stream: nothing of the past is kept -/
theorem streamStep_rewound {snap : Option (List α)} {pos : Nat} {cur : List α} {n : Int}
    (h : ∀ b, (streamStep snap pos cur n).2.2 ≠ .batch b) :
    (streamStep snap pos cur n).1 = none ∧ (streamStep snap pos cur n).2.1 = 0 := by
  by_cases hn : n ≤ 0
  · rw [streamStep_nonpos _ _ _ _ hn]; simp
  · have hn' : 0 < n := by omega
    rw [streamStep_pos _ _ _ _ hn'] at h ⊢
    split
    · simp
    · rename_i hlt; rw [if_neg hlt] at h; exact absurd rfl (h _)

/-- a snapshot is only ever replaced by `none`, and only ever created from the listing of the moment -/
theorem streamStep_snap (snap : Option (List α)) (pos : Nat) (cur : List α) (n : Int) :
    (streamStep snap pos cur n).1 = none ∨ (streamStep snap pos cur n).1 = some (effSnap snap cur) := by
  by_cases hn : n ≤ 0
  · rw [streamStep_nonpos _ _ _ _ hn]; simp
  · have hn' : 0 < n := by omega
    rw [streamStep_pos _ _ _ _ hn']
    split <;> simp

/-! ### a stream used through one method is a consuming queue -/

/-- the entries still to be delivered -/
def QRel (snap : Option (List α)) (pos : Nat) (rem : Option (List α)) : Prop :=
  match snap with
  | none => rem = none
  | some L => rem = some (L.drop pos)

theorem drop_add_take_length (L : List α) (p k : Nat) :
    L.drop (p + ((L.drop p).take k).length) = (L.drop p).drop k := by
  rw [List.drop_drop, List.length_take, List.length_drop]
  by_cases h : k ≤ L.length - p
  · rw [Nat.min_eq_left h]
  · have h1 : min k (L.length - p) = L.length - p := Nat.min_eq_right (by omega)
    rw [h1, List.drop_eq_nil_of_le (by omega), List.drop_eq_nil_of_le (by omega)]

theorem streamStep_queueStep (snap : Option (List α)) (pos : Nat) (rem : Option (List α)) (cur : List α) (n : Int)
    (hq : QRel snap pos rem) :
    (streamStep snap pos cur n).2.2 = (queueStep rem cur n).2 ∧
    QRel (streamStep snap pos cur n).1 (streamStep snap pos cur n).2.1 (queueStep rem cur n).1 := by
  by_cases hn : n ≤ 0
  · simp [streamStep, queueStep, hn, QRel]
  · have hn' : 0 < n := by omega
    cases snap with
    | none =>
      simp only [QRel] at hq
      subst hq
      rw [streamStep_fresh _ _ _ hn']
      cases cur with
      | nil => simp [queueStep, hn, QRel]
      | cons a l =>
        simp only [queueStep, hn, if_false, Option.getD_none, List.isEmpty_cons, Bool.false_eq_true, reduceCtorEq, QRel]
        refine ⟨trivial, ?_⟩
        have := drop_add_take_length (a :: l) 0 n.toNat
        simp only [Nat.zero_add, List.drop_zero] at this
        rw [this]
    | some L =>
      simp only [QRel] at hq
      subst hq
      rw [streamStep_cached _ _ _ _ hn']
      by_cases hle : L.length ≤ pos
      · have : (L.drop pos).isEmpty = true := by rw [List.drop_eq_nil_of_le hle]; rfl
        simp [queueStep, hn, hle, this, QRel]
      · have : (L.drop pos).isEmpty = false := by
          rw [List.isEmpty_eq_false_iff]; intro h; rw [List.drop_eq_nil_iff] at h; omega
        simp only [queueStep, hn, if_false, hle, Option.getD_some, this, Bool.false_eq_true, QRel]
        exact ⟨trivial, by rw [drop_add_take_length]⟩

/-- for every history: a stream used through one method delivers what the queue delivers -/
theorem streamRun_eq_queueRun (hist : List (List α × Int)) :
    ∀ (snap : Option (List α)) (pos : Nat) (rem : Option (List α)), QRel snap pos rem →
      (streamRun snap pos hist).2.2 = (queueRun rem hist).2 ∧
      QRel (streamRun snap pos hist).1 (streamRun snap pos hist).2.1 (queueRun rem hist).1 := by
  induction hist with
  | nil => intro snap pos rem hq; exact ⟨rfl, hq⟩
  | cons c rest ih =>
    intro snap pos rem hq
    obtain ⟨cur, n⟩ := c
    obtain ⟨h1, h2⟩ := streamStep_queueStep snap pos rem cur n hq
    obtain ⟨i1, i2⟩ := ih _ _ _ h2
    simp only [streamRun, queueRun]
    exact ⟨by rw [h1, i1], i2⟩

/-! ### one pass -/

theorem queueStep_nonpos (rem : Option (List α)) (cur : List α) (n : Int) (hn : n ≤ 0) :
    queueStep rem cur n = (none, .all cur) := by simp [queueStep, hn]

theorem queueStep_empty (rem : Option (List α)) (cur : List α) (n : Int) (hn : 0 < n) (he : rem.getD cur = []) :
    queueStep rem cur n = (none, .eof) := by
  have h0 : ¬ n ≤ 0 := by omega
  simp [queueStep, h0, he]

theorem queueStep_ne (rem : Option (List α)) (cur : List α) (n : Int) (hn : 0 < n) (he : rem.getD cur ≠ []) :
    queueStep rem cur n = (some ((rem.getD cur).drop n.toNat), .batch ((rem.getD cur).take n.toNat)) := by
  have h0 : ¬ n ≤ 0 := by omega
  have h1 : (rem.getD cur).isEmpty = false := by simpa using he
  simp [queueStep, h0, h1]

/-- the batches delivered before the first result that is not a batch -/
def firstPass : List (Got α) → List (List α)
  | .batch b :: rest => b :: firstPass rest
  | _ => []

/-- the sum of the counts of a history -/
def totalCount (hist : List (List α × Int)) : Nat := (hist.map fun c => c.2.toNat).sum

/-- the entries a pass of n > 0 calls starts with: what remains of the snapshot, or the listing at the FIRST call -/
def passEntries (rem : Option (List α)) (hist : List (List α × Int)) : List α :=
  rem.getD ((hist.head?.map (·.1)).getD [])

/-- ONE PASS, one method, counts > 0, the directory changing arbitrarily meanwhile: the batches up to the first EOF,
    put together, are the first `Σ n` entries of the snapshot — in order, none twice, none skipped -/
theorem queue_pass (hist : List (List α × Int)) (hpos : ∀ c ∈ hist, 0 < c.2) :
    ∀ rem : Option (List α),
      (firstPass (queueRun rem hist).2).flatten = (passEntries rem hist).take (totalCount hist) := by
  induction hist with
  | nil => intro rem; simp [queueRun, firstPass, totalCount]
  | cons c rest ih =>
    intro rem
    obtain ⟨cur, n⟩ := c
    have hn : 0 < n := hpos (cur, n) (by simp)
    have hR : passEntries rem ((cur, n) :: rest) = rem.getD cur := by simp [passEntries]
    rw [hR]
    by_cases he : rem.getD cur = []
    · simp [queueRun, queueStep_empty rem cur n hn he, firstPass, he]
    · have hi := ih (fun c hc => hpos c (by simp [hc])) (some ((rem.getD cur).drop n.toNat))
      simp only [queueRun, queueStep_ne rem cur n hn he, firstPass, List.flatten_cons, hi]
      simp only [passEntries, Option.getD_some, totalCount, List.map_cons, List.sum_cons]
      rw [List.take_add]

/-- … and when the pass ends with EOF, they are ALL the entries of the snapshot; the result after the last batch is EOF -/
theorem queue_pass_eof (hist : List (List α × Int)) (hpos : ∀ c ∈ hist, 0 < c.2) :
    ∀ rem : Option (List α), (firstPass (queueRun rem hist).2).length < hist.length →
      (firstPass (queueRun rem hist).2).flatten = passEntries rem hist ∧
      (queueRun rem hist).2[(firstPass (queueRun rem hist).2).length]? = some .eof := by
  induction hist with
  | nil => intro rem h; simp at h
  | cons c rest ih =>
    intro rem hlt
    obtain ⟨cur, n⟩ := c
    have hn : 0 < n := hpos (cur, n) (by simp)
    have hR : passEntries rem ((cur, n) :: rest) = rem.getD cur := by simp [passEntries]
    rw [hR]
    by_cases he : rem.getD cur = []
    · simp [queueRun, queueStep_empty rem cur n hn he, firstPass, he]
    · simp only [queueRun, queueStep_ne rem cur n hn he, firstPass, List.length_cons] at hlt ⊢
      have hi := ih (fun c hc => hpos c (by simp [hc])) (some ((rem.getD cur).drop n.toNat)) (by omega)
      obtain ⟨h1, h2⟩ := hi
      refine ⟨?_, ?_⟩
      · simp only [List.flatten_cons, h1, passEntries, Option.getD_some, List.take_append_drop]
      · simpa using h2

/-- the length of the outputs is the length of the history -/
theorem queueRun_length (hist : List (List α × Int)) : ∀ rem : Option (List α), (queueRun rem hist).2.length = hist.length := by
  induction hist with
  | nil => intro rem; rfl
  | cons c rest ih => intro rem; obtain ⟨cur, n⟩ := c; simp [queueRun, ih]

/-- every batch of any history is non-empty and within its count -/
theorem queue_batches (hist : List (List α × Int)) :
    ∀ (rem : Option (List α)) (k : Nat) (b : List α), (queueRun rem hist).2[k]? = some (.batch b) →
      b ≠ [] ∧ ∃ c, hist[k]? = some c ∧ 0 < c.2 ∧ b.length ≤ c.2.toNat := by
  induction hist with
  | nil => intro rem k b h; simp [queueRun] at h
  | cons c rest ih =>
    intro rem k b h
    obtain ⟨cur, n⟩ := c
    cases k with
    | succ k => simp only [queueRun, List.getElem?_cons_succ] at h ⊢; exact ih _ k b h
    | zero =>
      simp only [queueRun, List.getElem?_cons_zero, Option.some.injEq] at h ⊢
      by_cases hn : n ≤ 0
      · rw [queueStep_nonpos _ _ _ hn] at h; simp at h
      · have hn' : 0 < n := by omega
        by_cases he : rem.getD cur = []
        · rw [queueStep_empty _ _ _ hn' he] at h; simp at h
        · rw [queueStep_ne _ _ _ hn' he] at h
          simp only [Got.batch.injEq] at h
          subst h
          have hl : 0 < (rem.getD cur).length := List.length_pos_iff.mpr he
          refine ⟨?_, (cur, n), rfl, hn', by simp; exact Nat.min_le_left _ _⟩
          intro h0
          have h1 := congrArg List.length h0
          rw [List.length_take, List.length_nil] at h1
          have : 0 < n.toNat := by omega
          omega

end Stream

/-! ## 2. the directory handle: two streams, one position -/

/-- the two calls -/
inductive DirCall
  | readDir (n : Int)
  | readdirnames (n : Int)
  deriving DecidableEq, Repr

def DirCall.toFOp : DirCall → FOp
  | .readDir n => .readDir n
  | .readdirnames n => .readdirnames n

def DirCall.count : DirCall → Int
  | .readDir n => n
  | .readdirnames n => n

/-- what the directory contains at the moment of a call -/
structure DirListing where
  ents : List Info
  names : List Bytes
  deriving DecidableEq, Repr

/-- state of the reference: a snapshot for each method (none: that method's stream is rewound) and THE position -/
structure DirRef where
  ents : Option (List Info)
  names : Option (List Bytes)
  pos : Nat
  deriving DecidableEq, Repr

/-- a handle as `OpenFile` returns it -/
def DirRef.fresh : DirRef := ⟨none, none, 0⟩

/-- results in the vocabulary of the model's outcomes -/
def Got.toOut {α : Type} (mk : List α → Val) : Got α → Out
  | .all l => .ok (mk l)
  | .batch l => .ok (mk l)
  | .eof => .errN 0 [] .eof

/-- One call on the directory handle.  `cur`: the listing the directory has now (`none`: the inode is not a directory).
    Each method runs `streamStep` on ITS snapshot and on the SHARED position; the other snapshot is not touched. -/
def dirRefStep (r : DirRef) (cur : Option DirListing) (c : DirCall) : DirRef × Out :=
  match cur with
  | none => (r, .err .ENOTDIR)
  | some cur =>
    match c with
    | .readDir n =>
      let t := streamStep r.ents r.pos cur.ents n
      ({ r with ents := t.1, pos := t.2.1 }, t.2.2.toOut .infos)
    | .readdirnames n =>
      let t := streamStep r.names r.pos cur.names n
      ({ r with names := t.1, pos := t.2.1 }, t.2.2.toOut .names)

/-- a history: at each call the directory is whatever the other calls have made of it -/
def dirRefRun (r : DirRef) : List (Option DirListing × DirCall) → DirRef × List Out
  | [] => (r, [])
  | (cur, c) :: rest =>
    let (r1, o) := dirRefStep r cur c
    let (r2, os) := dirRefRun r1 rest
    (r2, o :: os)

/-! ### the model side -/

/-- the listing of directory `i` in the heap `s`: sorted names, and their `Info`s (`fillStat` of each child) -/
def dirSeen (s : Store) (i : Ino) : Option DirListing :=
  match s.get i with
  | some (.dir _ _) =>
    some ⟨(s.names i).filterMap fun nm => (s.child i nm).bind fun c => fillStat s c nm, s.names i⟩
  | _ => none

def Handle.dirRef (h : Handle) : DirRef := ⟨h.dirEntries, h.dirNames, h.dirIndex⟩

def Handle.withDir (h : Handle) (r : DirRef) : Handle :=
  { h with dirEntries := r.ents, dirNames := r.names, dirIndex := r.pos }

/-- the same history on the model: the handle `h`, at each call a heap of its own -/
def dirModelRun (v : View) (h : Handle) : List (Store × DirCall) → Handle × List Out
  | [] => (h, [])
  | (s, c) :: rest =>
    let (_, _, h1, o) := fileStep s v h c.toFOp
    let (h2, os) := dirModelRun v h1 rest
    (h2, o :: os)

theorem take_drop_slice {α : Type} (l : List α) (idx k : Nat) :
    (l.take (min (idx + k) l.length)).drop idx = (l.drop idx).take k := by
  rw [List.drop_take]
  rw [List.take_eq_take_iff]
  simp only [List.length_drop]
  omega

theorem dirNamesOf_getD (s : Store) (i : Ino) : (dirNamesOf s i).getD [] = s.names i := by
  unfold dirNamesOf
  by_cases h : (s.names i).isEmpty = true
  · have : s.names i = [] := by simpa using h
    simp [this]
  · simp [h]

/-- the model's slice-and-index arithmetic on ONE method, against `streamStep`
    (`fresh`: the listing as the model stores it — `none` for an empty one) -/
theorem model_stream {α : Type} (snap fresh : Option (List α)) (idx : Nat) (n : Int) (hn : 0 < n) :
    let listing := if snap.isNone then fresh else snap
    let i0 := if snap.isNone then 0 else idx
    let l := listing.getD []
    (if i0 ≥ l.length then ((none : Option (List α)), 0, Got.eof)
      else (listing, min (i0 + n.toNat) l.length, Got.batch ((l.take (min (i0 + n.toNat) l.length)).drop i0))) =
    streamStep snap idx (fresh.getD []) n := by
  intro listing i0 l
  cases snap with
  | some L =>
    simp only [listing, i0, l, Option.isNone_some, Bool.false_eq_true, if_false, Option.getD_some]
    rw [streamStep_cached _ _ _ _ hn]
    by_cases hle : L.length ≤ idx
    · simp [hle]
    · simp only [ge_iff_le, hle, if_false, take_drop_slice]
      congr 2
      simp; omega
  | none =>
    simp only [listing, i0, l, Option.isNone_none, if_true]
    rw [streamStep_fresh _ _ _ hn]
    cases fresh with
    | none => simp
    | some F =>
      cases F with
      | nil => simp
      | cons a F =>
        simp

/-- ONE CALL: `fileStep` on `.readDir n` / `.readdirnames n` is `dirRefStep` on the listing the heap has at that moment;
    the heap and the view are not changed, of the handle only the three stream fields -/
theorem dirStep_refines (s : Store) (v : View) (h : Handle) (i : Ino) (c : DirCall)
    (hn : h.name ≠ []) (hnd : h.nd = some i) :
    fileStep s v h c.toFOp =
      (s, v, h.withDir (dirRefStep h.dirRef (dirSeen s i) c).1, (dirRefStep h.dirRef (dirSeen s i) c).2) := by
  obtain ⟨nd, name, pos, om, de, dn, di, vw⟩ := h
  simp only at hn hnd
  subst hnd
  have hne : name.isEmpty = false := isEmpty_false_of_ne hn
  cases hg : s.get i with
  | none =>
    cases c <;> simp [DirCall.toFOp, fileStep, hne, hg, dirSeen, dirRefStep, Handle.withDir, Handle.dirRef]
  | some nd =>
    cases nd with
    | file m d nl id =>
      cases c <;> simp [DirCall.toFOp, fileStep, hne, hg, dirSeen, dirRefStep, Handle.withDir, Handle.dirRef]
    | symlink m l =>
      cases c <;> simp [DirCall.toFOp, fileStep, hne, hg, dirSeen, dirRefStep, Handle.withDir, Handle.dirRef]
    | dir m ch =>
      have hl : dirSeen s i =
          some ⟨(s.names i).filterMap fun nm => (s.child i nm).bind fun c => fillStat s c nm, s.names i⟩ := by
        simp [dirSeen, hg]
      cases c with
      | readDir n =>
        simp only [DirCall.toFOp, fileStep, hne, hg, hl, dirRefStep, Handle.dirRef, Bool.false_eq_true, if_false]
        by_cases hn0 : n ≤ 0
        · rw [streamStep_nonpos _ _ _ _ hn0]
          simp [hn0, Handle.withDir, Got.toOut, dirEntriesOf_getD]
        · have hn1 : 0 < n := by omega
          have key := model_stream de (dirEntriesOf s i) di n hn1
          simp only [dirEntriesOf_getD] at key
          rw [← key]
          simp only [hn0, decide_false, Bool.false_or, if_false]
          generalize (if de.isNone = true then dirEntriesOf s i else de) = listing
          generalize (if de.isNone = true then 0 else di) = i0
          by_cases hc : (listing.getD []).length ≤ i0 <;> simp [hc, Handle.withDir, Got.toOut]
      | readdirnames n =>
        simp only [DirCall.toFOp, fileStep, hne, hg, hl, dirRefStep, Handle.dirRef, Bool.false_eq_true, if_false]
        by_cases hn0 : n ≤ 0
        · rw [streamStep_nonpos _ _ _ _ hn0]
          simp [hn0, Handle.withDir, Got.toOut, dirNamesOf_getD]
        · have hn1 : 0 < n := by omega
          have key := model_stream dn (dirNamesOf s i) di n hn1
          simp only [dirNamesOf_getD] at key
          rw [← key]
          simp only [hn0, decide_false, Bool.false_or, if_false]
          generalize (if dn.isNone = true then dirNamesOf s i else dn) = listing
          generalize (if dn.isNone = true then 0 else di) = i0
          by_cases hc : (listing.getD []).length ≤ i0 <;> simp [hc, Handle.withDir, Got.toOut]

/-- the heap and the view are never changed by the two calls, whatever the handle (closed, empty name, …) -/
theorem dirStep_frame (s : Store) (v : View) (h : Handle) (c : DirCall) :
    (fileStep s v h c.toFOp).1 = s ∧ (fileStep s v h c.toFOp).2.1 = v := by
  cases c with
  | readDir n =>
    simp only [DirCall.toFOp, fileStep]
    repeat' split
    all_goals exact ⟨rfl, rfl⟩
  | readdirnames n =>
    simp only [DirCall.toFOp, fileStep]
    repeat' split
    all_goals exact ⟨rfl, rfl⟩

@[simp] theorem withDir_dirRef (h : Handle) (r : DirRef) : (h.withDir r).dirRef = r := rfl
@[simp] theorem withDir_withDir (h : Handle) (r r' : DirRef) : (h.withDir r).withDir r' = h.withDir r' := rfl
@[simp] theorem withDir_name (h : Handle) (r : DirRef) : (h.withDir r).name = h.name := rfl
@[simp] theorem withDir_nd (h : Handle) (r : DirRef) : (h.withDir r).nd = h.nd := rfl
theorem withDir_self (h : Handle) : h.withDir h.dirRef = h := rfl

/-- the listings a history of heaps shows for the directory `i` -/
def listingsOf (i : Ino) (hist : List (Store × DirCall)) : List (Option DirListing × DirCall) :=
  hist.map fun sc => (dirSeen sc.1 i, sc.2)

/-- ALL HISTORIES: any sequence of ReadDir / Readdirnames calls with any counts on an open handle of the inode `i`,
    each call on a heap of its own (the directory — and everything else — changes arbitrarily between the calls):
    the model delivers the results of the reference and ends with its snapshots and position -/
theorem dirRun_refines (v : View) (i : Ino) (hist : List (Store × DirCall)) :
    ∀ h : Handle, h.name ≠ [] → h.nd = some i →
      dirModelRun v h hist =
        (h.withDir (dirRefRun h.dirRef (listingsOf i hist)).1, (dirRefRun h.dirRef (listingsOf i hist)).2) := by
  induction hist with
  | nil => intro h _ _; rfl
  | cons sc rest ih =>
    intro h hn hnd
    obtain ⟨s, c⟩ := sc
    have hs := dirStep_refines s v h i c hn hnd
    have hi := ih (h.withDir (dirRefStep h.dirRef (dirSeen s i) c).1) (by simpa using hn) (by simpa using hnd)
    simp only [dirModelRun, hs, hi, listingsOf, List.map_cons, dirRefRun, withDir_dirRef, withDir_withDir]

/-! ### the states of a history -/

theorem dirRefRun_append (pre post : List (Option DirListing × DirCall)) :
    ∀ r : DirRef, dirRefRun r (pre ++ post) =
      ((dirRefRun (dirRefRun r pre).1 post).1, (dirRefRun r pre).2 ++ (dirRefRun (dirRefRun r pre).1 post).2) := by
  induction pre with
  | nil => intro r; rfl
  | cons x pre ih => intro r; obtain ⟨cur, c⟩ := x; simp [dirRefRun, ih]

/-- the state before call number `k` -/
def dirRefAt (r : DirRef) (hist : List (Option DirListing × DirCall)) (k : Nat) : DirRef := (dirRefRun r (hist.take k)).1

theorem dirRefAt_zero (r : DirRef) (hist : List (Option DirListing × DirCall)) : dirRefAt r hist 0 = r := rfl

theorem dirRefAt_succ (r : DirRef) (hist : List (Option DirListing × DirCall)) (k : Nat) (cur : Option DirListing)
    (c : DirCall) (hk : hist[k]? = some (cur, c)) :
    dirRefAt r hist (k + 1) = (dirRefStep (dirRefAt r hist k) cur c).1 := by
  have hlt : k < hist.length := by
    rcases Nat.lt_or_ge k hist.length with h | h
    · exact h
    · rw [List.getElem?_eq_none h] at hk; cases hk
  have ht : hist.take (k + 1) = hist.take k ++ [(cur, c)] := by
    rw [List.take_add_one, hk]; rfl
  simp [dirRefAt, ht, dirRefRun_append, dirRefRun]

theorem dirRefAt_end (r : DirRef) (hist : List (Option DirListing × DirCall)) (k : Nat) (hk : hist.length ≤ k) :
    dirRefAt r hist k = (dirRefRun r hist).1 := by
  simp [dirRefAt, List.take_of_length_le hk]

/-- result number `k` of a history is the step from the state before call `k` -/
theorem dirRefRun_out (r : DirRef) (hist : List (Option DirListing × DirCall)) (k : Nat) (cur : Option DirListing)
    (c : DirCall) (hk : hist[k]? = some (cur, c)) :
    (dirRefRun r hist).2[k]? = some (dirRefStep (dirRefAt r hist k) cur c).2 := by
  have hlt : k < hist.length := by
    rcases Nat.lt_or_ge k hist.length with h | h
    · exact h
    · rw [List.getElem?_eq_none h] at hk; cases hk
  have hsplit : hist = hist.take k ++ (cur, c) :: hist.drop (k + 1) := by
    have h1 : hist.drop k = (cur, c) :: hist.drop (k + 1) := by
      rw [List.drop_eq_getElem_cons hlt]
      rw [List.getElem?_eq_getElem hlt] at hk
      simp only [Option.some.injEq] at hk
      rw [hk]
    rw [← h1, List.take_append_drop]
  have hlen : ∀ (l : List (Option DirListing × DirCall)) (r : DirRef), (dirRefRun r l).2.length = l.length := by
    intro l
    induction l with
    | nil => intro r; rfl
    | cons x l ih => intro r; obtain ⟨a, b⟩ := x; simp [dirRefRun, ih]
  conv => lhs; rw [hsplit]
  rw [dirRefRun_append]
  have h2 : ((dirRefRun r (hist.take k)).2).length = k := by rw [hlen]; simp; omega
  rw [List.getElem?_append_right (by omega), h2]
  simp [dirRefRun, dirRefAt]

theorem dirRefRun_length (hist : List (Option DirListing × DirCall)) :
    ∀ r : DirRef, (dirRefRun r hist).2.length = hist.length := by
  induction hist with
  | nil => intro r; rfl
  | cons x l ih => intro r; obtain ⟨a, b⟩ := x; simp [dirRefRun, ih]

/-! ## 3. invariants -/

/-- the snapshot a call works on, the listing it sees -/
def DirCall.isNames : DirCall → Bool
  | .readDir _ => false
  | .readdirnames _ => true

/-- length of the snapshot of the method of `c` (0: none) -/
def DirRef.snapLen (r : DirRef) (c : DirCall) : Nat :=
  if c.isNames then (r.names.getD []).length else (r.ents.getD []).length

/-- what a call with n ≤ 0 answers: the whole listing of the moment, as that method shows it -/
def DirCall.allOut (c : DirCall) (L : DirListing) : Out :=
  match c with
  | .readDir _ => .ok (.infos L.ents)
  | .readdirnames _ => .ok (.names L.names)

/-- how many entries a result carries -/
def outLen : Out → Option Nat
  | .ok (.infos l) => some l.length
  | .ok (.names l) => some l.length
  | _ => none

def outEOF : Out := .errN 0 [] .eof

theorem dirRefStep_none (r : DirRef) (c : DirCall) : dirRefStep r none c = (r, .err .ENOTDIR) := rfl

theorem dirRefStep_readDir (r : DirRef) (L : DirListing) (n : Int) :
    dirRefStep r (some L) (.readDir n) =
      ({ r with ents := (streamStep r.ents r.pos L.ents n).1, pos := (streamStep r.ents r.pos L.ents n).2.1 },
       (streamStep r.ents r.pos L.ents n).2.2.toOut .infos) := rfl

theorem dirRefStep_readdirnames (r : DirRef) (L : DirListing) (n : Int) :
    dirRefStep r (some L) (.readdirnames n) =
      ({ r with names := (streamStep r.names r.pos L.names n).1, pos := (streamStep r.names r.pos L.names n).2.1 },
       (streamStep r.names r.pos L.names n).2.2.toOut .names) := rfl

/-- a call of one method never touches the snapshot of the other -/
theorem dirRefStep_other (r : DirRef) (cur : Option DirListing) (c : DirCall) :
    (c.isNames = false → (dirRefStep r cur c).1.names = r.names) ∧
    (c.isNames = true → (dirRefStep r cur c).1.ents = r.ents) := by
  cases cur with
  | none => exact ⟨fun _ => rfl, fun _ => rfl⟩
  | some L => cases c <;> simp [DirCall.isNames, dirRefStep]

/-- n ≤ 0: everything the directory contains NOW, whatever the state of the stream; the stream of that method rewinds -/
theorem dirRefStep_all (r : DirRef) (L : DirListing) (c : DirCall) (hc : c.count ≤ 0) :
    dirRefStep r (some L) c =
      match c with
      | .readDir _ => ({ r with ents := none, pos := 0 }, .ok (.infos L.ents))
      | .readdirnames _ => ({ r with names := none, pos := 0 }, .ok (.names L.names)) := by
  cases c with
  | readDir n => simp only [DirCall.count] at hc; rw [dirRefStep_readDir, streamStep_nonpos _ _ _ _ hc]; rfl
  | readdirnames n => simp only [DirCall.count] at hc; rw [dirRefStep_readdirnames, streamStep_nonpos _ _ _ _ hc]; rfl

theorem gotOut_cases {α : Type} (mk : List α → Val) (g : Got α) :
    (∃ l, g = .all l ∧ g.toOut mk = .ok (mk l)) ∨ (∃ l, g = .batch l ∧ g.toOut mk = .ok (mk l)) ∨
    (g = .eof ∧ g.toOut mk = outEOF) := by
  cases g with
  | all l => exact Or.inl ⟨l, rfl, rfl⟩
  | batch l => exact Or.inr (Or.inl ⟨l, rfl, rfl⟩)
  | eof => exact Or.inr (Or.inr ⟨rfl, rfl⟩)

/-- n > 0: EOF, or a batch that is non-empty and has at most n entries -/
theorem dirRefStep_batch (r : DirRef) (L : DirListing) (c : DirCall) (hc : 0 < c.count) :
    (dirRefStep r (some L) c).2 = outEOF ∨
    ∃ m, outLen (dirRefStep r (some L) c).2 = some m ∧ 0 < m ∧ m ≤ c.count.toNat := by
  cases c with
  | readDir n =>
    simp only [DirCall.count] at hc ⊢
    rw [dirRefStep_readDir]
    rcases hg : streamStep r.ents r.pos L.ents n with ⟨snap', pos', g⟩
    cases g with
    | all l => have := (streamStep_all hg).1; omega
    | eof => left; rfl
    | batch b =>
      right
      obtain ⟨_, hne, hle, _⟩ := streamStep_batch hg
      exact ⟨b.length, rfl, List.length_pos_iff.mpr hne, hle⟩
  | readdirnames n =>
    simp only [DirCall.count] at hc ⊢
    rw [dirRefStep_readdirnames]
    rcases hg : streamStep r.names r.pos L.names n with ⟨snap', pos', g⟩
    cases g with
    | all l => have := (streamStep_all hg).1; omega
    | eof => left; rfl
    | batch b =>
      right
      obtain ⟨_, hne, hle, _⟩ := streamStep_batch hg
      exact ⟨b.length, rfl, List.length_pos_iff.mpr hne, hle⟩

/-- the results a directory stream can give: never a panic, never a hang -/
theorem dirRefStep_results (r : DirRef) (cur : Option DirListing) (c : DirCall) :
    (dirRefStep r cur c).2 = .err .ENOTDIR ∨ (dirRefStep r cur c).2 = outEOF ∨
    (∃ l, (dirRefStep r cur c).2 = .ok (.infos l)) ∨ (∃ l, (dirRefStep r cur c).2 = .ok (.names l)) := by
  cases cur with
  | none => left; rfl
  | some L =>
    cases c with
    | readDir n =>
      rw [dirRefStep_readDir]
      rcases gotOut_cases .infos (streamStep r.ents r.pos L.ents n).2.2 with ⟨l, _, h⟩ | ⟨l, _, h⟩ | ⟨_, h⟩
      · exact Or.inr (Or.inr (Or.inl ⟨l, h⟩))
      · exact Or.inr (Or.inr (Or.inl ⟨l, h⟩))
      · exact Or.inr (Or.inl h)
    | readdirnames n =>
      rw [dirRefStep_readdirnames]
      rcases gotOut_cases .names (streamStep r.names r.pos L.names n).2.2 with ⟨l, _, h⟩ | ⟨l, _, h⟩ | ⟨_, h⟩
      · exact Or.inr (Or.inr (Or.inr ⟨l, h⟩))
      · exact Or.inr (Or.inr (Or.inr ⟨l, h⟩))
      · exact Or.inr (Or.inl h)

theorem dirRefStep_no_panic (r : DirRef) (cur : Option DirListing) (c : DirCall) :
    (dirRefStep r cur c).2 ≠ .panic ∧ (dirRefStep r cur c).2 ≠ .hang := by
  rcases dirRefStep_results r cur c with h | h | ⟨l, h⟩ | ⟨l, h⟩ <;> rw [h] <;> simp [outEOF]

/-- THE POSITION after a call of one method lies inside the snapshot that method has then (0 when it has none).
    It is NOT bounded by the snapshot of the other method (`mixed_pos_exceeds_other`). -/
theorem dirRefStep_pos_le (r : DirRef) (L : DirListing) (c : DirCall) :
    (dirRefStep r (some L) c).1.pos ≤ (dirRefStep r (some L) c).1.snapLen c := by
  cases c with
  | readDir n => exact streamStep_pos_le r.ents r.pos L.ents n
  | readdirnames n => exact streamStep_pos_le r.names r.pos L.names n

/-- the position is inside the longer of the two snapshots -/
def PosOK (r : DirRef) : Prop := r.pos ≤ max (r.ents.getD []).length (r.names.getD []).length

theorem posOK_fresh : PosOK DirRef.fresh := by simp [PosOK, DirRef.fresh]

theorem dirRefStep_posOK (r : DirRef) (cur : Option DirListing) (c : DirCall) (h : PosOK r) :
    PosOK (dirRefStep r cur c).1 := by
  cases cur with
  | none => exact h
  | some L =>
    have := dirRefStep_pos_le r L c
    cases c with
    | readDir n => simp only [DirRef.snapLen, DirCall.isNames] at this; simp only [PosOK]; simp at this; omega
    | readdirnames n => simp only [DirRef.snapLen, DirCall.isNames] at this; simp only [PosOK]; simp at this; omega

theorem dirRefRun_posOK (hist : List (Option DirListing × DirCall)) :
    ∀ r : DirRef, PosOK r → PosOK (dirRefRun r hist).1 := by
  induction hist with
  | nil => intro r h; exact h
  | cons x l ih => intro r h; obtain ⟨cur, c⟩ := x; exact ih _ (dirRefStep_posOK r cur c h)

/-- at every point of every history -/
theorem dirRefAt_posOK (r : DirRef) (hist : List (Option DirListing × DirCall)) (k : Nat) (h : PosOK r) :
    PosOK (dirRefAt r hist k) := dirRefRun_posOK _ r h

/-- every result of every history: one of the four kinds; with n > 0 a batch is non-empty and has at most n entries;
    with n ≤ 0 it is the whole listing of the moment -/
theorem dirRefRun_results (r : DirRef) (hist : List (Option DirListing × DirCall)) (k : Nat) (cur : Option DirListing)
    (c : DirCall) (o : Out) (hk : hist[k]? = some (cur, c)) (ho : (dirRefRun r hist).2[k]? = some o) :
    o ≠ .panic ∧ o ≠ .hang ∧
    (cur = none → o = .err .ENOTDIR) ∧
    (∀ L, cur = some L → c.count ≤ 0 → o = c.allOut L) ∧
    (∀ L, cur = some L → 0 < c.count → o = outEOF ∨ ∃ m, outLen o = some m ∧ 0 < m ∧ m ≤ c.count.toNat) := by
  rw [dirRefRun_out r hist k cur c hk] at ho
  simp only [Option.some.injEq] at ho
  subst ho
  refine ⟨(dirRefStep_no_panic _ _ _).1, (dirRefStep_no_panic _ _ _).2, ?_, ?_, ?_⟩
  · intro h; subst h; rfl
  · intro L h hc; subst h; rw [dirRefStep_all _ _ _ hc]; cases c <;> rfl
  · intro L h hc; subst h; exact dirRefStep_batch _ _ _ hc

/-! ### provenance of snapshots -/

theorem prov_gen {α : Type} (σ : Nat → Option (List α)) (born : Nat → Option (List α)) :
    ∀ (k : Nat), (∀ j, j < k → σ (j + 1) = σ j ∨ σ (j + 1) = none ∨ (σ j = none ∧ σ (j + 1) = born j)) →
      ∀ L, σ k = some L →
        (∀ j, j ≤ k → σ j = some L) ∨
        ∃ t, t < k ∧ σ t = none ∧ born t = some L ∧ ∀ j, t < j → j ≤ k → σ j = some L := by
  intro k
  induction k with
  | zero =>
    intro _ L h
    left; intro j hj
    have : j = 0 := by omega
    subst this; exact h
  | succ k ih =>
    intro hstep L h
    rcases hstep k (by omega) with h1 | h1 | ⟨h1, h2⟩
    · rw [h1] at h
      rcases ih (fun j hj => hstep j (by omega)) L h with h3 | ⟨t, ht, h3, h4, h5⟩
      · left; intro j hj
        rcases Nat.lt_or_ge j (k + 1) with hlt | hge
        · exact h3 j (by omega)
        · have : j = k + 1 := by omega
          subst this; rw [h1]; exact h
      · right
        refine ⟨t, by omega, h3, h4, ?_⟩
        intro j hj1 hj2
        rcases Nat.lt_or_ge j (k + 1) with hlt | hge
        · exact h5 j hj1 (by omega)
        · have : j = k + 1 := by omega
          subst this; rw [h1]; exact h
    · rw [h1] at h; cases h
    · right
      refine ⟨k, by omega, h1, by rw [← h2]; exact h, ?_⟩
      intro j hj1 hj2
      have : j = k + 1 := by omega
      subst this; exact h

/-- the snapshot a call of readdirnames with n > 0 on a rewound stream takes: the listing of the moment -/
def bornN (hist : List (Option DirListing × DirCall)) (j : Nat) : Option (List Bytes) :=
  match hist[j]? with
  | some (some L, .readdirnames n) => if 0 < n then some L.names else none
  | _ => none

theorem names_step_kinds (r : DirRef) (hist : List (Option DirListing × DirCall)) (j : Nat) :
    (dirRefAt r hist (j + 1)).names = (dirRefAt r hist j).names ∨ (dirRefAt r hist (j + 1)).names = none ∨
    ((dirRefAt r hist j).names = none ∧ (dirRefAt r hist (j + 1)).names = bornN hist j ∧ (bornN hist j).isSome) := by
  cases hj : hist[j]? with
  | none =>
    have hlen : hist.length ≤ j := by
      rcases Nat.lt_or_ge j hist.length with h | h
      · rw [List.getElem?_eq_getElem h] at hj; cases hj
      · exact h
    left
    rw [dirRefAt_end r hist j hlen, dirRefAt_end r hist (j + 1) (by omega)]
  | some x =>
    obtain ⟨cur, c⟩ := x
    rw [dirRefAt_succ r hist j cur c hj]
    cases cur with
    | none => left; rfl
    | some L =>
      cases c with
      | readDir n => left; rfl
      | readdirnames n =>
        rw [dirRefStep_readdirnames]
        simp only []
        by_cases hn : n ≤ 0
        · right; left; rw [streamStep_nonpos _ _ _ _ hn]
        · have hn' : 0 < n := by omega
          rcases streamStep_snap (dirRefAt r hist j).names (dirRefAt r hist j).pos L.names n with h | h
          · right; left; exact h
          · cases hs : (dirRefAt r hist j).names with
            | some L0 => left; rw [hs] at h; rw [h]; rfl
            | none =>
              right; right
              refine ⟨rfl, ?_, ?_⟩
              · rw [hs] at h; rw [h]; simp [bornN, hj, hn', effSnap]
              · simp [bornN, hj, hn']

/-- PROVENANCE of the readdirnames snapshot, at every point `k` of every history: it was there from the start and has not been
    touched, or it is the listing the directory had at a call `t` of readdirnames with n > 0 that found this method's stream
    REWOUND, and the stream has not been rewound between `t` and `k` — a snapshot is never older than the last rewind -/
theorem names_provenance (r : DirRef) (hist : List (Option DirListing × DirCall)) (k : Nat) (L : List Bytes)
    (h : (dirRefAt r hist k).names = some L) :
    (∀ j, j ≤ k → (dirRefAt r hist j).names = some L) ∨
    ∃ t, t < k ∧ (∃ cur n, hist[t]? = some (some cur, .readdirnames n) ∧ 0 < n ∧ cur.names = L) ∧
      (dirRefAt r hist t).names = none ∧ ∀ j, t < j → j ≤ k → (dirRefAt r hist j).names = some L := by
  have key := prov_gen (fun j => (dirRefAt r hist j).names) (bornN hist) k
    (fun j _ => by
      rcases names_step_kinds r hist j with h | h | ⟨h1, h2, _⟩
      · exact Or.inl h
      · exact Or.inr (Or.inl h)
      · exact Or.inr (Or.inr ⟨h1, h2⟩)) L h
  rcases key with h | ⟨t, ht, h1, h2, h3⟩
  · exact Or.inl h
  · right
    refine ⟨t, ht, ?_, h1, h3⟩
    unfold bornN at h2
    split at h2
    · rename_i L' n hh
      split at h2
      · rename_i hn
        simp only [Option.some.injEq] at h2
        exact ⟨L', n, hh, hn, h2⟩
      · cases h2
    · cases h2

/-- the snapshot a call of readDir with n > 0 on a rewound stream takes: the listing of the moment -/
def bornE (hist : List (Option DirListing × DirCall)) (j : Nat) : Option (List Info) :=
  match hist[j]? with
  | some (some L, .readDir n) => if 0 < n then some L.ents else none
  | _ => none

theorem ents_step_kinds (r : DirRef) (hist : List (Option DirListing × DirCall)) (j : Nat) :
    (dirRefAt r hist (j + 1)).ents = (dirRefAt r hist j).ents ∨ (dirRefAt r hist (j + 1)).ents = none ∨
    ((dirRefAt r hist j).ents = none ∧ (dirRefAt r hist (j + 1)).ents = bornE hist j ∧ (bornE hist j).isSome) := by
  cases hj : hist[j]? with
  | none =>
    have hlen : hist.length ≤ j := by
      rcases Nat.lt_or_ge j hist.length with h | h
      · rw [List.getElem?_eq_getElem h] at hj; cases hj
      · exact h
    left
    rw [dirRefAt_end r hist j hlen, dirRefAt_end r hist (j + 1) (by omega)]
  | some x =>
    obtain ⟨cur, c⟩ := x
    rw [dirRefAt_succ r hist j cur c hj]
    cases cur with
    | none => left; rfl
    | some L =>
      cases c with
      | readdirnames n => left; rfl
      | readDir n =>
        rw [dirRefStep_readDir]
        simp only []
        by_cases hn : n ≤ 0
        · right; left; rw [streamStep_nonpos _ _ _ _ hn]
        · have hn' : 0 < n := by omega
          rcases streamStep_snap (dirRefAt r hist j).ents (dirRefAt r hist j).pos L.ents n with h | h
          · right; left; exact h
          · cases hs : (dirRefAt r hist j).ents with
            | some L0 => left; rw [hs] at h; rw [h]; rfl
            | none =>
              right; right
              refine ⟨rfl, ?_, ?_⟩
              · rw [hs] at h; rw [h]; simp [bornE, hj, hn', effSnap]
              · simp [bornE, hj, hn']

/-- PROVENANCE of the readDir snapshot, at every point `k` of every history: it was there from the start and has not been
    touched, or it is the listing the directory had at a call `t` of readDir with n > 0 that found this method's stream
    REWOUND, and the stream has not been rewound between `t` and `k` — a snapshot is never older than the last rewind -/
theorem ents_provenance (r : DirRef) (hist : List (Option DirListing × DirCall)) (k : Nat) (L : List Info)
    (h : (dirRefAt r hist k).ents = some L) :
    (∀ j, j ≤ k → (dirRefAt r hist j).ents = some L) ∨
    ∃ t, t < k ∧ (∃ cur n, hist[t]? = some (some cur, .readDir n) ∧ 0 < n ∧ cur.ents = L) ∧
      (dirRefAt r hist t).ents = none ∧ ∀ j, t < j → j ≤ k → (dirRefAt r hist j).ents = some L := by
  have key := prov_gen (fun j => (dirRefAt r hist j).ents) (bornE hist) k
    (fun j _ => by
      rcases ents_step_kinds r hist j with h | h | ⟨h1, h2, _⟩
      · exact Or.inl h
      · exact Or.inr (Or.inl h)
      · exact Or.inr (Or.inr ⟨h1, h2⟩)) L h
  rcases key with h | ⟨t, ht, h1, h2, h3⟩
  · exact Or.inl h
  · right
    refine ⟨t, ht, ?_, h1, h3⟩
    unfold bornE at h2
    split at h2
    · rename_i L' n hh
      split at h2
      · rename_i hn
        simp only [Option.some.injEq] at h2
        exact ⟨L', n, hh, hn, h2⟩
      · cases h2
    · cases h2

/-! ### one method: passes -/

theorem queueRun_no_all {α : Type} (hist : List (List α × Int)) (hpos : ∀ c ∈ hist, 0 < c.2) :
    ∀ rem : Option (List α), ∀ g ∈ (queueRun rem hist).2, ∀ l, g ≠ .all l := by
  induction hist with
  | nil => intro rem g hg; simp [queueRun] at hg
  | cons c rest ih =>
    intro rem g hg l
    obtain ⟨cur, n⟩ := c
    have hn : 0 < n := hpos (cur, n) (by simp)
    simp only [queueRun, List.mem_cons] at hg
    rcases hg with hg | hg
    · by_cases he : rem.getD cur = []
      · rw [queueStep_empty _ _ _ hn he] at hg; rw [hg]; simp
      · rw [queueStep_ne _ _ _ hn he] at hg; rw [hg]; simp
    · exact ih (fun c hc => hpos c (by simp [hc])) _ g hg l

/-- the entries a pass starts with: the rest of the snapshot, or (rewound stream) the listing at its first call -/
def passStart {α : Type} (snap : Option (List α)) (pos : Nat) (first : List α) : List α :=
  match snap with
  | some L => L.drop pos
  | none => first

/-- the pass theorems for a stream with a position -/
theorem stream_pass {α : Type} (hist : List (List α × Int)) (hpos : ∀ c ∈ hist, 0 < c.2)
    (snap : Option (List α)) (pos : Nat) :
    let outs := (streamRun snap pos hist).2.2
    let start := passStart snap pos ((hist.head?.map (·.1)).getD [])
    (firstPass outs).flatten = start.take (totalCount hist) ∧
    ((firstPass outs).length < hist.length → (firstPass outs).flatten = start ∧ outs[(firstPass outs).length]? = some .eof) ∧
    (∀ g ∈ outs, ∀ l, g ≠ .all l) := by
  intro outs start
  let rem : Option (List α) := match snap with | some L => some (L.drop pos) | none => none
  have hq : QRel snap pos rem := by cases snap <;> simp [QRel, rem]
  have he := (streamRun_eq_queueRun hist snap pos rem hq).1
  have hstart : start = passEntries rem hist := by cases snap <;> simp [start, rem, passEntries, passStart]
  simp only [outs, he, hstart]
  exact ⟨queue_pass hist hpos rem, queue_pass_eof hist hpos rem, queueRun_no_all hist hpos rem⟩

/-- a history of readdirnames calls only -/
def namesHist (hist : List (DirListing × Int)) : List (Option DirListing × DirCall) :=
  hist.map fun x => (some x.1, .readdirnames x.2)

/-- … is a history of that method's stream; the other snapshot stays as it is -/
theorem dirRefRun_namesHist (hist : List (DirListing × Int)) :
    ∀ r : DirRef, dirRefRun r (namesHist hist) =
      ({ r with names := (streamRun r.names r.pos (hist.map fun x => (x.1.names, x.2))).1,
                pos := (streamRun r.names r.pos (hist.map fun x => (x.1.names, x.2))).2.1 },
       (streamRun r.names r.pos (hist.map fun x => (x.1.names, x.2))).2.2.map (Got.toOut .names)) := by
  induction hist with
  | nil => intro r; rfl
  | cons x rest ih =>
    intro r
    obtain ⟨L, n⟩ := x
    simp only [namesHist, List.map_cons, dirRefRun, dirRefStep_readdirnames, streamRun]
    have := ih { r with names := (streamStep r.names r.pos L.names n).1, pos := (streamStep r.names r.pos L.names n).2.1 }
    simp only [namesHist] at this
    rw [this]

/-- the batches of readdirnames results before the first result that is not one -/
def namesBefore : List Out → List (List Bytes)
  | .ok (.names l) :: rest => l :: namesBefore rest
  | _ => []

theorem namesBefore_map (gs : List (Got Bytes)) (h : ∀ g ∈ gs, ∀ l, g ≠ .all l) :
    namesBefore (gs.map (Got.toOut .names)) = firstPass gs := by
  induction gs with
  | nil => rfl
  | cons g gs ih =>
    cases g with
    | all l => exact absurd rfl (h (.all l) (by simp) l)
    | eof => rfl
    | batch b =>
      simp only [List.map_cons, Got.toOut, namesBefore, firstPass]
      rw [ih (fun g hg => h g (by simp [hg]))]

/-- ONE PASS of readdirnames (counts > 0; the directory changes arbitrarily meanwhile; the OTHER method is not called):
    with `start` the entries the pass starts with — the rest of the snapshot, or the listing at the first call —
    the batches before the first EOF are, put together, the first Σ n entries of `start` (none twice, none skipped, in
    order); when EOF comes, they are all of `start`, and EOF is the result right after the last batch -/
theorem names_pass (hist : List (DirListing × Int)) (hpos : ∀ x ∈ hist, 0 < x.2) (r : DirRef) :
    let outs := (dirRefRun r (namesHist hist)).2
    let start := passStart r.names r.pos ((hist.head?.map (·.1.names)).getD [])
    (namesBefore outs).flatten = start.take (hist.map (·.2.toNat)).sum ∧
    ((namesBefore outs).length < hist.length →
      (namesBefore outs).flatten = start ∧ outs[(namesBefore outs).length]? = some outEOF) := by
  intro outs start
  have hpos' : ∀ c ∈ hist.map (fun x => (x.1.names, x.2)), 0 < c.2 := by
    intro c hc
    obtain ⟨x, hx, rfl⟩ := List.mem_map.mp hc
    exact hpos x hx
  have hsp := stream_pass (hist.map fun x => (x.1.names, x.2)) hpos' r.names r.pos
  simp only [] at hsp
  obtain ⟨h1, h2, h3⟩ := hsp
  have houts : outs = (streamRun r.names r.pos (hist.map fun x => (x.1.names, x.2))).2.2.map (Got.toOut .names) := by
    simp only [outs, dirRefRun_namesHist]
  have hb : namesBefore outs = firstPass (streamRun r.names r.pos (hist.map fun x => (x.1.names, x.2))).2.2 := by
    rw [houts]; exact namesBefore_map _ h3
  have hstart : start = passStart r.names r.pos (((hist.map fun x => (x.1.names, x.2)).head?.map (·.1)).getD []) := by
    simp only [start]
    cases hist <;> rfl
  have htot : totalCount (hist.map fun x => (x.1.names, x.2)) = (hist.map (·.2.toNat)).sum := by
    simp [totalCount, List.map_map, Function.comp_def]
  rw [hb, hstart, ← htot]
  refine ⟨h1, ?_⟩
  intro hlt
  have := h2 (by simpa using hlt)
  refine ⟨this.1, ?_⟩
  rw [houts, List.getElem?_map, this.2]
  rfl

/-- a history of readDir calls only -/
def entsHist (hist : List (DirListing × Int)) : List (Option DirListing × DirCall) :=
  hist.map fun x => (some x.1, .readDir x.2)

/-- … is a history of that method's stream; the other snapshot stays as it is -/
theorem dirRefRun_entsHist (hist : List (DirListing × Int)) :
    ∀ r : DirRef, dirRefRun r (entsHist hist) =
      ({ r with ents := (streamRun r.ents r.pos (hist.map fun x => (x.1.ents, x.2))).1,
                pos := (streamRun r.ents r.pos (hist.map fun x => (x.1.ents, x.2))).2.1 },
       (streamRun r.ents r.pos (hist.map fun x => (x.1.ents, x.2))).2.2.map (Got.toOut .infos)) := by
  induction hist with
  | nil => intro r; rfl
  | cons x rest ih =>
    intro r
    obtain ⟨L, n⟩ := x
    simp only [entsHist, List.map_cons, dirRefRun, dirRefStep_readDir, streamRun]
    have := ih { r with ents := (streamStep r.ents r.pos L.ents n).1, pos := (streamStep r.ents r.pos L.ents n).2.1 }
    simp only [entsHist] at this
    rw [this]

/-- the batches of readDir results before the first result that is not one -/
def entsBefore : List Out → List (List Info)
  | .ok (.infos l) :: rest => l :: entsBefore rest
  | _ => []

theorem entsBefore_map (gs : List (Got Info)) (h : ∀ g ∈ gs, ∀ l, g ≠ .all l) :
    entsBefore (gs.map (Got.toOut .infos)) = firstPass gs := by
  induction gs with
  | nil => rfl
  | cons g gs ih =>
    cases g with
    | all l => exact absurd rfl (h (.all l) (by simp) l)
    | eof => rfl
    | batch b =>
      simp only [List.map_cons, Got.toOut, entsBefore, firstPass]
      rw [ih (fun g hg => h g (by simp [hg]))]

/-- ONE PASS of readDir (counts > 0; the directory changes arbitrarily meanwhile; the OTHER method is not called):
    with `start` the entries the pass starts with — the rest of the snapshot, or the listing at the first call —
    the batches before the first EOF are, put together, the first Σ n entries of `start` (none twice, none skipped, in
    order); when EOF comes, they are all of `start`, and EOF is the result right after the last batch -/
theorem ents_pass (hist : List (DirListing × Int)) (hpos : ∀ x ∈ hist, 0 < x.2) (r : DirRef) :
    let outs := (dirRefRun r (entsHist hist)).2
    let start := passStart r.ents r.pos ((hist.head?.map (·.1.ents)).getD [])
    (entsBefore outs).flatten = start.take (hist.map (·.2.toNat)).sum ∧
    ((entsBefore outs).length < hist.length →
      (entsBefore outs).flatten = start ∧ outs[(entsBefore outs).length]? = some outEOF) := by
  intro outs start
  have hpos' : ∀ c ∈ hist.map (fun x => (x.1.ents, x.2)), 0 < c.2 := by
    intro c hc
    obtain ⟨x, hx, rfl⟩ := List.mem_map.mp hc
    exact hpos x hx
  have hsp := stream_pass (hist.map fun x => (x.1.ents, x.2)) hpos' r.ents r.pos
  simp only [] at hsp
  obtain ⟨h1, h2, h3⟩ := hsp
  have houts : outs = (streamRun r.ents r.pos (hist.map fun x => (x.1.ents, x.2))).2.2.map (Got.toOut .infos) := by
    simp only [outs, dirRefRun_entsHist]
  have hb : entsBefore outs = firstPass (streamRun r.ents r.pos (hist.map fun x => (x.1.ents, x.2))).2.2 := by
    rw [houts]; exact entsBefore_map _ h3
  have hstart : start = passStart r.ents r.pos (((hist.map fun x => (x.1.ents, x.2)).head?.map (·.1)).getD []) := by
    simp only [start]
    cases hist <;> rfl
  have htot : totalCount (hist.map fun x => (x.1.ents, x.2)) = (hist.map (·.2.toNat)).sum := by
    simp [totalCount, List.map_map, Function.comp_def]
  rw [hb, hstart, ← htot]
  refine ⟨h1, ?_⟩
  intro hlt
  have := h2 (by simpa using hlt)
  refine ⟨this.1, ?_⟩
  rw [houts, List.getElem?_map, this.2]
  rfl

/-! ### the two methods mixed on one handle

  The snapshots are per method, the position is shared.  Hence:
  * a call never looks at, and never changes, the snapshot of the other method (`dirRefStep_other`);
  * with both snapshots taken, every call with n > 0 slices ITS OWN snapshot at THE position left by the last call of
    EITHER method (`mixed_cursor`) — the directory's changes play no role;
  * after a call the position is inside the snapshot of the method just called (`dirRefStep_pos_le`), possibly BEYOND the
    end of the other snapshot: the other method then reports EOF (no panic, no out-of-range slice), drops its snapshot and
    rewinds the position — and the first method, whose snapshot stays, delivers it again from the start;
  * the first call (n > 0) of a method whose stream is rewound takes the new snapshot and RESTARTS the position at 0,
    also for the other method (`mixed_restart`): this is where entries get delivered twice or skipped;
  * when the two snapshots show the same directory (same names in the same order), a mixed pass delivers every name
    exactly once, by one method or the other, in order, then EOF (`mixed_pass`).
-/

theorem mixed_cursor (E : List Info) (N : List Bytes) (p : Nat) (cur : DirListing) (c : DirCall) (hc : 0 < c.count) :
    dirRefStep ⟨some E, some N, p⟩ (some cur) c =
      match c with
      | .readDir n =>
        if E.length ≤ p then (⟨none, some N, 0⟩, outEOF)
        else (⟨some E, some N, p + ((E.drop p).take n.toNat).length⟩, .ok (.infos ((E.drop p).take n.toNat)))
      | .readdirnames n =>
        if N.length ≤ p then (⟨some E, none, 0⟩, outEOF)
        else (⟨some E, some N, p + ((N.drop p).take n.toNat).length⟩, .ok (.names ((N.drop p).take n.toNat))) := by
  cases c with
  | readDir n =>
    simp only [DirCall.count] at hc
    rw [dirRefStep_readDir, streamStep_cached _ _ _ _ hc]
    by_cases h : E.length ≤ p <;> simp [h, Got.toOut, outEOF]
  | readdirnames n =>
    simp only [DirCall.count] at hc
    rw [dirRefStep_readdirnames, streamStep_cached _ _ _ _ hc]
    by_cases h : N.length ≤ p <;> simp [h, Got.toOut, outEOF]

/-- the first call with n > 0 of a method whose stream is rewound, while the other method is in the middle of a pass:
    the position restarts at 0 for both -/
theorem mixed_restart (r : DirRef) (cur : DirListing) (n : Int) (hn : 0 < n) :
    (r.names = none → cur.names ≠ [] →
      dirRefStep r (some cur) (.readdirnames n) =
        ({ r with names := some cur.names, pos := (cur.names.take n.toNat).length }, .ok (.names (cur.names.take n.toNat)))) ∧
    (r.ents = none → cur.ents ≠ [] →
      dirRefStep r (some cur) (.readDir n) =
        ({ r with ents := some cur.ents, pos := (cur.ents.take n.toNat).length }, .ok (.infos (cur.ents.take n.toNat)))) := by
  constructor
  · intro h0 hne
    rw [dirRefStep_readdirnames, h0, streamStep_fresh _ _ _ hn]
    simp [hne, Got.toOut]
  · intro h0 hne
    rw [dirRefStep_readDir, h0, streamStep_fresh _ _ _ hn]
    simp [hne, Got.toOut]

/-- the names a result delivers, whichever method; the sequence stops at the first result that is not a batch -/
def deliveredNames : List Out → List (List Bytes)
  | .ok (.infos l) :: rest => l.map (·.name) :: deliveredNames rest
  | .ok (.names l) :: rest => l :: deliveredNames rest
  | _ => []

theorem map_slice {α β : Type} (f : α → β) (S : List α) (p k : Nat) :
    ((S.drop p).take k).map f = ((S.map f).drop p).take k ∧
    ((S.drop p).take k).length = (((S.map f).drop p).take k).length := by
  constructor
  · rw [List.map_take, List.map_drop]
  · simp

/-- A MIXED PASS over two snapshots of the same directory state (`E.map name = N`), both taken, position `p`: any
    interleaving of the two methods with counts > 0, the directory changing arbitrarily meanwhile.  The names delivered
    before the first EOF — as `Info`s by ReadDir, as names by Readdirnames — are, put together, the first Σ n names
    from position `p`: every one exactly once, by one method or the other, in order; EOF comes right after the last -/
theorem mixed_pass (E : List Info) (N : List Bytes) (hEN : E.map (·.name) = N)
    (hist : List (DirListing × DirCall)) (hpos : ∀ x ∈ hist, 0 < x.2.count) :
    ∀ p : Nat,
      let outs := (dirRefRun ⟨some E, some N, p⟩ (hist.map fun x => (some x.1, x.2))).2
      (deliveredNames outs).flatten = (N.drop p).take (hist.map (·.2.count.toNat)).sum ∧
      ((deliveredNames outs).length < hist.length →
        (deliveredNames outs).flatten = N.drop p ∧ outs[(deliveredNames outs).length]? = some outEOF) := by
  have hlen : N.length = E.length := by rw [← hEN]; simp
  induction hist with
  | nil => intro p; simp [dirRefRun, deliveredNames]
  | cons x rest ih =>
    intro p
    obtain ⟨cur, c⟩ := x
    have hc : 0 < c.count := hpos (cur, c) (by simp)
    have ih' := ih (fun x hx => hpos x (by simp [hx]))
    simp only [List.map_cons, dirRefRun]
    rw [mixed_cursor E N p cur c hc]
    cases c with
    | readDir n =>
      have hcnt : (DirCall.readDir n).count = n := rfl
      rw [hcnt] at hc
      simp only [hcnt]
      by_cases hle : E.length ≤ p
      · have hd : N.drop p = [] := List.drop_eq_nil_of_le (by omega)
        simp [hle, deliveredNames, outEOF, hd]
      · simp only [hle, if_false, deliveredNames, List.flatten_cons, List.length_cons, List.sum_cons]
        obtain ⟨hm, hl⟩ := map_slice (·.name) E p n.toNat
        rw [hEN] at hm hl
        rw [hm, hl]
        obtain ⟨i1, i2⟩ := ih' (p + ((N.drop p).take n.toNat).length)
        rw [drop_add_take_length] at i1 i2
        refine ⟨?_, ?_⟩
        · rw [i1, List.take_add]
        · intro hlt
          obtain ⟨j1, j2⟩ := i2 (by omega)
          refine ⟨by rw [j1, List.take_append_drop], ?_⟩
          simpa using j2
    | readdirnames n =>
      have hcnt : (DirCall.readdirnames n).count = n := rfl
      rw [hcnt] at hc
      simp only [hcnt]
      by_cases hle : N.length ≤ p
      · have hd : N.drop p = [] := List.drop_eq_nil_of_le (by omega)
        simp [hle, deliveredNames, outEOF, hd]
      · simp only [hle, if_false, deliveredNames, List.flatten_cons, List.length_cons, List.sum_cons]
        obtain ⟨i1, i2⟩ := ih' (p + ((N.drop p).take n.toNat).length)
        rw [drop_add_take_length] at i1 i2
        refine ⟨?_, ?_⟩
        · rw [i1, List.take_add]
        · intro hlt
          obtain ⟨j1, j2⟩ := i2 (by omega)
          refine ⟨by rw [j1, List.take_append_drop], ?_⟩
          simpa using j2

/-! ### kernel-checked witnesses of what mixing does -/

def wInfo (nm : Bytes) : Info := ⟨nm, 1, 0o644, 0, 0, 1, 0, 0, none⟩
def wListing (names : List Bytes) : DirListing := ⟨names.map wInfo, names⟩
/-- the directory {a, b, c, d, e} -/
def wL5 : DirListing := wListing [[97], [98], [99], [100], [101]]
/-- … later: {x, y} -/
def wL2 : DirListing := wListing [[120], [121]]

/-- DELIVERED TWICE: ReadDir(2), Readdirnames(1), ReadDir(2) on an unchanged directory — the first Readdirnames takes its
    snapshot and restarts the position, so ReadDir delivers b a second time -/
theorem mixed_delivers_twice :
    (dirRefRun .fresh [(some wL5, .readDir 2), (some wL5, .readdirnames 1), (some wL5, .readDir 2)]).2 =
      [.ok (.infos [wInfo [97], wInfo [98]]), .ok (.names [[97]]), .ok (.infos [wInfo [98], wInfo [99]])] := by
  decide

/-- SKIPPED: ReadDir(1), Readdirnames(3), ReadDir(1) — ReadDir delivers a, then d: b and c are never delivered by it in
    this pass -/
theorem mixed_skips :
    (dirRefRun .fresh [(some wL5, .readDir 1), (some wL5, .readdirnames 3), (some wL5, .readDir 1)]).2 =
      [.ok (.infos [wInfo [97]]), .ok (.names [[97], [98], [99]]), .ok (.infos [wInfo [100]])] := by
  decide

/-- THE POSITION BEYOND THE OTHER SNAPSHOT, and a snapshot that outlives a rewind of the position: ReadDir(4) on
    {a..e}; the directory becomes {x, y}; Readdirnames(1) (snapshot [x, y], position 1); ReadDir(3) (position 4 > 2);
    Readdirnames(1): EOF — not a panic —, its snapshot is dropped, the position rewinds, ReadDir's snapshot stays;
    ReadDir(2) then delivers a, b again, from the snapshot of a directory that no longer has them -/
theorem mixed_pos_exceeds_other :
    let hist := [(some wL5, DirCall.readDir 4), (some wL2, .readdirnames 1), (some wL2, .readDir 3),
      (some wL2, .readdirnames 1), (some wL2, .readDir 2)]
    (dirRefRun .fresh hist).2 =
      [.ok (.infos [wInfo [97], wInfo [98], wInfo [99], wInfo [100]]), .ok (.names [[120]]),
       .ok (.infos [wInfo [98], wInfo [99], wInfo [100]]), outEOF, .ok (.infos [wInfo [97], wInfo [98]])] ∧
    dirRefAt .fresh hist 3 = ⟨some wL5.ents, some wL2.names, 4⟩ ∧
    dirRefAt .fresh hist 4 = ⟨some wL5.ents, none, 0⟩ := by
  decide

/-- n ≤ 0 of one method rewinds the position but leaves the other method's snapshot: Readdirnames(2), ReadDir(-1),
    Readdirnames(2) delivers x, y twice -/
theorem mixed_all_keeps_other :
    (dirRefRun .fresh [(some wL2, .readdirnames 1), (some wL5, .readDir (-1)), (some wL5, .readdirnames 1)]).2 =
      [.ok (.names [[120]]), .ok (.infos wL5.ents), .ok (.names [[120]])] := by
  decide

/-! ### the listings of the model -/

theorem fillStat_isSome (s : Store) (c : Ino) (nm : Bytes) : (fillStat s c nm).isSome = (s.get c).isSome := by
  unfold fillStat
  split <;> simp_all

/-- the listing of a directory: names sorted and distinct; the `Info`s are those of the names whose inode is allocated,
    in the same order, each carrying its name -/
theorem dirSeen_facts (s : Store) (i : Ino) (L : DirListing) (h : dirSeen s i = some L) :
    L.names = s.names i ∧ L.names.Nodup ∧ L.names.Pairwise (fun a b => bytesLt a b = true) ∧
    L.ents.map (·.name) = L.names.filter (fun n => ((s.child i n).bind fun c => s.get c).isSome) ∧
    (L.ents.map (·.name)).Nodup := by
  unfold dirSeen at h
  split at h
  · simp only [Option.some.injEq] at h
    subst h
    have hf : (List.filterMap (fun nm => (s.child i nm).bind fun c => fillStat s c nm) (s.names i)).map (·.name) =
        (s.names i).filter (fun n => ((s.child i n).bind fun c => s.get c).isSome) := by
      rw [filterMap_map_name]
      apply List.filter_congr
      intro n _
      cases hc : s.child i n with
      | none => rfl
      | some c => simp [fillStat_isSome]
    refine ⟨rfl, names_nodup s i, names_sorted s i, hf, ?_⟩
    simp only []
    rw [hf]
    exact hr_nodup_filter _ (names_nodup s i)
  · cases h

/-- in a heap where the entries of `i` point at allocated inodes (`WF.alloc`), the two listings show the same names -/
theorem dirSeen_consistent (s : Store) (i : Ino) (L : DirListing) (h : dirSeen s i = some L)
    (halloc : ∀ nm c, s.child i nm = some c → (s.get c).isSome = true) :
    L.ents.map (·.name) = L.names := by
  obtain ⟨h1, _, _, h4, _⟩ := dirSeen_facts s i L h
  rw [h4]
  apply List.filter_eq_self.mpr
  intro n hn
  rw [h1, mem_names] at hn
  cases hc : s.child i n with
  | none => rw [hc] at hn; cases hn
  | some c => simpa using halloc n c hc

/-! ### the pass theorems on the model -/

/-- the listing of `i` (meaningful when `i` is a directory) -/
def theListing (s : Store) (i : Ino) : DirListing :=
  ⟨(s.names i).filterMap fun nm => (s.child i nm).bind fun c => fillStat s c nm, s.names i⟩

theorem dirSeen_dir (s : Store) (i : Ino) (m : Meta) (ch : List (Bytes × Ino)) (hg : s.get i = some (.dir m ch)) :
    dirSeen s i = some (theListing s i) := by
  simp [dirSeen, hg, theListing]

/-- the model, ONE PASS of readdirnames: any handle on the directory `i`, counts > 0, a heap of its own at each call -/
theorem model_names_pass (v : View) (i : Ino) (h : Handle) (hn : h.name ≠ []) (hnd : h.nd = some i)
    (hist : List (Store × Int)) (hdir : ∀ x ∈ hist, ∃ m ch, x.1.get i = some (.dir m ch)) (hpos : ∀ x ∈ hist, 0 < x.2) :
    let outs := (dirModelRun v h (hist.map fun x => (x.1, DirCall.readdirnames x.2))).2
    let start := passStart h.dirNames h.dirIndex ((hist.head?.map fun x => (theListing x.1 i).names).getD [])
    (namesBefore outs).flatten = start.take (hist.map (·.2.toNat)).sum ∧
    ((namesBefore outs).length < hist.length →
      (namesBefore outs).flatten = start ∧ outs[(namesBefore outs).length]? = some outEOF) := by
  intro outs start
  have hl : listingsOf i (hist.map fun x => (x.1, DirCall.readdirnames x.2)) =
      namesHist (hist.map fun x => (theListing x.1 i, x.2)) := by
    simp only [listingsOf, namesHist, List.map_map]
    apply List.map_congr_left
    intro x hx
    obtain ⟨m, ch, hg⟩ := hdir x hx
    simp [dirSeen_dir x.1 i m ch hg]
  have hp := names_pass (hist.map fun x => (theListing x.1 i, x.2))
    (by intro x hx; obtain ⟨y, hy, rfl⟩ := List.mem_map.mp hx; exact hpos y hy) h.dirRef
  simp only [] at hp
  have houts : outs = (dirRefRun h.dirRef (namesHist (hist.map fun x => (theListing x.1 i, x.2)))).2 := by
    simp only [outs, dirRun_refines v i _ h hn hnd, hl]
  have hstart : start = passStart h.dirRef.names h.dirRef.pos
      ((((hist.map fun x => (theListing x.1 i, x.2)).head?).map (·.1.names)).getD []) := by
    simp only [start, Handle.dirRef]
    cases hist <;> rfl
  have hsum : ((hist.map fun x => (theListing x.1 i, x.2)).map (·.2.toNat)).sum = (hist.map (·.2.toNat)).sum := by
    simp [List.map_map, Function.comp_def]
  rw [houts, hstart, ← hsum]
  refine ⟨hp.1, ?_⟩
  intro hlt
  exact hp.2 (by simpa using hlt)

/-- the model, ONE PASS of readDir: any handle on the directory `i`, counts > 0, a heap of its own at each call -/
theorem model_ents_pass (v : View) (i : Ino) (h : Handle) (hn : h.name ≠ []) (hnd : h.nd = some i)
    (hist : List (Store × Int)) (hdir : ∀ x ∈ hist, ∃ m ch, x.1.get i = some (.dir m ch)) (hpos : ∀ x ∈ hist, 0 < x.2) :
    let outs := (dirModelRun v h (hist.map fun x => (x.1, DirCall.readDir x.2))).2
    let start := passStart h.dirEntries h.dirIndex ((hist.head?.map fun x => (theListing x.1 i).ents).getD [])
    (entsBefore outs).flatten = start.take (hist.map (·.2.toNat)).sum ∧
    ((entsBefore outs).length < hist.length →
      (entsBefore outs).flatten = start ∧ outs[(entsBefore outs).length]? = some outEOF) := by
  intro outs start
  have hl : listingsOf i (hist.map fun x => (x.1, DirCall.readDir x.2)) =
      entsHist (hist.map fun x => (theListing x.1 i, x.2)) := by
    simp only [listingsOf, entsHist, List.map_map]
    apply List.map_congr_left
    intro x hx
    obtain ⟨m, ch, hg⟩ := hdir x hx
    simp [dirSeen_dir x.1 i m ch hg]
  have hp := ents_pass (hist.map fun x => (theListing x.1 i, x.2))
    (by intro x hx; obtain ⟨y, hy, rfl⟩ := List.mem_map.mp hx; exact hpos y hy) h.dirRef
  simp only [] at hp
  have houts : outs = (dirRefRun h.dirRef (entsHist (hist.map fun x => (theListing x.1 i, x.2)))).2 := by
    simp only [outs, dirRun_refines v i _ h hn hnd, hl]
  have hstart : start = passStart h.dirRef.ents h.dirRef.pos
      ((((hist.map fun x => (theListing x.1 i, x.2)).head?).map (·.1.ents)).getD []) := by
    simp only [start, Handle.dirRef]
    cases hist <;> rfl
  have hsum : ((hist.map fun x => (theListing x.1 i, x.2)).map (·.2.toNat)).sum = (hist.map (·.2.toNat)).sum := by
    simp [List.map_map, Function.comp_def]
  rw [houts, hstart, ← hsum]
  refine ⟨hp.1, ?_⟩
  intro hlt
  exact hp.2 (by simpa using hlt)

end Avfs.FS
