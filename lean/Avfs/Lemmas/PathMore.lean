import Avfs.Path.Spec
/-
  Further lemmas on the lexical path model (Linux unless stated otherwise).
-/
namespace Avfs.Path

/-! ### Generic list helpers -/

theorem rev_split (f : UInt8 → Bool) (q : Bytes) :
    q = (q.reverse.dropWhile f).reverse ++ (q.reverse.takeWhile f).reverse := by
  have h := congrArg List.reverse (List.takeWhile_append_dropWhile (p := f) (l := q.reverse))
  rw [List.reverse_append, List.reverse_reverse] at h
  exact h.symm

theorem mem_takeWhile_imp {α} {f : α → Bool} {l : List α} {x : α} (h : x ∈ l.takeWhile f) : f x = true := by
  have := List.all_takeWhile (p := f) (l := l)
  rw [List.all_eq_true] at this
  exact this x h

theorem length_rev_tw_le (f : UInt8 → Bool) (q : Bytes) :
    (q.reverse.takeWhile f).length ≤ q.length := by
  have h := congrArg List.length (rev_split f q)
  simp at h
  omega

theorem len_sub_tw (f : UInt8 → Bool) (q : Bytes) :
    q.length - (q.reverse.takeWhile f).length = (q.reverse.dropWhile f).reverse.length := by
  have h := congrArg List.length (rev_split f q)
  simp at h
  simp
  omega

theorem drop_len_sub_tw (f : UInt8 → Bool) (q : Bytes) :
    q.drop (q.length - (q.reverse.takeWhile f).length) = (q.reverse.takeWhile f).reverse := by
  rw [len_sub_tw]
  conv => lhs; arg 2; rw [rev_split f q]
  simp

theorem take_len_sub_tw (f : UInt8 → Bool) (q : Bytes) :
    q.take (q.length - (q.reverse.takeWhile f).length) = (q.reverse.dropWhile f).reverse := by
  rw [len_sub_tw]
  conv => lhs; arg 2; rw [rev_split f q]
  simp

/-! ### 1. Split: the file part has no separator -/

theorem split_linux (p : Bytes) :
    split .linux p =
      ((p.reverse.dropWhile (fun c => !isSep .linux c)).reverse,
       (p.reverse.takeWhile (fun c => !isSep .linux c)).reverse) := by
  simp only [split, volumeName, volumeNameLen, fromSlash, List.take_zero, List.length_nil, lastSepEnd,
    Nat.not_lt_zero, if_false]
  rw [drop_len_sub_tw, take_len_sub_tw]

theorem split_file_nosep (p : Bytes) : ∀ c ∈ (split .linux p).2, c ≠ SL := by
  intro c hc
  rw [split_linux] at hc
  have hm := List.mem_reverse.mp hc
  have := mem_takeWhile_imp hm
  simpa [isSep] using this

/-! ### 2. ToSlash ∘ FromSlash on Windows -/

theorem toSlash_fromSlash_windows (p : Bytes) (h : ∀ c ∈ p, c ≠ BS) :
    toSlash .windows (fromSlash .windows p) = p := by
  induction p with
  | nil => rfl
  | cons c cs ih =>
    have hc : c ≠ BS := h c (by simp)
    have ih' := ih (fun x hx => h x (by simp [hx]))
    simp only [fromSlash, toSlash, List.map_cons, List.map_map] at *
    rw [ih']
    congr 1
    by_cases e : c = SL
    · subst e; simp
    · have e1 : (c == SL) = false := by simpa using e
      have e2 : (c == BS) = false := by simpa using hc
      simp [e1, e2]

/-! ### 3. SplitAbs never panics on an absolute path -/

theorem length_tw_snoc_le {α} (f : α → Bool) (xs : List α) (a : α) (h : f a = false) :
    ((xs ++ [a]).takeWhile f).length ≤ xs.length := by
  induction xs with
  | nil => simp [h]
  | cons x xs ih =>
    simp only [List.cons_append, List.takeWhile_cons]
    split
    · simp only [List.length_cons]; omega
    · simp

theorem splitAbs_abs_linux (p : Bytes) (h : isAbs .linux p = true) :
    (splitAbs .linux p).isSome = true := by
  cases p with
  | nil => simp [isAbs] at h
  | cons c cs =>
    simp only [isAbs] at h
    have hle : (List.takeWhile (fun c => !isSep OS.linux c) (c :: cs).reverse).length ≤ cs.length := by
      rw [List.reverse_cons]
      have := length_tw_snoc_le (fun c => !isSep OS.linux c) cs.reverse c (by simp [isSep, h])
      simpa using this
    simp only [splitAbs]
    generalize (List.takeWhile (fun c => !isSep OS.linux c) (c :: cs).reverse).length = t at hle ⊢
    have hl : (c :: cs).length = cs.length + 1 := rfl
    have hv : volumeNameLen .linux (c :: cs) = 0 := rfl
    rw [if_neg (by omega), if_neg (by omega)]
    rfl

/-! ### 4. Split agrees with the reference semantics -/

theorem split_eq_spec (p : Bytes) : split .linux p = Spec.split p := by
  rw [split_linux]
  simp only [Spec.split]
  have e : (fun c => !isSep OS.linux c) = (fun x : UInt8 => x != SL) := rfl
  rw [e]
  congr 1
  rw [List.length_reverse, take_len_sub_tw]

/-! ### 5. PathIterator laws -/

theorem takeWhile_eq_take {α} (f : α → Bool) (l : List α) : l.takeWhile f = l.take (l.takeWhile f).length :=
  List.prefix_iff_eq_take.mp (List.takeWhile_prefix (l := l) f)

theorem length_takeWhile_le {α} (f : α → Bool) (l : List α) : (l.takeWhile f).length ≤ l.length :=
  (List.takeWhile_prefix (l := l) f).length_le

theorem slice1_some (s : Bytes) (a b : Nat) (h1 : a ≤ b) (h2 : b ≤ s.length) :
    slice1 s a (b + 1) = some ((s.take b).drop a) := by
  simp [slice1, h1, h2]

theorem next_true {it it' : Iter} (h : it.next .linux = (it', true)) :
    it.stop1 < it.path.length ∧
    it' = { it with start := it.stop1,
                    stop1 := it.stop1 + ((it.path.drop it.stop1).takeWhile (· != SL)).length + 1 } := by
  unfold Iter.next at h
  simp only at h
  split at h
  · simp at h
  · rename_i hlt
    injection h with h1 _
    exact ⟨by omega, h1.symm⟩

theorem iter_next_reassemble (it : Iter) (it' : Iter) (h : it.next .linux = (it', true))
    (_hs : it.stop1 ≤ it.path.length + 1) :
    ∃ l pt r, it'.left = some l ∧ it'.part = some pt ∧ it'.right = some r ∧ l ++ pt ++ r = it'.path ∧
      it'.path = it.path ∧ (∀ c ∈ pt, c ≠ SL) := by
  obtain ⟨hlt, rfl⟩ := next_true h
  have hk := length_takeWhile_le (· != SL) (it.path.drop it.stop1)
  rw [List.length_drop] at hk
  have hseg := takeWhile_eq_take (· != SL) (it.path.drop it.stop1)
  generalize hkk : ((it.path.drop it.stop1).takeWhile (· != SL)).length = k at hk hseg ⊢
  refine ⟨it.path.take it.stop1, (it.path.take (it.stop1 + k)).drop it.stop1, it.path.drop (it.stop1 + k),
    ?_, ?_, ?_, ?_, rfl, ?_⟩
  · simp only [Iter.left]
    rw [slice1_some _ _ _ (Nat.zero_le _) (by omega)]; rfl
  · simp only [Iter.part]
    rw [slice1_some _ _ _ (by omega) (by omega)]
  · simp only [Iter.right]
    rw [if_pos (by omega), Nat.add_sub_cancel, slice1_some _ _ _ (by omega) (Nat.le_refl _), List.take_length]
  · show _ = it.path
    rw [List.append_assoc]
    conv => rhs; rw [← List.take_append_drop it.stop1 it.path]
    congr 1
    rw [← List.take_drop, ← List.drop_drop, List.take_append_drop]
  · intro c hc
    rw [← List.take_drop, ← hseg] at hc
    have := mem_takeWhile_imp hc
    simpa using this

theorem iter_next_false (it it' : Iter) (h : it.next .linux = (it', false)) :
    it.stop1 ≥ it.path.length := by
  unfold Iter.next at h
  simp only at h
  split at h
  · assumption
  · simp at h

/-! ### 6. PathIterator yields the parts of an absolute clean path -/

/-- the parts yielded by iterating `Next` (fuel-bounded) -/
def iterParts (os : OS) : Nat → Iter → List Bytes
  | 0, _ => []
  | fuel + 1, it =>
    match it.next os with
    | (it', true) =>
      (match it'.part with
       | some pt => pt :: iterParts os fuel it'
       | none => [])
    | (_, false) => []

theorem takeWhile_append_of_all {α} (f : α → Bool) (c t : List α) (h : ∀ x ∈ c, f x = true) :
    (c ++ t).takeWhile f = c ++ t.takeWhile f := by
  induction c with
  | nil => rfl
  | cons a c ih =>
    have ha : f a = true := h a (by simp)
    simp only [List.cons_append, List.takeWhile_cons, ha, if_true]
    rw [ih (fun x hx => h x (by simp [hx]))]

theorem joinWith_cons_cons (s : UInt8) (e e2 : Bytes) (es : List Bytes) :
    joinWith s (e :: e2 :: es) = e ++ s :: joinWith s (e2 :: es) := rfl

/-- one step of the iterator over `pre ++ c ++ tail` positioned at `pre.length` -/
theorem next_step (it : Iter) (pre c tail : Bytes) (hp : it.path = pre ++ c ++ tail) (hst : it.stop1 = pre.length)
    (hc : c ≠ []) (hns : ∀ x ∈ c, x ≠ SL) (htail : (tail.takeWhile (· != SL)) = []) :
    it.next .linux = ({ it with start := pre.length, stop1 := pre.length + c.length + 1 }, true) ∧
    ({ it with start := pre.length, stop1 := pre.length + c.length + 1 } : Iter).part = some c := by
  have hcl : 0 < c.length := List.length_pos_iff.mpr hc
  have hseg : ((it.path.drop it.stop1).takeWhile (· != SL)) = c := by
    rw [hp, hst, List.append_assoc, List.drop_left]
    rw [takeWhile_append_of_all _ _ _ (by intro x hx; simpa using hns x hx), htail, List.append_nil]
  constructor
  · unfold Iter.next
    simp only
    have : ¬ it.stop1 ≥ it.path.length := by
      rw [hp, hst]; simp only [List.length_append]; omega
    rw [if_neg this]
    show ((⟨it.path, it.stop1, it.stop1 + ((it.path.drop it.stop1).takeWhile (· != SL)).length + 1, it.volLen⟩ : Iter), true) = _
    rw [hseg, hst]
  · simp only [Iter.part]
    rw [slice1_some _ _ _ (by omega) (by rw [hp]; simp only [List.length_append]; omega)]
    rw [hp, ← List.length_append, List.take_left, List.drop_left]

theorem iterParts_gen (cs : List Bytes) : ∀ (fuel : Nat) (it : Iter) (pre : Bytes),
    (∀ c ∈ cs, c ≠ [] ∧ ∀ x ∈ c, x ≠ SL) → cs ≠ [] → it.path = pre ++ joinWith SL cs →
    it.stop1 = pre.length → fuel ≥ cs.length → iterParts .linux fuel it = cs := by
  induction cs with
  | nil => intro _ _ _ _ h; exact absurd rfl h
  | cons c cs ih =>
    intro fuel it pre hall _ hp hst hf
    have hc := hall c (by simp)
    cases fuel with
    | zero => simp at hf
    | succ fuel =>
      cases cs with
      | nil =>
        have hp' : it.path = pre ++ c ++ [] := by simpa [joinWith] using hp
        obtain ⟨h1, h2⟩ := next_step it pre c [] hp' hst hc.1 hc.2 rfl
        simp only [iterParts, h1, h2]
        congr 1
        cases fuel with
        | zero => rfl
        | succ fuel =>
          simp only [iterParts, Iter.next]
          rw [if_pos (by rw [hp']; simp)]
      | cons c2 cs =>
        have hp' : it.path = pre ++ c ++ (SL :: joinWith SL (c2 :: cs)) := by
          rw [hp, joinWith_cons_cons, List.append_assoc]
        obtain ⟨h1, h2⟩ := next_step it pre c _ hp' hst hc.1 hc.2 (by simp)
        simp only [iterParts, h1, h2]
        congr 1
        apply ih fuel _ (pre ++ c ++ [SL]) (fun x hx => hall x (by simp [hx])) (by simp)
        · show it.path = _
          rw [hp']; simp
        · simp only [List.length_append, List.length_cons, List.length_nil]
        · simp only [List.length_cons] at hf ⊢; omega

theorem length_joinWith_ge (s : UInt8) (cs : List Bytes) (h : ∀ c ∈ cs, c ≠ []) :
    cs.length ≤ (joinWith s cs).length + 1 := by
  induction cs with
  | nil => simp
  | cons c cs ih =>
    cases cs with
    | nil => simp [joinWith]
    | cons c2 cs =>
      have := ih (fun x hx => h x (by simp [hx]))
      rw [joinWith_cons_cons]
      simp only [List.length_cons, List.length_append] at this ⊢
      omega

theorem iter_parts (cs : List Bytes) (p : Bytes) (hcs : cs ≠ [])
    (hall : ∀ c ∈ cs, c ≠ [] ∧ ∀ x ∈ c, x ≠ SL) (hp : p = SL :: joinWith SL cs) :
    iterParts .linux (p.length + 1) (Iter.new .linux p) = cs := by
  apply iterParts_gen cs _ _ [SL] hall hcs
  · show p = _
    rw [hp]; rfl
  · rfl
  · have := length_joinWith_ge SL cs (fun c hc => (hall c hc).1)
    rw [hp]; simp only [List.length_cons]; omega

theorem iter_parts_root : iterParts .linux ([SL].length + 1) (Iter.new .linux [SL]) = [] := by
  decide


/-! ### 7. ReplacePart -/

theorem left_eq_some {it : Iter} {l : Bytes} (h : it.left = some l) : l = it.path.take it.start := by
  simp only [Iter.left, slice1] at h
  split at h
  · simpa using h.symm
  · simp at h

theorem replacePart_path (it : Iter) (np : Bytes) (it' : Iter) (rs : Bool)
    (h : it.replacePart .linux np = some (it', rs)) :
    (∃ l r, it.left = some l ∧ it.right = some r ∧
      it'.path = (if isAbs .linux np then join .linux [np, r] else join .linux [l, np, r])) ∧
    (rs = false → it'.path.take it.start = it.path.take it.start ∧ it'.stop1 = it.start) := by
  unfold Iter.replacePart at h
  split at h
  · rename_i right left hr hl
    simp only at h
    generalize hp : (if isAbs OS.linux np = true then join OS.linux [np, right]
      else join OS.linux [left, np, right]) = p' at h
    split at h
    · injection h with h; injection h with h1 h2
      subst h1; subst h2
      exact ⟨⟨left, right, hl, hr, hp.symm⟩, by simp⟩
    · rename_i hc
      injection h with h; injection h with h1 h2
      subst h1; subst h2
      refine ⟨⟨left, right, hl, hr, hp.symm⟩, fun _ => ⟨?_, rfl⟩⟩
      simp at hc
      show List.take it.start p' = _
      rw [hc.2, left_eq_some hl]
  · simp at h


/-! ### 8. Base and Dir agree with the reference semantics -/
section BaseDir
open Spec

theorem dir_eq_spec (p : Bytes) (hclean : ∀ q, clean .linux q = Spec.clean q) :
    dir .linux p = Spec.dir p := by
  have h1 : dir .linux p = clean .linux (split .linux p).1 := by
    simp [dir, split, volumeName, volumeNameLen, fromSlash]
  rw [h1, hclean, split_eq_spec]; rfl

theorem splitSl_ne_nil (p : Bytes) : splitSl p ≠ [] := by
  cases p with
  | nil => simp [splitSl]
  | cons c cs =>
    simp only [splitSl]
    split
    · simp
    · split <;> simp

theorem splitSl_append_sl (a b : Bytes) : splitSl (a ++ SL :: b) = splitSl a ++ splitSl b := by
  induction a with
  | nil => simp [splitSl]
  | cons c a ih =>
    simp only [List.cons_append, splitSl]
    split
    · rw [ih]; rfl
    · rw [ih]
      cases h : splitSl a with
      | nil => exact absurd h (splitSl_ne_nil a)
      | cons x xs => rfl

theorem splitSl_nosep (a : Bytes) (h : ∀ x ∈ a, x ≠ SL) : splitSl a = [a] := by
  induction a with
  | nil => rfl
  | cons c a ih =>
    have hc : (c == SL) = false := by simpa using h c (by simp)
    simp only [splitSl, hc]
    rw [ih (fun x hx => h x (by simp [hx]))]
    rfl

theorem comps_append_sl (a b : Bytes) : comps (a ++ SL :: b) = comps a ++ comps b := by
  simp [comps, splitSl_append_sl]

theorem comps_allsl (a : Bytes) (h : ∀ x ∈ a, x = SL) : comps a = [] := by
  induction a with
  | nil => rfl
  | cons c a ih =>
    have hc : c = SL := h c (by simp)
    subst hc
    have := comps_append_sl [] a
    simp only [List.nil_append] at this
    rw [this, ih (fun x hx => h x (by simp [hx]))]
    rfl

theorem comps_append_allsl (a s : Bytes) (h : ∀ x ∈ s, x = SL) : comps (a ++ s) = comps a := by
  cases s with
  | nil => simp
  | cons c s =>
    have hc : c = SL := h c (by simp)
    subst hc
    rw [comps_append_sl, comps_allsl s (fun x hx => h x (by simp [hx]))]
    simp

theorem comps_nosep (a : Bytes) (h : ∀ x ∈ a, x ≠ SL) (hne : a ≠ []) : comps a = [a] := by
  simp [comps, splitSl_nosep a h, hne]

theorem dropWhile_head_false {α} {f : α → Bool} {l : List α} {x : α} {xs : List α}
    (h : l.dropWhile f = x :: xs) : f x = false := by
  induction l with
  | nil => simp at h
  | cons a l ih =>
    rw [List.dropWhile_cons] at h
    split at h
    · exact ih h
    · rename_i hf
      injection h with h1 _
      subst h1; simpa using hf

theorem base_linux (p : Bytes) : base .linux p =
    if p.isEmpty then [DOT] else
      if (((p.reverse.dropWhile (isSep .linux)).takeWhile (fun c => !isSep .linux c)).reverse).isEmpty then [SL]
      else ((p.reverse.dropWhile (isSep .linux)).takeWhile (fun c => !isSep .linux c)).reverse := by
  simp only [base, volumeName, volumeNameLen, fromSlash, List.take_zero, List.length_nil, List.drop_zero,
    pathSep]
  rw [drop_len_sub_tw, List.reverse_reverse]

theorem base_eq_spec (p : Bytes) : base .linux p = Spec.base p := by
  rw [base_linux]
  unfold Spec.base
  split
  · rfl
  · generalize hR : p.reverse = R
    have hp : p = R.reverse := by rw [← hR, List.reverse_reverse]
    have hT := List.takeWhile_append_dropWhile (p := isSep .linux) (l := R)
    have hTall : ∀ x ∈ (R.takeWhile (isSep .linux)).reverse, x = SL := by
      intro x hx
      have := mem_takeWhile_imp (List.mem_reverse.mp hx)
      simpa [isSep] using this
    generalize hDD : R.dropWhile (isSep .linux) = D at hT
    have hT2 := List.takeWhile_append_dropWhile (p := fun c => !isSep .linux c) (l := D)
    have hT2all : ∀ x ∈ (D.takeWhile (fun c => !isSep .linux c)).reverse, x ≠ SL := by
      intro x hx
      have := mem_takeWhile_imp (List.mem_reverse.mp hx)
      simpa [isSep] using this
    have hpe : p = (D.dropWhile (fun c => !isSep .linux c)).reverse ++
        (D.takeWhile (fun c => !isSep .linux c)).reverse ++ (R.takeWhile (isSep .linux)).reverse := by
      have e1 : R.reverse = D.reverse ++ (R.takeWhile (isSep .linux)).reverse := by
        rw [← List.reverse_append, hT]
      have e2 : D.reverse = (D.dropWhile (fun c => !isSep .linux c)).reverse ++
          (D.takeWhile (fun c => !isSep .linux c)).reverse := by
        rw [← List.reverse_append, hT2]
      rw [hp, e1, e2]
    have hcomps : comps p = comps ((D.dropWhile (fun c => !isSep .linux c)).reverse ++
        (D.takeWhile (fun c => !isSep .linux c)).reverse) := by
      rw [hpe, comps_append_allsl _ _ hTall]
    rw [hcomps]
    by_cases hne : D.takeWhile (fun c => !isSep .linux c) = []
    · -- then D = [] : its head would be neither a separator nor a non-separator
      rw [hne] at hT2
      simp only [List.nil_append] at hT2
      have hDnil : D = [] := by
        cases hD : D with
        | nil => rfl
        | cons d D' =>
          rw [hD] at hDD hT2
          have h1 := dropWhile_head_false hDD
          have h2 := dropWhile_head_false hT2
          simp [h1] at h2
      rw [hDnil]
      rfl
    · have hne' : (D.takeWhile (fun c => !isSep .linux c)).reverse ≠ [] := by simpa using hne
      generalize (D.takeWhile (fun c => !isSep .linux c)).reverse = T2r at *
      have hemp : T2r.isEmpty = false := by simpa using hne'
      rw [hemp]
      cases hD2 : D.dropWhile (fun c => !isSep .linux c) with
      | nil =>
        rw [List.reverse_nil, List.nil_append, comps_nosep _ hT2all hne']
        simp
      | cons d D2 =>
        have hd : d = SL := by
          have := dropWhile_head_false hD2
          simpa [isSep] using this
        subst hd
        rw [List.reverse_cons, List.append_assoc, List.singleton_append, comps_append_sl,
          comps_nosep _ hT2all hne']
        simp


end BaseDir

/-! ### 9. Match never panics -/

theorem decodeRune_size_pos (s : Bytes) (h : s ≠ []) : 1 ≤ (decodeRune s).2 := by
  unfold decodeRune
  split
  · contradiction
  · repeat' split
    all_goals first | (simp; done) | (simp; split <;> simp)

theorem getEsc_ne_panic (os : OS) (chunk : Bytes) : getEsc os chunk ≠ .panic := by
  unfold getEsc
  repeat' split
  all_goals first | (simp; done) | (simp; split <;> simp)

theorem getEsc_ok (os : OS) (chunk : Bytes) (r : Nat) (nc : Bytes) (h : getEsc os chunk = .ok (r, nc)) :
    nc ≠ [] ∧ nc.length < chunk.length := by
  unfold getEsc at h
  split at h
  · simp at h
  · rename_i c rest
    split at h
    · simp at h
    · simp only at h
      split at h
      · simp at h
      · rename_i chunk1 hc1
        have hne : chunk1 ≠ [] ∧ chunk1.length ≤ (c :: rest).length := by
          split at hc1
          · split at hc1
            · simp at hc1
            · rename_i hr
              injection hc1 with hc1; subst hc1
              exact ⟨by simpa using hr, by simp⟩
          · injection hc1 with hc1; subst hc1
            exact ⟨by simp, Nat.le_refl _⟩
        have hpos := decodeRune_size_pos chunk1 hne.1
        generalize decodeRune chunk1 = rn at h hpos
        obtain ⟨r', n⟩ := rn
        simp only at h hpos
        split at h
        · simp at h
        · rename_i hcond
          injection h with h; injection h with h1 h2
          subst h2
          have hl : 0 < chunk1.length := List.length_pos_iff.mpr hne.1
          have hn : n < chunk1.length := by
            have := hcond; simp at this; exact this.2
          refine ⟨by simp; omega, ?_⟩
          rw [List.length_drop]; omega

theorem classLoop_spec (os : OS) (r : Nat) : ∀ (fuel : Nat) (chunk : Bytes) (mt : Bool) (nrange : Nat),
    chunk.length + 1 ≤ fuel →
    classLoop os r fuel chunk mt nrange ≠ .panic ∧
    ∀ m c2, classLoop os r fuel chunk mt nrange = .ok (m, c2) → c2.length < chunk.length := by
  intro fuel
  induction fuel with
  | zero => intro chunk mt nrange h; omega
  | succ fuel ih =>
    intro chunk mt nrange hf
    cases chunk with
    | nil =>
      have : getEsc os [] = .badPattern := rfl
      simp [classLoop, this]
    | cons c rest =>
      simp only [classLoop]
      split
      · refine ⟨by simp, ?_⟩
        intro m c2 h
        injection h with h; injection h with _ h2
        subst h2; simp
      · cases hge : getEsc os (c :: rest) with
        | badPattern => simp
        | panic => exact absurd hge (getEsc_ne_panic _ _)
        | ok a =>
          obtain ⟨lo, chunk1⟩ := a
          obtain ⟨hne, hlt⟩ := getEsc_ok _ _ _ _ hge
          simp only
          cases chunk1 with
          | nil => exact absurd rfl hne
          | cons c1 rest1 =>
            simp only
            split
            · cases hge2 : getEsc os rest1 with
              | badPattern => simp
              | panic => exact absurd hge2 (getEsc_ne_panic _ _)
              | ok a2 =>
                obtain ⟨hi, chunk2⟩ := a2
                obtain ⟨_, hlt2⟩ := getEsc_ok _ _ _ _ hge2
                simp only
                simp only [List.length_cons] at hlt hf
                have := ih chunk2 (mt || (decide (lo ≤ r) && decide (r ≤ hi))) (nrange + 1) (by omega)
                refine ⟨this.1, fun m c2 h => ?_⟩
                have := this.2 m c2 h
                simp only [List.length_cons]; omega
            · simp only [List.length_cons] at hlt hf
              have := ih (c1 :: rest1) (mt || (decide (lo ≤ r) && decide (r ≤ lo))) (nrange + 1)
                (by simp only [List.length_cons]; omega)
              refine ⟨this.1, fun m c2 h => ?_⟩
              have := this.2 m c2 h
              simp only [List.length_cons] at this ⊢; omega


theorem matchChunk_ne_panic (os : OS) : ∀ (fuel : Nat) (chunk s : Bytes) (failed0 : Bool),
    chunk.length + 1 ≤ fuel → matchChunk os fuel chunk s failed0 ≠ .panic := by
  intro fuel
  induction fuel with
  | zero => intro chunk s f h; omega
  | succ fuel ih =>
    intro chunk s failed0 hf
    cases chunk with
    | nil => simp only [matchChunk]; split <;> simp
    | cons c crest =>
      simp only [List.length_cons] at hf
      have key : ∀ (ch1 : Bytes) (r : Nat), ch1.length ≤ crest.length →
          classLoop os r (ch1.length + 2) ch1 false 0 ≠ MOut.panic ∧
          ∀ mt chunk2, classLoop os r (ch1.length + 2) ch1 false 0 = MOut.ok (mt, chunk2) →
            chunk2.length + 1 ≤ fuel := by
        intro ch1 r hle
        have hcl := classLoop_spec os r (ch1.length + 2) ch1 false 0 (by omega)
        refine ⟨hcl.1, fun mt chunk2 h => ?_⟩
        have := hcl.2 mt chunk2 h
        omega
      simp only [matchChunk]
      split
      · -- '['
        rcases crest with _ | ⟨c1, rest1⟩
        · simp only []
          split
          · simp
          · rename_i heq; exact absurd heq (key _ _ (Nat.le_refl _)).1
          · rename_i heq; exact ih _ _ _ ((key _ _ (Nat.le_refl _)).2 _ _ heq)
        · by_cases hcar : (c1 == CARET) = true
          · simp only [hcar, if_true]
            split
            · simp
            · rename_i heq; exact absurd heq (key _ _ (by simp)).1
            · rename_i heq; exact ih _ _ _ ((key _ _ (by simp)).2 _ _ heq)
          · simp only [hcar]
            split
            · simp
            · rename_i heq; exact absurd heq (key _ _ (Nat.le_refl _)).1
            · rename_i heq; exact ih _ _ _ ((key _ _ (Nat.le_refl _)).2 _ _ heq)
      · split
        · -- '?'
          split
          · rename_i hnf
            cases s with
            | nil => simp at hnf
            | cons s0 srest =>
              simp only
              exact ih _ _ _ (by omega)
          · exact ih _ _ _ (by omega)
        · have hL : ∀ (chunkL : Bytes), chunkL ≠ [] → chunkL.length ≤ crest.length + 1 →
            (match chunkL with
              | [] => MOut.panic
              | l0 :: lrest =>
                if (!(failed0 || s == [])) = true then
                  match s with
                  | s0 :: srest => matchChunk os fuel lrest srest (l0 != s0)
                  | [] => MOut.panic
                else matchChunk os fuel lrest s (failed0 || s == [])) ≠ MOut.panic := by
            intro chunkL hne hle
            cases chunkL with
            | nil => exact absurd rfl hne
            | cons l0 lrest =>
              simp only [List.length_cons] at hle
              simp only
              split
              · rename_i hnf
                cases s with
                | nil => simp at hnf
                | cons s0 srest =>
                  simp only
                  exact ih _ _ _ (by omega)
              · exact ih _ _ _ (by omega)
          split
          · simp
          · rename_i chunkL heq
            apply hL
            · split at heq
              · split at heq
                · simp at heq
                · rename_i hne; injection heq with heq; subst heq; simpa using hne
              · injection heq with heq; subst heq; simp
            · split at heq
              · split at heq
                · simp at heq
                · injection heq with heq; subst heq; omega
              · injection heq with heq; subst heq; simp


theorem starScan_ne_panic (os : OS) (chunk : Bytes) (pe : Bool) (name : Bytes) :
    starScan os chunk pe name ≠ .panic := by
  induction name with
  | nil => simp [starScan]
  | cons n0 nrest ih =>
    simp only [starScan]
    split
    · simp
    · split
      · rename_i heq; exact absurd heq (matchChunk_ne_panic os _ _ _ _ (by omega))
      · simp
      · split
        · split
          · exact ih
          · simp
        · exact ih

theorem scan_ge (os : OS) (l : Bytes) (inr : Bool) (acc : Nat) : acc ≤ scanChunk.scan os l inr acc := by
  fun_induction scanChunk.scan os l inr acc
  all_goals first | omega | (subst_vars; omega)

theorem scan_pos (os : OS) (c : UInt8) (l : Bytes) (hc : (c == STAR) = false) (acc : Nat) :
    acc + 1 ≤ scanChunk.scan os (c :: l) false acc := by
  unfold scanChunk.scan
  split
  · cases os
    · simp only
      split
      · have := scan_ge .linux ‹_› false (acc + 2); omega
      · omega
    · exact scan_ge _ _ _ _
  · split
    · exact scan_ge _ _ _ _
    · split
      · exact scan_ge _ _ _ _
      · rw [hc]
        exact scan_ge _ _ _ _

theorem scanChunk_rest_lt (os : OS) (pattern : Bytes) (h : pattern ≠ []) :
    (scanChunk os pattern).2.2.length < pattern.length := by
  simp only [scanChunk]
  have hle := length_dropWhile_le (· == STAR) pattern
  rw [List.length_drop]
  cases hp1 : pattern.dropWhile (· == STAR) with
  | nil =>
    have : 0 < pattern.length := List.length_pos_iff.mpr h
    simp; omega
  | cons c l =>
    have hc : (c == STAR) = false := dropWhile_head_false (f := (· == STAR)) hp1
    have := scan_pos os c l hc 0
    rw [hp1] at hle
    simp only [List.length_cons] at hle ⊢
    omega

theorem matchLoop_ne_panic (os : OS) : ∀ (fuel : Nat) (pattern name : Bytes),
    pattern.length + 1 ≤ fuel → matchLoop os fuel pattern name ≠ .panic := by
  intro fuel
  induction fuel with
  | zero => intro p n h; omega
  | succ fuel ih =>
    intro pattern name hf
    simp only [matchLoop]
    split
    · simp
    · rename_i hne
      have hpne : pattern ≠ [] := by
        intro h; subst h; simp at hne
      have hlt := scanChunk_rest_lt os pattern hpne
      generalize scanChunk os pattern = sc at hlt ⊢
      obtain ⟨star, chunk, rest⟩ := sc
      simp only at hlt ⊢
      split
      · simp
      · have hrest : rest.length + 1 ≤ fuel := by omega
        have hmc := matchChunk_ne_panic os (chunk.length + 2) chunk name false (by omega)
        have hstar : (match starScan os chunk (rest == []) name with
            | MOut.panic => MOut.panic
            | MOut.badPattern => MOut.badPattern
            | MOut.ok (some t) => matchLoop os fuel rest t
            | MOut.ok none => MOut.ok false) ≠ MOut.panic := by
          split
          · rename_i heq; exact absurd heq (starScan_ne_panic _ _ _ _)
          · simp
          · exact ih _ _ hrest
          · simp
        generalize matchChunk os (chunk.length + 2) chunk name false = r at hmc ⊢
        cases r with
        | panic => exact absurd rfl hmc
        | badPattern =>
          simp
        | ok a =>
          obtain ⟨t, ok⟩ := a
          simp only []
          split
          · exact ih _ _ hrest
          · split
            · simp
            · split
              · exact hstar
              · simp

theorem pmatch_no_panic (os : OS) (pat name : Bytes) : pmatch os pat name ≠ .panic :=
  matchLoop_ne_panic os _ _ _ (by omega)

theorem pmatch_no_panic_linux (pat name : Bytes) : pmatch .linux pat name ≠ .panic :=
  pmatch_no_panic .linux pat name

end Avfs.Path
