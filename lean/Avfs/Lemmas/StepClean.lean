import Avfs.FS.SearchSpec
import Avfs.Lemmas.StepBase
import Avfs.Lemmas.Clean
set_option linter.unusedSimpArgs false
set_option linter.unusedVariables false

/-! # Unclean paths behave as their Clean form (C01) -/

namespace Avfs.Path
open Avfs.Path.Spec

theorem isAbs_linux (p : Bytes) : isAbs .linux p = isRooted p := by
  cases p <;> rfl

theorem render_ne_nil (rooted : Bool) (S : List Bytes) : render rooted S ≠ [] := by
  unfold render
  cases rooted <;> cases joinWith SL S.reverse <;> simp

/-- one step of the relative fold, replayed on top of any stack -/
theorem step_commute (r : Bool) (S0 st : List Bytes) (c : Bytes) (h : ∀ x ∈ S0, x ≠ [DOT]) :
    (specStep false S0 c).reverse.foldl (specStep r) st
      = specStep r (S0.reverse.foldl (specStep r) st) c := by
  by_cases h1 : c = [DOT]
  · subst h1; simp [specStep]
  by_cases h2 : c = DD
  · subst h2
    cases S0 with
    | nil => simp [specStep]
    | cons top rest =>
      by_cases ht : top = DD
      · subst ht
        simp [specStep]
      · have htd : top ≠ [DOT] := h top (by simp)
        simp [specStep, ht, htd, List.foldl_append]
  · simp [specStep, h1, h2, List.foldl_append]

theorem fold_reverse_fold (r : Bool) (cs : List Bytes) (S0 st : List Bytes) (h : ∀ x ∈ S0, x ≠ [DOT]) :
    (cs.foldl (specStep false) S0).reverse.foldl (specStep r) st
      = cs.foldl (specStep r) (S0.reverse.foldl (specStep r) st) := by
  induction cs generalizing S0 with
  | nil => rfl
  | cons c cs ih =>
    simp only [List.foldl_cons]
    rw [ih _ (specStep_noDot false S0 c h), step_commute r S0 st c h]

theorem comps_joinWith_good (l : List Bytes) (good : ∀ c ∈ l, GoodC c) : comps (joinWith SL l) = l := by
  rw [comps_joinWith, flatMap_comps_good _ good]

theorem fold_comps_render (r : Bool) (S : List Bytes) (good : ∀ c ∈ S, GoodC c) (st : List Bytes) :
    (comps (render false S)).foldl (specStep r) st = S.reverse.foldl (specStep r) st := by
  have good' : ∀ c ∈ S.reverse, GoodC c := fun c hc => good c (by simpa using hc)
  have hbody := comps_joinWith_good _ good'
  by_cases hS : S = []
  · subst hS
    have : comps (render false []) = [[DOT]] := by decide
    rw [this]; simp [specStep]
  · have hne : joinWith SL S.reverse ≠ [] := by
      intro e
      rw [e] at hbody
      simp at hbody
      exact hS hbody
    have hr : render false S = joinWith SL S.reverse := by simp [render, hne]
    rw [hr, hbody]

theorem fold_comps_clean_rel (r : Bool) (p : Bytes) (hp : isRooted p = false) (st : List Bytes) :
    (comps (Spec.clean p)).foldl (specStep r) st = (comps p).foldl (specStep r) st := by
  have hinv := inv_fold (rooted := false) (comps p) (comps_good p) (inv_init _)
  rw [Spec.clean, hp, fold_comps_render r _ hinv.good, fold_reverse_fold r _ [] st (by simp)]
  rfl

theorem isRooted_render (rooted : Bool) (S : List Bytes) (good : ∀ c ∈ S, GoodC c) :
    isRooted (render rooted S) = rooted := by
  have good' : ∀ c ∈ S.reverse, GoodC c := fun c hc => good c (by simpa using hc)
  cases rooted with
  | true => simp [render, isRooted]
  | false =>
    by_cases hne : joinWith SL S.reverse = []
    · simp [render, hne, isRooted]
    · have hr : render false S = joinWith SL S.reverse := by simp [render, hne]
      rw [hr, isRooted_joinWith _ good']

theorem isRooted_spec_clean (p : Bytes) : isRooted (Spec.clean p) = isRooted p := by
  have hinv := inv_fold (rooted := isRooted p) (comps p) (comps_good p) (inv_init _)
  rw [Spec.clean, isRooted_render _ _ hinv.good]

theorem spec_clean_ne_nil (p : Bytes) : Spec.clean p ≠ [] := render_ne_nil _ _

theorem clean_ne_nil (p : Bytes) : clean .linux p ≠ [] := by
  rw [clean_eq_spec]; exact spec_clean_ne_nil p

theorem clean_idem (p : Bytes) : clean .linux (clean .linux p) = clean .linux p := by
  simp only [clean_eq_spec, spec_clean_idem]

theorem isAbs_clean (p : Bytes) : isAbs .linux (clean .linux p) = isAbs .linux p := by
  rw [isAbs_linux, isAbs_linux, clean_eq_spec, isRooted_spec_clean]

theorem isRooted_append_cons (c : UInt8) (a b : Bytes) : isRooted (c :: a ++ b) = isRooted (c :: a) := rfl

theorem spec_clean_append_congr (d : UInt8) (ds x y : Bytes)
    (h : ∀ r st, (comps x).foldl (specStep r) st = (comps y).foldl (specStep r) st) :
    Spec.clean (d :: ds ++ SL :: x) = Spec.clean (d :: ds ++ SL :: y) := by
  have h2 : isRooted (d :: ds ++ SL :: x) = isRooted (d :: ds ++ SL :: y) := rfl
  unfold Spec.clean
  rw [h2, comps_append, comps_append, List.foldl_append, List.foldl_append, h]

theorem spec_join_clean (cwd p : Bytes) (hp : p ≠ []) (hrel : isRooted p = false) :
    Spec.join [cwd, Spec.clean p] = Spec.join [cwd, p] := by
  have hc := spec_clean_ne_nil p
  cases cwd with
  | nil =>
    cases hq : Spec.clean p with
    | nil => exact absurd hq hc
    | cons x xs =>
      cases p with
      | nil => contradiction
      | cons y ys =>
        simp only [Spec.join, List.filter, List.isEmpty, Bool.not_true, Bool.not_false, joinWith]
        rw [← hq, spec_clean_idem]
  | cons d ds =>
    cases hq : Spec.clean p with
    | nil => exact absurd hq hc
    | cons x xs =>
      cases p with
      | nil => contradiction
      | cons y ys =>
        simp only [Spec.join, List.filter, List.isEmpty, Bool.not_true, Bool.not_false, joinWith]
        rw [← hq]
        exact spec_clean_append_congr d ds _ _ (fun r st => fold_comps_clean_rel r (y :: ys) hrel st)

end Avfs.Path

namespace Avfs.FS
open Avfs.Path

theorem abs_clean (p cwd : Bytes) (hp : p ≠ []) :
    Path.abs .linux (Path.clean .linux p) cwd = Path.abs .linux p cwd := by
  unfold Path.abs
  rw [isAbs_clean]
  by_cases h : isAbs .linux p = true
  · simp [h, clean_idem]
  · have hrel : Spec.isRooted p = false := by rw [← isAbs_linux]; simpa using h
    have h' : isAbs .linux p = false := by simpa using h
    simp only [h', Bool.false_eq_true, if_false]
    rw [join_eq_spec, join_eq_spec, clean_eq_spec, spec_join_clean cwd p hp hrel]

theorem searchNode_clean (s : Store) (v : View) (p : Bytes) (m : SlMode) (hp : p ≠ []) :
    searchNode s v (Path.clean .linux p) m = searchNode s v p m := by
  unfold searchNode
  rw [abs_clean p v.cwd hp]

theorem clean_isEmpty (p : Bytes) : (Path.clean .linux p).isEmpty = false := by
  have := clean_ne_nil p
  cases h : Path.clean .linux p with
  | nil => exact absurd h this
  | cons _ _ => rfl

theorem isEmpty_false_of_ne_sc {p : Bytes} (hp : p ≠ []) : p.isEmpty = false := by
  cases p with
  | nil => contradiction
  | cons _ _ => rfl

theorem mkdir_clean (s : Store) (v : View) (p : Bytes) (perm : Nat) (hp : p ≠ []) :
    mkdir s v (Path.clean .linux p) perm = mkdir s v p perm := by
  unfold mkdir
  rw [searchNode_clean s v p _ hp, clean_isEmpty, isEmpty_false_of_ne_sc hp]

theorem mkdirAll_clean (s : Store) (v : View) (p : Bytes) (perm : Nat) (hp : p ≠ []) :
    mkdirAll s v (Path.clean .linux p) perm = mkdirAll s v p perm := by
  unfold mkdirAll
  rw [searchNode_clean s v p _ hp]

theorem remove_clean (s : Store) (v : View) (p : Bytes) (hp : p ≠ []) :
    remove s v (Path.clean .linux p) = remove s v p := by
  unfold remove
  rw [searchNode_clean s v p _ hp]

theorem removeAll_clean (s : Store) (v : View) (p : Bytes) (hp : p ≠ []) :
    removeAll s v (Path.clean .linux p) = removeAll s v p := by
  unfold removeAll
  rw [searchNode_clean s v p _ hp, clean_isEmpty, isEmpty_false_of_ne_sc hp]

theorem rename_clean (s : Store) (v : View) (o n : Bytes) (ho : o ≠ []) (hn : n ≠ []) :
    rename s v (Path.clean .linux o) (Path.clean .linux n) = rename s v o n := by
  unfold rename
  rw [searchNode_clean s v o _ ho, searchNode_clean s v n _ hn]

theorem rename_clean_old (s : Store) (v : View) (o n : Bytes) (ho : o ≠ []) :
    rename s v (Path.clean .linux o) n = rename s v o n := by
  unfold rename
  rw [searchNode_clean s v o _ ho]

theorem rename_clean_new (s : Store) (v : View) (o n : Bytes) (hn : n ≠ []) :
    rename s v o (Path.clean .linux n) = rename s v o n := by
  unfold rename
  rw [searchNode_clean s v n _ hn]

theorem link_clean (s : Store) (v : View) (o n : Bytes) (ho : o ≠ []) (hn : n ≠ []) :
    link s v (Path.clean .linux o) (Path.clean .linux n) = link s v o n := by
  unfold link
  rw [searchNode_clean s v o _ ho, searchNode_clean s v n _ hn]

theorem link_clean_old (s : Store) (v : View) (o n : Bytes) (ho : o ≠ []) :
    link s v (Path.clean .linux o) n = link s v o n := by
  unfold link
  rw [searchNode_clean s v o _ ho]

theorem link_clean_new (s : Store) (v : View) (o n : Bytes) (hn : n ≠ []) :
    link s v o (Path.clean .linux n) = link s v o n := by
  unfold link
  rw [searchNode_clean s v n _ hn]

/-- the new name of a symbolic link -/
theorem symlink_clean_new (s : Store) (v : View) (o n : Bytes) (hn : n ≠ []) :
    symlink s v o (Path.clean .linux n) = symlink s v o n := by
  unfold symlink
  rw [searchNode_clean s v n _ hn]

/-- the target of a symbolic link is stored cleaned (also for the empty target) -/
theorem symlink_clean_target (s : Store) (v : View) (o n : Bytes) :
    symlink s v (Path.clean .linux o) n = symlink s v o n := by
  unfold symlink
  rw [clean_idem]

theorem symlink_clean (s : Store) (v : View) (o n : Bytes) (hn : n ≠ []) :
    symlink s v (Path.clean .linux o) (Path.clean .linux n) = symlink s v o n := by
  rw [symlink_clean_target, symlink_clean_new s v o n hn]

theorem truncate_clean (s : Store) (v : View) (p : Bytes) (size : Int) (hp : p ≠ []) :
    truncate s v (Path.clean .linux p) size = truncate s v p size := by
  unfold truncate
  rw [searchNode_clean s v p _ hp]

theorem chmod_clean (s : Store) (v : View) (p : Bytes) (mode : Nat) (hp : p ≠ []) :
    chmod s v (Path.clean .linux p) mode = chmod s v p mode := by
  unfold chmod
  rw [searchNode_clean s v p _ hp]

theorem chown_clean (s : Store) (v : View) (p : Bytes) (uid gid : Int) (m : SlMode) (hp : p ≠ []) :
    chown s v (Path.clean .linux p) uid gid m = chown s v p uid gid m := by
  unfold chown
  rw [searchNode_clean s v p _ hp]

theorem chtimes_clean (s : Store) (v : View) (p : Bytes) (t : Int) (hp : p ≠ []) :
    chtimes s v (Path.clean .linux p) t = chtimes s v p t := by
  unfold chtimes
  rw [searchNode_clean s v p _ hp]

theorem chdir_clean (s : Store) (v : View) (p : Bytes) (hp : p ≠ []) :
    chdir s v (Path.clean .linux p) = chdir s v p := by
  unfold chdir
  rw [searchNode_clean s v p _ hp]

theorem stat_clean (s : Store) (v : View) (p : Bytes) (m : SlMode) (hp : p ≠ []) :
    stat s v (Path.clean .linux p) m = stat s v p m := by
  unfold stat
  rw [searchNode_clean s v p _ hp]

theorem readlink_clean (s : Store) (v : View) (p : Bytes) (hp : p ≠ []) :
    readlink s v (Path.clean .linux p) = readlink s v p := by
  unfold readlink
  rw [searchNode_clean s v p _ hp]

theorem evalSymlinks_clean (s : Store) (v : View) (p : Bytes) (hp : p ≠ []) :
    evalSymlinks s v (Path.clean .linux p) = evalSymlinks s v p := by
  unfold evalSymlinks
  rw [searchNode_clean s v p _ hp]

theorem sub_clean (s : Store) (v : View) (p : Bytes) (hp : p ≠ []) :
    sub s v (Path.clean .linux p) = sub s v p := by
  unfold sub
  rw [searchNode_clean s v p _ hp]

/-- since the repair of `OpenFile` (the empty name is refused before the search) the two names must also agree on
    being empty: `""` and `"."` search alike, but `openFile ""` is `ENOENT` while `openFile "."` opens the
    current directory -/
theorem openFile_congr (s : Store) (v : View) (vid : Nat) (a b : Bytes) (flag perm : Nat)
    (h : searchNode s v a .eval = searchNode s v b .eval) (hab : a.isEmpty = b.isEmpty) :
    openFile s v vid a flag perm =
      ((openFile s v vid b flag perm).1, (openFile s v vid b flag perm).2.map (fun hd => { hd with name := a })) := by
  unfold openFile
  rw [h, hab]
  simp only []
  repeat' split
  all_goals simp_all [Except.map]

/-- `OpenFile`: same heap, and the same handle except that it records the name as given -/
theorem openFile_clean (s : Store) (v : View) (vid : Nat) (p : Bytes) (flag perm : Nat) (hp : p ≠ []) :
    (openFile s v vid (Path.clean .linux p) flag perm).1 = (openFile s v vid p flag perm).1 ∧
    (openFile s v vid (Path.clean .linux p) flag perm).2
      = (openFile s v vid p flag perm).2.map (fun hd => { hd with name := Path.clean .linux p }) := by
  rw [openFile_congr s v vid _ p flag perm (searchNode_clean s v p .eval hp)
    (by rw [clean_isEmpty, isEmpty_false_of_ne_sc hp])]
  exact ⟨rfl, rfl⟩

theorem fileStep_read_name (s : Store) (v : View) (h : Handle) (a : Bytes) (n : Nat)
    (ha : a.isEmpty = h.name.isEmpty) :
    (fileStep s v { h with name := a } (.read n)).2.2.2 = (fileStep s v h (.read n)).2.2.2 := by
  simp only [fileStep, ha]
  repeat' split
  all_goals simp_all

theorem fileStep_readDir_name (s : Store) (v : View) (h : Handle) (a : Bytes) (n : Int)
    (ha : a.isEmpty = h.name.isEmpty) :
    (fileStep s v { h with name := a } (.readDir n)).2.2.2 = (fileStep s v h (.readDir n)).2.2.2 := by
  simp only [fileStep, ha]
  repeat' split
  all_goals simp_all

theorem fileStep_write_name (s : Store) (v : View) (h : Handle) (a : Bytes) (b : Bytes)
    (ha : a.isEmpty = h.name.isEmpty) :
    (fileStep s v { h with name := a } (.write b)).1 = (fileStep s v h (.write b)).1 ∧
    (fileStep s v { h with name := a } (.write b)).2.2.2 = (fileStep s v h (.write b)).2.2.2 := by
  simp only [fileStep, ha]
  repeat' split
  all_goals simp_all

theorem openFile_name (s : Store) (v : View) (vid : Nat) (p : Bytes) (flag perm : Nat) (s1 : Store) (h : Handle)
    (e : openFile s v vid p flag perm = (s1, .ok h)) : h.name = p := by
  unfold openFile at e
  simp only [] at e
  repeat' split at e
  all_goals simp_all
  all_goals (try (obtain ⟨_, rfl⟩ := e; rfl))


theorem readFile_clean (s : Store) (v : View) (vid : Nat) (p : Bytes) (hp : p ≠ []) :
    readFile s v vid (Path.clean .linux p) = readFile s v vid p := by
  unfold readFile
  rw [openFile_congr s v vid _ p 0 0 (searchNode_clean s v p .eval hp)
    (by rw [clean_isEmpty, isEmpty_false_of_ne_sc hp])]
  rcases h : openFile s v vid p 0 0 with ⟨s1, (e | hd)⟩
  · rfl
  · have hn := openFile_name _ _ _ _ _ _ _ _ h
    simp only [Except.map]
    rw [fileStep_read_name]
    rw [hn, clean_isEmpty, isEmpty_false_of_ne_sc hp]

theorem readDir_clean (s : Store) (v : View) (vid : Nat) (p : Bytes) (hp : p ≠ []) :
    readDir s v vid (Path.clean .linux p) = readDir s v vid p := by
  unfold readDir
  rw [openFile_congr s v vid _ p 0 0 (searchNode_clean s v p .eval hp)
    (by rw [clean_isEmpty, isEmpty_false_of_ne_sc hp])]
  rcases h : openFile s v vid p 0 0 with ⟨s1, (e | hd)⟩
  · rfl
  · have hn := openFile_name _ _ _ _ _ _ _ _ h
    simp only [Except.map]
    rw [fileStep_readDir_name]
    rw [hn, clean_isEmpty, isEmpty_false_of_ne_sc hp]

/-- every path argument replaced by its Clean form (calls whose result records the name as given —
    `openFile`, `create`, the temp helpers — are left alone: see `openFile_clean`) -/
def Call.cleaned : Call → Call
  | .mkdir p perm => .mkdir (Path.clean .linux p) perm
  | .mkdirAll p perm => .mkdirAll (Path.clean .linux p) perm
  | .remove p => .remove (Path.clean .linux p)
  | .removeAll p => .removeAll (Path.clean .linux p)
  | .rename o n => .rename (Path.clean .linux o) (Path.clean .linux n)
  | .link o n => .link (Path.clean .linux o) (Path.clean .linux n)
  | .symlink o n => .symlink (Path.clean .linux o) (Path.clean .linux n)
  | .truncate p sz => .truncate (Path.clean .linux p) sz
  | .chmod p m => .chmod (Path.clean .linux p) m
  | .chown p u g => .chown (Path.clean .linux p) u g
  | .lchown p u g => .lchown (Path.clean .linux p) u g
  | .chtimes p t => .chtimes (Path.clean .linux p) t
  | .chdir p => .chdir (Path.clean .linux p)
  | .stat p => .stat (Path.clean .linux p)
  | .lstat p => .lstat (Path.clean .linux p)
  | .readDir p => .readDir (Path.clean .linux p)
  | .readFile p => .readFile (Path.clean .linux p)
  | .readlink p => .readlink (Path.clean .linux p)
  | .evalSymlinks p => .evalSymlinks (Path.clean .linux p)
  | .writeFile p d perm => .writeFile (Path.clean .linux p) d perm
  | .sub p => .sub (Path.clean .linux p)
  | c => c

/-- the path arguments that `Call.cleaned` rewrites are non-empty (the target of `symlink` may be empty) -/
def Call.pathsNonEmpty : Call → Prop
  | .mkdir p _ => p ≠ []
  | .mkdirAll p _ => p ≠ []
  | .remove p => p ≠ []
  | .removeAll p => p ≠ []
  | .rename o n => o ≠ [] ∧ n ≠ []
  | .link o n => o ≠ [] ∧ n ≠ []
  | .symlink _ n => n ≠ []
  | .truncate p _ => p ≠ []
  | .chmod p _ => p ≠ []
  | .chown p _ _ => p ≠ []
  | .lchown p _ _ => p ≠ []
  | .chtimes p _ => p ≠ []
  | .chdir p => p ≠ []
  | .stat p => p ≠ []
  | .lstat p => p ≠ []
  | .readDir p => p ≠ []
  | .readFile p => p ≠ []
  | .readlink p => p ≠ []
  | .evalSymlinks p => p ≠ []
  | .writeFile p _ _ => p ≠ []
  | .sub p => p ≠ []
  | _ => True

theorem writeFileV_clean (st : FSState) (v : View) (vid : Nat) (p d : Bytes) (perm : Nat) (hp : p ≠ []) :
    writeFileV st v vid (Path.clean .linux p) d perm = writeFileV st v vid p d perm := by
  unfold writeFileV
  rw [openFile_congr st.store v vid _ p _ perm (searchNode_clean st.store v p .eval hp)
    (by rw [clean_isEmpty, isEmpty_false_of_ne_sc hp])]
  rcases h : openFile st.store v vid p oWRONLY_CREATE_TRUNC perm with ⟨s1, (e | hd)⟩
  · rfl
  · have hn := openFile_name _ _ _ _ _ _ _ _ h
    have hw := fileStep_write_name s1 v hd (Path.clean .linux p) d
      (by rw [hn, clean_isEmpty, isEmpty_false_of_ne_sc hp])
    simp only [Except.map]
    rcases h1 : fileStep s1 v { hd with name := Path.clean .linux p } (.write d) with ⟨a1, a2, a3, a4⟩
    rcases h2 : fileStep s1 v hd (.write d) with ⟨b1, b2, b3, b4⟩
    rw [h1, h2] at hw
    simp only [] at hw
    obtain ⟨rfl, rfl⟩ := hw
    rfl

/-- C01 (last sentence): a call with unclean path arguments behaves as the call with their Clean forms -/
theorem step_cleaned (st : FSState) (vid : Nat) (c : Call) (hc : c.pathsNonEmpty) :
    step st vid c.cleaned = step st vid c := by
  cases hv : st.view vid with
  | none => rw [step_none _ _ _ hv, step_none _ _ _ hv]
  | some v =>
    rw [step_some _ _ _ _ hv, step_some _ _ _ _ hv]
    cases c <;> simp only [Call.cleaned, stepV] <;> simp only [Call.pathsNonEmpty] at hc
    case mkdir => rw [mkdir_clean _ _ _ _ hc]
    case mkdirAll => rw [mkdirAll_clean _ _ _ _ hc]
    case remove => rw [remove_clean _ _ _ hc]
    case removeAll => rw [removeAll_clean _ _ _ hc]
    case rename => rw [rename_clean _ _ _ _ hc.1 hc.2]
    case link => rw [link_clean _ _ _ _ hc.1 hc.2]
    case symlink => rw [symlink_clean _ _ _ _ hc]
    case truncate => rw [truncate_clean _ _ _ _ hc]
    case chmod => rw [chmod_clean _ _ _ _ hc]
    case chown => rw [chown_clean _ _ _ _ _ _ hc]
    case lchown => rw [chown_clean _ _ _ _ _ _ hc]
    case chtimes => rw [chtimes_clean _ _ _ _ hc]
    case chdir => rw [chdir_clean _ _ _ hc]
    case stat => rw [stat_clean _ _ _ _ hc]
    case lstat => rw [stat_clean _ _ _ _ hc]
    case readDir => rw [readDir_clean _ _ _ _ hc]
    case readFile => rw [readFile_clean _ _ _ _ hc]
    case readlink => rw [readlink_clean _ _ _ hc]
    case evalSymlinks => rw [evalSymlinks_clean _ _ _ hc]
    case writeFile => rw [writeFileV_clean _ _ _ _ _ _ hc]
    case sub => rw [sub_clean _ _ _ hc]

end Avfs.FS
