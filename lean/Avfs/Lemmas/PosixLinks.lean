import Avfs.Lemmas.NameiLinks
import Avfs.Lemmas.Posix3
/-
  C01 through symbolic links: the namespace calls of MemFS on ARBITRARY paths (relative, unclean, through any number
  of symbolic links) against the POSIX-style references of Lemmas/Posix.lean, Posix2.lean, Posix3.lean.

  Method. `searchNode_eq_namei_any` (Lemmas/NameiLinks.lean) says that the walk of MemFS on any path `p` agrees with the
  textbook resolution `nameiPath` of the components of `Clean(Abs(p))` (`absComps`), which also computes the REAL path
  of what it finds. Here:
  1. the agreement is strengthened (`AgreesS`, `loop_links_strong`, `searchNode_agreesS`): outside the mode `slmStat`
     the WHOLE record returned by `searchNode` (parent, child, error and the iterator `lastIter path`: path, start, end,
     volume length) is a function of the result of the reference; under `slmStat` the iterator returned is the one
     saved at the first final link, whose part is the last component of `Clean(Abs(p))`; for the failures the record
     says what `MkdirAll` looks at (the kind of the child; for a missing inner name the point where the resolution
     stops, computed by the reference `stopPath`);
  2. the result of the reference is real (`RealRes`, `namei_resReal`) and the reference run on the real path gives the
     same result (`namei_on_real_found`, `namei_on_real_missing`);
  3. hence the transfer lemma `searchNode_real`: `searchNode s v p m = searchNode s v ("/" ++ join real path) m`;
  4. what the link-free descents `walkPath` / `walkPathL` find along the real path (`nameiPath_toWalk`);
  5. the calls: `<call>_links` — the outcome of the call on `p` is what the reference of the call says on the result
     of the resolution (`Res.toWalk`), ELOOP beyond 40 links;
  6. every call on `p` IS the call on the real path (`nofollow_calls_real`, `follow_calls_real`,
     `two_path_calls_real`).
  Restated with kernel-checked instances in Props/C01_links.lean.
-/
set_option linter.unusedVariables false
set_option linter.unusedSimpArgs false

namespace Avfs.FS
open Avfs.Path Avfs.Path.Spec

/-! ### 1. The strong agreement of `searchNode` with the reference -/

/-- the iterator standing on the last component of "/c1/…/cn" (on the end of "/" for the empty list) -/
def lastIter (path : List Bytes) : Iter :=
  { path := SL :: joinWith SL path,
    start := (SL :: joinWith SL path).length - (path.getLast?.getD []).length,
    stop1 := (SL :: joinWith SL path).length + 1,
    volLen := 0 }

theorem iter_eq_lastIter (it1 : Iter) (rds : List Bytes) (c : Bytes)
    (hp : it1.path = dpath rds ++ SL :: joinWith SL [c]) (hst : it1.start = (dpath rds).length + 1)
    (hsp : it1.stop1 = (dpath rds).length + 1 + c.length + 1) (hvl : it1.volLen = 0) :
    it1 = lastIter (rds.reverse ++ [c]) := by
  have hpath : SL :: joinWith SL (rds.reverse ++ [c]) = dpath rds ++ SL :: joinWith SL [c] :=
    spath_split rds [c] (by simp)
  obtain ⟨p, st, sp, vl⟩ := it1
  simp only at hp hst hsp hvl
  subst hp hst hsp hvl
  simp only [lastIter, hpath, List.getLast?_append, List.getLast?_singleton, Option.some_or, Option.getD_some]
  simp [joinWith]
  omega

/-! #### where a resolution stops on a missing inner name -/

/-- the link-free descent of `walkLinks`, returning the point where it stops on a name that is missing with more names
    to come: the directory, the names of the real directories passed (the real path of that directory) and the names
    still to walk, the missing one first; `none` in every other case -/
def walkStop (s : Store) (v : View) :
    List Bytes → Ino → List Ino → List Bytes → Option (Ino × List Bytes × List Bytes)
  | _, _, _, [] => none
  | nms, cur, anc, c :: rest =>
    match s.get cur with
    | some (.dir m _) =>
      if !checkPerm m omLookup v then none
      else if c == [DOT] then walkStop s v nms cur anc rest
      else if c == DD then
        (match anc with
         | [] => walkStop s v nms.tail cur [] rest
         | p :: anc' => walkStop s v nms.tail p anc' rest)
      else
        match s.child cur c with
        | none => if rest.isEmpty then none else some (cur, nms.reverse, c :: rest)
        | some i =>
          match s.get i with
          | some (.dir _ _) => walkStop s v (c :: nms) i (cur :: anc) rest
          | _ => none
    | _ => none

/-- `namei` returning the stop point of the descent it ends with (the links are followed exactly as `namei` does) -/
def nameiStop (s : Store) (v : View) (root : Ino) (follow : Bool) :
    Nat → List Bytes → Ino → List Ino → List Bytes → Option (Ino × List Bytes × List Bytes)
  | 0, nms, cur, anc, cs =>
    match walkLinks s v follow nms cur anc cs with
    | .link _ _ _ _ _ => none
    | _ => walkStop s v nms cur anc cs
  | b + 1, nms, cur, anc, cs =>
    match walkLinks s v follow nms cur anc cs with
    | .link nms' cur' anc' t rest =>
      if isAbs .linux t then nameiStop s v root follow b [] root [] (targetComps t ++ rest)
      else nameiStop s v root follow b nms' cur' anc' (targetComps t ++ rest)
    | _ => walkStop s v nms cur anc cs

/-- the stop point of the resolution of "/c1/…/cn" in the view `v` (budget 40): `some (d, dpath, todo)` when the
    resolution ends, after following the links, in the REAL directory `d` (real path `dpath`) on the name `todo.head`
    that is missing there, with the names `todo.tail ≠ []` still to come -/
def stopPath (s : Store) (v : View) (follow : Bool) (cs : List Bytes) : Option (Ino × List Bytes × List Bytes) :=
  nameiStop s v v.root follow slCountMax [] v.root [] cs

theorem nameiStop_congr {s : Store} {v : View} {root : Ino} {f : Bool} {cur cur' : Ino} {anc anc' : List Ino}
    {nms nms' X X' : List Bytes} (h : walkLinks s v f nms cur anc X = walkLinks s v f nms' cur' anc' X')
    (h2 : walkStop s v nms cur anc X = walkStop s v nms' cur' anc' X') (b : Nat) :
    nameiStop s v root f b nms cur anc X = nameiStop s v root f b nms' cur' anc' X' := by
  cases b <;> simp only [nameiStop, h, h2]

theorem wstop_dot {s : Store} {v : View} {cur : Ino} {anc : List Ino} (h : DirPerm s v cur)
    (nms Y : List Bytes) : walkStop s v nms cur anc ([DOT] :: Y) = walkStop s v nms cur anc Y := by
  obtain ⟨m, ch, hg, hp⟩ := h
  simp [walkStop, hg, hp]

theorem wstop_dd {s : Store} {v : View} {cur : Ino} {anc : List Ino} (h : DirPerm s v cur)
    (nms Y : List Bytes) : walkStop s v nms cur anc (DD :: Y) =
      (match anc with
       | [] => walkStop s v nms.tail cur [] Y
       | p :: anc' => walkStop s v nms.tail p anc' Y) := by
  obtain ⟨m, ch, hg, hp⟩ := h
  have : (DD == [DOT]) = false := by decide
  simp [walkStop, hg, hp, this]

theorem wstop_dir {s : Store} {v : View} {cur i : Ino} {anc : List Ino} {n : Bytes} (h : DirPerm s v cur)
    (hn : n ≠ [DOT] ∧ n ≠ DD) (hch : s.child cur n = some i) {mi : Meta} {chi : List (Bytes × Ino)}
    (hgi : s.get i = some (.dir mi chi)) (nms Y : List Bytes) :
    walkStop s v nms cur anc (n :: Y) = walkStop s v (n :: nms) i (cur :: anc) Y := by
  obtain ⟨m, ch, hg, hp⟩ := h
  simp [walkStop, hg, hp, hn.1, hn.2, hch, hgi]

theorem wstop_chain {s : Store} {v : View} {root : Ino} :
    ∀ (rds : List Bytes) (cur : Ino) (anc : List Ino) (Y : List Bytes),
      Chain s v root rds cur anc → (∀ x ∈ rds, x ≠ [DOT] ∧ x ≠ DD) →
      walkStop s v [] root [] (rds.reverse ++ Y) = walkStop s v rds cur anc Y := by
  intro rds
  induction rds with
  | nil =>
    intro cur anc Y h _
    cases anc <;> simp [Chain] at h
    simp [h.1]
  | cons n rds ih =>
    intro cur anc Y h hpl
    cases anc with
    | nil => simp [Chain] at h
    | cons p anc =>
      simp only [Chain] at h
      obtain ⟨hch, ⟨mi, chi, hgi, hpi⟩, hrest⟩ := h
      have := ih p anc (n :: Y) hrest (fun x hx => hpl x (by simp [hx]))
      simp only [List.reverse_cons, List.append_assoc, List.singleton_append]
      rw [this]
      exact wstop_dir hrest.perm (hpl n (by simp)) hch hgi rds Y

/-- `walk_dots` for both descents at once -/
theorem walk_dots2 {s : Store} {v : View} {root : Ino} {f : Bool} :
    ∀ (dots : List Bytes) (rds : List Bytes) (cur : Ino) (anc : List Ino),
      Chain s v root rds cur anc → (∀ x ∈ rds, x ≠ DD) → (∀ x ∈ dots, x = [DOT] ∨ x = DD) →
      ∃ rds1 cur1 anc1, Chain s v root rds1 cur1 anc1 ∧ dots.foldl (specStep true) rds = rds1 ∧
        (∀ x ∈ rds1, x ∈ rds) ∧
        (∀ Y, walkLinks s v f rds cur anc (dots ++ Y) = walkLinks s v f rds1 cur1 anc1 Y) ∧
        (∀ Y, walkStop s v rds cur anc (dots ++ Y) = walkStop s v rds1 cur1 anc1 Y) := by
  intro dots
  induction dots with
  | nil => intro rds cur anc h _ _; exact ⟨rds, cur, anc, h, rfl, fun _ hx => hx, fun _ => rfl, fun _ => rfl⟩
  | cons d dots ih =>
    intro rds cur anc h hpl hd
    have hdots : ∀ x ∈ dots, x = [DOT] ∨ x = DD := fun x hx => hd x (by simp [hx])
    rcases hd d (by simp) with rfl | rfl
    · obtain ⟨rds1, cur1, anc1, h1, h2, h3, h4, h5⟩ := ih rds cur anc h hpl hdots
      refine ⟨rds1, cur1, anc1, h1, ?_, h3, fun Y => ?_, fun Y => ?_⟩
      · simpa [specStep] using h2
      · rw [List.cons_append, walk_dot h.perm]; exact h4 Y
      · rw [List.cons_append, wstop_dot h.perm]; exact h5 Y
    · have hdd : (DD == [DOT]) = false := by decide
      cases rds with
      | nil =>
        cases anc with
        | cons _ _ => simp [Chain] at h
        | nil =>
          obtain ⟨rds1, cur1, anc1, h1, h2, h3, h4, h5⟩ := ih [] cur [] h hpl hdots
          refine ⟨rds1, cur1, anc1, h1, ?_, h3, fun Y => ?_, fun Y => ?_⟩
          · simpa [specStep, hdd] using h2
          · rw [List.cons_append, walk_dd h.perm]; exact h4 Y
          · rw [List.cons_append, wstop_dd h.perm]; exact h5 Y
      | cons n rds =>
        cases anc with
        | nil => simp [Chain] at h
        | cons p anc =>
          have hp : Chain s v root rds p anc := by simp only [Chain] at h; exact h.2.2
          obtain ⟨rds1, cur1, anc1, h1, h2, h3, h4, h5⟩ :=
            ih rds p anc hp (fun x hx => hpl x (by simp [hx])) hdots
          have hn : n ≠ DD := hpl n (by simp)
          refine ⟨rds1, cur1, anc1, h1, ?_, fun x hx => by simp [h3 x hx], fun Y => ?_, fun Y => ?_⟩
          · simp [specStep, hdd, hn, h2]
          · rw [List.cons_append, walk_dd h.perm]; exact h4 Y
          · rw [List.cons_append, wstop_dd h.perm]; exact h5 Y

/-- `walk_target` for both descents at once -/
theorem walk_target2 {s : Store} {v : View} {root : Ino} {f : Bool} (t : Bytes) (rest : List Bytes)
    (rds0 : List Bytes) (cur0 : Ino) (anc0 : List Ino) (hch : Chain s v root rds0 cur0 anc0)
    (hpl : ∀ x ∈ rds0, Plain x) (hrest : ∀ x ∈ rest, Plain x) (ht : targetOK t = true) :
    walkLinks s v f rds0 cur0 anc0 (targetComps t ++ rest) =
      walkLinks s v f [] root [] (((comps t).foldl (specStep true) rds0).reverse ++ rest) ∧
    walkStop s v rds0 cur0 anc0 (targetComps t ++ rest) =
      walkStop s v [] root [] (((comps t).foldl (specStep true) rds0).reverse ++ rest) ∧
    ∀ x ∈ ((comps t).foldl (specStep true) rds0).reverse ++ rest, Plain x := by
  obtain ⟨dots, names, hX, hdots, hnames⟩ := dotsFirst_split ht
  obtain ⟨rds1, cur1, anc1, h1, h2, h3, h4, h5⟩ :=
    walk_dots2 (f := f) dots rds0 cur0 anc0 hch (fun x hx => (hpl x hx).2.2.2) hdots
  have hfold : (comps t).foldl (specStep true) rds0 = names.reverse ++ rds1 := by
    rw [← foldl_targetComps, hX, List.foldl_append, h2, foldl_plain names rds1 hnames]
  have hnp : ∀ x ∈ names, Plain x := by
    intro x hx
    have hg := targetComps_good t x (by rw [hX]; simp [hx])
    exact ⟨hg.1, fun y hy e => hg.2 (e ▸ hy), (hnames x hx).1, (hnames x hx).2⟩
  have hr1 : ∀ x ∈ rds1, Plain x := fun x hx => hpl x (h3 x hx)
  rw [hfold]
  refine ⟨?_, ?_, ?_⟩
  · rw [hX, List.append_assoc, h4]
    simp only [List.reverse_append, List.reverse_reverse, List.append_assoc]
    exact (walk_chain rds1 cur1 anc1 (names ++ rest) h1 (fun x hx => (hr1 x hx).2.2)).symm
  · rw [hX, List.append_assoc, h5]
    simp only [List.reverse_append, List.reverse_reverse, List.append_assoc]
    exact (wstop_chain rds1 cur1 anc1 (names ++ rest) h1 (fun x hx => (hr1 x hx).2.2)).symm
  · intro x hx
    simp only [List.reverse_append, List.reverse_reverse, List.mem_append, List.mem_reverse] at hx
    rcases hx with (hx | hx) | hx
    · exact hr1 x hx
    · exact hnp x hx
    · exact hrest x hx

/-- the walk stopped on the name `c`, missing in the directory `r.parent` — a REAL directory, reached from the root of
    the view through the real searchable directories named `rds` —, with the names `rest` (at least one) still to
    come: the iterator stands on `c` (`IterOn`, Lemmas/Posix3.lean: what the creation loop of MkdirAll goes on with) -/
def MissingAt (s : Store) (v : View) (st : Option (Ino × List Bytes × List Bytes)) (r : SR) : Prop :=
  ∃ rds anc c rest, st = some (r.parent, rds.reverse, c :: rest) ∧ Chain s v v.root rds r.parent anc ∧ (∀ x ∈ rds, Plain x) ∧ Plain c ∧ (∀ x ∈ rest, Plain x) ∧
    rest ≠ [] ∧ s.child r.parent c = none ∧ r.child = none ∧ IterOn r.pi c rest

/-- the comparison of a reference resolution with the result of the iterator-driven walk, STRONG form: outside
    `slmStat` the iterator returned is determined; under `slmStat` its part is `L` (the last component of the path the
    walk started on) -/
def AgreesS (s : Store) (v : View) (m : SlMode) (L : Bytes) (st : Option (Ino × List Bytes × List Bytes)) (w : Res)
    (r : SR) : Prop :=
  match w with
  | .found par c path =>
    r.err = .exists ∧ r.child = some c ∧ r.parent = par ∧ (m ≠ .stat → r.pi = lastIter path) ∧
    (m = .stat → partOf r.pi = L)
  | .missingLast par nm path =>
    r.err = .noent ∧ r.child = none ∧ r.parent = par ∧ r.pi.isLast = true ∧ (m ≠ .stat → r.pi = lastIter path)
  | .missingDir => r.err = .noent ∧ (m ≠ .stat → r.pi.isLast = false ∧ MissingAt s v st r)
  | .notDir => r.err = .notdir ∧ ∃ c mf d nl id, r.child = some c ∧ s.get c = some (.file mf d nl id)
  | .denied => r.err = .acces ∧
      ((∃ c md ch, r.child = some c ∧ s.get c = some (.dir md ch)) ∨
       (r.child = none ∧ dirPerm s r.parent (omWrite ||| omLookup) v = false))
  | .loop => r.err = .loop ∧ ∃ c ms t, r.child = some c ∧ s.get c = some (.symlink ms t) ∧
      (m ≠ .stat → s.child r.parent (partOf r.pi) = some c)

/-- under `slmStat`: the part of the saved iterator, or else the last component still to walk, is `L` -/
def SavedL (m : SlMode) (L : Bytes) (saved : Option Iter) (X : List Bytes) : Prop :=
  m = .stat → (∀ its, saved = some its → partOf its = L) ∧ (saved = none → X.getLast? = some L)

/-- the loop standing in the directory `cur` — reached from the root of the view through the real, searchable
    directories named `rds`, which is also what the iterator has behind it — in front of the components `c :: rest`,
    with `b` links left, agrees with the reference started there.  Of `WF` only `alloc` is used; the root of the view
    is ANY directory (`root` is the root of the whole tree). -/
theorem loop_links_strong {s : Store} {root : Ino} {v : View} (hwf : WF s root)
    (hl : LinksOK s) (m : SlMode) (L : Bytes) :
    ∀ (fuel : Nat) (rds : List Bytes) (cur : Ino) (anc : List Ino) (c : Bytes) (rest : List Bytes) (it : Iter)
      (sl b : Nat) (saved : Option Iter),
      Chain s v v.root rds cur anc → (∀ x ∈ rds, Plain x) → Plain c → (∀ x ∈ rest, Plain x) →
      it.path = dpath rds ++ SL :: joinWith SL (c :: rest) → it.stop1 = (dpath rds).length + 1 → it.volLen = 0 →
      measureT s sl it ≤ fuel → sl + b = slCountMax → SavedInv m saved → SavedL m L saved (c :: rest) →
      AgreesS s v m L (nameiStop s v v.root (m != .lstat) b rds cur anc (c :: rest))
        (namei s v v.root (m != .lstat) b rds cur anc (c :: rest))
        (searchLoop s v m v.root fuel cur it sl saved) := by
  intro fuel
  induction fuel with
  | zero =>
    intro rds cur anc c rest it sl b saved _ _ _ _ _ _ _ hm _ _ _
    have := measure_pos s sl it
    omega
  | succ fuel ih =>
    intro rds cur anc c rest it sl b saved hchain hpl hc hrest hp hst hvl hmeas hb hS hSL
    obtain ⟨it1, hnext, hpart, hlast, hp1, hst1, hsp1, hvl1'⟩ := next_at it rds c rest hp hst hc
    have hvl1 : it1.volLen = 0 := by rw [hvl1']; exact hvl
    have hpo1 : partOf it1 = c := by simp [partOf, hpart]
    obtain ⟨md, chd, hgd, hperm⟩ := hchain.perm
    have hcd : (c == [DOT]) = false := by simpa using hc.2.2.1
    have hcdd : (c == DD) = false := by simpa using hc.2.2.2
    have hgetD : m ≠ .stat → saved.getD it1 = it1 := fun hm => by rw [hS.1 hm]; rfl
    have hgetL : rest = [] → (saved.getD it1).isLast = true := by
      intro hr
      cases hsv : saved with
      | none => simpa using hlast.mpr hr
      | some its => simpa using hS.2 its hsv
    have hgetI : m ≠ .stat → rest = [] → saved.getD it1 = lastIter (rds.reverse ++ [c]) := by
      intro hm hr
      rw [hgetD hm]
      exact iter_eq_lastIter it1 rds c (by rw [hp1, hp, hr]) hst1 hsp1 hvl1
    have hgetS : m = .stat → rest = [] → partOf (saved.getD it1) = L := by
      intro hm hr
      obtain ⟨h1, h2⟩ := hSL hm
      cases hsv : saved with
      | none =>
        have := h2 hsv
        rw [hr] at this
        simp at this
        simpa [hpo1] using this
      | some its => simpa using h1 its hsv
    rw [searchLoop]
    cases hch : s.child cur c with
    | none =>
      have hw : walkLinks s v (m != .lstat) rds cur anc (c :: rest) =
          .done (if rest.isEmpty then .missingLast cur c (rds.reverse ++ [c]) else .missingDir) := by
        simp [walkLinks, hgd, hperm, hcd, hcdd, hch]
      rw [namei_done hw]
      cases rest with
      | nil =>
        simp only [List.isEmpty_nil, if_true, AgreesS]
        simp [hnext, hpart, hgd, hperm, hch]
        exact ⟨hgetL rfl, fun hm => hgetI hm rfl⟩
      | cons c2 cs =>
        simp only [List.isEmpty_cons, AgreesS]
        simp [hnext, hpart, hgd, hperm, hch]
        intro hm
        rw [hgetD hm]
        have : ¬ it1.isLast = true := fun h => by have := hlast.mp h; cases this
        have hst : nameiStop s v v.root (m != .lstat) b rds cur anc (c :: c2 :: cs) =
            some (cur, rds.reverse, c :: c2 :: cs) := by
          have hws : walkStop s v rds cur anc (c :: c2 :: cs) = some (cur, rds.reverse, c :: c2 :: cs) := by
            simp [walkStop, hgd, hperm, hcd, hcdd, hch]
          cases b <;> simp only [nameiStop, hw, hws] <;> simp
        refine ⟨by simpa using this, rds, anc, c, c2 :: cs, hst, hchain, hpl, hc, hrest, by simp, hch, rfl, hpart,
          (fun h => by cases h), fun _ => ⟨dpath rds ++ SL :: c ++ [SL], ?_, ?_⟩⟩
        · rw [hp1, hp, joinWith_cons_cons]; simp
        · rw [hsp1]; simp; omega
    | some i =>
      have halloc := hwf.alloc cur c i hch
      cases hg : s.get i with
      | none => simp [hg] at halloc
      | some n =>
        cases n with
        | dir mi chi =>
          cases rest with
          | nil =>
            have hw : walkLinks s v (m != .lstat) rds cur anc [c] = .done (.found cur i (rds.reverse ++ [c])) := by
              simp [walkLinks, hgd, hperm, hcd, hcdd, hch, hg]
            rw [namei_done hw]
            have hl1 : it1.isLast = true := hlast.mpr rfl
            simp [AgreesS, hnext, hpart, hgd, hperm, hch, hg, hl1]
            exact ⟨fun hm => hgetI hm rfl, fun hm => hgetS hm rfl⟩
          | cons c2 cs =>
            have hl1 : it1.isLast = false := by
              have : ¬ it1.isLast = true := fun h => by have := hlast.mp h; cases this
              simpa using this
            by_cases hpi : checkPerm mi omLookup v = true
            · have hw : walkLinks s v (m != .lstat) rds cur anc (c :: c2 :: cs) =
                  walkLinks s v (m != .lstat) (c :: rds) i (cur :: anc) (c2 :: cs) :=
                walk_dir hchain.perm hc.2.2 hch hg _ _
              rw [namei_congr hw, nameiStop_congr hw (wstop_dir hchain.perm hc.2.2 hch hg _ _)]
              have hrec := ih (c :: rds) i (cur :: anc) c2 cs it1 sl b saved
                (by simp only [Chain]; exact ⟨hch, ⟨mi, chi, hg, hpi⟩, hchain⟩)
                (by intro x hx; simp at hx; rcases hx with rfl | hx; exact hc; exact hpl x hx)
                (hrest c2 (by simp)) (fun x hx => hrest x (by simp [hx]))
                (by rw [hp1, hp, joinWith_cons_cons, dpath]; simp)
                (by rw [hsp1, dpath]; simp; omega) hvl1
                (by
                  have := measure_advance s sl it it1 hp1 (by rw [hst, hsp1]; omega) (by rw [hst, hp]; simp)
                  omega)
                hb hS (fun hm => ⟨(hSL hm).1, fun h => by simpa [List.getLast?_cons_cons] using (hSL hm).2 h⟩)
              simpa [hnext, hpart, hgd, hperm, hch, hg, hl1, hpi] using hrec
            · have hpi' : checkPerm mi omLookup v = false := by simpa using hpi
              have hw : walkLinks s v (m != .lstat) rds cur anc (c :: c2 :: cs) = .done .denied := by
                rw [walk_dir hchain.perm hc.2.2 hch hg]
                simp [walkLinks, hg, hpi']
              rw [namei_done hw]
              simp [AgreesS, hnext, hpart, hgd, hperm, hch, hg, hl1, hpi']
        | file mf df nl id =>
          have hw : walkLinks s v (m != .lstat) rds cur anc (c :: rest) =
              .done (if rest.isEmpty then .found cur i (rds.reverse ++ [c]) else .notDir) := by
            simp [walkLinks, hgd, hperm, hcd, hcdd, hch, hg]
          rw [namei_done hw]
          cases rest with
          | nil =>
            have hl1 : it1.isLast = true := hlast.mpr rfl
            simp [AgreesS, hnext, hpart, hgd, hperm, hch, hg, hl1]
            exact ⟨fun hm => hgetI hm rfl, fun hm => hgetS hm rfl⟩
          | cons c2 cs =>
            have hl1 : it1.isLast = false := by
              have : ¬ it1.isLast = true := fun h => by have := hlast.mp h; cases this
              simpa using this
            simp [AgreesS, hnext, hpart, hgd, hperm, hch, hg, hl1]
        | symlink ms t =>
          have ht : targetOK t = true := hl cur c i ms t hch hg
          have hw : walkLinks s v (m != .lstat) rds cur anc (c :: rest) =
              (if rest.isEmpty && !(m != .lstat) then .nofollow cur i (rds.reverse ++ [c]) else .link rds cur anc t rest) := by
            simp [walkLinks, hgd, hperm, hcd, hcdd, hch, hg]
          by_cases hx : (it1.isLast && m == .lstat) = true
          · have hx' : it1.isLast = true ∧ m = .lstat := by simpa using hx
            have hre : rest = [] := hlast.mp hx'.1
            have hn : namei s v v.root (m != .lstat) b rds cur anc (c :: rest) = .found cur i (rds.reverse ++ [c]) := by
              have hw' : walkLinks s v (m != .lstat) rds cur anc (c :: rest) = .nofollow cur i (rds.reverse ++ [c]) := by
                rw [hw]; simp [hre, hx'.2]
              cases b <;> simp only [namei, hw']
            rw [hn]
            simp [AgreesS, hnext, hpart, hgd, hperm, hch, hg, hx]
            exact ⟨fun hm => hgetI hm hre, fun hm => hgetS hm hre⟩
          · -- the link has to be followed
            have hfol : (rest.isEmpty && !(m != .lstat)) = false := by
              cases hre : rest with
              | nil =>
                have hl1 : it1.isLast = true := hlast.mpr hre
                simp [hl1] at hx
                simp [hx]
              | cons _ _ => simp
            cases b with
            | zero =>
              have hcount : sl + 1 > slCountMax := by omega
              have hn : namei s v v.root (m != .lstat) 0 rds cur anc (c :: rest) = .loop := by
                simp [namei, hw, hfol]
              rw [hn]
              simp [AgreesS, hnext, hpart, hgd, hperm, hch, hg, hcount, hx]
              intro hm
              rw [hgetD hm, hpo1]; exact hch
            | succ b' =>
              have hcount : ¬ (sl + 1 > slCountMax) := by omega
              obtain ⟨it2, reset, hrep, hp2, hvl2, hlen2, hres, hnres⟩ :=
                replace_links it1 rds c rest t hpl hc hrest (by rw [hp1, hp]) hst1 hsp1 hvl1
              have hlink := link_le_maxLinkLen s i ms t hg
              have hmeas2 : measureT s (sl + 1) it2 ≤ fuel := by
                have := measure_replace s sl it it2 (by omega) (by rw [hp1] at hlen2; omega)
                  (by cases reset with
                      | true => rw [hres rfl]; exact Nat.le_refl _
                      | false => rw [(hnres rfl).1]; omega)
                omega
              generalize hsv' : (if it1.isLast && m == .stat && saved.isNone then some it1 else saved) = saved'
              have hS' : SavedInv m saved' := by
                rw [← hsv']
                constructor
                · intro hm
                  have := hS.1 hm
                  simp [hm, this]
                · intro its hits
                  split at hits
                  · rename_i hcnd
                    simp at hcnd hits
                    subst hits
                    exact hcnd.1.1
                  · exact hS.2 its hits
              have hSLc : ∀ (P : List Bytes), SavedL m L saved' (P ++ rest) := by
                intro P hm
                obtain ⟨h1, h2⟩ := hSL hm
                rw [← hsv']
                constructor
                · intro its hits
                  split at hits
                  · rename_i hcnd
                    simp at hcnd hits
                    subst hits
                    have hre : rest = [] := hlast.mp hcnd.1.1
                    have := h2 hcnd.2
                    rw [hre] at this
                    simp at this
                    rw [hpo1]; exact this
                  · exact h1 its hits
                · intro hnone
                  split at hnone
                  · cases hnone
                  · rename_i hcnd
                    have hre : rest ≠ [] := by
                      intro hre
                      apply hcnd
                      simp [hlast.mpr hre, hm, hnone]
                    rw [getLast?_append_ne _ _ hre]
                    have := h2 hnone
                    obtain ⟨r0, rs, hr0⟩ := List.exists_cons_of_ne_nil hre
                    rw [hr0] at this ⊢
                    simpa [List.getLast?_cons_cons] using this
              -- what the loop does next agrees with the reference restarted at the root on the new path
              have cont : ∀ (Lc : List Bytes), (∀ x ∈ Lc, Plain x) → it2.path = SL :: joinWith SL Lc →
                  SavedL m L saved' Lc →
                  AgreesS s v m L (nameiStop s v v.root (m != .lstat) b' [] v.root [] Lc)
                    (namei s v v.root (m != .lstat) b' [] v.root [] Lc)
                    (searchLoop s v m v.root fuel (if reset then v.root else cur) it2 (sl + 1) saved') := by
                intro Lc hLc hp2 hSLL
                cases reset with
                | true =>
                  have hs2 : it2.stop1 = 1 := hres rfl
                  cases Lc with
                  | nil =>
                    obtain ⟨k, rfl⟩ : ∃ k, fuel = k + 1 := ⟨fuel - 1, by have := measure_pos s (sl + 1) it2; omega⟩
                    have hw0 : walkLinks s v (m != .lstat) [] v.root [] [] = .done (.found v.root v.root []) := by
                      simp [walkLinks]
                    rw [namei_done hw0, searchLoop]
                    simp [joinWith] at hp2
                    simp [AgreesS, Iter.next, hp2, hs2]
                    refine ⟨fun hm => ?_, fun hm => ?_⟩
                    · rw [hS'.1 hm]
                      obtain ⟨p2, st2, sp2, vl2⟩ := it2
                      simp only at hp2 hs2 hvl2
                      subst hp2 hvl2
                      simp [lastIter, joinWith]
                    · obtain ⟨h1, h2⟩ := hSLL hm
                      cases hsv2 : saved' with
                      | none => have := h2 hsv2; simp at this
                      | some its => simpa using h1 its hsv2
                  | cons c' rest' =>
                    exact ih [] v.root [] c' rest' it2 (sl + 1) b' saved' (chain_root hchain.root_perm)
                      (by simp) (hLc c' (by simp)) (fun x hx => hLc x (by simp [hx]))
                      (by rw [hp2]; simp [dpath]) (by rw [hs2]; simp [dpath]) hvl2 hmeas2 (by omega) hS' hSLL
                | false =>
                  obtain ⟨hs2, hlt2, htk2⟩ := hnres rfl
                  obtain ⟨c', rest', hLc2⟩ := noreset_shape it2.path Lc rds (fun x hx => (hLc x hx).good)
                    (fun x hx => (hpl x hx).good) hp2 hlt2 htk2
                  have hwc := walk_chain (f := (m != .lstat)) rds cur anc (c' :: rest') hchain
                    (fun x hx => (hpl x hx).2.2)
                  rw [hLc2, namei_congr hwc, nameiStop_congr hwc (wstop_chain rds cur anc (c' :: rest') hchain
                    (fun x hx => (hpl x hx).2.2))]
                  have hmem : ∀ x ∈ c' :: rest', Plain x := fun x hx => hLc x (by rw [hLc2]; simp at hx ⊢; exact Or.inr hx)
                  exact ih rds cur anc c' rest' it2 (sl + 1) b' saved' hchain hpl (hmem c' (by simp))
                    (fun x hx => hmem x (by simp [hx]))
                    (by rw [hp2, hLc2]; exact spath_split rds (c' :: rest') (by simp)) hs2 hvl2 hmeas2 (by omega) hS'
                    (fun hm => ⟨(hSLL hm).1, fun h => by
                      have := (hSLL hm).2 h
                      rwa [hLc2, getLast?_append_ne _ _ (by simp)] at this⟩)
              have hloop : searchLoop s v m v.root (fuel + 1) cur it sl saved =
                  searchLoop s v m v.root fuel (if reset then v.root else cur) it2 (sl + 1) saved' := by
                rw [searchLoop, ← hsv']
                simp [hnext, hpart, hgd, hperm, hch, hg, hcount, hx, hrep]
              rw [← searchLoop, hloop]
              by_cases ha : isAbs .linux t = true
              · obtain ⟨hwt, hwts, hplc⟩ := walk_target2 (f := (m != .lstat)) t rest [] v.root []
                  (chain_root hchain.root_perm) (by simp) hrest ht
                have hn : namei s v v.root (m != .lstat) (b' + 1) rds cur anc (c :: rest) =
                    namei s v v.root (m != .lstat) b' [] v.root [] (targetComps t ++ rest) := by
                  simp only [namei, hw, hfol]
                  simp [ha]
                have hns : nameiStop s v v.root (m != .lstat) (b' + 1) rds cur anc (c :: rest) =
                    nameiStop s v v.root (m != .lstat) b' [] v.root [] (targetComps t ++ rest) := by
                  simp only [nameiStop, hw, hfol]
                  simp [ha]
                rw [hn, hns, namei_congr hwt, nameiStop_congr hwt hwts]
                exact cont _ hplc (by rw [hp2, if_pos ha]) (hSLc _)
              · obtain ⟨hwt, hwts, hplc⟩ := walk_target2 (f := (m != .lstat)) t rest rds cur anc hchain hpl hrest ht
                have hn : namei s v v.root (m != .lstat) (b' + 1) rds cur anc (c :: rest) =
                    namei s v v.root (m != .lstat) b' rds cur anc (targetComps t ++ rest) := by
                  simp only [namei, hw, hfol]
                  simp [ha]
                have hns : nameiStop s v v.root (m != .lstat) (b' + 1) rds cur anc (c :: rest) =
                    nameiStop s v v.root (m != .lstat) b' rds cur anc (targetComps t ++ rest) := by
                  simp only [nameiStop, hw, hfol]
                  simp [ha]
                rw [hn, hns, namei_congr hwt, nameiStop_congr hwt hwts]
                exact cont _ hplc (by rw [hp2, if_neg ha]) (hSLc _)

/-- `searchNode` on the clean absolute path "/c1/…/cn" strongly agrees with the reference (any view root) -/
theorem searchNode_agreesS_gen (s : Store) (root : Ino) (v : View) (hwf : WF s root) (hv : ViewOK s v)
    (hl : LinksOK s) (cs : List Bytes) (hplain : ∀ c ∈ cs, Plain c) (m : SlMode) :
    AgreesS s v m (cs.getLast?.getD []) (stopPath s v (m != .lstat) cs) (nameiPath s v (m != .lstat) cs)
      (searchNode s v (SL :: joinWith SL cs) m) := by
  have hall : ∀ c ∈ cs, c ≠ [] ∧ ∀ x ∈ c, x ≠ SL := fun c hc => ⟨(hplain c hc).1, (hplain c hc).2.1⟩
  have hdots : ∀ c ∈ cs, c ≠ [DOT] ∧ c ≠ [DOT, DOT] := fun c hc => (hplain c hc).2.2
  unfold searchNode nameiPath nameiPathB stopPath
  simp only [abs_joined cs v.cwd hall hdots]
  have hfuel := searchFuel_ge s (SL :: joinWith SL cs)
  obtain ⟨k, hk⟩ : ∃ k, searchFuel s (SL :: joinWith SL cs) = k + 1 := ⟨_, (Nat.sub_add_cancel (by omega)).symm⟩
  cases cs with
  | nil =>
    have hw0 : walkLinks s v (m != .lstat) [] v.root [] [] = .done (.found v.root v.root []) := by simp [walkLinks]
    rw [namei_done hw0, hk, searchLoop]
    simp [joinWith, Iter.new, Iter.next, volumeNameLen, AgreesS, lastIter, partOf, Iter.part, slice1]
  | cons c rest =>
    obtain ⟨mr, chr, hgr⟩ := get_of_isDirAt hv.rootDir
    by_cases hperm : checkPerm mr omLookup v = true
    · have hne : (c :: rest) ≠ [] := by simp
      obtain ⟨L, hL⟩ : ∃ L, (c :: rest).getLast? = some L := ⟨_, List.getLast?_eq_some_getLast hne⟩
      rw [hL]
      exact loop_links_strong hwf hl m L _ [] v.root [] c rest (Iter.new .linux (SL :: joinWith SL (c :: rest))) 0
        slCountMax none (chain_root ⟨mr, chr, hgr, hperm⟩) (by simp) (hplain c (by simp))
        (fun x hx => hplain x (by simp [hx])) (by simp [Iter.new, dpath]) (by simp [Iter.new, dpath, volumeNameLen])
        rfl (measure_init s _) (by simp) ⟨fun _ => rfl, fun _ h => by simp at h⟩
        (fun _ => ⟨fun _ h => by simp at h, fun _ => hL⟩)
    · have hperm' : checkPerm mr omLookup v = false := by simpa using hperm
      have hw : walkLinks s v (m != .lstat) [] v.root [] (c :: rest) = .done .denied := by
        simp [walkLinks, hgr, hperm']
      obtain ⟨it1, hnext, hpart, _⟩ := next_at (Iter.new .linux (SL :: joinWith SL (c :: rest))) [] c rest
        (by simp [Iter.new, dpath]) (by simp [Iter.new, dpath, volumeNameLen]) (hplain c (by simp))
      rw [namei_done hw, hk, searchLoop]
      simp [AgreesS, hnext, hpart, hgr, hperm']
      cases hwx : dirPerm s v.root (omWrite ||| omLookup) v with
      | false => rfl
      | true =>
        simp only [dirPerm, hgr, Node.meta] at hwx
        have := checkPerm_wx_lookup mr v hwx
        rw [this] at hperm'
        cases hperm'

/-- the components of `Clean(Abs(p))`: what `searchNode` walks on -/
def absComps (v : View) (p : Bytes) : List Bytes := comps (abs .linux p v.cwd)

theorem absComps_plain (v : View) (p : Bytes) (hc : isAbs .linux v.cwd = true) : ∀ c ∈ absComps v p, Plain c := by
  obtain ⟨cs, hcs, hpl⟩ := abs_shape p v.cwd hc
  have : absComps v p = cs := by
    unfold absComps; rw [hcs]; exact comps_spath cs (fun c hc => (hpl c hc).good)
  rw [this]; exact hpl

theorem searchNode_absComps (s : Store) (v : View) (p : Bytes) (m : SlMode) (hc : isAbs .linux v.cwd = true) :
    searchNode s v (SL :: joinWith SL (absComps v p)) m = searchNode s v p m := by
  obtain ⟨cs, hcs, hpl⟩ := abs_shape p v.cwd hc
  have hall : ∀ c ∈ cs, c ≠ [] ∧ ∀ x ∈ c, x ≠ SL := fun c hc => ⟨(hpl c hc).1, (hpl c hc).2.1⟩
  have hdots : ∀ c ∈ cs, c ≠ [DOT] ∧ c ≠ [DOT, DOT] := fun c hc => (hpl c hc).2.2
  have : absComps v p = cs := by
    unfold absComps; rw [hcs]; exact comps_spath cs (fun c hc => (hpl c hc).good)
  rw [this]
  unfold searchNode
  simp only [abs_joined cs v.cwd hall hdots, hcs]

/-- ANY path: `searchNode` strongly agrees with the reference resolution of the components of `Clean(Abs(p))` -/
theorem searchNode_agreesS (s : Store) (root : Ino) (v : View) (hwf : WF s root) (hv : ViewOK s v)
    (hl : LinksOK s) (p : Bytes) (m : SlMode) :
    AgreesS s v m ((absComps v p).getLast?.getD []) (stopPath s v (m != .lstat) (absComps v p))
      (nameiPath s v (m != .lstat) (absComps v p)) (searchNode s v p m) := by
  rw [← searchNode_absComps s v p m hv.cwdAbs]
  exact searchNode_agreesS_gen s root v hwf hv hl _ (absComps_plain v p hv.cwdAbs) m

/-! ### 2. The result of the reference is real, and the reference on the real path gives the same result -/

/-- the result of a resolution is REAL: the directories passed from the root of the view are real directories that the
    user may search, reached through ordinary names; the last name is an entry of the last directory (`found`) or is
    missing there (`missingLast`); what a following resolution (`f = true`) finds is no symbolic link -/
def RealRes (s : Store) (v : View) (root : Ino) (f : Bool) : Res → Prop
  | .found p c path => (path = [] ∧ p = root ∧ c = root) ∨
      ∃ nms anc nm, path = nms.reverse ++ [nm] ∧ Chain s v root nms p anc ∧ s.child p nm = some c ∧
        (∀ x ∈ nms, Plain x) ∧ Plain nm ∧ (f = true → notLink s c)
  | .missingLast p nm path =>
      ∃ nms anc, path = nms.reverse ++ [nm] ∧ Chain s v root nms p anc ∧ s.child p nm = none ∧
        (∀ x ∈ nms, Plain x) ∧ Plain nm
  | _ => True

theorem RealRes.mono {s : Store} {v : View} {root : Ino} {f : Bool} {r : Res} (h : RealRes s v root true r) :
    RealRes s v root f r := by
  cases r <;> simp only [RealRes] at h ⊢
  · rcases h with h | ⟨nms, anc, nm, h1, h2, h3, h4, h5, h6⟩
    · exact Or.inl h
    · exact Or.inr ⟨nms, anc, nm, h1, h2, h3, h4, h5, fun _ => by simpa using h6⟩
  · exact h

def WalkReal' (s : Store) (v : View) (root : Ino) : Walk → Prop
  | .done r => RealRes s v root true r
  | .nofollow p c path => RealRes s v root false (.found p c path)
  | .link nms cur anc _ rest => Chain s v root nms cur anc ∧ (∀ x ∈ nms, Plain x) ∧ ∀ x ∈ rest, GoodC x

theorem plain_of_good {c : Bytes} (hg : GoodC c) (h1 : c ≠ [DOT]) (h2 : c ≠ DD) : Plain c :=
  ⟨hg.1, fun y hy e => hg.2 (e ▸ hy), h1, h2⟩

theorem walk_real' (s : Store) (v : View) (root : Ino) (f : Bool) :
    ∀ (X nms : List Bytes) (cur : Ino) (anc : List Ino), ChainW s v root nms cur anc → (∀ x ∈ nms, Plain x) →
      (∀ x ∈ X, GoodC x) → WalkReal' s v root (walkLinks s v f nms cur anc X) := by
  intro X
  induction X with
  | nil =>
    intro nms cur anc h hpl _
    simp only [walkLinks, WalkReal', RealRes]
    cases nms with
    | nil =>
      cases anc with
      | nil =>
        simp only [ChainW] at h
        exact Or.inl ⟨rfl, by simp [h.1], h.1⟩
      | cons _ _ => simp [ChainW] at h
    | cons n nms =>
      cases anc with
      | nil => simp [ChainW] at h
      | cons p anc =>
        simp only [ChainW] at h
        exact Or.inr ⟨nms, anc, n, by simp, h.2.2, h.1, fun x hx => hpl x (by simp [hx]), hpl n (by simp),
          fun _ => notLink_of_dir h.2.1⟩
  | cons c X ih =>
    intro nms cur anc h hpl hX
    have hXt : ∀ x ∈ X, GoodC x := fun x hx => hX x (by simp [hx])
    have hplt : ∀ x ∈ nms.tail, Plain x := fun x hx => hpl x (List.mem_of_mem_tail hx)
    simp only [walkLinks]
    split
    · rename_i m ch hg
      split
      · trivial
      · rename_i hperm
        have hch : Chain s v root nms cur anc := h.strong ⟨m, ch, hg, by simpa using hperm⟩
        split
        · exact ih nms cur anc h hpl hXt
        · rename_i hdot
          split
          · cases anc with
            | nil =>
              cases nms with
              | nil => exact ih _ cur [] h hplt hXt
              | cons _ _ => simp [ChainW] at h
            | cons p anc' =>
              cases nms with
              | nil => simp [ChainW] at h
              | cons n nms' =>
                simp only [ChainW] at h
                exact ih nms' p anc' h.2.2.weak hplt hXt
          · rename_i hdd
            have hcp : Plain c := plain_of_good (hX c (by simp)) (by simpa using hdot) (by simpa using hdd)
            split
            · rename_i hci
              split
              · exact ⟨nms, anc, rfl, hch, hci, hpl, hcp⟩
              · trivial
            · rename_i i hci
              split
              · rename_i mi chi hgi
                exact ih (c :: nms) i (cur :: anc) (by simp only [ChainW]; exact ⟨hci, isDirAt_of_get hgi, hch⟩)
                  (by intro x hx; simp at hx; rcases hx with rfl | hx; exact hcp; exact hpl x hx) hXt
              · rename_i hgi
                split
                · exact Or.inr ⟨nms, anc, c, rfl, hch, hci, hpl, hcp,
                    fun _ m t hg' => by rw [hgi] at hg'; cases hg'⟩
                · trivial
              · split
                · exact Or.inr ⟨nms, anc, c, rfl, hch, hci, hpl, hcp, fun h => by cases h⟩
                · exact ⟨hch, hpl, hXt⟩
              · trivial
    · trivial

/-- whatever a resolution started on a real chain returns is real -/
theorem namei_resReal (s : Store) (v : View) (root : Ino) (f : Bool) (hr : isDirAt s root = true) :
    ∀ (b : Nat) (nms : List Bytes) (cur : Ino) (anc : List Ino) (X : List Bytes),
      ChainW s v root nms cur anc → (∀ x ∈ nms, Plain x) → (∀ x ∈ X, GoodC x) →
      RealRes s v root f (namei s v root f b nms cur anc X) := by
  intro b
  induction b with
  | zero =>
    intro nms cur anc X h hpl hX
    have hw := walk_real' s v root f X nms cur anc h hpl hX
    simp only [namei]
    split
    · rename_i r hwr; rw [hwr] at hw; exact hw.mono
    · rename_i p c path hwr
      rw [hwr] at hw
      cases f with
      | true => exact absurd hwr (walk_follow_ne_nofollow s v X nms cur anc _ _ _)
      | false => exact hw
    · trivial
  | succ b ih =>
    intro nms cur anc X h hpl hX
    have hw := walk_real' s v root f X nms cur anc h hpl hX
    rw [namei]
    split
    · rename_i r hwr; rw [hwr] at hw; exact hw.mono
    · rename_i p c path hwr
      rw [hwr] at hw
      cases f with
      | true => exact absurd hwr (walk_follow_ne_nofollow s v X nms cur anc _ _ _)
      | false => exact hw
    · rename_i nms' cur' anc' t rest hwr
      rw [hwr] at hw
      have hX' : ∀ x ∈ targetComps t ++ rest, GoodC x := by
        intro x hx
        rw [List.mem_append] at hx
        rcases hx with hx | hx
        · exact targetComps_good t x hx
        · exact hw.2.2 x hx
      split
      · exact ih [] root [] _ ⟨rfl, hr⟩ (by simp) hX'
      · exact ih nms' cur' anc' _ (Chain.weak hw.1) hw.2.1 hX'

theorem namei_nofollow {s : Store} {v : View} {root : Ino} {f : Bool} {cur : Ino} {anc : List Ino}
    {nms X : List Bytes} {p c : Ino} {path : List Bytes}
    (h : walkLinks s v f nms cur anc X = .nofollow p c path) (b : Nat) :
    namei s v root f b nms cur anc X = .found p c path := by
  cases b <;> simp only [namei, h]

/-- the reference run on the real path it computed gives the same result, whatever the budget -/
theorem namei_on_real_found {s : Store} {v : View} {root root0 : Ino} {f : Bool} (hwf : WF s root0) {p c : Ino}
    {path : List Bytes} (h : RealRes s v root f (.found p c path)) (b : Nat) :
    namei s v root f b [] root [] path = .found p c path := by
  simp only [RealRes] at h
  rcases h with ⟨rfl, rfl, rfl⟩ | ⟨nms, anc, nm, rfl, hch, hchild, hpl, hnm, hnl⟩
  · exact namei_done (by simp [walkLinks]) b
  · have hwc := walk_chain (f := f) nms p anc [nm] hch (fun x hx => (hpl x hx).2.2)
    obtain ⟨m, ch, hg, hp⟩ := hch.perm
    have hd : (nm == [DOT]) = false := by simpa using hnm.2.2.1
    have hdd : (nm == DD) = false := by simpa using hnm.2.2.2
    have halloc := hwf.alloc p nm c hchild
    cases hgc : s.get c with
    | none => simp [hgc] at halloc
    | some n =>
      cases n with
      | dir mc chc =>
        refine namei_done ?_ b
        rw [hwc]
        simp [walkLinks, hg, hp, hd, hdd, hchild, hgc]
      | file mc d nl id =>
        refine namei_done ?_ b
        rw [hwc]
        simp [walkLinks, hg, hp, hd, hdd, hchild, hgc]
      | symlink mc t =>
        cases f with
        | true => exact absurd hgc (hnl rfl mc t)
        | false =>
          refine namei_nofollow ?_ b
          rw [hwc]
          simp [walkLinks, hg, hp, hd, hdd, hchild, hgc]

theorem namei_on_real_missing {s : Store} {v : View} {root : Ino} {f : Bool} {p : Ino} {nm : Bytes}
    {path : List Bytes} (h : RealRes s v root f (.missingLast p nm path)) (b : Nat) :
    namei s v root f b [] root [] path = .missingLast p nm path := by
  simp only [RealRes] at h
  obtain ⟨nms, anc, rfl, hch, hchild, hpl, hnm⟩ := h
  have hwc := walk_chain (f := f) nms p anc [nm] hch (fun x hx => (hpl x hx).2.2)
  obtain ⟨m, ch, hg, hp⟩ := hch.perm
  have hd : (nm == [DOT]) = false := by simpa using hnm.2.2.1
  have hdd : (nm == DD) = false := by simpa using hnm.2.2.2
  refine namei_done ?_ b
  rw [hwc]
  simp [walkLinks, hg, hp, hd, hdd, hchild]

/-- the result of `nameiPath` on the components of any path is real -/
theorem nameiPath_resReal (s : Store) (v : View) (hv : ViewOK s v) (f : Bool) (p : Bytes) :
    RealRes s v v.root f (nameiPath s v f (absComps v p)) := by
  unfold nameiPath nameiPathB
  exact namei_resReal s v v.root f hv.rootDir slCountMax [] v.root [] _ ⟨rfl, hv.rootDir⟩ (by simp)
    (fun x hx => (absComps_plain v p hv.cwdAbs x hx).good)

theorem RealRes.found_plain {s : Store} {v : View} {root : Ino} {f : Bool} {p c : Ino} {path : List Bytes}
    (h : RealRes s v root f (.found p c path)) : ∀ x ∈ path, Plain x := by
  simp only [RealRes] at h
  rcases h with ⟨rfl, _, _⟩ | ⟨nms, anc, nm, rfl, _, _, hpl, hnm, _⟩
  · simp
  · intro x hx
    simp at hx
    rcases hx with hx | rfl
    · exact hpl x hx
    · exact hnm

theorem RealRes.missing_plain {s : Store} {v : View} {root : Ino} {f : Bool} {p : Ino} {nm : Bytes}
    {path : List Bytes} (h : RealRes s v root f (.missingLast p nm path)) : ∀ x ∈ path, Plain x := by
  simp only [RealRes] at h
  obtain ⟨nms, anc, rfl, _, _, hpl, hnm⟩ := h
  intro x hx
  simp at hx
  rcases hx with hx | rfl
  · exact hpl x hx
  · exact hnm

/-! ### 3. The transfer lemma -/

theorem sr_eq (r : SR) (par : Ino) (c : Option Ino) (it : Iter) (e : SErr) (h1 : r.parent = par) (h2 : r.child = c)
    (h3 : r.pi = it) (h4 : r.err = e) : r = ⟨par, c, it, e⟩ := by
  cases r; simp_all

/-- TRANSFER. For any path `p` (relative, unclean, through symbolic links) whose textbook resolution finds an entry
    — or finds everything but the last name — with the real path `path`: outside `slmStat`, `searchNode` returns on `p`
    EXACTLY what it returns on "/" ++ join `path`, a record that is a function of the reference's result. -/
theorem searchNode_real (s : Store) (root : Ino) (v : View) (hwf : WF s root) (hv : ViewOK s v)
    (hl : LinksOK s) (p : Bytes) (m : SlMode) (hm : m ≠ .stat) :
    match nameiPath s v (m != .lstat) (absComps v p) with
    | .found par c path =>
      searchNode s v p m = ⟨par, some c, lastIter path, .exists⟩ ∧
      searchNode s v (SL :: joinWith SL path) m = ⟨par, some c, lastIter path, .exists⟩
    | .missingLast par nm path =>
      searchNode s v p m = ⟨par, none, lastIter path, .noent⟩ ∧
      searchNode s v (SL :: joinWith SL path) m = ⟨par, none, lastIter path, .noent⟩
    | _ => True := by
  have h := searchNode_agreesS s root v hwf hv hl p m
  have hreal := nameiPath_resReal s v hv (m != .lstat) p
  cases hr : nameiPath s v (m != .lstat) (absComps v p) with
  | found par c path =>
    rw [hr] at h hreal
    have h2 := searchNode_agreesS_gen s root v hwf hv hl path hreal.found_plain m
    have hon' : nameiPath s v (m != .lstat) path = .found par c path := namei_on_real_found hwf hreal slCountMax
    rw [hon'] at h2
    simp only [AgreesS] at h h2 ⊢
    exact ⟨sr_eq _ _ _ _ _ h.2.2.1 h.2.1 (h.2.2.2.1 hm) h.1, sr_eq _ _ _ _ _ h2.2.2.1 h2.2.1 (h2.2.2.2.1 hm) h2.1⟩
  | missingLast par nm path =>
    rw [hr] at h hreal
    have h2 := searchNode_agreesS_gen s root v hwf hv hl path hreal.missing_plain m
    have hon' : nameiPath s v (m != .lstat) path = .missingLast par nm path := namei_on_real_missing hreal slCountMax
    rw [hon'] at h2
    simp only [AgreesS] at h h2 ⊢
    exact ⟨sr_eq _ _ _ _ _ h.2.2.1 h.2.1 (h.2.2.2.2 hm) h.1, sr_eq _ _ _ _ _ h2.2.2.1 h2.2.1 (h2.2.2.2.2 hm) h2.1⟩
  | _ => trivial

/-- the same record on both paths (either form of a resolution that reaches the last component) -/
theorem searchNode_real_found (s : Store) (root : Ino) (v : View) (hwf : WF s root) (hv : ViewOK s v)
    (hl : LinksOK s) (p : Bytes) (m : SlMode) (hm : m ≠ .stat) {par c : Ino} {path : List Bytes}
    (hr : nameiPath s v (m != .lstat) (absComps v p) = .found par c path) :
    searchNode s v p m = ⟨par, some c, lastIter path, .exists⟩ ∧
    searchNode s v (SL :: joinWith SL path) m = ⟨par, some c, lastIter path, .exists⟩ := by
  have h := searchNode_real s root v hwf hv hl p m hm
  rw [hr] at h
  exact h

theorem searchNode_real_missing (s : Store) (root : Ino) (v : View) (hwf : WF s root) (hv : ViewOK s v)
    (hl : LinksOK s) (p : Bytes) (m : SlMode) (hm : m ≠ .stat) {par : Ino} {nm : Bytes} {path : List Bytes}
    (hr : nameiPath s v (m != .lstat) (absComps v p) = .missingLast par nm path) :
    searchNode s v p m = ⟨par, none, lastIter path, .noent⟩ ∧
    searchNode s v (SL :: joinWith SL path) m = ⟨par, none, lastIter path, .noent⟩ := by
  have h := searchNode_real s root v hwf hv hl p m hm
  rw [hr] at h
  exact h

/-! ### 4. What the link-free descents say about a real result -/

theorem walkPathL_chain {s : Store} {v : View} {root : Ino} :
    ∀ (nms : List Bytes) (p : Ino) (anc : List Ino) (y : Bytes) (Y : List Bytes), Chain s v root nms p anc →
      walkPathL s v root (nms.reverse ++ y :: Y) = walkPathL s v p (y :: Y) := by
  intro nms
  induction nms with
  | nil =>
    intro p anc y Y h
    cases anc <;> simp [Chain] at h
    simp [h.1]
  | cons n nms ih =>
    intro p anc y Y h
    cases anc with
    | nil => simp [Chain] at h
    | cons q anc =>
      simp only [Chain] at h
      obtain ⟨hch, ⟨mi, chi, hgi, hpi⟩, hrest⟩ := h
      obtain ⟨mq, chq, hgq, hpq⟩ := hrest.perm
      have := ih q anc n (y :: Y) hrest
      simp only [List.reverse_cons, List.append_assoc, List.singleton_append]
      rw [this]
      simp [walkPathL, hgq, hpq, hch, hgi]

/-- the lstat descent along the real path finds the same entry in the same directory -/
theorem RealRes.walkL_found {s : Store} {v : View} {root : Ino} {f : Bool} {par c : Ino} {path : List Bytes}
    (h : RealRes s v root f (.found par c path)) : walkPathL s v root path = .found par c := by
  simp only [RealRes] at h
  rcases h with ⟨rfl, rfl, rfl⟩ | ⟨nms, anc, nm, rfl, hch, hchild, _, _, _⟩
  · simp [walkPathL]
  · rw [walkPathL_chain nms par anc nm [] hch]
    obtain ⟨m, ch, hg, hp⟩ := hch.perm
    simp [walkPathL, hg, hp, hchild]

/-- what a FOLLOWING resolution finds is found by the link-free descent along the real path -/
theorem RealRes.walk_found {s : Store} {v : View} {root root0 : Ino} (hwf : WF s root0) {par c : Ino}
    {path : List Bytes} (hrd : isDirAt s root = true)
    (h : RealRes s v root true (.found par c path)) : walkPath s v root path = .found par c := by
  simp only [RealRes] at h
  rcases h with ⟨rfl, rfl, rfl⟩ | ⟨nms, anc, nm, rfl, hch, hchild, _, _, hnl⟩
  · simp [walkPath]
  · exact walkPath_real (Or.inr ⟨nms, anc, nm, rfl, hch, hchild⟩) (by simpa using hnl) (hwf.alloc par nm c hchild)

theorem RealRes.walk_missing {s : Store} {v : View} {root : Ino} {f : Bool} {par : Ino} {nm : Bytes}
    {path : List Bytes} (h : RealRes s v root f (.missingLast par nm path)) :
    walkPath s v root path = .missingLast par nm ∧ walkPathL s v root path = .missingLast par nm := by
  simp only [RealRes] at h
  obtain ⟨nms, anc, rfl, hch, hchild, _, _⟩ := h
  rw [walkPathL_chain nms par anc nm [] hch, walkPath_chain nms par anc nm [] hch]
  obtain ⟨m, ch, hg, hp⟩ := hch.perm
  simp [walkPathL, walkPath, hg, hp, hchild]

/-- what is found is allocated -/
theorem RealRes.alloc {s : Store} {v : View} {root root0 : Ino} (hwf : WF s root0) {f : Bool} {par c : Ino}
    {path : List Bytes} (hrd : isDirAt s root = true) (h : RealRes s v root f (.found par c path)) :
    (s.get c).isSome = true := by
  simp only [RealRes] at h
  rcases h with ⟨rfl, rfl, rfl⟩ | ⟨nms, anc, nm, rfl, hch, hchild, _, _, _⟩
  · obtain ⟨m, ch, hg⟩ := get_of_isDirAt hrd
    simp [hg]
  · exact hwf.alloc par nm c hchild

theorem RealRes.path_ne {s : Store} {v : View} {root : Ino} {f : Bool} {par : Ino} {nm : Bytes}
    {path : List Bytes} (h : RealRes s v root f (.missingLast par nm path)) :
    path ≠ [] ∧ path.getLast? = some nm := by
  simp only [RealRes] at h
  obtain ⟨nms, anc, rfl, _⟩ := h
  simp

/-- the shape of `lastIter` on a non-empty list of good components -/
theorem lastIter_snoc (nms : List Bytes) (nm : Bytes) (hg : ∀ x ∈ nms ++ [nm], GoodC x) :
    partOf (lastIter (nms ++ [nm])) = nm ∧ (lastIter (nms ++ [nm])).isLast = true ∧
    (lastIter (nms ++ [nm])).path = SL :: joinWith SL (nms ++ [nm]) := by
  have hsplit : SL :: joinWith SL (nms ++ [nm]) = dpath nms.reverse ++ SL :: joinWith SL [nm] := by
    have := spath_split nms.reverse [nm] (by simp)
    simpa using this
  refine ⟨?_, ?_, rfl⟩
  · simp only [partOf, lastIter, Iter.part, slice1, hsplit]
    simp [joinWith]
    have h1 : (dpath nms.reverse).length + (nm.length + 1) - nm.length = (dpath nms.reverse ++ [SL]).length := by
      simp; omega
    have h2 : (dpath nms.reverse).length + (nm.length + 1) = (dpath nms.reverse ++ SL :: nm).length := by
      simp
    rw [h1, h2, List.take_length, show dpath nms.reverse ++ SL :: nm = (dpath nms.reverse ++ [SL]) ++ nm by simp,
      List.drop_left]
  · simp [lastIter, Iter.isLast]

theorem lastIter_nil : partOf (lastIter []) = [] ∧ (lastIter []).isLast = true ∧ (lastIter []).path = [SL] := by
  decide

theorem lastIter_path (path : List Bytes) : (lastIter path).path = SL :: joinWith SL path := rfl

theorem lastIter_isLast (path : List Bytes) : (lastIter path).isLast = true := by
  simp [lastIter, Iter.isLast]

theorem partOf_lastIter (path : List Bytes) (hg : ∀ x ∈ path, GoodC x) :
    partOf (lastIter path) = path.getLast?.getD [] := by
  rcases List.eq_nil_or_concat path with rfl | ⟨nms, nm, rfl⟩
  · exact lastIter_nil.1
  · rw [List.concat_eq_append] at hg ⊢
    rw [(lastIter_snoc nms nm hg).1]
    simp

/-! ### 5. The calls -/

theorem stat_mode_follow : (SlMode.stat != SlMode.lstat) = true := by decide
theorem eval_mode_follow : (SlMode.eval != SlMode.lstat) = true := by decide
theorem lstat_mode_nofollow : (SlMode.lstat != SlMode.lstat) = false := by decide

/-- Stat = stat(2) on ANY path: the attributes of the node the textbook resolution (following every link) finds — the
    node the link-free descent finds on the REAL path —, under the last name of `Clean(Abs(p))` (what `os.Stat` names
    the result); ENOENT / ENOTDIR / EACCES from the resolution, ELOOP beyond 40 links. The state never changes. -/
theorem stat_links (s : Store) (root : Ino) (v : View) (hwf : WF s root) (hv : ViewOK s v) (hl : LinksOK s)
    (p : Bytes) :
    (stat s v p .stat).1 = s ∧
    match nameiPath s v true (absComps v p) with
    | .found par c path => walkPath s v v.root path = .found par c ∧
        ∃ i, fillStat s c ((absComps v p).getLast?.getD []) = some i ∧ (stat s v p .stat).2 = .ok (.info i)
    | .missingLast _ _ _ => (stat s v p .stat).2 = .err .ENOENT
    | .missingDir => (stat s v p .stat).2 = .err .ENOENT
    | .notDir => (stat s v p .stat).2 = .err .ENOTDIR
    | .denied => (stat s v p .stat).2 = .err .EACCES
    | .loop => (stat s v p .stat).2 = .err .ELOOP := by
  refine ⟨px_stat_store s v p .stat, ?_⟩
  have h := searchNode_agreesS s root v hwf hv hl p .stat
  have hreal := nameiPath_resReal s v hv true p
  rw [stat_mode_follow] at h
  cases hr : nameiPath s v true (absComps v p) with
  | found par c path =>
    rw [hr] at h hreal
    simp only [AgreesS] at h ⊢
    obtain ⟨he, hc, _, _, hpart⟩ := h
    obtain ⟨i, hi⟩ := px_fillStat_some s c ((absComps v p).getLast?.getD []) (hreal.alloc hwf hv.rootDir)
    exact ⟨hreal.walk_found hwf hv.rootDir, i, hi, by simp [stat, he, hc, hpart (by trivial), hi]⟩
  | missingLast par nm path =>
    rw [hr] at h; simp only [AgreesS] at h ⊢
    simp [stat, h.1, h.2.1, SErr.toErr]
  | missingDir =>
    rw [hr] at h; simp only [AgreesS] at h ⊢
    simp [stat, h.1, SErr.toErr]
  | notDir =>
    rw [hr] at h; simp only [AgreesS] at h ⊢
    simp [stat, h.1, SErr.toErr]
  | denied =>
    rw [hr] at h; simp only [AgreesS] at h ⊢
    simp [stat, h.1, SErr.toErr]
  | loop =>
    rw [hr] at h; simp only [AgreesS] at h ⊢
    simp [stat, h.1, SErr.toErr]

/-- … which is the Stat of the real path up to the name reported -/
theorem stat_links_real (s : Store) (root : Ino) (v : View) (hwf : WF s root) (hv : ViewOK s v) (hl : LinksOK s)
    (p : Bytes) (par c : Ino) (path : List Bytes) (hr : nameiPath s v true (absComps v p) = .found par c path) :
    ∃ i, stat s v (SL :: joinWith SL path) .stat = (s, .ok (.info i)) ∧
      stat s v p .stat = (s, .ok (.info { i with name := (absComps v p).getLast?.getD [] })) := by
  have h := searchNode_agreesS s root v hwf hv hl p .stat
  have hreal := nameiPath_resReal s v hv true p
  rw [stat_mode_follow, hr] at h
  rw [hr] at hreal
  have h2 := searchNode_agreesS_gen s root v hwf hv hl path hreal.found_plain .stat
  have hon : nameiPath s v (SlMode.stat != .lstat) path = .found par c path := by
    rw [stat_mode_follow]; exact namei_on_real_found hwf hreal slCountMax
  rw [hon] at h2
  simp only [AgreesS] at h h2
  have halloc := hreal.alloc hwf hv.rootDir
  cases hg : s.get c with
  | none => simp [hg] at halloc
  | some n =>
    cases n <;> simp [stat, h.1, h.2.1, h2.1, h2.2.1, fillStat, hg, h.2.2.2.2 (by trivial)]

/-- Lstat = lstat(2) on ANY path: the links on the way are followed, a link as last component is the entry found -/
theorem lstat_links (s : Store) (root : Ino) (v : View) (hwf : WF s root) (hv : ViewOK s v) (hl : LinksOK s)
    (p : Bytes) :
    match nameiPath s v false (absComps v p) with
    | .found par c path => walkPathL s v v.root path = .found par c ∧
        ∃ i, fillStat s c (path.getLast?.getD []) = some i ∧ stat s v p .lstat = (s, .ok (.info i))
    | .missingLast _ _ _ => stat s v p .lstat = (s, .err .ENOENT)
    | .missingDir => stat s v p .lstat = (s, .err .ENOENT)
    | .notDir => stat s v p .lstat = (s, .err .ENOTDIR)
    | .denied => stat s v p .lstat = (s, .err .EACCES)
    | .loop => stat s v p .lstat = (s, .err .ELOOP) := by
  have h := searchNode_agreesS s root v hwf hv hl p .lstat
  have hreal := nameiPath_resReal s v hv false p
  rw [lstat_mode_nofollow] at h
  cases hr : nameiPath s v false (absComps v p) with
  | found par c path =>
    rw [hr] at h hreal
    simp only [AgreesS] at h ⊢
    obtain ⟨he, hc, _, hpi, _⟩ := h
    obtain ⟨i, hi⟩ := px_fillStat_some s c (path.getLast?.getD []) (hreal.alloc hwf hv.rootDir)
    have hpart := partOf_lastIter path (fun x hx => (hreal.found_plain x hx).good)
    exact ⟨hreal.walkL_found, i, hi, by simp [stat, he, hc, hpi (by decide), hpart, hi]⟩
  | missingLast par nm path =>
    rw [hr] at h; simp only [AgreesS] at h ⊢
    simp [stat, h.1, h.2.1, SErr.toErr]
  | missingDir =>
    rw [hr] at h; simp only [AgreesS] at h ⊢
    simp [stat, h.1, SErr.toErr]
  | notDir =>
    rw [hr] at h; simp only [AgreesS] at h ⊢
    simp [stat, h.1, SErr.toErr]
  | denied =>
    rw [hr] at h; simp only [AgreesS] at h ⊢
    simp [stat, h.1, SErr.toErr]
  | loop =>
    rw [hr] at h; simp only [AgreesS] at h ⊢
    simp [stat, h.1, SErr.toErr]

/-- the result of a resolution as a component-wise descent result (`loop` has no counterpart) -/
def Res.toWalk : Res → Resolved
  | .found par c _ => .found par c
  | .missingLast par nm _ => .missingLast par nm
  | .missingDir => .missingDir
  | .notDir => .notDir
  | .denied => .denied
  | .loop => .viaLink

/-- the descents along the REAL path give the result of the resolution: no link is left on it (a last component that
    is a link, in a no-follow resolution, is what `walkPathL` finds) -/
theorem nameiPath_toWalk (s : Store) (root : Ino) (v : View) (hwf : WF s root) (hv : ViewOK s v) (f : Bool)
    (p : Bytes) :
    match nameiPath s v f (absComps v p) with
    | .found par c path => walkPathL s v v.root path = .found par c ∧
        (f = true → walkPath s v v.root path = .found par c)
    | .missingLast par nm path => walkPath s v v.root path = .missingLast par nm ∧
        walkPathL s v v.root path = .missingLast par nm
    | _ => True := by
  have hreal := nameiPath_resReal s v hv f p
  cases hr : nameiPath s v f (absComps v p) with
  | found par c path =>
    rw [hr] at hreal
    refine ⟨hreal.walkL_found, fun hf => ?_⟩
    subst hf
    exact hreal.walk_found hwf hv.rootDir
  | missingLast par nm path =>
    rw [hr] at hreal
    exact hreal.walk_missing
  | _ => trivial

/-- Readlink = readlink(2) on ANY path: links on the way are followed, the last component is not -/
theorem readlink_links (s : Store) (root : Ino) (v : View) (hwf : WF s root) (hv : ViewOK s v) (hl : LinksOK s)
    (p : Bytes) :
    match nameiPath s v false (absComps v p) with
    | .loop => readlink s v p = (s, .err .ELOOP)
    | r =>
      match posixReadlink s r.toWalk with
      | .fail e => readlink s v p = (s, .err e)
      | .target l => readlink s v p = (s, .ok (.bytes l))
      | .outside => False := by
  have h := searchNode_agreesS s root v hwf hv hl p .lstat
  have hreal := nameiPath_resReal s v hv false p
  rw [lstat_mode_nofollow] at h
  cases hr : nameiPath s v false (absComps v p) with
  | found par c path =>
    rw [hr] at h hreal
    simp only [AgreesS] at h
    have halloc := hreal.alloc hwf hv.rootDir
    simp only [Res.toWalk, posixReadlink]
    cases hg : s.get c with
    | none => simp [hg] at halloc
    | some n => cases n <;> simp [readlink, h.1, h.2.1, hg]
  | missingLast par nm path =>
    rw [hr] at h; simp only [AgreesS] at h
    simp [Res.toWalk, posixReadlink, readlink, h.1, SErr.toErr]
  | missingDir =>
    rw [hr] at h; simp only [AgreesS] at h
    simp [Res.toWalk, posixReadlink, readlink, h.1, SErr.toErr]
  | notDir =>
    rw [hr] at h; simp only [AgreesS] at h
    simp [Res.toWalk, posixReadlink, readlink, h.1, SErr.toErr]
  | denied =>
    rw [hr] at h; simp only [AgreesS] at h
    simp [Res.toWalk, posixReadlink, readlink, h.1, SErr.toErr]
  | loop =>
    rw [hr] at h; simp only [AgreesS] at h
    simp [readlink, h.1, SErr.toErr]

/-- Mkdir = mkdir(2) on ANY non-empty path: the directory is made in the REAL parent, under the last name; an existing
    entry — a symbolic link included, dangling or not: the last component is not followed — is EEXIST -/
theorem mkdir_links (s : Store) (root : Ino) (v : View) (hwf : WF s root) (hv : ViewOK s v) (hl : LinksOK s)
    (p : Bytes) (hp : p ≠ []) (perm : Nat) :
    match nameiPath s v false (absComps v p) with
    | .loop => mkdir s v p perm = (s, .err .ELOOP)
    | r =>
      match posixMkdir s v r.toWalk with
      | .fail e => mkdir s v p perm = (s, .err e)
      | .create par name => mkdir s v p perm = ((createDir s v par name perm).1, .ok .unit)
      | .outside => False := by
  have h := searchNode_agreesS s root v hwf hv hl p .lstat
  have hreal := nameiPath_resReal s v hv false p
  have hpe : p.isEmpty = false := by cases p <;> simp_all
  rw [lstat_mode_nofollow] at h
  cases hr : nameiPath s v false (absComps v p) with
  | found par c path =>
    rw [hr] at h; simp only [AgreesS] at h
    simp [Res.toWalk, posixMkdir, mkdir, hpe, h.1, SErr.toErr]
  | missingLast par nm path =>
    rw [hr] at h hreal; simp only [AgreesS] at h
    obtain ⟨he, _, hpar, hlast, hpi⟩ := h
    have hpart : partOf (searchNode s v p .lstat).pi = nm := by
      rw [hpi (by decide), partOf_lastIter path (fun x hx => (hreal.missing_plain x hx).good), hreal.path_ne.2]; rfl
    have hnone : s.child par nm = none := by
      simp only [RealRes] at hreal
      obtain ⟨_, _, _, _, hc, _⟩ := hreal
      exact hc
    simp only [Res.toWalk, posixMkdir]
    by_cases hd : dirPerm s par (omWrite ||| omLookup) v = true
    · simp [mkdir, hpe, he, hpar, hlast, hd, hpart, hnone]
    · simp [mkdir, hpe, he, hpar, hlast, hd]
  | missingDir =>
    rw [hr] at h; simp only [AgreesS] at h
    simp [Res.toWalk, posixMkdir, mkdir, hpe, h.1, (h.2 (by decide)).1, SErr.toErr]
  | notDir =>
    rw [hr] at h; simp only [AgreesS] at h
    simp [Res.toWalk, posixMkdir, mkdir, hpe, h.1, SErr.toErr]
  | denied =>
    rw [hr] at h; simp only [AgreesS] at h
    simp [Res.toWalk, posixMkdir, mkdir, hpe, h.1, SErr.toErr]
  | loop =>
    rw [hr] at h; simp only [AgreesS] at h
    simp [mkdir, hpe, h.1, SErr.toErr]

/-- the last name of the real path -/
def Res.lastName : Res → Bytes
  | .found _ _ path => path.getLast?.getD []
  | .missingLast _ nm _ => nm
  | _ => []

/-- a found entry: the root of the view (empty real path), or the entry `nm` of the real directory `par` -/
theorem RealRes.found_cases {s : Store} {v : View} {root : Ino} {f : Bool} {par c : Ino} {path : List Bytes}
    (h : RealRes s v root f (.found par c path)) :
    (path = [] ∧ par = root ∧ c = root) ∨
    ∃ nm, path ≠ [] ∧ path.getLast? = some nm ∧ s.child par nm = some c ∧ isDirAt s par = true ∧
      (f = true → notLink s c) := by
  simp only [RealRes] at h
  rcases h with h | ⟨nms, anc, nm, rfl, hch, hchild, _, _, hnl⟩
  · exact Or.inl h
  · obtain ⟨m, ch, hg, _⟩ := hch.perm
    exact Or.inr ⟨nm, by simp, by simp, hchild, isDirAt_of_get hg, hnl⟩

theorem RealRes.missing_facts {s : Store} {v : View} {root : Ino} {f : Bool} {par : Ino} {nm : Bytes}
    {path : List Bytes} (h : RealRes s v root f (.missingLast par nm path)) :
    s.child par nm = none ∧ isDirAt s par = true := by
  simp only [RealRes] at h
  obtain ⟨nms, anc, rfl, hch, hchild, _, _⟩ := h
  obtain ⟨m, ch, hg, _⟩ := hch.perm
  exact ⟨hchild, isDirAt_of_get hg⟩

/-- Remove = unlink(2) / rmdir(2) on ANY path: the entry goes away from its REAL directory; a symbolic link as last
    component is removed itself (not its target); the root of the view (however it is reached) is EINVAL -/
theorem remove_links (s : Store) (root : Ino) (v : View) (hwf : WF s root) (hv : ViewOK s v) (hl : LinksOK s)
    (p : Bytes) :
    match nameiPath s v false (absComps v p) with
    | .loop => remove s v p = (s, .err .ELOOP)
    | .found _ _ [] => remove s v p = (s, .err .EINVAL)
    | r =>
      match posixRemove s v r.toWalk with
      | .fail e => remove s v p = (s, .err e)
      | .unlink par c => remove s v p = (deleteNode (removeChild s par r.lastName) c, .ok .unit)
      | .outside => False := by
  have h := searchNode_agreesS s root v hwf hv hl p .lstat
  have hreal := nameiPath_resReal s v hv false p
  rw [lstat_mode_nofollow] at h
  cases hr : nameiPath s v false (absComps v p) with
  | found par c path =>
    rw [hr] at h hreal; simp only [AgreesS] at h
    obtain ⟨he, hc, hpar, hpi, _⟩ := h
    rcases hreal.found_cases with ⟨rfl, rfl, rfl⟩ | ⟨nm, hne, hlastn, hedge, hpd, _⟩
    · simp [remove, he, hc, hpar]
    · obtain ⟨x, xs, rfl⟩ := List.exists_cons_of_ne_nil hne
      have hpart : partOf (searchNode s v p .lstat).pi = nm := by
        rw [hpi (by decide), partOf_lastIter _ (fun x hx => (hreal.found_plain x hx).good), hlastn]; rfl
      have hcp : (c == par) = false := by
        simp only [beq_eq_false_iff_ne]
        intro hcp
        exact no_self_edge hwf hpd (n := nm) (hcp ▸ hedge)
      have halloc := hwf.alloc par _ c hedge
      simp only [Res.toWalk, Res.lastName, posixRemove, hlastn, Option.getD_some]
      by_cases hd : dirPerm s par omWrite v = true
      · by_cases hst : restrictedDeletion s v par c = true
        · simp [remove, he, hc, hpar, hcp, hd, hst]
        · have hst : restrictedDeletion s v par c = false := by simpa using hst
          cases hg : s.get c with
          | none => simp [hg] at halloc
          | some n =>
            cases n with
            | dir mc chc =>
              by_cases hemp : (alKeys chc).length = 0
              · simp [remove, he, hc, hpar, hcp, hd, hst, hg, hemp, hpart, hedge]
              · simp [remove, he, hc, hpar, hcp, hd, hst, hg, hemp]
            | file mf df nl id => simp [remove, he, hc, hpar, hcp, hd, hst, hg, hpart, hedge]
            | symlink ms lk => simp [remove, he, hc, hpar, hcp, hd, hst, hg, hpart, hedge]
      · simp [remove, he, hc, hpar, hcp, hd]
  | missingLast par nm path =>
    rw [hr] at h; simp only [AgreesS] at h
    simp [Res.toWalk, posixRemove, remove, h.1, h.2.1, SErr.toErr]
  | missingDir =>
    rw [hr] at h; simp only [AgreesS] at h
    simp [Res.toWalk, posixRemove, remove, h.1, SErr.toErr]
  | notDir =>
    rw [hr] at h; simp only [AgreesS] at h
    simp [Res.toWalk, posixRemove, remove, h.1, SErr.toErr]
  | denied =>
    rw [hr] at h; simp only [AgreesS] at h
    simp [Res.toWalk, posixRemove, remove, h.1, SErr.toErr]
  | loop =>
    rw [hr] at h; simp only [AgreesS] at h
    simp [remove, h.1, SErr.toErr]

/-- Chmod = chmod(2) on ANY path (every link is followed: the node that changes is the one the resolution ends on) -/
theorem chmod_links (s : Store) (root : Ino) (v : View) (hwf : WF s root) (hv : ViewOK s v) (hl : LinksOK s)
    (p : Bytes) (mode : Nat) :
    match nameiPath s v true (absComps v p) with
    | .loop => chmod s v p mode = (s, .err .ELOOP)
    | r =>
      match posixChmod s v mode r.toWalk with
      | .fail e => chmod s v p mode = (s, .err e)
      | .update c n => chmod s v p mode = (s.set c n, .ok .unit)
      | .outside => False := by
  have h := searchNode_agreesS s root v hwf hv hl p .eval
  have hreal := nameiPath_resReal s v hv true p
  rw [eval_mode_follow] at h
  cases hr : nameiPath s v true (absComps v p) with
  | found par c path =>
    rw [hr] at h hreal; simp only [AgreesS] at h
    obtain ⟨he, hc, _, _, _⟩ := h
    have halloc := hreal.alloc hwf hv.rootDir
    have hnl : notLink s c := by
      rcases hreal.found_cases with ⟨_, _, rfl⟩ | ⟨_, _, _, _, _, hnl⟩
      · exact notLink_of_dir hv.rootDir
      · exact hnl rfl
    simp only [Res.toWalk, posixChmod]
    cases hg : s.get c with
    | none => simp [hg] at halloc
    | some n =>
      cases n with
      | symlink ms lk => exact absurd hg (hnl ms lk)
      | dir md chd =>
        by_cases hown : (md.uid != v.uid && !v.admin) = true
        · simp [chmod, he, hc, hg, setMode, Node.meta, hown]
        · simp [chmod, he, hc, hg, setMode, Node.meta, hown]
      | file mf df nl id =>
        by_cases hown : (mf.uid != v.uid && !v.admin) = true
        · simp [chmod, he, hc, hg, setMode, Node.meta, hown]
        · simp [chmod, he, hc, hg, setMode, Node.meta, hown]
  | missingLast par nm path =>
    rw [hr] at h; simp only [AgreesS] at h
    simp [Res.toWalk, posixChmod, chmod, h.1, h.2.1, SErr.toErr]
  | missingDir =>
    rw [hr] at h; simp only [AgreesS] at h
    simp [Res.toWalk, posixChmod, chmod, h.1, SErr.toErr]
  | notDir =>
    rw [hr] at h; simp only [AgreesS] at h
    simp [Res.toWalk, posixChmod, chmod, h.1, SErr.toErr]
  | denied =>
    rw [hr] at h; simp only [AgreesS] at h
    simp [Res.toWalk, posixChmod, chmod, h.1, SErr.toErr]
  | loop =>
    rw [hr] at h; simp only [AgreesS] at h
    simp [chmod, h.1, SErr.toErr]

/-- Chtimes = utimensat(2) on ANY path (every link is followed) -/
theorem chtimes_links (s : Store) (root : Ino) (v : View) (hwf : WF s root) (hv : ViewOK s v) (hl : LinksOK s)
    (p : Bytes) (mtime : Int) :
    match nameiPath s v true (absComps v p) with
    | .loop => chtimes s v p mtime = (s, .err .ELOOP)
    | r =>
      match posixChtimes s v mtime r.toWalk with
      | .fail e => chtimes s v p mtime = (s, .err e)
      | .update c n => chtimes s v p mtime = (s.set c n, .ok .unit)
      | .outside => False := by
  have h := searchNode_agreesS s root v hwf hv hl p .eval
  have hreal := nameiPath_resReal s v hv true p
  rw [eval_mode_follow] at h
  cases hr : nameiPath s v true (absComps v p) with
  | found par c path =>
    rw [hr] at h hreal; simp only [AgreesS] at h
    obtain ⟨he, hc, _, _, _⟩ := h
    have halloc := hreal.alloc hwf hv.rootDir
    have hnl : notLink s c := by
      rcases hreal.found_cases with ⟨_, _, rfl⟩ | ⟨_, _, _, _, _, hnl⟩
      · exact notLink_of_dir hv.rootDir
      · exact hnl rfl
    simp only [Res.toWalk, posixChtimes]
    cases hg : s.get c with
    | none => simp [hg] at halloc
    | some n =>
      by_cases hown : (n.meta.uid != v.uid && !v.admin) = true
      · simp [chtimes, he, hc, hg, hown]
      · simp [chtimes, he, hc, hg, hown]
  | missingLast par nm path =>
    rw [hr] at h; simp only [AgreesS] at h
    simp [Res.toWalk, posixChtimes, chtimes, h.1, h.2.1, SErr.toErr]
  | missingDir =>
    rw [hr] at h; simp only [AgreesS] at h
    simp [Res.toWalk, posixChtimes, chtimes, h.1, SErr.toErr]
  | notDir =>
    rw [hr] at h; simp only [AgreesS] at h
    simp [Res.toWalk, posixChtimes, chtimes, h.1, SErr.toErr]
  | denied =>
    rw [hr] at h; simp only [AgreesS] at h
    simp [Res.toWalk, posixChtimes, chtimes, h.1, SErr.toErr]
  | loop =>
    rw [hr] at h; simp only [AgreesS] at h
    simp [chtimes, h.1, SErr.toErr]

/-- Truncate = truncate(2) on ANY path (every link is followed) -/
theorem truncate_links (s : Store) (root : Ino) (v : View) (hwf : WF s root) (hv : ViewOK s v) (hl : LinksOK s)
    (p : Bytes) (size : Int) :
    match nameiPath s v true (absComps v p) with
    | .loop => truncate s v p size = (s, .err (if size < 0 || size > maxFileSize then .EINVAL else .ELOOP))
    | r =>
      match posixTruncate s v size r.toWalk with
      | .fail e => truncate s v p size = (s, .err e)
      | .update c n => truncate s v p size = (s.set c n, .ok .unit)
      | .outside => False := by
  have h := searchNode_agreesS s root v hwf hv hl p .eval
  have hreal := nameiPath_resReal s v hv true p
  rw [eval_mode_follow] at h
  by_cases hsz : (size < 0 || size > maxFileSize) = true
  · cases hr : nameiPath s v true (absComps v p) <;> simp [posixTruncate, truncate, hsz]
  cases hr : nameiPath s v true (absComps v p) with
  | found par c path =>
    rw [hr] at h hreal; simp only [AgreesS] at h
    obtain ⟨he, hc, _, _, _⟩ := h
    have halloc := hreal.alloc hwf hv.rootDir
    have hnl : notLink s c := by
      rcases hreal.found_cases with ⟨_, _, rfl⟩ | ⟨_, _, _, _, _, hnl⟩
      · exact notLink_of_dir hv.rootDir
      · exact hnl rfl
    simp only [Res.toWalk, posixTruncate, hsz]
    cases hg : s.get c with
    | none => simp [hg] at halloc
    | some n =>
      cases n with
      | symlink ms lk => exact absurd hg (hnl ms lk)
      | dir md chd => simp [truncate, hsz, he, hc, hg]
      | file mf df nl id =>
        by_cases hw : checkPerm mf omWrite v = true
        · simp [truncate, hsz, he, hc, hg, hw]
        · simp [truncate, hsz, he, hc, hg, hw]
  | missingLast par nm path =>
    rw [hr] at h; simp only [AgreesS] at h
    simp [Res.toWalk, posixTruncate, truncate, hsz, h.1, h.2.1, SErr.toErr]
  | missingDir =>
    rw [hr] at h; simp only [AgreesS] at h
    simp [Res.toWalk, posixTruncate, truncate, hsz, h.1, SErr.toErr]
  | notDir =>
    rw [hr] at h; simp only [AgreesS] at h
    simp [Res.toWalk, posixTruncate, truncate, hsz, h.1, SErr.toErr]
  | denied =>
    rw [hr] at h; simp only [AgreesS] at h
    simp [Res.toWalk, posixTruncate, truncate, hsz, h.1, SErr.toErr]
  | loop =>
    rw [hr] at h; simp only [AgreesS] at h
    simp [truncate, hsz, h.1, SErr.toErr]

/-- OpenFile = open(2) on ANY non-empty path, for every flag value: every link is followed, the last component
    included — so O_CREAT through a DANGLING link whose target lacks only its last component creates the target
    (as open(2) does without O_EXCL; with O_EXCL open(2) refuses any link as last component with EEXIST: recorded
    divergence, witness `C01_open_excl_dangling_link` in Props/C01_links.lean). The handle carries the path as given. -/
theorem open_links (s : Store) (root : Ino) (v : View) (hwf : WF s root) (hv : ViewOK s v) (hl : LinksOK s)
    (p : Bytes) (hp : p ≠ []) (vid flag perm : Nat) :
    match nameiPath s v true (absComps v p) with
    | .loop => openFile s v vid p flag perm = (s, .error .ELOOP)
    | r =>
      match posixOpen s v (toOpenMode flag) r.toWalk with
      | .fail e => openFile s v vid p flag perm = (s, .error e)
      | .create par name => openFile s v vid p flag perm =
          ((createFile s v par name perm).1,
           .ok (handleOn (createFile s v par name perm).2 p (toOpenMode flag) vid))
      | .opened c tr => openFile s v vid p flag perm =
          (if tr then truncated s c else s, .ok (handleOn c p (toOpenMode flag) vid))
      | .outside => False := by
  have h := searchNode_agreesS s root v hwf hv hl p .eval
  have hreal := nameiPath_resReal s v hv true p
  have hpe : p.isEmpty = false := by cases p <;> simp_all
  rw [eval_mode_follow] at h
  have hcw := toOpenMode_create_write flag
  have hec := toOpenMode_excl_create flag
  generalize hom : toOpenMode flag = om at hcw hec ⊢
  cases hr : nameiPath s v true (absComps v p) with
  | found par c path =>
    rw [hr] at h hreal; simp only [AgreesS] at h
    obtain ⟨he, hc, _, hpi, _⟩ := h
    have hlast : (searchNode s v p .eval).pi.isLast = true := by rw [hpi (by decide)]; exact lastIter_isLast path
    have halloc := hreal.alloc hwf hv.rootDir
    have hnl : notLink s c := by
      rcases hreal.found_cases with ⟨_, _, rfl⟩ | ⟨_, _, _, _, _, hnl⟩
      · exact notLink_of_dir hv.rootDir
      · exact hnl rfl
    simp only [Res.toWalk, posixOpen]
    cases hg : s.get c with
    | none => simp [hg] at halloc
    | some n =>
      cases n with
      | symlink ms lk => exact absurd hg (hnl ms lk)
      | dir md chd =>
        by_cases hce : (om &&& omCreate != 0 && om &&& omExcl != 0) = true
        · have hx : om &&& omExcl ≠ 0 := by simp at hce; exact hce.2
          simp [hce, openFile, hpe, hom, he, hc, hlast, hg, hx]
        · have hx : om &&& omExcl = 0 := by
            apply Classical.byContradiction
            intro h
            exact hce (by simp [h, hec h])
          simp only [hce]
          by_cases hwr : om &&& omWrite = 0
          · by_cases hp : checkPerm md om v = true
            · simp [openFile, hpe, hom, he, hc, hlast, hg, hx, hwr, hp, handleOn]
            · simp [openFile, hpe, hom, he, hc, hlast, hg, hx, hwr, hp]
          · simp [openFile, hpe, hom, he, hc, hlast, hg, hx, hwr]
      | file mf df nl id =>
        by_cases hce : (om &&& omCreate != 0 && om &&& omExcl != 0) = true
        · have hx : om &&& omExcl ≠ 0 := by simp at hce; exact hce.2
          simp [hce, openFile, hpe, hom, he, hc, hlast, hg, hx]
        · have hx : om &&& omExcl = 0 := by
            apply Classical.byContradiction
            intro h
            exact hce (by simp [h, hec h])
          simp only [hce]
          by_cases hp : checkPerm mf om v = true
          · by_cases htr : om &&& omTrunc = 0
            · simp [openFile, hpe, hom, he, hc, hlast, hg, hx, hp, htr, handleOn]
            · simp [openFile, hpe, hom, he, hc, hlast, hg, hx, hp, htr, handleOn, truncated]
          · simp [openFile, hpe, hom, he, hc, hlast, hg, hx, hp]
  | missingLast par nm path =>
    rw [hr] at h hreal; simp only [AgreesS] at h
    obtain ⟨he, _, hpar, hlast, hpi⟩ := h
    have hpart : partOf (searchNode s v p .eval).pi = nm := by
      rw [hpi (by decide), partOf_lastIter path (fun x hx => (hreal.missing_plain x hx).good), hreal.path_ne.2]; rfl
    simp only [Res.toWalk, posixOpen]
    by_cases hcr : om &&& omCreate = 0
    · simp [openFile, hpe, hom, he, hlast, hcr]
    · have hwr := hcw hcr
      by_cases hd : dirPerm s par (omWrite ||| omLookup) v = true
      · simp [openFile, hpe, hom, he, hlast, hcr, hwr, hd, hpar, hpart, handleOn]
      · simp [openFile, hpe, hom, he, hlast, hcr, hwr, hd, hpar]
  | missingDir =>
    rw [hr] at h; simp only [AgreesS] at h
    simp [Res.toWalk, posixOpen, openFile, hpe, hom, h.1, (h.2 (by decide)).1, SErr.toErr]
  | notDir =>
    rw [hr] at h; simp only [AgreesS] at h
    simp [Res.toWalk, posixOpen, openFile, hpe, hom, h.1, SErr.toErr]
  | denied =>
    rw [hr] at h; simp only [AgreesS] at h
    simp [Res.toWalk, posixOpen, openFile, hpe, hom, h.1, SErr.toErr]
  | loop =>
    rw [hr] at h; simp only [AgreesS] at h
    simp [openFile, hpe, hom, h.1, SErr.toErr]

/-- ReadDir = open(2) read-only + getdents on ANY non-empty path (every link is followed): the listing of the REAL
    directory -/
theorem readDir_links (s : Store) (root : Ino) (v : View) (hwf : WF s root) (hv : ViewOK s v) (hl : LinksOK s)
    (p : Bytes) (hp : p ≠ []) (vid : Nat) :
    match nameiPath s v true (absComps v p) with
    | .loop => readDir s v vid p = .err .ELOOP
    | r =>
      match posixReadDir s v r.toWalk with
      | .fail e => readDir s v vid p = .err e
      | .entries l => readDir s v vid p = .ok (.infos l)
      | .outside => False := by
  have hom : toOpenMode 0 = omRead := by decide
  have ho := open_links s root v hwf hv hl p hp vid 0 0
  have hreal := nameiPath_resReal s v hv true p
  rw [hom] at ho
  cases hr : nameiPath s v true (absComps v p) with
  | found par c path =>
    rw [hr] at ho hreal
    have halloc := hreal.alloc hwf hv.rootDir
    have hnl : notLink s c := by
      rcases hreal.found_cases with ⟨_, _, rfl⟩ | ⟨_, _, _, _, _, hnl⟩
      · exact notLink_of_dir hv.rootDir
      · exact hnl rfl
    simp only [Res.toWalk, posixOpen] at ho
    simp only [Res.toWalk, posixReadDir]
    simp only [omRead] at ho ⊢
    cases hg : s.get c with
    | none => simp [hg] at halloc
    | some n =>
      cases n with
      | symlink ms lk => exact absurd hg (hnl ms lk)
      | dir md chd =>
        simp only [hg] at ho
        by_cases hcp : checkPerm md 4 v = true
        · simp [hcp, omRead, omCreate, omExcl, omWrite] at ho
          simp [hp, hcp, readDir, ho, fileStep, handleOn, hg, dirEntriesOf_getD, dirListing]
        · simp [hcp, omRead, omCreate, omExcl, omWrite] at ho
          simp [hcp, readDir, ho]
      | file mf df nl id =>
        simp only [hg] at ho
        by_cases hcp : checkPerm mf 4 v = true
        · simp [hcp, omRead, omCreate, omExcl, omWrite, omTrunc] at ho
          simp [hp, hcp, readDir, ho, fileStep, handleOn, hg]
        · simp [hcp, omRead, omCreate, omExcl, omWrite] at ho
          simp [hcp, readDir, ho]
  | missingLast par name =>
    rw [hr] at ho
    simp only [Res.toWalk, posixOpen] at ho
    simp [omRead, omCreate] at ho
    simp [Res.toWalk, posixReadDir, readDir, ho]
  | missingDir =>
    rw [hr] at ho
    simp only [Res.toWalk, posixOpen] at ho
    simp [Res.toWalk, posixReadDir, readDir, ho]
  | notDir =>
    rw [hr] at ho
    simp only [Res.toWalk, posixOpen] at ho
    simp [Res.toWalk, posixReadDir, readDir, ho]
  | denied =>
    rw [hr] at ho
    simp only [Res.toWalk, posixOpen] at ho
    simp [Res.toWalk, posixReadDir, readDir, ho]
  | loop =>
    rw [hr] at ho
    simp only at ho
    simp [readDir, ho]

/-- Symlink = symlink(2) as far as the NEW path goes, on ANY path: links on the way are followed, the new link is made
    in the REAL directory; any existing last component (a link included, dangling or not) is EEXIST -/
theorem symlink_links (s : Store) (root : Ino) (v : View) (hwf : WF s root) (hv : ViewOK s v) (hl : LinksOK s)
    (old p : Bytes) :
    match nameiPath s v false (absComps v p) with
    | .loop => symlink s v old p = (s, .err .ELOOP)
    | r =>
      match posixSymlink s v r.toWalk with
      | .fail e => symlink s v old p = (s, .err e)
      | .create par name => symlink s v old p = ((createSymlink s v par name (clean .linux old)).1, .ok .unit)
      | .outside => False := by
  have h := searchNode_agreesS s root v hwf hv hl p .lstat
  have hreal := nameiPath_resReal s v hv false p
  rw [lstat_mode_nofollow] at h
  cases hr : nameiPath s v false (absComps v p) with
  | found par c path =>
    rw [hr] at h; simp only [AgreesS] at h
    simp [Res.toWalk, posixSymlink, symlink, h.1, SErr.toErr]
  | missingLast par nm path =>
    rw [hr] at h hreal; simp only [AgreesS] at h
    obtain ⟨he, _, hpar, hlast, hpi⟩ := h
    have hpart : partOf (searchNode s v p .lstat).pi = nm := by
      rw [hpi (by decide), partOf_lastIter path (fun x hx => (hreal.missing_plain x hx).good), hreal.path_ne.2]; rfl
    simp only [Res.toWalk, posixSymlink]
    by_cases hd : dirPerm s par omWrite v = true
    · simp [symlink, he, hpar, hlast, hd, hpart]
    · simp [symlink, he, hpar, hlast, hd]
  | missingDir =>
    rw [hr] at h; simp only [AgreesS] at h
    simp [Res.toWalk, posixSymlink, symlink, h.1, (h.2 (by decide)).1, SErr.toErr]
  | notDir =>
    rw [hr] at h; simp only [AgreesS] at h
    simp [Res.toWalk, posixSymlink, symlink, h.1, SErr.toErr]
  | denied =>
    rw [hr] at h; simp only [AgreesS] at h
    simp [Res.toWalk, posixSymlink, symlink, h.1, SErr.toErr]
  | loop =>
    rw [hr] at h; simp only [AgreesS] at h
    simp [symlink, h.1, SErr.toErr]

/-- Link = link(2) on ANY two paths, each resolved on its own (links on the way followed, the last component not):
    the new entry is made in the REAL directory of the new path. A source whose last component is a symbolic link
    is refused with EPERM (`.outside` of the reference: link(2) on Linux links the link itself — recorded). -/
theorem link_links (s : Store) (root : Ino) (v : View) (hwf : WF s root) (hv : ViewOK s v) (hl : LinksOK s)
    (po pn : Bytes) :
    match nameiPath s v false (absComps v po), nameiPath s v false (absComps v pn) with
    | .loop, _ => link s v po pn = (s, .err .ELOOP)
    | .found _ _ _, .loop => link s v po pn = (s, .err .ELOOP)
    | ro, rn =>
      match posixLink s v ro.toWalk rn.toWalk with
      | .fail e => link s v po pn = (s, .err e)
      | .link oc par name => link s v po pn = (linked s oc par name, .ok .unit)
      | .outside => link s v po pn = (s, .err .EPERM) := by
  have ho := searchNode_agreesS s root v hwf hv hl po .lstat
  have hn := searchNode_agreesS s root v hwf hv hl pn .lstat
  have hrealo := nameiPath_resReal s v hv false po
  have hrealn := nameiPath_resReal s v hv false pn
  rw [lstat_mode_nofollow] at ho hn
  cases hro : nameiPath s v false (absComps v po) with
  | found opar oc opath =>
    rw [hro] at ho hrealo; simp only [AgreesS] at ho
    obtain ⟨hoe, hoc, _, _, _⟩ := ho
    have hoalloc := hrealo.alloc hwf hv.rootDir
    cases hrn : nameiPath s v false (absComps v pn) with
    | found npar nc npath =>
      rw [hrn] at hn; simp only [AgreesS] at hn
      simp [Res.toWalk, posixLink, link, hoe, hoc, hn.1, SErr.toErr]
    | missingLast par nm path =>
      rw [hrn] at hn hrealn; simp only [AgreesS] at hn
      obtain ⟨he, _, hpar, hlast, hpi⟩ := hn
      have hpart : partOf (searchNode s v pn .lstat).pi = nm := by
        rw [hpi (by decide), partOf_lastIter path (fun x hx => (hrealn.missing_plain x hx).good), hrealn.path_ne.2]
        rfl
      simp only [Res.toWalk, posixLink]
      by_cases hd : dirPerm s par omWrite v = true
      · cases hg : s.get oc with
        | none => simp [hg] at hoalloc
        | some n =>
          cases n with
          | dir md chd => simp [hd, link, hoe, hoc, he, hlast, hpar, hg]
          | file mf df nl id => simp [hd, link, hoe, hoc, he, hlast, hpar, hpart, hg, linked]
          | symlink ms lk => simp [hd, link, hoe, hoc, he, hlast, hpar, hg]
      · simp [hd, link, hoe, hoc, he, hlast, hpar]
    | missingDir =>
      rw [hrn] at hn; simp only [AgreesS] at hn
      simp [Res.toWalk, posixLink, link, hoe, hoc, hn.1, (hn.2 (by decide)).1, SErr.toErr]
    | notDir =>
      rw [hrn] at hn; simp only [AgreesS] at hn
      simp [Res.toWalk, posixLink, link, hoe, hoc, hn.1, SErr.toErr]
    | denied =>
      rw [hrn] at hn; simp only [AgreesS] at hn
      simp [Res.toWalk, posixLink, link, hoe, hoc, hn.1, SErr.toErr]
    | loop =>
      rw [hrn] at hn; simp only [AgreesS] at hn
      simp [link, hoe, hoc, hn.1, SErr.toErr]
  | missingLast par nm path =>
    rw [hro] at ho; simp only [AgreesS] at ho
    cases hrn : nameiPath s v false (absComps v pn) <;>
      simp [Res.toWalk, posixLink, link, ho.1, ho.2.1, SErr.toErr]
  | missingDir =>
    rw [hro] at ho; simp only [AgreesS] at ho
    cases hrn : nameiPath s v false (absComps v pn) <;>
      simp [Res.toWalk, posixLink, link, ho.1, SErr.toErr]
  | notDir =>
    rw [hro] at ho; simp only [AgreesS] at ho
    cases hrn : nameiPath s v false (absComps v pn) <;>
      simp [Res.toWalk, posixLink, link, ho.1, SErr.toErr]
  | denied =>
    rw [hro] at ho; simp only [AgreesS] at ho
    cases hrn : nameiPath s v false (absComps v pn) <;>
      simp [Res.toWalk, posixLink, link, ho.1, SErr.toErr]
  | loop =>
    rw [hro] at ho; simp only [AgreesS] at ho
    simp [link, ho.1, SErr.toErr]

/-! #### rename(2) -/

/-- the real path of what a resolution reached (`[]` for the failures) -/
def Res.path : Res → List Bytes
  | .found _ _ path => path
  | .missingLast _ _ path => path
  | _ => []

/-- `posixRename` with symbolic links as entries (the last component of either path is not followed): as rename(2),
    a symbolic link is a non-directory like a regular file — it replaces, and is replaced by, a non-directory.
    (The same-inode no-op concerns regular files: a symbolic link has one name, `Link` refuses a link as source.) -/
def posixRenameL (s : Store) (v : View) (same below : Bool) (old new : Resolved) : RenameRef :=
  match old with
  | .found opar oc =>
    match new with
    | .found npar nc =>
      if !dirPerm s opar omWrite v then .fail .EACCES else
      if !dirPerm s npar omWrite v then .fail .EACCES else
      if same then .noop else
      if restrictedDeletion s v opar oc then .fail .EPERM else
      if restrictedDeletion s v npar nc then .fail .EPERM else
      match s.get oc with
      | some (.dir _ _) =>
        if below then .fail .EINVAL else
        match s.get nc with
        | some (.dir _ ch) => if (alKeys ch).length != 0 then .fail .EEXIST else .move opar npar oc (some nc)
        | some _ => .fail .ENOTDIR
        | none => .outside
      | some _ =>
        match s.get nc with
        | some (.dir _ _) => .fail .EISDIR
        | some (.file _ _ _ _) => if nc == oc then .noop else .move opar npar oc (some nc)
        | some (.symlink _ _) => .move opar npar oc (some nc)
        | none => .outside
      | none => .outside
    | .missingLast npar _ =>
      if !dirPerm s opar omWrite v then .fail .EACCES else
      if !dirPerm s npar omWrite v then .fail .EACCES else
      if restrictedDeletion s v opar oc then .fail .EPERM else
      match s.get oc with
      | some (.dir _ _) => if below then .fail .EINVAL else .move opar npar oc none
      | some _ => .move opar npar oc none
      | none => .outside
    | .missingDir => .fail .ENOENT
    | .notDir => .fail .ENOTDIR
    | .denied => .fail .EACCES
    | .viaLink => .outside
  | .missingLast _ _ => .fail .ENOENT
  | .missingDir => .fail .ENOENT
  | .notDir => .fail .ENOTDIR
  | .denied => .fail .EACCES
  | .viaLink => .outside

/-- wherever `posixRename` answers (no symbolic link among the two entries), `posixRenameL` is `posixRename` -/
theorem posixRenameL_eq (s : Store) (v : View) (same below : Bool) (old new : Resolved)
    (h : posixRename s v same below old new ≠ .outside) :
    posixRenameL s v same below old new = posixRename s v same below old new := by
  cases old with
  | found opar oc =>
    cases new with
    | found npar nc =>
      simp only [posixRename, posixRenameL] at h ⊢
      by_cases h1 : dirPerm s opar omWrite v = true
      · by_cases h2 : dirPerm s npar omWrite v = true
        · by_cases h3 : same = true
          · simp [h1, h2, h3]
          · by_cases h4 : restrictedDeletion s v opar oc = true
            · simp [h1, h2, h3, h4]
            · by_cases h5 : restrictedDeletion s v npar nc = true
              · simp [h1, h2, h3, h4, h5]
              · simp only [h1, h2, h3, h4, h5] at h ⊢
                cases hgo : s.get oc with
                | none => simp [hgo] at h
                | some no =>
                  cases hgn : s.get nc with
                  | none => cases no <;> simp [hgo, hgn] at h ⊢ <;> exact h
                  | some nn =>
                    cases no <;> cases nn <;> simp [hgo, hgn] at h ⊢ <;> simp [h]
        · simp [h1, h2]
      · simp [h1]
    | missingLast npar nm =>
      simp only [posixRename, posixRenameL] at h ⊢
      by_cases h1 : dirPerm s opar omWrite v = true
      · by_cases h2 : dirPerm s npar omWrite v = true
        · by_cases h4 : restrictedDeletion s v opar oc = true
          · simp [h1, h2, h4]
          · simp only [h1, h2, h4] at h ⊢
            cases hgo : s.get oc with
            | none => simp [hgo] at h
            | some no => cases no <;> simp [hgo] at h ⊢
        · simp [h1, h2]
      · simp [h1]
    | _ => simp [posixRename, posixRenameL] at h ⊢
  | _ => simp [posixRename, posixRenameL] at h ⊢

/-- the reference of Rename on two resolutions: `same` / `below` compare the REAL paths -/
def renameRefL (s : Store) (v : View) (ro rn : Res) : RenameRef :=
  posixRenameL s v (decide (ro.path = rn.path)) (ro.path.isPrefixOf rn.path && ro.path != rn.path) ro.toWalk rn.toWalk

theorem plain_hall {l : List Bytes} (h : ∀ x ∈ l, Plain x) : ∀ c ∈ l, c ≠ [] ∧ ∀ x ∈ c, x ≠ SL :=
  fun c hc => ⟨(h c hc).1, (h c hc).2.1⟩

/-- Rename = rename(2) on ANY two paths, each resolved on its own (links on the way followed, the last component
    not — a symbolic link is moved, or replaced, itself): the entry leaves its REAL directory and appears in the REAL
    directory of the new path; "same path" and "below itself" are decided on the REAL paths. Excluded: the root of the
    view as either operand (`hro`, `hrn`); stated apart: the corners of `renameCorner` (EEXIST). -/
theorem rename_links (s : Store) (root : Ino) (v : View) (hwf : WF s root) (hv : ViewOK s v) (hl : LinksOK s)
    (po pn : Bytes)
    (hro : ∀ par c, nameiPath s v false (absComps v po) ≠ .found par c [])
    (hrn : ∀ par c, nameiPath s v false (absComps v pn) ≠ .found par c []) :
    match nameiPath s v false (absComps v po), nameiPath s v false (absComps v pn) with
    | .loop, _ => rename s v po pn = (s, .err .ELOOP)
    | .found _ _ _, .loop => rename s v po pn = (s, .err .ELOOP)
    | ro, rn =>
      if renameCorner s ro.toWalk rn.toWalk (renameRefL s v ro rn) = true
      then rename s v po pn = (s, .err .EEXIST)
      else
      match renameRefL s v ro rn with
      | .fail e => rename s v po pn = (s, .err e)
      | .noop => rename s v po pn = (s, .ok .unit)
      | .move opar npar oc repl =>
          rename s v po pn = (renamed s opar ro.lastName npar rn.lastName oc repl, .ok .unit)
      | .outside => False := by
  have ho := searchNode_agreesS s root v hwf hv hl po .lstat
  have hn := searchNode_agreesS s root v hwf hv hl pn .lstat
  have hrealo := nameiPath_resReal s v hv false po
  have hrealn := nameiPath_resReal s v hv false pn
  rw [lstat_mode_nofollow] at ho hn
  cases hroe : nameiPath s v false (absComps v po) with
  | found opar oc opath =>
    rw [hroe] at ho hrealo hro; simp only [AgreesS] at ho
    obtain ⟨hoe, hoc, hopar, hopi, _⟩ := ho
    have hopi := hopi (by decide)
    rcases hrealo.found_cases with ⟨rfl, _, _⟩ | ⟨onm, hneo, holastn, hoedge, hopd, _⟩
    · exact absurd rfl (hro _ _)
    have hallo := plain_hall hrealo.found_plain
    have hopart : partOf (searchNode s v po .lstat).pi = onm := by
      rw [hopi, partOf_lastIter _ (fun x hx => (hrealo.found_plain x hx).good), holastn]; rfl
    have hopath : (searchNode s v po .lstat).pi.path = SL :: joinWith SL opath := by rw [hopi]; rfl
    have hoalloc := hwf.alloc opar _ oc hoedge
    have hocne : oc ≠ opar := by
      intro h
      exact no_self_edge hwf hopd (n := onm) (h ▸ hoedge)
    cases hrne : nameiPath s v false (absComps v pn) with
    | found npar nc npath =>
      rw [hrne] at hn hrealn hrn; simp only [AgreesS] at hn
      obtain ⟨hne, hnc, hnpar, hnpi, _⟩ := hn
      have hnpi := hnpi (by decide)
      rcases hrealn.found_cases with ⟨rfl, _, _⟩ | ⟨nnm, hnen, hnlastn, hnedge, hnpd, _⟩
      · exact absurd rfl (hrn _ _)
      have halln := plain_hall hrealn.found_plain
      have hnpart : partOf (searchNode s v pn .lstat).pi = nnm := by
        rw [hnpi, partOf_lastIter _ (fun x hx => (hrealn.found_plain x hx).good), hnlastn]; rfl
      have hnpath : (searchNode s v pn .lstat).pi.path = SL :: joinWith SL npath := by rw [hnpi]; rfl
      have hnalloc := hwf.alloc npar _ nc hnedge
      have hsame : (SL :: joinWith SL opath == SL :: joinWith SL npath) = decide (opath = npath) := by
        by_cases h : opath = npath
        · simp [h]
        · have : joinWith SL opath ≠ joinWith SL npath := fun hj => h (joinWith_inj opath npath hallo halln hj)
          simp [h, this]
      have hbelow := below_eq opath npath hneo hallo halln
      simp only [renameRefL, Res.path, Res.toWalk, Res.lastName, holastn, hnlastn, Option.getD_some]
      generalize (opath.isPrefixOf npath && opath != npath) = bl at hbelow ⊢
      simp only [posixRenameL, renameCorner]
      by_cases hd1 : dirPerm s opar omWrite v = true
      · by_cases hd2 : dirPerm s npar omWrite v = true
        · by_cases hs : opath = npath
          · simp [rename, hoe, hne, hopar, hnpar, hd1, hd2, hopath, hnpath, hs]
          · have hs' : (SL :: joinWith SL opath == SL :: joinWith SL npath) = false := by rw [hsame]; simp [hs]
            by_cases hr1 : restrictedDeletion s v opar oc = true
            · simp [rename, hoe, hne, hopar, hnpar, hd1, hd2, hopath, hnpath, hs, hs', hoc, hr1]
            · by_cases hr2 : restrictedDeletion s v npar nc = true
              · simp [rename, hoe, hne, hopar, hnpar, hd1, hd2, hopath, hnpath, hs, hs', hoc, hr1, hnc, hr2]
              · obtain ⟨no, hgo⟩ := Option.isSome_iff_exists.mp hoalloc
                obtain ⟨nn, hgn⟩ := Option.isSome_iff_exists.mp hnalloc
                simp only [hgo, hgn]
                cases no with
                | dir md chd =>
                  have hm : rename s v po pn = (s, .err .EEXIST) := by
                    simp [rename, hoe, hne, hopar, hnpar, hd1, hd2, hopath, hnpath, hs, hs', hoc, hr1, hnc, hr2,
                      hgo, SErr.toErr]
                  by_cases hb : bl = true
                  · simp [hd1, hd2, hs, hr1, hr2, hb, hm]
                  · cases nn with
                    | symlink ms lk => simp [hd1, hd2, hs, hr1, hr2, hb, hm]
                    | file mf2 df2 nl2 id2 => simp [hd1, hd2, hs, hr1, hr2, hb, hm]
                    | dir md2 chd2 =>
                      by_cases hemp : (alKeys chd2).length = 0
                      · simp [hd1, hd2, hs, hr1, hr2, hb, hm, hemp, isDirAt, hgo]
                      · simp [hd1, hd2, hs, hr1, hr2, hb, hm, hemp]
                | file mf df nl id =>
                  cases nn with
                  | symlink ms lk =>
                    simp [rename, hoe, hne, hopar, hnpar, hd1, hd2, hopath, hnpath, hs, hs', hoc, hr1, hnc, hr2,
                      hgo, hgn, renamed, hopart, hnpart, isDirAt]
                  | dir md chd =>
                    simp [rename, hoe, hne, hopar, hnpar, hd1, hd2, hopath, hnpath, hs, hs', hoc, hr1, hnc, hr2,
                      hgo, hgn, SErr.toErr]
                  | file mf2 df2 nl2 id2 =>
                    by_cases heq : nc = oc
                    · subst heq
                      simp [rename, hoe, hne, hopar, hnpar, hd1, hd2, hopath, hnpath, hs, hs', hoc, hr1, hnc, hr2,
                        hgo]
                    · simp [rename, hoe, hne, hopar, hnpar, hd1, hd2, hopath, hnpath, hs, hs', hoc, hr1, hnc, hr2,
                        hgo, hgn, heq, renamed, hopart, hnpart, isDirAt]
                | symlink mso lko =>
                  cases nn with
                  | symlink ms lk =>
                    simp [rename, hoe, hne, hopar, hnpar, hd1, hd2, hopath, hnpath, hs, hs', hoc, hr1, hnc, hr2,
                      hgo, hgn, renamed, hopart, hnpart, isDirAt]
                  | dir md chd =>
                    simp [rename, hoe, hne, hopar, hnpar, hd1, hd2, hopath, hnpath, hs, hs', hoc, hr1, hnc, hr2,
                      hgo, hgn, SErr.toErr]
                  | file mf2 df2 nl2 id2 =>
                    have heq : nc ≠ oc := by
                      intro h; rw [h, hgo] at hgn; cases hgn
                    simp [rename, hoe, hne, hopar, hnpar, hd1, hd2, hopath, hnpath, hs, hs', hoc, hr1, hnc, hr2,
                      hgo, hgn, heq, renamed, hopart, hnpart, isDirAt]
        · have hpne : npar ≠ opar := fun h => hd2 (h ▸ hd1)
          simp [rename, hoe, hne, hopar, hnpar, hd1, hd2, hpne]
      · simp [rename, hoe, hne, hopar, hnpar, hd1]
    | missingLast npar nnm npath =>
      rw [hrne] at hn hrealn; simp only [AgreesS] at hn
      obtain ⟨hne, hnc, hnpar, hnlast, hnpi⟩ := hn
      have hnpi := hnpi (by decide)
      have halln := plain_hall hrealn.missing_plain
      have hnlastn := hrealn.path_ne.2
      have hnpart : partOf (searchNode s v pn .lstat).pi = nnm := by
        rw [hnpi, partOf_lastIter _ (fun x hx => (hrealn.missing_plain x hx).good), hnlastn]; rfl
      have hnpath : (searchNode s v pn .lstat).pi.path = SL :: joinWith SL npath := by rw [hnpi]; rfl
      have hnnone := hrealn.missing_facts.1
      have hs : opath ≠ npath := by
        intro h
        have h1 := hrealo.walkL_found
        have h2 := hrealn.walk_missing.2
        rw [h, h2] at h1
        cases h1
      have hsame : (SL :: joinWith SL opath == SL :: joinWith SL npath) = decide (opath = npath) := by
        have : joinWith SL opath ≠ joinWith SL npath := fun hj => hs (joinWith_inj opath npath hallo halln hj)
        simp [hs, this]
      have hs' : (SL :: joinWith SL opath == SL :: joinWith SL npath) = false := by rw [hsame]; simp [hs]
      have hbelow := below_eq opath npath hneo hallo halln
      simp only [renameRefL, Res.path, Res.toWalk, Res.lastName, holastn, Option.getD_some]
      generalize (opath.isPrefixOf npath && opath != npath) = bl at hbelow ⊢
      simp only [posixRenameL, renameCorner]
      by_cases hd1 : dirPerm s opar omWrite v = true
      · by_cases hd2 : dirPerm s npar omWrite v = true
        · by_cases hr1 : restrictedDeletion s v opar oc = true
          · simp [rename, hoe, hne, hopar, hnpar, hd1, hd2, hopath, hnpath, hs', hoc, hr1, hnlast]
          · cases hgo : s.get oc with
            | none => simp [hgo] at hoalloc
            | some no =>
              cases no with
              | symlink ms lk =>
                simp [rename, hoe, hne, hopar, hnpar, hd1, hd2, hopath, hnpath, hs', hoc, hr1, hnlast, hnc, hgo,
                  renamed, hopart, hnpart]
              | dir md chd =>
                by_cases hb : bl = true
                · have hb' : joinWith SL opath ++ [SL] <+: joinWith SL npath := by
                    rw [hb] at hbelow
                    simpa using hbelow
                  simp [rename, hoe, hne, hopar, hnpar, hd1, hd2, hopath, hnpath, hs', hoc, hr1, hnlast, hnc, hgo,
                    hb, hb', hocne]
                · have hb' : bl = false := by simpa using hb
                  have hb'' : ¬ joinWith SL opath ++ [SL] <+: joinWith SL npath := by
                    rw [hb'] at hbelow
                    intro hpre
                    rw [← List.isPrefixOf_iff_prefix] at hpre
                    simp [hpre] at hbelow
                  simp [rename, hoe, hne, hopar, hnpar, hd1, hd2, hopath, hnpath, hs', hoc, hr1, hnlast, hnc, hgo,
                    hb', hb'', hocne, renamed, hopart, hnpart]
              | file mf df nl id =>
                simp [rename, hoe, hne, hopar, hnpar, hd1, hd2, hopath, hnpath, hs', hoc, hr1, hnlast, hnc, hgo,
                  renamed, hopart, hnpart]
        · have hpne : npar ≠ opar := fun h => hd2 (h ▸ hd1)
          simp [rename, hoe, hne, hopar, hnpar, hd1, hd2, hpne, hnlast]
      · simp [rename, hoe, hne, hopar, hnpar, hd1, hnlast]
    | missingDir =>
      rw [hrne] at hn; simp only [AgreesS] at hn
      simp [renameRefL, Res.toWalk, posixRenameL, renameCorner, rename, hoe, hn.1, (hn.2 (by decide)).1, SErr.toErr]
    | notDir =>
      rw [hrne] at hn; simp only [AgreesS] at hn
      simp [renameRefL, Res.toWalk, posixRenameL, renameCorner, rename, hoe, hn.1, SErr.toErr]
    | denied =>
      rw [hrne] at hn; simp only [AgreesS] at hn
      simp [renameRefL, Res.toWalk, posixRenameL, renameCorner, rename, hoe, hn.1, SErr.toErr]
    | loop =>
      rw [hrne] at hn; simp only [AgreesS] at hn
      simp [rename, hoe, hn.1, SErr.toErr]
  | missingLast par nm path =>
    rw [hroe] at ho; simp only [AgreesS] at ho
    cases hrne : nameiPath s v false (absComps v pn) <;>
      simp [renameRefL, Res.toWalk, posixRenameL, renameCorner, rename, ho.1, SErr.toErr]
  | missingDir =>
    rw [hroe] at ho; simp only [AgreesS] at ho
    cases hrne : nameiPath s v false (absComps v pn) <;>
      simp [renameRefL, Res.toWalk, posixRenameL, renameCorner, rename, ho.1, SErr.toErr]
  | notDir =>
    rw [hroe] at ho; simp only [AgreesS] at ho
    cases hrne : nameiPath s v false (absComps v pn) <;>
      simp [renameRefL, Res.toWalk, posixRenameL, renameCorner, rename, ho.1, SErr.toErr]
  | denied =>
    rw [hroe] at ho; simp only [AgreesS] at ho
    cases hrne : nameiPath s v false (absComps v pn) <;>
      simp [renameRefL, Res.toWalk, posixRenameL, renameCorner, rename, ho.1, SErr.toErr]
  | loop =>
    rw [hroe] at ho; simp only [AgreesS] at ho
    simp [rename, ho.1, SErr.toErr]

/-! #### MkdirAll -/

theorem lastIter_part (nms : List Bytes) (nm : Bytes) : (lastIter (nms ++ [nm])).part = some nm := by
  have hsplit : SL :: joinWith SL (nms ++ [nm]) = dpath nms.reverse ++ SL :: joinWith SL [nm] := by
    have := spath_split nms.reverse [nm] (by simp)
    simpa using this
  simp only [lastIter, Iter.part, slice1, hsplit]
  simp [joinWith]
  have h1 : (dpath nms.reverse).length + (nm.length + 1) - nm.length = (dpath nms.reverse ++ [SL]).length := by
    simp; omega
  have h2 : (dpath nms.reverse).length + (nm.length + 1) = (dpath nms.reverse ++ SL :: nm).length := by
    simp
  rw [h1, h2, List.take_length, show dpath nms.reverse ++ SL :: nm = (dpath nms.reverse ++ [SL]) ++ nm by simp,
    List.drop_left]

/-- a chain of real searchable directories is what the link-free descent walks -/
theorem chain_walkPath {s : Store} {v : View} {root : Ino} {rds : List Bytes} {cur : Ino} {anc : List Ino}
    (h : Chain s v root rds cur anc) : ∃ par, walkPath s v root rds.reverse = .found par cur := by
  cases rds with
  | nil =>
    cases anc <;> simp [Chain] at h
    exact ⟨root, by simp [walkPath, h.1]⟩
  | cons n rds =>
    cases anc with
    | nil => simp [Chain] at h
    | cons q anc =>
      simp only [Chain] at h
      obtain ⟨hch, ⟨mi, chi, hgi, hpi⟩, hrest⟩ := h
      obtain ⟨mq, chq, hgq, hpq⟩ := hrest.perm
      refine ⟨q, ?_⟩
      rw [List.reverse_cons, walkPath_chain rds q anc n [] hrest]
      simp [walkPath, hgq, hpq, hch, hgi]

/-- MkdirAll = mkdir -p on ANY path (every link is followed): an existing directory: nothing; a regular file (as last
    or inner component): ENOTDIR; an unsearchable directory: EACCES; only the last name missing (possibly the last name
    of the target of a DANGLING link): as Mkdir in the REAL parent; an inner name missing after the links are followed
    (possibly inside the target of a dangling link): the chain `todo` of the missing names is made below the REAL
    directory `d` where the resolution stops (`stopPath`: the reference computes `d`, its real path and `todo`; EACCES
    when `d` may not be written and searched). Through a dangling link os.MkdirAll
    fails with EEXIST at the link: recorded divergence, as is the last clause: beyond 40 links MkdirAll changes
    nothing and answers nil (EACCES when the directory holding the 41st link may not be written). -/
theorem mkdirAll_links (s : Store) (root : Ino) (v : View) (hwf : WF s root) (hv : ViewOK s v) (hl : LinksOK s)
    (p : Bytes) (perm : Nat) :
    match nameiPath s v true (absComps v p) with
    | .found _ c _ => mkdirAll s v p perm = (s, if isDirAt s c then .ok .unit else .err .ENOTDIR)
    | .missingLast par name _ => mkdirAll s v p perm =
        if dirPerm s par (omWrite ||| omLookup) v then ((createDir s v par name perm).1, .ok .unit)
        else (s, .err .EACCES)
    | .missingDir =>
        match stopPath s v true (absComps v p) with
        | some (d, dpath, todo) =>
          (∃ par, walkPath s v v.root dpath = .found par d) ∧ isDirAt s d = true ∧
          todo.length ≥ 2 ∧ (∀ x ∈ todo, Plain x) ∧ s.child d (todo.headD []) = none ∧
          mkdirAll s v p perm =
            if dirPerm s d (omWrite ||| omLookup) v then (mkChain v perm s d todo, .ok .unit) else (s, .err .EACCES)
        | none => False
    | .notDir => mkdirAll s v p perm = (s, .err .ENOTDIR)
    | .denied => mkdirAll s v p perm = (s, .err .EACCES)
    | .loop => ∃ par, mkdirAll s v p perm =
        if dirPerm s par (omWrite ||| omLookup) v then (s, .ok .unit) else (s, .err .EACCES) := by
  have h := searchNode_agreesS s root v hwf hv hl p .eval
  have hreal := nameiPath_resReal s v hv true p
  rw [eval_mode_follow] at h
  cases hr : nameiPath s v true (absComps v p) with
  | found par c path =>
    rw [hr] at h hreal; simp only [AgreesS] at h
    obtain ⟨he, hc, _, _, _⟩ := h
    have halloc := hreal.alloc hwf hv.rootDir
    have hnl : notLink s c := by
      rcases hreal.found_cases with ⟨_, _, rfl⟩ | ⟨_, _, _, _, _, hnl⟩
      · exact notLink_of_dir hv.rootDir
      · exact hnl rfl
    cases hg : s.get c with
    | none => simp [hg] at halloc
    | some n =>
      cases n with
      | symlink ms lk => exact absurd hg (hnl ms lk)
      | dir md chd => simp [mkdirAll, he, hc, hg, isDirAt]
      | file mf df nl id => simp [mkdirAll, he, hc, hg, isDirAt]
  | missingLast par nm path =>
    rw [hr] at h hreal; simp only [AgreesS] at h
    obtain ⟨he, hc, hpar, hlast, hpi⟩ := h
    have hpi := hpi (by decide)
    obtain ⟨hnone, hpd⟩ := hreal.missing_facts
    simp only [RealRes] at hreal
    obtain ⟨nms, anc, rfl, _, _, _, _⟩ := hreal
    have hloop : mkdirAllLoop v perm ((lastIter (nms.reverse ++ [nm])).path.length + 2) s par
        (lastIter (nms.reverse ++ [nm])) = mkChain v perm s par [nm] :=
      mkdirAllLoop_chain v perm [] nm _ s par _ ⟨lastIter_part _ _, fun _ => lastIter_isLast _, fun h => absurd rfl h⟩
        (by simp) (by simp) hnone hpd (fresh_of_wf hwf)
    simp only
    by_cases hd : dirPerm s par (omWrite ||| omLookup) v = true
    · simp [mkdirAll, hc, hpar, hd, hpi, hloop, mkChain]
    · simp [mkdirAll, hc, hpar, hd]
  | missingDir =>
    rw [hr] at h; simp only [AgreesS] at h
    obtain ⟨he, hrest⟩ := h
    obtain ⟨hnl, rds, anc, c, rest, hstop, hchain, hpl, hc, hrestp, hne, hnone, hchild, hit⟩ := hrest (by decide)
    obtain ⟨par, hwp⟩ := chain_walkPath hchain
    obtain ⟨md, chd, hgd, _⟩ := hchain.perm
    have hpd : isDirAt s (searchNode s v p .eval).parent = true := isDirAt_of_get hgd
    rw [hstop]
    refine ⟨⟨par, hwp⟩, hpd, ?_, ?_, hnone, ?_⟩
    · obtain ⟨r0, rs, rfl⟩ := List.exists_cons_of_ne_nil hne
      simp
    · intro x hx
      simp at hx
      rcases hx with rfl | hx
      · exact hc
      · exact hrestp x hx
    · have hfuel : (searchNode s v p .eval).pi.path.length + 2 ≥ rest.length + 1 := by
        obtain ⟨_, _, hr3⟩ := hit
        obtain ⟨pre, hp1, _⟩ := hr3 hne
        have := length_joinWith_ge SL rest (fun x hx => (hrestp x hx).1)
        rw [hp1]
        simp
        omega
      have hloop := mkdirAllLoop_chain v perm rest c _ s _ _ hit (plain_hall hrestp) hfuel hnone hpd (fresh_of_wf hwf)
      by_cases hd : dirPerm s (searchNode s v p .eval).parent (omWrite ||| omLookup) v = true
      · simp [mkdirAll, hchild, hd, hloop]
      · simp [mkdirAll, hchild, hd]
  | notDir =>
    rw [hr] at h; simp only [AgreesS] at h
    obtain ⟨he, c, mf, d, nl, id, hc, hg⟩ := h
    simp [mkdirAll, hc, hg]
  | denied =>
    rw [hr] at h; simp only [AgreesS] at h
    obtain ⟨he, ⟨c, md, ch, hc, hg⟩ | ⟨hc, hd⟩⟩ := h
    · simp [mkdirAll, hc, hg, he, SErr.toErr]
    · simp [mkdirAll, hc, hd]
  | loop =>
    rw [hr] at h; simp only [AgreesS] at h
    obtain ⟨he, c, ms, t, hc, hg, hch⟩ := h
    have hch := hch (by decide)
    refine ⟨(searchNode s v p .eval).parent, ?_⟩
    by_cases hd : dirPerm s (searchNode s v p .eval).parent (omWrite ||| omLookup) v = true
    · simp [mkdirAll, hc, hg, hd, mkdirAllLoop, hch]
    · simp [mkdirAll, hc, hg, hd]

/-! #### RemoveAll -/

/-- RemoveAll on `p` IS RemoveAll on the real path of the entry found -/
theorem removeAll_real (s : Store) (root : Ino) (v : View) (hwf : WF s root) (hv : ViewOK s v) (hl : LinksOK s)
    (p : Bytes) (hp : p ≠ []) (par c : Ino) (path : List Bytes)
    (hr : nameiPath s v false (absComps v p) = .found par c path) :
    removeAll s v p = removeAll s v (SL :: joinWith SL path) := by
  have hpe : p.isEmpty = false := by cases p <;> simp_all
  have hr' : nameiPath s v (SlMode.lstat != .lstat) (absComps v p) = .found par c path := by
    rw [lstat_mode_nofollow]; exact hr
  obtain ⟨h1, h2⟩ := searchNode_real_found s root v hwf hv hl p .lstat (by decide) hr'
  unfold removeAll
  simp only [hpe, h1, h2]
  rfl

/-- RemoveAll = rm -rf on ANY non-empty path: links on the way are followed, the last component is not (a link is
    removed itself); the statement of `removeAll_posix` holds with the REAL parent and the last name of the real
    path; the root of the view, however it is reached, is EINVAL -/
theorem removeAll_links (s : Store) (root : Ino) (v : View) (hwf : WF s root) (hv : ViewOK s v) (hl : LinksOK s)
    (p : Bytes) (hp : p ≠ []) :
    match nameiPath s v false (absComps v p) with
    | .loop => removeAll s v p = (s, .err .ELOOP)
    | .found _ _ [] => removeAll s v p = (s, .err .EINVAL)
    | r =>
      match posixRemoveAll r.toWalk with
      | .done => removeAll s v p = (s, .ok .unit)
      | .fail e => removeAll s v p = (s, .err e)
      | .remove par c =>
          Edge s par r.lastName c ∧
          (isNonEmptyDir s c = true → ¬ (TreeWritable s v c ∧ TreeUnrestricted s v c) →
            ∃ s1 e, (e = .EACCES ∨ e = .EPERM) ∧ removeAll s v p = (s1, .err e) ∧
              RAGood root s c s1 ∧ Keeps s s1) ∧
          ((isNonEmptyDir s c = true → TreeWritable s v c ∧ TreeUnrestricted s v c) →
            ∃ s1, Emptied root s c s1 ∧ (isNonEmptyDir s c = false → s1 = s) ∧
              TreeRemoved root s par r.lastName c (deleteNode (removeChild s1 par r.lastName) c) ∧
              removeAll s v p =
                if !dirPerm s par omWrite v then (s1, .err .EACCES)
                else if restrictedDeletion s v par c then (s1, .err .EPERM)
                else (deleteNode (removeChild s1 par r.lastName) c, .ok .unit))
      | .outside => False := by
  have h := searchNode_agreesS s root v hwf hv hl p .lstat
  have hreal := nameiPath_resReal s v hv false p
  have hpe : p.isEmpty = false := by cases p <;> simp_all
  rw [lstat_mode_nofollow] at h
  cases hr : nameiPath s v false (absComps v p) with
  | found par c path =>
    rw [hr] at h hreal; simp only [AgreesS] at h
    obtain ⟨he, hc, hpar, hpi, _⟩ := h
    rcases hreal.found_cases with ⟨rfl, rfl, rfl⟩ | ⟨nm, hne, hlastn, hedge, hpd, _⟩
    · simp [removeAll, hpe, he, hc, hpar]
    · obtain ⟨x, xs, rfl⟩ := List.exists_cons_of_ne_nil hne
      have heq := removeAll_real s root v hwf hv hl p hp par c _ hr
      have hpl := hreal.found_plain
      have hg := removeAll_posix_gen s root v hwf (get_of_isDirAt hv.rootDir) (x :: xs) hne (plain_hall hpl)
        (fun c hc => (hpl c hc).2.2)
      rw [hreal.walkL_found, ← heq] at hg
      have hl2 : (x :: xs).getLast hne = nm := by
        have := List.getLast?_eq_some_getLast hne
        rw [hlastn] at this
        exact (Option.some.inj this).symm
      simp only [posixRemoveAll, hl2] at hg
      simp only [Res.toWalk, posixRemoveAll, Res.lastName, hlastn, Option.getD_some]
      exact hg
  | missingLast par nm path =>
    rw [hr] at h; simp only [AgreesS] at h
    simp [Res.toWalk, posixRemoveAll, removeAll, hpe, h.1]
  | missingDir =>
    rw [hr] at h; simp only [AgreesS] at h
    simp [Res.toWalk, posixRemoveAll, removeAll, hpe, h.1]
  | notDir =>
    rw [hr] at h; simp only [AgreesS] at h
    simp [Res.toWalk, posixRemoveAll, removeAll, hpe, h.1, SErr.toErr]
  | denied =>
    rw [hr] at h; simp only [AgreesS] at h
    simp [Res.toWalk, posixRemoveAll, removeAll, hpe, h.1, SErr.toErr]
  | loop =>
    rw [hr] at h; simp only [AgreesS] at h
    simp [removeAll, hpe, h.1, SErr.toErr]

/-! #### Chown / Lchown -/

/-- Chown (every link followed) / Lchown (the last component not followed) = chown(2) / lchown(2) on ANY path, for an
    administrator; anybody else is refused with EPERM before the path is looked at (`chown_user`) -/
theorem chown_links (s : Store) (root : Ino) (v : View) (hwf : WF s root) (hv : ViewOK s v) (hl : LinksOK s)
    (p : Bytes) (uid gid : Int) (m : SlMode) (hadm : v.admin = true) :
    match nameiPath s v (m != .lstat) (absComps v p) with
    | .loop => chown s v p uid gid m = (s, .err .ELOOP)
    | r =>
      match posixChown s v uid gid r.toWalk with
      | .fail e => chown s v p uid gid m = (s, .err e)
      | .update c n => chown s v p uid gid m = (s.set c n, .ok .unit)
      | .outside => False := by
  have h := searchNode_agreesS s root v hwf hv hl p m
  have hreal := nameiPath_resReal s v hv (m != .lstat) p
  cases hr : nameiPath s v (m != .lstat) (absComps v p) with
  | found par c path =>
    rw [hr] at h hreal; simp only [AgreesS] at h
    obtain ⟨he, hc, _, _, _⟩ := h
    have halloc := hreal.alloc hwf hv.rootDir
    simp only [Res.toWalk, posixChown]
    cases hg : s.get c with
    | none => simp [hg] at halloc
    | some n => simp [chown, hadm, he, hc, hg]
  | missingLast par nm path =>
    rw [hr] at h; simp only [AgreesS] at h
    simp [Res.toWalk, posixChown, chown, hadm, h.1, h.2.1, SErr.toErr]
  | missingDir =>
    rw [hr] at h; simp only [AgreesS] at h
    simp [Res.toWalk, posixChown, chown, hadm, h.1, SErr.toErr]
  | notDir =>
    rw [hr] at h; simp only [AgreesS] at h
    simp [Res.toWalk, posixChown, chown, hadm, h.1, SErr.toErr]
  | denied =>
    rw [hr] at h; simp only [AgreesS] at h
    simp [Res.toWalk, posixChown, chown, hadm, h.1, SErr.toErr]
  | loop =>
    rw [hr] at h; simp only [AgreesS] at h
    simp [chown, hadm, h.1, SErr.toErr]

/-! ### 6. Every call on `p` IS the call on the real path -/

/-- the resolution reaches the last component: it finds the entry, or everything but the last name -/
def Res.Reaches (r : Res) (path : List Bytes) : Prop :=
  (∃ par c, r = .found par c path) ∨ (∃ par nm, r = .missingLast par nm path)

theorem searchNode_real_eq (s : Store) (root : Ino) (v : View) (hwf : WF s root) (hv : ViewOK s v)
    (hl : LinksOK s) (p : Bytes) (m : SlMode) (hm : m ≠ .stat) (path : List Bytes)
    (hr : (nameiPath s v (m != .lstat) (absComps v p)).Reaches path) :
    searchNode s v p m = searchNode s v (SL :: joinWith SL path) m := by
  rcases hr with ⟨par, c, hr⟩ | ⟨par, nm, hr⟩
  · obtain ⟨h1, h2⟩ := searchNode_real_found s root v hwf hv hl p m hm hr
    rw [h1, h2]
  · obtain ⟨h1, h2⟩ := searchNode_real_missing s root v hwf hv hl p m hm hr
    rw [h1, h2]

/-- the calls that do not follow a link in the last component, on `p` and on the real path "/" ++ join `path` (the
    links ON THE WAY are followed by the resolution of `p`; the real path has none) -/
theorem nofollow_calls_real (s : Store) (root : Ino) (v : View) (hwf : WF s root) (hv : ViewOK s v)
    (hl : LinksOK s) (p : Bytes) (hp : p ≠ []) (path : List Bytes)
    (hr : (nameiPath s v false (absComps v p)).Reaches path) :
    (∀ perm, mkdir s v p perm = mkdir s v (SL :: joinWith SL path) perm) ∧
    remove s v p = remove s v (SL :: joinWith SL path) ∧
    removeAll s v p = removeAll s v (SL :: joinWith SL path) ∧
    readlink s v p = readlink s v (SL :: joinWith SL path) ∧
    stat s v p .lstat = stat s v (SL :: joinWith SL path) .lstat ∧
    (∀ old, symlink s v old p = symlink s v old (SL :: joinWith SL path)) ∧
    (∀ uid gid, chown s v p uid gid .lstat = chown s v (SL :: joinWith SL path) uid gid .lstat) := by
  have hpe : p.isEmpty = false := by cases p <;> simp_all
  have hpe' : (SL :: joinWith SL path).isEmpty = false := rfl
  have h := searchNode_real_eq s root v hwf hv hl p .lstat (by decide) path (by rw [lstat_mode_nofollow]; exact hr)
  refine ⟨fun perm => ?_, ?_, ?_, ?_, ?_, fun old => ?_, fun uid gid => ?_⟩
  · simp only [mkdir, hpe, hpe', h]
  · simp only [remove, h]
  · simp only [removeAll, hpe, hpe', h]
  · simp only [readlink, h]
  · simp only [stat, h]
  · simp only [symlink, h]
  · simp only [chown, h]

/-- the calls that follow every link, on `p` and on the real path (OpenFile: up to the name the handle records) -/
theorem follow_calls_real (s : Store) (root : Ino) (v : View) (hwf : WF s root) (hv : ViewOK s v)
    (hl : LinksOK s) (p : Bytes) (hp : p ≠ []) (path : List Bytes)
    (hr : (nameiPath s v true (absComps v p)).Reaches path) :
    (∀ mode, chmod s v p mode = chmod s v (SL :: joinWith SL path) mode) ∧
    (∀ t, chtimes s v p t = chtimes s v (SL :: joinWith SL path) t) ∧
    (∀ size, truncate s v p size = truncate s v (SL :: joinWith SL path) size) ∧
    (∀ perm, mkdirAll s v p perm = mkdirAll s v (SL :: joinWith SL path) perm) ∧
    (∀ uid gid, chown s v p uid gid .eval = chown s v (SL :: joinWith SL path) uid gid .eval) ∧
    evalSymlinks s v p = evalSymlinks s v (SL :: joinWith SL path) ∧
    (∀ vid flag perm, (openFile s v vid p flag perm).1 = (openFile s v vid (SL :: joinWith SL path) flag perm).1 ∧
      (openFile s v vid p flag perm).2 =
        (openFile s v vid (SL :: joinWith SL path) flag perm).2.map (fun hd => { hd with name := p })) := by
  have hpe : p.isEmpty = false := by cases p <;> simp_all
  have hpe' : (SL :: joinWith SL path).isEmpty = false := rfl
  have h := searchNode_real_eq s root v hwf hv hl p .eval (by decide) path (by rw [eval_mode_follow]; exact hr)
  refine ⟨fun mode => ?_, fun t => ?_, fun size => ?_, fun perm => ?_, fun uid gid => ?_, ?_, fun vid flag perm => ?_⟩
  · simp only [chmod, h]
  · simp only [chtimes, h]
  · simp only [truncate, h]
  · simp only [mkdirAll, h]
  · simp only [chown, h]
  · simp only [evalSymlinks, h]
  · simp only [openFile, hpe, hpe', h]
    constructor <;> (repeat' split) <;> simp_all [Except.map]

/-- the two-path calls: each path is resolved on its own, and the call on (`po`, `pn`) is the call on the two real
    paths -/
theorem two_path_calls_real (s : Store) (root : Ino) (v : View) (hwf : WF s root) (hv : ViewOK s v)
    (hl : LinksOK s) (po pn : Bytes) (opath npath : List Bytes)
    (hro : (nameiPath s v false (absComps v po)).Reaches opath)
    (hrn : (nameiPath s v false (absComps v pn)).Reaches npath) :
    link s v po pn = link s v (SL :: joinWith SL opath) (SL :: joinWith SL npath) ∧
    rename s v po pn = rename s v (SL :: joinWith SL opath) (SL :: joinWith SL npath) := by
  have ho := searchNode_real_eq s root v hwf hv hl po .lstat (by decide) opath (by rw [lstat_mode_nofollow]; exact hro)
  have hn := searchNode_real_eq s root v hwf hv hl pn .lstat (by decide) npath (by rw [lstat_mode_nofollow]; exact hrn)
  constructor
  · simp only [link, ho, hn]
  · simp only [rename, ho, hn]

end Avfs.FS
