import Avfs.Lemmas.NameiLinks
import Avfs.Lemmas.LinksInv
import Avfs.Lemmas.WFRemove
/-
  The last hypothesis of "Rename keeps the tree well formed" (C05): `RenameSafe` — the test of `Rename` that a
  directory is not moved below itself is made on the path STRINGS held by the two iterators, the invariant needs it on
  the directory GRAPH.

  1. graph: in a well-formed heap a directory has ONE real path from the root of the view (`chain_unique`), and every
     real path of something below a directory passes through that directory (`on_chain`);
  2. strings: the path string of an extension of a real path begins with that path and a separator (`spath_prefix`);
  3. `rename_prefix_core`: both together;
  4. the walk, through the textbook resolution: the resolution that does not follow the last link (`namei … false`)
     returns real paths (`namei_real_gen`), hence, by `searchNode_eq_namei_any` (under `LinksOK`), so does
     `searchNode … .lstat` whenever it succeeds or misses only the last name: `renameSafe_resolved` — the outcomes
     after which `Rename` goes on;
  5. the walk, directly and for EVERY outcome (found, missing, not a directory, permission denied, too many links),
     with no hypothesis on the link targets: `loop_path` / `searchNode_info` — the parent returned is the end of a chain
     of real searchable directories and the iterator holds "real path of the parent / component reached / rest";
     `renameSafe_of_wf` (= `RenameSafe` for all operands) and `wf_rename_unconditional`.
-/
set_option linter.unusedVariables false
set_option linter.unusedSimpArgs false

namespace Avfs.FS
open Avfs.Path Avfs.Path.Spec

/-! ### 1. The graph: real paths are unique, and pass through every ancestor -/

theorem Desc.comp {s : Store} {a b c : Ino} (h1 : Desc s a b) (h2 : Desc s b c) : Desc s a c := by
  induction h2 with
  | refl => exact h1
  | step d n c' _ he ih => exact Desc.step d n c' ih he

theorem isDirAt_of_dirPerm {s : Store} {v : View} {i : Ino} (h : DirPerm s v i) : isDirAt s i = true := by
  obtain ⟨m, ch, hg, _⟩ := h
  exact isDirAt_of_get hg

/-- the end of a chain lies below the root of the view -/
theorem chain_desc {s : Store} {v : View} {r : Ino} : ∀ {rds : List Bytes} {x : Ino} {anc : List Ino},
    Chain s v r rds x anc → Desc s r x := by
  intro rds
  induction rds with
  | nil =>
    intro x anc h
    cases anc <;> simp [Chain] at h
    rw [h.1]; exact Desc.refl
  | cons n rds ih =>
    intro x anc h
    cases anc with
    | nil => simp [Chain] at h
    | cons p anc =>
      simp only [Chain] at h
      exact Desc.step p n x (ih h.2.2) h.1

/-- nothing reachable from the root of the view has an entry pointing at that root -/
theorem no_edge_to_viewroot {s : Store} {root : Ino} {v : View} (hwf : WF s root) (hvr : isDirAt s v.root = true)
    {d : Ino} {n : Bytes} (hd : Desc s v.root d) : ¬ Edge s d n v.root :=
  fun he => wfr_acyclic hwf he hvr hd

/-- a directory has one real path from the root of the view -/
theorem chain_unique {s : Store} {root : Ino} {v : View} (hwf : WF s root) (hvr : isDirAt s v.root = true) :
    ∀ (r1 r2 : List Bytes) (x : Ino) (a1 a2 : List Ino), Chain s v v.root r1 x a1 → Chain s v v.root r2 x a2 →
      r1 = r2 := by
  intro r1
  induction r1 with
  | nil =>
    intro r2 x a1 a2 h1 h2
    cases a1 <;> simp [Chain] at h1
    cases r2 with
    | nil => rfl
    | cons n2 r2 =>
      cases a2 with
      | nil => simp [Chain] at h2
      | cons p2 a2 =>
        simp only [Chain] at h2
        rw [h1.1] at h2
        exact absurd h2.1 (no_edge_to_viewroot hwf hvr (chain_desc h2.2.2))
  | cons n1 r1 ih =>
    intro r2 x a1 a2 h1 h2
    cases a1 with
    | nil => simp [Chain] at h1
    | cons p1 a1 =>
      simp only [Chain] at h1
      cases r2 with
      | nil =>
        cases a2 <;> simp [Chain] at h2
        rw [h2.1] at h1
        exact absurd h1.1 (no_edge_to_viewroot hwf hvr (chain_desc h1.2.2))
      | cons n2 r2 =>
        cases a2 with
        | nil => simp [Chain] at h2
        | cons p2 a2 =>
          simp only [Chain] at h2
          obtain ⟨hp, hn⟩ := hwf.uniqueParent p1 n1 p2 n2 x h1.1 h2.1 (isDirAt_of_dirPerm h1.2.1)
          subst hp; subst hn
          rw [ih r2 p1 a1 a2 h1.2.2 h2.2.2]

/-- every real path of something that lies in the subtree of `oc` passes through `oc` -/
theorem on_chain {s : Store} {root : Ino} {v : View} (hwf : WF s root) (hvr : isDirAt s v.root = true)
    {oc : Ino} (hreach : Desc s v.root oc) {x : Ino} (hd : Desc s oc x) :
    ∀ (rdsx : List Bytes) (ancx : List Ino), Chain s v v.root rdsx x ancx →
      ∃ rds1 anc1 more, Chain s v v.root rds1 oc anc1 ∧ rdsx.reverse = rds1.reverse ++ more := by
  induction hd with
  | refl => intro rdsx ancx h; exact ⟨rdsx, ancx, [], h, by simp⟩
  | step d n c hdd he ih =>
    intro rdsx ancx h
    cases rdsx with
    | nil =>
      cases ancx <;> simp [Chain] at h
      rw [h.1] at he
      exact absurd he (no_edge_to_viewroot hwf hvr (hreach.comp hdd))
    | cons n' rds' =>
      cases ancx with
      | nil => simp [Chain] at h
      | cons p' anc' =>
        simp only [Chain] at h
        obtain ⟨hp, hn⟩ := hwf.uniqueParent d n p' n' c he h.1 (isDirAt_of_dirPerm h.2.1)
        subst hp
        obtain ⟨rds1, anc1, more, hc1, heq⟩ := ih rds' anc' h.2.2
        exact ⟨rds1, anc1, more ++ [n'], hc1, by simp [heq]⟩

/-! ### 2. Strings -/

/-- the path string of a proper extension of "/a/…/n" begins with "/a/…/n/" -/
theorem spath_prefix (rds : List Bytes) (n : Bytes) (R : List Bytes) (hR : R ≠ []) :
    ((SL :: joinWith SL (rds.reverse ++ [n])) ++ [SL]).isPrefixOf
      (SL :: joinWith SL ((rds.reverse ++ [n]) ++ R)) = true := by
  have h1 : SL :: joinWith SL (rds.reverse ++ [n]) = dpath (n :: rds) := by
    have := spath_nil n rds
    simpa using this
  have h2 : SL :: joinWith SL ((rds.reverse ++ [n]) ++ R) = dpath (n :: rds) ++ SL :: joinWith SL R := by
    have := spath_split (n :: rds) R hR
    simpa using this
  rw [h1, h2, List.isPrefixOf_iff_prefix]
  exact ⟨joinWith SL R, by simp⟩

/-! ### 3. Graph and strings together -/

/-- `oc` is the entry `nm` of `par`, whose real path is `nms`; `parn` has the real path `nmsn`; when `parn` lies in
    the subtree of the directory `oc`, every path string "real path of `parn`" + something begins with the path string
    of `oc` and a separator: the test of `Rename` fires. -/
theorem rename_prefix_core {s : Store} {root : Ino} {v : View} (hwf : WF s root) (hvr : isDirAt s v.root = true)
    {par oc parn : Ino} {nm : Bytes} {nms nmsn : List Bytes} {anc ancn : List Ino} (R : List Bytes)
    (he : Edge s par nm oc) (hocd : isDirAt s oc = true) (hch : Chain s v v.root nms par anc)
    (hchn : Chain s v v.root nmsn parn ancn) (hR : R ≠ []) (hd : Desc s oc parn) :
    ((SL :: joinWith SL (nms.reverse ++ [nm])) ++ [SL]).isPrefixOf
      (SL :: joinWith SL (nmsn.reverse ++ R)) = true := by
  have hreach : Desc s v.root oc := Desc.step par nm oc (chain_desc hch) he
  obtain ⟨rds1, anc1, more, hc1, heq⟩ := on_chain hwf hvr hreach hd nmsn ancn hchn
  have hc2 : Chain s v v.root (nm :: nms) oc (par :: anc) := by
    simp only [Chain]; exact ⟨he, hc1.perm, hch⟩
  have := chain_unique hwf hvr rds1 (nm :: nms) oc anc1 (par :: anc) hc1 hc2
  subst this
  rw [heq]
  have := spath_prefix nms nm (more ++ R) (by simp [hR])
  simpa [List.append_assoc] using this

/-- … and when `parn` is the root of the view it does not lie below `oc` -/
theorem not_desc_viewroot {s : Store} {root : Ino} {v : View} (hwf : WF s root) (hvr : isDirAt s v.root = true)
    {par oc : Ino} {nm : Bytes} (he : Edge s par nm oc) (hocd : isDirAt s oc = true) (hreach : Desc s v.root par) :
    ¬ Desc s oc v.root :=
  fun hd => wfr_acyclic hwf he hocd (hd.comp hreach)

/-! ### 4. The resolution without following the last link returns real paths -/

def ResReal (s : Store) (v : View) (root : Ino) : Res → Prop
  | .found p c path => RealEntry s v root p c path
  | .missingLast p nm path => ∃ nms anc, path = nms.reverse ++ [nm] ∧ Chain s v root nms p anc
  | _ => True

theorem resReal_of_walkReal {s : Store} {v : View} {root : Ino} {r : Res} (h : WalkReal s v root (.done r)) :
    ResReal s v root r := by
  cases r <;> simp only [WalkReal, ResReal] at h ⊢
  · exact h.1
  · exact h

/-- whatever the follow mode: `found` and `missingLast` come with the REAL path of the parent -/
theorem namei_real_gen (s : Store) (v : View) (root : Ino) (f : Bool) (hr : isDirAt s root = true) :
    ∀ (b : Nat) (nms : List Bytes) (cur : Ino) (anc : List Ino) (X : List Bytes),
      ChainW s v root nms cur anc → ResReal s v root (namei s v root f b nms cur anc X) := by
  intro b
  induction b with
  | zero =>
    intro nms cur anc X h
    have hw := walk_real s v root f X nms cur anc h
    simp only [namei]
    split
    · rename_i r hwr; rw [hwr] at hw; exact resReal_of_walkReal hw
    · rename_i p c path hwr; rw [hwr] at hw; exact hw
    · trivial
  | succ b ih =>
    intro nms cur anc X h
    have hw := walk_real s v root f X nms cur anc h
    rw [namei]
    split
    · rename_i r hwr; rw [hwr] at hw; exact resReal_of_walkReal hw
    · rename_i p c path hwr; rw [hwr] at hw; exact hw
    · rename_i nms' cur' anc' t rest hwr
      rw [hwr] at hw
      split
      · exact ih [] root [] _ ⟨rfl, hr⟩
      · exact ih nms' cur' anc' _ (Chain.weak hw)

theorem nameiPath_real_gen (s : Store) (v : View) (f : Bool) (hv : ViewOK s v) (cs : List Bytes) :
    ResReal s v v.root (nameiPath s v f cs) :=
  namei_real_gen s v v.root f hv.rootDir slCountMax [] v.root [] cs ⟨rfl, hv.rootDir⟩

/-! ### 5. The two walks of `Rename`, through the textbook resolution -/

/-- the body of `RenameSafe` on two results of the walk -/
def SafeSR (s : Store) (ro rn : SR) : Prop :=
  ∀ oc, ro.child = some oc → isDirAt s oc = true →
    ¬ ((ro.pi.path ++ [SL]).isPrefixOf rn.pi.path = true) → oc ≠ ro.parent → ¬ Desc s oc rn.parent

theorem renameSafe_iff (s : Store) (v : View) (o n : Bytes) :
    RenameSafe s v o n ↔ SafeSR s (searchNode s v o .lstat) (searchNode s v n .lstat) := Iff.rfl

/-- the old walk found the entry with the real path `path`; the new walk ended in the directory `rn.parent` whose
    real path, extended by something, is what its iterator holds (or in the root of the view) -/
theorem safeSR_real {s : Store} {root : Ino} {v : View} (hwf : WF s root) (hvr : isDirAt s v.root = true)
    {ro rn : SR} {path pathn : List Bytes}
    (hro : RealEntry s v v.root ro.parent (ro.child.getD 0) path) (hop : ro.pi.path = SL :: joinWith SL path)
    (hnp : rn.pi.path = SL :: joinWith SL pathn)
    (hrn : rn.parent = v.root ∨ ∃ nmsn ancn R, R ≠ [] ∧ pathn = nmsn.reverse ++ R ∧ Chain s v v.root nmsn rn.parent ancn) :
    SafeSR s ro rn := by
  intro oc hoc hocd htest hne hd
  rw [hoc] at hro
  simp only [Option.getD_some] at hro
  rcases hro with ⟨_, hp, hc⟩ | ⟨nms, anc, nm, hpath, hch, hchild⟩
  · exact hne (hc.trans hp.symm)
  · rcases hrn with hroot | ⟨nmsn, ancn, R, hR, hpn, hchn⟩
    · rw [hroot] at hd
      exact not_desc_viewroot hwf hvr hchild hocd (chain_desc hch) hd
    · apply htest
      rw [hop, hnp, hpath, hpn]
      exact rename_prefix_core hwf hvr R hchild hocd hch hchn hR hd

theorem lstat_nofollow : (SlMode.lstat != SlMode.lstat) = false := by decide

/-- `RenameSafe` whenever both walks of `Rename` end where `Rename` goes on: the old name exists, the new name exists or
    only its last component is missing (for every other outcome `Rename` has failed before the test) -/
theorem renameSafe_resolved (s : Store) (root : Ino) (v : View) (hwf : WF s root) (hv : ViewOK s v) (hl : LinksOK s)
    (o n : Bytes) (hoe : (searchNode s v o .lstat).err = .exists)
    (hne : (searchNode s v n .lstat).err = .exists ∨
      ((searchNode s v n .lstat).err = .noent ∧ (searchNode s v n .lstat).pi.isLast = true)) :
    RenameSafe s v o n := by
  rw [renameSafe_iff]
  have hao := searchNode_eq_namei_any s root v hwf hv hl o .lstat
  have han := searchNode_eq_namei_any s root v hwf hv hl n .lstat
  have hro := nameiPath_real_gen s v false hv (comps (abs .linux o v.cwd))
  have hrn := nameiPath_real_gen s v false hv (comps (abs .linux n v.cwd))
  rw [lstat_nofollow] at hao han
  generalize searchNode s v o .lstat = ro at *
  generalize searchNode s v n .lstat = rn at *
  generalize nameiPath s v false (comps (abs .linux o v.cwd)) = wo at *
  generalize nameiPath s v false (comps (abs .linux n v.cwd)) = wn at *
  have hm : SlMode.lstat ≠ SlMode.stat := by decide
  cases wo with
  | found par c path =>
    simp only [AgreesL, ResReal] at hao hro
    obtain ⟨_, hchild, hpar, hpath⟩ := hao
    have hro' : RealEntry s v v.root ro.parent (ro.child.getD 0) path := by rw [hchild, hpar]; exact hro
    cases wn with
    | found parn cn pathn =>
      simp only [AgreesL, ResReal] at han hrn
      obtain ⟨_, _, hparn, hpathn⟩ := han
      apply safeSR_real hwf hv.rootDir hro' (hpath hm) (hpathn hm)
      rcases hrn with ⟨_, hp, _⟩ | ⟨nms, anc, nm, hpn, hch, _⟩
      · exact Or.inl (hparn.trans hp)
      · exact Or.inr ⟨nms, anc, [nm], by simp, hpn, hparn ▸ hch⟩
    | missingLast parn nmn pathn =>
      simp only [AgreesL, ResReal] at han hrn
      obtain ⟨_, _, hparn, _, hpathn⟩ := han
      obtain ⟨nms, anc, hpn, hch⟩ := hrn
      exact safeSR_real hwf hv.rootDir hro' (hpath hm) (hpathn hm).2
        (Or.inr ⟨nms, anc, [nmn], by simp, hpn, hparn ▸ hch⟩)
    | missingDir =>
      simp only [AgreesL] at han
      rcases hne with h | h
      · rw [han.1] at h; cases h
      · rw [han.2 hm] at h; cases h.2
    | notDir => simp only [AgreesL] at han; rw [han] at hne; simp at hne
    | denied => simp only [AgreesL] at han; rw [han] at hne; simp at hne
    | loop => simp only [AgreesL] at han; rw [han] at hne; simp at hne
  | missingLast par nm path => simp only [AgreesL] at hao; rw [hao.1] at hoe; cases hoe
  | missingDir => simp only [AgreesL] at hao; rw [hao.1] at hoe; cases hoe
  | notDir => simp only [AgreesL] at hao; rw [hao] at hoe; cases hoe
  | denied => simp only [AgreesL] at hao; rw [hao] at hoe; cases hoe
  | loop => simp only [AgreesL] at hao; rw [hao] at hoe; cases hoe

/-- splicing ANY link target into a path of ordinary names gives ordinary names (the splice is cleaned as a rooted
    path: "." disappears, ".." removes a name or stays at the root) -/
theorem specStep_plain (st : List Bytes) (c : Bytes) (hst : ∀ x ∈ st, Plain x) (hc : GoodC c) :
    ∀ x ∈ specStep true st c, Plain x := by
  unfold specStep
  split
  · exact hst
  · rename_i hdot
    split
    · rename_i hdd
      cases st with
      | nil => simp
      | cons top rest =>
        have htop : (top == DD) = false := by
          have := (hst top (by simp)).2.2.2
          simpa using this
        simp only [htop]
        intro x hx
        exact hst x (by simp at hx ⊢; exact Or.inr hx)
    · rename_i hdd
      intro x hx
      simp only [List.mem_cons] at hx
      rcases hx with rfl | hx
      · exact ⟨hc.1, fun y hy e => hc.2 (e ▸ hy), by simpa using hdot, by simpa using hdd⟩
      · exact hst x hx

theorem fold_plain (X : List Bytes) (hX : ∀ c ∈ X, GoodC c) : ∀ (st : List Bytes), (∀ x ∈ st, Plain x) →
    ∀ x ∈ X.foldl (specStep true) st, Plain x := by
  induction X with
  | nil => intro st h; simpa using h
  | cons c X ih =>
    intro st h
    rw [List.foldl_cons]
    exact ih (fun c hc => hX c (by simp [hc])) _ (specStep_plain st c h (hX c (by simp)))

theorem splice_plain (t : Bytes) (rds rest : List Bytes) (hr : ∀ x ∈ rds, Plain x) (hrest : ∀ x ∈ rest, Plain x) :
    ∀ x ∈ ((comps t).foldl (specStep true) rds).reverse ++ rest, Plain x := by
  intro x hx
  simp only [List.mem_append, List.mem_reverse] at hx
  rcases hx with hx | hx
  · exact fold_plain (comps t) (comps_good t) rds hr x hx
  · exact hrest x hx

/-! ### 6. Every outcome of the walk: the parent returned has a real path, and the iterator holds it -/

/-- the iterator stands on the component `c` of "/rds…/c/rest…", all of whose components are ordinary names -/
structure IterAt (it : Iter) (rds : List Bytes) (c : Bytes) (rest : List Bytes) : Prop where
  path : it.path = dpath rds ++ SL :: joinWith SL (c :: rest)
  start : it.start = (dpath rds).length + 1
  stop : it.stop1 = (dpath rds).length + 1 + c.length + 1
  vol : it.volLen = 0
  part : it.part = some c
  last : it.isLast = true ↔ rest = []
  plainR : ∀ x ∈ rds, Plain x
  plainC : Plain c
  plainRest : ∀ x ∈ rest, Plain x

/-- what the walk returns, whatever the outcome (found, missing, not a directory, permission denied, too many
    links): the whole path is "/" (the root of the view is parent and child), or the root of the view may not be searched
    (it is the parent, there is no child), or the parent is the end of a chain
    `rds` of real searchable directories, the iterator holds "/rds…/c/rest…" — real path of the parent, then the
    component `c` on which the walk stopped, then what was not walked — a returned child is the entry `c` of the parent,
    and a returned DIRECTORY is either the result (`exists`, nothing left to walk) or may not be searched;
    the iterator stands on `c` (`IterAt`) -/
def LoopInfo (s : Store) (v : View) (r : SR) : Prop :=
  (r.parent = v.root ∧ r.child = some v.root ∧ r.err = .exists ∧ r.pi.path = [SL]) ∨
  (r.parent = v.root ∧ r.child = none ∧ r.err = .acces ∧ ∃ c rest, IterAt r.pi [] c rest) ∨
  ∃ rds anc c rest, Chain s v v.root rds r.parent anc ∧
    r.pi.path = SL :: joinWith SL (rds.reverse ++ c :: rest) ∧
    (∀ x, r.child = some x → s.child r.parent c = some x ∧
      (isDirAt s x = true → (r.err = .exists ∧ rest = []) ∨ ¬ DirPerm s v x)) ∧
    IterAt r.pi rds c rest

theorem loopInfo_mk {s : Store} {v : View} {rds : List Bytes} {anc : List Ino} {cur : Ino} {c : Bytes}
    {rest : List Bytes} {it1 : Iter} (ch : Option Ino) (e : SErr)
    (hchain : Chain s v v.root rds cur anc) (hat : IterAt it1 rds c rest)
    (hc : ∀ x, ch = some x → s.child cur c = some x ∧
      (isDirAt s x = true → (e = .exists ∧ rest = []) ∨ ¬ DirPerm s v x)) :
    LoopInfo s v ⟨cur, ch, it1, e⟩ :=
  Or.inr (Or.inr ⟨rds, anc, c, rest, hchain, by rw [hat.path, spath_split rds (c :: rest) (by simp)], hc, hat⟩)

theorem loop_path {s : Store} {root : Ino} {v : View} (hwf : WF s root) (m : SlMode) (hm : m ≠ .stat) :
    ∀ (fuel : Nat) (rds : List Bytes) (cur : Ino) (anc : List Ino) (c : Bytes) (rest : List Bytes) (it : Iter)
      (sl : Nat),
      Chain s v v.root rds cur anc → (∀ x ∈ rds, Plain x) → Plain c → (∀ x ∈ rest, Plain x) →
      it.path = dpath rds ++ SL :: joinWith SL (c :: rest) → it.stop1 = (dpath rds).length + 1 → it.volLen = 0 →
      measureT s sl it ≤ fuel →
      LoopInfo s v (searchLoop s v m v.root fuel cur it sl none) := by
  intro fuel
  induction fuel with
  | zero =>
    intro rds cur anc c rest it sl _ _ _ _ _ _ _ hmeas
    have := measure_pos s sl it
    omega
  | succ fuel ih =>
    intro rds cur anc c rest it sl hchain hpl hc hrest hp hst hvl hmeas
    obtain ⟨it1, hnext, hpart, hlast, hp1, hst1, hsp1, hvl1'⟩ := next_at it rds c rest hp hst hc
    have hvl1 : it1.volLen = 0 := by rw [hvl1']; exact hvl
    obtain ⟨md, chd, hgd, hperm⟩ := hchain.perm
    have hms : (m == SlMode.stat) = false := by simpa using hm
    have hp1' : IterAt it1 rds c rest := ⟨hp1.trans hp, hst1, hsp1, hvl1, hpart, hlast, hpl, hc, hrest⟩
    cases hch : s.child cur c with
    | none =>
      have hres : searchLoop s v m v.root (fuel + 1) cur it sl none = ⟨cur, none, it1, .noent⟩ := by
        rw [searchLoop]; simp [hnext, hpart, hgd, hperm, hch]
      rw [hres]
      exact loopInfo_mk none .noent hchain hp1' (by intro x hx; cases hx)
    | some i =>
      have halloc := hwf.alloc cur c i hch
      cases hg : s.get i with
      | none => simp [hg] at halloc
      | some n =>
        cases n with
        | dir mi chi =>
          cases rest with
          | nil =>
            have hl1 : it1.isLast = true := hlast.mpr rfl
            have hres : searchLoop s v m v.root (fuel + 1) cur it sl none = ⟨cur, some i, it1, .exists⟩ := by
              rw [searchLoop]; simp [hnext, hpart, hgd, hperm, hch, hg, hl1]
            rw [hres]
            exact loopInfo_mk (some i) .exists hchain hp1'
              (by intro x hx; cases hx; exact ⟨hch, fun _ => Or.inl ⟨rfl, rfl⟩⟩)
          | cons c2 cs =>
            have hl1 : it1.isLast = false := by
              have : ¬ it1.isLast = true := fun h => by have := hlast.mp h; cases this
              simpa using this
            by_cases hpi : checkPerm mi omLookup v = true
            · have hres : searchLoop s v m v.root (fuel + 1) cur it sl none =
                  searchLoop s v m v.root fuel i it1 sl none := by
                rw [searchLoop]; simp [hnext, hpart, hgd, hperm, hch, hg, hl1, hpi]
              rw [hres]
              exact ih (c :: rds) i (cur :: anc) c2 cs it1 sl
                (by simp only [Chain]; exact ⟨hch, ⟨mi, chi, hg, hpi⟩, hchain⟩)
                (by intro x hx; simp at hx; rcases hx with rfl | hx; exact hc; exact hpl x hx)
                (hrest c2 (by simp)) (fun x hx => hrest x (by simp [hx]))
                (by rw [hp1, hp, joinWith_cons_cons, dpath]; simp)
                (by rw [hsp1, dpath]; simp; omega) hvl1
                (by
                  have := measure_advance s sl it it1 hp1 (by rw [hst, hsp1]; omega) (by rw [hst, hp]; simp)
                  omega)
            · have hpi' : checkPerm mi omLookup v = false := by simpa using hpi
              have hres : searchLoop s v m v.root (fuel + 1) cur it sl none = ⟨cur, some i, it1, .acces⟩ := by
                rw [searchLoop]; simp [hnext, hpart, hgd, hperm, hch, hg, hl1, hpi']
              rw [hres]
              refine loopInfo_mk (some i) .acces hchain hp1' ?_
              intro x hx; cases hx
              refine ⟨hch, fun _ => Or.inr ?_⟩
              rintro ⟨m', ch', hg', hp'⟩
              rw [hg] at hg'; cases hg'
              rw [hp'] at hpi'; cases hpi'
        | file mf df nl id =>
          have hnd : isDirAt s i = false := by simp [isDirAt, hg]
          have hcond : ∀ (e : SErr) (x : Ino), some i = some x → s.child cur c = some x ∧
              (isDirAt s x = true → (e = .exists ∧ rest = []) ∨ ¬ DirPerm s v x) := by
            intro e x hx; cases hx
            exact ⟨hch, fun h => by rw [hnd] at h; cases h⟩
          cases hl1 : it1.isLast with
          | true =>
            have hres : searchLoop s v m v.root (fuel + 1) cur it sl none = ⟨cur, some i, it1, .exists⟩ := by
              rw [searchLoop]; simp [hnext, hpart, hgd, hperm, hch, hg, hl1]
            rw [hres]
            exact loopInfo_mk (some i) .exists hchain hp1' (hcond _)
          | false =>
            have hres : searchLoop s v m v.root (fuel + 1) cur it sl none = ⟨cur, some i, it1, .notdir⟩ := by
              rw [searchLoop]; simp [hnext, hpart, hgd, hperm, hch, hg, hl1]
            rw [hres]
            exact loopInfo_mk (some i) .notdir hchain hp1' (hcond _)
        | symlink ms t =>
          have hnd : isDirAt s i = false := by simp [isDirAt, hg]
          have hcond : ∀ (e : SErr) (x : Ino), some i = some x → s.child cur c = some x ∧
              (isDirAt s x = true → (e = .exists ∧ rest = []) ∨ ¬ DirPerm s v x) := by
            intro e x hx; cases hx
            exact ⟨hch, fun h => by rw [hnd] at h; cases h⟩
          by_cases hx : (it1.isLast && m == .lstat) = true
          · have hres : searchLoop s v m v.root (fuel + 1) cur it sl none = ⟨cur, some i, it1, .exists⟩ := by
              rw [searchLoop]; simp [hnext, hpart, hgd, hperm, hch, hg, hx]
            rw [hres]
            exact loopInfo_mk (some i) .exists hchain hp1' (hcond _)
          · by_cases hcount : sl + 1 > slCountMax
            · have hres : searchLoop s v m v.root (fuel + 1) cur it sl none = ⟨cur, some i, it1, .loop⟩ := by
                rw [searchLoop]; simp [hnext, hpart, hgd, hperm, hch, hg, hx, hcount]
              rw [hres]
              exact loopInfo_mk (some i) .loop hchain hp1' (hcond _)
            · obtain ⟨it2, reset, hrep, hp2, hvl2, hlen2, hres, hnres⟩ :=
                replace_links it1 rds c rest t hpl hc hrest (by rw [hp1, hp]) hst1 hsp1 hvl1
              have hlink := link_le_maxLinkLen s i ms t hg
              have hmeas2 : measureT s (sl + 1) it2 ≤ fuel := by
                have := measure_replace s sl it it2 (by omega) (by rw [hp1] at hlen2; omega)
                  (by cases reset with
                      | true => rw [hres rfl]; exact Nat.le_refl _
                      | false => rw [(hnres rfl).1]; omega)
                omega
              have cont : ∀ (Lc : List Bytes), (∀ x ∈ Lc, Plain x) → it2.path = SL :: joinWith SL Lc →
                  LoopInfo s v (searchLoop s v m v.root fuel (if reset then v.root else cur) it2 (sl + 1) none) := by
                intro Lc hLc hp2
                cases reset with
                | true =>
                  have hs2 : it2.stop1 = 1 := hres rfl
                  cases Lc with
                  | nil =>
                    obtain ⟨k, rfl⟩ : ∃ k, fuel = k + 1 := ⟨fuel - 1, by have := measure_pos s (sl + 1) it2; omega⟩
                    simp [joinWith] at hp2
                    have hres0 : searchLoop s v m v.root (k + 1) v.root it2 (sl + 1) none =
                        ⟨v.root, some v.root, (it2.next .linux).1, .exists⟩ := by
                      rw [searchLoop]; simp [Iter.next, hp2, hs2]
                    simp only [if_true]
                    rw [hres0]
                    refine Or.inl ⟨rfl, rfl, rfl, ?_⟩
                    have : (it2.next .linux).1.path = it2.path := by simp only [Iter.next]; split <;> rfl
                    show (it2.next .linux).1.path = [SL]
                    rw [this, hp2]
                  | cons c' rest' =>
                    exact ih [] v.root [] c' rest' it2 (sl + 1) (chain_root hchain.root_perm)
                      (by simp) (hLc c' (by simp)) (fun x hx => hLc x (by simp [hx]))
                      (by rw [hp2]; simp [dpath]) (by rw [hs2]; simp [dpath]) hvl2 hmeas2
                | false =>
                  obtain ⟨hs2, hlt2, htk2⟩ := hnres rfl
                  obtain ⟨c', rest', hLc2⟩ := noreset_shape it2.path Lc rds (fun x hx => (hLc x hx).good)
                    (fun x hx => (hpl x hx).good) hp2 hlt2 htk2
                  have hmem : ∀ x ∈ c' :: rest', Plain x :=
                    fun x hx => hLc x (by rw [hLc2]; simp at hx ⊢; exact Or.inr hx)
                  exact ih rds cur anc c' rest' it2 (sl + 1) hchain hpl (hmem c' (by simp))
                    (fun x hx => hmem x (by simp [hx]))
                    (by rw [hp2, hLc2]; exact spath_split rds (c' :: rest') (by simp)) hs2 hvl2 hmeas2
              have hloop : searchLoop s v m v.root (fuel + 1) cur it sl none =
                  searchLoop s v m v.root fuel (if reset then v.root else cur) it2 (sl + 1) none := by
                rw [searchLoop]
                simp [hnext, hpart, hgd, hperm, hch, hg, hcount, hx, hrep, hms]
              rw [hloop]
              by_cases ha : isAbs .linux t = true
              · exact cont _ (splice_plain t [] rest (by simp) hrest) (by rw [hp2, if_pos ha])
              · exact cont _ (splice_plain t rds rest hpl hrest) (by rw [hp2, if_neg ha])

/-- every walk that does not restore the iterator (`slmLstat`, `slmEval`), on ANY path -/
theorem searchNode_info (s : Store) (root : Ino) (v : View) (hwf : WF s root) (hv : ViewOK s v)
    (p : Bytes) (m : SlMode) (hm : m ≠ .stat) : LoopInfo s v (searchNode s v p m) := by
  obtain ⟨cs, hcs, hpl⟩ := abs_shape p v.cwd hv.cwdAbs
  unfold searchNode
  simp only [hcs]
  have hfuel := searchFuel_ge s (SL :: joinWith SL cs)
  obtain ⟨k, hk⟩ : ∃ k, searchFuel s (SL :: joinWith SL cs) = k + 1 := ⟨_, (Nat.sub_add_cancel (by omega)).symm⟩
  cases cs with
  | nil =>
    rw [hk, searchLoop]
    simp [joinWith, Iter.new, Iter.next, volumeNameLen, LoopInfo]
  | cons c rest =>
    obtain ⟨mr, chr, hgr⟩ := get_of_isDirAt hv.rootDir
    by_cases hperm : checkPerm mr omLookup v = true
    · exact loop_path hwf m hm _ [] v.root [] c rest (Iter.new .linux (SL :: joinWith SL (c :: rest))) 0
        (chain_root ⟨mr, chr, hgr, hperm⟩) (by simp) (hpl c (by simp))
        (fun x hx => hpl x (by simp [hx])) (by simp [Iter.new, dpath]) (by simp [Iter.new, dpath, volumeNameLen])
        rfl (measure_init s _)
    · have hperm' : checkPerm mr omLookup v = false := by simpa using hperm
      obtain ⟨it1, hnext, hpart, hlast, hp1, hst1, hsp1, hvl1⟩ :=
        next_at (Iter.new .linux (SL :: joinWith SL (c :: rest))) [] c rest
          (by simp [Iter.new, dpath]) (by simp [Iter.new, dpath, volumeNameLen]) (hpl c (by simp))
      have hat : IterAt it1 [] c rest :=
        ⟨by rw [hp1]; simp [Iter.new, dpath], hst1, hsp1, by rw [hvl1]; rfl, hpart, hlast, by simp, hpl c (by simp),
          fun x hx => hpl x (by simp [hx])⟩
      have hres : searchLoop s v m v.root (k + 1) v.root (Iter.new .linux (SL :: joinWith SL (c :: rest))) 0 none =
          ⟨v.root, none, it1, .acces⟩ := by
        rw [searchLoop]; simp [hnext, hpart, hgr, hperm']
      rw [hk, hres]
      exact Or.inr (Or.inl ⟨rfl, rfl, rfl, c, rest, hat⟩)

/-- the test on the strings implies the condition on the graph, for any two results of the walk -/
theorem safeSR_of_info {s : Store} {root : Ino} {v : View} (hwf : WF s root) (hvr : isDirAt s v.root = true)
    {ro rn : SR} (ho : LoopInfo s v ro) (hn : LoopInfo s v rn) : SafeSR s ro rn := by
  intro oc hoc hocd htest hne hd
  rcases ho with ⟨hp, h, _⟩ | ⟨_, h, _⟩ | ⟨rds, anc, c, rest, hch, hop, hchild, _⟩
  · rw [h] at hoc; exact hne ((Option.some.inj hoc).symm.trans hp.symm)
  · rw [h] at hoc; cases hoc
  · obtain ⟨hedge, hdir⟩ := hchild oc hoc
    have hreach : Desc s v.root oc := Desc.step _ c oc (chain_desc hch) hedge
    rcases hn with ⟨hroot, _⟩ | ⟨hroot, _⟩ | ⟨rdsn, ancn, cn, restn, hchn, hnp, _, _⟩
    · rw [hroot] at hd
      exact not_desc_viewroot hwf hvr hedge hocd (chain_desc hch) hd
    · rw [hroot] at hd
      exact not_desc_viewroot hwf hvr hedge hocd (chain_desc hch) hd
    · rcases hdir hocd with ⟨_, hrest⟩ | hnp'
      · subst hrest
        apply htest
        rw [hop, hnp]
        exact rename_prefix_core hwf hvr (cn :: restn) hedge hocd hch hchn (by simp) hd
      · obtain ⟨rds1, anc1, more, hc1, _⟩ := on_chain hwf hvr hreach hd rdsn ancn hchn
        exact hnp' hc1.perm

/-- MAIN THEOREM. In a well-formed heap, for ANY two paths (relative, unclean, through any number of symbolic links
    with ANY targets), any view (rooted anywhere) and any user: when the string test of `Rename` does not fire, the new
    parent is not inside the directory moved.  No hypothesis on the links is needed: the walk follows the STRING it
    has built, so the string it returns always spells the real path of the parent it returns (`searchNode_info`). -/
theorem renameSafe_of_wf (s : Store) (root : Ino) (v : View) (hwf : WF s root) (hv : ViewOK s v)
    (o n : Bytes) : RenameSafe s v o n :=
  (renameSafe_iff s v o n).2 (safeSR_of_info hwf hv.rootDir
    (searchNode_info s root v hwf hv o .lstat (by decide))
    (searchNode_info s root v hwf hv n .lstat (by decide)))

/-- the statement as requested (`LinksOK`, an invariant of MemFS — `linksOK_reachable` — is not even used) -/
theorem renameSafe_of_linksOK (s : Store) (root : Ino) (v : View) (hwf : WF s root) (hv : ViewOK s v)
    (_hl : LinksOK s) (o n : Bytes) : RenameSafe s v o n :=
  renameSafe_of_wf s root v hwf hv o n

/-- the same, read the other way: a destination inside the directory moved always makes the test fire -/
theorem rename_test_fires (s : Store) (root : Ino) (v : View) (hwf : WF s root) (hv : ViewOK s v) (o n : Bytes)
    (oc : Ino) (hoc : (searchNode s v o .lstat).child = some oc) (hd : isDirAt s oc = true)
    (hne : oc ≠ (searchNode s v o .lstat).parent) (hdesc : Desc s oc (searchNode s v n .lstat).parent) :
    ((searchNode s v o .lstat).pi.path ++ [SL]).isPrefixOf (searchNode s v n .lstat).pi.path = true := by
  have h := renameSafe_of_wf s root v hwf hv o n
  unfold RenameSafe at h
  exact Classical.byContradiction fun ht => h oc hoc hd ht hne hdesc

/-- `Rename` keeps the tree well formed — no side condition left -/
theorem wf_rename_unconditional (s : Store) (root : Ino) (v : View) (o n : Bytes) (hwf : WF s root)
    (hn : NamesOK s) (hv : ViewOK s v) (hroot : v.root = root ∨ ∃ d n, Edge s d n v.root) :
    WF (rename s v o n).1 root :=
  wf_rename s root v o n hwf (searchOK_of_wf s root v hwf hn hv) hroot (renameSafe_of_wf s root v hwf hv o n)

end Avfs.FS
