import Avfs.FS.SearchSpec
set_option linter.unusedSimpArgs false
set_option linter.unusedVariables false

/-! # `step`, one equation per call (the view `vid` is bound to `v`) -/

namespace Avfs.FS
open Avfs.Path

/-- the body of `step` for `writeFile` -/
def writeFileV (st : FSState) (v : View) (vid : Nat) (p data : Bytes) (perm : Nat) : FSState × Out :=
  match openFile st.store v vid p oWRONLY_CREATE_TRUNC perm with
  | (s1, .error e) => ({ st with store := s1 }, .err e)
  | (s1, .ok h) =>
    let (s2, _, _, o) := fileStep s1 v h (.write data)
    ({ st with store := s2 }, match o with | .ok _ => .ok .unit | o => o)

/-- the body of `step` for `mkdirTemp` -/
def mkdirTempV (st : FSState) (v : View) (dir pat rnd : Bytes) : FSState × Out :=
  let dir := if dir.isEmpty then tempDir else dir
  match prefixAndSuffix pat with
  | none => (st, .err .patternSep)
  | some (pre, suf) =>
    let name := joinPath dir pre ++ rnd ++ suf
    match mkdir st.store v name 0o700 with
    | (s1, .ok _) => ({ st with store := s1 }, .ok (.bytes name))
    | (_, .err .ENOENT) => (st, .err .ENOENT)
    | (_, o) => (st, o)

/-- the body of `step` for `createTemp` -/
def createTempV (st : FSState) (v : View) (vid : Nat) (dir pat rnd : Bytes) : FSState × Out :=
  let dir := if dir.isEmpty then tempDir else dir
  match prefixAndSuffix pat with
  | none => (st, .err .patternSep)
  | some (pre, suf) =>
    let name := joinPath dir pre ++ rnd ++ suf
    let (s1, r) := openFile st.store v vid name oRDWR_CREATE_EXCL 0o600
    registerHandle st s1 r

/-- the body of `step` for a handle operation -/
def fileV (st : FSState) (hid : Nat) (op : FOp) : FSState × Out :=
  match st.handle hid with
  | none => (st, .err .invalid)
  | some h =>
    match st.view h.view with
    | none => (st, .err .invalid)
    | some hv =>
      let (s1, hv1, h1, o) := fileStep st.store hv h op
      ({ (st.setView h.view hv1) with store := s1, handles := AL.insert hid h1 st.handles }, o)

/-- `step` with the view lookup resolved -/
def stepV (st : FSState) (vid : Nat) (v : View) : Call → FSState × Out
  | .mkdir p perm => withStore st (mkdir st.store v p perm)
  | .mkdirAll p perm => withStore st (mkdirAll st.store v p perm)
  | .openFile p flag perm => registerHandle st (openFile st.store v vid p flag perm).1 (openFile st.store v vid p flag perm).2
  | .create p => registerHandle st (openFile st.store v vid p oRDWR_CREATE_TRUNC 0o666).1
      (openFile st.store v vid p oRDWR_CREATE_TRUNC 0o666).2
  | .remove p => withStore st (remove st.store v p)
  | .removeAll p => withStore st (removeAll st.store v p)
  | .rename o n => withStore st (rename st.store v o n)
  | .link o n => withStore st (link st.store v o n)
  | .symlink o n => withStore st (symlink st.store v o n)
  | .truncate p sz => withStore st (truncate st.store v p sz)
  | .chmod p m => withStore st (chmod st.store v p m)
  | .chown p u g => withStore st (chown st.store v p u g .eval)
  | .lchown p u g => withStore st (chown st.store v p u g .lstat)
  | .chtimes p t => withStore st (chtimes st.store v p t)
  | .chdir p => (st.setView vid (chdir st.store v p).1, (chdir st.store v p).2)
  | .stat p => withStore st (stat st.store v p .stat)
  | .lstat p => withStore st (stat st.store v p .lstat)
  | .readDir p => (st, readDir st.store v vid p)
  | .readFile p => (st, readFile st.store v vid p)
  | .readlink p => withStore st (readlink st.store v p)
  | .evalSymlinks p => withStore st (evalSymlinks st.store v p)
  | .getwd => (st, .ok (.bytes v.cwd))
  | .writeFile p data perm => writeFileV st v vid p data perm
  | .mkdirTemp dir pat rnd => mkdirTempV st v dir pat rnd
  | .createTemp dir pat rnd => createTempV st v vid dir pat rnd
  | .sub p =>
    match sub st.store v p with
    | .error e => (st, .err e)
    | .ok nv => ({ st with views := AL.insert st.nextView nv st.views, nextView := st.nextView + 1 }, .ok (.view st.nextView))
  | .setUser uid gid admin => (st.setView vid { v with uid := uid, gid := gid, admin := admin }, .ok .unit)
  | .setUMask m => (st.setView vid { v with umask := m }, .ok .unit)
  | .file hid op => fileV st hid op

theorem step_none (st : FSState) (vid : Nat) (c : Call) (h : st.view vid = none) :
    step st vid c = (st, .err .invalid) := by
  unfold step; rw [h]

theorem step_some (st : FSState) (vid : Nat) (v : View) (c : Call) (h : st.view vid = some v) :
    step st vid c = stepV st vid v c := by
  unfold step; rw [h]
  cases c <;> rfl

theorem withStore_fst_eq (st : FSState) (r : Store × Out) (h : r.1 = st.store) : (withStore st r).1 = st := by
  cases st; simp_all [withStore]

@[simp] theorem withStore_snd (st : FSState) (r : Store × Out) : (withStore st r).2 = r.2 := rfl
@[simp] theorem withStore_views (st : FSState) (r : Store × Out) : (withStore st r).1.views = st.views := rfl
@[simp] theorem withStore_view (st : FSState) (r : Store × Out) (w : Nat) : (withStore st r).1.view w = st.view w := rfl

end Avfs.FS
