import Avfs.Lemmas.StepBase
set_option linter.unusedSimpArgs false
set_option linter.unusedVariables false

/-! # View isolation (C11) -/

namespace Avfs.FS
open Avfs.Path

@[simp] theorem registerHandle_views (st : FSState) (s : Store) (r : Except Err Handle) :
    (registerHandle st s r).1.views = st.views := by
  cases r <;> rfl

theorem view_setView_ne (st : FSState) (vid w : Nat) (v : View) (hw : w ≠ vid) :
    (st.setView vid v).view w = st.view w := by
  simp [FSState.view, FSState.setView, AL.lookup_insert_ne _ _ (Ne.symm hw)]

theorem view_of_views {a b : FSState} (h : a.views = b.views) (w : Nat) : a.view w = b.view w := by
  simp [FSState.view, h]

theorem writeFileV_views (st : FSState) (v : View) (vid : Nat) (p d : Bytes) (perm : Nat) :
    (writeFileV st v vid p d perm).1.views = st.views := by
  unfold writeFileV
  split <;> rfl

theorem mkdirTempV_views (st : FSState) (v : View) (dir pat rnd : Bytes) :
    (mkdirTempV st v dir pat rnd).1.views = st.views := by
  unfold mkdirTempV; simp only []
  repeat' split
  all_goals rfl

theorem createTempV_views (st : FSState) (v : View) (vid : Nat) (dir pat rnd : Bytes) :
    (createTempV st v vid dir pat rnd).1.views = st.views := by
  unfold createTempV; simp only []
  split
  · rfl
  · simp

/-- C11: a call through view `vid` never changes the user, umask, root or current directory of another
    (existing) view -/
theorem step_view_isolation (st : FSState) (vid w : Nat) (c : Call) (hw : w ≠ vid) (hfresh : w < st.nextView)
    (hf : ∀ hid op, c ≠ .file hid op) : (step st vid c).1.view w = st.view w := by
  cases hv : st.view vid with
  | none => rw [step_none _ _ _ hv]
  | some v =>
    rw [step_some _ _ _ _ hv]
    cases c <;> simp only [stepV] <;> try exact withStore_view _ _ _
    case openFile => exact view_of_views (registerHandle_views _ _ _) w
    case create => exact view_of_views (registerHandle_views _ _ _) w
    case chdir => exact view_setView_ne _ _ _ _ hw
    case setUser => exact view_setView_ne _ _ _ _ hw
    case setUMask => exact view_setView_ne _ _ _ _ hw
    case writeFile => exact view_of_views (writeFileV_views _ _ _ _ _ _) w
    case mkdirTemp => exact view_of_views (mkdirTempV_views _ _ _ _ _) w
    case createTemp => exact view_of_views (createTempV_views _ _ _ _ _ _) w
    case sub p =>
      cases sub st.store v p with
      | error e => rfl
      | ok nv =>
        have : st.nextView ≠ w := by omega
        simp [FSState.view, AL.lookup_insert_ne _ _ this]
    case file hid op => exact absurd rfl (hf hid op)

/-- handle operations only change the view the handle was opened through -/
theorem step_file_view_isolation (st : FSState) (vid w hid : Nat) (op : FOp) (h : Handle)
    (hh : st.handle hid = some h) (hw : w ≠ h.view) :
    (step st vid (.file hid op)).1.view w = st.view w := by
  cases hv : st.view vid with
  | none => rw [step_none _ _ _ hv]
  | some v =>
    rw [step_some _ _ _ _ hv]
    simp only [stepV, fileV, hh]
    cases hv2 : st.view h.view with
    | none => rfl
    | some hv' =>
      simp only []
      exact view_setView_ne _ _ _ _ hw

/-- `setUser`, `setUMask`, `chdir` through one view leave the shared heap (and the handles) unchanged -/
theorem step_setUser_store (st : FSState) (vid : Nat) (u g : Int) (a : Bool) :
    (step st vid (.setUser u g a)).1.store = st.store ∧ (step st vid (.setUser u g a)).1.handles = st.handles := by
  cases hv : st.view vid with
  | none => rw [step_none _ _ _ hv]; exact ⟨rfl, rfl⟩
  | some v => rw [step_some _ _ _ _ hv]; exact ⟨rfl, rfl⟩

theorem step_setUMask_store (st : FSState) (vid : Nat) (m : Nat) :
    (step st vid (.setUMask m)).1.store = st.store ∧ (step st vid (.setUMask m)).1.handles = st.handles := by
  cases hv : st.view vid with
  | none => rw [step_none _ _ _ hv]; exact ⟨rfl, rfl⟩
  | some v => rw [step_some _ _ _ _ hv]; exact ⟨rfl, rfl⟩

theorem step_chdir_store (st : FSState) (vid : Nat) (p : Bytes) :
    (step st vid (.chdir p)).1.store = st.store ∧ (step st vid (.chdir p)).1.handles = st.handles := by
  cases hv : st.view vid with
  | none => rw [step_none _ _ _ hv]; exact ⟨rfl, rfl⟩
  | some v => rw [step_some _ _ _ _ hv]; exact ⟨rfl, rfl⟩

end Avfs.FS
