import Avfs.Lemmas.Posix3
import Avfs.Lemmas.StepBase
import Avfs.Lemmas.StepFailed
/-
  FRAME (property C05): a call changes only the nodes it names.

  `FrameExcept s s' touched`: every inode outside the list `touched` is bound to the same node in `s'` as in `s` (same
  kind, attributes, content, link count, id, entries; or unbound in both). `Frame` adds that the allocation counters
  never decrease. For every mutating call of the model the list is given explicitly in terms of the result of the
  walk of that call (`searchNode`): the theorems hold for ALL paths (relative, unclean, through symbolic links) and
  ALL stores, with no hypothesis; for clean absolute link-free paths the corollaries `frame_*_posix` name the touched
  nodes through the component-wise reference resolution `walkPath`.

    call                       touched
    mkdir                      the parent, the new inode `s.next`
    openFile (O_CREATE)        the parent, the new inode `s.next`; (O_TRUNC) the file; otherwise nothing
    symlink                    the parent, the new inode `s.next`
    link                       the new parent, the file (link count)
    remove                     the parent, the node (link count / released)
    rename                     the two parents, the replaced node (the moved node itself is NOT touched)
    truncate/chmod/chown/chtimes   the node
    handle operations          the node of the handle
    writeFile                  the parent and the new inode, or the file
    mkdirAll                   the deepest existing directory and the new inodes `s.next ≤ i`
    removeAll                  the parent and the nodes at or below the removed one (`Desc`)
-/
set_option linter.unusedVariables false
set_option linter.unusedSimpArgs false

namespace Avfs.FS
open Avfs.Path

/-! ### the relations -/

/-- every inode for which `P` does not hold is bound to the same node (or unbound in both) -/
def FrameOutside (s s' : Store) (P : Ino → Prop) : Prop := ∀ i, ¬ P i → s'.get i = s.get i

/-- every inode other than the listed ones is bound to the same node (or unbound in both) -/
def FrameExcept (s s' : Store) (touched : List Ino) : Prop := ∀ i, i ∉ touched → s'.get i = s.get i

theorem frameExcept_iff (s s' : Store) (T : List Ino) : FrameExcept s s' T ↔ FrameOutside s s' (· ∈ T) := Iff.rfl

/-- the frame of a call: nodes outside `P` are untouched and the allocation counters do not decrease -/
structure FrameP (s s' : Store) (P : Ino → Prop) : Prop where
  others : FrameOutside s s' P
  next : s.next ≤ s'.next
  lastId : s.lastId ≤ s'.lastId

/-- the frame of a call with an explicit list of touched inodes -/
abbrev Frame (s s' : Store) (touched : List Ino) : Prop := FrameP s s' (· ∈ touched)

theorem Frame.except {s s' : Store} {T : List Ino} (h : Frame s s' T) : FrameExcept s s' T := h.others

theorem FrameP.refl (s : Store) (P : Ino → Prop) : FrameP s s P := ⟨fun _ _ => rfl, Nat.le_refl _, Nat.le_refl _⟩

theorem FrameP.trans {s s' s'' : Store} {P : Ino → Prop} (h1 : FrameP s s' P) (h2 : FrameP s' s'' P) : FrameP s s'' P :=
  ⟨fun i hi => (h2.others i hi).trans (h1.others i hi), Nat.le_trans h1.next h2.next, Nat.le_trans h1.lastId h2.lastId⟩

theorem FrameP.mono {s s' : Store} {P Q : Ino → Prop} (h : FrameP s s' P) (hpq : ∀ i, P i → Q i) : FrameP s s' Q :=
  ⟨fun i hi => h.others i (fun hp => hi (hpq i hp)), h.next, h.lastId⟩

theorem FrameP.of_eq {s s' : Store} {P : Ino → Prop} (h : s' = s) : FrameP s s' P := h ▸ FrameP.refl s P

/-- an untouched node has the same entries -/
theorem FrameP.child {s s' : Store} {P : Ino → Prop} (h : FrameP s s' P) {d : Ino} (hd : ¬ P d) (n : Bytes) :
    s'.child d n = s.child d n := hr_child_of_get_eq (h.others d hd) n

theorem FrameP.isDir {s s' : Store} {P : Ino → Prop} (h : FrameP s s' P) {d : Ino} (hd : ¬ P d) :
    isDirAt s' d = isDirAt s d := isDirAt_congr (h.others d hd)

/-! ### the primitives -/

theorem FrameP.set (s : Store) {P : Ino → Prop} {i : Ino} (hi : P i) (n : Node) : FrameP s (s.set i n) P := by
  refine ⟨fun j hj => ?_, Nat.le_refl _, Nat.le_refl _⟩
  rw [hr_get_set]
  have : ¬ i = j := fun e => hj (e ▸ hi)
  simp [this]

theorem FrameP.addChild (s : Store) {P : Ino → Prop} {d : Ino} (hd : P d) (n : Bytes) (c : Ino) :
    FrameP s (addChild s d n c) P := by
  unfold Avfs.FS.addChild
  split
  · exact FrameP.set s hd _
  · exact FrameP.refl s P

theorem FrameP.removeChild (s : Store) {P : Ino → Prop} {d : Ino} (hd : P d) (n : Bytes) :
    FrameP s (removeChild s d n) P := by
  unfold Avfs.FS.removeChild
  split
  · exact FrameP.set s hd _
  · exact FrameP.refl s P

theorem FrameP.deleteNode (s : Store) {P : Ino → Prop} {c : Ino} (hc : P c) : FrameP s (deleteNode s c) P := by
  unfold Avfs.FS.deleteNode
  split
  · exact FrameP.set s hc _
  · exact FrameP.set s hc _
  · exact FrameP.set s hc _
  · exact FrameP.refl s P

theorem FrameP.alloc (s : Store) {P : Ino → Prop} (hn : P s.next) (n : Node) : FrameP s (s.alloc n).1 P := by
  refine ⟨fun j hj => ?_, Nat.le_succ _, Nat.le_refl _⟩
  have : ¬ s.next = j := fun e => hj (e ▸ hn)
  simp [Store.alloc, Store.get, AL.lookup_insert, this]

theorem FrameP.createDir (s : Store) (v : View) {P : Ino → Prop} {par : Ino} (hp : P par) (hn : P s.next)
    (name : Bytes) (perm : Nat) : FrameP s (createDir s v par name perm).1 P := by
  unfold Avfs.FS.createDir
  exact (FrameP.alloc s hn _).trans (FrameP.addChild _ hp _ _)

theorem FrameP.createSymlink (s : Store) (v : View) {P : Ino → Prop} {par : Ino} (hp : P par) (hn : P s.next)
    (name link : Bytes) : FrameP s (createSymlink s v par name link).1 P := by
  unfold Avfs.FS.createSymlink
  exact (FrameP.alloc s hn _).trans (FrameP.addChild _ hp _ _)

theorem FrameP.createFile (s : Store) (v : View) {P : Ino → Prop} {par : Ino} (hp : P par) (hn : P s.next)
    (name : Bytes) (perm : Nat) : FrameP s (createFile s v par name perm).1 P := by
  unfold Avfs.FS.createFile
  have h0 : FrameP s { s with lastId := s.lastId + 1 } P := ⟨fun _ _ => rfl, Nat.le_refl _, Nat.le_succ _⟩
  exact (h0.trans (FrameP.alloc (P := P) { s with lastId := s.lastId + 1 } hn _)).trans (FrameP.addChild _ hp _ _)

/-! ### the calls, for every path and every store -/

/-- Mkdir touches the directory that receives the entry and the inode it allocates -/
theorem frame_mkdir (s : Store) (v : View) (p : Bytes) (perm : Nat) :
    Frame s (mkdir s v p perm).1 [(searchNode s v p .lstat).parent, s.next] := by
  unfold mkdir
  dsimp only
  repeat' split
  all_goals first
    | exact FrameP.refl _ _
    | exact FrameP.createDir _ _ (by simp) (by simp) _ _

/-- Symlink touches the directory that receives the entry and the inode it allocates -/
theorem frame_symlink (s : Store) (v : View) (o n : Bytes) :
    Frame s (symlink s v o n).1 [(searchNode s v n .lstat).parent, s.next] := by
  unfold symlink
  dsimp only
  repeat' split
  all_goals first
    | exact FrameP.refl _ _
    | exact FrameP.createSymlink _ _ (by simp) (by simp) _ _

/-- Link touches the directory that receives the entry and the file (its link count) -/
theorem frame_link (s : Store) (v : View) (o n : Bytes) :
    Frame s (link s v o n).1 ((searchNode s v n .lstat).parent :: (searchNode s v o .lstat).child.toList) := by
  unfold link
  generalize searchNode s v o .lstat = ro
  generalize searchNode s v n .lstat = rn
  obtain ⟨par, child, pi, err⟩ := ro
  cases child <;> cases err <;> dsimp only [Option.toList] <;> repeat' split
  all_goals first
    | exact FrameP.refl _ _
    | exact (FrameP.addChild _ (by simp) _ _).trans (FrameP.set _ (by simp) _)

/-- Remove touches the directory that loses the entry and the removed node (link count of a file, a released
    directory or link) -/
theorem frame_remove (s : Store) (v : View) (p : Bytes) :
    Frame s (remove s v p).1 ((searchNode s v p .lstat).parent :: (searchNode s v p .lstat).child.toList) := by
  unfold remove
  generalize searchNode s v p .lstat = r
  obtain ⟨par, child, pi, err⟩ := r
  cases child <;> cases err <;> dsimp only [Option.toList] <;> repeat' split
  all_goals first
    | exact FrameP.refl _ _
    | exact (FrameP.removeChild _ (by simp) _).trans (FrameP.deleteNode _ (by simp))

/-- the node named by the path is the only one touched by an attribute change -/
theorem frame_chmod (s : Store) (v : View) (p : Bytes) (mode : Nat) :
    Frame s (chmod s v p mode).1 (searchNode s v p .eval).child.toList := by
  unfold chmod
  generalize searchNode s v p .eval = r
  obtain ⟨par, child, pi, err⟩ := r
  cases child <;> cases err <;> dsimp only [Option.toList] <;> repeat' split
  all_goals first
    | exact FrameP.refl _ _
    | exact FrameP.set _ (by simp) _

theorem frame_chown (s : Store) (v : View) (p : Bytes) (uid gid : Int) (m : SlMode) :
    Frame s (chown s v p uid gid m).1 (searchNode s v p m).child.toList := by
  unfold chown
  generalize searchNode s v p m = r
  obtain ⟨par, child, pi, err⟩ := r
  cases child <;> cases err <;> dsimp only [Option.toList] <;> repeat' split
  all_goals first
    | exact FrameP.refl _ _
    | exact FrameP.set _ (by simp) _

theorem frame_chtimes (s : Store) (v : View) (p : Bytes) (t : Int) :
    Frame s (chtimes s v p t).1 (searchNode s v p .eval).child.toList := by
  unfold chtimes
  generalize searchNode s v p .eval = r
  obtain ⟨par, child, pi, err⟩ := r
  cases child <;> cases err <;> dsimp only [Option.toList] <;> repeat' split
  all_goals first
    | exact FrameP.refl _ _
    | exact FrameP.set _ (by simp) _

theorem frame_truncate (s : Store) (v : View) (p : Bytes) (size : Int) :
    Frame s (truncate s v p size).1 (searchNode s v p .eval).child.toList := by
  unfold truncate
  generalize searchNode s v p .eval = r
  obtain ⟨par, child, pi, err⟩ := r
  cases child <;> dsimp only [Option.toList] <;> repeat' split
  all_goals first
    | exact FrameP.refl _ _
    | exact FrameP.set _ (by simp) _

theorem FrameP.ite {β : Type} {c : Prop} [Decidable c] {s : Store} {P : Ino → Prop} {a b : Store × β}
    (ha : FrameP s a.1 P) (hb : FrameP s b.1 P) : FrameP s (if c then a else b).1 P := by
  split <;> assumption

/-- Rename touches the two directories (one entry goes, one comes) and the node it replaces (released once); the
    moved node itself is not touched -/
theorem frame_rename (s : Store) (v : View) (o n : Bytes) :
    Frame s (rename s v o n).1 ((searchNode s v o .lstat).parent :: (searchNode s v n .lstat).parent ::
      (searchNode s v n .lstat).child.toList) := by
  unfold rename
  generalize searchNode s v o .lstat = ro
  generalize searchNode s v n .lstat = rn
  dsimp only
  have h := FrameP.refl s (· ∈ ro.parent :: rn.parent :: rn.child.toList)
  refine FrameP.ite h (FrameP.ite h (FrameP.ite h (FrameP.ite h (FrameP.ite h (FrameP.ite h ?_)))))
  cases ro.child with
  | none => exact h
  | some oc =>
    dsimp only
    refine FrameP.ite h (FrameP.ite h ?_)
    have hmv : FrameP s (removeChild (addChild s rn.parent (partOf rn.pi) oc) ro.parent (partOf ro.pi))
        (· ∈ ro.parent :: rn.parent :: rn.child.toList) :=
      (FrameP.addChild _ (by simp) _ _).trans (FrameP.removeChild _ (by simp) _)
    have hrest : FrameP s (match rn.child with
        | none => (removeChild (addChild s rn.parent (partOf rn.pi) oc) ro.parent (partOf ro.pi), Out.ok Val.unit)
        | some nc =>
          if (rn.err == SErr.noent) = true then
            (removeChild (addChild s rn.parent (partOf rn.pi) oc) ro.parent (partOf ro.pi), Out.ok Val.unit)
          else
            match s.get nc with
            | some (Node.file m data nlink id) =>
              if (nc == oc) = true then (s, Out.ok Val.unit)
              else (removeChild (addChild (deleteNode s nc) rn.parent (partOf rn.pi) oc) ro.parent (partOf ro.pi), Out.ok Val.unit)
            | some (Node.symlink m link) =>
              (removeChild (addChild (deleteNode s nc) rn.parent (partOf rn.pi) oc) ro.parent (partOf ro.pi), Out.ok Val.unit)
            | x => (s, Out.err Err.EEXIST)).1 (· ∈ ro.parent :: rn.parent :: rn.child.toList) := by
      revert h hmv
      cases rn.child with
      | none => intro h hmv; exact hmv
      | some nc =>
        intro h hmv
        dsimp only
        refine FrameP.ite hmv ?_
        have hdel : FrameP s (removeChild (addChild (deleteNode s nc) rn.parent (partOf rn.pi) oc) ro.parent (partOf ro.pi))
            (· ∈ ro.parent :: rn.parent :: (some nc).toList) :=
          ((FrameP.deleteNode _ (by simp)).trans (FrameP.addChild _ (by simp) _ _)).trans
            (FrameP.removeChild _ (by simp) _)
        cases s.get nc with
        | none => exact h
        | some nd =>
          cases nd with
          | dir _ _ => exact h
          | file _ _ _ _ => exact FrameP.ite h hdel
          | symlink _ _ => exact hdel
    cases s.get oc with
    | none => exact h
    | some nd =>
      cases nd with
      | dir _ _ => exact FrameP.ite h (FrameP.ite h hmv)
      | file _ _ _ _ => exact hrest
      | symlink _ _ => exact hrest

/-- OpenFile touches the parent and the new inode when it creates, the file when it truncates, nothing otherwise -/
theorem frame_openFile (s : Store) (v : View) (vid : Nat) (p : Bytes) (flag perm : Nat) :
    Frame s (openFile s v vid p flag perm).1
      ((searchNode s v p .eval).parent :: s.next :: (searchNode s v p .eval).child.toList) := by
  unfold openFile
  generalize searchNode s v p .eval = r
  obtain ⟨par, child, pi, err⟩ := r
  cases child <;> dsimp only [Option.toList] <;> repeat' split
  all_goals first
    | exact FrameP.refl _ _
    | exact FrameP.createFile _ _ (by simp) (by simp) _ _
    | exact FrameP.set _ (by simp) _

/-- a handle operation touches the node of the handle only -/
theorem frame_fileStep (s : Store) (v : View) (h : Handle) (op : FOp) :
    Frame s (fileStep s v h op).1 h.nd.toList := by
  obtain ⟨nd, name, pos, om, de, dn, di, vw⟩ := h
  cases nd <;> cases op <;> simp only [fileStep, Option.toList] <;> repeat' split
  all_goals first
    | exact FrameP.refl _ _
    | exact FrameP.set _ (by simp) _

/-! ### MkdirAll: the first directory that receives an entry, and fresh inodes -/

theorem frame_mkdirAllLoop (v : View) (perm : Nat) : ∀ (fuel : Nat) (s : Store) (dn : Ino) (it : Iter),
    FrameP s (mkdirAllLoop v perm fuel s dn it) (fun i => i = dn ∨ s.next ≤ i) := by
  intro fuel
  induction fuel with
  | zero => intro s dn it; exact FrameP.refl _ _
  | succ fuel ih =>
    intro s dn it
    rw [mkdirAllLoop]
    dsimp only
    have h1 : FrameP s (createDir s v dn (partOf it) perm).1 (fun i => i = dn ∨ s.next ≤ i) :=
      FrameP.createDir s v (Or.inl rfl) (Or.inr (Nat.le_refl _)) _ _
    split
    · exact FrameP.refl _ _
    · split
      · exact h1
      · refine h1.trans ((ih _ _ _).mono ?_)
        intro i hi
        rw [createDir_next] at hi
        have : (createDir s v dn (partOf it) perm).2 = s.next := rfl
        rw [this] at hi
        rcases hi with hi | hi
        · exact Or.inr (Nat.le_of_eq hi.symm)
        · exact Or.inr (Nat.le_of_succ_le hi)

/-- MkdirAll touches the deepest directory that exists already (it receives one entry) and inodes it allocates;
    every other node bound before the call is untouched -/
theorem frame_mkdirAll (s : Store) (v : View) (p : Bytes) (perm : Nat) :
    FrameP s (mkdirAll s v p perm).1 (fun i => i = (searchNode s v p .eval).parent ∨ s.next ≤ i) := by
  unfold mkdirAll
  dsimp only
  repeat' split
  all_goals first
    | exact FrameP.refl _ _
    | exact frame_mkdirAllLoop _ _ _ _ _ _

/-! ### RemoveAll: the parent and the subtree -/

/-- what a (partial) run of `removeAllRec` on `d` does to ANY heap (no invariant assumed): entries only disappear, and
    nodes that are not at or below `d` are untouched -/
structure RAFrame (s : Store) (d : Ino) (r : Store) : Prop where
  mono : ∀ a n c, Edge r a n c → Edge s a n c
  frame : ∀ x, ¬ Desc s d x → r.get x = s.get x

theorem RAFrame.refl (s : Store) (d : Ino) : RAFrame s d s := ⟨fun _ _ _ h => h, fun _ _ => rfl⟩

theorem RAFrame.widen {s r : Store} {d c : Ino} {nm : Bytes} (he : Edge s d nm c) (h : RAFrame s c r) : RAFrame s d r :=
  ⟨h.mono, fun x hx => h.frame x (fun hd => hx (Desc.head he hd))⟩

theorem RAFrame.step {s s1 r : Store} {d c : Ino} {nm : Bytes} (he : Edge s d nm c)
    (h1 : RAFrame s c s1) (h2 : RAFrame (removeChild (deleteNode s1 c) d nm) d r) : RAFrame s d r := by
  have hmono2 : ∀ a n x, Edge (removeChild (deleteNode s1 c) d nm) a n x → Edge s a n x := by
    intro a n x h
    apply h1.mono
    unfold Edge at h ⊢
    rw [hr_child_removeChild, hr_child_deleteNode] at h
    split at h
    · cases h
    · split at h
      · cases h
      · exact h
  refine ⟨fun a n x h => hmono2 a n x (h2.mono a n x h), ?_⟩
  intro x hx
  have hxd : x ≠ d := by rintro rfl; exact hx Desc.refl
  have hxc : x ≠ c := by rintro rfl; exact hx (Desc.step d nm x Desc.refl he)
  have hxc' : ¬ Desc s c x := fun h => hx (Desc.head he h)
  rw [h2.frame x (fun h => hx (Desc.mono hmono2 h)), hr_get_removeChild_ne _ _ _ _ hxd,
    hr_get_deleteNode_ne _ _ _ hxc, h1.frame x hxc']

theorem raframe_removeAllRec (v : View) : ∀ (fuel : Nat) (s : Store) (d : Ino),
    RAFrame s d (removeAllRec v fuel s d).1 := by
  intro fuel
  induction fuel with
  | zero => intro s d; rw [removeAllRec]; exact RAFrame.refl s d
  | succ fuel ih =>
    intro s d
    have hgo : ∀ (L : List Bytes) (s : Store), RAFrame s d (removeAllRec.go v fuel d s L).1 := by
      intro L
      induction L with
      | nil => intro s; rw [removeAllRec.go]; exact RAFrame.refl s d
      | cons nm rest ihL =>
        intro s
        rw [removeAllRec.go]
        split
        · exact ihL s
        · rename_i c he
          have he : Edge s d nm c := he
          split
          · have ihg := ih s c
            generalize removeAllRec v fuel s c = r at *
            obtain ⟨s1, e⟩ := r
            dsimp only at ihg ⊢
            cases e with
            | some e => exact ihg.widen he
            | none =>
              dsimp only
              split
              · exact ihg.widen he
              · exact RAFrame.step he ihg (ihL _)
          · split
            · exact RAFrame.refl s d
            · exact RAFrame.step he (RAFrame.refl s c) (ihL _)
    rw [removeAllRec]
    split
    · exact RAFrame.refl s d
    · exact hgo _ s

/-- `removeAllRec` on `d` touches nodes at or below `d` only, in any heap -/
theorem frame_removeAllRec (v : View) (fuel : Nat) (s : Store) (d : Ino) :
    FrameP s (removeAllRec v fuel s d).1 (Desc s d) := by
  have hk := keeps_removeAllRec v fuel s d
  exact ⟨(raframe_removeAllRec v fuel s d).frame, Nat.le_of_eq hk.next.symm, Nat.le_of_eq hk.lastId.symm⟩

/-- RemoveAll touches the directory that loses the entry and the nodes at or below the removed one; a RemoveAll
    stopped half-way by a permission error included -/
theorem frame_removeAll (s : Store) (v : View) (p : Bytes) :
    FrameP s (removeAll s v p).1 (fun i => i = (searchNode s v p .lstat).parent ∨
      ∃ c, (searchNode s v p .lstat).child = some c ∧ Desc s c i) := by
  unfold removeAll
  generalize searchNode s v p .lstat = r
  dsimp only
  have h := FrameP.refl s (fun i => i = r.parent ∨ ∃ c, r.child = some c ∧ Desc s c i)
  refine FrameP.ite h (FrameP.ite h ?_)
  revert h
  cases r.child with
  | none => intro h; cases r.err <;> exact h
  | some c =>
    intro h
    cases r.err <;> try exact h
    dsimp only
    refine FrameP.ite h ?_
    have hX : FrameP s (if (match s.get c with
          | some (Node.dir m ch) => (alKeys ch).length != 0
          | x => false) = true then removeAllRec v s.next s c else (s, none)).1
        (fun i => i = r.parent ∨ ∃ c', some c = some c' ∧ Desc s c' i) :=
      FrameP.ite ((frame_removeAllRec v _ s c).mono (fun i hi => Or.inr ⟨c, rfl, hi⟩)) h
    generalize (if (match s.get c with
          | some (Node.dir m ch) => (alKeys ch).length != 0
          | x => false) = true then removeAllRec v s.next s c else (s, none)) = q at hX
    obtain ⟨s1, e⟩ := q
    cases e with
    | some e => exact hX
    | none =>
      refine FrameP.ite hX (FrameP.ite hX ?_)
      exact hX.trans ((FrameP.removeChild _ (Or.inl rfl) _).trans (FrameP.deleteNode _ (Or.inr ⟨c, rfl, Desc.refl⟩)))

/-- a set of inodes that contains `a` and is closed under the entries of the heap contains everything at or below `a`
    (decides "not below" on concrete heaps: `allEdges` is the complete edge list) -/
theorem desc_subset_of_closed {s : Store} {a : Ino} (S : List Ino) (ha : a ∈ S)
    (hcl : (allEdges s).all (fun e => !(S.contains e.1) || S.contains e.2.2) = true) : ∀ x, Desc s a x → x ∈ S := by
  intro x hd
  induction hd with
  | refl => exact ha
  | step d n c _ he ih =>
    rw [List.all_eq_true] at hcl
    have := hcl _ (mem_allEdges_of_edge s d n c he)
    simp only [Bool.or_eq_true, Bool.not_eq_true', List.contains_eq_mem, decide_eq_true_eq, decide_eq_false_iff_not] at this
    rcases this with h | h
    · exact absurd ih h
    · exact h

/-! ### every call of `step` -/

/-- a handle returned by OpenFile stands on the inode it allocated or on the node the walk found -/
theorem openFile_ok_nd (s : Store) (v : View) (vid : Nat) (p : Bytes) (flag perm : Nat) (s1 : Store) (h : Handle)
    (e : openFile s v vid p flag perm = (s1, .ok h)) :
    ∃ c, h.nd = some c ∧ (c = s.next ∨ (searchNode s v p .eval).child = some c) := by
  unfold openFile at e
  generalize searchNode s v p .eval = r at e ⊢
  obtain ⟨par, child, pi, err⟩ := r
  simp only [] at e
  repeat' split at e
  all_goals simp only [Prod.mk.injEq, reduceCtorEq, and_false, Except.ok.injEq] at e
  all_goals obtain ⟨rfl, rfl⟩ := e
  all_goals first
    | exact ⟨_, rfl, Or.inl rfl⟩
    | exact ⟨_, rfl, Or.inr rfl⟩
    | exact ⟨_, rfl, Or.inr (by assumption)⟩

/-- WriteFile (open with O_CREATE|O_TRUNC, write, no handle kept): the parent and the new inode, or the file -/
theorem frame_writeFileV (st : FSState) (v : View) (vid : Nat) (p d : Bytes) (perm : Nat) :
    Frame st.store (writeFileV st v vid p d perm).1.store
      ((searchNode st.store v p .eval).parent :: st.store.next :: (searchNode st.store v p .eval).child.toList) := by
  unfold writeFileV
  have h1 := frame_openFile st.store v vid p oWRONLY_CREATE_TRUNC perm
  rcases ho : openFile st.store v vid p oWRONLY_CREATE_TRUNC perm with ⟨s1, (e1 | hd)⟩
  · rw [ho] at h1; exact h1
  · rw [ho] at h1
    dsimp only at h1 ⊢
    obtain ⟨c, hnd, hc⟩ := openFile_ok_nd _ _ _ _ _ _ _ _ ho
    have h2 := frame_fileStep s1 v hd (.write d)
    rcases hf : fileStep s1 v hd (.write d) with ⟨s2, a2, a3, o⟩
    rw [hf] at h2
    dsimp only at h2 ⊢
    refine h1.trans (h2.mono ?_)
    intro i hi
    rw [hnd] at hi
    simp only [Option.toList, List.mem_singleton] at hi
    subst hi
    rcases hc with rfl | hc
    · simp
    · simp [hc]

/-- the name MkdirTemp / CreateTemp build from the directory, the pattern and the random part -/
def tempName (dir pat rnd : Bytes) : Option Bytes :=
  match prefixAndSuffix pat with
  | none => none
  | some (pre, suf) => some (joinPath (if dir.isEmpty then tempDir else dir) pre ++ rnd ++ suf)

/-- the inodes a call names in a state (through the view `v` it is made through) -/
def callTouches (st : FSState) (v : View) : Call → Ino → Prop
  | .mkdir p _ => fun i => i ∈ [(searchNode st.store v p .lstat).parent, st.store.next]
  | .mkdirAll p _ => fun i => i = (searchNode st.store v p .eval).parent ∨ st.store.next ≤ i
  | .openFile p _ _ => fun i =>
      i ∈ (searchNode st.store v p .eval).parent :: st.store.next :: (searchNode st.store v p .eval).child.toList
  | .create p => fun i =>
      i ∈ (searchNode st.store v p .eval).parent :: st.store.next :: (searchNode st.store v p .eval).child.toList
  | .writeFile p _ _ => fun i =>
      i ∈ (searchNode st.store v p .eval).parent :: st.store.next :: (searchNode st.store v p .eval).child.toList
  | .remove p => fun i => i ∈ (searchNode st.store v p .lstat).parent :: (searchNode st.store v p .lstat).child.toList
  | .removeAll p => fun i => i = (searchNode st.store v p .lstat).parent ∨
      ∃ c, (searchNode st.store v p .lstat).child = some c ∧ Desc st.store c i
  | .rename o n => fun i => i ∈ (searchNode st.store v o .lstat).parent :: (searchNode st.store v n .lstat).parent ::
      (searchNode st.store v n .lstat).child.toList
  | .link o n => fun i => i ∈ (searchNode st.store v n .lstat).parent :: (searchNode st.store v o .lstat).child.toList
  | .symlink _ n => fun i => i ∈ [(searchNode st.store v n .lstat).parent, st.store.next]
  | .truncate p _ => fun i => i ∈ (searchNode st.store v p .eval).child.toList
  | .chmod p _ => fun i => i ∈ (searchNode st.store v p .eval).child.toList
  | .chown p _ _ => fun i => i ∈ (searchNode st.store v p .eval).child.toList
  | .lchown p _ _ => fun i => i ∈ (searchNode st.store v p .lstat).child.toList
  | .chtimes p _ => fun i => i ∈ (searchNode st.store v p .eval).child.toList
  | .mkdirTemp dir pat rnd => fun i =>
      match tempName dir pat rnd with
      | none => False
      | some name => i ∈ [(searchNode st.store v name .lstat).parent, st.store.next]
  | .createTemp dir pat rnd => fun i =>
      match tempName dir pat rnd with
      | none => False
      | some name => i ∈ (searchNode st.store v name .eval).parent :: st.store.next ::
          (searchNode st.store v name .eval).child.toList
  | .file hid _ => fun i => i ∈ ((st.handle hid).bind (·.nd)).toList
  | _ => fun _ => False        -- Chdir, Stat, Lstat, ReadDir, ReadFile, Readlink, EvalSymlinks, Getwd, Sub, SetUser, SetUMask

theorem frame_registerHandle (st : FSState) {s1 : Store} {P : Ino → Prop} (r : Except Err Handle)
    (h : FrameP st.store s1 P) : FrameP st.store (registerHandle st s1 r).1.store P := by
  cases r <;> exact h

theorem frame_stepV (st : FSState) (vid : Nat) (v : View) (c : Call) :
    FrameP st.store (stepV st vid v c).1.store (callTouches st v c) := by
  cases c with
  | mkdir p perm => exact frame_mkdir _ _ _ _
  | mkdirAll p perm => exact frame_mkdirAll _ _ _ _
  | openFile p flag perm => exact frame_registerHandle st _ (frame_openFile _ _ _ _ _ _)
  | create p => exact frame_registerHandle st _ (frame_openFile _ _ _ _ _ _)
  | remove p => exact frame_remove _ _ _
  | removeAll p => exact frame_removeAll _ _ _
  | rename o n => exact frame_rename _ _ _ _
  | link o n => exact frame_link _ _ _ _
  | symlink o n => exact frame_symlink _ _ _ _
  | truncate p sz => exact frame_truncate _ _ _ _
  | chmod p m => exact frame_chmod _ _ _ _
  | chown p u g => exact frame_chown _ _ _ _ _ _
  | lchown p u g => exact frame_chown _ _ _ _ _ _
  | chtimes p t => exact frame_chtimes _ _ _ _
  | chdir p => exact FrameP.refl _ _
  | stat p => exact FrameP.of_eq (stat_store _ _ _ _)
  | lstat p => exact FrameP.of_eq (stat_store _ _ _ _)
  | readDir p => exact FrameP.refl _ _
  | readFile p => exact FrameP.refl _ _
  | readlink p => exact FrameP.of_eq (readlink_store _ _ _)
  | evalSymlinks p => exact FrameP.of_eq (evalSymlinks_store _ _ _)
  | getwd => exact FrameP.refl _ _
  | writeFile p data perm => exact frame_writeFileV _ _ _ _ _ _
  | mkdirTemp dir pat rnd =>
    cases hps : prefixAndSuffix pat with
    | none =>
      simp only [stepV, mkdirTempV, hps]
      exact FrameP.refl _ _
    | some ps =>
      obtain ⟨pre, suf⟩ := ps
      have h := frame_mkdir st.store v (joinPath (if dir.isEmpty then tempDir else dir) pre ++ rnd ++ suf) 0o700
      simp only [stepV, mkdirTempV, callTouches, tempName, hps]
      split
      · rename_i heq
        rw [heq] at h
        exact h
      · exact FrameP.refl _ _
      · exact FrameP.refl _ _
  | createTemp dir pat rnd =>
    cases hps : prefixAndSuffix pat with
    | none =>
      simp only [stepV, createTempV, hps]
      exact FrameP.refl _ _
    | some ps =>
      obtain ⟨pre, suf⟩ := ps
      simp only [stepV, createTempV, callTouches, tempName, hps]
      exact frame_registerHandle st _ (frame_openFile _ _ _ _ _ _)
  | sub p =>
    simp only [stepV]
    split <;> exact FrameP.refl _ _
  | setUser uid gid admin => exact FrameP.refl _ _
  | setUMask m => exact FrameP.refl _ _
  | file hid op =>
    simp only [stepV, fileV, callTouches]
    split
    · exact FrameP.refl _ _
    · split
      · exact FrameP.refl _ _
      · rename_i hd hh _ hv hhv
        have := frame_fileStep st.store hv hd op
        rw [hh]
        exact this

/-- the inodes a call made through view `vid` names (none when the view is not bound: the call fails) -/
def touches (st : FSState) (vid : Nat) (c : Call) (i : Ino) : Prop :=
  match st.view vid with
  | none => False
  | some v => callTouches st v c i

/-- FRAME, every call: a step of the model leaves every node the call does not name exactly as it was (kind,
    attributes, content, link count, id, entries), whether it succeeds or fails, and never decreases the allocation
    counters -/
theorem step_frame (st : FSState) (vid : Nat) (c : Call) :
    FrameP st.store (step st vid c).1.store (touches st vid c) := by
  unfold touches
  cases hv : st.view vid with
  | none => rw [step_none _ _ _ hv]; exact FrameP.refl _ _
  | some v => rw [step_some _ _ _ _ hv]; exact frame_stepV st vid v c

/-! ### clean absolute link-free paths: the touched nodes named by the reference resolution

  Derived from the reference theorems `<call>_posix_gen` (Lemmas/Posix*.lean), which give the new heap explicitly.
  The view is rooted at any directory `v.root` of a heap well-formed for `root`; the path is "/c1/…/cn" with valid
  components other than "." and "..". A failing call touches nothing. -/

def MkdirRef.touched (s : Store) : MkdirRef → List Ino
  | .create par _ => [par, s.next]
  | _ => []

def SymlinkRef.touched (s : Store) : SymlinkRef → List Ino
  | .create par _ => [par, s.next]
  | _ => []

def RemoveRef.touched : RemoveRef → List Ino
  | .unlink par c => [par, c]
  | _ => []

def OpenRef.touched (s : Store) : OpenRef → List Ino
  | .create par _ => [par, s.next]
  | .opened c true => [c]
  | _ => []

def LinkRef.touched : LinkRef → List Ino
  | .link node par _ => [par, node]
  | _ => []

def NodeRef.touched : NodeRef → List Ino
  | .update c _ => [c]
  | _ => []

def RenameRef.touched : RenameRef → List Ino
  | .move opar npar _ repl => opar :: npar :: repl.toList
  | _ => []

/-- the effects the reference theorems are stated with -/
theorem frame_linked (s : Store) (node par : Ino) (name : Bytes) : Frame s (linked s node par name) [par, node] := by
  unfold linked
  split
  · exact (FrameP.addChild _ (by simp) _ _).trans (FrameP.set _ (by simp) _)
  · exact FrameP.refl _ _

theorem frame_truncated (s : Store) (c : Ino) : Frame s (truncated s c) [c] := by
  unfold truncated
  split
  · exact FrameP.set _ (by simp) _
  · exact FrameP.refl _ _

theorem frame_renamed (s : Store) (opar : Ino) (oname : Bytes) (npar : Ino) (nname : Bytes) (node : Ino)
    (repl : Option Ino) : Frame s (renamed s opar oname npar nname node repl) (opar :: npar :: repl.toList) := by
  unfold renamed
  cases repl with
  | none => exact (FrameP.addChild _ (by simp) _ _).trans (FrameP.removeChild _ (by simp) _)
  | some nc =>
    exact ((FrameP.deleteNode _ (by simp)).trans (FrameP.addChild _ (by simp) _ _)).trans
      (FrameP.removeChild _ (by simp) _)

theorem frame_mkChain (v : View) (perm : Nat) : ∀ (todo : List Bytes) (s : Store) (d : Ino),
    FrameP s (mkChain v perm s d todo) (fun i => i = d ∨ s.next ≤ i) := by
  intro todo
  induction todo with
  | nil => intro s d; exact FrameP.refl _ _
  | cons c rest ih =>
    intro s d
    rw [mkChain]
    have h1 : FrameP s (createDir s v d c perm).1 (fun i => i = d ∨ s.next ≤ i) :=
      FrameP.createDir s v (Or.inl rfl) (Or.inr (Nat.le_refl _)) _ _
    refine h1.trans ((ih _ _).mono ?_)
    intro i hi
    rw [createDir_next] at hi
    have : (createDir s v d c perm).2 = s.next := rfl
    rw [this] at hi
    rcases hi with hi | hi
    · exact Or.inr (Nat.le_of_eq hi.symm)
    · exact Or.inr (Nat.le_of_succ_le hi)

theorem frame_nodeRef (s : Store) {r : NodeRef} {s' : Store}
    (h : match r with
      | .fail _ => s' = s
      | .update c n => s' = s.set c n
      | .outside => True) (hin : r ≠ .outside) : Frame s s' r.touched := by
  cases r with
  | fail e => dsimp only at h; rw [h]; exact FrameP.refl _ _
  | update c n => dsimp only at h; rw [h]; exact FrameP.set _ (by simp [NodeRef.touched]) _
  | outside => exact absurd rfl hin

section PosixFrames
variable (s : Store) (root : Ino) (v : View) (hwf : WF s root) (hvr : ∃ m ch, s.get v.root = some (.dir m ch))
include hwf hvr

theorem frame_mkdir_posix (cs : List Bytes) (hne : cs ≠ [])
    (hall : ∀ c ∈ cs, c ≠ [] ∧ ∀ x ∈ c, x ≠ SL) (hdots : ∀ c ∈ cs, c ≠ [DOT] ∧ c ≠ [DOT, DOT]) (perm : Nat)
    (hin : posixMkdir s v (walkPath s v v.root cs) ≠ .outside) :
    Frame s (mkdir s v (SL :: joinWith SL cs) perm).1 ((posixMkdir s v (walkPath s v v.root cs)).touched s) := by
  have h := mkdir_posix_gen s root v hwf hvr cs hne hall hdots perm
  cases hr : posixMkdir s v (walkPath s v v.root cs) with
  | fail e => rw [hr] at h; dsimp only at h; rw [h]; exact FrameP.refl _ _
  | create par name =>
    rw [hr] at h; dsimp only at h; rw [h.2]
    exact FrameP.createDir _ _ (by simp [MkdirRef.touched]) (by simp [MkdirRef.touched]) _ _
  | outside => exact absurd hr hin

theorem frame_symlink_posix (cs : List Bytes) (hne : cs ≠ [])
    (hall : ∀ c ∈ cs, c ≠ [] ∧ ∀ x ∈ c, x ≠ SL) (hdots : ∀ c ∈ cs, c ≠ [DOT] ∧ c ≠ [DOT, DOT]) (old : Bytes)
    (hin : posixSymlink s v (walkPathL s v v.root cs) ≠ .outside) :
    Frame s (symlink s v old (SL :: joinWith SL cs)).1 ((posixSymlink s v (walkPathL s v v.root cs)).touched s) := by
  have h := symlink_posix_gen s root v hwf hvr cs hne hall hdots old
  cases hr : posixSymlink s v (walkPathL s v v.root cs) with
  | fail e => rw [hr] at h; dsimp only at h; rw [h]; exact FrameP.refl _ _
  | create par name =>
    rw [hr] at h; dsimp only at h; rw [h.2]
    exact FrameP.createSymlink _ _ (by simp [SymlinkRef.touched]) (by simp [SymlinkRef.touched]) _ _
  | outside => exact absurd hr hin

theorem frame_remove_posix (cs : List Bytes) (hne : cs ≠ [])
    (hall : ∀ c ∈ cs, c ≠ [] ∧ ∀ x ∈ c, x ≠ SL) (hdots : ∀ c ∈ cs, c ≠ [DOT] ∧ c ≠ [DOT, DOT])
    (hin : posixRemove s v (walkPath s v v.root cs) ≠ .outside) :
    Frame s (remove s v (SL :: joinWith SL cs)).1 (posixRemove s v (walkPath s v v.root cs)).touched := by
  have h := remove_posix_gen s root v hwf hvr cs hne hall hdots
  cases hr : posixRemove s v (walkPath s v v.root cs) with
  | fail e => rw [hr] at h; dsimp only at h; rw [h]; exact FrameP.refl _ _
  | unlink par c =>
    rw [hr] at h; dsimp only at h; rw [h]
    exact (FrameP.removeChild _ (by simp [RemoveRef.touched]) _).trans (FrameP.deleteNode _ (by simp [RemoveRef.touched]))
  | outside => exact absurd hr hin

theorem frame_open_posix (cs : List Bytes) (hne : cs ≠ [])
    (hall : ∀ c ∈ cs, c ≠ [] ∧ ∀ x ∈ c, x ≠ SL) (hdots : ∀ c ∈ cs, c ≠ [DOT] ∧ c ≠ [DOT, DOT]) (vid flag perm : Nat)
    (hin : posixOpen s v (toOpenMode flag) (walkPath s v v.root cs) ≠ .outside) :
    Frame s (openFile s v vid (SL :: joinWith SL cs) flag perm).1
      ((posixOpen s v (toOpenMode flag) (walkPath s v v.root cs)).touched s) := by
  have h := open_posix_gen s root v hwf hvr cs hne hall hdots vid flag perm
  cases hr : posixOpen s v (toOpenMode flag) (walkPath s v v.root cs) with
  | fail e => rw [hr] at h; dsimp only at h; rw [h]; exact FrameP.refl _ _
  | create par name =>
    rw [hr] at h; dsimp only at h; rw [h.2]
    exact FrameP.createFile _ _ (by simp [OpenRef.touched]) (by simp [OpenRef.touched]) _ _
  | opened c tr =>
    rw [hr] at h; dsimp only at h; rw [h]
    cases tr with
    | true => exact frame_truncated s c
    | false => exact FrameP.refl _ _
  | outside => exact absurd hr hin

theorem frame_link_posix (cso csn : List Bytes) (hnen : csn ≠ [])
    (hallo : ∀ c ∈ cso, c ≠ [] ∧ ∀ x ∈ c, x ≠ SL) (hdotso : ∀ c ∈ cso, c ≠ [DOT] ∧ c ≠ [DOT, DOT])
    (halln : ∀ c ∈ csn, c ≠ [] ∧ ∀ x ∈ c, x ≠ SL) (hdotsn : ∀ c ∈ csn, c ≠ [DOT] ∧ c ≠ [DOT, DOT])
    (hin : posixLink s v (walkPath s v v.root cso) (walkPath s v v.root csn) ≠ .outside) :
    Frame s (link s v (SL :: joinWith SL cso) (SL :: joinWith SL csn)).1
      (posixLink s v (walkPath s v v.root cso) (walkPath s v v.root csn)).touched := by
  have h := link_posix_gen s root v hwf hvr cso csn hnen hallo hdotso halln hdotsn
  cases hr : posixLink s v (walkPath s v v.root cso) (walkPath s v v.root csn) with
  | fail e => rw [hr] at h; dsimp only at h; rw [h]; exact FrameP.refl _ _
  | link oc par name => rw [hr] at h; dsimp only at h; rw [h.2]; exact frame_linked s oc par name
  | outside => exact absurd hr hin

theorem frame_rename_posix (cso csn : List Bytes) (hneo : cso ≠ []) (hnen : csn ≠ [])
    (hallo : ∀ c ∈ cso, c ≠ [] ∧ ∀ x ∈ c, x ≠ SL) (hdotso : ∀ c ∈ cso, c ≠ [DOT] ∧ c ≠ [DOT, DOT])
    (halln : ∀ c ∈ csn, c ≠ [] ∧ ∀ x ∈ c, x ≠ SL) (hdotsn : ∀ c ∈ csn, c ≠ [DOT] ∧ c ≠ [DOT, DOT])
    (hcorner : renameCorner s (walkPath s v v.root cso) (walkPath s v v.root csn)
      (posixRename s v (decide (cso = csn)) (cso.isPrefixOf csn && cso != csn)
        (walkPath s v v.root cso) (walkPath s v v.root csn)) = false)
    (hin : posixRename s v (decide (cso = csn)) (cso.isPrefixOf csn && cso != csn)
        (walkPath s v v.root cso) (walkPath s v v.root csn) ≠ .outside) :
    Frame s (rename s v (SL :: joinWith SL cso) (SL :: joinWith SL csn)).1
      (posixRename s v (decide (cso = csn)) (cso.isPrefixOf csn && cso != csn)
        (walkPath s v v.root cso) (walkPath s v v.root csn)).touched := by
  have h := rename_posix_gen s root v hwf hvr cso csn hneo hnen hallo hdotso halln hdotsn hcorner
  cases hr : posixRename s v (decide (cso = csn)) (cso.isPrefixOf csn && cso != csn)
      (walkPath s v v.root cso) (walkPath s v v.root csn) with
  | fail e => rw [hr] at h; dsimp only at h; rw [h]; exact FrameP.refl _ _
  | noop => rw [hr] at h; dsimp only at h; rw [h]; exact FrameP.refl _ _
  | move opar npar oc repl => rw [hr] at h; dsimp only at h; rw [h]; exact frame_renamed _ _ _ _ _ _ _
  | outside => exact absurd hr hin

theorem frame_truncate_posix (cs : List Bytes)
    (hall : ∀ c ∈ cs, c ≠ [] ∧ ∀ x ∈ c, x ≠ SL) (hdots : ∀ c ∈ cs, c ≠ [DOT] ∧ c ≠ [DOT, DOT]) (size : Int)
    (hin : posixTruncate s v size (walkPath s v v.root cs) ≠ .outside) :
    Frame s (truncate s v (SL :: joinWith SL cs) size).1 (posixTruncate s v size (walkPath s v v.root cs)).touched := by
  have h := truncate_posix_gen s root v hwf hvr cs hall hdots size
  refine frame_nodeRef s ?_ hin
  cases hr : posixTruncate s v size (walkPath s v v.root cs) <;> rw [hr] at h <;> dsimp only at h ⊢ <;> simp [h]

theorem frame_chmod_posix (cs : List Bytes)
    (hall : ∀ c ∈ cs, c ≠ [] ∧ ∀ x ∈ c, x ≠ SL) (hdots : ∀ c ∈ cs, c ≠ [DOT] ∧ c ≠ [DOT, DOT]) (mode : Nat)
    (hin : posixChmod s v mode (walkPath s v v.root cs) ≠ .outside) :
    Frame s (chmod s v (SL :: joinWith SL cs) mode).1 (posixChmod s v mode (walkPath s v v.root cs)).touched := by
  have h := chmod_posix_gen s root v hwf hvr cs hall hdots mode
  refine frame_nodeRef s ?_ hin
  cases hr : posixChmod s v mode (walkPath s v v.root cs) <;> rw [hr] at h <;> dsimp only at h ⊢ <;> simp [h]

theorem frame_chown_posix (cs : List Bytes)
    (hall : ∀ c ∈ cs, c ≠ [] ∧ ∀ x ∈ c, x ≠ SL) (hdots : ∀ c ∈ cs, c ≠ [DOT] ∧ c ≠ [DOT, DOT]) (uid gid : Int)
    (m : SlMode) (hcorner : v.admin = true ∨ posixChown s v uid gid (walkPath s v v.root cs) = .fail .EPERM)
    (hin : posixChown s v uid gid (walkPath s v v.root cs) ≠ .outside) :
    Frame s (chown s v (SL :: joinWith SL cs) uid gid m).1 (posixChown s v uid gid (walkPath s v v.root cs)).touched := by
  have h := chown_posix_gen s root v hwf hvr cs hall hdots uid gid m hcorner
  refine frame_nodeRef s ?_ hin
  cases hr : posixChown s v uid gid (walkPath s v v.root cs) <;> rw [hr] at h <;> dsimp only at h ⊢ <;> simp [h]

theorem frame_chtimes_posix (cs : List Bytes)
    (hall : ∀ c ∈ cs, c ≠ [] ∧ ∀ x ∈ c, x ≠ SL) (hdots : ∀ c ∈ cs, c ≠ [DOT] ∧ c ≠ [DOT, DOT]) (mtime : Int)
    (hin : posixChtimes s v mtime (walkPath s v v.root cs) ≠ .outside) :
    Frame s (chtimes s v (SL :: joinWith SL cs) mtime).1 (posixChtimes s v mtime (walkPath s v v.root cs)).touched := by
  have h := chtimes_posix_gen s root v hwf hvr cs hall hdots mtime
  refine frame_nodeRef s ?_ hin
  cases hr : posixChtimes s v mtime (walkPath s v v.root cs) <;> rw [hr] at h <;> dsimp only at h ⊢ <;> simp [h]

/-- MkdirAll: the directory `d` holding the first missing component, and fresh inodes -/
theorem frame_mkdirAll_posix (cs : List Bytes)
    (hall : ∀ c ∈ cs, c ≠ [] ∧ ∀ x ∈ c, x ≠ SL) (hdots : ∀ c ∈ cs, c ≠ [DOT] ∧ c ≠ [DOT, DOT]) (perm : Nat) :
    match mkWalk s v v.root cs with
    | .missing d _ => FrameP s (mkdirAll s v (SL :: joinWith SL cs) perm).1 (fun i => i = d ∨ s.next ≤ i)
    | .viaLink => True
    | _ => (mkdirAll s v (SL :: joinWith SL cs) perm).1 = s := by
  have h := mkdirAll_mkWalk s root v hwf hvr cs hall hdots perm
  cases hw : mkWalk s v v.root cs with
  | isDir => rw [hw] at h; dsimp only at h ⊢; rw [h]
  | isFile => rw [hw] at h; dsimp only at h ⊢; rw [h]
  | denied => rw [hw] at h; dsimp only at h ⊢; rw [h]
  | missing d todo =>
    rw [hw] at h; dsimp only at h ⊢; rw [h]
    split
    · exact frame_mkChain v perm todo s d
    · exact FrameP.refl _ _
  | viaLink => trivial

/-- RemoveAll: the directory `par` holding the entry and the nodes at or below the removed node `c` -/
theorem frame_removeAll_posix (cs : List Bytes) (hne : cs ≠ [])
    (hall : ∀ c ∈ cs, c ≠ [] ∧ ∀ x ∈ c, x ≠ SL) (hdots : ∀ c ∈ cs, c ≠ [DOT] ∧ c ≠ [DOT, DOT]) :
    match walkPathL s v v.root cs with
    | .found par c => FrameP s (removeAll s v (SL :: joinWith SL cs)).1 (fun i => i = par ∨ Desc s c i)
    | .viaLink => True
    | _ => (removeAll s v (SL :: joinWith SL cs)).1 = s := by
  have h := removeAll_posix_gen s root v hwf hvr cs hne hall hdots
  have hf := searchNode_factsL s root v hwf hvr cs hne hall hdots
  cases hw : walkPathL s v v.root cs with
  | found par c =>
    rw [hw] at hf
    simp only [WalkFactsL] at hf
    dsimp only
    refine (frame_removeAll s v (SL :: joinWith SL cs)).mono ?_
    intro i hi
    rw [hf.2.2.1, hf.2.1] at hi
    rcases hi with hi | ⟨c', hc', hd⟩
    · exact Or.inl hi
    · cases hc'; exact Or.inr hd
  | missingLast par name => rw [hw] at h; simp only [posixRemoveAll] at h; dsimp only; rw [h]
  | missingDir => rw [hw] at h; simp only [posixRemoveAll] at h; dsimp only; rw [h]
  | notDir => rw [hw] at h; simp only [posixRemoveAll] at h; dsimp only; rw [h]
  | denied => rw [hw] at h; simp only [posixRemoveAll] at h; dsimp only; rw [h]
  | viaLink => trivial

end PosixFrames

end Avfs.FS
