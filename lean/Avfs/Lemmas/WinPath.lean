import Avfs.Path.Spec
import Avfs.Lemmas.Clean
import Avfs.Lemmas.PathMore
/-
  Laws of the WINDOWS path emulation (`os = .windows`) of `Avfs/Path/Model.lean`, for ALL byte strings.
  Every law was first validated by `#eval` over all strings of length ≤ 5 over {a, B, '.', '/', '\\', ':', '?'}
  (and over longer strings on smaller alphabets); where a law is false, the smallest counterexample is stated
  as a kernel-checked witness (`*_cex`) next to the corrected law.
-/
set_option linter.unusedSimpArgs false
set_option linter.unusedVariables false

namespace Avfs.Path
open Avfs.Path.Spec

/-! ### 0. Bytes -/

/-- the byte map of FromSlash on Windows -/
def fsC (c : UInt8) : UInt8 := if c == SL then BS else c
/-- the byte map of ToSlash on Windows -/
def tsC (c : UInt8) : UInt8 := if c == BS then SL else c

theorem fromSlash_win (p : Bytes) : fromSlash .windows p = p.map fsC := rfl
theorem toSlash_win (p : Bytes) : toSlash .windows p = p.map tsC := rfl

theorem forall_u8 {P : UInt8 → Prop} (h : ∀ i : Fin 256, P (UInt8.ofNat i.val)) : ∀ q, P q := by
  intro q
  have := h ⟨q.toNat, q.toNat_lt⟩
  simpa using this

@[simp] theorem fsC_SL : fsC SL = BS := by decide
@[simp] theorem fsC_BS : fsC BS = BS := by decide
@[simp] theorem tsC_SL : tsC SL = SL := by decide
@[simp] theorem tsC_BS : tsC BS = SL := by decide

theorem fsC_of_ne {c : UInt8} (h : c ≠ SL) : fsC c = c := by simp [fsC, h]
theorem tsC_of_ne {c : UInt8} (h : c ≠ BS) : tsC c = c := by simp [tsC, h]

theorem fsC_ne_SL (c : UInt8) : fsC c ≠ SL := by
  unfold fsC; split
  · decide
  · rename_i h; simpa using h

theorem tsC_ne_BS (c : UInt8) : tsC c ≠ BS := by
  unfold tsC; split
  · decide
  · rename_i h; simpa using h

theorem fsC_idem (c : UInt8) : fsC (fsC c) = fsC c := fsC_of_ne (fsC_ne_SL c)
theorem tsC_idem (c : UInt8) : tsC (tsC c) = tsC c := tsC_of_ne (tsC_ne_BS c)

theorem tsC_fsC (c : UInt8) : tsC (fsC c) = tsC c := by
  by_cases h : c = SL
  · subst h; simp
  · rw [fsC_of_ne h]

theorem fsC_tsC (c : UInt8) : fsC (tsC c) = fsC c := by
  by_cases h : c = BS
  · subst h; simp
  · rw [tsC_of_ne h]

theorem isSlash_iff (c : UInt8) : isSlash c = true ↔ c = BS ∨ c = SL := by simp [isSlash]

@[simp] theorem isSlash_fsC (c : UInt8) : isSlash (fsC c) = isSlash c := by
  by_cases h : c = SL
  · subst h; decide
  · rw [fsC_of_ne h]

@[simp] theorem isSlash_tsC (c : UInt8) : isSlash (tsC c) = isSlash c := by
  by_cases h : c = BS
  · subst h; decide
  · rw [tsC_of_ne h]

theorem isSep_win (c : UInt8) : isSep .windows c = isSlash c := rfl

theorem fsC_of_not_slash {c : UInt8} (h : isSlash c = false) : fsC c = c := by
  apply fsC_of_ne; intro e; subst e; simp [isSlash] at h

theorem tsC_of_not_slash {c : UInt8} (h : isSlash c = false) : tsC c = c := by
  apply tsC_of_ne; intro e; subst e; simp [isSlash] at h

theorem tsC_eq_SL (c : UInt8) : (tsC c == SL) = isSlash c := by
  by_cases h : c = BS
  · subst h; decide
  · rw [tsC_of_ne h]; simp [isSlash, h]

theorem fsC_eq_BS (c : UInt8) : (fsC c == BS) = isSlash c := by
  by_cases h : c = SL
  · subst h; decide
  · rw [fsC_of_ne h]; simp [isSlash, h]

/-! ### 2. FromSlash / ToSlash -/

/-- FromSlash is idempotent. -/
theorem fromSlash_idem_win (p : Bytes) :
    fromSlash .windows (fromSlash .windows p) = fromSlash .windows p := by
  simp only [fromSlash_win, List.map_map]
  apply List.map_congr_left; intro c _; exact fsC_idem c

theorem toSlash_idem_win (p : Bytes) :
    toSlash .windows (toSlash .windows p) = toSlash .windows p := by
  simp only [toSlash_win, List.map_map]
  apply List.map_congr_left; intro c _; exact tsC_idem c

/-- ToSlash ∘ FromSlash = ToSlash (for every byte string, with or without '\'). -/
theorem toSlash_fromSlash_win (p : Bytes) :
    toSlash .windows (fromSlash .windows p) = toSlash .windows p := by
  simp only [fromSlash_win, toSlash_win, List.map_map]
  apply List.map_congr_left; intro c _; exact tsC_fsC c

theorem fromSlash_toSlash_win (p : Bytes) :
    fromSlash .windows (toSlash .windows p) = fromSlash .windows p := by
  simp only [fromSlash_win, toSlash_win, List.map_map]
  apply List.map_congr_left; intro c _; exact fsC_tsC c

/-- FromSlash maps exactly '/' to '\\': same length, position by position. -/
theorem fromSlash_getElem_win (p : Bytes) (i : Nat) :
    (fromSlash .windows p)[i]? = (p[i]?).map (fun c => if c = SL then BS else c) := by
  simp only [fromSlash_win, List.getElem?_map]
  congr 1; funext c; simp [fsC]

theorem fromSlash_length_win (p : Bytes) : (fromSlash .windows p).length = p.length := by
  simp [fromSlash_win]

/-- the result of FromSlash contains no '/' -/
theorem fromSlash_no_SL (p : Bytes) : SL ∉ fromSlash .windows p := by
  simp only [fromSlash_win, List.mem_map, not_exists, not_and]
  intro c _; exact fsC_ne_SL c

/-- FromSlash is the identity exactly on the strings without '/' -/
theorem fromSlash_eq_self_iff (p : Bytes) : fromSlash .windows p = p ↔ SL ∉ p := by
  constructor
  · intro h; rw [← h]; exact fromSlash_no_SL p
  · intro h
    rw [fromSlash_win]
    conv => rhs; rw [← List.map_id p]
    apply List.map_congr_left
    intro c hc
    exact fsC_of_ne (fun e => h (e ▸ hc))

theorem fromSlash_append_win (a b : Bytes) :
    fromSlash .windows (a ++ b) = fromSlash .windows a ++ fromSlash .windows b := by
  simp [fromSlash_win]

/-! ### 1. VolumeNameLen -/

theorem uncLenLoop_le (rest : Bytes) (i count : Nat) : uncLenLoop rest i count ≤ i + rest.length := by
  induction rest generalizing i count with
  | nil => simp [uncLenLoop]
  | cons c rest ih =>
    simp only [uncLenLoop, List.length_cons]
    split
    · split
      · omega
      · have := ih (i + 1) (count + 1); omega
    · have := ih (i + 1) count; omega

theorem uncLenLoop_ge (rest : Bytes) (i count : Nat) : i ≤ uncLenLoop rest i count := by
  induction rest generalizing i count with
  | nil => simp [uncLenLoop]
  | cons c rest ih =>
    simp only [uncLenLoop]
    split
    · split
      · omega
      · have := ih (i + 1) (count + 1); omega
    · have := ih (i + 1) count; omega

theorem uncLen_le (p : Bytes) (k : Nat) : uncLen p k ≤ p.length := by
  have := uncLenLoop_le (p.drop k) (min k p.length) 0
  simp only [List.length_drop] at this
  unfold uncLen; omega

theorem uncLen_ge (p : Bytes) (k : Nat) : min k p.length ≤ uncLen p k :=
  uncLenLoop_ge _ _ _

/-- The volume name is a prefix: its length never exceeds the length of the path. -/
theorem volumeNameLen_le (os : OS) (p : Bytes) : volumeNameLen os p ≤ p.length := by
  cases os with
  | linux => simp [volumeNameLen]
  | windows =>
    cases p with
    | nil => simp [volumeNameLen]
    | cons c0 tl =>
      have hu := uncLen_le (c0 :: tl)
      cases tl with
      | nil =>
        simp only [volumeNameLen]
        repeat' split
        all_goals first
          | omega
          | (have h8 := hu 8; have h2 := hu 2; simp at * <;> omega)
      | cons c1 t =>
        simp only [volumeNameLen]
        repeat' split
        all_goals first
          | (simp only [List.length_cons]; omega)
          | exact hu _
          | (simp at * <;> omega)

theorem prefixFoldLoop_map (s pre : Bytes) : prefixFoldLoop (s.map fsC) pre = prefixFoldLoop s pre := by
  induction pre generalizing s with
  | nil => cases s <;> simp [prefixFoldLoop]
  | cons q pre ih =>
    cases s with
    | nil => simp [prefixFoldLoop]
    | cons c s =>
      simp only [List.map_cons, prefixFoldLoop, ih, isSlash_fsC]
      congr 1
      by_cases hq : isSlash q = true
      · simp [hq]
      · have hq' : isSlash q = false := by simpa using hq
        simp only [hq', Bool.false_eq_true, if_false]
        by_cases hc : c = SL
        · subst hc
          have key : ∀ q : UInt8, isSlash q = false → (toUpper q == toUpper BS) = (toUpper q == toUpper SL) := by
            apply forall_u8; decide +kernel
          rw [fsC_SL]; exact key q hq'
        · rw [fsC_of_ne hc]

theorem pathHasPrefixFold_map (s pre : Bytes) :
    pathHasPrefixFold (s.map fsC) pre = pathHasPrefixFold s pre := by
  unfold pathHasPrefixFold
  simp only [List.length_map, prefixFoldLoop_map, ← List.map_drop]
  cases s.drop pre.length <;> simp

theorem uncLenLoop_map (rest : Bytes) (i count : Nat) :
    uncLenLoop (rest.map fsC) i count = uncLenLoop rest i count := by
  induction rest generalizing i count with
  | nil => rfl
  | cons c rest ih => simp only [List.map_cons, uncLenLoop, isSlash_fsC, ih]

theorem uncLen_map (p : Bytes) (k : Nat) : uncLen (p.map fsC) k = uncLen p k := by
  simp only [uncLen, ← List.map_drop, uncLenLoop_map, List.length_map]

theorem cutPathRest_map (l : Bytes) : cutPathRest (l.map fsC) = (cutPathRest l).map (List.map fsC) := by
  induction l with
  | nil => rfl
  | cons c l ih =>
    simp only [List.map_cons, cutPathRest, isSlash_fsC]
    split
    · rfl
    · exact ih

theorem fsC_eq_COLON (c : UInt8) : (fsC c == COLON) = (c == COLON) := by
  by_cases h : c = SL
  · subst h; decide
  · rw [fsC_of_ne h]

/-- VolumeNameLen does not distinguish '/' from '\\'. -/
theorem volumeNameLen_fromSlash (p : Bytes) :
    volumeNameLen .windows (fromSlash .windows p) = volumeNameLen .windows p := by
  rw [fromSlash_win]
  cases p with
  | nil => rfl
  | cons c0 tl =>
    have h3 : ∀ pre, pathHasPrefixFold (fsC c0 :: tl.map fsC) pre = pathHasPrefixFold (c0 :: tl) pre := by
      intro pre; rw [← List.map_cons]; exact pathHasPrefixFold_map _ _
    have h4 : ∀ k, uncLen (fsC c0 :: tl.map fsC) k = uncLen (c0 :: tl) k := by
      intro k; rw [← List.map_cons]; exact uncLen_map _ _
    have h5 : cutPathRest ((fsC c0 :: tl.map fsC).drop 4) = (cutPathRest ((c0 :: tl).drop 4)).map (List.map fsC) := by
      rw [← List.map_cons, ← List.map_drop]; exact cutPathRest_map _
    cases tl with
    | nil =>
      simp only [List.map_cons, List.map_nil] at h3 h4 h5 ⊢
      simp only [volumeNameLen, h3, h4, h5, isSlash_fsC, List.length_cons, List.length_nil]
      cases cutPathRest ([c0].drop 4) <;> simp
    | cons c1 t =>
      simp only [List.map_cons] at h3 h4 h5 ⊢
      simp only [volumeNameLen, h3, h4, h5, isSlash_fsC, List.length_cons, List.length_map, fsC_eq_COLON]
      cases cutPathRest ((c0 :: c1 :: t).drop 4) <;> simp

theorem volumeNameLen_toSlash (p : Bytes) :
    volumeNameLen .windows (toSlash .windows p) = volumeNameLen .windows p := by
  rw [← volumeNameLen_fromSlash (toSlash .windows p), fromSlash_toSlash_win, volumeNameLen_fromSlash]

theorem volumeName_length (p : Bytes) : (volumeName .windows p).length = volumeNameLen .windows p := by
  simp [volumeName, fromSlash_win, Nat.min_eq_left (volumeNameLen_le .windows p)]

theorem volumeName_fromSlash (p : Bytes) :
    volumeName .windows (fromSlash .windows p) = volumeName .windows p := by
  simp only [volumeName, volumeNameLen_fromSlash]
  simp only [fromSlash_win, List.map_take, List.map_map]
  congr 1
  apply List.map_congr_left; intro c _; exact fsC_idem c

theorem volumeName_no_SL (p : Bytes) : SL ∉ volumeName .windows p := fromSlash_no_SL _

/-! ### 3a. The Clean loop on Windows = the Linux loop on the ToSlash'ed input, FromSlash'ed back -/

theorem isSep_lin_tsC (c : UInt8) : isSep .linux (tsC c) = isSep .windows c := by
  simp only [isSep, tsC_eq_SL]; rfl

theorem tsC_eq_DOT (c : UInt8) : (tsC c == DOT) = (c == DOT) := by
  by_cases h : c = BS
  · subst h; decide
  · rw [tsC_of_ne h]

theorem backRev_map (dd : Nat) (l : Bytes) :
    backRev .linux dd (l.map tsC) = (backRev .windows dd l).map tsC := by
  induction l with
  | nil => rfl
  | cons c l ih =>
    simp only [List.map_cons, backRev, List.length_map, isSep_lin_tsC, ih]
    split <;> rfl

theorem backW_map (out : Bytes) (dd : Nat) :
    backW .linux (out.map tsC) dd = (backW .windows out dd).map tsC := by
  simp only [backW, ← List.map_reverse, backRev_map]

theorem backRev_sub (os : OS) (dd : Nat) (l : Bytes) : ∀ x ∈ backRev os dd l, x ∈ l := by
  induction l with
  | nil => simp [backRev]
  | cons c l ih =>
    simp only [backRev]
    split
    · intro x hx; exact List.mem_cons_of_mem _ (ih x hx)
    · intro x hx; exact List.mem_cons_of_mem _ hx

theorem backW_sub (os : OS) (out : Bytes) (dd : Nat) : ∀ x ∈ backW os out dd, x ∈ out := by
  intro x hx
  simp only [backW, List.mem_reverse] at hx
  simpa using backRev_sub os dd _ x hx

/-- the loop's test "the element ends here" -/
def cDot (os : OS) (r : Bytes) : Bool := r == [] || (match r with | c1 :: _ => isSep os c1 | [] => false)
/-- the loop's test "a second dot follows and the element ends after it" -/
def cDD (os : OS) (r : Bytes) : Bool := match r with | c1 :: rest2 => c1 == DOT && cDot os rest2 | [] => false

theorem cDot_map (r : Bytes) : cDot .linux (r.map tsC) = cDot .windows r := by
  cases r with
  | nil => rfl
  | cons c r => simp [cDot, isSep_lin_tsC]

theorem cDD_map (r : Bytes) : cDD .linux (r.map tsC) = cDD .windows r := by
  cases r with
  | nil => rfl
  | cons c r => simp only [List.map_cons, cDD, tsC_eq_DOT, cDot_map]

theorem notSep_comp : ((fun x => !isSep .linux x) ∘ tsC) = (fun x => !isSep .windows x) := by
  funext x; simp [isSep_lin_tsC]

theorem loopL_cons (path : Bytes) (rooted : Bool) (c : UInt8) (rest1 : Bytes) (b : LBuf) (dd : Nat) :
    cleanLoop .linux path rooted (c :: rest1) b dd =
    if isSep .linux c then cleanLoop .linux path rooted rest1 b dd
    else if c == DOT && cDot .linux rest1 then
      cleanLoop .linux path rooted rest1 b dd
    else if c == DOT && cDD .linux rest1 then
      if b.out.length > dd then
        cleanLoop .linux path rooted rest1.tail (lbBack .linux b dd) dd
      else if !rooted then
        cleanLoop .linux path rooted rest1.tail
          (lbAppend path (lbAppend path (if b.out.length > 0 then lbAppend path b (pathSep .linux) else b) DOT) DOT)
          (lbAppend path (lbAppend path (if b.out.length > 0 then lbAppend path b (pathSep .linux) else b) DOT) DOT).out.length
      else cleanLoop .linux path rooted rest1.tail b dd
    else
      cleanLoop .linux path rooted ((c :: rest1).dropWhile (fun x => !isSep .linux x))
        (appendAll path
          (if (rooted && b.out.length != 1) || (!rooted && b.out.length != 0) then lbAppend path b (pathSep .linux)
           else b)
          ((c :: rest1).takeWhile (fun x => !isSep .linux x))) dd := by
  conv => lhs; unfold cleanLoop
  rfl

@[simp] theorem tsC_DOT : tsC DOT = DOT := by decide
@[simp] theorem fsC_DOT : fsC DOT = DOT := by decide

theorem loop_sim (path path' : Bytes) (rooted : Bool) (rest : Bytes) (b : LBuf) (dd : Nat) :
    ∀ b' : LBuf, b'.out = b.out.map tsC → SL ∉ b.out →
      (cleanLoop .linux path' rooted (rest.map tsC) b' dd).out
          = (cleanLoop .windows path rooted rest b dd).out.map tsC ∧
      SL ∉ (cleanLoop .windows path rooted rest b dd).out := by
  fun_induction cleanLoop .windows path rooted rest b dd
  · intro b' h1 h2
    simp [cleanLoop, h1, h2]
  · rename_i b dd c r h ih
    intro b' h1 h2
    rw [List.map_cons, loopL_cons, isSep_lin_tsC, if_pos h]
    exact ih b' h1 h2
  · rename_i b dd c r h0 h ih
    intro b' h1 h2
    have h' : (c == DOT && cDot .windows r) = true := h
    rw [List.map_cons, loopL_cons, isSep_lin_tsC, if_neg h0, tsC_eq_DOT, cDot_map, if_pos h']
    exact ih b' h1 h2
  · rename_i b dd c r h0 h1' h rest2 hlen ih
    intro b' h1 h2
    have h1'' : ¬ (c == DOT && cDot .windows r) = true := h1'
    have h' : (c == DOT && cDD .windows r) = true := h
    rw [List.map_cons, loopL_cons, isSep_lin_tsC, if_neg h0, tsC_eq_DOT, cDot_map, if_neg h1'', cDD_map, if_pos h']
    have hl : b'.out.length > dd := by rw [h1]; simpa using hlen
    rw [if_pos hl, ← List.map_tail]
    apply ih
    · simp [h1, backW_map]
    · intro hm; exact h2 (backW_sub _ _ _ _ (by simpa using hm))
  · rename_i b dd c r h0 h1' h rest2 hlen hroot b1 b3 ih
    intro b' h1 h2
    have h1'' : ¬ (c == DOT && cDot .windows r) = true := h1'
    have h' : (c == DOT && cDD .windows r) = true := h
    rw [List.map_cons, loopL_cons, isSep_lin_tsC, if_neg h0, tsC_eq_DOT, cDot_map, if_neg h1'', cDD_map, if_pos h']
    have hl : ¬ b'.out.length > dd := by rw [h1]; simpa using hlen
    rw [if_neg hl, if_pos hroot, ← List.map_tail]
    have hlen' : b'.out.length = b.out.length := by rw [h1]; simp
    have hb3len : (lbAppend path' (lbAppend path' (if b'.out.length > 0 then lbAppend path' b' (pathSep .linux) else b') DOT) DOT).out.length = b3.out.length := by
      simp only [b3, b1, lbAppend_out, List.length_append, hlen']
      split <;> simp [hlen']
    rw [hb3len]
    apply ih
    · simp only [b3, b1, lbAppend_out, hlen']
      split <;> simp [pathSep, h1]
    · simp only [b3, b1, lbAppend_out]
      split <;> simp [pathSep, h2] <;> decide
  · rename_i b dd c r h0 h1' h rest2 hlen hroot ih
    intro b' h1 h2
    have h1'' : ¬ (c == DOT && cDot .windows r) = true := h1'
    have h' : (c == DOT && cDD .windows r) = true := h
    rw [List.map_cons, loopL_cons, isSep_lin_tsC, if_neg h0, tsC_eq_DOT, cDot_map, if_neg h1'', cDD_map, if_pos h']
    have hl : ¬ b'.out.length > dd := by rw [h1]; simpa using hlen
    rw [if_neg hl, if_neg hroot, ← List.map_tail]
    exact ih b' h1 h2
  · rename_i b dd c r h0 h1' h b1 elem rest' ih
    intro b' h1 h2
    have h1'' : ¬ (c == DOT && cDot .windows r) = true := h1'
    have h' : ¬ (c == DOT && cDD .windows r) = true := h
    rw [List.map_cons, loopL_cons, isSep_lin_tsC, if_neg h0, tsC_eq_DOT, cDot_map, if_neg h1'', cDD_map, if_neg h']
    rw [← List.map_cons, List.dropWhile_map, List.takeWhile_map, notSep_comp]
    apply ih
    · have hlen' : b'.out.length = b.out.length := by rw [h1]; simp
      simp only [appendAll_out, elem, b1, List.map_append, hlen']
      congr 1
      split <;> simp [pathSep, h1]
    · simp only [appendAll_out, List.mem_append, not_or]
      constructor
      · simp only [b1]
        split
        · simp only [lbAppend_out, List.mem_append, not_or, pathSep]
          exact ⟨h2, by decide⟩
        · exact h2
      · intro hm
        have := mem_takeWhile_imp hm
        simp [isSep, isSlash] at this

/-- the lazybuf of Clean after the loop and the final "." fix, run on a non-empty `path = c :: rest`
    (the volume already removed) -/
def cleanBuf (os : OS) (c : UInt8) (rest : Bytes) : LBuf :=
  let path := c :: rest
  let b0 : LBuf := { out := [], stale := [], dv := false }
  let b2 := if isSep os c then cleanLoop os path true rest (lbAppend path b0 (pathSep os)) 1
            else cleanLoop os path false path b0 0
  if b2.out.length == 0 then lbAppend path b2 DOT else b2

theorem clean_win_cons (p : Bytes) (c : UInt8) (rest : Bytes)
    (h : p.drop (volumeNameLen .windows p) = c :: rest) :
    clean .windows p = fromSlash .windows (p.take (volumeNameLen .windows p) ++
      postClean .windows (volumeNameLen .windows p) (cleanBuf .windows c rest)) := by
  unfold clean
  simp only [h]
  unfold cleanBuf
  by_cases hr : isSep .windows c = true
  · simp only [hr, if_true]
  · simp only [hr, if_false]
    rfl

theorem clean_lin_cons (c : UInt8) (rest : Bytes) :
    clean .linux (c :: rest) = (cleanBuf .linux c rest).out := by
  unfold clean
  simp only [volumeNameLen, List.drop_zero, List.take_zero, fromSlash, List.nil_append]
  unfold cleanBuf
  by_cases hr : isSep .linux c = true
  · simp only [hr, if_true]
  · simp only [hr, if_false]
    rfl

theorem map_fsC_tsC_of_noSL (l : Bytes) (h : SL ∉ l) : (l.map tsC).map fsC = l := by
  rw [List.map_map]
  conv => rhs; rw [← List.map_id l]
  apply List.map_congr_left
  intro c hc
  simp only [Function.comp, fsC_tsC, id]
  exact fsC_of_ne (fun e => h (e ▸ hc))

theorem final_sim (pathL pathW : Bytes) (bL bW : LBuf) (h1 : bL.out = bW.out.map tsC) (h2 : SL ∉ bW.out) :
    (if bL.out.length == 0 then lbAppend pathL bL DOT else bL).out
      = (if bW.out.length == 0 then lbAppend pathW bW DOT else bW).out.map tsC ∧
    SL ∉ (if bW.out.length == 0 then lbAppend pathW bW DOT else bW).out := by
  have hl : bL.out.length = bW.out.length := by rw [h1]; simp
  rw [hl]
  by_cases h : bW.out.length = 0
  · simp only [h, beq_self_eq_true, if_true, lbAppend_out, h1, List.map_append, List.map_cons, List.map_nil,
      tsC_DOT, List.mem_append, not_or]
    exact ⟨trivial, h2, by decide⟩
  · have : (bW.out.length == 0) = false := by simpa using h
    simp only [this, Bool.false_eq_true, if_false]
    exact ⟨h1, h2⟩

theorem cleanBuf_sim (c : UInt8) (rest : Bytes) :
    (cleanBuf .linux (tsC c) (rest.map tsC)).out = (cleanBuf .windows c rest).out.map tsC ∧
    SL ∉ (cleanBuf .windows c rest).out := by
  unfold cleanBuf
  simp only [isSep_lin_tsC]
  by_cases hr : isSep .windows c = true
  · simp only [hr, if_true]
    obtain ⟨h1, h2⟩ := loop_sim (c :: rest) (tsC c :: rest.map tsC) true rest
      (lbAppend (c :: rest) { out := [], stale := [], dv := false } (pathSep .windows)) 1
      (lbAppend (tsC c :: rest.map tsC) { out := [], stale := [], dv := false } (pathSep .linux))
      (by simp [pathSep]) (by simp [pathSep]; decide)
    exact final_sim _ _ _ _ h1 h2
  · have hr' : isSep .windows c = false := by simpa using hr
    simp only [hr', Bool.false_eq_true, if_false]
    obtain ⟨h1, h2⟩ := loop_sim (c :: rest) (tsC c :: rest.map tsC) false (c :: rest)
      { out := [], stale := [], dv := false } 0
      { out := [], stale := [], dv := false } (by simp) (by simp)
    rw [List.map_cons] at h1
    exact final_sim _ _ _ _ h1 h2

/-- the body of a cleaned Windows path: the Linux reference `Spec.clean` on the ToSlash'ed input, FromSlash'ed -/
def winBody (path : Bytes) : Bytes := (Spec.clean (path.map tsC)).map fsC

theorem cleanBuf_out (c : UInt8) (rest : Bytes) :
    (cleanBuf .windows c rest).out = winBody (c :: rest) := by
  obtain ⟨h1, h2⟩ := cleanBuf_sim c rest
  rw [winBody, ← clean_eq_spec, List.map_cons, clean_lin_cons, h1, map_fsC_tsC_of_noSL _ h2]

/-! ### 3b. Clean on Windows in closed form -/

/-- what postClean puts in front of the cleaned rest: `.\` (a ':' in the first element of the physical buffer),
    `\.` (the physical buffer starts with `\??`), or nothing -/
def postPre (vl : Nat) (b : LBuf) : Bytes :=
  if vl != 0 || !b.dv then [] else
  if ((b.out ++ b.stale).takeWhile (fun c => !isSep .windows c)).contains COLON then [DOT, BS]
  else
    match b.out ++ b.stale with
    | c0 :: c1 :: c2 :: _ => if isSep .windows c0 && c1 == QM && c2 == QM then [BS, DOT] else []
    | _ => []

theorem postClean_eq (vl : Nat) (b : LBuf) : postClean .windows vl b = postPre vl b ++ b.out := by
  unfold postClean postPre
  simp only [pathSep]
  generalize b.out ++ b.stale = phys
  split
  · rfl
  · split
    · rfl
    · rcases phys with _ | ⟨c0, _ | ⟨c1, _ | ⟨c2, t⟩⟩⟩
      · rfl
      · rfl
      · rfl
      · simp only []
        split <;> rfl

theorem postPre_cases (vl : Nat) (b : LBuf) : postPre vl b = [] ∨ postPre vl b = [DOT, BS] ∨ postPre vl b = [BS, DOT] := by
  unfold postPre
  repeat' split
  all_goals simp

theorem postPre_of_vol (vl : Nat) (b : LBuf) (h : vl ≠ 0) : postPre vl b = [] := by
  simp [postPre, h]

theorem map_fsC_of_noSL (l : Bytes) (h : SL ∉ l) : l.map fsC = l := by
  have := (fromSlash_eq_self_iff l).mpr h
  rwa [fromSlash_win] at this

theorem winBody_noSL (path : Bytes) : SL ∉ winBody path := by
  have := fromSlash_no_SL (Spec.clean (path.map tsC))
  rwa [fromSlash_win] at this

theorem spec_clean_ne_nil (q : Bytes) : Spec.clean q ≠ [] := by
  unfold Spec.clean render
  simp only []
  generalize (if isRooted q = true then SL :: joinWith SL _ else joinWith SL _) = r
  cases r <;> simp

theorem winBody_ne_nil (path : Bytes) : winBody path ≠ [] := by
  simp only [winBody, ne_eq, List.map_eq_nil_iff]
  exact spec_clean_ne_nil _

/-- Clean on Windows, a path with a non-empty rest after the volume:
    `VolumeName p ++ (what postClean prepends) ++ FromSlash (Spec.clean (ToSlash rest))`. -/
theorem clean_win_eq (p : Bytes) (c : UInt8) (rest : Bytes)
    (h : p.drop (volumeNameLen .windows p) = c :: rest) :
    clean .windows p = volumeName .windows p
      ++ postPre (volumeNameLen .windows p) (cleanBuf .windows c rest) ++ winBody (c :: rest) := by
  rw [clean_win_cons p c rest h, postClean_eq, cleanBuf_out, fromSlash_append_win, fromSlash_append_win,
    volumeName, List.append_assoc]
  congr 2
  · rcases postPre_cases (volumeNameLen .windows p) (cleanBuf .windows c rest) with e | e | e <;> rw [e] <;> decide
  · rw [fromSlash_win]; exact map_fsC_of_noSL _ (winBody_noSL _)

/-- the path starts with two separators -/
def twoSeps (p : Bytes) : Bool :=
  match p with | c0 :: c1 :: _ => isSep .windows c0 && isSep .windows c1 | _ => false

/-- Clean on Windows, a path that is only a volume name (or empty). -/
theorem clean_win_nil (p : Bytes) (h : p.drop (volumeNameLen .windows p) = []) :
    clean .windows p =
      if volumeNameLen .windows p > 1 && twoSeps p then fromSlash .windows p else p ++ [DOT] := by
  unfold clean twoSeps
  simp only []
  rw [h]
  rfl


/-! ### 3c. First consequences -/

theorem drop_cases (p : Bytes) (n : Nat) : p.drop n = [] ∨ ∃ c rest, p.drop n = c :: rest := by
  cases h : p.drop n with
  | nil => exact Or.inl rfl
  | cons c rest => exact Or.inr ⟨c, rest, rfl⟩

/-- Clean never returns the empty string. -/
theorem clean_ne_nil_win (p : Bytes) : clean .windows p ≠ [] := by
  rcases drop_cases p (volumeNameLen .windows p) with h | ⟨c, rest, h⟩
  · rw [clean_win_nil p h]
    split
    · rename_i hc
      cases p with
      | nil => simp [twoSeps] at hc
      | cons a p => simp [fromSlash_win]
    · simp
  · rw [clean_win_eq p c rest h]
    intro e
    simp only [List.append_eq_nil_iff] at e
    exact winBody_ne_nil _ e.2

/-- With a non-empty rest after the volume, the result of Clean contains no '/'. -/
theorem clean_no_SL_of_rest (p : Bytes) (h : volumeNameLen .windows p < p.length) : SL ∉ clean .windows p := by
  rcases drop_cases p (volumeNameLen .windows p) with h0 | ⟨c, rest, h0⟩
  · have := congrArg List.length h0
    simp at this; omega
  · rw [clean_win_eq p c rest h0]
    simp only [List.mem_append, not_or]
    refine ⟨⟨volumeName_no_SL p, ?_⟩, winBody_noSL _⟩
    rcases postPre_cases (volumeNameLen .windows p) (cleanBuf .windows c rest) with e | e | e <;> rw [e] <;> decide

/-- The result of Clean contains a '/' exactly when the path is only a volume name that does not start with two
    separators (a "drive" `X:` with any byte X, or a `\\??`-device prefix) and itself contains '/':
    Go returns `originalPath + "."` without FromSlash there. -/
theorem clean_SL_iff (p : Bytes) :
    SL ∈ clean .windows p ↔
      (volumeNameLen .windows p = p.length ∧ ¬ (volumeNameLen .windows p > 1 ∧ twoSeps p = true) ∧ SL ∈ p) := by
  by_cases hlt : volumeNameLen .windows p < p.length
  · constructor
    · intro h; exact absurd h (clean_no_SL_of_rest p hlt)
    · intro h; omega
  · have hle := volumeNameLen_le .windows p
    have heq : volumeNameLen .windows p = p.length := by omega
    have h0 : p.drop (volumeNameLen .windows p) = [] := by rw [heq]; simp
    rw [clean_win_nil p h0]
    by_cases hc : volumeNameLen .windows p > 1 ∧ twoSeps p = true
    · have : (decide (volumeNameLen .windows p > 1) && twoSeps p) = true := by simp [hc.1, hc.2]
      rw [if_pos this]
      constructor
      · intro h; exact absurd h (fromSlash_no_SL p)
      · intro h; exact absurd hc h.2.1
    · have : ¬ (decide (volumeNameLen .windows p > 1) && twoSeps p) = true := by
        simpa using hc
      rw [if_neg this]
      simp only [List.mem_append, List.mem_singleton]
      constructor
      · intro h
        rcases h with h | h
        · exact ⟨heq, hc, h⟩
        · exact absurd h (by decide)
      · intro h; exact Or.inl h.2.2

/-- smallest counterexample to "Clean returns no '/'": Clean("/:") = "/:." -/
theorem clean_SL_cex : clean .windows [SL, COLON] = [SL, COLON, DOT] := by decide +kernel

theorem clean_no_SL_of_noSL (p : Bytes) (h : SL ∉ p) : SL ∉ clean .windows p := by
  intro hm; exact h ((clean_SL_iff p).mp hm).2.2


/-! ### 5. Join of two elements -/

/-- Go's rules for joining two elements on Windows (joinWindows), before the final Clean:
    * an empty first element is ignored;
    * after a first element that ends in a separator, the leading separators of the second are dropped (so that
      `\\` + `\\host\\share` does not become a UNC path), and if the first element is a single separator and the second
      now starts with `??`, a `.\\` is inserted (so that no `\\??\\` device prefix is created);
    * after a first element that ends in ':' (a bare drive `C:`) nothing is inserted (`C:` + `a` = `C:a`);
    * otherwise a `\\` is inserted — also when the second element is empty. -/
def joinW2 (a b : Bytes) : Bytes :=
  match a.getLast? with
  | none => b
  | some l =>
    if isSlash l then
      (if a.length == 1 && hasPrefixFoldQQ (b.dropWhile isSlash) then a ++ [DOT, BS] else a) ++ b.dropWhile isSlash
    else if l == COLON then a ++ b
    else a ++ BS :: b

theorem getLast?_append_ne_nil (a e : Bytes) (x : UInt8) (h : e.getLast? = some x) : (a ++ e).getLast? = some x := by
  cases e with
  | nil => simp at h
  | cons y e => rw [List.getLast?_append]; simp [h]

theorem joinWindowsLoop_two (a b : Bytes) : joinWindowsLoop [a, b] [] 0 = joinW2 a b := by
  unfold joinW2
  cases ha : a.getLast? with
  | none =>
    have : a = [] := by simpa using ha
    subst this
    cases hb : b.getLast? with
    | none =>
      have : b = [] := by simpa using hb
      subst this
      simp [joinWindowsLoop]
    | some l => simp [joinWindowsLoop, hb]
  | some l =>
    have hne : a ≠ [] := by intro e; simp [e] at ha
    have hlen : (a.length == 0) = false := by simpa using hne
    simp only [joinWindowsLoop, List.length_nil, beq_self_eq_true, if_true, ha, List.nil_append, hlen,
      Bool.false_eq_true, if_false]
    by_cases hs : isSlash l = true
    · simp only [hs, if_true]
      cases he : (b.dropWhile isSlash).getLast? with
      | none =>
        have : b.dropWhile isSlash = [] := by simpa using he
        simp [this, joinWindowsLoop, hasPrefixFoldQQ]
      | some x => simp [joinWindowsLoop]
    · have hs' : isSlash l = false := by simpa using hs
      simp only [hs', Bool.false_eq_true, if_false]
      by_cases hc : (l == COLON) = true
      · simp only [hc, if_true]
        cases hb : b.getLast? with
        | none =>
          have : b = [] := by simpa using hb
          subst this
          simp [joinWindowsLoop]
        | some x => simp [joinWindowsLoop]
      · simp only [hc, if_false]
        cases hb : b.getLast? with
        | none =>
          have : b = [] := by simpa using hb
          subst this
          simp [joinWindowsLoop]
        | some x => simp [joinWindowsLoop, hb]

/-- Join of two elements on Windows = Clean of Go's pre-join `joinW2`, or "" if that is empty. -/
theorem join_two_win (a b : Bytes) :
    join .windows [a, b] = if joinW2 a b = [] then [] else clean .windows (joinW2 a b) := by
  simp only [join, joinWindowsLoop_two]
  cases joinW2 a b <;> simp

/-- Go's documented main rule: a non-empty first element that ends neither in a separator nor in ':' is joined
    to the second one with a `\\`, and the result is Cleaned. -/
theorem join_two_win_sep (a b : Bytes) (l : UInt8) (hl : a.getLast? = some l) (h1 : isSlash l = false)
    (h2 : l ≠ COLON) : join .windows [a, b] = clean .windows (a ++ BS :: b) := by
  rw [join_two_win]
  have : joinW2 a b = a ++ BS :: b := by simp [joinW2, hl, h1, h2]
  rw [this]; simp

/-- a bare drive (or anything ending in ':') is joined without a separator: `C:` + `a` = `C:a` -/
theorem join_two_win_colon (a b : Bytes) (hl : a.getLast? = some COLON) :
    join .windows [a, b] = clean .windows (a ++ b) := by
  rw [join_two_win]
  have : joinW2 a b = a ++ b := by
    have : isSlash COLON = false := by decide
    simp [joinW2, hl, this]
  rw [this]
  have : a ≠ [] := by intro e; simp [e] at hl
  simp [this]

/-- after a first element of at least two bytes that ends in a separator, the leading separators of the second
    element are dropped (no UNC path is created by joining) -/
theorem join_two_win_trailing (a b : Bytes) (l : UInt8) (hl : a.getLast? = some l) (h1 : isSlash l = true)
    (h2 : a.length ≠ 1 ∨ hasPrefixFoldQQ (b.dropWhile isSlash) = false) :
    join .windows [a, b] = clean .windows (a ++ b.dropWhile isSlash) := by
  rw [join_two_win]
  have : joinW2 a b = a ++ b.dropWhile isSlash := by
    rcases h2 with h2 | h2 <;> simp [joinW2, hl, h1, h2]
  rw [this]
  have : a ≠ [] := by intro e; simp [e] at hl
  simp [this]

/-- `\\` + `??\\…`: a `.\\` is inserted so that no `\\??\\` prefix arises -/
theorem join_two_win_qq (s : UInt8) (b : Bytes) (h1 : isSlash s = true)
    (h2 : hasPrefixFoldQQ (b.dropWhile isSlash) = true) :
    join .windows [[s], b] = clean .windows ([s, DOT, BS] ++ b.dropWhile isSlash) := by
  rw [join_two_win]
  have : joinW2 [s] b = [s, DOT, BS] ++ b.dropWhile isSlash := by simp [joinW2, h1, h2]
  rw [this]; simp

/-- an empty first element is ignored -/
theorem join_two_win_nil (b : Bytes) : join .windows [[], b] = if b = [] then [] else clean .windows b := by
  rw [join_two_win]
  have : joinW2 [] b = b := by simp [joinW2]
  rw [this]


/-! ### 3d. The bytes of the physical lazybuf -/

/-- every byte of the physical buffer (logical content and what lies beyond it) satisfies `S` -/
def PhysAll (S : UInt8 → Prop) (b : LBuf) : Prop := ∀ x ∈ b.out ++ b.stale, S x

theorem lbAppend_phys {S : UInt8 → Prop} (path : Bytes) (b : LBuf) (c : UInt8)
    (hb : PhysAll S b) (hc : S c) (h0 : S 0) : PhysAll S (lbAppend path b c) := by
  unfold lbAppend
  intro x hx
  split at hx
  · simp only [List.mem_append, List.mem_singleton] at hx
    rcases hx with (hx | hx) | hx
    · exact hb x (by simp [hx])
    · exact hx ▸ hc
    · exact hb x (by simp [List.mem_of_mem_drop hx])
  · split at hx
    · simp only [List.mem_append, List.mem_singleton] at hx
      rcases hx with (hx | hx) | hx
      · exact hb x (by simp [hx])
      · exact hx ▸ hc
      · exact hb x (by simp [hx])
    · simp only [List.mem_append, List.mem_singleton, List.mem_replicate] at hx
      rcases hx with (hx | hx) | hx
      · exact hb x (by simp [hx])
      · exact hx ▸ hc
      · exact hx.2 ▸ h0

theorem lbBack_phys {S : UInt8 → Prop} (os : OS) (b : LBuf) (dd : Nat) (hb : PhysAll S b) :
    PhysAll S (lbBack os b dd) := by
  unfold lbBack
  intro x hx
  simp only [List.mem_append] at hx
  rcases hx with hx | hx
  · exact hb x (by simp [backW_sub os _ _ x hx])
  · split at hx
    · simp only [List.mem_append] at hx
      rcases hx with hx | hx
      · exact hb x (by simp [List.mem_of_mem_drop hx])
      · exact hb x (by simp [hx])
    · exact hb x (by simp [hx])

theorem appendAll_phys {S : UInt8 → Prop} (path : Bytes) (b : LBuf) (cs : Bytes)
    (hb : PhysAll S b) (hc : ∀ x ∈ cs, S x) (h0 : S 0) : PhysAll S (appendAll path b cs) := by
  induction cs generalizing b with
  | nil => exact hb
  | cons c cs ih =>
    simp only [appendAll]
    exact ih _ (lbAppend_phys path b c hb (hc c (by simp)) h0) (fun x hx => hc x (by simp [hx]))

theorem loop_phys {S : UInt8 → Prop} (os : OS) (path : Bytes) (rooted : Bool) (rest : Bytes) (b : LBuf) (dd : Nat)
    (h0 : S 0) (hsep : S (pathSep os)) (hdot : S DOT) :
    (∀ x ∈ rest, S x) → PhysAll S b → PhysAll S (cleanLoop os path rooted rest b dd) := by
  fun_induction cleanLoop os path rooted rest b dd
  · intro _ hb; exact hb
  · rename_i b dd c r h ih
    intro hr hb; exact ih (fun x hx => hr x (by simp [hx])) hb
  · rename_i b dd c r h0' h ih
    intro hr hb; exact ih (fun x hx => hr x (by simp [hx])) hb
  · rename_i b dd c r h0' h1' h rest2 hlen ih
    intro hr hb
    exact ih (fun x hx => hr x (by simp [List.mem_of_mem_tail hx])) (lbBack_phys os b dd hb)
  · rename_i b dd c r h0' h1' h rest2 hlen hroot b1 b3 ih
    intro hr hb
    apply ih (fun x hx => hr x (by simp [List.mem_of_mem_tail hx]))
    apply lbAppend_phys _ _ _ _ hdot h0
    apply lbAppend_phys _ _ _ _ hdot h0
    simp only [b1]
    split
    · exact lbAppend_phys _ _ _ hb hsep h0
    · exact hb
  · rename_i b dd c r h0' h1' h rest2 hlen hroot ih
    intro hr hb
    exact ih (fun x hx => hr x (by simp [List.mem_of_mem_tail hx])) hb
  · rename_i b dd c r h0' h1' h b1 elem rest' ih
    intro hr hb
    apply ih
    · intro x hx; exact hr x ((List.dropWhile_suffix _).subset hx)
    · apply appendAll_phys _ _ _ _ _ h0
      · simp only [b1]
        split
        · exact lbAppend_phys _ _ _ hb hsep h0
        · exact hb
      · intro x hx; exact hr x ((List.takeWhile_prefix _).subset hx)

theorem cleanBuf_phys {S : UInt8 → Prop} (os : OS) (c : UInt8) (rest : Bytes)
    (h0 : S 0) (hsep : S (pathSep os)) (hdot : S DOT) (hp : ∀ x ∈ c :: rest, S x) :
    PhysAll S (cleanBuf os c rest) := by
  have hb0 : PhysAll S { out := [], stale := [], dv := false } := by intro x hx; simp at hx
  have hb2 : PhysAll S (if isSep os c then cleanLoop os (c :: rest) true rest
        (lbAppend (c :: rest) { out := [], stale := [], dv := false } (pathSep os)) 1
      else cleanLoop os (c :: rest) false (c :: rest) { out := [], stale := [], dv := false } 0) := by
    split
    · exact loop_phys os _ _ _ _ _ h0 hsep hdot (fun x hx => hp x (by simp [hx])) (lbAppend_phys _ _ _ hb0 hsep h0)
    · exact loop_phys os _ _ _ _ _ h0 hsep hdot hp hb0
  unfold cleanBuf
  simp only []
  by_cases hs : isSep os c = true
  · simp only [hs, if_true] at hb2 ⊢
    split
    · exact lbAppend_phys _ _ _ hb2 hdot h0
    · exact hb2
  · have hs' : isSep os c = false := by simpa using hs
    simp only [hs', Bool.false_eq_true, if_false] at hb2 ⊢
    split
    · exact lbAppend_phys _ _ _ hb2 hdot h0
    · exact hb2


/-! ### 3e. postClean does nothing without ':' and '?' ; the shape of the cleaned body -/

theorem postPre_nil_of_no_colon_qm (vl : Nat) (c : UInt8) (rest : Bytes)
    (h1 : COLON ∉ c :: rest) (h2 : QM ∉ c :: rest) : postPre vl (cleanBuf .windows c rest) = [] := by
  have hp := cleanBuf_phys (S := fun x => x ≠ COLON ∧ x ≠ QM) .windows c rest (by decide) (by decide) (by decide)
    (fun x hx => ⟨fun e => h1 (e ▸ hx), fun e => h2 (e ▸ hx)⟩)
  unfold PhysAll at hp
  unfold postPre
  generalize (cleanBuf .windows c rest).out ++ (cleanBuf .windows c rest).stale = phys at hp
  split
  · rfl
  · split
    · rename_i hc
      rw [List.contains_iff_mem] at hc
      exact absurd rfl (hp _ ((List.takeWhile_prefix _).subset hc)).1
    · rcases phys with _ | ⟨c0, _ | ⟨c1, _ | ⟨c2, t⟩⟩⟩
      · rfl
      · rfl
      · rfl
      · simp only []
        split
        · rename_i hq
          simp only [Bool.and_eq_true, beq_iff_eq] at hq
          exact absurd hq.1.2 (hp c1 (by simp)).2
        · rfl

theorem winBody_no (y : UInt8) (hy0 : y ≠ 0) (hy1 : y ≠ BS) (hy2 : y ≠ DOT) (c : UInt8) (rest : Bytes)
    (h : y ∉ c :: rest) : y ∉ winBody (c :: rest) := by
  have hp := cleanBuf_phys (S := fun x => x ≠ y) .windows c rest (fun e => hy0 e.symm) (fun e => hy1 e.symm)
    (fun e => hy2 e.symm) (fun x hx e => h (e ▸ hx))
  rw [← cleanBuf_out]
  intro hm
  exact hp y (by simp [hm]) rfl

/-- the reference Clean keeps rootedness, and after the root comes no second separator -/
theorem spec_clean_head (x : Bytes) :
    (isRooted x = true → ∃ body, Spec.clean x = SL :: body ∧ isRooted body = false) ∧
    (isRooted x = false → isRooted (Spec.clean x) = false) := by
  have hinv := inv_fold (rooted := isRooted x) (comps x) (comps_good x) (inv_init _)
  have good' : ∀ c ∈ ((comps x).foldl (specStep (isRooted x)) []).reverse, GoodC c :=
    fun c hc => hinv.good c (by simpa using hc)
  have hr := isRooted_joinWith _ good'
  constructor
  · intro h
    refine ⟨joinWith SL ((comps x).foldl (specStep (isRooted x)) []).reverse, ?_, hr⟩
    simp [Spec.clean, render, h]
  · intro h
    rw [h] at hr
    simp only [Spec.clean, render, h]
    generalize joinWith SL ((comps x).foldl (specStep false) []).reverse = body at hr ⊢
    cases body with
    | nil => decide
    | cons a t => simpa using hr

theorem spec_clean_ts_noBS (c : UInt8) (rest : Bytes) : BS ∉ Spec.clean ((c :: rest).map tsC) := by
  obtain ⟨h1, _⟩ := cleanBuf_sim c rest
  rw [← clean_eq_spec, List.map_cons, clean_lin_cons, h1]
  simp only [List.mem_map, not_exists, not_and]
  intro x _; exact tsC_ne_BS x

theorem map_tsC_of_noBS (l : Bytes) (h : BS ∉ l) : l.map tsC = l := by
  conv => rhs; rw [← List.map_id l]
  apply List.map_congr_left
  intro c hc
  exact tsC_of_ne (fun e => h (e ▸ hc))

theorem winBody_ts (c : UInt8) (rest : Bytes) :
    (winBody (c :: rest)).map tsC = Spec.clean ((c :: rest).map tsC) := by
  rw [winBody, List.map_map]
  have : (tsC ∘ fsC) = tsC := by funext x; exact tsC_fsC x
  rw [this]
  exact map_tsC_of_noBS _ (spec_clean_ts_noBS c rest)

theorem winBody_idem (c : UInt8) (rest : Bytes) : winBody (winBody (c :: rest)) = winBody (c :: rest) := by
  conv => lhs; rw [winBody, winBody_ts, spec_clean_idem]
  rfl

theorem isRooted_map_tsC (x : Bytes) : isRooted (x.map tsC) = (match x with | c :: _ => isSlash c | [] => false) := by
  cases x with
  | nil => rfl
  | cons c r => simp [isRooted, tsC_eq_SL]

/-- the cleaned body starts with a separator iff the input does; it never starts with two separators -/
theorem winBody_head (c : UInt8) (rest : Bytes) :
    ∃ c' rest', winBody (c :: rest) = c' :: rest' ∧ isSlash c' = isSlash c ∧
      (isSlash c = true → c' = BS ∧ (match rest' with | d :: _ => isSlash d = false | [] => True)) := by
  have hnb := spec_clean_ts_noBS c rest
  have hr := isRooted_map_tsC (c :: rest)
  simp only [] at hr
  obtain ⟨h1, h2⟩ := spec_clean_head ((c :: rest).map tsC)
  unfold winBody
  by_cases hs : isSlash c = true
  · rw [hs] at hr
    obtain ⟨body, hb, hbr⟩ := h1 hr
    rw [hb] at hnb ⊢
    refine ⟨BS, body.map fsC, by simp, by simp [hs]; decide, fun _ => ⟨rfl, ?_⟩⟩
    cases body with
    | nil => trivial
    | cons d t =>
      simp only [List.map_cons]
      have hd1 : d ≠ SL := by simpa [isRooted] using hbr
      have hd2 : d ≠ BS := by intro e; apply hnb; simp [e]
      rw [fsC_of_ne hd1]; simp [isSlash, hd1, hd2]
  · have hs' : isSlash c = false := by simpa using hs
    rw [hs'] at hr
    have := h2 hr
    have hne := spec_clean_ne_nil ((c :: rest).map tsC)
    cases hsc : Spec.clean ((c :: rest).map tsC) with
    | nil => exact absurd hsc hne
    | cons d t =>
      rw [hsc] at this hnb
      have hd1 : d ≠ SL := by simpa [isRooted] using this
      have hd2 : d ≠ BS := by intro e; apply hnb; simp [e]
      refine ⟨d, t.map fsC, by simp [fsC_of_ne hd1], by rw [hs']; simp [isSlash, hd1, hd2], fun h => by simp [hs'] at h⟩


/-! ### 3f. Idempotence of Clean -/

theorem toUpper_QM_eq (d : UInt8) : (toUpper QM == toUpper d) = (d == QM) := by
  revert d; apply forall_u8; decide +kernel

/-- a string whose second byte is not ':' and that, if it starts with a separator, continues with a byte that is
    neither a separator nor '?', has no volume name -/
theorem volumeNameLen_zero_of_shape (c' : UInt8) (rest' : Bytes)
    (h1 : ∀ d t, rest' = d :: t → d ≠ COLON)
    (h2 : isSlash c' = true → ∀ d t, rest' = d :: t → isSlash d = false ∧ d ≠ QM) :
    volumeNameLen .windows (c' :: rest') = 0 := by
  cases rest' with
  | nil =>
    simp only [volumeNameLen]
    by_cases hs : isSlash c' = true <;> simp [hs, pathHasPrefixFold, pfxDotUNC, pfxDot, pfxQM, pfxQQ]
  | cons d t =>
    have hd := h1 d t rfl
    by_cases hs : isSlash c' = true
    · obtain ⟨hd1, hd2⟩ := h2 hs d t rfl
      have hB : isSlash BS = true := by decide
      have hQ : isSlash QM = false := by decide
      simp [volumeNameLen, hd, hs, hd1, hd2, pathHasPrefixFold, prefixFoldLoop, pfxDotUNC, pfxDot, pfxQM, pfxQQ, hB, hQ,
        toUpper_QM_eq]
    · simp [volumeNameLen, hd, hs]

/-- Clean is idempotent on paths without volume name that contain neither ':' nor '?' -/
theorem clean_idem_novol (p : Bytes) (hv : volumeNameLen .windows p = 0) (h1 : COLON ∉ p) (h2 : QM ∉ p) :
    clean .windows (clean .windows p) = clean .windows p := by
  cases p with
  | nil => decide +kernel
  | cons c rest =>
    have hd : (c :: rest).drop (volumeNameLen .windows (c :: rest)) = c :: rest := by rw [hv]; rfl
    have hq : clean .windows (c :: rest) = winBody (c :: rest) := by
      rw [clean_win_eq _ c rest hd, postPre_nil_of_no_colon_qm _ c rest h1 h2, volumeName, hv]
      simp [fromSlash_win]
    rw [hq]
    obtain ⟨c', rest', hS, hs1, hs2⟩ := winBody_head c rest
    have hc1 : COLON ∉ c' :: rest' := hS ▸ winBody_no COLON (by decide) (by decide) (by decide) c rest h1
    have hc2 : QM ∉ c' :: rest' := hS ▸ winBody_no QM (by decide) (by decide) (by decide) c rest h2
    have hv' : volumeNameLen .windows (c' :: rest') = 0 := by
      apply volumeNameLen_zero_of_shape
      · intro d t e; subst e; intro e; apply hc1; simp [e]
      · intro hs d t e
        subst e
        have := (hs2 (hs1 ▸ hs)).2
        simp only [] at this
        exact ⟨this, fun e => hc2 (by simp [e])⟩
    rw [hS]
    have hd' : (c' :: rest').drop (volumeNameLen .windows (c' :: rest')) = c' :: rest' := by rw [hv']; rfl
    rw [clean_win_eq _ c' rest' hd', postPre_nil_of_no_colon_qm _ c' rest' hc1 hc2, volumeName, hv', ← hS, winBody_idem]
    simp [fromSlash_win]

/-- Clean is idempotent on a path with a volume name and a non-empty rest, provided Clean keeps the length of the
    volume name (`volumeNameLen_clean` shows that it does). -/
theorem clean_idem_vol_of (p : Bytes) (hv : volumeNameLen .windows p ≠ 0)
    (hlt : volumeNameLen .windows p < p.length)
    (hvs : volumeNameLen .windows (clean .windows p) = volumeNameLen .windows p) :
    clean .windows (clean .windows p) = clean .windows p := by
  rcases drop_cases p (volumeNameLen .windows p) with h0 | ⟨c, rest, h0⟩
  · have := congrArg List.length h0
    simp at this; omega
  · have hq : clean .windows p = volumeName .windows p ++ winBody (c :: rest) := by
      rw [clean_win_eq p c rest h0, postPre_of_vol _ _ hv]; simp
    obtain ⟨c', rest', hS, _, _⟩ := winBody_head c rest
    have hlen := volumeName_length p
    have hd' : (clean .windows p).drop (volumeNameLen .windows (clean .windows p)) = c' :: rest' := by
      rw [hvs, hq, ← hlen, List.drop_left, hS]
    have ht' : volumeName .windows (clean .windows p) = volumeName .windows p := by
      rw [volumeName, hvs]
      conv => lhs; rw [hq, ← hlen, List.take_left]
      rw [volumeName]; exact fromSlash_idem_win _
    rw [clean_win_eq _ c' rest' hd', postPre_of_vol _ _ (by rw [hvs]; exact hv), ht', ← hS, winBody_idem, hq]
    simp

/-- a drive prefix `X:` survives Clean -/
theorem volumeNameLen_clean_drive (c0 c : UInt8) (rest : Bytes) :
    volumeNameLen .windows (clean .windows (c0 :: COLON :: c :: rest)) = 2 := by
  have hv : volumeNameLen .windows (c0 :: COLON :: c :: rest) = 2 := by simp [volumeNameLen]
  have hd : (c0 :: COLON :: c :: rest).drop (volumeNameLen .windows (c0 :: COLON :: c :: rest)) = c :: rest := by
    rw [hv]; rfl
  rw [clean_win_eq _ c rest hd, volumeName, hv]
  simp [fromSlash_win, volumeNameLen, fsC_eq_COLON]

theorem twoSeps_fromSlash (p : Bytes) : twoSeps (fromSlash .windows p) = twoSeps p := by
  rw [fromSlash_win]
  rcases p with _ | ⟨a, _ | ⟨b, t⟩⟩ <;> simp [twoSeps, isSep_win]

/-- Clean is idempotent on a path that is only a volume name starting with two separators (UNC, `\\\\.\\`, `\\\\?\\`),
    on a bare drive `X:` (X ≠ '/'), on `\\??`, and on "". -/
theorem clean_idem_volonly (p : Bytes) (hv : volumeNameLen .windows p = p.length)
    (h : p = [] ∨ (volumeNameLen .windows p > 1 ∧ twoSeps p = true) ∨ (∃ c0, c0 ≠ SL ∧ p = [c0, COLON])
       ∨ p = [BS, QM, QM]) :
    clean .windows (clean .windows p) = clean .windows p := by
  rcases h with rfl | ⟨h1, h2⟩ | ⟨c0, hc, rfl⟩ | rfl
  · decide +kernel
  · have h0 : p.drop (volumeNameLen .windows p) = [] := by rw [hv]; simp
    have hq : clean .windows p = fromSlash .windows p := by
      rw [clean_win_nil p h0]; simp [h1, h2]
    rw [hq]
    have hv' : volumeNameLen .windows (fromSlash .windows p) = (fromSlash .windows p).length := by
      rw [volumeNameLen_fromSlash, hv, fromSlash_length_win]
    have h0' : (fromSlash .windows p).drop (volumeNameLen .windows (fromSlash .windows p)) = [] := by
      rw [hv']; simp
    rw [clean_win_nil _ h0', volumeNameLen_fromSlash, twoSeps_fromSlash]
    simp [h1, h2, fromSlash_idem_win]
  · have h0 : clean .windows [c0, COLON] = [c0, COLON, DOT] := by
      rw [clean_win_nil _ (by simp [volumeNameLen])]
      simp [volumeNameLen, twoSeps, isSep_win, isSlash]
      intro _ h
      exact absurd h (by decide)
    rw [h0]
    have hd : [c0, COLON, DOT].drop (volumeNameLen .windows [c0, COLON, DOT]) = DOT :: [] := by
      simp [volumeNameLen]
    rw [clean_win_eq _ DOT [] hd, postPre_of_vol _ _ (by simp [volumeNameLen])]
    have : winBody [DOT] = [DOT] := by decide +kernel
    rw [this]
    simp [volumeName, volumeNameLen, fromSlash_win, fsC_of_ne hc]
    decide
  · decide +kernel


/-! ### 3g. Kernel-checked witnesses: where the "obvious" laws of Clean fail on Windows -/

/-- smallest counterexample to idempotence: Clean("/:") = "/:." (no FromSlash on a bare volume), Clean("/:.") = "\\:." -/
theorem clean_idem_cex_drive :
    clean .windows [SL, COLON] = [SL, COLON, DOT] ∧ clean .windows [SL, COLON, DOT] = [BS, COLON, DOT] := by
  decide +kernel

/-- a `\\??\\x` device prefix that is the whole path grows by a "." on every Clean -/
theorem clean_idem_cex_device :
    clean .windows [BS, QM, QM, BS, 97] = [BS, QM, QM, BS, 97, DOT] ∧
    clean .windows [BS, QM, QM, BS, 97, DOT] = [BS, QM, QM, BS, 97, DOT, DOT] := by
  decide +kernel

/-- Clean can CREATE a volume name: "/./:" has none, its Clean "\\:" is the "drive" `\\:`;
    a second Clean gives "\\:." -/
theorem clean_volume_cex :
    volumeNameLen .windows [SL, DOT, SL, COLON] = 0 ∧
    clean .windows [SL, DOT, SL, COLON] = [BS, COLON] ∧
    volumeNameLen .windows (clean .windows [SL, DOT, SL, COLON]) = 2 ∧
    clean .windows [BS, COLON] = [BS, COLON, DOT] := by
  decide +kernel

/-- Clean can LOSE a volume name: "/??" is all volume (length 3), its Clean "/??." has none -/
theorem clean_volume_cex_lost :
    volumeNameLen .windows [SL, QM, QM] = 3 ∧
    clean .windows [SL, QM, QM] = [SL, QM, QM, DOT] ∧
    volumeNameLen .windows [SL, QM, QM, DOT] = 0 := by
  decide +kernel

/-- postClean inspects the PHYSICAL lazybuf (bytes left behind by backtracking), so a ':' that is no longer part
    of the result still triggers the `.\\` prefix: Clean("./a:b/..") = ".\\." and Clean(".\\.") = "." -/
theorem clean_idem_cex_stale_colon :
    clean .windows [DOT, SL, 97, COLON, 66, SL, DOT, DOT] = [DOT, BS, DOT] ∧
    clean .windows [DOT, BS, DOT] = [DOT] := by
  decide +kernel

/-- the same with '?': Clean("/./a?/../?") = "\\.\\?" and Clean("\\.\\?") = "\\?" -/
theorem clean_idem_cex_stale_qm :
    clean .windows [SL, DOT, SL, 97, QM, SL, DOT, DOT, SL, QM] = [BS, DOT, BS, QM] ∧
    clean .windows [BS, DOT, BS, QM] = [BS, QM] := by
  decide +kernel

/-- IsAbs is not invariant under Clean (smallest counterexample has length 6): "/./:/a" is not absolute,
    its Clean "\\:\\a" is ("drive" `\\:` followed by a separator) -/
theorem isAbs_clean_cex :
    isAbs .windows [SL, DOT, SL, COLON, SL, 97] = false ∧
    clean .windows [SL, DOT, SL, COLON, SL, 97] = [BS, COLON, BS, 97] ∧
    isAbs .windows [BS, COLON, BS, 97] = true := by
  decide +kernel

/-! ### 6. Split -/

theorem mem_drop_of_le {α} (l : List α) (i j : Nat) (h : i ≤ j) : ∀ x ∈ l.drop j, x ∈ l.drop i := by
  intro x hx
  have : l.drop j = (l.drop i).drop (j - i) := by rw [List.drop_drop]; congr 1; omega
  rw [this] at hx
  exact List.mem_of_mem_drop hx

/-- Split: the file part contains no separator ('\\' or '/'), for every byte string -/
theorem split_file_nosep_win (p : Bytes) : ∀ c ∈ (split .windows p).2, isSlash c = false := by
  intro c hc
  simp only [split, lastSepEnd] at hc
  have key : ∀ x ∈ p.drop (p.length - (p.reverse.takeWhile (fun c => !isSep .windows c)).length), isSlash x = false := by
    intro x hx
    rw [drop_len_sub_tw] at hx
    have := mem_takeWhile_imp (List.mem_reverse.mp hx)
    simpa [isSep_win] using this
  split at hc
  · rename_i hlt
    exact key c (mem_drop_of_le p _ _ (by omega) c hc)
  · exact key c hc

/-- Split: dir ++ file = path -/
theorem split_append_win (p : Bytes) : (split .windows p).1 ++ (split .windows p).2 = p := by
  simp [split]

/-- Split: the dir part contains the whole volume name -/
theorem split_dir_vol_win (p : Bytes) : volumeNameLen .windows p ≤ (split .windows p).1.length := by
  have hle := volumeNameLen_le .windows p
  simp only [split, lastSepEnd, volumeName_length, List.length_take]
  split <;> omega

/-! ### 4. IsAbs -/

/-- IsAbs on Windows: there is a volume name, and either the path starts with two separators (UNC and `\\\\.\\`,
    `\\\\?\\` device paths) or a separator follows the volume name (`C:\\…`, `\\??\\C:\\…`). -/
theorem isAbs_win_iff (p : Bytes) :
    isAbs .windows p = true ↔
      0 < volumeNameLen .windows p ∧
        (twoSeps p = true ∨ ∃ c r, p.drop (volumeNameLen .windows p) = c :: r ∧ isSlash c = true) := by
  rcases p with _ | ⟨a, _ | ⟨c1, t⟩⟩
  · simp [isAbs, volumeNameLen]
  · have : volumeNameLen .windows [a] = 0 := by
      have := volumeNameLen_zero_of_shape a [] (by simp) (by simp)
      exact this
    simp [isAbs, this]
  · simp only [isAbs, twoSeps, isSep_win]
    by_cases hl : volumeNameLen .windows (a :: c1 :: t) = 0
    · simp [hl]
    · have hl' : 0 < volumeNameLen .windows (a :: c1 :: t) := by omega
      simp only [hl, beq_iff_eq, if_false, hl', true_and]
      by_cases h2 : (isSlash a && isSlash c1) = true
      · simp [h2]
      · simp only [h2, if_false, Bool.false_eq_true, false_or]
        cases hd : (a :: c1 :: t).drop (volumeNameLen .windows (a :: c1 :: t)) with
        | nil => simp
        | cons c r => simp


/-! ### 3h. VolumeName / IsAbs of a cleaned path -/

/-- without ':' and '?', Clean of a path without volume name has no volume name either -/
theorem volumeNameLen_clean_novol (p : Bytes) (hv : volumeNameLen .windows p = 0) (h1 : COLON ∉ p) (h2 : QM ∉ p) :
    volumeNameLen .windows (clean .windows p) = 0 := by
  cases p with
  | nil => decide +kernel
  | cons c rest =>
    have hd : (c :: rest).drop (volumeNameLen .windows (c :: rest)) = c :: rest := by rw [hv]; rfl
    have hq : clean .windows (c :: rest) = winBody (c :: rest) := by
      rw [clean_win_eq _ c rest hd, postPre_nil_of_no_colon_qm _ c rest h1 h2, volumeName, hv]
      simp [fromSlash_win]
    rw [hq]
    obtain ⟨c', rest', hS, hs1, hs2⟩ := winBody_head c rest
    have hc1 : COLON ∉ c' :: rest' := hS ▸ winBody_no COLON (by decide) (by decide) (by decide) c rest h1
    have hc2 : QM ∉ c' :: rest' := hS ▸ winBody_no QM (by decide) (by decide) (by decide) c rest h2
    rw [hS]
    apply volumeNameLen_zero_of_shape
    · intro d t e; subst e; intro e; apply hc1; simp [e]
    · intro hs d t e
      subst e
      have := (hs2 (hs1 ▸ hs)).2
      simp only [] at this
      exact ⟨this, fun e => hc2 (by simp [e])⟩

theorem isAbs_false_of_novol (p : Bytes) (h : volumeNameLen .windows p = 0) : isAbs .windows p = false := by
  cases hi : isAbs .windows p with
  | false => rfl
  | true => have := (isAbs_win_iff p).mp hi; omega

/-- IsAbs (Clean p) = IsAbs p = false for a path without volume name and without ':' / '?' -/
theorem isAbs_clean_novol (p : Bytes) (hv : volumeNameLen .windows p = 0) (h1 : COLON ∉ p) (h2 : QM ∉ p) :
    isAbs .windows (clean .windows p) = isAbs .windows p := by
  rw [isAbs_false_of_novol p hv, isAbs_false_of_novol _ (volumeNameLen_clean_novol p hv h1 h2)]


/-! ### 3i. Idempotence, combined -/

/-- The paths on which Clean is shown to be idempotent:
    * without volume name: no ':' and no '?' in the path (postClean looks at the physical lazybuf, see the
      `clean_idem_cex_stale_*` witnesses; and a ':' / `??` can turn the result into a volume, see `clean_volume_cex`);
    * with a volume name and a non-empty rest: Clean keeps the length of the volume name
      (always so for a drive `X:`, `volumeNameLen_clean_drive`);
    * only a volume name: it starts with two separators, or is a bare drive `X:` with X ≠ '/', or is `\\??`
      (see `clean_idem_cex_drive`, `clean_idem_cex_device`). -/
def CleanStable (p : Bytes) : Prop :=
  (volumeNameLen .windows p = 0 → COLON ∉ p ∧ QM ∉ p) ∧
  (0 < volumeNameLen .windows p → volumeNameLen .windows p < p.length →
    volumeNameLen .windows (clean .windows p) = volumeNameLen .windows p) ∧
  (0 < volumeNameLen .windows p → volumeNameLen .windows p = p.length →
    ((1 < volumeNameLen .windows p ∧ twoSeps p = true) ∨ (∃ c0, c0 ≠ SL ∧ p = [c0, COLON]) ∨ p = [BS, QM, QM]))

/-- Clean is idempotent on Windows for every `CleanStable` path. -/
theorem clean_idem_win (p : Bytes) (h : CleanStable p) :
    clean .windows (clean .windows p) = clean .windows p := by
  obtain ⟨h1, h2, h3⟩ := h
  have hle := volumeNameLen_le .windows p
  by_cases hv : volumeNameLen .windows p = 0
  · exact clean_idem_novol p hv (h1 hv).1 (h1 hv).2
  · by_cases hlt : volumeNameLen .windows p < p.length
    · exact clean_idem_vol_of p hv hlt (h2 (by omega) hlt)
    · have heq : volumeNameLen .windows p = p.length := by omega
      apply clean_idem_volonly p heq
      rcases h3 (by omega) heq with h | h | h
      · exact Or.inr (Or.inl h)
      · exact Or.inr (Or.inr (Or.inl h))
      · exact Or.inr (Or.inr (Or.inr h))

/-- every path `X:rest` with a non-empty rest is CleanStable (drive-absolute `C:\\a`, drive-relative `C:a`) -/
theorem cleanStable_drive (c0 c : UInt8) (rest : Bytes) : CleanStable (c0 :: COLON :: c :: rest) := by
  have hv : volumeNameLen .windows (c0 :: COLON :: c :: rest) = 2 := by simp [volumeNameLen]
  refine ⟨fun h => by omega, fun _ _ => ?_, fun _ h => ?_⟩
  · rw [volumeNameLen_clean_drive, hv]
  · rw [hv] at h; simp at h

/-- Clean is idempotent on every path that starts with a drive `X:` followed by anything non-empty -/
theorem clean_idem_drive (c0 c : UInt8) (rest : Bytes) :
    clean .windows (clean .windows (c0 :: COLON :: c :: rest)) = clean .windows (c0 :: COLON :: c :: rest) :=
  clean_idem_win _ (cleanStable_drive c0 c rest)

/-- a path with a volume name and a non-empty rest is CleanStable as soon as Clean keeps the volume length -/
theorem cleanStable_of_vol (p : Bytes) (hv : 0 < volumeNameLen .windows p)
    (hlt : volumeNameLen .windows p < p.length)
    (hvs : volumeNameLen .windows (clean .windows p) = volumeNameLen .windows p) : CleanStable p :=
  ⟨fun h => by omega, fun _ _ => hvs, fun _ h => by omega⟩

/-- a path without volume name, ':' and '?' is CleanStable -/
theorem cleanStable_of_novol (p : Bytes) (hv : volumeNameLen .windows p = 0) (h1 : COLON ∉ p) (h2 : QM ∉ p) :
    CleanStable p :=
  ⟨fun _ => ⟨h1, h2⟩, fun h => by omega, fun h => by omega⟩


/-! ### 4b / 7. IsAbs and Abs on drive paths -/

/-- IsAbs of a drive path `X:c…` is "a separator follows the drive" -/
theorem isAbs_drive (c0 c : UInt8) (rest : Bytes) : isAbs .windows (c0 :: COLON :: c :: rest) = isSlash c := by
  have hv : volumeNameLen .windows (c0 :: COLON :: c :: rest) = 2 := by simp [volumeNameLen]
  have hc : isSlash COLON = false := by decide
  simp [isAbs, hv, hc]

/-- IsAbs (Clean p) = IsAbs p for every drive path `X:…` with a non-empty rest -/
theorem isAbs_clean_drive (c0 c : UInt8) (rest : Bytes) :
    isAbs .windows (clean .windows (c0 :: COLON :: c :: rest)) = isAbs .windows (c0 :: COLON :: c :: rest) := by
  have hv : volumeNameLen .windows (c0 :: COLON :: c :: rest) = 2 := by simp [volumeNameLen]
  have hd : (c0 :: COLON :: c :: rest).drop (volumeNameLen .windows (c0 :: COLON :: c :: rest)) = c :: rest := by
    rw [hv]; rfl
  obtain ⟨c', rest', hS, hs, _⟩ := winBody_head c rest
  have hq : clean .windows (c0 :: COLON :: c :: rest) = fsC c0 :: COLON :: c' :: rest' := by
    rw [clean_win_eq _ c rest hd, postPre_of_vol _ _ (by rw [hv]; decide), volumeName, hv, hS]
    simp [fromSlash_win]
    decide
  rw [hq, isAbs_drive, isAbs_drive, hs]

/-- Abs of an absolute drive path `X:\\…`: the result is absolute, and Abs is idempotent on it -/
theorem abs_drive (c0 c : UInt8) (rest cur : Bytes) (h : isSlash c = true) :
    isAbs .windows (abs .windows (c0 :: COLON :: c :: rest) cur) = true ∧
    abs .windows (abs .windows (c0 :: COLON :: c :: rest) cur) cur = abs .windows (c0 :: COLON :: c :: rest) cur := by
  have h1 : isAbs .windows (c0 :: COLON :: c :: rest) = true := by rw [isAbs_drive]; exact h
  have h2 : abs .windows (c0 :: COLON :: c :: rest) cur = clean .windows (c0 :: COLON :: c :: rest) := by
    simp [abs, h1]
  have h3 : isAbs .windows (clean .windows (c0 :: COLON :: c :: rest)) = true := by
    rw [isAbs_clean_drive]; exact h1
  rw [h2]
  refine ⟨h3, ?_⟩
  simp only [abs, h3, if_true]
  exact clean_idem_drive c0 c rest


/-! ### Open (validated by enumeration, not proved)

  `0 < volumeNameLen .windows p → volumeNameLen .windows p < p.length →
     volumeNameLen .windows (clean .windows p) = volumeNameLen .windows p`
  (no counterexample among all strings of length ≤ 5 over {a,B,.,/,\,:,?} and of length ≤ 7 over {a,.,/,\,?}).
  It is proved for drive prefixes (`volumeNameLen_clean_drive`); for UNC and device prefixes it needs "volumeNameLen
  only looks at the path up to the separator that ends the volume" (stability of `uncLenLoop` / `cutPathRest` /
  `pathHasPrefixFold` under a change of what follows that separator).  With it, the second clause of `CleanStable`
  becomes redundant and `isAbs (clean p) = isAbs p` extends from drives to all paths with a volume and a rest. -/

end Avfs.Path
